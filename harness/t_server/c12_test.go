package server

// C12 — graceful-restart and LLGR stale routes live exactly as long as the RFCs allow.
//
// Monitor: a whole BgpServer runs in virtual time (simnet) with the peer under test R (the one that
// restarts), a competitor F announcing some of the same prefixes, and one or two observers. Every
// scenario is driven by a PRNG over the capability combinations of both sides, families, route sets,
// loss kinds, reconnection timing, re-announcement, End-of-RIB order, second losses and LLGR times.
// The reference c12Model (c12_model_test.go) gets exactly the events the harness produces; at every
// expected transition instant t the observable state (ListPath ADJ_IN / GLOBAL, ListPeer, what the
// observers were sent) is sampled at t-1ms and at t and compared with the model.

import (
	"context"
	"fmt"
	"math/rand/v2"
	"net/netip"
	"sort"
	"strings"
	"testing"
	"testing/synctest"
	"time"

	"github.com/osrg/gobgp/v4/api"
	"github.com/osrg/gobgp/v4/internal/verif/vlib"
	"github.com/osrg/gobgp/v4/pkg/apiutil"
	"github.com/osrg/gobgp/v4/pkg/packet/bgp"
)

const (
	c12RAddr = "10.0.0.2"
	c12RAS   = 65001
	c12FAddr = "10.0.0.3"
	c12FAS   = 65002
	c12Eps   = time.Millisecond
)

var c12Pool = map[bgp.Family][]string{
	bgp.RF_IPv4_UC: {"10.12.0.0/24", "10.12.1.0/24", "10.12.2.0/24", "10.12.3.0/25"},
	bgp.RF_IPv6_UC: {"2001:db8:12::/48", "2001:db8:13::/48", "2001:db8:14::/64"},
	bgp.RF_IPv4_MC: {"10.99.0.0/24", "10.99.1.0/24"},
}

type c12Abort struct{ why string }

type c12Comp struct {
	Ver int
	Len int // AS_PATH length of the competitor's route: 1 (beats R's 2) or 3 (loses to it)
}

type c12Obs struct {
	sp   *simSpeaker
	llgr bool
	done int
	view map[c12Key]c12ObsRoute
}

type c12ObsRoute struct {
	Src       uint32
	Ver       int
	LLGRStale bool
	At        time.Time
}

type c12H struct {
	t    *testing.T
	rec  *vlib.Rec
	idx  int
	r    *rand.Rand
	n    *simNet
	m    *c12Model
	fams []bgp.Family
	cfg  c12HelperCfg
	base time.Time

	R        *simSpeaker
	F        *simSpeaker
	obs      []*c12Obs
	rOpen    c12Open
	open1    c12Open
	rDeleted bool
	rDisable bool
	rHold    uint16
	rLastTx  time.Time
	rKeep    bool // keepalives are being sent for R
	rEstAt   time.Time

	planned   c12LossKind
	notifCode [2]uint8

	comp map[c12Key]c12Comp
	ver  int

	combo    string
	kinds    []string
	buckets  []string
	log      []string
	seen     map[string]bool
	checks   int
	staleObs int

	peerStateSeen bool
}

func (h *c12H) logf(f string, a ...any) {
	s := fmt.Sprintf("+%7.3fs ", time.Since(h.base).Seconds()) + fmt.Sprintf(f, a...)
	h.log = append(h.log, s)
	if simDebug {
		fmt.Println("C12DBG " + s)
	}
}

func (h *c12H) witness() map[string]any {
	hist := append([]string{}, h.log...)
	if len(hist) > 120 {
		hist = append(hist[:20:20], hist[len(hist)-100:]...)
	}
	ml := h.m.log
	if len(ml) > 60 {
		ml = ml[len(ml)-60:]
	}
	return map[string]any{"case": h.idx, "combo": h.combo, "helper_config": fmt.Sprintf("%+v", h.cfg), "peer_open": h.rOpen.String(),
		"history": hist, "model_notes": append([]string{}, ml...)}
}

func (h *c12H) viol(hard bool, key, what string) {
	if !strings.HasPrefix(key, "c12:reopen-") && !strings.HasPrefix(key, "c12:consecutive-restart") && !strings.HasPrefix(key, "c12:peer-state:") && !strings.HasPrefix(key, "c12:llst-timer:fresh-route-dropped") {
		// context first, so that one key prefix names one root cause
		key = "c12:" + h.m.ctx() + strings.TrimPrefix(key, "c12:")
	}
	if h.seen[key] {
		return
	}
	h.seen[key] = true
	w := h.witness()
	w["at"] = fmt.Sprintf("+%.3fs", time.Since(h.base).Seconds())
	h.rec.Violation(key, what, w)
	h.logf("VIOLATION %s: %s", key, what)
	if hard {
		panic(c12Abort{key})
	}
}

func (h *c12H) inconclusive(why string) {
	h.rec.Inconclusive("c12: case " + fmt.Sprint(h.idx) + ": " + why)
	panic(c12Abort{"inconclusive: " + why})
}

// ---------------------------------------------------------------- wire helpers

func c12Caps(as uint32, fams []bgp.Family, o c12Open) []bgp.ParameterCapabilityInterface {
	var caps []bgp.ParameterCapabilityInterface
	for _, f := range fams {
		caps = append(caps, bgp.NewCapMultiProtocol(f))
	}
	caps = append(caps, bgp.NewCapFourOctetASNumber(as))
	if o.GR {
		var tuples []*bgp.CapGracefulRestartTuple
		for _, f := range c12SortedFams(o.GRFams) {
			tuples = append(tuples, bgp.NewCapGracefulRestartTuple(f, o.GRFams[f]))
		}
		caps = append(caps, bgp.NewCapGracefulRestart(o.RBit, o.NBit, o.RT, tuples))
	}
	if o.LLGR {
		var fs []bgp.Family
		for f := range o.LLFams {
			fs = append(fs, f)
		}
		sort.Slice(fs, func(i, j int) bool { return fs[i] < fs[j] })
		var tuples []*bgp.CapLongLivedGracefulRestartTuple
		for _, f := range fs {
			tuples = append(tuples, bgp.NewCapLongLivedGracefulRestartTuple(f, true, o.LLFams[f]))
		}
		caps = append(caps, bgp.NewCapLongLivedGracefulRestart(tuples))
	}
	return caps
}

func c12VerComm(as uint32, ver int) uint32 { return as<<16 | uint32(ver&0xffff) }

func c12Announce(as uint32, self string, k c12Key, tail []uint32, comms []uint32) *bgp.BGPMessage {
	pfx := netip.MustParsePrefix(k.Prefix)
	path := append([]uint32{as}, tail...)
	attrs := []bgp.PathAttributeInterface{
		bgp.NewPathAttributeOrigin(0),
		bgp.NewPathAttributeAsPath([]bgp.AsPathParamInterface{bgp.NewAs4PathParam(bgp.BGP_ASPATH_ATTR_TYPE_SEQ, path)}),
		bgp.NewPathAttributeCommunities(comms),
	}
	nl, _ := bgp.NewIPAddrPrefix(pfx)
	switch k.Fam {
	case bgp.RF_IPv4_UC:
		nh, _ := bgp.NewPathAttributeNextHop(netip.MustParseAddr(self))
		attrs = append(attrs, nh)
		return bgp.NewBGPUpdateMessage(nil, attrs, []bgp.PathNLRI{{NLRI: nl}})
	case bgp.RF_IPv6_UC:
		mp, _ := bgp.NewPathAttributeMpReachNLRI(k.Fam, []bgp.PathNLRI{{NLRI: nl}}, netip.MustParseAddr(simV6Of(self)))
		attrs = append(attrs, mp)
	default:
		mp, _ := bgp.NewPathAttributeMpReachNLRI(k.Fam, []bgp.PathNLRI{{NLRI: nl}}, netip.MustParseAddr(self))
		attrs = append(attrs, mp)
	}
	return bgp.NewBGPUpdateMessage(nil, attrs, nil)
}

func c12Withdraw(k c12Key) *bgp.BGPMessage {
	nl, _ := bgp.NewIPAddrPrefix(netip.MustParsePrefix(k.Prefix))
	if k.Fam == bgp.RF_IPv4_UC {
		return bgp.NewBGPUpdateMessage([]bgp.PathNLRI{{NLRI: nl}}, nil, nil)
	}
	mp, _ := bgp.NewPathAttributeMpUnreachNLRI(k.Fam, []bgp.PathNLRI{{NLRI: nl}})
	return bgp.NewBGPUpdateMessage(nil, []bgp.PathAttributeInterface{mp}, nil)
}

func c12APIFamily(f bgp.Family) *api.Family {
	return &api.Family{Afi: api.Family_Afi(f.Afi()), Safi: api.Family_Safi(f.Safi())}
}

// ---------------------------------------------------------------- observers

// refresh replays what gobgp wrote to the observer since the last call.
func (o *c12Obs) refresh() {
	o.sp.mu.Lock()
	defer o.sp.mu.Unlock()
	for ; o.done < len(o.sp.rx); o.done++ {
		rx := o.sp.rx[o.done]
		u, ok := rx.Msg.Body.(*bgp.BGPUpdate)
		if !ok {
			continue
		}
		if eor, _ := u.IsEndOfRib(); eor {
			continue
		}
		for _, w := range u.WithdrawnRoutes {
			delete(o.view, c12Key{bgp.RF_IPv4_UC, w.NLRI.String()})
		}
		var rt c12ObsRoute
		rt.At = rx.At
		for _, a := range u.PathAttributes {
			switch v := a.(type) {
			case *bgp.PathAttributeAsPath:
				var all []uint32
				for _, p := range v.Value {
					all = append(all, p.GetAS()...)
				}
				if len(all) >= 2 {
					rt.Src = all[1]
				}
			case *bgp.PathAttributeCommunities:
				for _, c := range v.Value {
					switch {
					case c == uint32(bgp.COMMUNITY_LLGR_STALE):
						rt.LLGRStale = true
					case c>>16 == c12RAS || c>>16 == c12FAS:
						rt.Ver = int(c & 0xffff)
					}
				}
			case *bgp.PathAttributeMpUnreachNLRI:
				fam := bgp.NewFamily(v.AFI, v.SAFI)
				for _, w := range v.Value {
					delete(o.view, c12Key{fam, w.NLRI.String()})
				}
			}
		}
		for _, nl := range u.NLRI {
			o.view[c12Key{bgp.RF_IPv4_UC, nl.NLRI.String()}] = rt
		}
		for _, a := range u.PathAttributes {
			if re, ok := a.(*bgp.PathAttributeMpReachNLRI); ok {
				fam := bgp.NewFamily(re.AFI, re.SAFI)
				for _, nl := range re.Value {
					o.view[c12Key{fam, nl.NLRI.String()}] = rt
				}
			}
		}
	}
}

// ---------------------------------------------------------------- time

func (h *c12H) sleepUntil(t time.Time) {
	for {
		now := time.Now()
		if !now.Before(t) {
			return
		}
		step := t.Sub(now)
		ka := h.m.up && h.rHold > 0 && h.rKeep
		if ka && step > time.Second {
			step = time.Second
		}
		time.Sleep(step)
		if ka {
			if h.R.sendMsg(bgp.NewBGPKeepAliveMessage()) == nil {
				h.rLastTx = time.Now()
			}
		}
	}
}

func (h *c12H) sleep(d time.Duration) { h.sleepUntil(time.Now().Add(d)) }

// walkTimers samples just before and at every model timer up to limit (zero = all of them).
func (h *c12H) walkTimers(limit time.Time) {
	for {
		t, what, ok := h.m.nextTimer()
		if !ok || (!limit.IsZero() && t.After(limit)) {
			break
		}
		if t.Sub(time.Now()) > c12Eps {
			if t.Sub(time.Now()) > 2*time.Second && h.r.IntN(3) == 0 {
				// an arbitrary instant inside the interval
				h.sleepUntil(time.Now().Add(time.Duration(1+h.r.Int64N(int64(t.Sub(time.Now())/time.Second-1))) * time.Second))
				h.check("inside the interval before " + what)
			}
			h.sleepUntil(t.Add(-c12Eps))
			h.check("1ms before " + what)
		}
		h.sleepUntil(t)
		h.check("at " + what)
	}
	if !limit.IsZero() {
		h.sleepUntil(limit)
	}
}

// ---------------------------------------------------------------- observation

func c12Comms(p *apiutil.Path) (ver int, llgrStale, noLLGR bool) {
	ver = -1
	for _, a := range p.Attrs {
		if c, ok := a.(*bgp.PathAttributeCommunities); ok {
			for _, v := range c.Value {
				switch {
				case v == uint32(bgp.COMMUNITY_LLGR_STALE):
					llgrStale = true
				case v == uint32(bgp.COMMUNITY_NO_LLGR):
					noLLGR = true
				case v>>16 == c12RAS || v>>16 == c12FAS:
					ver = int(v & 0xffff)
				}
			}
		}
	}
	return
}

func (h *c12H) allKeys() []c12Key {
	var ks []c12Key
	for _, f := range h.fams {
		for _, p := range c12Pool[f] {
			ks = append(ks, c12Key{f, p})
		}
	}
	return ks
}

func (h *c12H) removedClass(k c12Key) string {
	if c, ok := h.m.gone[k]; ok {
		return c
	}
	return "never-announced"
}

// check compares everything observable with the model at the current (exact) instant.
func (h *c12H) check(tag string) {
	synctest.Wait()
	now := time.Now()
	m := h.m
	m.advance(now)
	h.checks++
	h.rec.Count("samples", 1)
	phase := m.phase()
	h.logf("check [%s] phase=%s", tag, phase)
	desc := func(k c12Key) string { return fmt.Sprintf("%s (sampled %s, phase %s)", k, tag, phase) }

	// ---- Adj-RIB-In of R
	if !h.rDeleted {
		for _, f := range h.fams {
			got, err := h.n.listPaths(api.TableType_TABLE_TYPE_ADJ_IN, c12RAddr, f)
			if err != nil {
				h.inconclusive("ListPath(ADJ_IN): " + err.Error())
			}
			for _, p := range c12Pool[f] {
				k := c12Key{f, p}
				want := m.routes[k]
				ps := got[simRouteKey{f, p, 0}]
				if len(ps) > 1 {
					h.viol(true, "c12:adj-in:duplicate-path", fmt.Sprintf("Adj-RIB-In of the peer holds %d paths for %s", len(ps), desc(k)))
				}
				if want == nil {
					if len(ps) > 0 {
						h.viol(true, "c12:"+h.removedClass(k)+":route-survives", fmt.Sprintf("Adj-RIB-In still holds %s (stale=%v) although the model removed it: %s", desc(k), ps[0].Stale, h.removedClass(k)))
					}
					continue
				}
				if len(ps) == 0 {
					if want.Either {
						h.rec.Count("either_absent", 1)
						continue
					}
					if !want.Stale && m.llstFiredUp[f] {
						h.viol(true, "c12:llst-timer:fresh-route-dropped", fmt.Sprintf("Adj-RIB-In lacks %s, (re-)announced in the current session, after the long-lived stale timer of %s ran out; model: %+v", desc(k), f, *want))
					}
					h.viol(true, "c12:"+phase+":route-missing", fmt.Sprintf("Adj-RIB-In lacks %s; model: %+v", desc(k), *want))
				}
				if want.Either {
					h.rec.Count("either_present", 1)
				}
				ver, ls, _ := c12Comms(ps[0])
				if ver != want.Ver {
					h.viol(true, "c12:"+phase+":wrong-version", fmt.Sprintf("Adj-RIB-In holds version %d of %s, the peer's latest is %d", ver, desc(k), want.Ver))
				}
				switch {
				case want.LLGR:
					if !ls {
						h.viol(true, "c12:llgr:route-without-llgr-stale", fmt.Sprintf("long-lived phase: %s is kept without the LLGR_STALE community", desc(k)))
					}
				case want.Stale:
					if !ps[0].Stale {
						h.viol(true, "c12:"+phase+":retained-route-not-stale", fmt.Sprintf("%s is retained from the lost session but not flagged stale", desc(k)))
					}
					if ls && !want.RxLLGRStale {
						h.viol(true, "c12:"+phase+":llgr-stale-attached-early", fmt.Sprintf("%s carries LLGR_STALE before the restart time is over", desc(k)))
					}
					h.staleObs++
				default:
					if ps[0].Stale {
						h.viol(true, "c12:"+phase+":fresh-route-flagged-stale", fmt.Sprintf("%s was (re-)announced in the current session but is flagged stale", desc(k)))
					}
					if ls && !want.RxLLGRStale {
						h.viol(true, "c12:"+phase+":fresh-route-carries-llgr-stale", fmt.Sprintf("%s was (re-)announced in the current session without LLGR_STALE but carries it", desc(k)))
					}
				}
			}
		}
	}

	// ---- Loc-RIB
	for _, f := range h.fams {
		got, err := h.n.listPaths(api.TableType_TABLE_TYPE_GLOBAL, "", f)
		if err != nil {
			h.inconclusive("ListPath(GLOBAL): " + err.Error())
		}
		for _, p := range c12Pool[f] {
			k := c12Key{f, p}
			want := m.routes[k]
			c, hasC := h.comp[k]
			var rp, fp *apiutil.Path
			ps := got[simRouteKey{f, p, 0}]
			for _, x := range ps {
				switch x.PeerAddress.String() {
				case c12RAddr:
					rp = x
				case c12FAddr:
					fp = x
				}
			}
			if want == nil && rp != nil {
				h.viol(true, "c12:"+h.removedClass(k)+":route-survives-in-loc-rib", fmt.Sprintf("Loc-RIB still holds the peer's %s (stale=%v) although the model removed it: %s", desc(k), rp.Stale, h.removedClass(k)))
			}
			if want != nil && !want.Either && rp == nil {
				h.viol(true, "c12:"+phase+":route-missing-in-loc-rib", fmt.Sprintf("Loc-RIB lacks the peer's %s; model: %+v", desc(k), *want))
			}
			if hasC != (fp != nil) {
				h.inconclusive(fmt.Sprintf("competitor route %s present=%v expected=%v", k, fp != nil, hasC))
			}
			if want != nil && want.Either {
				continue
			}
			if want != nil && want.Stale && !want.LLGR && !rp.Stale {
				h.viol(true, "c12:"+phase+":retained-route-not-stale-in-loc-rib", fmt.Sprintf("Loc-RIB: %s is retained from the lost session but not flagged stale", desc(k)))
			}
			if want != nil && !want.Stale && rp.Stale {
				h.viol(true, "c12:"+phase+":fresh-route-flagged-stale-in-loc-rib", fmt.Sprintf("Loc-RIB: %s was (re-)announced in the current session but is flagged stale", desc(k)))
			}
			if len(ps) == 0 {
				continue
			}
			wantBest := c12FAddr
			if want != nil && (!hasC || (!want.llgrStale() && c.Len == 3)) {
				wantBest = c12RAddr
			}
			if gotBest := ps[0].PeerAddress.String(); gotBest != wantBest {
				switch {
				case want != nil && want.llgrStale() && gotBest == c12RAddr:
					h.viol(true, "c12:llgr:llgr-stale-route-preferred-over-fresh", fmt.Sprintf("best path of %s is the peer's LLGR_STALE route although a fresh route from %s exists", desc(k), c12FAddr))
				case want != nil && want.Stale:
					h.viol(true, "c12:"+phase+":stale-route-not-best-path-eligible", fmt.Sprintf("best path of %s is %s; the retained (stale, AS_PATH length 2) route of the peer should still win against AS_PATH length %d", desc(k), gotBest, c.Len))
				default:
					h.viol(true, "c12:"+phase+":wrong-best", fmt.Sprintf("best path of %s is from %s, expected %s", desc(k), gotBest, wantBest))
				}
			}
		}
	}

	// ---- what the observers hold
	for _, o := range h.obs {
		o.refresh()
		name := "non-llgr-observer"
		if o.llgr {
			name = "llgr-observer"
		}
		for _, k := range h.allKeys() {
			want := m.routes[k]
			c, hasC := h.comp[k]
			if want != nil && want.Either {
				continue
			}
			got, have := o.view[k]
			bestR := want != nil && (!hasC || (!want.llgrStale() && c.Len == 3))
			switch {
			case want == nil && !hasC:
				if have {
					h.viol(true, "c12:"+h.removedClass(k)+":not-withdrawn-from-observer", fmt.Sprintf("%s (%s) still holds %s (src AS%d, sent %s) although the model removed it: %s", o.sp.conf.Addr, name, desc(k), got.Src, got.At.Sub(h.base), h.removedClass(k)))
				}
			case bestR && want.llgrStale() && !o.llgr:
				if have {
					h.viol(true, "c12:llgr:advertised-to-non-llgr-peer", fmt.Sprintf("%s never sent the LLGR capability but holds the LLGR_STALE route %s (src AS%d, llgr-stale=%v)", o.sp.conf.Addr, desc(k), got.Src, got.LLGRStale))
				}
			case bestR:
				if !have {
					h.viol(true, "c12:"+phase+":observer-lacks-route", fmt.Sprintf("%s (%s) does not hold %s; model: %+v", o.sp.conf.Addr, name, desc(k), *want))
				}
				if got.Src != c12RAS {
					h.viol(true, "c12:"+phase+":observer-wrong-source", fmt.Sprintf("%s (%s) holds %s from AS%d, expected the peer's route", o.sp.conf.Addr, name, desc(k), got.Src))
				}
				if got.Ver != want.Ver {
					h.viol(true, "c12:"+phase+":observer-wrong-version", fmt.Sprintf("%s (%s) holds version %d of %s, the peer's latest is %d", o.sp.conf.Addr, name, got.Ver, desc(k), want.Ver))
				}
				if want.llgrStale() && !got.LLGRStale {
					h.viol(true, "c12:llgr:advertised-without-llgr-stale", fmt.Sprintf("%s (%s) holds the long-lived stale %s without the LLGR_STALE community", o.sp.conf.Addr, name, desc(k)))
				}
				if !want.llgrStale() && got.LLGRStale {
					h.viol(true, "c12:"+phase+":observer-route-carries-llgr-stale", fmt.Sprintf("%s (%s) holds %s with LLGR_STALE although it is not long-lived stale", o.sp.conf.Addr, name, desc(k)))
				}
			default: // competitor is best
				if !have {
					h.viol(true, "c12:"+phase+":observer-lacks-competitor-route", fmt.Sprintf("%s (%s) does not hold %s (best should be the competitor's route)", o.sp.conf.Addr, name, desc(k)))
				}
				if got.Src != c12FAS {
					if want != nil && want.llgrStale() {
						h.viol(true, "c12:llgr:llgr-stale-route-advertised-instead-of-fresh", fmt.Sprintf("%s (%s) holds the peer's LLGR_STALE %s although a fresh route exists", o.sp.conf.Addr, name, desc(k)))
					}
					h.viol(true, "c12:"+phase+":observer-wrong-source", fmt.Sprintf("%s (%s) holds %s from AS%d, expected the competitor's route", o.sp.conf.Addr, name, desc(k), got.Src))
				}
			}
		}
	}

	// ---- ListPeer GR state (does not abort the scenario)
	if !h.rDeleted {
		var pr *api.Peer
		h.n.s.ListPeer(context.Background(), &api.ListPeerRequest{Address: c12RAddr}, func(p *api.Peer) { pr = p })
		if pr == nil || pr.GracefulRestart == nil {
			return
		}
		got := pr.GracefulRestart.PeerRestarting
		h.rec.Count("peer_state_samples", 1)
		if h.peerStateSeen {
			return
		}
		ctx := "other"
		switch {
		case !m.lastLossQualified && m.capChanged:
			ctx = "after-capability-change" // gobgp took the loss for graceful
		case !m.lastLossQualified:
			ctx = "after-non-qualifying-loss"
		case m.llgrEpisodes > 0:
			ctx = "after-llgr-phase"
		case m.capChanged:
			ctx = "after-capability-change"
		}
		switch {
		case !m.up && got != m.restarting:
			h.peerStateSeen = true
			what := "stuck"
			if !got {
				what = "cleared-early"
			}
			h.viol(false, "c12:peer-state:peer-restarting-"+what+":"+ctx, fmt.Sprintf("session down, model retains stale routes=%v (%d routes left) but ListPeer says PeerRestarting=%v (sampled %s)", m.restarting, len(m.routes), got, tag))
		case m.up && !m.restarting && got && h.allEORSent():
			h.peerStateSeen = true
			h.viol(false, "c12:peer-state:peer-restarting-stuck:after-all-eor", fmt.Sprintf("every End-of-RIB of the session arrived but ListPeer still says PeerRestarting (sampled %s)", tag))
		}
	}
}

func (h *c12H) allEORSent() bool {
	for _, f := range h.fams {
		if !h.m.eor[f] {
			return false
		}
	}
	return true
}

// ---------------------------------------------------------------- scenario generation

func (h *c12H) genOpen() c12Open {
	r := h.r
	o := c12Open{GRFams: map[bgp.Family]bool{}, LLFams: map[bgp.Family]uint32{}}
	o.GR = r.IntN(12) != 0
	o.NBit = r.IntN(2) == 0
	switch r.IntN(6) {
	case 0:
		o.RT = 0
	case 1:
		o.RT = uint16(1 + r.IntN(4))
	default:
		o.RT = uint16(8 + r.IntN(14))
	}
	for _, f := range h.fams {
		if f == bgp.RF_IPv4_MC {
			continue // the family the peer never lists
		}
		if r.IntN(5) != 0 {
			o.GRFams[f] = true
		}
	}
	o.LLGR = r.IntN(3) != 0
	if o.LLGR {
		for f := range o.GRFams {
			if r.IntN(4) != 0 {
				o.LLFams[f] = uint32(2 + r.IntN(9))
			}
		}
	}
	return o
}

func (h *c12H) planSession() {
	r := h.r
	switch k := r.IntN(100); {
	case k < 30:
		h.planned = c12LossClose
	case k < 48:
		h.planned = c12LossHold
	case k < 74:
		h.planned = c12LossNotif
	case k < 82:
		h.planned = c12LossHardReset
	case k < 87:
		h.planned = c12LossAdminShutdown
	case k < 91:
		h.planned = c12LossAdminDisable
	case k < 95:
		h.planned = c12LossAdminReset
	default:
		h.planned = c12LossDelete
	}
	codes := [][2]uint8{{6, 4}, {6, 2}, {6, 6}, {3, 1}, {4, 0}, {5, 1}, {6, 3}, {6, 7}}
	h.notifCode = codes[r.IntN(len(codes))]
	h.rHold = 0
	if h.planned == c12LossHold {
		h.rHold = uint16(3 + r.IntN(4))
	} else if r.IntN(4) == 0 {
		h.rHold = uint16(3 + r.IntN(7))
	}
	h.rKeep = true
}

func (h *c12H) comboString() string {
	b := func(v bool, s string) string {
		if v {
			return s
		}
		return "-"
	}
	o := h.rOpen
	rt := "rt0"
	if o.RT > 0 && o.RT < 8 {
		rt = "rtS"
	} else if o.RT >= 8 {
		rt = "rtL"
	}
	return fmt.Sprintf("helper:%s%s%s|peer:%s%s%s|%s", b(h.cfg.GR, "G"), b(h.cfg.NBit, "N"), b(h.cfg.LLGR, "L"),
		b(o.GR, "G"), b(o.GR && o.NBit, "N"), b(o.GR && o.LLGR, "L"), rt)
}

// ---------------------------------------------------------------- R's session

func (h *c12H) connectR(tries int) bool {
	h.R.conf.Caps = c12Caps(c12RAS, h.fams, h.rOpen)
	h.R.conf.Hold = h.rHold
	for i := 0; i < tries; i++ {
		err := h.R.connectPassive()
		synctest.Wait()
		if err == nil && h.R.established() {
			now := time.Now()
			h.rLastTx, h.rEstAt = now, now
			h.logf("R established, OPEN %s hold=%d (planned loss: %s)", h.rOpen, h.rHold, h.planned)
			h.m.sessionUp(now, h.rOpen)
			return true
		}
		h.R.close()
		if i+1 < tries {
			h.sleep(time.Second)
			h.m.advance(time.Now())
		}
	}
	return false
}

func (h *c12H) send(sp *simSpeaker, msg *bgp.BGPMessage) {
	if err := sp.sendMsg(msg); err != nil {
		h.inconclusive("send to gobgp failed: " + err.Error())
	}
	if sp == h.R {
		h.rLastTx = time.Now()
	}
}

func (h *c12H) rAnnounce(k c12Key, bump bool) {
	r := h.r
	old := h.m.routes[k]
	ver := 0
	noLLGR, rxStale := r.IntN(4) == 0, r.IntN(8) == 0
	if old != nil {
		ver, noLLGR, rxStale = old.Ver, old.NoLLGR, old.RxLLGRStale
	}
	if old == nil || bump {
		h.ver++
		ver = h.ver
		if bump && r.IntN(3) == 0 {
			noLLGR = !noLLGR
		}
	}
	comms := []uint32{c12VerComm(c12RAS, ver)}
	if noLLGR {
		comms = append(comms, uint32(bgp.COMMUNITY_NO_LLGR))
	}
	if rxStale {
		comms = append(comms, uint32(bgp.COMMUNITY_LLGR_STALE))
	}
	h.send(h.R, c12Announce(c12RAS, c12RAddr, k, []uint32{64512}, comms))
	h.m.announce(time.Now(), k, ver, noLLGR, rxStale)
	h.logf("R announces %s ver=%d no-llgr=%v llgr-stale=%v", k, ver, noLLGR, rxStale)
}

func (h *c12H) rInitialRoutes() {
	for _, k := range h.allKeys() {
		if h.r.IntN(4) != 0 {
			h.rAnnounce(k, false)
		}
	}
	if h.r.IntN(2) == 0 {
		for _, f := range h.fams {
			h.send(h.R, bgp.NewEndOfRib(f))
			h.m.eorRx(time.Now(), f)
		}
		h.logf("R sends End-of-RIB for every family")
	}
}

// doLoss makes the planned loss happen and returns its exact instant.
func (h *c12H) doLoss() time.Time {
	kind := h.planned
	ctx := context.Background()
	switch kind {
	case c12LossClose:
		h.R.close()
	case c12LossHold:
		h.rKeep = false
		t := h.rLastTx.Add(time.Duration(h.rHold) * time.Second)
		if time.Now().Before(t.Add(-c12Eps)) {
			h.sleepUntil(t.Add(-c12Eps))
			h.check("1ms before hold-timer expiry")
		}
		h.sleepUntil(t)
	case c12LossNotif:
		h.send(h.R, bgp.NewBGPNotificationMessage(h.notifCode[0], h.notifCode[1], nil))
	case c12LossHardReset:
		h.send(h.R, bgp.NewBGPNotificationMessage(bgp.BGP_ERROR_CEASE, bgp.BGP_ERROR_SUB_HARD_RESET, nil))
	case c12LossAdminShutdown:
		if err := h.n.s.ShutdownPeer(ctx, &api.ShutdownPeerRequest{Address: c12RAddr}); err != nil {
			h.inconclusive("ShutdownPeer: " + err.Error())
		}
	case c12LossAdminDisable:
		if err := h.n.s.DisablePeer(ctx, &api.DisablePeerRequest{Address: c12RAddr}); err != nil {
			h.inconclusive("DisablePeer: " + err.Error())
		}
		h.rDisable = true
	case c12LossAdminReset:
		if err := h.n.s.ResetPeer(ctx, &api.ResetPeerRequest{Address: c12RAddr}); err != nil {
			h.inconclusive("ResetPeer: " + err.Error())
		}
	case c12LossDelete:
		if err := h.n.s.DeletePeer(ctx, &api.DeletePeerRequest{Address: c12RAddr}); err != nil {
			h.inconclusive("DeletePeer: " + err.Error())
		}
		h.rDeleted = true
	}
	synctest.Wait()
	at := time.Now()
	h.R.close()
	synctest.Wait()
	if !h.rDeleted && h.R.established() {
		h.inconclusive("session still established after loss " + kind.String())
	}
	extra := ""
	if kind == c12LossNotif {
		extra = fmt.Sprintf(" code %d/%d", h.notifCode[0], h.notifCode[1])
	}
	h.logf("LOSS %s%s", kind, extra)
	return at
}

// lifecycle: one loss of the established session and everything that follows from it.
func (h *c12H) lifecycle(depth int) {
	r := h.r
	m := h.m
	if d := r.IntN(4); d > 0 && h.planned != c12LossHold {
		h.sleep(time.Duration(d) * time.Second)
	}
	kind := h.planned
	at := h.doLoss()
	q := m.loss(at, kind)
	h.kinds = append(h.kinds, kind.String())
	h.rec.Count("loss_"+kind.String(), 1)
	if q {
		h.rec.Count("loss_qualifying", 1)
	} else {
		h.rec.Count("loss_non_qualifying", 1)
	}
	h.check("right after the loss (" + kind.String() + ")")
	if !q {
		h.buckets = append(h.buckets, "non-qualifying")
		h.sleep(time.Second)
		h.check("1s after the non-qualifying loss")
		return
	}
	rt := time.Duration(m.open.RT) * time.Second
	var opts []string
	if m.open.RT >= 8 {
		opts = []string{"before", "before", "at", "after", "never"}
	} else {
		opts = []string{"at", "after", "after", "never", "never"}
	}
	bucket := opts[r.IntN(len(opts))]
	h.buckets = append(h.buckets, bucket)
	h.rec.Count("bucket_"+bucket, 1)
	h.logf("reconnection plan: %s (restart time %ds)", bucket, m.open.RT)
	h.nextOpen(bucket)
	h.planSession()
	switch bucket {
	case "never":
		if r.IntN(5) == 0 {
			// de-configure the peer somewhere inside the window
			if t, _, ok := m.nextTimer(); ok && t.Sub(time.Now()) > 2*time.Second {
				h.sleep(time.Second)
			}
			h.check("before DeletePeer inside the restart window")
			if err := h.n.s.DeletePeer(context.Background(), &api.DeletePeerRequest{Address: c12RAddr}); err != nil {
				h.inconclusive("DeletePeer: " + err.Error())
			}
			h.rDeleted = true
			h.logf("DeletePeer while the peer is restarting")
			synctest.Wait()
			m.loss(time.Now(), c12LossDelete)
			h.rec.Count("delete_inside_window", 1)
			h.check("right after DeletePeer inside the restart window")
			return
		}
		h.walkTimers(time.Time{})
		h.sleep(2 * time.Second)
		h.check("2s after the last timer")
		return
	case "before":
		u := at.Add(time.Duration(6+r.IntN(int(m.open.RT)-6)) * time.Second)
		h.walkTimers(u)
		h.check("just before reconnecting inside the restart window")
		if !h.connectR(1) {
			h.inconclusive("R could not reconnect inside the restart window")
		}
	case "at":
		u := at.Add(rt)
		if rt > 0 {
			h.sleepUntil(u.Add(-c12Eps))
			h.check("1ms before restart-timer")
		}
		h.sleepUntil(u)
		// connection attempt and restart timer race at the same instant: both outcomes are admissible
		h.R.conf.Caps = c12Caps(c12RAS, h.fams, h.rOpen)
		h.R.conf.Hold = h.rHold
		err := h.R.connectPassive()
		synctest.Wait()
		if err == nil && h.R.established() {
			m.restartAt = nil // re-established "within" the restart time
			now := time.Now()
			h.rLastTx, h.rEstAt = now, now
			m.sessionUp(now, h.rOpen)
			h.rec.Count("race_at_expiry_session_won", 1)
			h.logf("R established exactly at restart-time expiry (session won the race), OPEN %s", h.rOpen)
		} else {
			h.R.close()
			h.rec.Count("race_at_expiry_timer_won", 1)
			h.check("at restart-timer (connection attempt refused)")
			h.reconnectLater()
		}
	case "after":
		h.reconnectLater()
	}
	if !m.up {
		return
	}
	h.check("right after re-establishment")
	h.resync(depth)
}

// reconnectLater walks the timers to some instant after restart-time expiry and re-establishes.
func (h *c12H) reconnectLater() {
	m := h.m
	r := h.r
	var limit time.Time
	if t, _, ok := m.nextTimer(); ok {
		limit = t
	}
	// with LLGR: stop inside the long-lived phase (2 of 3) or after it is all over
	h.walkTimers(limit)
	h.m.advance(time.Now())
	if m.inLLGR && r.IntN(3) != 0 {
		if t, _, ok := m.nextTimer(); ok && t.Sub(time.Now()) > 2*time.Second && r.IntN(2) == 0 {
			h.sleep(time.Second)
		}
		h.rec.Count("reconnect_inside_llgr", 1)
	} else {
		h.walkTimers(time.Time{})
	}
	h.check("before reconnecting after restart-time expiry")
	if !h.connectR(12) {
		if m.inLLGR || len(m.llstAt) > 0 {
			// the long-lived timers ran out while gobgp sat in Idle; fine, just keep trying
			h.walkTimers(time.Time{})
		}
		if !h.connectR(40) {
			h.inconclusive("R could not reconnect after restart-time expiry")
		}
	}
}

// nextOpen draws the OPEN of the next session of R.
func (h *c12H) nextOpen(bucket string) {
	r := h.r
	o := h.rOpen
	n := c12Open{GR: o.GR, RBit: r.IntN(8) != 0, NBit: o.NBit, RT: o.RT, LLGR: o.LLGR, GRFams: map[bgp.Family]bool{}, LLFams: map[bgp.Family]uint32{}}
	for f, v := range o.GRFams {
		n.GRFams[f] = v
	}
	for f, v := range o.LLFams {
		n.LLFams[f] = v
	}
	if r.IntN(3) == 0 {
		n.RT = uint16(8 + r.IntN(10))
	}
	if bucket == "before" || bucket == "at" {
		switch r.IntN(16) {
		case 0:
			n.GR, n.LLGR = false, false
		case 1, 2:
			for _, f := range c12SortedFams(n.GRFams) {
				delete(n.GRFams, f)
				delete(n.LLFams, f)
				break
			}
		case 3, 4:
			for _, f := range c12SortedFams(n.GRFams) {
				if r.IntN(2) == 0 {
					n.GRFams[f] = false
				}
			}
		case 5:
			n.NBit = !n.NBit
		}
	} else if r.IntN(4) == 0 {
		// nothing is retained when this session comes up: the capabilities of a session are its own
		switch r.IntN(6) {
		case 0:
			n.GR, n.LLGR = false, false
		case 1:
			n.GR = true
			for _, f := range h.fams {
				if f != bgp.RF_IPv4_MC && r.IntN(2) == 0 {
					n.GRFams[f] = true
				}
			}
		case 2:
			n.NBit = !n.NBit
		case 3:
			for _, f := range c12SortedFams(n.GRFams) {
				delete(n.GRFams, f)
				delete(n.LLFams, f)
				break
			}
		case 4:
			n.LLGR = !n.LLGR
			if n.LLGR {
				for f := range n.GRFams {
					n.LLFams[f] = uint32(2 + r.IntN(9))
				}
			}
		case 5:
			for _, f := range c12SortedFams(n.GRFams) {
				if _, ok := n.LLFams[f]; ok {
					delete(n.LLFams, f)
					break
				}
			}
		}
		h.rec.Count("capabilities_changed_between_sessions", 1)
	}
	h.rOpen = n
}

// resync: the peer refreshes (some of) its routes and sends its End-of-RIB markers.
func (h *c12H) resync(depth int) {
	r := h.r
	m := h.m
	type step struct {
		what string
		k    c12Key
		f    bgp.Family
		bump bool
	}
	var steps []step
	omit := bgp.Family(0)
	if r.IntN(5) == 0 {
		omit = h.fams[r.IntN(len(h.fams))]
	}
	fams := append([]bgp.Family{}, h.fams...)
	r.Shuffle(len(fams), func(i, j int) { fams[i], fams[j] = fams[j], fams[i] })
	for _, f := range fams {
		for _, p := range c12Pool[f] {
			k := c12Key{f, p}
			old := m.routes[k]
			switch {
			case old != nil && r.IntN(10) < 6:
				steps = append(steps, step{what: "announce", k: k, bump: r.IntN(2) == 0})
			case old != nil && r.IntN(8) == 0:
				steps = append(steps, step{what: "withdraw", k: k})
			case old == nil && r.IntN(2) == 0:
				steps = append(steps, step{what: "announce", k: k, bump: true})
			}
		}
		if f != omit {
			steps = append(steps, step{what: "eor", f: f})
		}
	}
	if r.IntN(5) == 0 {
		r.Shuffle(len(steps), func(i, j int) { steps[i], steps[j] = steps[j], steps[i] })
	}
	if omit != 0 {
		h.logf("End-of-RIB for %s will be withheld", omit)
		h.rec.Count("eor_withheld", 1)
	}
	second := -1
	if depth < 2 && r.IntN(10) < 3 && len(steps) > 0 {
		second = r.IntN(len(steps) + 1)
	}
	for i, s := range steps {
		if i == second {
			break
		}
		switch s.what {
		case "announce":
			h.rAnnounce(s.k, s.bump)
		case "withdraw":
			h.send(h.R, c12Withdraw(s.k))
			m.withdraw(time.Now(), s.k)
			h.logf("R withdraws %s", s.k)
		case "eor":
			h.send(h.R, bgp.NewEndOfRib(s.f))
			m.eorRx(time.Now(), s.f)
			h.logf("R sends End-of-RIB %s", s.f)
			h.rec.Count("eor_sent", 1)
		}
		if r.IntN(3) != 0 || s.what == "eor" {
			if s.what == "eor" {
				h.check("after End-of-RIB " + s.f.String())
			} else {
				h.check("after " + s.what + " " + s.k.String())
			}
		}
		if r.IntN(3) == 0 {
			h.sleep(time.Duration(1+r.IntN(2)) * time.Second)
			h.check("a little later")
		}
	}
	if second >= 0 {
		h.rec.Count("second_loss_inside_window", 1)
		h.logf("second loss before the resynchronisation is complete (restarting=%v)", m.restarting)
		if m.inLLGR || len(m.llstAt) > 0 {
			// long-lived timers still running: RFC 9494 §4.2 leaves too much open for an exact oracle;
			// finish the synchronisation instead
			h.rec.Count("second_loss_skipped_llgr_running", 1)
		} else {
			h.lifecycle(depth + 1)
			return
		}
	}
	// long-lived timers may still be pending while the session is up
	h.walkTimers(time.Time{})
	h.sleep(time.Second)
	h.check("after the resynchronisation")
}

// ---------------------------------------------------------------- one scenario

func c12HelperScenario(t *testing.T, rec *vlib.Rec, idx int, r *rand.Rand) {
	n := simStart(t, &api.Global{Asn: simLocalAS, RouterId: "1.1.1.1"})
	defer func() {
		n.stop()
		synctest.Wait()
	}()
	h := &c12H{t: t, rec: rec, idx: idx, r: r, n: n, base: time.Now(), comp: map[c12Key]c12Comp{}, seen: map[string]bool{}}
	defer func() {
		if e := recover(); e != nil {
			if _, ok := e.(c12Abort); !ok {
				panic(e)
			}
		}
		h.finish()
	}()

	// families of R's session
	switch r.IntN(6) {
	case 0:
		h.fams = []bgp.Family{bgp.RF_IPv4_UC}
	case 1, 2:
		h.fams = []bgp.Family{bgp.RF_IPv4_UC, bgp.RF_IPv6_UC}
	case 3:
		h.fams = []bgp.Family{bgp.RF_IPv4_UC, bgp.RF_IPv4_MC}
	default:
		h.fams = []bgp.Family{bgp.RF_IPv4_UC, bgp.RF_IPv6_UC, bgp.RF_IPv4_MC}
	}
	h.cfg = c12HelperCfg{GR: r.IntN(12) != 0, NBit: r.IntN(3) != 0, LLGR: r.IntN(3) != 0, Fams: h.fams}
	if !h.cfg.GR {
		h.cfg.NBit, h.cfg.LLGR = false, false
	}
	h.m = c12NewModel(h.cfg)
	h.rOpen = h.genOpen()
	h.open1 = h.rOpen
	h.planSession()
	h.combo = h.comboString()
	helperOnly := r.IntN(4) == 0
	mpCfg, llCfg := map[bgp.Family]bool{}, map[bgp.Family]bool{}
	for _, f := range h.fams {
		mpCfg[f], llCfg[f] = r.IntN(2) == 0, r.IntN(2) == 0
	}
	allFams := func(p *api.Peer, mp, ll map[bgp.Family]bool) {
		p.AfiSafis = nil
		for _, f := range h.fams {
			af := &api.AfiSafi{Config: &api.AfiSafiConfig{Family: c12APIFamily(f), Enabled: true}}
			if mp != nil {
				af.MpGracefulRestart = &api.MpGracefulRestart{Config: &api.MpGracefulRestartConfig{Enabled: mp[f]}}
				af.LongLivedGracefulRestart = &api.LongLivedGracefulRestart{Config: &api.LongLivedGracefulRestartConfig{Enabled: ll[f], RestartTime: 60}}
			}
			p.AfiSafis = append(p.AfiSafis, af)
		}
	}
	var err error
	h.R, err = n.addPeer(simPeerSpec{Kind: simEBGP, Addr: c12RAddr, AS: c12RAS, ID: "2.2.2.2", Extra: func(p *api.Peer) {
		allFams(p, mpCfg, llCfg)
		if h.cfg.GR {
			p.GracefulRestart = &api.GracefulRestart{Enabled: true, RestartTime: 30, NotificationEnabled: h.cfg.NBit, LonglivedEnabled: h.cfg.LLGR, HelperOnly: helperOnly}
		}
	}})
	if err != nil {
		h.inconclusive("AddPeer R: " + err.Error())
	}
	h.F, err = n.addPeer(simPeerSpec{Kind: simEBGP, Addr: c12FAddr, AS: c12FAS, ID: "3.3.3.3", Extra: func(p *api.Peer) { allFams(p, nil, nil) },
		SpeakerMod: func(c *simSpeakerConf) { c.Caps = c12Caps(c12FAS, h.fams, c12Open{}) }})
	if err != nil {
		h.inconclusive("AddPeer F: " + err.Error())
	}
	nObs := 1 + r.IntN(2)
	for i := 0; i < nObs; i++ {
		llgr := r.IntN(2) == 0
		if i == 1 {
			llgr = !h.obs[0].llgr
		}
		as := uint32(65003 + i)
		addr := fmt.Sprintf("10.0.0.%d", 4+i)
		oo := c12Open{}
		cfgGR, cfgLL := false, false
		if llgr {
			oo = c12Open{GR: true, RT: 30, GRFams: map[bgp.Family]bool{}, LLGR: true, LLFams: map[bgp.Family]uint32{}}
			for _, f := range h.fams {
				oo.GRFams[f] = false
				oo.LLFams[f] = 100
			}
			cfgGR, cfgLL = true, true
		} else {
			cfgGR = r.IntN(2) == 0
			cfgLL = cfgGR && r.IntN(2) == 0
			if cfgGR && r.IntN(2) == 0 {
				oo = c12Open{GR: true, RT: 30, GRFams: map[bgp.Family]bool{}}
				for _, f := range h.fams {
					oo.GRFams[f] = false
				}
			}
		}
		sp, err := n.addPeer(simPeerSpec{Kind: simEBGP, Addr: addr, AS: as, ID: fmt.Sprintf("%d.%d.%d.%d", 4+i, 4+i, 4+i, 4+i), Extra: func(p *api.Peer) {
			allFams(p, nil, nil)
			if cfgGR {
				p.GracefulRestart = &api.GracefulRestart{Enabled: true, RestartTime: 30, LonglivedEnabled: cfgLL}
			}
		}, SpeakerMod: func(c *simSpeakerConf) { c.Caps = c12Caps(as, h.fams, oo) }})
		if err != nil {
			h.inconclusive("AddPeer observer: " + err.Error())
		}
		h.obs = append(h.obs, &c12Obs{sp: sp, llgr: llgr, view: map[c12Key]c12ObsRoute{}})
	}
	synctest.Wait()
	for _, o := range h.obs {
		if err := o.sp.bringUp(10); err != nil {
			h.inconclusive(err.Error())
		}
	}
	if err := h.F.bringUp(10); err != nil {
		h.inconclusive(err.Error())
	}
	if !h.connectR(10) {
		h.inconclusive("R did not come up")
	}
	rec.Eval()
	rec.Count("helper_scenarios", 1)
	h.logf("families %v; helper config %+v helper-only=%v; observers: %s", h.fams, h.cfg, helperOnly, h.obsDesc())

	// competitor routes
	for _, k := range h.allKeys() {
		if r.IntN(2) == 0 {
			c := c12Comp{Ver: 1, Len: 1 + 2*r.IntN(2)}
			tail := []uint32{}
			if c.Len == 3 {
				tail = []uint32{64513, 64514}
			}
			h.send(h.F, c12Announce(c12FAS, c12FAddr, k, tail, []uint32{c12VerComm(c12FAS, c.Ver)}))
			h.comp[k] = c
			h.logf("F announces %s AS_PATH length %d", k, c.Len)
		}
	}
	h.rInitialRoutes()
	h.check("initial state")

	for lc := 0; lc < 2; lc++ {
		if lc > 0 {
			if h.rDeleted || r.IntN(3) != 0 {
				break
			}
			h.rec.Count("second_lifecycle", 1)
			h.logf("---- second lifecycle")
			if !h.m.up {
				if h.rDisable {
					if err := h.n.s.EnablePeer(context.Background(), &api.EnablePeerRequest{Address: c12RAddr}); err != nil {
						h.inconclusive("EnablePeer: " + err.Error())
					}
					h.rDisable = false
				}
				h.nextOpen("fresh")
				h.planSession()
				h.walkTimers(time.Time{})
				if !h.connectR(60) {
					h.inconclusive("R did not come up again")
				}
				h.check("right after re-establishment")
				if h.m.restarting {
					h.resync(1)
					if !h.m.up || h.rDeleted {
						break
					}
				} else {
					h.rInitialRoutes()
					h.check("second session announced")
				}
			}
		}
		h.lifecycle(0)
	}
}

func (h *c12H) obsDesc() string {
	var s []string
	for _, o := range h.obs {
		s = append(s, fmt.Sprintf("%s llgr=%v", o.sp.conf.Addr, o.llgr))
	}
	return strings.Join(s, ", ")
}

func (h *c12H) finish() {
	rec := h.rec
	if h.m == nil {
		return
	}
	for k, v := range h.m.trans {
		rec.Count("tr_"+k, v)
	}
	rec.Count("combo_"+h.combo, 1)
	rec.Count(fmt.Sprintf("families_%d_gr-listed_%d_llgr-listed_%d", len(h.fams), len(h.open1.GRFams), len(h.open1.LLFams)), 1)
	if h.m.trans["stale-marked"] > 0 && h.staleObs > 0 {
		for i, k := range h.kinds {
			b := "-"
			if i < len(h.buckets) {
				b = h.buckets[i]
			}
			rec.Nontrivial(h.combo + "|" + k + "|" + b)
		}
		rec.Count("nontrivial_helper_scenarios", 1)
	}
	if h.idx%211 == 0 {
		w := h.witness()
		if hist := w["history"].([]string); len(hist) > 40 {
			w["history"] = hist[:40]
		}
		delete(w, "model_notes")
		rec.Sample(w)
	}
}

func TestVerifC12(t *testing.T) {
	rec := vlib.Open("C12")
	defer rec.Close()
	total := vlib.Scale(1500, 45000)
	vlib.Cases(total, func(idx int) {
		rec.Mark(fmt.Sprintf("c12 scenario %d", idx), true)
		synctest.Test(t, func(t *testing.T) {
			r := vlib.CaseRand("c12", idx)
			if r.IntN(6) == 0 {
				c12RestartingScenario(t, rec, idx, r)
			} else {
				c12HelperScenario(t, rec, idx, r)
			}
		})
	})
}
