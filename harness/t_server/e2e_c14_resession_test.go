package server

// C14, unit "e2e", second scenario kind — one neighbour object, several sessions, the 4-octet-AS capability of
// the speaker changing between them (NEW -> OLD and OLD -> NEW).
//
// A stable NEW speaker P (eBGP or non-client iBGP) and a speaker X (eBGP or RR client) whose OPEN carries the
// 4-octet-AS capability in some sessions and not in others. In every session of X, judged on the octets received
// DURING that session (the rx log runs across sessions):
//   (a) everything gobgp sends to X -- the initial table transfer of P's earlier routes and P's new routes, with
//       AS_PATHs mixing 2- and 4-octet ASNs, SET segments and AGGREGATOR -- is encoded for THAT session's AS width:
//       on a 4-octet session a 4-octet AS_PATH / 8-octet AGGREGATOR and no AS4_PATH / AS4_AGGREGATOR; on a 2-octet
//       session a well-formed 2-octet AS_PATH with AS_TRANS exactly where a 4-octet ASN stands, AS4_PATH without
//       confederation segments, 6-octet AGGREGATOR (+ AS4_AGGREGATOR), and the harness' RFC 6793 4.2.3
//       reconstruction gives the original back;
//   (b) what X announces in that session -- hand-built 2-octet AS_PATH + AS4_PATH / AS4_AGGREGATOR as a chain of
//       OLD speakers delivers them, or a plain 4-octet AS_PATH -- is installed (ListPath GLOBAL) and passed on to P
//       with the reconstructed 4-octet path.

import (
	"encoding/binary"
	"fmt"
	"net/netip"
	"strings"
	"testing"
	"testing/synctest"

	"github.com/osrg/gobgp/v4/api"
	"github.com/osrg/gobgp/v4/internal/verif/refmodel"
	"github.com/osrg/gobgp/v4/internal/verif/vlib"
	"github.com/osrg/gobgp/v4/pkg/packet/bgp"
)

func e2eC14Width(as4 bool) string {
	if as4 {
		return "4-octet"
	}
	return "2-octet"
}

func e2eC14Resession(t *testing.T, rec *vlib.Rec, idx, j int) {
	r := vlib.CaseRand("e2e-c14-resession", j)
	sc := &e2eC14Sc{r: r, gAS: 65000, confID: 300, forbid: map[uint32]bool{}}
	if j%3 == 1 {
		sc.gAS = 70000
	}
	sc.nKind = []string{"ebgp", "ibgp"}[r.IntN(2)]
	sc.oKind = "ebgp"
	if sc.gAS <= 65535 && r.IntN(2) == 0 {
		sc.oKind = "rrclient"
	}
	sc.nAS = []uint32{70001, 65001}[r.IntN(2)]
	if sc.nKind == "ibgp" {
		sc.nAS = sc.gAS
	}
	sc.oAS = 65002
	if sc.oKind == "rrclient" {
		sc.oAS = sc.gAS
	}
	sc.p4 = []int{30, 70, 100}[r.IntN(3)]
	for _, a := range []uint32{sc.gAS, sc.confID, 65101, 65002, 70001, 65001, 70000, 65000} {
		sc.forbid[a] = true
	}
	n := simStart(t, &api.Global{Asn: sc.gAS, RouterId: "1.1.1.1"})
	defer func() {
		n.stop()
		synctest.Wait()
	}()
	pSpec := simPeerSpec{Kind: simEBGP, Addr: "10.0.0.2", AS: sc.nAS, ID: "2.2.2.2"}
	if sc.nKind == "ibgp" {
		pSpec.Kind = simIBGP
	}
	xSpec := simPeerSpec{Kind: simEBGP, Addr: "10.0.0.3", AS: sc.oAS, ID: "3.3.3.3"}
	if sc.oKind == "rrclient" {
		xSpec.Kind = simRRClient
	}
	P, err := n.addPeer(pSpec)
	if err != nil {
		rec.Inconclusive("e2e c14: AddPeer P: " + err.Error())
		return
	}
	X, err := n.addPeer(xSpec)
	if err != nil {
		rec.Inconclusive("e2e c14: AddPeer X: " + err.Error())
		return
	}
	synctest.Wait()
	if err := P.bringUp(40); err != nil {
		rec.Inconclusive("e2e c14: " + err.Error())
		return
	}
	rec.Eval()
	rec.Count("e2e:c14:resession:scenarios", 1)
	topo := fmt.Sprintf("g=%d,p=%s/%d,x=%s/%d", sc.gAS, sc.nKind, sc.nAS, sc.oKind, sc.oAS)

	nSess := 2 + r.IntN(2)
	as4 := j%2 == 0 // even cases start NEW and turn OLD, odd ones the other way round
	var widths []string
	var fromP []*e2eC14Route // everything P has announced so far (it stays)
	reached := false
	var log []string
	for s := 0; s < nSess; s++ {
		if s > 0 {
			as4 = !as4
			if s == 2 && r.IntN(3) == 0 {
				as4 = !as4 // sometimes the same width twice in a row
			}
		}
		widths = append(widths, e2eC14Width(as4))
		hist := "first-session"
		if s > 0 {
			hist = "after-" + widths[s-1] + "-session"
			if s > 1 && widths[s-2] != widths[s-1] {
				hist = "after-both-kinds-of-session"
			}
		}
		now := e2eC14Width(as4)
		X.conf.NoAS4 = !as4
		X.mu.Lock()
		rxStart := len(X.rx)
		X.mu.Unlock()
		P.mu.Lock()
		pRxStart := len(P.rx)
		P.mu.Unlock()
		_ = pRxStart
		log = append(log, fmt.Sprintf("-- X session %d comes up as a %s speaker", s+1, now))
		if err := e2eBringUpRaw(X, 60); err != nil {
			rec.Inconclusive("e2e c14: " + err.Error())
			return
		}
		synctest.Wait()
		rec.Count("e2e:c14:resession:sessions", 1)
		rec.Count("e2e:c14:resession:session:"+now+":"+hist, 1)
		wit := func(rt *e2eC14Route, extra map[string]any) map[string]any {
			w := map[string]any{"case": idx, "topology": topo, "session_number": s + 1, "sessions_of_X_so_far": strings.Join(widths, ", "), "history": append([]string{}, log...)}
			if rt != nil {
				w["prefix"], w["shape"] = rt.pfx, rt.shape
				if rt.as2 != nil {
					w["sent_as_path_2octet"], w["sent_as4_path"], w["as4_path_present"] = refmodel.C09PathText(rt.as2), refmodel.C09PathText(rt.as4), rt.hasAS4
				}
				w["expected_4octet_path"] = refmodel.C09PathText(rt.x)
				if rt.agg != nil {
					w["aggregator"] = fmt.Sprintf("%d %s", rt.agg.AS, rt.agg.Addr)
				}
			}
			for k, v := range extra {
				w[k] = v
			}
			return w
		}
		// ---- (a) P announces new routes; everything P has announced must be at X in this session's encoding
		for i := 0; i < 2+r.IntN(3); i++ {
			var x []e2eSeg
			var sh string
			if sc.nKind == "ebgp" {
				x, sh = sc.genPath(sc.nAS, e2eSEQ, false, false)
			} else {
				x, sh = sc.genPath(0, 0, false, false)
			}
			rt := &e2eC14Route{pfx: fmt.Sprintf("10.1.%d.0/24", len(fromP)), x: x, shape: sh}
			if r.IntN(2) == 0 {
				rt.agg = &e2eC14Agg{AS: []uint32{64496, 70009, 4200000001}[r.IntN(3)], Addr: netip.MustParseAddr("192.0.2.200")}
			}
			attrs := []bgp.PathAttributeInterface{bgp.NewPathAttributeOrigin(0), bgp.NewPathAttributeAsPath(e2eC14Params(x))}
			nh, _ := bgp.NewPathAttributeNextHop(netip.MustParseAddr("10.0.0.2"))
			attrs = append(attrs, nh)
			if sc.nKind == "ibgp" {
				attrs = append(attrs, bgp.NewPathAttributeLocalPref(100))
			}
			if rt.agg != nil {
				a, _ := bgp.NewPathAttributeAggregator(rt.agg.AS, rt.agg.Addr)
				attrs = append(attrs, a)
			}
			nl, _ := bgp.NewIPAddrPrefix(netip.MustParsePrefix(rt.pfx))
			if err := P.sendMsg(bgp.NewBGPUpdateMessage(nil, attrs, []bgp.PathNLRI{{NLRI: nl}})); err != nil {
				rec.Inconclusive("e2e c14: P cannot send: " + err.Error())
				return
			}
			log = append(log, fmt.Sprintf("P announces %s '%s'", rt.pfx, refmodel.C09PathText(x)))
			fromP = append(fromP, rt)
		}
		// ---- (b) X announces routes in the encoding of this session
		var fromX []*e2eC14Route
		for i := 0; i < 2+r.IntN(3); i++ {
			var rt *e2eC14Route
			if as4 {
				var x []e2eSeg
				var sh string
				if sc.oKind == "ebgp" {
					x, sh = sc.genPath(sc.oAS, e2eSEQ, false, false)
				} else {
					x, sh = sc.genPath(0, 0, false, false)
				}
				rt = &e2eC14Route{x: x, shape: sh, class: "4-octet-path"}
				if r.IntN(3) == 0 {
					rt.agg = &e2eC14Agg{AS: []uint32{64496, 70009}[r.IntN(2)], Addr: netip.MustParseAddr("192.0.2.203")}
				}
			} else {
				rt = sc.genOldRoute(i)
			}
			rt.pfx = fmt.Sprintf("10.2.%d.%d/32", s, i)
			pfx := netip.MustParsePrefix(rt.pfx)
			if as4 {
				attrs := []bgp.PathAttributeInterface{bgp.NewPathAttributeOrigin(0), bgp.NewPathAttributeAsPath(e2eC14Params(rt.x))}
				nh, _ := bgp.NewPathAttributeNextHop(netip.MustParseAddr("10.0.0.3"))
				attrs = append(attrs, nh)
				if sc.oKind == "rrclient" {
					attrs = append(attrs, bgp.NewPathAttributeLocalPref(100))
				}
				if rt.agg != nil {
					a, _ := bgp.NewPathAttributeAggregator(rt.agg.AS, rt.agg.Addr)
					attrs = append(attrs, a)
				}
				nl, _ := bgp.NewIPAddrPrefix(pfx)
				if err := X.sendMsg(bgp.NewBGPUpdateMessage(nil, attrs, []bgp.PathNLRI{{NLRI: nl}})); err != nil {
					rec.Inconclusive("e2e c14: X cannot send: " + err.Error())
					return
				}
				log = append(log, fmt.Sprintf("X announces %s 4-octet AS_PATH '%s'", rt.pfx, refmodel.C09PathText(rt.x)))
			} else {
				var attrs []byte
				attrs = append(attrs, e2eTLV(0x40, 1, []byte{0})...)
				attrs = append(attrs, e2eTLV(0x40, 2, e2eASPathValue(rt.as2, 2))...)
				attrs = append(attrs, e2eTLV(0x40, 3, []byte{10, 0, 0, 3})...)
				if sc.oKind == "rrclient" {
					attrs = append(attrs, e2eTLV(0x40, 5, e2eU32(100))...)
				}
				if rt.agg != nil {
					attrs = append(attrs, e2eTLV(0xc0, 7, append(e2eU16(uint16(e2eC14Down(rt.agg.AS))), rt.agg.Addr.AsSlice()...))...)
				}
				if rt.hasAS4 {
					attrs = append(attrs, e2eTLV(0xc0, 17, e2eASPathValue(rt.as4, 4))...)
				}
				if rt.agg != nil && rt.agg.AS > 65535 {
					attrs = append(attrs, e2eTLV(0xc0, 18, append(e2eU32(rt.agg.AS), rt.agg.Addr.AsSlice()...))...)
				}
				msg := e2eUpdateBytes(nil, attrs, e2ePrefixBytes(pfx, nil))
				if len(msg) > 4096 {
					continue
				}
				if err := X.sendRaw(msg); err != nil {
					rec.Inconclusive("e2e c14: X cannot send: " + err.Error())
					return
				}
				log = append(log, fmt.Sprintf("X announces %s 2-octet AS_PATH '%s' AS4_PATH(%v) '%s'", rt.pfx, refmodel.C09PathText(rt.as2), rt.hasAS4, refmodel.C09PathText(rt.as4)))
			}
			fromX = append(fromX, rt)
		}
		synctest.Wait()

		// ---- judge
		for name, sp := range map[string]*simSpeaker{"P": P, "X": X} {
			if !e2eEstablished(n, sp.conf.Addr) {
				sp.mu.Lock()
				nf := sp.notif
				sp.mu.Unlock()
				rec.Violation("e2e:c14:resession:session-lost:"+name+":"+now+":"+hist, fmt.Sprintf("the session to %s was lost during X's session %d (%s, %s): notification %v", name, s+1, now, hist, nf), wit(nil, nil))
				return
			}
		}
		xUps, problems := e2eDecodeRxFrom(X, rxStart)
		for _, pr := range problems {
			rec.Violation("e2e:c14:resession:wire:malformed-message:X", pr, wit(nil, nil))
		}
		xView, _ := e2eApply(xUps)
		pUps, problems := e2eDecodeRx(P)
		for _, pr := range problems {
			rec.Violation("e2e:c14:resession:wire:malformed-message:P", pr, wit(nil, nil))
		}
		pView, _ := e2eApply(pUps)
		global, err := e2eListPath(n, api.TableType_TABLE_TYPE_GLOBAL, "", bgp.RF_IPv4_UC, false)
		if err != nil {
			rec.Inconclusive("e2e c14: ListPath: " + err.Error())
			return
		}
		cls := ":" + now + ":" + hist
		for _, rt := range fromP {
			rec.Count("e2e:c14:resession:sent:routes", 1)
			want := e2eC14Export(sc.oKind, rt.x, sc.L(), sc.gAS)
			got, held := xView[simRouteKey{bgp.RF_IPv4_UC, rt.pfx, 0}]
			if !held {
				if !as4 && e2eC14OldSize(want) > 4096-96 {
					continue
				}
				rec.Violation("e2e:c14:resession:sent:route-missing"+cls, fmt.Sprintf("X (session %d, %s) never received the route", s+1, now), wit(rt, map[string]any{"rx": e2eRxLog(X, 4)}))
				continue
			}
			reached = true
			if why, what := e2eC14JudgeSent(got, as4, want, rt.agg); why != "" {
				w := wit(rt, map[string]any{"expected_4octet_path_at_peer": refmodel.C09PathText(want)})
				for _, t := range []uint8{2, 7, 17, 18} {
					if a := got.attr(t); a != nil {
						v := a.Value
						if len(v) > 64 {
							v = v[:64]
						}
						w[fmt.Sprintf("attr%d", t)] = fmt.Sprintf("flags=%#x len=%d %x", a.Flags, len(a.Value), v)
					}
				}
				rec.Violation("e2e:c14:resession:sent:"+what+cls, fmt.Sprintf("session %d of X (%s, %s): %s", s+1, now, hist, why), w)
			} else {
				rec.Count("e2e:c14:resession:sent:ok:"+now, 1)
			}
			if rt.agg != nil {
				rec.Count("e2e:c14:resession:sent:aggregator", 1)
			}
		}
		for _, rt := range fromX {
			rec.Count("e2e:c14:resession:received:routes", 1)
			rec.Count("e2e:c14:resession:received:class:"+rt.class, 1)
			ps := global[rt.pfx]
			if len(ps) != 1 {
				rec.Violation("e2e:c14:resession:received:route-missing:rib"+cls, fmt.Sprintf("a route X announced in session %d (%s) is listed %d times in the Loc-RIB", s+1, now, len(ps)), wit(rt, nil))
				continue
			}
			got, _, err := ps[0].Route.asPath(4)
			if err != nil || !e2eC14Equal(got, rt.x) {
				rec.Violation("e2e:c14:resession:received:rib-path-differs"+cls, fmt.Sprintf("Loc-RIB AS_PATH '%s' (err %v), expected '%s'", refmodel.C09PathText(got), err, refmodel.C09PathText(rt.x)), wit(rt, nil))
				continue
			}
			if rt.agg != nil {
				a := ps[0].Route.attr(7)
				if a == nil || len(a.Value) != 8 || binary.BigEndian.Uint32(a.Value) != rt.agg.AS || e2eAddr(a.Value[4:]) != rt.agg.Addr {
					rec.Violation("e2e:c14:resession:received:aggregator-differs"+cls, fmt.Sprintf("Loc-RIB AGGREGATOR %v, expected %d %v", a, rt.agg.AS, rt.agg.Addr), wit(rt, nil))
				}
			}
			wantP := e2eC14Export(sc.nKind, rt.x, sc.L(), sc.gAS)
			gp, held := pView[simRouteKey{bgp.RF_IPv4_UC, rt.pfx, 0}]
			if !held {
				if 4*e2eC14Members(wantP) > 4096-160 {
					continue
				}
				rec.Violation("e2e:c14:resession:received:route-missing:new-speaker"+cls, "P never received the route learned from X", wit(rt, nil))
				continue
			}
			reached = true
			pp, has, err := gp.asPath(4)
			if !has || err != nil || !e2eC14Equal(pp, wantP) || gp.attr(17) != nil || gp.attr(18) != nil {
				rec.Violation("e2e:c14:resession:received:new-speaker-path-differs"+cls, fmt.Sprintf("P got AS_PATH '%s' (err %v, AS4 attributes present: %v), expected '%s'", refmodel.C09PathText(pp), err, gp.attr(17) != nil || gp.attr(18) != nil, refmodel.C09PathText(wantP)), wit(rt, nil))
			} else {
				rec.Count("e2e:c14:resession:received:ok:"+now, 1)
			}
		}
		if s+1 < nSess {
			log = append(log, fmt.Sprintf("-- X closes session %d", s+1))
			X.close()
			synctest.Wait()
		}
	}
	if reached {
		rec.Count("e2e:c14:resession:nontrivial_scenarios", 1)
		rec.Nontrivial("e2e-c14-resession|" + topo + "|" + strings.Join(widths, ">") + fmt.Sprint(sc.p4))
	}
	if j%29 == 0 {
		h := log
		if len(h) > 30 {
			h = h[:30]
		}
		rec.Sample(map[string]any{"case": idx, "unit": "e2e", "kind": "re-session", "topology": topo, "sessions_of_X": strings.Join(widths, ", "), "history": h})
	}
}

// e2eC14JudgeSent: is the route encoded for the session's AS width and does it stand for the 4-octet path `want`
// (and the aggregator)? Returns a description and a short class name, or "" when all is well.
func e2eC14JudgeSent(got *e2eRoute, as4 bool, want []e2eSeg, agg *e2eC14Agg) (why, what string) {
	a7, a17, a18 := got.attr(7), got.attr(17), got.attr(18)
	if as4 {
		if a17 != nil || a18 != nil {
			return "AS4_PATH / AS4_AGGREGATOR sent on a session with 4-octet AS numbers (RFC 6793 3)", "as4-attributes-on-4-octet-session"
		}
		p, has, err := got.asPath(4)
		if !has || err != nil {
			return fmt.Sprintf("AS_PATH is not a well-formed 4-octet path: present=%v %v", has, err), "wrong-as-width"
		}
		if !e2eC14Equal(p, want) {
			return fmt.Sprintf("4-octet AS_PATH '%s', expected '%s'", refmodel.C09PathText(p), refmodel.C09PathText(want)), "path-differs"
		}
		if agg != nil && (a7 == nil || len(a7.Value) != 8 || binary.BigEndian.Uint32(a7.Value) != agg.AS || e2eAddr(a7.Value[4:]) != agg.Addr) {
			return "AGGREGATOR on a 4-octet session is not the 8-octet original", "aggregator"
		}
		return "", ""
	}
	as2, has, err := got.asPath(2)
	if !has || err != nil {
		return fmt.Sprintf("AS_PATH sent to a 2-octet speaker is not a well-formed 2-octet path: present=%v %v", has, err), "wrong-as-width"
	}
	wantC, gotC := e2eC14Canon(want), e2eC14Canon(as2)
	okMap := len(wantC) == len(gotC)
	for i := 0; okMap && i < len(wantC); i++ {
		okMap = wantC[i].Type == gotC[i].Type && len(wantC[i].AS) == len(gotC[i].AS)
		for k := 0; okMap && k < len(wantC[i].AS); k++ {
			okMap = gotC[i].AS[k] == e2eC14Down(wantC[i].AS[k])
		}
	}
	if !okMap {
		return fmt.Sprintf("2-octet AS_PATH '%s' is not '%s' with AS_TRANS in place of 4-octet ASNs", refmodel.C09PathText(as2), refmodel.C09PathText(want)), "wrong-as-width"
	}
	var as4p []e2eSeg
	if a17 != nil {
		if a17.Flags&0xc0 != 0xc0 {
			return fmt.Sprintf("AS4_PATH flags %#x", a17.Flags), "malformed-as4-path"
		}
		if as4p, err = e2eParseASPath(a17.Value, 4); err != nil {
			return "AS4_PATH is not well-formed: " + err.Error(), "malformed-as4-path"
		}
		for _, s := range as4p {
			if e2eIsConfed(s.Type) {
				return "AS4_PATH carries a confederation segment", "malformed-as4-path"
			}
		}
	}
	if rec4 := e2eC14Reconstruct(as2, as4p, a17 != nil); !e2eC14Equal(rec4, want) {
		return fmt.Sprintf("reconstruction from AS_PATH '%s' + AS4_PATH '%s' gives '%s', the original is '%s'", refmodel.C09PathText(as2), refmodel.C09PathText(as4p), refmodel.C09PathText(rec4), refmodel.C09PathText(want)), "reconstruction-differs"
	}
	if agg == nil {
		if a7 != nil || a18 != nil {
			return "AGGREGATOR / AS4_AGGREGATOR appeared", "aggregator"
		}
		return "", ""
	}
	if a7 == nil || len(a7.Value) != 6 {
		return "AGGREGATOR towards a 2-octet speaker must be 6 octets", "aggregator"
	}
	gas, gaddr := uint32(binary.BigEndian.Uint16(a7.Value)), e2eAddr(a7.Value[2:])
	if a18 != nil {
		if len(a18.Value) != 8 || a18.Flags&0xc0 != 0xc0 {
			return "AS4_AGGREGATOR malformed", "aggregator"
		}
		if gas == e2eTRANS {
			gas, gaddr = binary.BigEndian.Uint32(a18.Value), e2eAddr(a18.Value[4:])
		}
	}
	if gas != agg.AS || gaddr != agg.Addr {
		return fmt.Sprintf("reconstructed AGGREGATOR %d %v, original %d %v", gas, gaddr, agg.AS, agg.Addr), "aggregator"
	}
	return "", ""
}
