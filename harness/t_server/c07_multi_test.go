package server

// C07, multi-session histories of one neighbour: the speaker's OPEN changes from session to session
// (Extended Message capability on/off, hold time), the neighbour is never deleted in between. The
// oracle stays per session: c07Model takes the negotiated hold time and the RFC 8654 message-length
// limit from THIS session's OPENs. Every session probes the limit with well-formed UPDATEs of exactly
// 4096 octets (always fine), and of 4097 or 65535 octets (fine iff this session negotiated extended
// messages, else NOTIFICATION 1/2 with the length as data and back to Idle); a session that survives
// its probes is ended in one of several ways, then the next session starts after the idle-hold.

import (
	"fmt"
	"strings"
	"testing"
	"testing/synctest"

	"github.com/osrg/gobgp/v4/internal/verif/vlib"
)

// how a session that is still established after its probes is ended
var c07MultiEnds = []c07Ev{c07EvClose, c07EvNotif, c07EvSilHoldAt, c07EvGType, c07EvResetHard}

// the speaker's hold time per session (gobgp is configured with 30 s): below, equal, above the configured one
var c07MultiHolds = []int64{9, 30, 90, 3}

const c07MultiPatterns = 4 + 8 // Extended Message capability on/off over 2 and over 3 sessions

func c07MultiCases() int { return c07MultiPatterns * len(c07MultiEnds) * 2 }

func c07RunMulti(t *testing.T, rec *vlib.Rec, idx, sub int) {
	big := []c07Ev{c07EvUpdate4097, c07EvUpdate65535}[sub%2]
	sub /= 2
	end := c07MultiEnds[sub%len(c07MultiEnds)]
	pat := sub / len(c07MultiEnds)
	var ext []bool
	n := 2
	if pat >= 4 {
		n, pat = 3, pat-4
	}
	var names []string
	for i := 0; i < n; i++ {
		on := pat>>(n-1-i)&1 == 1
		ext = append(ext, on)
		names = append(names, map[bool]string{true: "ext", false: "noext"}[on])
	}
	desc := fmt.Sprintf("multi-session %s probe=%s end=%s", strings.Join(names, ">"), big, end)
	cf := c07Conf{ibgp: sub%2 == 0, cfgHold: 30}
	h := c07NewH(t, rec, idx, desc, cf, false, c07SpkID, nil)
	defer h.finish()
	rec.Eval()
	synctest.Wait()
	o := h.observe(nil, true)
	h.logf("peer added: %s", o)
	h.edges(o, false)
	h.check(c07EvSilNextAt, 0, o)
	step := func(ev c07Ev) bool { return !h.dead && h.apply(ev) && !h.dead }
	sessions := 0
	for i, on := range ext {
		h.cf.spkExt = on
		h.cf.spkHold = c07MultiHolds[(sub+i)%len(c07MultiHolds)]
		h.logf("session %d: speaker OPEN with extended-message=%v hold=%d", i+1, on, h.cf.spkHold)
		if h.models[0].st == c07Idle && !step(c07EvSilHoldAt) { // let the idle-hold (5 s, 30 s after a reset) run out
			break
		}
		if !step(c07EvConnect) || !step(c07EvOpenValid) || !step(c07EvKeepalive) || !step(c07EvUpdate4096) || !step(big) {
			break
		}
		sessions++
		rec.Count(fmt.Sprintf("multi_session_%s_after_%s", names[i], map[bool]string{true: "none"}[i == 0]+strings.Join(names[max(0, i-1):i], "")), 1)
		if h.models[0].st == c07Established {
			rec.Count("multi_oversize_accepted_when_negotiated", 1)
			if !step(end) {
				break
			}
		} else {
			rec.Count("multi_oversize_refused_when_not_negotiated", 1)
		}
	}
	if !h.dead {
		synctest.Wait()
		if o := h.observe(nil, true); o.routes != h.models[0].routes || o.adjIn != h.models[0].routes || len(o.trans) > 0 || o.other != "" {
			h.violation("c07:end-of-case:rib-or-late-activity", fmt.Sprintf("at the end of the case: %s; model expects %d route(s) and no further activity", o, h.models[0].routes))
		}
	}
	rec.Count("multi_sessions", sessions)
	if sessions >= 2 {
		rec.Nontrivial(desc)
	}
	rec.Count("transitions_observed", h.nTrans)
}
