package server

// C07, active peer: gobgp's own connection attempts (handed a pipe through the verifHooks.dial hook)
// and connection collisions (RFC 4271 section 6.8).
//
// Single-connection scenarios: gobgp dials, sends its OPEN, the speaker answers with one event of the
// alphabet. Collision scenarios: an inbound connection (I) and gobgp's outbound connection (O) both
// exist; the four events {I is accepted, O is dialled, the speaker's OPEN arrives on I, the speaker's
// OPEN arrives on O} are enumerated in all six orders that keep "connection before its OPEN", for both
// orders of the BGP identifiers.

import (
	"context"
	"fmt"
	"net"
	"strings"
	"sync"
	"testing"
	"testing/synctest"
	"time"

	"github.com/osrg/gobgp/v4/api"
	"github.com/osrg/gobgp/v4/internal/verif/vlib"
	"github.com/osrg/gobgp/v4/pkg/apiutil"
	"github.com/osrg/gobgp/v4/pkg/packet/bgp"
)

var c07SingleEvents = []c07Ev{c07EvOpenValid, c07EvOpenBadVer, c07EvOpenBadAS, c07EvOpenID0, c07EvOpenIDSelf, c07EvOpenHold1, c07EvOpenHold2,
	c07EvOpenMalformed, c07EvOpenUnsup, c07EvOpenTrunc, c07EvKeepalive, c07EvUpdate, c07EvRefresh, c07EvNotif,
	c07EvGMarker, c07EvGShort, c07EvGLong, c07EvGType, c07EvClose, c07EvSilHoldAt}

// the last order leaves out the speaker's OPEN on the inbound connection: no collision by the letter of 6.8 (the
// inbound connection never reaches OpenConfirm), the outbound connection must be able to establish
var c07Orders = []string{"Ic Io Od Oo", "Ic Od Io Oo", "Ic Od Oo Io", "Od Ic Io Oo", "Od Ic Oo Io", "Od Oo Ic Io", "Ic Od Oo"}

// both of the speaker's OPENs are written at the same virtual instant without waiting for gobgp in between: the only
// situation in which gobgp's own collision code can see both connections at once (the outcome depends on the
// goroutine schedule, so each is repeated; every schedule must satisfy 6.8)
var c07SimulOrders = []string{"Ic Od Io|Oo", "Od Ic Io|Oo"}

const c07SimulRepeat = 16

// steered collisions (yield point "opensent", shared gate simOpenSentGate): gobgp's FSM goroutine is held at the
// top of the OpenSent select loop (G) until gobgp has dialled, both of the speaker's OPENs are written and gobgp's
// readers have queued them; on release (R) both recvChan and outgoingConnCh are ready, select picks either branch
// at random (hence the repetitions) and gobgp's own collision code runs in every case.
var c07SteeredOrders = []string{"G Ic Od Io|Oo R", "G Od Ic Io|Oo R"}

const c07SteeredRepeat = 16

func c07CollisionCases() int {
	return len(c07SingleEvents) + 2*len(c07Orders) + 2*len(c07SimulOrders)*c07SimulRepeat + 2*len(c07SteeredOrders)*c07SteeredRepeat
}

type c07A struct {
	*c07H
	dmu   sync.Mutex
	dialQ []net.Conn
	dials []int64
	gate  simOpenSentGate
}

func c07NewA(t *testing.T, rec *vlib.Rec, idx int, desc string, spkID string) *c07A {
	a := &c07A{}
	verifHookPtr.Store(&verifHooks{yield: a.gate.Yield, dial: func(ctx context.Context, addr string, port int) (net.Conn, bool) {
		a.dmu.Lock()
		defer a.dmu.Unlock()
		a.dials = append(a.dials, int64(time.Since(a.t0)))
		if len(a.dialQ) == 0 {
			return nil, true
		}
		c := a.dialQ[0]
		a.dialQ = a.dialQ[1:]
		return c, true
	}})
	a.c07H = c07NewH(t, rec, idx, desc, c07Conf{ibgp: false, cfgHold: 30, spkHold: 9}, true, spkID, func(p *api.Peer) {
		p.Timers.Config.ConnectRetry = 3
	})
	return a
}

func (a *c07A) done() {
	a.finish()
	verifHookPtr.Store(nil)
}

// dial lets gobgp's next connection attempt succeed and waits (virtual time) until it was made.
func (a *c07A) dial() *c07Conn {
	g, c := a.newConn("out")
	a.dmu.Lock()
	a.dialQ = append(a.dialQ, g)
	a.dmu.Unlock()
	for i := 0; i < 50; i++ {
		synctest.Wait()
		a.dmu.Lock()
		left := len(a.dialQ)
		a.dmu.Unlock()
		if left == 0 {
			synctest.Wait()
			return c
		}
		time.Sleep(100 * time.Millisecond)
	}
	// gobgp does not dial (any more)
	a.dmu.Lock()
	a.dialQ = nil
	a.dmu.Unlock()
	g.Close()
	c.closeByUs()
	return nil
}

type c07ConnObs struct {
	msgs   []c07Rx
	closed bool
}

// look returns what happened on every connection since the last look, the transitions and ListPeer.
func (a *c07A) look() (per map[*c07Conn]*c07ConnObs, trans []c07XTr, st c07St, present bool) {
	per = map[*c07Conn]*c07ConnObs{}
	for _, c := range a.conns {
		co := &c07ConnObs{}
		c.mu.Lock()
		co.msgs = append(co.msgs, c.rx[c.seen:]...)
		c.seen = len(c.rx)
		co.closed = c.eof && !c.eofSeen && !c.weClosed
		if c.eof {
			c.eofSeen = true
		}
		c.mu.Unlock()
		per[c] = co
		for _, m := range co.msgs {
			if m.Typ == bgp.BGP_MSG_NOTIFICATION {
				a.rec.Count(fmt.Sprintf("notif_%d/%d", m.Code, m.Sub), 1)
			}
		}
	}
	o := a.observe(nil, true)
	a.edges(o, false)
	var sb []string
	for _, c := range a.conns {
		co := per[c]
		if len(co.msgs) > 0 || co.closed {
			var ms []string
			for _, m := range co.msgs {
				ms = append(ms, m.String())
			}
			sb = append(sb, fmt.Sprintf("conn%d(%s): [%s] closed-by-gobgp=%v", c.id, c.dir, strings.Join(ms, ", "), co.closed))
		}
	}
	var ts []string
	for _, t := range o.trans {
		ts = append(ts, fmt.Sprintf("%s@%s", t.st, c07T(t.at)))
	}
	a.logf("  observed %s transitions=[%s] listpeer=%s present=%v routes=%d/%d", strings.Join(sb, "; "), strings.Join(ts, ", "), o.st, o.present, o.routes, o.adjIn)
	return per, o.trans, o.st, o.present
}

func c07HasNotif(co *c07ConnObs, x c07XMsg) (found bool, soft string) {
	for _, m := range co.msgs {
		if m.Typ != bgp.BGP_MSG_NOTIFICATION {
			continue
		}
		x.at = m.At
		if ok, s := c07MatchMsg(x, m); ok {
			return true, s
		}
	}
	return false, ""
}

func c07HasType(co *c07ConnObs, typ uint8) *c07Rx {
	for i, m := range co.msgs {
		if m.Typ == typ {
			return &co.msgs[i]
		}
	}
	return nil
}

func c07RunCollision(t *testing.T, rec *vlib.Rec, idx, sub int) {
	if sub < len(c07SingleEvents) {
		c07RunActiveSingle(t, rec, idx, c07SingleEvents[sub])
		return
	}
	sub -= len(c07SingleEvents)
	if sub < 2*len(c07Orders) {
		c07RunCollisionOrder(t, rec, idx, c07Orders[sub%len(c07Orders)], sub/len(c07Orders) == 1)
		return
	}
	sub -= 2 * len(c07Orders)
	if sub < 2*len(c07SimulOrders)*c07SimulRepeat {
		sub %= 2 * len(c07SimulOrders)
		c07RunCollisionOrder(t, rec, idx, c07SimulOrders[sub%len(c07SimulOrders)], sub/len(c07SimulOrders) == 1)
		return
	}
	sub -= 2 * len(c07SimulOrders) * c07SimulRepeat
	sub %= 2 * len(c07SteeredOrders)
	c07RunCollisionOrder(t, rec, idx, c07SteeredOrders[sub%len(c07SteeredOrders)], sub/len(c07SteeredOrders) == 1)
}

// ---------------------------------------------------------------- single outbound connection

func c07RunActiveSingle(t *testing.T, rec *vlib.Rec, idx int, ev c07Ev) {
	desc := "active-peer outbound " + ev.String()
	a := c07NewA(t, rec, idx, desc, c07SpkID)
	defer a.done()
	rec.Eval()
	synctest.Wait()
	_, trans, st, _ := a.look()
	if len(trans) != 1 || trans[0] != (c07XTr{c07Active, 0}) || st != c07Active {
		a.violation("c07:active-peer:start:not-active", fmt.Sprintf("a fresh active peer should go Idle->Active at once; transitions %v, state %s", trans, st))
		return
	}
	a.logf("event outbound-connect")
	o := a.dial()
	if o == nil {
		a.violation("c07:active-peer:active:no-connection-attempt", "gobgp made no connection attempt within 5 s of entering Active")
		return
	}
	rec.Count("ev_outbound-connect", 1)
	per, _, st, _ := a.look()
	a.dmu.Lock()
	at := a.dials[len(a.dials)-1]
	a.dmu.Unlock()
	// connect-retry: 2 s (the minimum) jittered x[0.75,1] after entering Active
	if at < 1500*int64(time.Millisecond) || at > 2*c07Sec {
		a.violation("c07:active-peer:active:connect-retry-instant", fmt.Sprintf("first connection attempt at %s after entering Active; expected within [1.5 s, 2 s]", c07T(at)))
	}
	op := c07HasType(per[o], bgp.BGP_MSG_OPEN)
	if op == nil || op.At != at {
		a.violation("c07:active-peer:outbound-connect:no-open", fmt.Sprintf("gobgp must send its OPEN as soon as its connection is up (at %s); got %v", c07T(at), per[o].msgs))
		return
	}
	a.checkOpen(*op)
	// RFC 4271: OPEN sent, waiting for the peer's OPEN = OpenSent
	if st != c07OpenSent {
		a.violation("c07:active-peer:outbound-opensent:reported-state-"+st.String(), fmt.Sprintf("gobgp sent its OPEN on the connection it opened and waits for the peer's OPEN (RFC 4271: OpenSent); ListPeer/WatchEvent report %s", st))
	}
	a.cur = o
	t1 := int64(time.Since(a.t0))
	a.logf("event %s on the outbound connection", ev)
	rec.Count("ev_"+ev.String(), 1)
	rec.Count("pair_opensent(outbound)_"+ev.String(), 1)
	var consumed func() bool
	switch {
	case ev == c07EvClose:
		o.closeByUs()
	case ev == c07EvSilHoldAt:
		// the OpenSent hold timer of the outbound connection runs from the instant its OPEN was sent
		time.Sleep(time.Duration(at + c07OSHoldSec*c07Sec - t1))
		t1 = at + c07OSHoldSec*c07Sec
	default:
		consumed = o.write(a.msgBytes(ev))
	}
	synctest.Wait()
	per, trans, st, _ = a.look()
	if consumed != nil && !consumed() {
		a.violation("c07:active-peer:outbound-"+ev.String()+":not-read", "gobgp did not read the message from its outbound connection")
		return
	}
	co := per[o]
	valid := ev.isOpen() && c07OpenError(&a.cf, ev) == nil
	if valid {
		ka := c07HasType(co, bgp.BGP_MSG_KEEPALIVE)
		if ka == nil || ka.At != t1 || co.closed {
			a.violation("c07:active-peer:outbound-"+ev.String()+":no-keepalive", fmt.Sprintf("a valid OPEN must be answered with KEEPALIVE at once; got %v closed=%v", co.msgs, co.closed))
			return
		}
		if st != c07OpenConfirm {
			a.violation("c07:active-peer:outbound-"+ev.String()+":state-"+st.String(), "after OPEN/KEEPALIVE the session must be in OpenConfirm, reported "+st.String())
			return
		}
		a.logf("event keepalive on the outbound connection")
		o.write(a.msgBytes(c07EvKeepalive))
		synctest.Wait()
		per, _, st, _ = a.look()
		if st != c07Established {
			a.violation("c07:active-peer:outbound-keepalive:state-"+st.String(), "KEEPALIVE in OpenConfirm must establish the session, reported "+st.String())
			return
		}
		a.logf("event update on the outbound connection")
		o.write(a.msgBytes(c07EvUpdate))
		synctest.Wait()
		a.look()
		if a.ribRoutes != 1 || a.ribAdjIn != 1 {
			a.violation("c07:active-peer:outbound-update:not-installed", fmt.Sprintf("the UPDATE on the established outbound session is not in the RIBs (global %d, adj-in %d)", a.ribRoutes, a.ribAdjIn))
		}
		rec.Nontrivial(desc)
		return
	}
	// failure on the outbound connection: the NOTIFICATION the RFC prescribes, the connection closed, back to Idle
	var want *c07XMsg
	switch {
	case ev.isOpen():
		want = c07OpenError(&a.cf, ev)
	case ev.isGarbage():
		w := c07HeaderError(ev)
		want = &w
	case ev == c07EvClose:
	case ev == c07EvSilHoldAt:
		w := c07Notif(t1, 4, 0)
		want = &w
	case ev == c07EvNotif:
		w := c07Notif(t1, 5, 0, 1)
		w.optional = true
		want = &w
	default:
		w := c07Notif(t1, 5, 0, 1)
		want = &w
	}
	if want != nil {
		want.at = t1
	}
	key := "c07:active-peer:outbound-" + ev.String()
	// same root causes as on an inbound connection in OpenSent: same keys
	pkey := c07DevKey(c07OpenSent, ev, "")
	if ev.isGarbage() {
		pkey = fmt.Sprintf("c07:*:%s:", ev)
	}
	if want != nil {
		found, soft := c07HasNotif(co, *want)
		nt := c07HasType(co, bgp.BGP_MSG_NOTIFICATION)
		switch {
		case found && nt.At != t1:
			a.violation(key+":notification-instant", fmt.Sprintf("NOTIFICATION at %s, expected at %s", c07T(nt.At), c07T(t1)))
		case found && soft != "":
			a.violation(pkey+soft, fmt.Sprintf("(outbound connection) the NOTIFICATION's Data field is not what RFC 4271 section 6 demands: got %v, want %s", co.msgs, want))
		case found:
		case ev == c07EvOpenUnsup && c07HasType(co, bgp.BGP_MSG_KEEPALIVE) != nil:
			a.violation(pkey+"accepted", fmt.Sprintf("(outbound connection) an OPEN with an unrecognised optional parameter was accepted (%v); RFC 4271 6.2 demands NOTIFICATION 2/4", co.msgs))
			return
		case ev == c07EvOpenMalformed && nt != nil && nt.Code == 1 && nt.Sub == 2:
			a.violation(pkey+"notification-1/2-instead-of-2/0", fmt.Sprintf("(outbound connection) got %v, want %s", co.msgs, want))
		case want.optional && nt == nil:
		default:
			a.violation(key+":notification", fmt.Sprintf("got %v closed=%v, want %s", co.msgs, co.closed, want))
			return
		}
	}
	if ev != c07EvClose && !co.closed {
		a.violation(key+":not-closed", "gobgp did not close the connection after the error")
		return
	}
	// RFC 4271: every one of these events takes OpenSent to Idle (and gobgp damps restarts with its idle-hold)
	if st != c07Idle || len(trans) == 0 || trans[len(trans)-1].st != c07Idle {
		a.violation("c07:active-peer:outbound-failure:no-idle-transition", fmt.Sprintf("after %s on the outbound connection the session must fall back to Idle; reported state %s, transitions %v", ev, st, trans))
	}
	rec.Nontrivial(desc)
}

// ---------------------------------------------------------------- collisions

func c07RunCollisionOrder(t *testing.T, rec *vlib.Rec, idx int, order string, remoteHigher bool) {
	spkID, idName := "0.0.0.9", "local-id-higher"
	if remoteHigher {
		spkID, idName = c07SpkID, "remote-id-higher"
	}
	oname := strings.ReplaceAll(strings.ReplaceAll(order, " ", ""), "|", "+")
	desc := fmt.Sprintf("collision %s %s", oname, idName)
	a := c07NewA(t, rec, idx, desc, spkID)
	defer a.done()
	rec.Eval()
	synctest.Wait()
	a.look()
	// keys name the root cause (which OPEN gobgp saw first), the witness carries the order and the identifiers
	firstOpen := "open-on-inbound-first"
	if strings.HasPrefix(order, "G") {
		firstOpen = "both-opens-pending"
	} else if strings.Contains(order, "|") {
		firstOpen = "opens-simultaneous"
	} else if strings.Index(order, "Oo") < strings.Index(order, "Io") || !strings.Contains(order, "Io") {
		firstOpen = "open-on-outbound-first"
	}
	key := func(what string) string { return fmt.Sprintf("c07:collision:%s:%s", firstOpen, what) }
	var in, out *c07Conn
	got := map[*c07Conn]*c07ConnObs{}
	merge := func(per map[*c07Conn]*c07ConnObs) {
		for c, co := range per {
			if got[c] == nil {
				got[c] = &c07ConnObs{}
			}
			got[c].msgs = append(got[c].msgs, co.msgs...)
			got[c].closed = got[c].closed || co.closed
		}
	}
	sentOpen := map[*c07Conn]bool{}
	lastSt, sawOpenSent, idleAfterOpenSent := c07Idle, false, false
	for _, step := range strings.Fields(order) {
		a.logf("event %s", step)
		rec.Count("ev_collision_"+step, 1)
		switch step {
		case "G":
			a.gate.Hold()
			continue
		case "R":
			if a.gate.Hits.Load() == 0 {
				rec.Count("collision_steered_gate_not_reached", 1)
			} else {
				rec.Count("collision_steered_gate_held", 1)
			}
			a.gate.Release()
		case "Ic":
			var g net.Conn
			g, in = a.newConn("in")
			a.n.acceptCh <- g
		case "Od":
			out = a.dial()
			if out == nil {
				a.logf("  gobgp makes no (further) connection attempt")
			}
		case "Io|Oo":
			var ws []func() bool
			cs := []*c07Conn{in, out}
			for _, c := range cs {
				if c != nil && c.isOpen() {
					ws = append(ws, c.write(a.msgBytes(c07EvOpenValid)))
				} else {
					ws = append(ws, func() bool { return false })
				}
			}
			synctest.Wait()
			for i, c := range cs {
				if c != nil {
					sentOpen[c] = ws[i]()
				}
			}
		case "Io", "Oo":
			c := in
			if step == "Oo" {
				c = out
			}
			if c != nil && c.isOpen() {
				w := c.write(a.msgBytes(c07EvOpenValid))
				synctest.Wait()
				sentOpen[c] = w()
			}
		}
		synctest.Wait()
		per, tr, st, _ := a.look()
		merge(per)
		lastSt = st
		for _, t := range tr {
			if sawOpenSent && t.st == c07Idle {
				idleAfterOpenSent = true
			}
			if t.st == c07OpenSent {
				sawOpenSent = true
			}
		}
	}
	full := func(c *c07Conn) bool {
		return c != nil && got[c] != nil && c07HasType(got[c], bgp.BGP_MSG_OPEN) != nil && sentOpen[c]
	}
	if order == "Ic Od Oo" && full(out) && in != nil && in.isOpen() {
		// gobgp holds OPENs of both directions on O and its own OPEN on I: completing the handshake on O must establish
		rec.Count("collision_inbound_silent", 1)
		a.logf("event keepalive on the outbound connection")
		out.write(a.msgBytes(c07EvKeepalive))
		synctest.Wait()
		_, _, st, _ := a.look()
		if st != c07Established && remoteHigher {
			// RFC 4271 6.8 lets a speaker that knows the peer's identifier examine OpenSent connections too: with the
			// peer dominant gobgp may hold the outbound connection back for the peer's OPEN on the inbound one,
			// which then has to win
			rec.Count("collision_inbound_silent_waits_for_dominant_peer", 1)
			a.logf("event Io (late)")
			w := in.write(a.msgBytes(c07EvOpenValid))
			synctest.Wait()
			per, _, st2, _ := a.look()
			merge(per)
			if w() && in.isOpen() && !out.isOpen() && c07HasType(got[in], bgp.BGP_MSG_KEEPALIVE) != nil && st2 == c07OpenConfirm {
				a.establishOn(in, key, false)
				rec.Nontrivial(desc)
				return
			}
		}
		if st != c07Established {
			a.violation(key("fsm-stuck-until-open-on-inbound"), fmt.Sprintf("%s: OPEN and KEEPALIVE were exchanged on the outbound connection while the inbound one is still waiting for the peer's OPEN; the session is %s and gobgp does not read the outbound connection", desc, st))
		}
		rec.Nontrivial(desc)
		return
	}
	if !full(in) || !full(out) {
		// no collision arose: gobgp refused / dropped one connection before both OPENs were exchanged on it,
		// or stopped dialling. One connection must be left and must be able to establish.
		rec.Count("collision_avoided", 1)
		var alive []*c07Conn
		for _, c := range []*c07Conn{in, out} {
			if c != nil && c.isOpen() {
				alive = append(alive, c)
			}
		}
		if len(alive) != 1 || !full(alive[0]) {
			a.violation(key("no-usable-connection"), fmt.Sprintf("%s: no collision arose, but %d connection(s) are left open", desc, len(alive)))
			return
		}
		a.establishOn(alive[0], key, false)
		rec.Nontrivial(desc)
		return
	}
	rec.Count("collision_arose", 1)
	// RFC 4271 6.8: the connection initiated by the speaker with the higher BGP identifier survives
	survivor, loser := out, in
	if remoteHigher {
		survivor, loser = in, out
	}
	sOpen, lOpen := survivor.isOpen(), loser.isOpen()
	a.logf("collision: RFC survivor is the %sbound connection; open now: survivor=%v loser=%v", survivor.dir, sOpen, lOpen)
	unresolved := false
	switch {
	case sOpen && lOpen:
		unresolved = true
		a.violation(key("unresolved-both-connections-open"), fmt.Sprintf("%s: both OPENs were exchanged on both connections, yet gobgp closed neither: the collision was not resolved (RFC 4271 6.8: one of the connections MUST be closed)", desc))
	case !sOpen && lOpen:
		a.violation(key("wrong-survivor"), fmt.Sprintf("%s: gobgp kept the %sbound connection and closed the %sbound one; RFC 4271 6.8 keeps the connection initiated by the higher BGP identifier", desc, loser.dir, survivor.dir))
		return
	case !sOpen && !lOpen:
		a.violation(key("none-survives"), desc+": gobgp closed both connections")
		return
	default:
		// loser closed: with a Cease (RFC 4271 8.2.2 OpenCollisionDump; RFC 4486 subcode 7)?
		if ok, _ := c07HasNotif(got[loser], c07XMsg{typ: bgp.BGP_MSG_NOTIFICATION, codes: []uint8{6}}); !ok {
			a.violation("c07:collision:loser-closed-without-cease", fmt.Sprintf("%s: the losing (%sbound) connection was closed without a Cease NOTIFICATION (messages on it: %v)", desc, loser.dir, got[loser].msgs))
		}
		if c07HasType(got[survivor], bgp.BGP_MSG_KEEPALIVE) == nil {
			a.violation(key("survivor-no-keepalive"), fmt.Sprintf("%s: gobgp did not send KEEPALIVE on the surviving connection (%v)", desc, got[survivor].msgs))
		}
		// the loser must not cost the session: OpenSent -> OpenConfirm on the survivor, never Idle
		if lastSt != c07OpenConfirm || idleAfterOpenSent {
			a.violation(key("resolved-but-state-"+lastSt.String()), fmt.Sprintf("%s: the collision was resolved in favour of the %sbound connection, on which both OPENs are exchanged; the session must be OpenConfirm, it is %s (fell back to Idle: %v)", desc, survivor.dir, lastSt, idleAfterOpenSent))
		}
	}
	if lOpen {
		// Established must not be reachable on the connection that has to lose
		a.logf("event keepalive on the losing connection")
		loser.write(a.msgBytes(c07EvKeepalive))
		synctest.Wait()
		_, _, st, _ := a.look()
		if st == c07Established {
			a.violation(key("established-on-loser"), fmt.Sprintf("%s: a KEEPALIVE on the %sbound connection, which RFC 4271 6.8 tells gobgp to close, established the session", desc, loser.dir))
			return
		}
	}
	a.establishOn(survivor, key, unresolved)
	rec.Nontrivial(desc)
}

// establishOn completes the handshake on c and checks that the session is the one on c.
func (a *c07A) establishOn(c *c07Conn, key func(string) string, unresolved bool) {
	a.logf("event keepalive on the %sbound connection", c.dir)
	c.write(a.msgBytes(c07EvKeepalive))
	synctest.Wait()
	_, _, st, _ := a.look()
	if st != c07Established {
		a.violation(key("survivor-not-established"), fmt.Sprintf("OPEN and KEEPALIVE were received on the surviving (%sbound) connection, the session is %s", c.dir, st))
		return
	}
	a.logf("event update on the %sbound connection", c.dir)
	c.write(a.msgBytes(c07EvUpdate))
	synctest.Wait()
	a.look()
	if a.ribRoutes != 1 || a.ribAdjIn != 1 {
		a.violation(key("survivor-update-not-installed"), fmt.Sprintf("the UPDATE on the surviving connection is not in the RIBs (global %d, adj-in %d)", a.ribRoutes, a.ribAdjIn))
	}
	// nothing else may be left open
	for _, o := range a.conns {
		if o != c && o.isOpen() && !unresolved {
			a.violation(key("stray-connection-left-open"), fmt.Sprintf("the session is established on the %sbound connection, the %sbound connection conn%d is still open", c.dir, o.dir, o.id))
		}
	}
}

var _ = apiutil.PEER_EVENT_STATE
