package server

// C12, restarting-speaker role (RFC 4724 §4.1): with GracefulRestart.LocalRestarting set on its
// GR-configured neighbours (what `gobgpd -r` does) gobgp must not advertise anything to them until every
// GR peer has sent its End-of-RIB markers or the deferral timer fires, and must advertise everything then.
//
// Admissible set: RFC 4724 does not say when the Selection_Deferral_Timer starts nor whether a configured
// peer that has not come up yet counts as one of "all its peers". The safety oracle therefore uses the
// EARLIEST admissible release instant (all currently established GR peers without the R bit have sent
// every marker, or this neighbour's session age reached the deferral time); the liveness oracle uses the
// LATEST one (session age = deferral time).

import (
	"fmt"
	"math/rand/v2"
	"sort"
	"testing"
	"testing/synctest"
	"time"

	"github.com/osrg/gobgp/v4/api"
	"github.com/osrg/gobgp/v4/internal/verif/vlib"
	"github.com/osrg/gobgp/v4/pkg/packet/bgp"
)

type c12RPeer struct {
	i      int
	addr   string
	as     uint32
	fams   []bgp.Family
	cfgGR  bool // helper config: GR enabled => LocalRestarting set
	open   c12Open
	estOff time.Duration                // -1: never comes up
	eorOff map[bgp.Family]time.Duration // after establishment; -1: never
	keys   []c12Key
	sp     *simSpeaker
	obs    *c12Obs
	up     bool
	estAt  time.Time
	eorAt  map[bgp.Family]bool
	annc   map[c12Key]int
	rel    bool // observed holding routes
	relAt  time.Time
	dupEOR bool
	dupAdv bool
}

type c12RH struct {
	rec      *vlib.Rec
	idx      int
	n        *simNet
	peers    []*c12RPeer
	deferral time.Duration
	base     time.Time
	log      []string
	seen     map[string]bool
	liberal  *time.Time // first instant the liberal all-EOR condition held
	strict   *time.Time // first instant gobgp's (strict) reading held
	withheld int
}

func (h *c12RH) logf(f string, a ...any) {
	s := fmt.Sprintf("+%7.3fs ", time.Since(h.base).Seconds()) + fmt.Sprintf(f, a...)
	h.log = append(h.log, s)
	if simDebug {
		fmt.Println("C12DBG " + s)
	}
}

func (h *c12RH) viol(hard bool, key, what string) {
	if h.seen[key] {
		return
	}
	h.seen[key] = true
	var ps []string
	for _, p := range h.peers {
		ps = append(ps, fmt.Sprintf("%s as%d gr-config=%v open{%s} establishes=%v eor=%v announces=%v", p.addr, p.as, p.cfgGR, p.open, p.estOff, p.eorOff, p.keys))
	}
	h.rec.Violation(key, what, map[string]any{"case": h.idx, "role": "restarting-speaker", "deferral_time_s": h.deferral.Seconds(), "peers": ps,
		"history": append([]string{}, h.log...), "at": fmt.Sprintf("+%.3fs", time.Since(h.base).Seconds())})
	h.logf("VIOLATION %s: %s", key, what)
	if hard {
		panic(c12Abort{key})
	}
}

// peerDone: this peer does not hold the restarting speaker back (any more).
func (p *c12RPeer) peerDone() bool {
	if !p.cfgGR || !p.open.GR || p.open.RBit {
		return true
	}
	for f := range p.open.GRFams {
		if !p.eorAt[f] {
			return false
		}
	}
	return true
}

func (h *c12RH) evalAllEOR(now time.Time) {
	lib, str := true, true
	anyUp := false
	for _, p := range h.peers {
		if p.up {
			anyUp = true
			if !p.peerDone() {
				lib, str = false, false
			}
		} else if p.cfgGR {
			str = false // gobgp waits for a GR-configured neighbour that is not up yet
		}
	}
	if !anyUp {
		return
	}
	if lib && h.liberal == nil {
		t := now
		h.liberal = &t
		h.logf("model: earliest admissible all-End-of-RIB instant")
	}
	if str && h.strict == nil {
		t := now
		h.strict = &t
		h.logf("model: every configured GR neighbour is up and has sent its markers")
	}
}

func (h *c12RH) expected(p *c12RPeer) map[c12Key]c12ObsRoute {
	out := map[c12Key]c12ObsRoute{}
	for _, q := range h.peers {
		if q == p || !q.up {
			continue
		}
		for k, v := range q.annc {
			has := false
			for _, f := range p.fams {
				if f == k.Fam {
					has = true
				}
			}
			if has {
				out[k] = c12ObsRoute{Src: q.as, Ver: v}
			}
		}
	}
	return out
}

func (h *c12RH) check(tag string) {
	synctest.Wait()
	now := time.Now()
	h.rec.Count("samples", 1)
	h.logf("check [%s]", tag)
	for _, p := range h.peers {
		if !p.up {
			continue
		}
		p.obs.refresh()
		want := h.expected(p)
		got := p.obs.view
		// count announcements per key (exactly-once)
		p.sp.mu.Lock()
		nUpd := 0
		for _, rx := range p.sp.rx {
			if u, ok := rx.Msg.Body.(*bgp.BGPUpdate); ok {
				if e, _ := u.IsEndOfRib(); !e {
					nUpd++
				}
			}
		}
		eors := map[bgp.Family]int{}
		for f, c := range p.sp.eor {
			eors[f] = c
		}
		p.sp.mu.Unlock()
		timerAt := p.estAt.Add(h.deferral)
		if !p.cfgGR {
			// never deferred by gobgp: plain session
			if len(want) != len(got) {
				h.viol(true, "c12:deferral:plain-peer-view-differs", fmt.Sprintf("%s (no GR configured) holds %d routes, expected %d (sampled %s)", p.addr, len(got), len(want), tag))
			}
			if h.liberal == nil && len(got) > 0 {
				h.rec.Count("restart_nongr_peer_advertised_while_deferring", 1)
			}
			continue
		}
		earliest := timerAt
		if h.liberal != nil && h.liberal.Before(earliest) {
			earliest = *h.liberal
		}
		switch {
		case now.Before(earliest):
			if nUpd > 0 || len(got) > 0 {
				h.viol(true, "c12:deferral:advertised-before-release", fmt.Sprintf("%s got %d UPDATEs (%d routes) although not every GR peer has sent End-of-RIB and its deferral timer (%s after establishment) has not fired (sampled %s)", p.addr, nUpd, len(got), h.deferral, tag))
			}
			if len(want) > 0 {
				h.withheld++
				h.rec.Count("restart_withheld_samples", 1)
			}
		case !now.Before(timerAt):
			h.compareReleased(p, got, want, eors, tag, "after its deferral timer fired")
		default:
			if len(got) > 0 || len(eors) > 0 {
				h.compareReleased(p, got, want, eors, tag, "after all End-of-RIB markers")
			} else if h.strict != nil && !now.Before(*h.strict) && len(want) > 0 {
				h.rec.Count("restart_still_withheld_after_all_eor", 1)
			} else if len(want) > 0 {
				h.withheld++
				h.rec.Count("restart_withheld_samples", 1)
			}
		}
	}
}

func (h *c12RH) compareReleased(p *c12RPeer, got, want map[c12Key]c12ObsRoute, eors map[bgp.Family]int, tag, when string) {
	if !p.rel {
		p.rel = true
		p.relAt = time.Now()
		kind := "timer"
		if time.Now().Before(p.estAt.Add(h.deferral)) {
			kind = "eor"
		}
		h.rec.Count("tr_deferral-released-"+kind, 1)
		h.logf("%s released (%s)", p.addr, kind)
	}
	for k, w := range want {
		g, ok := got[k]
		if !ok {
			h.viol(true, "c12:deferral:route-not-advertised-after-release", fmt.Sprintf("%s lacks %s %s (sampled %s)", p.addr, k, when, tag))
		}
		if g.Src != w.Src || g.Ver != w.Ver {
			h.viol(true, "c12:deferral:wrong-route-after-release", fmt.Sprintf("%s holds %s from AS%d ver %d, expected AS%d ver %d (sampled %s)", p.addr, k, g.Src, g.Ver, w.Src, w.Ver, tag))
		}
	}
	for k := range got {
		if _, ok := want[k]; !ok {
			h.viol(true, "c12:deferral:unexpected-route-after-release", fmt.Sprintf("%s holds %s which no other established peer announced (sampled %s)", p.addr, k, tag))
		}
	}
	if p.open.GR {
		for _, f := range p.fams {
			if eors[f] == 0 {
				h.viol(false, "c12:deferral:no-end-of-rib-after-release", fmt.Sprintf("%s negotiated graceful restart but got no End-of-RIB for %s %s (sampled %s)", p.addr, f, when, tag))
			}
			if eors[f] > 1 && !p.dupEOR {
				// not part of the property text: recorded as an observation only
				p.dupEOR = true
				h.rec.Count("restart_end_of_rib_sent_twice", 1)
			}
		}
	}
	// advertised exactly once: no route announced twice with identical content
	p.sp.mu.Lock()
	cnt := map[string]int{}
	for _, rx := range p.sp.rx {
		u, ok := rx.Msg.Body.(*bgp.BGPUpdate)
		if !ok {
			continue
		}
		attrs, nh := simCanonAttrs(u.PathAttributes)
		for _, nl := range u.NLRI {
			cnt[nl.NLRI.String()+"|"+attrs+"|"+nh]++
		}
		for _, a := range u.PathAttributes {
			if re, ok := a.(*bgp.PathAttributeMpReachNLRI); ok {
				for _, nl := range re.Value {
					cnt[nl.NLRI.String()+"|"+attrs+"|"+nh]++
				}
			}
		}
	}
	p.sp.mu.Unlock()
	for _, c := range cnt {
		if c > 1 && !p.dupAdv {
			// "advertises exactly once" is not part of the property text: recorded as an observation only
			p.dupAdv = true
			h.rec.Count("restart_table_advertised_twice", 1)
		}
	}
}

func c12RestartingScenario(t *testing.T, rec *vlib.Rec, idx int, r *rand.Rand) {
	n := simStart(t, &api.Global{Asn: simLocalAS, RouterId: "1.1.1.1"})
	defer func() {
		n.stop()
		synctest.Wait()
	}()
	h := &c12RH{rec: rec, idx: idx, n: n, base: time.Now(), seen: map[string]bool{}}
	h.deferral = time.Duration(3+r.IntN(9)) * time.Second
	defer func() {
		if e := recover(); e != nil {
			if _, ok := e.(c12Abort); !ok {
				panic(e)
			}
		}
		if h.withheld > 0 {
			sig := ""
			for _, p := range h.peers {
				sig += fmt.Sprintf("[%v%v%v%v]", p.cfgGR, p.open.GR, p.open.RBit, p.estOff >= 0)
			}
			relk := "timer"
			if h.strict != nil {
				relk = "eor"
			}
			rec.Nontrivial("restarting|" + sig + "|" + relk)
			rec.Count("nontrivial_restarting_scenarios", 1)
		}
	}()
	np := 2 + r.IntN(3)
	pool4 := []string{"10.21.0.0/24", "10.21.1.0/24", "10.21.2.0/24", "10.21.3.0/24", "10.21.4.0/24", "10.21.5.0/24", "10.21.6.0/24", "10.21.7.0/24"}
	pool6 := []string{"2001:db8:21::/48", "2001:db8:22::/48", "2001:db8:23::/48", "2001:db8:24::/48", "2001:db8:25::/48"}
	for i := 0; i < np; i++ {
		p := &c12RPeer{i: i, addr: fmt.Sprintf("10.0.0.%d", 2+i), as: uint32(65101 + i), fams: []bgp.Family{bgp.RF_IPv4_UC}, eorOff: map[bgp.Family]time.Duration{},
			eorAt: map[bgp.Family]bool{}, annc: map[c12Key]int{}}
		if r.IntN(2) == 0 {
			p.fams = append(p.fams, bgp.RF_IPv6_UC)
		}
		p.cfgGR = r.IntN(6) != 0
		p.open = c12Open{GRFams: map[bgp.Family]bool{}}
		if r.IntN(5) != 0 {
			p.open.GR, p.open.RT = true, 60
			p.open.RBit = r.IntN(5) == 0
			for _, f := range p.fams {
				if r.IntN(5) != 0 {
					p.open.GRFams[f] = true
				}
			}
		}
		p.estOff = time.Duration(r.IntN(5)) * time.Second
		if i > 0 && r.IntN(8) == 0 {
			p.estOff = -1
		}
		for _, f := range p.fams {
			p.eorOff[f] = time.Duration(r.IntN(8)) * time.Second
			if r.IntN(6) == 0 {
				p.eorOff[f] = -1
			}
		}
		p.keys = append(p.keys, c12Key{bgp.RF_IPv4_UC, pool4[2*i]})
		if r.IntN(2) == 0 {
			p.keys = append(p.keys, c12Key{bgp.RF_IPv4_UC, pool4[2*i+1]})
		}
		if len(p.fams) > 1 {
			p.keys = append(p.keys, c12Key{bgp.RF_IPv6_UC, pool6[i]})
		}
		mp := map[bgp.Family]bool{}
		for _, f := range p.fams {
			mp[f] = p.cfgGR && r.IntN(4) != 0
		}
		var err error
		p.sp, err = n.addPeer(simPeerSpec{Kind: simEBGP, Addr: p.addr, AS: p.as, ID: fmt.Sprintf("%d.%d.%d.%d", 2+i, 2+i, 2+i, 2+i), Extra: func(ap *api.Peer) {
			ap.AfiSafis = nil
			for _, f := range p.fams {
				ap.AfiSafis = append(ap.AfiSafis, &api.AfiSafi{Config: &api.AfiSafiConfig{Family: c12APIFamily(f), Enabled: true},
					MpGracefulRestart: &api.MpGracefulRestart{Config: &api.MpGracefulRestartConfig{Enabled: mp[f]}}})
			}
			if p.cfgGR {
				ap.GracefulRestart = &api.GracefulRestart{Enabled: true, RestartTime: 30, DeferralTime: uint32(h.deferral / time.Second), LocalRestarting: true}
			}
		}, SpeakerMod: func(c *simSpeakerConf) { c.Caps = c12Caps(p.as, p.fams, p.open) }})
		if err != nil {
			rec.Inconclusive("c12: AddPeer: " + err.Error())
			return
		}
		p.obs = &c12Obs{sp: p.sp, view: map[c12Key]c12ObsRoute{}}
		h.peers = append(h.peers, p)
	}
	// a GR-configured neighbour that never comes up: gobgp waits for it iff some family has mp-graceful-restart enabled
	synctest.Wait()
	rec.Eval()
	rec.Count("restarting_scenarios", 1)
	h.logf("restarting speaker: %d neighbours, deferral time %s", np, h.deferral)

	type ev struct {
		at   time.Duration
		what string
		p    *c12RPeer
		f    bgp.Family
	}
	var evs []ev
	end := time.Duration(0)
	for _, p := range h.peers {
		if p.estOff < 0 {
			continue
		}
		evs = append(evs, ev{p.estOff, "up", p, 0})
		for _, f := range c12SortedFams(p.open.GRFams) {
			if off := p.eorOff[f]; off >= 0 {
				evs = append(evs, ev{p.estOff + off, "eor", p, f})
			}
		}
		if p.cfgGR {
			evs = append(evs, ev{p.estOff + h.deferral, "timer", p, 0})
		}
		if p.estOff+h.deferral > end {
			end = p.estOff + h.deferral
		}
	}
	sort.SliceStable(evs, func(i, j int) bool { return evs[i].at < evs[j].at })
	for i := 0; i < len(evs); {
		at := h.base.Add(evs[i].at)
		if at.Sub(time.Now()) > c12Eps {
			time.Sleep(at.Sub(time.Now()) - c12Eps)
			h.check(fmt.Sprintf("1ms before +%s", evs[i].at))
		}
		if d := at.Sub(time.Now()); d > 0 {
			time.Sleep(d)
		}
		j := i
		for ; j < len(evs) && evs[j].at == evs[i].at; j++ {
			e := evs[j]
			switch e.what {
			case "up":
				if err := e.p.sp.bringUp(1); err != nil {
					rec.Inconclusive("c12: restarting scenario: " + err.Error())
					panic(c12Abort{"bringUp"})
				}
				e.p.up, e.p.estAt = true, time.Now()
				h.logf("%s established (gr-config=%v, OPEN %s)", e.p.addr, e.p.cfgGR, e.p.open)
				h.evalAllEOR(time.Now())
				h.check("after " + e.p.addr + " established")
				for v, k := range e.p.keys {
					e.p.sp.sendMsg(c12Announce(e.p.as, e.p.addr, k, nil, []uint32{c12VerComm(c12RAS, v+1)}))
					e.p.annc[k] = v + 1
				}
				h.logf("%s announces %v", e.p.addr, e.p.keys)
			case "eor":
				e.p.sp.sendMsg(bgp.NewEndOfRib(e.f))
				e.p.eorAt[e.f] = true
				h.logf("%s sends End-of-RIB %s", e.p.addr, e.f)
				h.evalAllEOR(time.Now())
			case "timer":
				h.logf("deferral timer of %s", e.p.addr)
			}
			h.check(fmt.Sprintf("after %s %s", e.what, e.p.addr))
		}
		i = j
	}
	time.Sleep(2 * time.Second)
	h.check("2s after the last deferral timer")
	if idx%211 == 0 {
		rec.Sample(map[string]any{"case": idx, "role": "restarting-speaker", "history": h.log})
	}
}
