package server

// C15, VRF topologies: CE neighbours configured in a VRF next to VPN-speaking PE neighbours. The PEs
// announce VPNv4 routes whose IP prefixes OVERLAP across route distinguishers (for one IP prefix some
// RDs are importable into a VRF by route target, others are not), the CEs announce plain routes that
// gobgp turns into VPN routes of their VRF. Then the usual multi-round history: policy changes
// (global or guarded for one neighbour), ROUTE-REFRESH from a CE (IPv4) or a PE (VPNv4), soft reset
// out / in / both, and after every round the comparison with a fresh daemon.
//
// For one IP prefix at most ONE route distinguisher is importable into a given VRF: gobgp has no
// best-path selection per VRF (known finding c17:ce-peer:missing:same-prefix-several-rds), with two
// importable RDs what a CE holds would depend on the iteration order of the VPN table.

import (
	"fmt"
	"math/rand/v2"
	"net/netip"
	"testing"

	"github.com/osrg/gobgp/v4/api"
	"github.com/osrg/gobgp/v4/internal/verif/vlib"
	"github.com/osrg/gobgp/v4/pkg/apiutil"
	"github.com/osrg/gobgp/v4/pkg/packet/bgp"
)

func c15RT(n uint32) bgp.ExtendedCommunityInterface {
	return bgp.NewTwoOctetAsSpecificExtended(bgp.EC_SUBTYPE_ROUTE_TARGET, 65000, n, true)
}

func c15AddVrf(s *BgpServer, v c15Vrf) error {
	var im, ex []bgp.ExtendedCommunityInterface
	for _, n := range v.Imp {
		im = append(im, c15RT(n))
	}
	for _, n := range v.Exp {
		ex = append(ex, c15RT(n))
	}
	irt, _ := apiutil.MarshalRTs(im)
	ert, _ := apiutil.MarshalRTs(ex)
	rd, _ := apiutil.MarshalRD(bgp.NewRouteDistinguisherTwoOctetAS(65000, v.RD))
	return s.AddVrf(c15Ctx, &api.AddVrfRequest{Vrf: &api.Vrf{Name: v.Name, Rd: rd, ImportRt: irt, ExportRt: ert, Id: v.RD}})
}

// c15BuildVPN: a VPNv4 announcement of a PE speaker (eBGP).
func c15BuildVPN(sp *simSpeaker, a c15Ann) *bgp.BGPMessage {
	r := a.Spec
	nl, _ := bgp.NewLabeledVPNIPAddrPrefix(netip.MustParsePrefix(r.Prefix), *bgp.NewMPLSLabelStack(100+a.RD), bgp.NewRouteDistinguisherTwoOctetAS(65000, a.RD))
	if a.W {
		mp, _ := bgp.NewPathAttributeMpUnreachNLRI(bgp.RF_IPv4_VPN, []bgp.PathNLRI{{NLRI: nl}})
		return bgp.NewBGPUpdateMessage(nil, []bgp.PathAttributeInterface{mp}, nil)
	}
	aspath := append([]uint32{sp.conf.AS}, r.ASPath...)
	attrs := []bgp.PathAttributeInterface{bgp.NewPathAttributeOrigin(r.Origin),
		bgp.NewPathAttributeAsPath([]bgp.AsPathParamInterface{bgp.NewAs4PathParam(bgp.BGP_ASPATH_ATTR_TYPE_SEQ, aspath)})}
	if r.MED != nil {
		attrs = append(attrs, bgp.NewPathAttributeMultiExitDisc(*r.MED))
	}
	if len(r.Comms) > 0 {
		attrs = append(attrs, bgp.NewPathAttributeCommunities(r.Comms))
	}
	if len(a.RTs) > 0 {
		var ecs []bgp.ExtendedCommunityInterface
		for _, n := range a.RTs {
			ecs = append(ecs, c15RT(n))
		}
		attrs = append(attrs, bgp.NewPathAttributeExtendedCommunities(ecs))
	}
	nh := r.Nexthop
	if nh == "" {
		nh = sp.conf.Addr
	}
	mp, _ := bgp.NewPathAttributeMpReachNLRI(bgp.RF_IPv4_VPN, []bgp.PathNLRI{{NLRI: nl}}, netip.MustParseAddr(nh))
	attrs = append(attrs, mp)
	return bgp.NewBGPUpdateMessage(nil, attrs, nil)
}

const (
	c15RTRed, c15RTBlue, c15RTOther = 1, 2, 9
)

func c15GenVrfCase(idx int, r *rand.Rand) *c15Case {
	c := &c15Case{idx: idx, r: r, guards: map[string]string{}, bursts: map[int][]c15Ann{}, hist: true, hasNon: true, apTarget: -1}
	c.always = r.IntN(5) == 0
	c.global = &api.Global{Asn: simLocalAS, RouterId: "1.1.1.1", RouteSelectionOptions: &api.RouteSelectionOptionsConfig{
		AlwaysCompareMed: c.always, ExternalCompareRouterId: r.IntN(4) == 0}}
	// ---- VRFs: red imports/exports RT 1, blue RT 2; sometimes blue also imports red's routes
	leak := r.IntN(3) == 0
	red := c15Vrf{Name: "red", RD: 1, Imp: []uint32{c15RTRed}, Exp: []uint32{c15RTRed}}
	blue := c15Vrf{Name: "blue", RD: 2, Imp: []uint32{c15RTBlue}, Exp: []uint32{c15RTBlue}}
	if leak {
		blue.Imp = append(blue.Imp, c15RTRed)
	}
	c.vrfs = []c15Vrf{red, blue}
	// ---- peers: 1-2 PEs (VPNv4), 1-3 CEs (IPv4, in a VRF); all eBGP with their own AS
	nPE, nCE := 1+r.IntN(2), 1+r.IntN(3)
	ceVrf := map[int]string{}
	for i := 0; i < nPE+nCE; i++ {
		ps := simPeerSpec{Kind: simEBGP, Addr: fmt.Sprintf("10.0.0.%d", 2+i), ID: fmt.Sprintf("%d.%d.%d.%d", 2+i, 2+i, 2+i, 2+i), AS: uint32(65001 + i)}
		fams := []bgp.Family{bgp.RF_IPv4_UC}
		as := ps.AS
		if i < nPE {
			fams = []bgp.Family{bgp.RF_IPv4_VPN}
			ps.Extra = func(ap *api.Peer) {
				ap.AfiSafis = []*api.AfiSafi{{Config: &api.AfiSafiConfig{Family: &api.Family{Afi: api.Family_AFI_IP, Safi: api.Family_SAFI_MPLS_VPN}, Enabled: true}}}
			}
		} else {
			vrf := "red"
			if i > nPE && r.IntN(2) == 0 { // the first CE is always in red
				vrf = "blue"
			}
			ceVrf[i] = vrf
			ps.Extra = func(ap *api.Peer) { ap.Conf.Vrf = vrf }
		}
		ps.SpeakerMod = func(sc *simSpeakerConf) {
			var caps []bgp.ParameterCapabilityInterface
			for _, f := range fams {
				caps = append(caps, bgp.NewCapMultiProtocol(f))
			}
			sc.Caps = append(caps, bgp.NewCapFourOctetASNumber(as), bgp.NewCapRouteRefresh())
			sc.Families = fams
		}
		c.peers = append(c.peers, ps)
		c.famOv = append(c.famOv, fams)
	}
	// ---- IP prefixes (few: they must collide across RDs) and, per prefix and VRF, the one RD whose
	// route is importable there (0 = none)
	seen := map[string]bool{}
	for len(c.pool4) < 6+r.IntN(7) {
		a := [4]byte{10, byte(r.IntN(3)), byte(r.IntN(4)), 0}
		p := netip.PrefixFrom(netip.AddrFrom4(a), []int{16, 24, 24, 25}[r.IntN(4)]).Masked().String()
		if !seen[p] {
			seen[p] = true
			c.pool4 = append(c.pool4, p)
		}
	}
	c.pool6 = []string{"2001:db8:1::/48", "2001:db8:2::/64", "2001:db8:3:100::/56"} // only feeds the (unused) IPv6 prefix sets
	rds := []uint32{1, 2, 11, 12} // the two VRFs' own RDs and two remote ones
	type desig struct{ red, blue uint32 }
	des := map[string]desig{}
	for _, p := range c.pool4 {
		d := desig{red: append(rds, 0)[r.IntN(5)], blue: append(rds, 0)[r.IntN(5)]}
		if leak && d.red != 0 {
			d.blue = d.red // a route with red's RT is importable into blue as well
		}
		des[p] = d
	}
	rts := func(rd uint32, p string) []uint32 {
		var out []uint32
		if des[p].red == rd {
			out = append(out, c15RTRed)
		}
		if des[p].blue == rd && !(leak && des[p].red == rd) {
			out = append(out, c15RTBlue)
		}
		if len(out) == 0 || r.IntN(3) == 0 {
			out = append(out, c15RTOther)
		}
		return out
	}
	type key struct {
		s  int
		rd uint32
		p  string
	}
	used := map[key]bool{}
	total := 20 + r.IntN(50)
	for tries := 0; len(c.routes) < total && tries < total*20; tries++ {
		s := r.IntN(nPE + nCE)
		p := c.pool4[r.IntN(len(c.pool4))]
		if s < nPE {
			rd := rds[r.IntN(len(rds))]
			if used[key{s, rd, p}] {
				continue
			}
			used[key{s, rd, p}] = true
			c.routes = append(c.routes, c15Ann{Spk: s, Spec: c.routeSpec(s, p), RD: rd, RTs: rts(rd, p)})
			continue
		}
		// a CE route becomes (RD of its VRF, export RT of its VRF): allowed only where that RD is the
		// designated one
		own := uint32(1)
		if ceVrf[s] == "blue" {
			own = 2
		}
		ok := own == 1 && des[p].red == 1 || own == 2 && des[p].blue == 2 && !(leak && des[p].red != 0)
		if !ok || used[key{s, 0, p}] {
			continue
		}
		used[key{s, 0, p}] = true
		c.routes = append(c.routes, c15Ann{Spk: s, Spec: c.routeSpec(s, p)})
	}
	c.genProgram()
	c.p2 = c.p1
	c.final = c.routes
	return c
}

func c15VrfHistoryCase(t *testing.T, rec *vlib.Rec, idx int) {
	r := vlib.CaseRand("c15v", idx)
	c := c15GenVrfCase(idx, r)
	c15RunHistoryCase(t, rec, idx, c, "vrf")
}
