package server

// C06 — byte-level UPDATE model. Messages are assembled octet by octet from (flags, type, length,
// value) tuples and prefix encodings so that faults can be injected precisely; nothing here uses
// gobgp's serialisers. c06Walk is the independent framing reader used to decide whether an
// injected fault is really present in the octets that are sent.

import (
	"bytes"
	"encoding/binary"
	"fmt"
	"net/netip"
	"sort"
	"strings"
)

type c06PeerType int

const (
	c06EBGP c06PeerType = iota
	c06IBGP
	c06Confed
)

func (p c06PeerType) String() string { return [...]string{"ebgp", "ibgp", "confed"}[p] }

const (
	c06LocalAS  = 65000
	c06EBGPAS   = 65001
	c06MemberAS = 65002 // confederation member AS of the injecting peer
	c06ConfedID = 64000
	c06PeerAddr = "10.0.0.2"
)

func (p c06PeerType) peerAS() uint32 {
	switch p {
	case c06IBGP:
		return c06LocalAS
	case c06Confed:
		return c06MemberAS
	}
	return c06EBGPAS
}

// c06Sess is one session configuration of the product.
type c06Sess struct {
	pt      c06PeerType
	taw     bool // revised error handling (treat-as-withdraw) enabled
	addPath bool // path identifiers on ipv4-unicast and ipv6-unicast towards gobgp
	// layer 4 (several sessions per neighbour with changing capabilities); zero values = the sessions of layers 1-3
	as2   bool // the speaker does not announce the four-octet AS number capability: AS numbers are 2 octets on the wire
	ext   bool // extended message capability announced
	noV6  bool // ipv6-unicast not announced
	apFam int  // with addPath: 0 both families, 1 ipv4-unicast only, 2 ipv6-unicast only
}

func (s c06Sess) ap4() bool { return s.addPath && s.apFam != 2 }
func (s c06Sess) ap6() bool { return s.addPath && s.apFam != 1 }

// caps is a short rendering of the decoding-relevant session options.
func (s c06Sess) caps() string {
	b := func(x bool) int {
		if x {
			return 1
		}
		return 0
	}
	return fmt.Sprintf("as4=%d,ap4=%d,ap6=%d,ext=%d,v6=%d", b(!s.as2), b(s.ap4()), b(s.ap6()), b(s.ext), b(!s.noV6))
}

// c06ASPathTo2 re-encodes an AS_PATH value built with 4-octet AS numbers into the 2-octet form.
func c06ASPathTo2(v []byte) []byte {
	var out []byte
	for len(v) >= 2 {
		n := int(v[1])
		out = append(out, v[0], v[1])
		v = v[2:]
		for i := 0; i < n && len(v) >= 4; i++ {
			out = append(out, v[2], v[3])
			v = v[4:]
		}
	}
	return out
}

// c06ForSession adapts well-formed attributes built for a four-octet session to the session's AS number width.
func c06ForSession(s c06Sess, as []c06Attr) {
	if !s.as2 {
		return
	}
	for i := range as {
		switch as[i].typ {
		case c06TASPath:
			as[i].val = c06ASPathTo2(as[i].val)
		case c06TAggregator:
			if len(as[i].val) == 8 {
				as[i].val = as[i].val[2:]
			}
		}
	}
}

func (s c06Sess) String() string {
	t := 0
	if s.taw {
		t = 1
	}
	return fmt.Sprintf("%s:taw%d", s.pt, t)
}

// ---------------------------------------------------------------- attributes

const (
	c06TOrigin      = 1
	c06TASPath      = 2
	c06TNextHop     = 3
	c06TMED         = 4
	c06TLocalPref   = 5
	c06TAtomic      = 6
	c06TAggregator  = 7
	c06TComm        = 8
	c06TOriginator  = 9
	c06TCluster     = 10
	c06TMPReach     = 14
	c06TMPUnreach   = 15
	c06TExtComm     = 16
	c06TAS4Path     = 17
	c06TAS4Agg      = 18
	c06TLarge       = 32
	c06TUnknownWK   = 99  // unassigned code used with well-known flags
	c06TUnknownOpt  = 200 // unassigned code used as optional transitive
	c06TUnknownOpt2 = 201 // unassigned code used as optional non-transitive
	c06TTail        = 202 // unassigned code used by the tail-overrun fault
)

type c06Attr struct {
	flags, typ byte
	val        []byte
	lenField   int // -1: len(val)
}

func (a c06Attr) bytes() []byte {
	l := a.lenField
	if l < 0 {
		l = len(a.val)
	}
	out := []byte{a.flags, a.typ}
	if a.flags&0x10 != 0 {
		out = append(out, byte(l>>8), byte(l))
	} else {
		out = append(out, byte(l))
	}
	return append(out, a.val...)
}

func c06U32(v uint32) []byte { return binary.BigEndian.AppendUint32(nil, v) }

func c06Seg(typ byte, as ...uint32) []byte {
	out := []byte{typ, byte(len(as))}
	for _, a := range as {
		out = append(out, c06U32(a)...)
	}
	return out
}

func c06IP(s string) []byte { return netip.MustParseAddr(s).AsSlice() }

// c06GoodASPath is the well-formed AS_PATH value of shape sh for the peer type.
func c06GoodASPath(pt c06PeerType, sh int) []byte {
	var v []byte
	switch pt {
	case c06EBGP:
		v = c06Seg(2, c06EBGPAS, 64512)
	case c06IBGP:
		v = c06Seg(2, 64512)
	case c06Confed:
		v = append(c06Seg(3, c06MemberAS), c06Seg(2, 64512)...)
	}
	switch sh {
	case 1: // trailing AS_SET
		v = append(v, c06Seg(1, 64600, 64601)...)
	case 2: // second sequence segment
		v = append(v, c06Seg(2, 64513, 4200000001, 64515)...)
	case 3: // shortest legal path
		switch pt {
		case c06EBGP:
			v = c06Seg(2, c06EBGPAS)
		case c06IBGP:
			v = nil
		case c06Confed:
			v = c06Seg(3, c06MemberAS)
		}
	}
	return v
}

// c06GoodAttr is a well-formed attribute of the given type for the session.
func c06GoodAttr(typ byte, pt c06PeerType) c06Attr {
	a := c06Attr{typ: typ, lenField: -1}
	switch typ {
	case c06TOrigin:
		a.flags, a.val = 0x40, []byte{0}
	case c06TASPath:
		a.flags, a.val = 0x40, c06GoodASPath(pt, 0)
	case c06TNextHop:
		a.flags, a.val = 0x40, c06IP(c06PeerAddr)
	case c06TMED:
		a.flags, a.val = 0x80, c06U32(50)
	case c06TLocalPref:
		a.flags, a.val = 0x40, c06U32(120)
	case c06TAtomic:
		a.flags, a.val = 0x40, nil
	case c06TAggregator:
		a.flags, a.val = 0xc0, append(c06U32(64512), c06IP("192.0.2.9")...)
	case c06TComm:
		a.flags, a.val = 0xc0, append(c06U32(65000<<16|1), c06U32(65000<<16|2)...)
	case c06TOriginator:
		a.flags, a.val = 0x80, c06IP("9.9.9.9")
	case c06TCluster:
		a.flags, a.val = 0x80, append(c06IP("8.8.8.8"), c06IP("8.8.4.4")...)
	case c06TExtComm:
		a.flags, a.val = 0xc0, []byte{0x00, 0x02, 0xfd, 0xe8, 0, 0, 0, 100} // rt 65000:100
	case c06TAS4Path:
		a.flags, a.val = 0xc0, c06Seg(2, 64512)
	case c06TAS4Agg:
		a.flags, a.val = 0xc0, append(c06U32(64512), c06IP("192.0.2.9")...)
	case c06TLarge:
		a.flags, a.val = 0xc0, append(append(c06U32(65000), c06U32(1)...), c06U32(2)...)
	case c06TUnknownOpt:
		a.flags, a.val = 0xc0, []byte{1, 2, 3, 4, 5}
	case c06TUnknownOpt2:
		a.flags, a.val = 0x80, []byte{9, 8, 7}
	case c06TUnknownWK:
		a.flags, a.val = 0x40, []byte{1, 2}
	default:
		panic(fmt.Sprintf("c06GoodAttr: type %d", typ))
	}
	return a
}

// ---------------------------------------------------------------- prefixes

type c06Pfx struct {
	v6   bool
	bits int
	addr []byte // 4 or 16 octets
	id   uint32
}

func c06P(s string, id uint32) c06Pfx {
	p := netip.MustParsePrefix(s)
	return c06Pfx{v6: p.Addr().Is6(), bits: p.Bits(), addr: p.Addr().AsSlice(), id: id}
}

func (p c06Pfx) enc(addPath bool) []byte {
	var out []byte
	if addPath {
		out = c06U32(p.id)
	}
	out = append(out, byte(p.bits))
	return append(out, p.addr[:(p.bits+7)/8]...)
}

// key is how a route of this prefix is identified in observations: family/prefix#path-id.
func (p c06Pfx) key(addPath bool) string {
	a, _ := netip.AddrFromSlice(p.addr)
	id := uint32(0)
	if addPath {
		id = p.id
	}
	fam := "4"
	if p.v6 {
		fam = "6"
	}
	return fmt.Sprintf("%s/%s#%d", fam, netip.PrefixFrom(a, p.bits).String(), id)
}

func c06EncList(ps []c06Pfx, addPath bool) []byte {
	var out []byte
	for _, p := range ps {
		out = append(out, p.enc(addPath)...)
	}
	return out
}

// ---------------------------------------------------------------- message

type c06Msg struct {
	addPath bool
	wdr     []c06Pfx  // Withdrawn Routes field
	attrs   []c06Attr // in wire order, MP_REACH_NLRI / MP_UNREACH_NLRI included
	nlri    []c06Pfx  // NLRI field
	reach   []c06Pfx  // prefixes named by the MP_REACH_NLRI attribute(s)
	unreach []c06Pfx  // prefixes named by the MP_UNREACH_NLRI attribute(s)

	wdrExtra     []byte // raw octets appended to the Withdrawn Routes field
	nlriExtra    []byte // raw octets appended to the NLRI field
	nlriCut      int    // octets removed from the end of the NLRI field
	attrTail     []byte // raw octets appended inside the attribute block
	wdrLenField  int    // -1: actual
	attrLenField int    // -1: actual
}

func (m *c06Msg) clone() *c06Msg {
	c := *m
	c.wdr = append([]c06Pfx{}, m.wdr...)
	c.attrs = make([]c06Attr, len(m.attrs))
	for i, a := range m.attrs {
		a.val = append([]byte{}, a.val...)
		c.attrs[i] = a
	}
	c.nlri = append([]c06Pfx{}, m.nlri...)
	c.reach = append([]c06Pfx{}, m.reach...)
	c.unreach = append([]c06Pfx{}, m.unreach...)
	c.wdrExtra = append([]byte{}, m.wdrExtra...)
	c.nlriExtra = append([]byte{}, m.nlriExtra...)
	c.attrTail = append([]byte{}, m.attrTail...)
	return &c
}

func (m *c06Msg) attrBlock() []byte {
	var out []byte
	for _, a := range m.attrs {
		out = append(out, a.bytes()...)
	}
	return append(out, m.attrTail...)
}

// bytes lays the message out. The header length always equals the number of octets produced, so
// the byte stream of a session stays framed whatever is inside.
func (m *c06Msg) bytes() []byte {
	w := append(c06EncList(m.wdr, m.addPath), m.wdrExtra...)
	ab := m.attrBlock()
	nl := append(c06EncList(m.nlri, m.addPath), m.nlriExtra...)
	if m.nlriCut > 0 && m.nlriCut <= len(nl) {
		nl = nl[:len(nl)-m.nlriCut]
	}
	wl, al := m.wdrLenField, m.attrLenField
	if wl < 0 {
		wl = len(w)
	}
	if al < 0 {
		al = len(ab)
	}
	body := []byte{byte(wl >> 8), byte(wl)}
	body = append(body, w...)
	body = append(body, byte(al>>8), byte(al))
	body = append(body, ab...)
	body = append(body, nl...)
	out := bytes.Repeat([]byte{0xff}, 16)
	total := 19 + len(body)
	out = append(out, byte(total>>8), byte(total), 2)
	return append(out, body...)
}

func (m *c06Msg) find(typ byte) int {
	for i, a := range m.attrs {
		if a.typ == typ {
			return i
		}
	}
	return -1
}

func (m *c06Msg) remove(typ byte) (c06Attr, bool) {
	i := m.find(typ)
	if i < 0 {
		return c06Attr{}, false
	}
	a := m.attrs[i]
	m.attrs = append(m.attrs[:i], m.attrs[i+1:]...)
	return a, true
}

func (m *c06Msg) insert(pos int, a c06Attr) {
	if pos < 0 || pos > len(m.attrs) {
		pos = len(m.attrs)
	}
	m.attrs = append(m.attrs, c06Attr{})
	copy(m.attrs[pos+1:], m.attrs[pos:])
	m.attrs[pos] = a
}

// named returns the keys of every prefix the message names, split into the announced ones
// (NLRI field, MP_REACH_NLRI) and the withdrawn ones (Withdrawn Routes, MP_UNREACH_NLRI).
func (m *c06Msg) named() (ann, wd []string) {
	for _, p := range m.nlri {
		ann = append(ann, p.key(m.addPath))
	}
	for _, p := range m.reach {
		ann = append(ann, p.key(m.addPath))
	}
	for _, p := range m.wdr {
		wd = append(wd, p.key(m.addPath))
	}
	for _, p := range m.unreach {
		wd = append(wd, p.key(m.addPath))
	}
	return
}

func c06MPReachVal(afi uint16, nh []byte, ps []c06Pfx, addPath bool) []byte {
	v := []byte{byte(afi >> 8), byte(afi), 1, byte(len(nh))}
	v = append(v, nh...)
	v = append(v, 0)
	return append(v, c06EncList(ps, addPath)...)
}

func c06MPUnreachVal(afi uint16, ps []c06Pfx, addPath bool) []byte {
	return append([]byte{byte(afi >> 8), byte(afi), 1}, c06EncList(ps, addPath)...)
}

const c06V6NH = "2001:db8::2"

// ---------------------------------------------------------------- base corpus

type c06BaseSpec struct {
	name                      string
	nlri, wdr, reach, unreach []string
	opt                       []byte // optional attribute types to carry
	order                     int    // 0 ascending type code, 1 descending, 2 MP attributes first then ascending
	addPath                   bool
	llnh                      bool // MP_REACH_NLRI next hop = global + link-local
	asShape                   int
	origin                    byte
	extLen                    bool // Extended Length bit on (short) ORIGIN, COMMUNITIES and MP attributes
	reachV4                   bool // MP_REACH_NLRI carries ipv4-unicast (reach lists v4 prefixes)
	nh                        string
}

var c06AllOpt = []byte{c06TMED, c06TAtomic, c06TAggregator, c06TComm, c06TOriginator, c06TCluster, c06TExtComm, c06TLarge, c06TUnknownOpt, c06TUnknownOpt2}

var c06Bases = []c06BaseSpec{
	{name: "v4-min", nlri: []string{"10.1.0.0/24"}},
	{name: "v4-three", nlri: []string{"10.1.0.0/24", "10.1.1.0/24", "10.2.0.0/16"}},
	{name: "v4-med", nlri: []string{"10.1.0.0/24"}, opt: []byte{c06TMED}},
	{name: "v4-comm", nlri: []string{"10.1.1.0/24"}, opt: []byte{c06TComm}},
	{name: "v4-comms", nlri: []string{"10.1.0.0/24", "10.2.0.0/16"}, opt: []byte{c06TMED, c06TComm, c06TExtComm, c06TLarge}},
	{name: "v4-aggr", nlri: []string{"10.2.0.0/16"}, opt: []byte{c06TAtomic, c06TAggregator}},
	{name: "v4-rr", nlri: []string{"10.1.0.0/24"}, opt: []byte{c06TOriginator, c06TCluster}},
	{name: "v4-unknown", nlri: []string{"10.1.1.0/24"}, opt: []byte{c06TUnknownOpt, c06TUnknownOpt2}},
	{name: "v4-extlen", nlri: []string{"10.1.0.0/24"}, opt: []byte{c06TComm}, extLen: true},
	{name: "v4-ann+wd", nlri: []string{"10.1.0.0/24"}, wdr: []string{"10.1.1.0/24", "10.2.0.0/16"}},
	{name: "v4-wd-only", wdr: []string{"10.1.0.0/24", "10.1.1.0/24"}},
	{name: "v6-min", reach: []string{"2001:db8:1::/48"}, order: 2},
	{name: "v6-three-mp-last", reach: []string{"2001:db8:1::/48", "2001:db8:2::/64", "2001:db8::1/128"}},
	{name: "v6-llnh", reach: []string{"2001:db8:1::/48"}, llnh: true, order: 2},
	{name: "v6-med-comm", reach: []string{"2001:db8:2::/64"}, opt: []byte{c06TMED, c06TComm}, order: 2},
	{name: "v6-wd-only", unreach: []string{"2001:db8:1::/48", "2001:db8:2::/64"}},
	{name: "v6-ann+wd", reach: []string{"2001:db8:1::/48"}, unreach: []string{"2001:db8:2::/64"}, order: 2},
	{name: "mix-v4+v6", nlri: []string{"10.1.0.0/24"}, reach: []string{"2001:db8:1::/48"}, order: 2},
	{name: "mix-v4+v6wd", nlri: []string{"10.1.1.0/24"}, unreach: []string{"2001:db8:1::/48"}},
	{name: "mix-v4wd+v6", wdr: []string{"10.1.0.0/24"}, reach: []string{"2001:db8:2::/64"}, order: 2},
	{name: "mix-all", nlri: []string{"10.1.0.0/24"}, wdr: []string{"10.1.1.0/24"}, reach: []string{"2001:db8:1::/48"}, unreach: []string{"2001:db8:2::/64"}, opt: c06AllOpt, order: 2},
	{name: "v4-asset", nlri: []string{"10.1.0.0/24"}, asShape: 1},
	{name: "v4-longpath", nlri: []string{"10.2.0.0/16"}, asShape: 2, opt: []byte{c06TMED}},
	{name: "v4-shortpath-egp", nlri: []string{"10.1.1.0/24"}, asShape: 3, origin: 1},
	{name: "v4-incomplete", nlri: []string{"10.1.0.0/24"}, origin: 2, opt: []byte{c06TLarge}},
	{name: "v4-in-mpreach", reach: []string{"10.1.0.0/24", "10.1.1.0/24"}, reachV4: true, order: 2},
	{name: "v4-descending", nlri: []string{"10.1.0.0/24"}, opt: []byte{c06TMED, c06TComm, c06TLarge}, order: 1},
	{name: "v4-host+default", nlri: []string{"10.3.3.3/32", "0.0.0.0/0"}},
	{name: "v4-thirdparty-nh", nlri: []string{"10.1.1.0/24"}, nh: "10.0.0.77", opt: []byte{c06TExtComm}},
	{name: "v6-unknown-desc", reach: []string{"2001:db8:1::/48"}, opt: []byte{c06TUnknownOpt, c06TUnknownOpt2, c06TAggregator}, order: 1},
	{name: "v6-extlen", reach: []string{"2001:db8:2::/64", "2001:db8:1::/48"}, extLen: true, order: 2},
	{name: "v4-all-opt", nlri: []string{"10.1.0.0/24", "10.1.1.0/24"}, opt: c06AllOpt},
	{name: "ap-v4-min", nlri: []string{"10.1.0.0/24"}, addPath: true},
	{name: "ap-v4-three", nlri: []string{"10.1.0.0/24", "10.1.1.0/24", "10.2.0.0/16"}, opt: []byte{c06TMED, c06TComm}, addPath: true},
	{name: "ap-v4-ann+wd", nlri: []string{"10.1.0.0/24"}, wdr: []string{"10.1.1.0/24"}, addPath: true},
	{name: "ap-v4-wd-only", wdr: []string{"10.1.0.0/24", "10.2.0.0/16"}, addPath: true},
	{name: "ap-v6-min", reach: []string{"2001:db8:1::/48"}, order: 2, addPath: true},
	{name: "ap-v6-ann+wd", reach: []string{"2001:db8:1::/48", "2001:db8::1/128"}, unreach: []string{"2001:db8:2::/64"}, opt: []byte{c06TComm}, order: 2, addPath: true},
	{name: "ap-mix-v4+v6", nlri: []string{"10.1.1.0/24"}, reach: []string{"2001:db8:2::/64"}, addPath: true},
	{name: "ap-mix-all", nlri: []string{"10.1.0.0/24"}, wdr: []string{"10.1.1.0/24"}, reach: []string{"2001:db8:1::/48"}, unreach: []string{"2001:db8:2::/64"}, opt: c06AllOpt, order: 2, addPath: true},
}

func c06Pfxs(ss []string) []c06Pfx {
	var out []c06Pfx
	for i, s := range ss {
		out = append(out, c06P(s, uint32(7+i)))
	}
	return out
}

// c06BuildBase lays out base UPDATE number bi for the peer type. Every base is well-formed for
// that peer type: the AS_PATH has the shape the peer type requires, LOCAL_PREF is present on
// internal and confederation sessions only, ORIGINATOR_ID / CLUSTER_LIST on internal sessions only.
func c06BuildBase(bi int, pt c06PeerType) *c06Msg {
	sp := c06Bases[bi]
	m := &c06Msg{addPath: sp.addPath, wdrLenField: -1, attrLenField: -1}
	m.nlri, m.wdr, m.reach, m.unreach = c06Pfxs(sp.nlri), c06Pfxs(sp.wdr), c06Pfxs(sp.reach), c06Pfxs(sp.unreach)
	announces := len(m.nlri) > 0 || len(m.reach) > 0
	var as []c06Attr
	if announces {
		o := c06GoodAttr(c06TOrigin, pt)
		o.val = []byte{sp.origin}
		ap := c06GoodAttr(c06TASPath, pt)
		ap.val = c06GoodASPath(pt, sp.asShape)
		as = append(as, o, ap)
		if len(m.nlri) > 0 {
			nh := c06GoodAttr(c06TNextHop, pt)
			if sp.nh != "" {
				nh.val = c06IP(sp.nh)
			}
			as = append(as, nh)
		}
		if pt != c06EBGP {
			as = append(as, c06GoodAttr(c06TLocalPref, pt))
		}
		for _, t := range sp.opt {
			if (t == c06TOriginator || t == c06TCluster) && pt != c06IBGP {
				continue
			}
			as = append(as, c06GoodAttr(t, pt))
		}
	}
	if len(m.reach) > 0 {
		a := c06Attr{flags: 0x80, typ: c06TMPReach, lenField: -1}
		if sp.reachV4 {
			a.val = c06MPReachVal(1, c06IP(c06PeerAddr), m.reach, m.addPath)
		} else {
			nh := c06IP(c06V6NH)
			if sp.llnh {
				nh = append(nh, c06IP("fe80::2")...)
			}
			a.val = c06MPReachVal(2, nh, m.reach, m.addPath)
		}
		as = append(as, a)
	}
	if len(m.unreach) > 0 {
		as = append(as, c06Attr{flags: 0x80, typ: c06TMPUnreach, lenField: -1, val: c06MPUnreachVal(2, m.unreach, m.addPath)})
	}
	rank := func(a c06Attr) int {
		r := int(a.typ)
		switch sp.order {
		case 1:
			r = -r
		case 2:
			if a.typ == c06TMPReach || a.typ == c06TMPUnreach {
				r -= 100
			}
		}
		return r
	}
	sort.SliceStable(as, func(i, j int) bool { return rank(as[i]) < rank(as[j]) })
	if sp.extLen {
		for i := range as {
			switch as[i].typ {
			case c06TOrigin, c06TComm, c06TMPReach, c06TMPUnreach:
				as[i].flags |= 0x10
			}
		}
	}
	m.attrs = as
	return m
}

// ---------------------------------------------------------------- independent framing reader

type c06TLV struct {
	flags, typ byte
	decl       int    // declared value length
	raw        []byte // the TLV's octets inside the attribute block (cut at the block's end)
	complete   bool   // header and declared value lie inside the attribute block
}

type c06Walked struct {
	ok       bool // header well-formed and length equal to the octets given
	wdrLen   int
	wdrFits  bool
	wdr      []byte
	attrLen  int
	attrFits bool
	tlvs     []c06TLV
	stray    int // octets at the end of the attribute block too few to hold an attribute header
	nlri     []byte
}

func c06Walk(b []byte) c06Walked {
	var w c06Walked
	if len(b) < 23 || int(b[16])<<8|int(b[17]) != len(b) || b[18] != 2 {
		return w
	}
	w.ok = true
	body := b[19:]
	w.wdrLen = int(body[0])<<8 | int(body[1])
	if 2+w.wdrLen+2 > len(body) {
		return w
	}
	w.wdrFits = true
	w.wdr = body[2 : 2+w.wdrLen]
	rest := body[2+w.wdrLen:]
	w.attrLen = int(rest[0])<<8 | int(rest[1])
	rest = rest[2:]
	if w.attrLen > len(rest) {
		return w
	}
	w.attrFits = true
	blk := rest[:w.attrLen]
	w.nlri = rest[w.attrLen:]
	for len(blk) > 0 {
		if len(blk) < 3 || (blk[0]&0x10 != 0 && len(blk) < 4) {
			w.stray = len(blk)
			break
		}
		t := c06TLV{flags: blk[0], typ: blk[1]}
		h := 3
		if blk[0]&0x10 != 0 {
			h = 4
			t.decl = int(blk[2])<<8 | int(blk[3])
		} else {
			t.decl = int(blk[2])
		}
		if h+t.decl > len(blk) {
			t.raw = blk
			w.tlvs = append(w.tlvs, t)
			break
		}
		t.complete = true
		t.raw = blk[:h+t.decl]
		w.tlvs = append(w.tlvs, t)
		blk = blk[h+t.decl:]
	}
	return w
}

func (w c06Walked) hasTLV(raw []byte) bool {
	for _, t := range w.tlvs {
		if t.complete && bytes.Equal(t.raw, raw) {
			return true
		}
	}
	return false
}

func (w c06Walked) count(typ byte) int {
	n := 0
	for _, t := range w.tlvs {
		if t.complete && t.typ == typ {
			n++
		}
	}
	return n
}

func c06Hex(b []byte) string { return fmt.Sprintf("%x", b) }

func c06Join(ss []string) string {
	s := append([]string{}, ss...)
	sort.Strings(s)
	return strings.Join(s, ",")
}
