package server

// C16 (unit 2) — reference model of the ROA table as maintained from RTR sessions.
//
// The model is independent of rpki.go: per configured cache it keeps the set of records the cache
// has announced and not withdrawn ("recs": MUST be in the table) and a set of records whose
// presence the property / RFC 8210 leaves open ("limbo": MAY be in the table):
//   * records learned before the router issued a Reset Query (a complete reload is on its way; a
//     router may keep the old data until the reload ends, drop it at once, or - reading "announced
//     and not withdrawn" literally - keep what the reload does not repeat),
//   * records of a cache whose data has expired (lifetime) or was hard-reset by the operator.
// Announcements received between a Cache Response and its End of Data are buffered ("pend") and
// committed in order at End of Data; a new session id at End of Data flushes the cache's records;
// removing a cache removes its records.

import (
	"fmt"
	"net/netip"
	"sort"
	"time"
)

type c16R struct {
	pfx    netip.Prefix
	maxLen uint8
	as     uint32
}

func (r c16R) String() string { return fmt.Sprintf("%s-%d AS%d", r.pfx, r.maxLen, r.as) }

type c16Op struct {
	add bool
	r   c16R
}

type c16Timer struct {
	t      *time.Timer
	client *roaClient
	host   string
	cm     *c16CacheM // model instance the timer was armed for
	synced bool       // an End of Data completed after the timer was armed
	dead   bool       // fired or found stopped
}

type c16CacheM struct {
	host, addr string
	connected  bool
	open       bool // announcements are buffered until the next End of Data
	newSess    bool // the open response named another session id: flush may happen any time in the window
	sess       uint16
	recs       map[c16R]bool
	limbo      map[c16R]bool
	pend       []c16Op
	pendMay    []c16Op
	lastResetQ uint32
	// bookkeeping for classification / evidence
	awLost          map[c16R]bool // announced then withdrawn inside one buffered window
	reloadDone      bool          // an End of Data closed a reload that followed a Reset Query
	resetSinceEOD   bool
	everSynced      bool
	staleAfterFlush bool
}

func c16NewCacheM(host, addr string) *c16CacheM {
	return &c16CacheM{host: host, addr: addr, open: true, recs: map[c16R]bool{}, limbo: map[c16R]bool{}, awLost: map[c16R]bool{}}
}

func (c *c16CacheM) allToLimbo() {
	for r := range c.recs {
		c.limbo[r] = true
	}
	c.recs = map[c16R]bool{}
}

// resetPoint: the router sent a Reset Query on a live connection.
func (c *c16CacheM) resetPoint() {
	c.allToLimbo()
	c.pendMay = append(c.pendMay, c.pend...)
	c.pend = nil
	c.open = true
	c.resetSinceEOD = true
}

func (c *c16CacheM) disconnect() {
	c.connected = false
	c.open = true
	c.newSess = false
	c.pendMay = append(c.pendMay, c.pend...)
	c.pend = nil
	c.lastResetQ = 0
}

func (c *c16CacheM) cacheResponse(sid uint16) {
	c.open = true
	if sid != c.sess {
		c.newSess = true
	}
}

func (c *c16CacheM) announce(r c16R) {
	if c.open {
		c.pend = append(c.pend, c16Op{true, r})
		return
	}
	c.recs[r] = true
	delete(c.limbo, r)
}

func (c *c16CacheM) withdraw(r c16R) {
	if c.open {
		c.pend = append(c.pend, c16Op{false, r})
		return
	}
	delete(c.recs, r)
	delete(c.limbo, r)
}

func (c *c16CacheM) endOfData(sid uint16, timers []*c16Timer) {
	if sid != c.sess {
		c.recs = map[c16R]bool{}
		c.limbo = map[c16R]bool{}
	}
	// operations received before the router restarted the load (Reset Query / reconnect): a router
	// may have applied them or discarded them with the partial response
	for _, op := range c.pendMay {
		if op.add {
			if !c.recs[op.r] {
				c.limbo[op.r] = true
			}
		} else if c.recs[op.r] {
			delete(c.recs, op.r)
			c.limbo[op.r] = true
		}
	}
	announced := map[c16R]bool{}
	for _, op := range c.pend {
		if op.add {
			announced[op.r] = true
			delete(c.awLost, op.r)
			c.recs[op.r] = true
			delete(c.limbo, op.r)
		} else {
			if announced[op.r] {
				c.awLost[op.r] = true
			}
			delete(c.recs, op.r)
			delete(c.limbo, op.r)
		}
	}
	c.pend, c.pendMay = nil, nil
	c.open, c.newSess = false, false
	c.sess = sid
	c.everSynced = true
	if c.resetSinceEOD && c.connected {
		c.reloadDone = true
	}
	c.resetSinceEOD = false
	for _, t := range timers {
		if t.cm == c {
			t.synced = true
		}
	}
}

// bounds returns the records that must / may be in the table for this cache right now.
func (c *c16CacheM) bounds() (must, may map[c16R]bool) {
	must, may = map[c16R]bool{}, map[c16R]bool{}
	for r := range c.recs {
		must[r] = true
		may[r] = true
	}
	for r := range c.limbo {
		may[r] = true
	}
	if c.open {
		for _, l := range [][]c16Op{c.pendMay, c.pend} {
			for _, op := range l {
				if op.add {
					may[op.r] = true // a router is free to apply announcements before End of Data
				} else {
					delete(must, op.r) // ... and withdrawals
				}
			}
		}
		if c.newSess {
			must = map[c16R]bool{}
		}
	}
	return
}

func (c *c16CacheM) exact() bool {
	must, may := c.bounds()
	return len(must) == len(may)
}

func c16SortedRecs(m map[c16R]bool) []string {
	out := make([]string, 0, len(m))
	for r := range m {
		out = append(out, r.String())
	}
	sort.Strings(out)
	return out
}
