package server

// C01 — each established peer has been told exactly the current export of the Loc-RIB.
//
// Monitor: every byte gobgp writes to a peer is decoded and accumulated by the speaker's receiver
// model (simSpeaker.view). At exact quiescence (synctest.Wait) that view is compared with
//   O2: ListPath(ADJ_OUT) — a fresh evaluation of filterpath/export policy over the current table,
//       sharing no state with the incremental machinery (GetChanges, sentPaths, coalescing, packing);
//   O1: for non-ADD-PATH eBGP/iBGP targets, membership rules derived from ListPath(GLOBAL): nothing
//       outside the Loc-RIB is held, and a best path from another router with no loop towards the
//       target must be held.

import (
	"context"
	"fmt"
	"math/rand/v2"
	"net/netip"
	"os"
	"sort"
	"strings"
	"sync"
	"testing"
	"testing/synctest"
	"time"

	"github.com/google/uuid"

	"github.com/osrg/gobgp/v4/api"
	"github.com/osrg/gobgp/v4/internal/pkg/table"
	"github.com/osrg/gobgp/v4/internal/verif/vlib"
	"github.com/osrg/gobgp/v4/pkg/apiutil"
	"github.com/osrg/gobgp/v4/pkg/packet/bgp"
)

var c01V4Pool = []string{"10.1.0.0/24", "10.1.1.0/24", "10.2.0.0/16", "10.3.3.0/25", "192.0.2.0/24", "10.1.0.0/25"}
var c01V6Pool = []string{"2001:db8:1::/48", "2001:db8:2::/64", "2001:db8:1::/64"}

type c01Peer struct {
	spec simPeerSpec
	sp   *simSpeaker
	up   bool
	// the session (re-)established since the last comparison of this peer: a difference seen now
	// may stem from the initial table transfer rather than from incremental updates
	upSinceCompare bool
	deleted        bool // removed with DeletePeer (may be added again later)
	// the peer sent ROUTE-REFRESH since its last comparison (full re-advertisement, like a session up)
	refreshSinceCompare bool
	// what this speaker currently announces: prefix -> id -> true
	ann map[string]map[uint32]bool
}

type c01Hist struct {
	t      *testing.T
	rec    *vlib.Rec
	idx    int
	r      *rand.Rand
	n      *simNet
	peers  []*c01Peer
	log    []string
	apiUU  map[string][]byte
	// looped[target addr][prefix]: at some point of this history some source announced a version of
	// prefix whose AS_PATH contains the target's AS (a version filtered towards that target)
	looped map[string]map[string]bool
	sig    func() uint64 // interleaving signature (order in which gobgp passed the yield points)
	events map[string]int
	flips  int

	// reference model of what the sources have announced (used by the C02 daemon-level layer):
	// adjIn[peer addr][(family, prefix, remote path id)] = latest un-withdrawn route on the current session
	adjIn map[string]map[simRouteKey]simRoute
	local map[string]simRoute // API-injected routes by prefix
	noRS  bool                // generate no route-server clients (their routes live in a separate table)

	peerChurn    bool // DeletePeer / AddPeer events
	exportPolicy bool // c01ExportPolicy is installed
	tolerateDown bool // C20: sessions may be refused because of concurrent administrative operations
}

func (h *c01Hist) modelAnnounce(p *c01Peer, rs simRouteSpec, m *bgp.BGPMessage) {
	if h.adjIn == nil {
		return
	}
	u := m.Body.(*bgp.BGPUpdate)
	a, nh := simCanonAttrs(u.PathAttributes)
	fam := bgp.RF_IPv4_UC
	if mustPrefix(rs.Prefix).Addr().Is6() {
		fam = bgp.RF_IPv6_UC
	}
	if h.adjIn[p.spec.Addr] == nil {
		h.adjIn[p.spec.Addr] = map[simRouteKey]simRoute{}
	}
	nl, _ := bgp.NewIPAddrPrefix(mustPrefix(rs.Prefix))
	h.adjIn[p.spec.Addr][simRouteKey{fam, nl.String(), rs.ID}] = simRoute{a, nh}
}

func (h *c01Hist) modelWithdraw(p *c01Peer, prefix string, id uint32) {
	if h.adjIn == nil {
		return
	}
	fam := bgp.RF_IPv4_UC
	if mustPrefix(prefix).Addr().Is6() {
		fam = bgp.RF_IPv6_UC
	}
	nl, _ := bgp.NewIPAddrPrefix(mustPrefix(prefix))
	delete(h.adjIn[p.spec.Addr], simRouteKey{fam, nl.String(), id})
}

func (h *c01Hist) logf(f string, a ...any) {
	h.log = append(h.log, fmt.Sprintf(f, a...))
	if simDebug {
		fmt.Printf("SIMDBG EVENT "+f+"\n", a...)
	}
}

func c01GenPeers(r *rand.Rand) []simPeerSpec {
	n := 3 + r.IntN(3)
	var out []simPeerSpec
	sameAS := uint32(65010)
	for i := 0; i < n; i++ {
		ps := simPeerSpec{Addr: fmt.Sprintf("10.0.0.%d", 2+i), ID: fmt.Sprintf("%d.%d.%d.%d", 2+i, 2+i, 2+i, 2+i), V6: r.IntN(2) == 0}
		switch k := r.IntN(10); {
		case k < 4:
			ps.Kind, ps.AS = simEBGP, uint32(65001+i)
		case k < 6:
			ps.Kind, ps.AS = simEBGP, sameAS // two sessions to one AS
		case k < 8:
			ps.Kind, ps.AS = simIBGP, simLocalAS
		case k < 9:
			ps.Kind, ps.AS = simRRClient, simLocalAS
		default:
			ps.Kind, ps.AS = simRSClient, uint32(65101+i)
		}
		if r.IntN(4) == 0 {
			ps.APRecv = true
		}
		if r.IntN(4) == 0 {
			ps.SendMax = uint32(1 + r.IntN(3))
		}
		out = append(out, ps)
	}
	return out
}

func (h *c01Hist) noteLoops(src *c01Peer, rs simRouteSpec) {
	if h.exportPolicy {
		for _, c := range rs.Comms {
			if c == 65000<<16|1 { // rejected by the export policy: a version filtered towards every target
				for _, t := range h.peers {
					if h.looped[t.spec.Addr] == nil {
						h.looped[t.spec.Addr] = map[string]bool{}
					}
					h.looped[t.spec.Addr][rs.Prefix] = true
				}
			}
		}
	}
	path := append([]uint32{}, rs.ASPath...)
	if src.spec.Kind == simEBGP || src.spec.Kind == simRSClient {
		path = append(path, src.spec.AS)
	}
	for _, t := range h.peers {
		for _, a := range path {
			if a == t.spec.AS {
				if h.looped[t.spec.Addr] == nil {
					h.looped[t.spec.Addr] = map[string]bool{}
				}
				h.looped[t.spec.Addr][rs.Prefix] = true
			}
		}
	}
}

func (h *c01Hist) routeSpec(p *c01Peer, prefix string) simRouteSpec {
	r := h.r
	rs := simRouteSpec{Prefix: prefix, Origin: uint8(r.IntN(3))}
	switch r.IntN(4) {
	case 1:
		rs.ASPath = []uint32{64512}
	case 2:
		rs.ASPath = []uint32{64512, 64513}
	case 3:
		// a path through another configured peer's AS (loop towards that peer)
		q := h.peers[r.IntN(len(h.peers))]
		if q.spec.AS != p.spec.AS && q.spec.AS != simLocalAS {
			rs.ASPath = []uint32{q.spec.AS}
		}
	}
	if r.IntN(2) == 0 {
		rs.MED = simPickU32(r, 0, 10, 20)
	}
	if r.IntN(3) == 0 {
		rs.LocalPref = simPickU32(r, 50, 100, 200)
	}
	if r.IntN(3) == 0 {
		rs.Comms = []uint32{65000<<16 | uint32(r.IntN(3))}
	}
	if p.spec.APRecv {
		rs.ID = uint32(1 + r.IntN(2))
	}
	return rs
}

func (h *c01Hist) pickPrefix(p *c01Peer) string {
	if p.spec.V6 && h.r.IntN(3) == 0 {
		return c01V6Pool[h.r.IntN(len(c01V6Pool))]
	}
	return c01V4Pool[h.r.IntN(len(c01V4Pool))]
}

func (h *c01Hist) upPeers() []*c01Peer {
	var out []*c01Peer
	for _, p := range h.peers {
		if p.up {
			out = append(out, p)
		}
	}
	return out
}

func (h *c01Hist) step() {
	r := h.r
	ups := h.upPeers()
	k := r.IntN(100)
	switch {
	case k < 45 && len(ups) > 0: // announce / implicit replace
		p := ups[r.IntN(len(ups))]
		rs := h.routeSpec(p, h.pickPrefix(p))
		am := p.sp.buildAnnounce(p.spec.Kind, rs)
		if p.sp.sendMsg(am) == nil {
			if p.ann[rs.Prefix] == nil {
				p.ann[rs.Prefix] = map[uint32]bool{}
			}
			p.ann[rs.Prefix][rs.ID] = true
			h.modelAnnounce(p, rs, am)
		}
		h.noteLoops(p, rs)
		h.events["announce"]++
		h.logf("announce %s %s id=%d aspath=%v med=%v lp=%v", p.spec.Addr, rs.Prefix, rs.ID, rs.ASPath, ptrStr(rs.MED), ptrStr(rs.LocalPref))
	case k < 65 && len(ups) > 0: // withdraw (maybe duplicate / never announced)
		p := ups[r.IntN(len(ups))]
		pfx := h.pickPrefix(p)
		id := uint32(0)
		if p.spec.APRecv {
			id = uint32(1 + r.IntN(2))
		}
		if p.sp.sendMsg(p.sp.buildWithdraw(pfx, id)) == nil {
			h.modelWithdraw(p, pfx, id)
		}
		if p.ann[pfx] != nil {
			delete(p.ann[pfx], id)
		}
		h.events["withdraw"]++
		h.logf("withdraw %s %s id=%d", p.spec.Addr, pfx, id)
	case k < 72 && len(ups) > 1: // session flap: remote close
		p := ups[r.IntN(len(ups))]
		p.sp.close()
		p.up = false
		p.ann = map[string]map[uint32]bool{}
		if h.adjIn != nil {
			delete(h.adjIn, p.spec.Addr)
		}
		h.events["flap"]++
		h.logf("close %s", p.spec.Addr)
	case k < 80: // re-establish a down peer
		for _, p := range h.peers {
			if !p.up && !p.deleted {
				if err := p.sp.bringUp(40); err != nil {
					if h.tolerateDown {
						// a management client may have disabled / shut down / deleted this neighbour
						h.events["reestablish-refused"]++
						break
					}
					h.rec.Inconclusive("c01: " + err.Error())
					return
				}
				p.up = true
				p.upSinceCompare = true
				h.events["reestablish"]++
				h.logf("up %s", p.spec.Addr)
				break
			}
		}
	case k < 86: // API add
		pfx := c01V4Pool[r.IntN(len(c01V4Pool))]
		nl, _ := bgp.NewIPAddrPrefix(mustPrefix(pfx))
		nh, _ := bgp.NewPathAttributeNextHop(mustAddr("10.0.0.1"))
		attrs := []bgp.PathAttributeInterface{bgp.NewPathAttributeOrigin(0), nh}
		if r.IntN(2) == 0 {
			attrs = append(attrs, bgp.NewPathAttributeMultiExitDisc(uint32(r.IntN(3))))
		}
		res, err := h.n.s.AddPath(apiutil.AddPathRequest{Paths: []*apiutil.Path{{Family: bgp.RF_IPv4_UC, Nlri: nl, Attrs: attrs}}})
		if err == nil && len(res) == 1 && res[0].Error == nil {
			h.apiUU[pfx] = res[0].UUID[:]
			if h.local != nil {
				a, nhs := simCanonAttrs(attrs)
				h.local[nl.String()] = simRoute{a, nhs}
			}
		}
		h.events["api-add"]++
		h.logf("api-add %s", pfx)
	case k < 90: // API delete
		for pfx, uu := range h.apiUU {
			var u uuid.UUID
			copy(u[:], uu)
			if h.n.s.DeletePath(apiutil.DeletePathRequest{UUIDs: []uuid.UUID{u}}) == nil && h.local != nil {
				nl, _ := bgp.NewIPAddrPrefix(mustPrefix(pfx))
				delete(h.local, nl.String())
			}
			delete(h.apiUU, pfx)
			h.events["api-del"]++
			h.logf("api-del %s", pfx)
			break
		}
	case k < 96 && len(ups) > 0: // slow reader on/off
		p := ups[r.IntN(len(ups))]
		p.sp.pmu.Lock()
		was := p.sp.paused
		p.sp.pmu.Unlock()
		p.sp.setPaused(!was)
		h.events["pause-toggle"]++
		h.logf("pause %s -> %v", p.spec.Addr, !was)
	case k < 97 && h.peerChurn && len(ups) > 2: // peer removal (its routes must vanish everywhere) ...
		p := ups[r.IntN(len(ups))]
		if h.n.s.DeletePeer(context.Background(), &api.DeletePeerRequest{Address: p.spec.Addr}) == nil {
			p.up, p.deleted = false, true
			p.ann = map[string]map[uint32]bool{}
			if h.adjIn != nil {
				delete(h.adjIn, p.spec.Addr)
			}
			p.sp.close()
			h.events["delete-peer"]++
			h.logf("delete-peer %s", p.spec.Addr)
		}
	case k < 98 && h.peerChurn: // ... and addition (initial table transfer to a new neighbour)
		for _, p := range h.peers {
			if p.deleted {
				if h.n.s.AddPeer(context.Background(), &api.AddPeerRequest{Peer: p.spec.apiPeer()}) == nil {
					p.deleted = false
					h.events["add-peer"]++
					h.logf("add-peer %s", p.spec.Addr)
				}
				break
			}
		}
	case k < 99 && len(ups) > 1: // burst: several speakers write concurrently (same prefixes) while one target is not reading
		h.burst(ups)
	default:
		if len(ups) > 0 && r.IntN(2) == 0 {
			// ROUTE-REFRESH from a peer: gobgp re-advertises its whole Adj-RIB-Out for the family
			// (under routeRefreshInProgress.Lock, racing with incremental fan-out); the peer's view
			// must come out the same
			p := ups[r.IntN(len(ups))]
			fam := bgp.RF_IPv4_UC
			if p.spec.V6 && r.IntN(2) == 0 {
				fam = bgp.RF_IPv6_UC
			}
			p.sp.sendMsg(bgp.NewBGPRouteRefreshMessage(fam.Afi(), 0, fam.Safi()))
			p.refreshSinceCompare = true
			h.events["route-refresh"]++
			h.logf("route-refresh %s %s", p.spec.Addr, fam)
			return
		}
		time.Sleep(time.Second)
		h.events["tick"]++
		h.logf("tick 1s")
	}
}

// burst makes 2-3 speakers each send 3-8 announce/withdraw messages for one or two prefixes from
// their own goroutines, so gobgp's per-peer receive goroutines race on the same destinations.
func (h *c01Hist) burst(ups []*c01Peer) {
	r := h.r
	pfxs := []string{c01V4Pool[r.IntN(len(c01V4Pool))], c01V4Pool[r.IntN(len(c01V4Pool))]}
	nsp := 2 + r.IntN(2)
	if nsp > len(ups) {
		nsp = len(ups)
	}
	perm := r.Perm(len(ups))
	var wg sync.WaitGroup
	for i := 0; i < nsp; i++ {
		p := ups[perm[i]]
		var msgs []*bgp.BGPMessage
		desc := ""
		for j := 3 + r.IntN(6); j > 0; j-- {
			pfx := pfxs[r.IntN(2)]
			id := uint32(0)
			if p.spec.APRecv {
				id = uint32(1 + r.IntN(2))
			}
			if r.IntN(3) == 0 {
				msgs = append(msgs, p.sp.buildWithdraw(pfx, id))
				h.modelWithdraw(p, pfx, id)
				if p.ann[pfx] != nil {
					delete(p.ann[pfx], id)
				}
				desc += fmt.Sprintf(" W%s#%d", pfx, id)
			} else {
				rs := h.routeSpec(p, pfx)
				rs.ID = id
				h.noteLoops(p, rs)
				bm := p.sp.buildAnnounce(p.spec.Kind, rs)
				h.modelAnnounce(p, rs, bm)
				msgs = append(msgs, bm)
				if p.ann[pfx] == nil {
					p.ann[pfx] = map[uint32]bool{}
				}
				p.ann[pfx][id] = true
				desc += fmt.Sprintf(" A%s#%d(as%v,med%s,lp%s)", pfx, id, rs.ASPath, ptrStr(rs.MED), ptrStr(rs.LocalPref))
			}
		}
		h.logf("burst %s:%s", p.spec.Addr, desc)
		wg.Add(1)
		go func(sp *simSpeaker, msgs []*bgp.BGPMessage) {
			defer wg.Done()
			for _, m := range msgs {
				if sp.sendMsg(m) != nil {
					return
				}
			}
		}(p.sp, msgs)
	}
	// in a third of the bursts a peer that is not sending loses its session while the burst is propagated to it
	// (peer-down handling racing with propagation towards that peer); it comes back through a later "up" event
	if len(ups) > nsp+1 && r.IntN(3) == 0 {
		t := ups[perm[nsp+r.IntN(len(ups)-nsp)]]
		t.sp.close()
		t.up = false
		t.ann = map[string]map[uint32]bool{}
		if h.adjIn != nil {
			delete(h.adjIn, t.spec.Addr)
		}
		h.events["flap-during-burst"]++
		h.logf("close %s (during the burst)", t.spec.Addr)
	}
	wg.Wait()
	h.events["burst"]++
}

func mustPrefix(s string) netip.Prefix { return netip.MustParsePrefix(s) }
func mustAddr(s string) netip.Addr     { return netip.MustParseAddr(s) }

func ptrStr(p *uint32) string {
	if p == nil {
		return "-"
	}
	return fmt.Sprint(*p)
}

func c01Diff(got, want map[simRouteKey]simRoute) []string {
	var d []string
	for k, w := range want {
		g, ok := got[k]
		if !ok {
			d = append(d, "MISSING at peer: "+k.String()+" want{"+w.Attrs+" nh="+w.Nexthop+"}")
		} else if g != w {
			d = append(d, "DIFFERENT: "+k.String()+" peer-holds{"+g.Attrs+" nh="+g.Nexthop+"} should-be{"+w.Attrs+" nh="+w.Nexthop+"}")
		}
	}
	for k, g := range got {
		if _, ok := want[k]; !ok {
			d = append(d, "STALE at peer: "+k.String()+" holds{"+g.Attrs+" nh="+g.Nexthop+"}")
		}
	}
	sort.Strings(d)
	return d
}

func c01AddPathDiff(held, eligible map[simRouteKey]simRoute, sendMax int) []string {
	var d []string
	type pk struct {
		f bgp.Family
		p string
	}
	nh, ne := map[pk]int{}, map[pk]int{}
	for k, g := range held {
		nh[pk{k.Family, k.Prefix}]++
		e, ok := eligible[k]
		if !ok {
			d = append(d, "NOT-ELIGIBLE held path "+k.String()+" {"+g.Attrs+" nh="+g.Nexthop+"} is not an eligible path of the Loc-RIB under that id")
		} else if e != g {
			d = append(d, "DIFFERENT "+k.String()+" peer-holds{"+g.Attrs+" nh="+g.Nexthop+"} eligible{"+e.Attrs+" nh="+e.Nexthop+"}")
		}
	}
	for k := range eligible {
		ne[pk{k.Family, k.Prefix}]++
	}
	for k, n := range ne {
		want := n
		if want > sendMax {
			want = sendMax
		}
		if nh[k] > sendMax {
			d = append(d, fmt.Sprintf("OVER %s/%s: peer holds %d paths, %d eligible, send-max %d", k.f, k.p, nh[k], n, sendMax))
		} else if nh[k] < want {
			d = append(d, fmt.Sprintf("UNDER %s/%s: peer holds %d paths, %d eligible, send-max %d", k.f, k.p, nh[k], n, sendMax))
		}
	}
	for k, n := range nh {
		if ne[k] == 0 && n > sendMax {
			d = append(d, fmt.Sprintf("OVER %s/%s: peer holds %d paths, none eligible, send-max %d", k.f, k.p, n, sendMax))
		}
	}
	sort.Strings(d)
	return d
}

// compare runs the quiescent comparison for every established peer. Returns false on violation.
func (h *c01Hist) compare(tag string) bool {
	for _, p := range h.peers {
		p.sp.setPaused(false)
	}
	synctest.Wait()
	ok := true
	for _, p := range h.peers {
		if !p.up {
			continue
		}
		if !p.sp.established() {
			// the session died although the harness did nothing to it
			p.sp.mu.Lock()
			nf := p.sp.notif
			p.sp.mu.Unlock()
			h.rec.Violation("c01:session-lost:"+p.spec.Kind.String(), fmt.Sprintf("session to %s (%s) is no longer established although the speaker sent only well-formed messages; notification=%v", p.spec.Addr, p.spec.Kind, nf), h.witness(tag))
			return false
		}
		got := p.sp.snapshot()
		want := map[simRouteKey]simRoute{}
		for _, f := range p.spec.families() {
			w, err := h.n.adjOut(p.spec.Addr, f, p.spec.SendMax > 0)
			if err != nil {
				h.rec.Inconclusive("c01: ListPath(ADJ_OUT): " + err.Error())
				return false
			}
			for k, v := range w {
				want[k] = v
			}
		}
		if p.spec.SendMax > 0 {
			// ADD-PATH: the fresh evaluation yields every eligible path (send-max filtering is
			// bookkeeping, not part of it), so the oracle is: held ⊆ eligible with identical attributes
			// under the same (stable, local) path id, and per prefix exactly min(send-max, #eligible) held.
			var err error
			if want, err = h.n.adjOutEligible(p.spec.Addr); err != nil {
				h.rec.Inconclusive("c01: adjOutEligible: " + err.Error())
				return false
			}
			h.rec.Count("addpath_comparisons", 1)
			if d := c01AddPathDiff(got, want, int(p.spec.SendMax)); len(d) > 0 {
				// classify by what the history shows, so that a known finding only covers its own shape
				phase := "incremental"
				if p.upSinceCompare {
					phase = "after-session-up"
				} else if p.refreshSinceCompare {
					phase = "after-route-refresh"
				}
				inRib := h.ribIDs(p)
				class, prio := "", 99
				setClass := func(c string, pr int) {
					if pr < prio {
						class, prio = c, pr
					}
				}
				for _, l := range d {
					switch {
					case strings.HasPrefix(l, "OVER"):
						// OVER <family>/<prefix>: ...
						f := strings.Fields(l)[1]
						pfx := strings.TrimSuffix(f[strings.Index(f, "/")+1:], ":")
						if phase == "incremental" && h.looped[p.spec.Addr][pfx] {
							setClass("over-send-max:incremental:after-filtered-version", 10)
						} else {
							setClass("over-send-max:"+phase, 10)
						}
					case strings.HasPrefix(l, "NOT-ELIGIBLE"):
						k := strings.Fields(l)[3] // family/prefix#id
						pfx := k[strings.Index(k, "/")+1 : strings.LastIndex(k, "#")]
						where := "gone-from-rib"
						if inRib[k] {
							where = "still-in-rib"
						}
						p.sp.mu.Lock()
						over := false
						for ok := range p.sp.overSent {
							if ok.String() == k {
								over = true
							}
						}
						p.sp.mu.Unlock()
						if h.looped[p.spec.Addr][pfx] {
							setClass("stale-path:after-looped-version", 30)
						} else if over {
							// the held path was part of a set sent beyond send-max (the receiver saw more than
							// send-max paths for the prefix when it arrived): consequence of the known
							// full-re-advertisement defect, whose paths are not all recorded as sent
							setClass("stale-path:after-over-send-max", 25)
						} else if phase != "incremental" {
							// right after a full re-advertisement the known send-max defect (everything is
							// sent, the held-back marks stay) also leaves paths whose later withdrawal is
							// skipped; an OVER finding of the same comparison takes precedence
							setClass("stale-path:unexplained:"+where+":"+phase, 20)
						} else {
							setClass("stale-path:unexplained:"+where+":"+phase, 0)
						}
					case strings.HasPrefix(l, "UNDER"):
						setClass("under-send-max:"+phase, 40)
					case strings.HasPrefix(l, "DIFFERENT"):
						setClass("different-attrs:"+phase, 50)
					}
				}
				cs := []string{class}
				w := h.witness(tag)
				w["peer"], w["peer_kind"], w["diff"], w["phase"] = p.spec.Addr, p.spec.Kind.String(), d, phase
				p.sp.mu.Lock()
				var last []string
				for i := len(p.sp.rx) - 1; i >= 0 && len(last) < 60; i-- {
					last = append(last, fmt.Sprintf("%v type=%d %v", p.sp.rx[i].At.Format("15:04:05"), p.sp.rx[i].Msg.Header.Type, p.sp.rx[i].Msg.Body))
				}
				p.sp.mu.Unlock()
				w["last_rx_newest_first"] = last
				var rib []string
				for k := range inRib {
					rib = append(rib, k)
				}
				sort.Strings(rib)
				w["rib_ids"] = rib
				target := "non-rs"
				if p.spec.Kind == simRSClient {
					target = "rs-client"
				}
				h.rec.Violation("c01:addpath:"+target+":"+strings.Join(cs, "+"),
					fmt.Sprintf("at quiescence ADD-PATH peer %s (%s, send-max %d, %s): %s", p.spec.Addr, p.spec.Kind, p.spec.SendMax, phase, strings.Join(d, " | ")), w)
				ok = false
			}
			p.sp.mu.Lock()
			if p.sp.nUpdates > 0 {
				h.rec.Nontrivial(fmt.Sprintf("%s|ap%d|%s", p.spec.Kind, p.spec.SendMax, h.shapeHash()))
				h.rec.Count("comparisons_after_updates", 1)
			}
			p.sp.nUpdates = 0
			p.sp.mu.Unlock()
			p.upSinceCompare, p.refreshSinceCompare = false, false
			h.rec.Count("quiescent_comparisons", 1)
			continue
		}
		p.upSinceCompare, p.refreshSinceCompare = false, false
		h.rec.Count("quiescent_comparisons", 1)
		h.rec.Count("routes_compared", len(want))
		p.sp.mu.Lock()
		nup := p.sp.nUpdates
		p.sp.nUpdates = 0
		p.sp.mu.Unlock()
		if nup > 0 {
			h.rec.Nontrivial(fmt.Sprintf("%s|ap%d|%s|%x", p.spec.Kind, p.spec.SendMax, h.shapeHash(), h.sigv()))
			h.rec.Count("comparisons_after_updates", 1)
		}
		if d := c01Diff(got, want); len(d) > 0 {
			kinds := map[string]bool{}
			for _, l := range d {
				kinds[strings.SplitN(l, " ", 2)[0]] = true
			}
			var ks []string
			for k := range kinds {
				ks = append(ks, k)
			}
			sort.Strings(ks)
			w := h.witness(tag)
			w["peer"] = p.spec.Addr
			w["peer_kind"] = p.spec.Kind.String()
			w["diff"] = d
			p.sp.mu.Lock()
			w["rx_msgs_total"] = len(p.sp.rx)
			w["closed_err"] = fmt.Sprint(p.sp.closedErr)
			w["eor"] = fmt.Sprint(p.sp.eor)
			var last []string
			for i := len(p.sp.rx) - 1; i >= 0 && len(last) < 12; i-- {
				last = append(last, fmt.Sprintf("%v type=%d %v", p.sp.rx[i].At.Format("15:04:05"), p.sp.rx[i].Msg.Header.Type, p.sp.rx[i].Msg.Body))
			}
			w["last_rx"] = last
			p.sp.mu.Unlock()
			h.rec.Violation("c01:wire-view!=adj-out:"+p.spec.Kind.String()+":"+strings.Join(ks, "+"),
				fmt.Sprintf("at quiescence peer %s (%s) holds a different route set than gobgp's fresh ADJ_OUT evaluation: %s", p.spec.Addr, p.spec.Kind, strings.Join(d, " | ")), w)
			ok = false
		}
	}
	return ok
}

// ribIDs lists the (family/prefix#local-id) keys present in the table the peer is fed from.
func (h *c01Hist) ribIDs(p *c01Peer) map[string]bool {
	out := map[string]bool{}
	tt, name := api.TableType_TABLE_TYPE_GLOBAL, ""
	if p.spec.Kind == simRSClient {
		tt, name = api.TableType_TABLE_TYPE_LOCAL, p.spec.Addr
	}
	for _, f := range p.spec.families() {
		h.n.s.ListPath(apiutil.ListPathRequest{TableType: tt, Name: name, Family: f}, func(prefix bgp.NLRI, paths []*apiutil.Path) {
			for _, ap := range paths {
				out[simRouteKey{f, prefix.String(), ap.LocalID}.String()] = true
			}
		})
	}
	return out
}

func (h *c01Hist) sigv() uint64 {
	if h.sig == nil {
		return 0
	}
	return h.sig()
}

// c01ExportPolicy installs a global export policy: routes carrying community 65000:1 are
// rejected, routes carrying 65000:2 get MED 77, everything else is accepted unchanged.
func c01ExportPolicy(n *simNet) error {
	bg := context.Background()
	s := n.s
	for _, ds := range []*api.DefinedSet{
		{DefinedType: api.DefinedType_DEFINED_TYPE_COMMUNITY, Name: "c1", List: []string{"^65000:1$"}},
		{DefinedType: api.DefinedType_DEFINED_TYPE_COMMUNITY, Name: "c2", List: []string{"^65000:2$"}},
	} {
		if err := s.AddDefinedSet(bg, &api.AddDefinedSetRequest{DefinedSet: ds}); err != nil {
			return err
		}
	}
	pol := &api.Policy{Name: "exp", Statements: []*api.Statement{
		{Name: "exp-rej", Conditions: &api.Conditions{CommunitySet: &api.MatchSet{Name: "c1", Type: api.MatchSet_TYPE_ANY}}, Actions: &api.Actions{RouteAction: api.RouteAction_ROUTE_ACTION_REJECT}},
		{Name: "exp-med", Conditions: &api.Conditions{CommunitySet: &api.MatchSet{Name: "c2", Type: api.MatchSet_TYPE_ANY}}, Actions: &api.Actions{RouteAction: api.RouteAction_ROUTE_ACTION_ACCEPT, Med: &api.MedAction{Type: api.MedAction_TYPE_REPLACE, Value: 77}}},
	}}
	if err := s.AddPolicy(bg, &api.AddPolicyRequest{Policy: pol}); err != nil {
		return err
	}
	return s.AddPolicyAssignment(bg, &api.AddPolicyAssignmentRequest{Assignment: &api.PolicyAssignment{Name: table.GLOBAL_RIB_NAME, Direction: api.PolicyDirection_POLICY_DIRECTION_EXPORT,
		Policies: []*api.Policy{{Name: "exp"}}, DefaultAction: api.RouteAction_ROUTE_ACTION_ACCEPT}})
}

func (h *c01Hist) shapeHash() string {
	var ks []string
	for k, v := range h.events {
		ks = append(ks, fmt.Sprintf("%s%d", k, v))
	}
	sort.Strings(ks)
	return vlib.Hash(strings.Join(ks, ","))
}

func (h *c01Hist) witness(tag string) map[string]any {
	var specs []string
	for _, p := range h.peers {
		specs = append(specs, fmt.Sprintf("%s %s as%d v6=%v aprecv=%v sendmax=%d", p.spec.Addr, p.spec.Kind, p.spec.AS, p.spec.V6, p.spec.APRecv, p.spec.SendMax))
	}
	return map[string]any{"case": h.idx, "at": tag, "peers": specs, "history": append([]string{}, h.log...)}
}

func TestVerifC01(t *testing.T) {
	rec := vlib.Open("C01")
	defer rec.Close()
	total := vlib.Scale(7200, 72000)
	vlib.Cases(total, func(idx int) {
		rec.Mark(fmt.Sprintf("c01 history %d", idx), true)
		synctest.Test(t, func(t *testing.T) { c01History(t, rec, idx) })
	})
}

func c01History(t *testing.T, rec *vlib.Rec, idx int) {
	r := vlib.CaseRand("c01", idx)
	n := simStart(t, &api.Global{Asn: simLocalAS, RouterId: "1.1.1.1"})
	defer func() {
		n.stop()
		synctest.Wait()
	}()
	h := &c01Hist{t: t, rec: rec, idx: idx, r: r, n: n, apiUU: map[string][]byte{}, looped: map[string]map[string]bool{}, events: map[string]int{}}
	feat := os.Getenv("VERIF_C01_FEATURES") // development aid: "" = all; otherwise letters c(hurn) y(ield) p(olicy)
	on := func(c string) bool { return feat == "" || strings.Contains(feat, c) }
	h.peerChurn = r.IntN(2) == 0 && on("c")
	sig := func() uint64 { return 0 }
	if r.IntN(2) == 0 && on("y") {
		var yn func() int64
		var un func()
		sig, yn, un = simInstallYield(r.Uint64(), false)
		defer func() {
			rec.Count("yield_points_passed", int(yn()))
			un()
		}()
		rec.Count("histories_with_yield_hook", 1)
	}
	h.sig = sig
	if r.IntN(3) == 0 && on("p") {
		if err := c01ExportPolicy(n); err != nil {
			rec.Inconclusive("c01: export policy: " + err.Error())
			return
		}
		h.exportPolicy = true
		rec.Count("histories_with_export_policy", 1)
	}
	for _, ps := range c01GenPeers(r) {
		sp, err := n.addPeer(ps)
		if err != nil {
			rec.Inconclusive("c01: AddPeer: " + err.Error())
			return
		}
		h.peers = append(h.peers, &c01Peer{spec: ps, sp: sp, ann: map[string]map[uint32]bool{}})
	}
	synctest.Wait()
	for _, p := range h.peers {
		if r.IntN(5) == 0 {
			continue // starts down; comes up later (initial table transfer of a non-empty RIB)
		}
		if err := p.sp.bringUp(40); err != nil {
			rec.Inconclusive("c01: " + err.Error())
			return
		}
		p.up = true
	}
	rec.Eval()
	nEvents := 40 + r.IntN(120)
	next := 5 + r.IntN(15)
	for i := 0; i < nEvents; i++ {
		h.step()
		rec.Count("events", 1)
		if i == next || i == nEvents-1 {
			next = i + 5 + r.IntN(15)
			if !h.compare(fmt.Sprintf("event %d", i)) {
				return
			}
		} else if r.IntN(3) == 0 {
			synctest.Wait() // let gobgp drain; otherwise events pile up in the pipes
		}
	}
	for k, v := range h.events {
		rec.Count("ev_"+k, v)
	}
	if idx%97 == 0 {
		w := h.witness("end")
		if hist := w["history"].([]string); len(hist) > 25 {
			w["history"] = hist[:25]
		}
		rec.Sample(w)
	}
	_ = context.Background
}
