package server

// C17 — VRF import/export and RT Constraint distribute exactly the matching routes.
//
// A real BgpServer runs in a synctest bubble against scripted PE / RTC / CE speakers. PRNG histories
// of route, membership, VRF and session events are executed; at exact quiescence every observable
// view (ListPath of the VPN tables and of each VRF, what every speaker holds according to the bytes
// gobgp wrote to it) is compared with c17Model, a plain relation over (routes, VRFs, memberships).
//
// The only thing taken from gobgp for the expectation is WHICH path of a destination the Loc-RIB
// ranks first (best-path selection is C02/C03), after the table's path set itself was compared.

import (
	"context"
	"encoding/hex"
	"fmt"
	"math/rand/v2"
	"net/netip"
	"sort"
	"strings"
	"sync"
	"testing"
	"time"

	"github.com/google/uuid"

	"github.com/osrg/gobgp/v4/api"
	"github.com/osrg/gobgp/v4/internal/verif/vlib"
	"github.com/osrg/gobgp/v4/pkg/apiutil"
	"github.com/osrg/gobgp/v4/pkg/packet/bgp"
)

const c17TagHi = 64000

type c17Role int

const (
	c17PE c17Role = iota
	c17RTC
	c17CE
)

func (r c17Role) String() string { return [...]string{"pe-peer", "rtc-peer", "ce-peer"}[r] }

type c17Peer struct {
	spec     simPeerSpec
	sp       *simSpeaker
	role     c17Role
	up       bool
	vrf      string // CE: the VRF it is attached to
	apVPN    bool   // the speaker sends path ids in the VPN families
	apRTC    bool   // ... in the rtc family
	deferral uint32 // gobgp's route-target-membership deferral-time for this neighbour
	upAt     time.Time
	eorSent  bool
	members  map[c17Member]bool // membership NLRI currently announced -> accepted by the import policy
	lastMsg  map[c17PathKey]*bgp.BGPMessage
	rxBase   int // len(sp.rx) when the current session started

	// graceful restart (PE speakers only, RFC 4724 helper role of gobgp, no LLGR)
	gr         uint32    // restart time the speaker advertises (0 = no graceful restart capability)
	restarting bool      // gobgp retains this speaker's routes as stale: until the timer fires or, once it is back, its End-of-RIBs
	staleUntil time.Time // when the restart timer fires (only meaningful while the session is down)
}

func (p *c17Peer) addr() string { return p.spec.Addr }

type c17Ev struct {
	seq  int
	kind string
}

type c17Hist struct {
	t     *testing.T
	rec   *vlib.Rec
	idx   int
	r     *rand.Rand
	n     *simNet
	m     *c17Model
	peers []*c17Peer
	vrfs  []*c17Vrf // all slots, present or not

	rtcPolicy bool // global import policy rejecting rtc routes with AS_PATH length >= 3
	medPolicy bool // global import policy rewriting MED of every VPN route (what the table holds is a clone of the Adj-RIB-In path)
	collide   bool // the same prefix may appear under several RDs importable into one VRF

	pePool  []c17KeySpec
	vrfPool map[string][]c17KeySpec

	apiUUID map[c17PathKey]uuid.UUID
	apiVrf  map[c17PathKey]*apiutil.Path // VRF-originated API routes: what to hand to DeletePath

	nextTag uint32
	log     []string
	events  map[string]int
	seq     int
	last    map[string]c17Ev
	keyRTs  map[string]map[string]bool // every RT (hex) any version of a key ever carried
	changes []string                   // membership / VRF change kinds since the previous comparison
	allChg  int
	nMemChg int
	nVrfChg int

	// attribution of a difference to the event that caused it (violation keys only, not the oracle)
	curKind  string
	curActor string
	evKind   []string                            // per event index
	evActor  []string                            // neighbour that acted ("" = operator / nobody)
	rxMark   map[string][]int                    // per neighbour: len(sp.rx) at quiescence after event i
	since    map[string]map[simRouteKey]c17Since // per neighbour: key expected since event .ev with acceptable versions .sig
	gone     map[string]map[simRouteKey]c17Gone  // per neighbour: key was expected earlier in this session, not any more since event
	tagKey   map[uint32]c17PathKey               // which route a version tag belonged to
	tagDied  map[uint32]int                      // event at which that version was replaced / withdrawn / lost
	bestTags []map[uint32]bool                   // per event: the versions gobgp ranked first at quiescence after it
	apiRel   map[string]map[string]bool          // AddPath NLRI text of API routes originated in a VRF -> VRFs that used it
	apKeys   map[string]bool                     // NLRI (key scope) for which some source announced a path WITH a path id
}

type c17Since struct {
	ev    int
	sig   string
	fresh bool // not expected at all right before .ev (as opposed to: expected, the version changed at .ev)
}

type c17Gone struct {
	ev  int
	why string // best-became-non-importable | no-membership | own-best | no-best
}

func (h *c17Hist) logf(f string, a ...any) {
	h.log = append(h.log, fmt.Sprintf("%03d ", h.seq)+fmt.Sprintf(f, a...))
	if simDebug {
		fmt.Printf("SIMDBG EVENT "+f+"\n", a...)
	}
}

func (h *c17Hist) note(scope, kind string) { h.last[scope] = c17Ev{h.seq, kind} }

func (h *c17Hist) change(kind string) {
	h.changes = append(h.changes, kind)
	h.allChg++
	if strings.Contains(kind, "vrf") {
		h.nVrfChg++
	} else {
		h.nMemChg++
	}
}

func (h *c17Hist) ev(kind, actor string) { h.curKind, h.curActor = kind, actor }

// lastKind: the most recent recorded event among the scopes.
func (h *c17Hist) lastKind(scopes ...string) string {
	best := c17Ev{-1, "start"}
	for _, s := range scopes {
		if e, ok := h.last[s]; ok && e.seq > best.seq {
			best = e
		}
	}
	return best.kind
}

func c17KeyScope(fam bgp.Family, key string) string { return "key:" + fam.String() + "/" + key }

// scopes relevant to "peer p does / does not hold key": the route's own events, the peer's session,
// its default membership and its memberships for every RT any version of the route carried.
func (h *c17Hist) peerScopes(p *c17Peer, fam bgp.Family, key string) []string {
	s := []string{c17KeyScope(fam, key), "peer:" + p.addr(), "peer:" + p.addr() + ":rt:" + c17DefaultRT}
	for rt := range h.keyRTs[c17KeyScope(fam, key)] {
		s = append(s, "peer:"+p.addr()+":rt:"+rt)
	}
	return s
}

// ---------------------------------------------------------------- configuration of one history

func c17AfiSafi(f bgp.Family, apRecv bool, deferral uint32) *api.AfiSafi {
	af := &api.AfiSafi{Config: &api.AfiSafiConfig{Family: &api.Family{Afi: api.Family_Afi(f.Afi()), Safi: api.Family_Safi(f.Safi())}, Enabled: true}}
	if apRecv {
		af.AddPaths = &api.AddPaths{Config: &api.AddPathsConfig{Receive: true}}
	}
	if deferral > 0 {
		af.RouteTargetMembership = &api.RouteTargetMembership{Config: &api.RouteTargetMembershipConfig{DeferralTime: deferral}}
	}
	return af
}

func c17Subset(r *rand.Rand, pool []c17RT, min, max int) []c17RT {
	n := min + r.IntN(max-min+1)
	perm := r.Perm(len(pool))
	var out []c17RT
	for i := 0; i < n && i < len(perm); i++ {
		out = append(out, pool[perm[i]])
	}
	return out
}

func (h *c17Hist) genVrfs() {
	r := h.r
	n := 2 + r.IntN(3)
	for i := 0; i < n; i++ {
		v := &c17Vrf{name: fmt.Sprintf("v%d", i), rdAdmin: uint32(10 + i), id: uint32(1 + i)}
		h.vrfs = append(h.vrfs, v)
		h.m.vrfs[v.name] = v
	}
}

func (h *c17Hist) randomizeVrfRTs(v *c17Vrf) {
	r := h.r
	lo := 1
	if r.IntN(8) == 0 {
		lo = 0
	}
	v.imp = c17Subset(r, c17TransRTs, lo, 3)
	lo = 1
	if r.IntN(8) == 0 {
		lo = 0
	}
	v.exp = c17Subset(r, c17TransRTs, lo, 2)
}

func (h *c17Hist) genPools() {
	// PE / API pool: a handful of RD:prefix and EVPN keys
	h.pePool = []c17KeySpec{
		{fam: bgp.RF_IPv4_VPN, rdAdmin: 100, prefix: "10.1.0.0/24"},
		{fam: bgp.RF_IPv4_VPN, rdAdmin: 101, prefix: "10.1.1.0/24"},
		{fam: bgp.RF_IPv4_VPN, rdAdmin: 100, prefix: "10.2.0.0/16"},
		{fam: bgp.RF_IPv4_VPN, rdAdmin: 10, prefix: "10.3.0.0/24"}, // carries the RD of local VRF v0
		{fam: bgp.RF_EVPN, rdAdmin: 100, evpn: 3, etag: 10, ip: "192.0.2.1"},
		{fam: bgp.RF_EVPN, rdAdmin: 101, evpn: 3, etag: 20, ip: "192.0.2.2"},
		{fam: bgp.RF_EVPN, rdAdmin: 100, evpn: 2, etag: 10, mac: "00:11:22:33:44:55", ip: "192.0.2.10"},
	}
	if h.collide {
		h.pePool = append(h.pePool,
			c17KeySpec{fam: bgp.RF_IPv4_VPN, rdAdmin: 101, prefix: "10.1.0.0/24"},
			c17KeySpec{fam: bgp.RF_IPv4_VPN, rdAdmin: 100, prefix: "10.1.1.0/24"})
	}
	h.vrfPool = map[string][]c17KeySpec{}
	for i, v := range h.vrfs {
		pool := []c17KeySpec{
			{fam: bgp.RF_IPv4_VPN, rdAdmin: v.rdAdmin, prefix: fmt.Sprintf("172.16.%d.0/24", i)},
			{fam: bgp.RF_IPv4_VPN, rdAdmin: v.rdAdmin, prefix: fmt.Sprintf("172.16.%d.0/24", 16+i)},
		}
		if h.collide {
			pool = append(pool, c17KeySpec{fam: bgp.RF_IPv4_VPN, rdAdmin: v.rdAdmin, prefix: "10.1.0.0/24"},
				c17KeySpec{fam: bgp.RF_IPv4_VPN, rdAdmin: v.rdAdmin, prefix: "172.16.0.0/24"})
		}
		h.vrfPool[v.name] = pool
	}
}

func (h *c17Hist) genPeers() []*c17Peer {
	r := h.r
	var out []*c17Peer
	next := 2
	mk := func(role c17Role) *c17Peer {
		i := next
		next++
		p := &c17Peer{role: role, members: map[c17Member]bool{}, lastMsg: map[c17PathKey]*bgp.BGPMessage{}}
		p.spec = simPeerSpec{Addr: fmt.Sprintf("10.0.0.%d", i), ID: fmt.Sprintf("%d.%d.%d.%d", i, i, i, i)}
		if role != c17CE && r.IntN(2) == 0 {
			p.spec.Kind, p.spec.AS = simRRClient, simLocalAS
		} else {
			p.spec.Kind, p.spec.AS = simEBGP, uint32(65100+i)
		}
		return p
	}
	nPE := 1 + r.IntN(2)
	nRTC := 1 + r.IntN(2)
	nCE := r.IntN(3)
	for i := 0; i < nPE; i++ {
		p := mk(c17PE)
		p.apVPN = r.IntN(3) == 0
		if r.IntN(2) == 0 {
			p.gr = []uint32{3, 8, 12, 20}[r.IntN(4)]
		}
		out = append(out, p)
	}
	for i := 0; i < nRTC; i++ {
		p := mk(c17RTC)
		p.apVPN = r.IntN(4) == 0
		p.apRTC = r.IntN(3) == 0
		if r.IntN(2) == 0 {
			p.deferral = uint32(3 + r.IntN(4))
		}
		out = append(out, p)
	}
	for i := 0; i < nCE; i++ {
		p := mk(c17CE)
		v := h.vrfs[r.IntN(len(h.vrfs))]
		v.hasCE = true
		p.vrf = v.name
		out = append(out, p)
	}
	for _, p := range out {
		p := p
		switch p.role {
		case c17CE:
			p.spec.Extra = func(ap *api.Peer) { ap.Conf.Vrf = p.vrf }
		default:
			fams := []bgp.Family{bgp.RF_IPv4_VPN, bgp.RF_EVPN}
			if p.role == c17RTC {
				fams = append(fams, bgp.RF_RTC_UC)
			}
			p.spec.Extra = func(ap *api.Peer) {
				ap.AfiSafis = nil
				for _, f := range fams {
					if f == bgp.RF_RTC_UC {
						ap.AfiSafis = append(ap.AfiSafis, c17AfiSafi(f, p.apRTC, p.deferral))
					} else {
						ap.AfiSafis = append(ap.AfiSafis, c17AfiSafi(f, p.apVPN, 0))
					}
				}
				if p.gr > 0 {
					ap.GracefulRestart = &api.GracefulRestart{Enabled: true, RestartTime: p.gr}
					for _, af := range ap.AfiSafis {
						af.MpGracefulRestart = &api.MpGracefulRestart{Config: &api.MpGracefulRestartConfig{Enabled: true}}
					}
				}
			}
			p.spec.SpeakerMod = func(c *simSpeakerConf) {
				c.Families = fams
				c.AddPath = map[bgp.Family]bgp.BGPAddPathMode{}
				for _, f := range fams {
					if f == bgp.RF_RTC_UC && p.apRTC || f != bgp.RF_RTC_UC && p.apVPN {
						c.AddPath[f] = bgp.BGP_ADD_PATH_SEND
					}
				}
				if p.gr > 0 {
					var gt []*bgp.CapGracefulRestartTuple
					for _, f := range fams {
						gt = append(gt, bgp.NewCapGracefulRestartTuple(f, true))
					}
					c.ExtraCaps = append(c.ExtraCaps, bgp.NewCapGracefulRestart(false, false, uint16(p.gr), gt))
				}
			}
		}
	}
	return out
}

func (h *c17Hist) installPolicies() error {
	ctx := context.Background()
	med := &api.Statement{
		Name: "c17-vpn-med",
		Conditions: &api.Conditions{AfiSafiIn: []*api.Family{
			{Afi: api.Family_AFI_IP, Safi: api.Family_SAFI_MPLS_VPN}, {Afi: api.Family_AFI_L2VPN, Safi: api.Family_SAFI_EVPN}}},
		Actions: &api.Actions{RouteAction: api.RouteAction_ROUTE_ACTION_ACCEPT, Med: &api.MedAction{Type: api.MedAction_TYPE_REPLACE, Value: 77}},
	}
	stmt := &api.Statement{
		Name: "c17-reject-long-rtc",
		Conditions: &api.Conditions{
			AfiSafiIn:    []*api.Family{{Afi: api.Family_AFI_IP, Safi: api.Family_SAFI_ROUTE_TARGET_CONSTRAINTS}},
			AsPathLength: &api.AsPathLength{Type: api.Comparison_COMPARISON_GE, Length: 3},
		},
		Actions: &api.Actions{RouteAction: api.RouteAction_ROUTE_ACTION_REJECT},
	}
	pol := &api.Policy{Name: "c17-import"}
	if h.rtcPolicy {
		pol.Statements = append(pol.Statements, stmt)
	}
	if h.medPolicy {
		pol.Statements = append(pol.Statements, med)
	}
	if err := h.n.s.AddPolicy(ctx, &api.AddPolicyRequest{Policy: pol}); err != nil {
		return err
	}
	return h.n.s.AddPolicyAssignment(ctx, &api.AddPolicyAssignmentRequest{Assignment: &api.PolicyAssignment{
		Name: "global", Direction: api.PolicyDirection_POLICY_DIRECTION_IMPORT, Policies: []*api.Policy{pol}, DefaultAction: api.RouteAction_ROUTE_ACTION_ACCEPT}})
}

func (h *c17Hist) addVrf(v *c17Vrf) error {
	var im, ex []bgp.ExtendedCommunityInterface
	for _, rt := range v.imp {
		im = append(im, rt.ec())
	}
	for _, rt := range v.exp {
		ex = append(ex, rt.ec())
	}
	irt, _ := apiutil.MarshalRTs(im)
	ert, _ := apiutil.MarshalRTs(ex)
	rd, _ := apiutil.MarshalRD(v.rd())
	err := h.n.s.AddVrf(context.Background(), &api.AddVrfRequest{Vrf: &api.Vrf{Name: v.name, Rd: rd, ImportRt: irt, ExportRt: ert, Id: v.id}})
	if err == nil {
		v.present = true
	}
	return err
}

// ---------------------------------------------------------------- message construction (speaker side)

func (h *c17Hist) tag() uint32 { h.nextTag++; return h.nextTag }

func c17ExtComms(rts []c17RT) bgp.PathAttributeInterface {
	var ecs []bgp.ExtendedCommunityInterface
	for _, rt := range rts {
		ecs = append(ecs, rt.ec())
	}
	return bgp.NewPathAttributeExtendedCommunities(ecs)
}

func c17BaseAttrs(p *c17Peer, extraAS []uint32, lp uint32, tag uint32) []bgp.PathAttributeInterface {
	var aspath []uint32
	if p.spec.Kind == simEBGP {
		aspath = append(aspath, p.spec.AS)
	}
	aspath = append(aspath, extraAS...)
	var params []bgp.AsPathParamInterface
	if len(aspath) > 0 {
		params = append(params, bgp.NewAs4PathParam(bgp.BGP_ASPATH_ATTR_TYPE_SEQ, aspath))
	}
	attrs := []bgp.PathAttributeInterface{bgp.NewPathAttributeOrigin(0), bgp.NewPathAttributeAsPath(params)}
	if p.spec.Kind != simEBGP {
		attrs = append(attrs, bgp.NewPathAttributeLocalPref(lp))
	}
	if tag != 0 {
		attrs = append(attrs, bgp.NewPathAttributeCommunities([]uint32{c17TagHi<<16 | tag}))
	}
	return attrs
}

func c17BuildMP(p *c17Peer, fam bgp.Family, nl bgp.NLRI, id uint32, rts []c17RT, lp, tag uint32, extraAS []uint32) *bgp.BGPMessage {
	attrs := c17BaseAttrs(p, extraAS, lp, tag)
	if len(rts) > 0 {
		attrs = append(attrs, c17ExtComms(rts))
	}
	mp, _ := bgp.NewPathAttributeMpReachNLRI(fam, []bgp.PathNLRI{{NLRI: nl, ID: id}}, netip.MustParseAddr(p.addr()))
	attrs = append(attrs, mp)
	return bgp.NewBGPUpdateMessage(nil, attrs, nil)
}

func c17BuildMPWithdraw(fam bgp.Family, nl bgp.NLRI, id uint32) *bgp.BGPMessage {
	mp, _ := bgp.NewPathAttributeMpUnreachNLRI(fam, []bgp.PathNLRI{{NLRI: nl, ID: id}})
	return bgp.NewBGPUpdateMessage(nil, []bgp.PathAttributeInterface{mp}, nil)
}

func c17BuildPlain(p *c17Peer, prefix string, rts []c17RT, tag uint32) *bgp.BGPMessage {
	attrs := c17BaseAttrs(p, nil, 100, tag)
	if len(rts) > 0 {
		attrs = append(attrs, c17ExtComms(rts))
	}
	nh, _ := bgp.NewPathAttributeNextHop(netip.MustParseAddr(p.addr()))
	attrs = append(attrs, nh)
	nl, _ := bgp.NewIPAddrPrefix(netip.MustParsePrefix(prefix))
	return bgp.NewBGPUpdateMessage(nil, attrs, []bgp.PathNLRI{{NLRI: nl}})
}

func c17BuildPlainWithdraw(prefix string) *bgp.BGPMessage {
	nl, _ := bgp.NewIPAddrPrefix(netip.MustParsePrefix(prefix))
	return bgp.NewBGPUpdateMessage([]bgp.PathNLRI{{NLRI: nl}}, nil, nil)
}

// ---------------------------------------------------------------- events

func (h *c17Hist) upPeers(roles ...c17Role) []*c17Peer {
	var out []*c17Peer
	for _, p := range h.peers {
		if !p.up {
			continue
		}
		for _, r := range roles {
			if p.role == r {
				out = append(out, p)
			}
		}
	}
	return out
}

func (h *c17Hist) presentVrfs(onlyDeletable bool) []*c17Vrf {
	var out []*c17Vrf
	for _, v := range h.vrfs {
		if v.present && !(onlyDeletable && v.hasCE) {
			out = append(out, v)
		}
	}
	return out
}

func (h *c17Hist) randRouteRTs() []c17RT {
	r := h.r
	var rts []c17RT
	switch k := r.IntN(10); {
	case k == 0: // none
	case k < 5:
		rts = c17Subset(r, c17TransRTs, 1, 1)
	case k < 8:
		rts = c17Subset(r, c17TransRTs, 2, 3)
	case k < 9: // only non-transitive
		rts = c17Subset(r, c17NonTransRTs, 1, 2)
	default: // mixed, with a duplicate
		rts = append(c17Subset(r, c17TransRTs, 1, 1), c17Subset(r, c17NonTransRTs, 1, 1)...)
		rts = append(rts, rts[0])
	}
	return rts
}

func (h *c17Hist) rememberRTs(fam bgp.Family, key string, rts []c17RT) {
	sc := c17KeyScope(fam, key)
	if h.keyRTs[sc] == nil {
		h.keyRTs[sc] = map[string]bool{}
	}
	for _, rt := range rts {
		h.keyRTs[sc][rt.hex()] = true
	}
}

// putRoute records an announcement in the model and classifies it for violation keys.
func (h *c17Hist) putRoute(rt *c17Route) string {
	h.tagKey[rt.tag] = rt.c17PathKey
	if rt.id != 0 {
		h.apKeys[c17KeyScope(rt.fam, rt.key)] = true
	}
	if rt.rel != "" {
		if h.apiRel[rt.rel] == nil {
			h.apiRel[rt.rel] = map[string]bool{}
		}
		h.apiRel[rt.rel][rt.vrf] = true
	}
	kind := "route-announce"
	if old, ok := h.m.routes[rt.c17PathKey]; ok {
		h.tagDied[old.tag] = h.seq
		kind = "route-replace"
		if c17SetString(c17RTHexSet(old.rts)) != c17SetString(c17RTHexSet(rt.rts)) {
			kind = "route-rt-change"
		}
	}
	h.m.routes[rt.c17PathKey] = rt
	h.rememberRTs(rt.fam, rt.key, rt.rts)
	h.note(c17KeyScope(rt.fam, rt.key), kind)
	return kind
}

func (h *c17Hist) delRoute(pk c17PathKey, kind string) {
	if old, ok := h.m.routes[pk]; ok {
		h.tagDied[old.tag] = h.seq
		delete(h.m.routes, pk)
		h.note(c17KeyScope(pk.fam, pk.key), kind)
	}
}

func (h *c17Hist) evVPNAnnounce() {
	r := h.r
	ups := h.upPeers(c17PE, c17RTC)
	if len(ups) == 0 {
		return
	}
	p := ups[r.IntN(len(ups))]
	ks := h.pePool[r.IntN(len(h.pePool))]
	id := uint32(0)
	if p.apVPN {
		id = uint32(1 + r.IntN(2))
	}
	nl := ks.nlri(uint32(100 + r.IntN(3)))
	pk := c17PathKey{ks.fam, nl.String(), p.addr(), id}
	if m := p.lastMsg[pk]; m != nil && h.m.routes[pk] != nil && r.IntN(8) == 0 {
		// exact duplicate of what the speaker announced last
		p.sp.sendMsg(m)
		h.ev("route-duplicate", p.addr())
		h.events["vpn-duplicate"]++
		h.logf("vpn-duplicate %s %s#%d", p.addr(), pk.key, id)
		return
	}
	rts := h.randRouteRTs()
	tag := h.tag()
	lp := uint32(100)
	if r.IntN(4) == 0 {
		lp = 200
	}
	msg := c17BuildMP(p, ks.fam, nl, id, rts, lp, tag, nil)
	if p.sp.sendMsg(msg) != nil {
		return
	}
	p.lastMsg[pk] = msg
	h.ev(h.putRoute(&c17Route{c17PathKey: pk, rts: rts, tag: tag, plain: ks.plain(), rd: ks.rdString()}), p.addr())
	h.events["vpn-announce"]++
	h.events["fam-"+ks.fam.String()]++
	h.logf("vpn-announce %s (%s) %s %s#%d rts=%s lp=%d tag=%d", p.addr(), p.spec.Kind, ks.fam, pk.key, id, c17RTsString(rts), lp, tag)
}

func (h *c17Hist) evVPNWithdraw() {
	r := h.r
	ups := h.upPeers(c17PE, c17RTC)
	if len(ups) == 0 {
		return
	}
	p := ups[r.IntN(len(ups))]
	var pk c17PathKey
	found := false
	if r.IntN(5) != 0 { // prefer something this speaker announces
		var mine []c17PathKey
		for k := range h.m.routes {
			if k.src == p.addr() {
				mine = append(mine, k)
			}
		}
		sort.Slice(mine, func(i, j int) bool { return fmt.Sprint(mine[i]) < fmt.Sprint(mine[j]) })
		if len(mine) > 0 {
			pk, found = mine[r.IntN(len(mine))], true
		}
	}
	var nl bgp.NLRI
	if found {
		for _, ks := range h.pePool {
			if n := ks.nlri(0); ks.fam == pk.fam && n.String() == pk.key {
				nl = n
			}
		}
	}
	if nl == nil { // possibly never announced
		ks := h.pePool[r.IntN(len(h.pePool))]
		nl = ks.nlri(0)
		id := uint32(0)
		if p.apVPN {
			id = uint32(1 + r.IntN(2))
		}
		pk = c17PathKey{ks.fam, nl.String(), p.addr(), id}
	}
	if p.sp.sendMsg(c17BuildMPWithdraw(pk.fam, nl, pk.id)) != nil {
		return
	}
	h.ev("route-withdraw", p.addr())
	if _, ok := h.m.routes[pk]; !ok {
		h.events["vpn-withdraw-unknown"]++
		h.ev("route-withdraw-unknown", p.addr())
	}
	h.delRoute(pk, "route-withdraw")
	delete(p.lastMsg, pk)
	h.events["vpn-withdraw"]++
	h.logf("vpn-withdraw %s %s %s#%d", p.addr(), pk.fam, pk.key, pk.id)
}

// membership events -------------------------------------------------------

func (h *c17Hist) randMember(p *c17Peer) (c17Member, *c17RT) {
	r := h.r
	id := uint32(0)
	if p.apRTC {
		id = uint32(1 + r.IntN(2))
	}
	if r.IntN(7) == 0 {
		return c17Member{as: 0, rt: c17DefaultRT, id: id}, nil
	}
	var rt c17RT
	if r.IntN(12) == 0 {
		rt = c17NonTransRTs[r.IntN(len(c17NonTransRTs))]
	} else {
		rt = c17TransRTs[r.IntN(len(c17TransRTs))]
	}
	as := []uint32{p.spec.AS, p.spec.AS, 64512, simLocalAS}[r.IntN(4)]
	return c17Member{as: as, rt: rt.hex(), id: id}, &rt
}

func (h *c17Hist) evRTMAnnounce() {
	r := h.r
	ups := h.upPeers(c17RTC)
	if len(ups) == 0 {
		return
	}
	p := ups[r.IntN(len(ups))]
	mb, rt := h.randMember(p)
	var ec bgp.ExtendedCommunityInterface
	if rt != nil {
		ec = rt.ec()
	}
	nl := bgp.NewRouteTargetMembershipNLRI(mb.as, ec)
	extra := []int{0, 0, 0, 0, 1, 2, 3}[r.IntN(7)]
	var extraAS []uint32
	for i := 0; i < extra; i++ {
		extraAS = append(extraAS, uint32(64512+i))
	}
	plen := extra
	if p.spec.Kind == simEBGP {
		plen++
	}
	accepted := !h.rtcPolicy || plen < 3
	msg := c17BuildMP(p, bgp.RF_RTC_UC, nl, mb.id, nil, 100, 0, extraAS)
	if p.sp.sendMsg(msg) != nil {
		return
	}
	before := c17HasRT(p.members, mb.rt)
	p.members[mb] = accepted
	after := c17HasRT(p.members, mb.rt)
	what := "membership"
	if mb.rt == c17DefaultRT {
		what = "default-membership"
	}
	kind := what + "-announce-nochange"
	switch {
	case !before && after:
		kind = what + "-announce"
	case before && !after:
		kind = what + "-replaced-by-rejected"
	case !accepted:
		kind = what + "-announce-rejected"
	}
	h.note("peer:"+p.addr()+":rt:"+mb.rt, kind)
	h.change(kind)
	h.ev(kind, p.addr())
	h.events["rtm-announce"]++
	if !accepted {
		h.events["rtm-announce-rejected-by-policy"]++
	}
	if mb.rt == c17DefaultRT {
		h.events["rtm-default-announce"]++
	}
	h.logf("rtm-announce %s (%s) %s#%d aspath-len=%d accepted=%v -> %s", p.addr(), p.spec.Kind, nl, mb.id, plen, accepted, kind)
}

func (h *c17Hist) evRTMWithdraw() {
	r := h.r
	ups := h.upPeers(c17RTC)
	if len(ups) == 0 {
		return
	}
	p := ups[r.IntN(len(ups))]
	var mb c17Member
	var ec bgp.ExtendedCommunityInterface
	known := false
	if r.IntN(5) != 0 && len(p.members) > 0 {
		var ms []c17Member
		for m := range p.members {
			ms = append(ms, m)
		}
		sort.Slice(ms, func(i, j int) bool { return fmt.Sprint(ms[i]) < fmt.Sprint(ms[j]) })
		mb, known = ms[r.IntN(len(ms))], true
		if mb.rt != c17DefaultRT {
			b, _ := hex.DecodeString(mb.rt)
			ec, _ = bgp.ParseExtended(b)
		}
	} else {
		var rt *c17RT
		mb, rt = h.randMember(p)
		if rt != nil {
			ec = rt.ec()
		}
		_, known = p.members[mb]
	}
	nl := bgp.NewRouteTargetMembershipNLRI(mb.as, ec)
	if p.sp.sendMsg(c17BuildMPWithdraw(bgp.RF_RTC_UC, nl, mb.id)) != nil {
		return
	}
	before := c17HasRT(p.members, mb.rt)
	delete(p.members, mb)
	after := c17HasRT(p.members, mb.rt)
	what := "membership"
	if mb.rt == c17DefaultRT {
		what = "default-membership"
	}
	kind := what + "-withdraw-nochange"
	if before && !after {
		kind = what + "-withdraw"
	}
	h.note("peer:"+p.addr()+":rt:"+mb.rt, kind)
	h.change(kind)
	h.ev(kind, p.addr())
	h.events["rtm-withdraw"]++
	if !known {
		h.events["rtm-withdraw-never-announced"]++
	}
	h.logf("rtm-withdraw %s %s#%d known=%v -> %s", p.addr(), nl, mb.id, known, kind)
}

func (h *c17Hist) evRTCEor() {
	ups := h.upPeers(c17RTC)
	if len(ups) == 0 {
		return
	}
	p := ups[h.r.IntN(len(ups))]
	if p.sp.sendMsg(bgp.NewEndOfRib(bgp.RF_RTC_UC)) != nil {
		return
	}
	if !p.eorSent && p.deferral > 0 {
		h.note("peer:"+p.addr(), "rtc-end-of-rib")
	}
	p.eorSent = true
	h.ev("rtc-end-of-rib", p.addr())
	h.events["rtc-eor"]++
	h.logf("rtc-eor %s", p.addr())
}

// VRF events ----------------------------------------------------------------

func (h *c17Hist) evAddVrf() {
	var absent []*c17Vrf
	for _, v := range h.vrfs {
		if !v.present {
			absent = append(absent, v)
		}
	}
	if len(absent) == 0 {
		return
	}
	v := absent[h.r.IntN(len(absent))]
	h.randomizeVrfRTs(v)
	if err := h.addVrf(v); err != nil {
		h.rec.Inconclusive("c17: AddVrf: " + err.Error())
		return
	}
	h.note("vrf:"+v.name, "addvrf")
	h.change("addvrf")
	h.ev("addvrf", "")
	h.events["addvrf"]++
	h.logf("addvrf %s rd=%s import=%s export=%s", v.name, v.rdString(), c17RTsString(v.imp), c17RTsString(v.exp))
}

func (h *c17Hist) evDelVrf() {
	vs := h.presentVrfs(true)
	if len(vs) == 0 {
		return
	}
	v := vs[h.r.IntN(len(vs))]
	if err := h.n.s.DeleteVrf(context.Background(), &api.DeleteVrfRequest{Name: v.name}); err != nil {
		h.rec.Inconclusive("c17: DeleteVrf: " + err.Error())
		return
	}
	v.present = false
	// the VRF's locally originated routes go with it
	nLocal := 0
	for pk, rt := range h.m.routes {
		if rt.src == c17Local && rt.rd == v.rdString() {
			h.delRoute(pk, "delvrf")
			delete(h.apiVrf, pk)
			delete(h.apiUUID, pk)
			nLocal++
		}
	}
	h.note("vrf:"+v.name, "delvrf")
	h.change("delvrf")
	h.ev("delvrf", "")
	h.events["delvrf"]++
	if nLocal > 0 {
		h.events["delvrf-with-local-routes"]++
	}
	h.logf("delvrf %s (local routes withdrawn: %d)", v.name, nLocal)
}

// API-originated routes --------------------------------------------------------

func (h *c17Hist) apiAttrs(rts []c17RT, tag uint32) []bgp.PathAttributeInterface {
	nh, _ := bgp.NewPathAttributeNextHop(netip.MustParseAddr(simLocalAddr))
	attrs := []bgp.PathAttributeInterface{bgp.NewPathAttributeOrigin(0), nh, bgp.NewPathAttributeCommunities([]uint32{c17TagHi<<16 | tag})}
	if len(rts) > 0 {
		attrs = append(attrs, c17ExtComms(rts))
	}
	return attrs
}

func (h *c17Hist) evAPIAddGlobal() {
	r := h.r
	var pool []c17KeySpec
	for _, ks := range h.pePool {
		if ks.rdAdmin >= 100 { // never the RD of a local VRF: DeleteVrf removes local routes by RD
			pool = append(pool, ks)
		}
	}
	ks := pool[r.IntN(len(pool))]
	nl := ks.nlri(uint32(300))
	rts := h.randRouteRTs()
	tag := h.tag()
	res, err := h.n.s.AddPath(apiutil.AddPathRequest{Paths: []*apiutil.Path{{Family: ks.fam, Nlri: nl, Attrs: h.apiAttrs(rts, tag)}}})
	if err != nil || len(res) != 1 || res[0].Error != nil {
		h.rec.Inconclusive(fmt.Sprintf("c17: AddPath(global %s): %v", nl, err))
		return
	}
	pk := c17PathKey{ks.fam, nl.String(), c17Local, 0}
	h.apiUUID[pk] = res[0].UUID
	h.ev(h.putRoute(&c17Route{c17PathKey: pk, rts: rts, tag: tag, plain: ks.plain(), rd: ks.rdString()}), "")
	h.events["api-add-global"]++
	h.logf("api-add-global %s %s rts=%s tag=%d", ks.fam, pk.key, c17RTsString(rts), tag)
}

func (h *c17Hist) evAPIDelGlobal() {
	var pks []c17PathKey
	for pk := range h.apiUUID {
		pks = append(pks, pk)
	}
	if len(pks) == 0 {
		return
	}
	sort.Slice(pks, func(i, j int) bool { return fmt.Sprint(pks[i]) < fmt.Sprint(pks[j]) })
	pk := pks[h.r.IntN(len(pks))]
	if err := h.n.s.DeletePath(apiutil.DeletePathRequest{UUIDs: []uuid.UUID{h.apiUUID[pk]}}); err != nil {
		h.rec.Inconclusive("c17: DeletePath(uuid): " + err.Error())
		return
	}
	delete(h.apiUUID, pk)
	h.delRoute(pk, "route-withdraw")
	h.ev("route-withdraw", "")
	h.events["api-del-global"]++
	h.logf("api-del-global %s %s", pk.fam, pk.key)
}

func (h *c17Hist) evAPIAddVrf() {
	r := h.r
	vs := h.presentVrfs(false)
	if len(vs) == 0 {
		return
	}
	v := vs[r.IntN(len(vs))]
	var extra []c17RT
	if r.IntN(4) == 0 {
		extra = c17Subset(r, c17TransRTs, 1, 1)
	}
	tag := h.tag()
	var ap *apiutil.Path
	var pk c17PathKey
	var plain, rel string
	if r.IntN(4) == 0 { // an EVPN route originated in the VRF
		ks := c17KeySpec{fam: bgp.RF_EVPN, rdAdmin: v.rdAdmin, evpn: 3, etag: uint32(30 + r.IntN(2)), ip: "192.0.2.77"}
		in, _ := bgp.NewEVPNMulticastEthernetTagRoute(bgp.NewRouteDistinguisherTwoOctetAS(0, 0), ks.etag, netip.MustParseAddr(ks.ip))
		ap = &apiutil.Path{Family: bgp.RF_EVPN, Nlri: in, Attrs: h.apiAttrs(extra, tag)}
		pk = c17PathKey{bgp.RF_EVPN, ks.nlri(0).String(), c17Local, 0}
		plain = pk.key
		rel = in.String()
	} else {
		pool := h.vrfPool[v.name]
		ks := pool[r.IntN(len(pool))]
		nl, _ := bgp.NewIPAddrPrefix(netip.MustParsePrefix(ks.prefix))
		ap = &apiutil.Path{Family: bgp.RF_IPv4_UC, Nlri: nl, Attrs: h.apiAttrs(extra, tag)}
		pk = c17PathKey{bgp.RF_IPv4_VPN, ks.nlri(0).String(), c17Local, 0}
		plain = ks.prefix
		rel = ks.prefix
	}
	res, err := h.n.s.AddPath(apiutil.AddPathRequest{VRFID: v.name, Paths: []*apiutil.Path{ap}})
	if err != nil || len(res) != 1 || res[0].Error != nil {
		h.rec.Inconclusive(fmt.Sprintf("c17: AddPath(vrf %s): %v", v.name, err))
		return
	}
	rts := append(append([]c17RT{}, extra...), v.exp...)
	h.apiVrf[pk] = ap
	delete(h.apiUUID, pk)
	h.ev(h.putRoute(&c17Route{c17PathKey: pk, rts: rts, tag: tag, plain: plain, rd: v.rdString(), vrf: v.name, rel: rel}), "")
	h.events["api-add-vrf"]++
	h.events["fam-"+pk.fam.String()]++
	h.logf("api-add-vrf %s %s -> %s extra=%s export=%s tag=%d", v.name, plain, pk.key, c17RTsString(extra), c17RTsString(v.exp), tag)
}

func (h *c17Hist) evAPIDelVrf() {
	var pks []c17PathKey
	for pk := range h.apiVrf {
		pks = append(pks, pk)
	}
	if len(pks) == 0 {
		return
	}
	sort.Slice(pks, func(i, j int) bool { return fmt.Sprint(pks[i]) < fmt.Sprint(pks[j]) })
	pk := pks[h.r.IntN(len(pks))]
	rt := h.m.routes[pk]
	if rt == nil || rt.vrf == "" {
		delete(h.apiVrf, pk)
		return
	}
	ap := *h.apiVrf[pk]
	if pk.fam == bgp.RF_EVPN { // AddPath rewrote the RD inside the NLRI object it was given; hand over a fresh one
		var etag uint32
		fmt.Sscanf(pk.key[strings.Index(pk.key, "[etag:")+6:], "%d", &etag)
		ap.Nlri, _ = bgp.NewEVPNMulticastEthernetTagRoute(bgp.NewRouteDistinguisherTwoOctetAS(0, 0), etag, netip.MustParseAddr("192.0.2.77"))
	}
	if err := h.n.s.DeletePath(apiutil.DeletePathRequest{VRFID: rt.vrf, Paths: []*apiutil.Path{&ap}}); err != nil {
		h.rec.Inconclusive("c17: DeletePath(vrf): " + err.Error())
		return
	}
	delete(h.apiVrf, pk)
	h.delRoute(pk, "route-withdraw")
	h.ev("route-withdraw", "")
	h.events["api-del-vrf"]++
	h.logf("api-del-vrf %s %s", rt.vrf, pk.key)
}

// CE events ------------------------------------------------------------------

func (h *c17Hist) evCEAnnounce() {
	r := h.r
	ups := h.upPeers(c17CE)
	if len(ups) == 0 {
		return
	}
	p := ups[r.IntN(len(ups))]
	v := h.m.vrfs[p.vrf]
	pool := h.vrfPool[v.name]
	ks := pool[r.IntN(len(pool))]
	var extra []c17RT
	if r.IntN(8) == 0 {
		extra = c17Subset(r, c17TransRTs, 1, 1)
	}
	tag := h.tag()
	if p.sp.sendMsg(c17BuildPlain(p, ks.prefix, extra, tag)) != nil {
		return
	}
	pk := c17PathKey{bgp.RF_IPv4_VPN, ks.nlri(0).String(), p.addr(), 0}
	rts := append(append([]c17RT{}, extra...), v.exp...)
	h.ev(h.putRoute(&c17Route{c17PathKey: pk, rts: rts, tag: tag, plain: ks.prefix, rd: v.rdString(), vrf: v.name}), p.addr())
	h.events["ce-announce"]++
	h.logf("ce-announce %s (vrf %s) %s -> %s extra=%s export=%s tag=%d", p.addr(), v.name, ks.prefix, pk.key, c17RTsString(extra), c17RTsString(v.exp), tag)
}

func (h *c17Hist) evCEWithdraw() {
	r := h.r
	ups := h.upPeers(c17CE)
	if len(ups) == 0 {
		return
	}
	p := ups[r.IntN(len(ups))]
	pool := h.vrfPool[p.vrf]
	ks := pool[r.IntN(len(pool))]
	if p.sp.sendMsg(c17BuildPlainWithdraw(ks.prefix)) != nil {
		return
	}
	h.delRoute(c17PathKey{bgp.RF_IPv4_VPN, ks.nlri(0).String(), p.addr(), 0}, "route-withdraw")
	h.ev("route-withdraw", p.addr())
	h.events["ce-withdraw"]++
	h.logf("ce-withdraw %s %s", p.addr(), ks.prefix)
}

// sessions ---------------------------------------------------------------------

func (h *c17Hist) sessionDown(p *c17Peer) {
	p.up = false
	p.lastMsg = map[c17PathKey]*bgp.BGPMessage{}
	if p.gr > 0 {
		// graceful: gobgp retains the routes as stale (each is re-fed to the table as a stale-marked copy of itself)
		p.restarting = true
		p.staleUntil = time.Now().Add(time.Duration(p.gr) * time.Second)
		n := 0
		for pk, rt := range h.m.routes {
			if pk.src == p.addr() {
				if rt.stale {
					// RFC 4724 4.2: still stale from the previous restart (never announced again): deleted now
					h.delRoute(pk, "route-lost-second-restart")
					h.events["gr-stale-routes-dropped"]++
					continue
				}
				rt.stale = true
				n++
			}
		}
		if n > 0 {
			h.events["gr-routes-retained"] += n
		}
		return
	}
	for pk := range h.m.routes {
		if pk.src == p.addr() {
			h.delRoute(pk, "route-lost-session-down")
		}
	}
	if len(p.members) > 0 {
		h.change("membership-lost-session-down")
	}
	p.members = map[c17Member]bool{}
	p.lastMsg = map[c17PathKey]*bgp.BGPMessage{}
}

func (h *c17Hist) evFlap() {
	var ups []*c17Peer
	for _, p := range h.peers {
		if p.up {
			ups = append(ups, p)
		}
	}
	if len(ups) < 2 {
		return
	}
	p := ups[h.r.IntN(len(ups))]
	p.sp.close()
	h.sessionDown(p)
	h.ev("session-down", p.addr())
	if p.gr > 0 {
		h.ev("session-down-graceful", p.addr())
		h.events["flap-graceful"]++
	}
	h.events["flap"]++
	h.events["flap-"+p.role.String()]++
	h.logf("close %s (%s)", p.addr(), p.role)
}

func (h *c17Hist) bringUp(p *c17Peer) bool {
	p.sp.mu.Lock()
	p.rxBase = len(p.sp.rx)
	p.sp.mu.Unlock()
	h.since[p.addr()] = map[simRouteKey]c17Since{}
	h.gone[p.addr()] = map[simRouteKey]c17Gone{}
	if err := p.sp.bringUp(40); err != nil {
		h.rec.Inconclusive("c17: " + err.Error())
		return false
	}
	p.up = true
	p.upAt = time.Now()
	p.eorSent = false
	h.note("peer:"+p.addr(), "session-up")
	if p.restarting {
		// back before the restart timer fired: the stale routes stay until its End-of-RIBs; otherwise they are gone.
		// Exactly at the timer's instant the order of the two is gobgp's free choice: ask it (only then).
		inTime := p.upAt.Before(p.staleUntil)
		if p.upAt.Equal(p.staleUntil) {
			h.n.s.mgmtOperation(func() error {
				if gp, ok := h.n.s.neighborMap[netip.MustParseAddr(p.addr())]; ok {
					inTime = gp.fsm.pConf.ReadOnly().GracefulRestart.State.PeerRestarting
				}
				return nil
			}, false)
			h.events["gr-tie-resolved-by-state"]++
		}
		if inTime {
			h.events["gr-back-in-time"]++
		} else {
			h.dropStale(p, "route-lost-gr-timer")
		}
	}
	return true
}

// dropStale removes the routes of p that gobgp retained as stale and that p did not announce again.
func (h *c17Hist) dropStale(p *c17Peer, kind string) {
	p.restarting = false
	for pk, rt := range h.m.routes {
		if pk.src == p.addr() && rt.stale {
			h.delRoute(pk, kind)
			h.events["gr-stale-routes-dropped"]++
		}
	}
}

// expireGR: restart timers that have fired while their speaker was still away.
func (h *c17Hist) expireGR() {
	for _, p := range h.peers {
		if p.restarting && !p.up && !time.Now().Before(p.staleUntil) {
			h.dropStale(p, "route-lost-gr-timer")
			h.events["gr-timer-expired"]++
		}
	}
}

// evGREor: a speaker that came back sends its End-of-RIB markers: what it did not announce again goes.
func (h *c17Hist) evGREor() {
	var c []*c17Peer
	for _, p := range h.peers {
		if p.up && p.gr > 0 {
			c = append(c, p)
		}
	}
	if len(c) == 0 {
		return
	}
	p := c[h.r.IntN(len(c))]
	for _, f := range c17VPNFams {
		if p.sp.sendMsg(bgp.NewEndOfRib(f)) != nil {
			return
		}
	}
	h.ev("gr-end-of-rib", p.addr())
	if p.restarting {
		h.dropStale(p, "route-lost-gr-end-of-rib")
		h.events["gr-eor-ends-restart"]++
	}
	h.events["gr-eor"]++
	h.logf("gr-eor %s", p.addr())
}

// evSoftResetIn: the operator re-evaluates the import policy for one neighbour: every Adj-RIB-In path is fed to the
// table again (the very same path, or a fresh policy-made copy of it). Nothing changes in the model.
func (h *c17Hist) evSoftResetIn() {
	var ups []*c17Peer
	for _, p := range h.peers {
		if p.up {
			ups = append(ups, p)
		}
	}
	if len(ups) == 0 {
		return
	}
	p := ups[h.r.IntN(len(ups))]
	if err := h.n.s.ResetPeer(context.Background(), &api.ResetPeerRequest{Address: p.addr(), Soft: true, Direction: api.ResetPeerRequest_DIRECTION_IN}); err != nil {
		h.rec.Inconclusive("c17: ResetPeer(soft in): " + err.Error())
		return
	}
	if !h.medPolicy {
		for pk, rt := range h.m.routes {
			if pk.src == p.addr() && p.role != c17CE {
				rt.refed = true
			}
		}
	}
	h.ev("soft-reset-in", p.addr())
	h.events["soft-reset-in"]++
	h.events["soft-reset-in-"+p.role.String()]++
	h.logf("soft-reset-in %s (%s)", p.addr(), p.role)
}

func (h *c17Hist) evReestablish() bool {
	for _, p := range h.peers {
		if !p.up {
			if !h.bringUp(p) {
				return false
			}
			h.ev("session-up", p.addr())
			h.events["reestablish"]++
			h.logf("up %s (%s)", p.addr(), p.role)
			break
		}
	}
	return true
}

// poolSpec finds the key spec a VPN key of the PE pool was built from.
func (h *c17Hist) poolSpec(fam bgp.Family, key string) (c17KeySpec, bool) {
	for _, ks := range h.pePool {
		if ks.fam == fam && ks.nlri(0).String() == key {
			return ks, true
		}
	}
	return c17KeySpec{}, false
}

// evRace: an rtc speaker changes a membership and, at the same instant and from its own goroutine, another speaker
// withdraws / replaces / announces VPN routes carrying that route target: gobgp's two receive goroutines re-evaluate
// the same routes for the same neighbour concurrently. The model is the same relation: only the end state counts.
func (h *c17Hist) evRace() {
	r := h.r
	rtcs := h.upPeers(c17RTC)
	if len(rtcs) == 0 {
		return
	}
	b := rtcs[r.IntN(len(rtcs))]
	var srcs []*c17Peer
	for _, p := range h.upPeers(c17PE, c17RTC) {
		if p != b {
			srcs = append(srcs, p)
		}
	}
	if len(srcs) == 0 {
		return
	}
	a := srcs[r.IntN(len(srcs))]

	// ---- b's side: a membership change that changes its interest
	id := uint32(0)
	if b.apRTC {
		id = uint32(1 + r.IntN(2))
	}
	var mb c17Member
	var rt *c17RT
	withdraw := false
	var fresh []c17RT
	for _, x := range c17TransRTs {
		if !c17HasRT(b.members, x.hex()) {
			fresh = append(fresh, x)
		}
	}
	switch {
	case r.IntN(4) == 0 && len(b.members) > 0:
		var ms []c17Member
		for m := range b.members {
			ms = append(ms, m)
		}
		sort.Slice(ms, func(i, j int) bool { return fmt.Sprint(ms[i]) < fmt.Sprint(ms[j]) })
		mb, withdraw = ms[r.IntN(len(ms))], true
		for _, x := range append(append([]c17RT{}, c17TransRTs...), c17NonTransRTs...) {
			if x.hex() == mb.rt {
				x := x
				rt = &x
			}
		}
	case r.IntN(6) == 0 && !c17HasRT(b.members, c17DefaultRT):
		mb = c17Member{as: 0, rt: c17DefaultRT, id: id}
	case len(fresh) > 0:
		x := fresh[r.IntN(len(fresh))]
		rt = &x
		mb = c17Member{as: b.spec.AS, rt: x.hex(), id: id}
	default:
		return
	}
	var ec bgp.ExtendedCommunityInterface
	if rt != nil {
		ec = rt.ec()
	}
	nl := bgp.NewRouteTargetMembershipNLRI(mb.as, ec)
	var bMsg *bgp.BGPMessage
	if withdraw {
		bMsg = c17BuildMPWithdraw(bgp.RF_RTC_UC, nl, mb.id)
	} else {
		bMsg = c17BuildMP(b, bgp.RF_RTC_UC, nl, mb.id, nil, 100, 0, nil)
	}

	// ---- a's side: changes of routes that carry the target (any route for the default membership)
	carries := func(rtx *c17Route) bool {
		if rt == nil {
			return true
		}
		for _, x := range rtx.rts {
			if x.hex() == rt.hex() {
				return true
			}
		}
		return false
	}
	var mine []*c17Route
	for _, rtx := range h.m.routes {
		if rtx.src == a.addr() && carries(rtx) {
			if _, ok := h.poolSpec(rtx.fam, rtx.key); ok {
				mine = append(mine, rtx)
			}
		}
	}
	sort.Slice(mine, func(i, j int) bool { return fmt.Sprint(mine[i].c17PathKey) < fmt.Sprint(mine[j].c17PathKey) })
	r.Shuffle(len(mine), func(i, j int) { mine[i], mine[j] = mine[j], mine[i] })
	if len(mine) > 3 {
		mine = mine[:3]
	}
	var aMsgs []*bgp.BGPMessage
	var apply []func()
	desc := ""
	withRT := func(rts []c17RT) []c17RT {
		if rt != nil {
			rts = append(rts, *rt)
		}
		return rts
	}
	for _, old := range mine {
		old := old
		ks, _ := h.poolSpec(old.fam, old.key)
		nlr := ks.nlri(uint32(100 + r.IntN(3)))
		switch r.IntN(4) {
		case 0, 1:
			aMsgs = append(aMsgs, c17BuildMPWithdraw(old.fam, nlr, old.id))
			apply = append(apply, func() { h.delRoute(old.c17PathKey, "route-withdraw"); delete(a.lastMsg, old.c17PathKey) })
			desc += fmt.Sprintf(" W:%s#%d", old.key, old.id)
		default:
			rts := h.randRouteRTs()
			if r.IntN(2) == 0 {
				rts = withRT(rts)
			}
			tag := h.tag()
			msg := c17BuildMP(a, old.fam, nlr, old.id, rts, 100, tag, nil)
			aMsgs = append(aMsgs, msg)
			nr := &c17Route{c17PathKey: old.c17PathKey, rts: rts, tag: tag, plain: ks.plain(), rd: ks.rdString()}
			apply = append(apply, func() { h.putRoute(nr); a.lastMsg[nr.c17PathKey] = msg })
			desc += fmt.Sprintf(" R:%s#%d rts=%s tag=%d", old.key, old.id, c17RTsString(rts), tag)
		}
	}
	if len(mine) == 0 || r.IntN(3) == 0 { // a route that becomes due through the very membership being announced
		ks := h.pePool[r.IntN(len(h.pePool))]
		aid := uint32(0)
		if a.apVPN {
			aid = uint32(1 + r.IntN(2))
		}
		nlr := ks.nlri(uint32(100 + r.IntN(3)))
		pk := c17PathKey{ks.fam, nlr.String(), a.addr(), aid}
		dup := false
		for _, o := range mine {
			dup = dup || o.c17PathKey == pk
		}
		if !dup {
			rts := withRT(c17Subset(r, c17TransRTs, 0, 1))
			tag := h.tag()
			msg := c17BuildMP(a, ks.fam, nlr, aid, rts, 100, tag, nil)
			aMsgs = append(aMsgs, msg)
			nr := &c17Route{c17PathKey: pk, rts: rts, tag: tag, plain: ks.plain(), rd: ks.rdString()}
			apply = append(apply, func() { h.putRoute(nr); a.lastMsg[pk] = msg })
			desc += fmt.Sprintf(" A:%s#%d rts=%s tag=%d", pk.key, aid, c17RTsString(rts), tag)
		}
	}

	// ---- both at the same instant
	var wg sync.WaitGroup
	wg.Add(2)
	go func() { defer wg.Done(); b.sp.sendMsg(bMsg) }()
	go func() {
		defer wg.Done()
		for _, m := range aMsgs {
			if a.sp.sendMsg(m) != nil {
				return
			}
		}
	}()
	wg.Wait()

	// ---- the model: both changes happened
	for _, f := range apply {
		f()
	}
	before := c17HasRT(b.members, mb.rt)
	if withdraw {
		delete(b.members, mb)
	} else {
		b.members[mb] = true
	}
	after := c17HasRT(b.members, mb.rt)
	what := "membership"
	if mb.rt == c17DefaultRT {
		what = "default-membership"
	}
	kind := what + "-announce"
	switch {
	case withdraw && before && !after:
		kind = what + "-withdraw"
	case withdraw:
		kind = what + "-withdraw-nochange"
	case before:
		kind = what + "-announce-nochange"
	}
	h.note("peer:"+b.addr()+":rt:"+mb.rt, kind)
	h.change(kind)
	h.ev("race-"+kind, b.addr())
	h.events["race"]++
	h.events["race-"+kind]++
	h.events["race-route-changes"] += len(aMsgs)
	h.logf("race %s %s %s#%d (%s) || %s:%s", b.addr(), map[bool]string{false: "rtm-announce", true: "rtm-withdraw"}[withdraw], nl, mb.id, kind, a.addr(), desc)
}

func (h *c17Hist) step() bool {
	h.ev("noop", "")
	k := h.r.IntN(120)
	switch {
	case k >= 108:
		h.evRace()
	case k >= 104:
		h.evGREor()
	case k >= 100:
		h.evSoftResetIn()
	case k < 22:
		h.evVPNAnnounce()
	case k < 30:
		h.evVPNWithdraw()
	case k < 44:
		h.evRTMAnnounce()
	case k < 53:
		h.evRTMWithdraw()
	case k < 55:
		h.evRTCEor()
	case k < 59:
		h.evAddVrf()
	case k < 63:
		h.evDelVrf()
	case k < 67:
		h.evAPIAddGlobal()
	case k < 69:
		h.evAPIDelGlobal()
	case k < 74:
		h.evAPIAddVrf()
	case k < 76:
		h.evAPIDelVrf()
	case k < 82:
		h.evCEAnnounce()
	case k < 85:
		h.evCEWithdraw()
	case k < 89:
		h.evFlap()
	case k < 95:
		return h.evReestablish()
	default:
		d := time.Duration(1+h.r.IntN(3)) * time.Second
		time.Sleep(d)
		h.ev("tick", "")
		h.events["tick"]++
		h.logf("tick %v", d)
	}
	return true
}
