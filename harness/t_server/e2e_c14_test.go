package server

// C14, unit "e2e" — the 2-octet/4-octet AS transition on real sessions.
//
// One scenario = one real BgpServer (virtual time; AS 65000 or the 4-octet 70000; optionally member of a
// confederation) with a NEW speaker N (4-octet-AS capability; eBGP or non-client iBGP) and an OLD speaker O
// (no 4-octet-AS capability: simSpeakerConf.NoAS4; eBGP, RR client or confederation member). Both directions:
//   N -> O: N announces routes whose AS_PATH mixes 2- and 4-octet ASNs, SEQUENCE / SET segments, a leading
//           confederation run, 255-member segments, AGGREGATOR with a 4-octet AS. On O's RAW octets: AS_PATH is a
//           well-formed 2-octet path holding AS_TRANS exactly where a 4-octet ASN stood, AS4_PATH /
//           AS4_AGGREGATOR are well-formed (no confederation segments), and the harness' own RFC 6793 4.2.3
//           reconstruction gives back the path a NEW peer of O's kind must get.
//   O -> N: O sends hand-built octets (2-octet AS_PATH + AS4_PATH / AS4_AGGREGATOR as a chain of OLD speakers
//           delivers them, including AS4_PATH longer than AS_PATH and AS_TRANS without AS4_PATH); ListPath(GLOBAL)
//           and N's raw octets must show the reconstructed 4-octet path.

import (
	"encoding/binary"
	"fmt"
	"math/rand/v2"
	"net/netip"
	"sort"
	"strings"
	"testing"
	"testing/synctest"

	"github.com/osrg/gobgp/v4/api"
	"github.com/osrg/gobgp/v4/internal/verif/refmodel"
	"github.com/osrg/gobgp/v4/internal/verif/vlib"
	"github.com/osrg/gobgp/v4/pkg/packet/bgp"
)

const (
	e2eSEQ   = bgp.BGP_ASPATH_ATTR_TYPE_SEQ
	e2eSET   = bgp.BGP_ASPATH_ATTR_TYPE_SET
	e2eCSEQ  = bgp.BGP_ASPATH_ATTR_TYPE_CONFED_SEQ
	e2eCSET  = bgp.BGP_ASPATH_ATTR_TYPE_CONFED_SET
	e2eTRANS = 23456
)

type e2eSeg = refmodel.C09Seg

func e2eIsConfed(t uint8) bool { return t == e2eCSEQ || t == e2eCSET }

// e2eC14Canon: adjacent AS_SEQUENCE (and adjacent AS_CONFED_SEQUENCE) segments denote one sequence.
func e2eC14Canon(p []e2eSeg) []e2eSeg {
	var out []e2eSeg
	for _, s := range p {
		if len(s.AS) == 0 {
			continue
		}
		if n := len(out); n > 0 && out[n-1].Type == s.Type && (s.Type == e2eSEQ || s.Type == e2eCSEQ) {
			out[n-1].AS = append(out[n-1].AS, s.AS...)
			continue
		}
		out = append(out, e2eSeg{Type: s.Type, AS: append([]uint32{}, s.AS...)})
	}
	return out
}

func e2eC14Equal(a, b []e2eSeg) bool {
	a, b = e2eC14Canon(a), e2eC14Canon(b)
	if len(a) != len(b) {
		return false
	}
	for i := range a {
		if a[i].Type != b[i].Type || len(a[i].AS) != len(b[i].AS) {
			return false
		}
		for j := range a[i].AS {
			if a[i].AS[j] != b[i].AS[j] {
				return false
			}
		}
	}
	return true
}

// RFC 4271 9.1.2.2 + RFC 5065 5.3: a sequence counts its members, a set counts 1, confederation segments 0.
func e2eC14Count(p []e2eSeg) int {
	n := 0
	for _, s := range p {
		switch s.Type {
		case e2eSEQ:
			n += len(s.AS)
		case e2eSET:
			n++
		}
	}
	return n
}

// e2eC14Reconstruct is RFC 6793 4.2.3 as the harness reads it: if AS_PATH is shorter than AS4_PATH the AS4_PATH
// is ignored; otherwise the result is the leading (count(AS_PATH) - count(AS4_PATH)) AS numbers of AS_PATH
// (confederation segments, which count 0, are kept) followed by AS4_PATH.
func e2eC14Reconstruct(as2, as4 []e2eSeg, hasAS4 bool) []e2eSeg {
	widen := func(p []e2eSeg) []e2eSeg {
		var o []e2eSeg
		for _, s := range p {
			o = append(o, e2eSeg{Type: s.Type, AS: append([]uint32{}, s.AS...)})
		}
		return o
	}
	if !hasAS4 {
		return widen(as2)
	}
	n2, n4 := e2eC14Count(as2), e2eC14Count(as4)
	if n2 < n4 {
		return widen(as2)
	}
	keep := n2 - n4
	var out []e2eSeg
	for _, s := range as2 {
		switch {
		case e2eIsConfed(s.Type):
			if keep > 0 || len(out) == 0 || e2eIsConfed(out[len(out)-1].Type) {
				out = append(out, e2eSeg{Type: s.Type, AS: append([]uint32{}, s.AS...)})
			}
		case keep == 0:
		case s.Type == e2eSEQ:
			k := len(s.AS)
			if k > keep {
				k = keep
			}
			out = append(out, e2eSeg{Type: e2eSEQ, AS: append([]uint32{}, s.AS[:k]...)})
			keep -= k
		case s.Type == e2eSET:
			out = append(out, e2eSeg{Type: e2eSET, AS: append([]uint32{}, s.AS...)})
			keep--
		}
	}
	return append(out, widen(as4)...)
}

func e2eC14Down(a uint32) uint32 {
	if a > 65535 {
		return e2eTRANS
	}
	return a
}

func e2eC14DropConfed(p []e2eSeg) []e2eSeg {
	var o []e2eSeg
	for _, s := range p {
		if !e2eIsConfed(s.Type) {
			o = append(o, s)
		}
	}
	return o
}

// what a peer of the given kind gets for the stored path x (L: the AS the router presents outside, member: its member AS)
func e2eC14Export(kind string, x []e2eSeg, L, member uint32) []e2eSeg {
	switch kind {
	case "ebgp":
		return append([]e2eSeg{{Type: e2eSEQ, AS: []uint32{L}}}, e2eC14DropConfed(x)...)
	case "confed":
		return append([]e2eSeg{{Type: e2eCSEQ, AS: []uint32{member}}}, x...)
	}
	return x
}

type e2eC14Sc struct {
	r       *rand.Rand
	gAS     uint32
	confed  bool
	confID  uint32
	nKind   string // ebgp | ibgp
	oKind   string // ebgp | rrclient | confed
	nAS     uint32
	oAS     uint32
	p4      int // percentage of 4-octet ASNs
	forbid  map[uint32]bool
}

func (sc *e2eC14Sc) L() uint32 {
	if sc.confed {
		return sc.confID
	}
	return sc.gAS
}

func (sc *e2eC14Sc) asn(two bool) uint32 {
	r := sc.r
	for {
		var a uint32
		if !two && r.IntN(100) < sc.p4 {
			a = []uint32{70001, 70002, 131072, 4200000001, 4294967295, 65536, 196618, 70003}[r.IntN(8)]
		} else {
			a = []uint32{100, 200, 3356, 64496, 1, 65535, 64512, 2914, 174}[r.IntN(9)]
		}
		if !sc.forbid[a] {
			return a
		}
	}
}

func (sc *e2eC14Sc) seg(t uint8, n int, two bool) e2eSeg {
	s := e2eSeg{Type: t}
	for i := 0; i < n; i++ {
		s.AS = append(s.AS, sc.asn(two))
	}
	return s
}

// genPath draws a 4-octet path: optional leading confederation run, then SEQUENCE / SET segments.
func (sc *e2eC14Sc) genPath(first uint32, firstType uint8, allowConfed bool, two bool) ([]e2eSeg, string) {
	r := sc.r
	var p []e2eSeg
	var sh []string
	if firstType == e2eCSEQ {
		s := sc.confedSeg(two)
		s.AS = append([]uint32{first}, s.AS...)
		p = append(p, s)
		sh = append(sh, "CSEQ")
		if r.IntN(4) == 0 {
			p = append(p, e2eSeg{Type: e2eCSET, AS: sc.confedSeg(two).AS})
			sh = append(sh, "CSET")
		}
	} else if allowConfed && r.IntN(2) == 0 {
		p = append(p, sc.confedSeg(two))
		sh = append(sh, "CSEQ")
		if r.IntN(4) == 0 {
			p = append(p, e2eSeg{Type: e2eCSET, AS: sc.confedSeg(two).AS})
			sh = append(sh, "CSET")
		}
	}
	n := 1 + r.IntN(4)
	if len(p) > 0 && r.IntN(4) == 0 {
		n = 0
	}
	for i := 0; i < n; i++ {
		big := r.IntN(25) == 0
		switch {
		case i == 0 && firstType == e2eSEQ:
			k := 1 + r.IntN(5)
			if big {
				k = 254 + r.IntN(2)
				sh = append(sh, "SEQ25x")
			} else {
				sh = append(sh, "SEQ")
			}
			s := sc.seg(e2eSEQ, k, two)
			s.AS[0] = first
			p = append(p, s)
		case r.IntN(4) == 0:
			k := 1 + r.IntN(5)
			if big {
				k = 255
				sh = append(sh, "SET255")
			} else {
				sh = append(sh, "SET")
			}
			p = append(p, sc.seg(e2eSET, k, two))
		default:
			k := 1 + r.IntN(6)
			if big {
				k = 254 + r.IntN(2)
				sh = append(sh, "SEQ25x")
			} else {
				sh = append(sh, "SEQ")
			}
			p = append(p, sc.seg(e2eSEQ, k, two))
		}
	}
	if firstType == e2eSEQ && n == 0 {
		p = append(p, e2eSeg{Type: e2eSEQ, AS: []uint32{first}})
		sh = append(sh, "SEQ")
	}
	return p, strings.Join(sh, "+")
}

func (sc *e2eC14Sc) confedSeg(two bool) e2eSeg {
	r := sc.r
	s := e2eSeg{Type: e2eCSEQ}
	for i := 1 + r.IntN(3); i > 0; i-- {
		a := []uint32{65102, 65103, 65104}[r.IntN(3)]
		if !two && r.IntN(100) < sc.p4/2 {
			a = []uint32{4200000102, 4200000103}[r.IntN(2)]
		}
		s.AS = append(s.AS, a)
	}
	return s
}

func e2eC14Has4(p []e2eSeg, confedToo bool) bool {
	for _, s := range p {
		if e2eIsConfed(s.Type) && !confedToo {
			continue
		}
		for _, a := range s.AS {
			if a > 65535 {
				return true
			}
		}
	}
	return false
}

func e2eC14Params(p []e2eSeg) []bgp.AsPathParamInterface {
	var out []bgp.AsPathParamInterface
	for _, s := range p {
		out = append(out, bgp.NewAs4PathParam(s.Type, append([]uint32{}, s.AS...)))
	}
	return out
}

type e2eC14Agg struct {
	AS   uint32
	Addr netip.Addr
}

type e2eC14Route struct {
	pfx    string
	x      []e2eSeg // dir 1: what N announced; dir 2: the reconstruction the harness expects
	as2    []e2eSeg // dir 2: octets sent
	as4    []e2eSeg
	hasAS4 bool
	agg    *e2eC14Agg
	shape  string
	class  string
}

func TestVerifE2E_C14(t *testing.T) {
	rec := vlib.Open("C14")
	defer rec.Close()
	total := vlib.Scale(480, 9600)
	// then: several sessions of one neighbour whose 4-octet-AS capability changes (e2e_c14_resession_test.go)
	multi := vlib.Scale(96, 1920)
	vlib.Cases(total+multi, func(idx int) {
		if idx >= total {
			rec.Mark(fmt.Sprintf("e2e c14 re-session scenario %d", idx), true)
			synctest.Test(t, func(t *testing.T) { e2eC14Resession(t, rec, idx, idx-total) })
			return
		}
		rec.Mark(fmt.Sprintf("e2e c14 scenario %d", idx), true)
		synctest.Test(t, func(t *testing.T) { e2eC14Scenario(t, rec, idx) })
	})
}

func e2eC14Scenario(t *testing.T, rec *vlib.Rec, idx int) {
	r := vlib.CaseRand("e2e-c14", idx)
	sc := &e2eC14Sc{r: r, gAS: 65000, confID: 300, forbid: map[uint32]bool{}}
	switch idx % 3 {
	case 1:
		sc.gAS = 70000
	case 2:
		sc.confed = true
	}
	sc.nKind = []string{"ebgp", "ibgp"}[r.IntN(2)]
	ok := []string{"ebgp", "ebgp"}
	if sc.gAS <= 65535 {
		ok = append(ok, "rrclient", "rrclient")
	}
	if sc.confed {
		ok = append(ok, "confed", "confed")
	}
	sc.oKind = ok[r.IntN(len(ok))]
	sc.nAS = []uint32{70001, 65001}[r.IntN(2)]
	if sc.nKind == "ibgp" {
		sc.nAS = sc.gAS
	}
	switch sc.oKind {
	case "ebgp":
		sc.oAS = 65002
	case "rrclient":
		sc.oAS = sc.gAS
	case "confed":
		sc.oAS = 65101
	}
	sc.p4 = []int{0, 30, 70, 100}[r.IntN(4)]
	for _, a := range []uint32{sc.gAS, sc.confID, 65101, 65002, 70001, 65001, 70000, 65000} {
		sc.forbid[a] = true
	}
	g := &api.Global{Asn: sc.gAS, RouterId: "1.1.1.1"}
	if sc.confed {
		g.Confederation = &api.Confederation{Enabled: true, Identifier: sc.confID, MemberAsList: []uint32{65101, 65102}}
	}
	n := simStart(t, g)
	defer func() {
		n.stop()
		synctest.Wait()
	}()
	nSpec := simPeerSpec{Kind: simEBGP, Addr: "10.0.0.2", AS: sc.nAS, ID: "2.2.2.2"}
	if sc.nKind == "ibgp" {
		nSpec.Kind = simIBGP
	}
	oSpec := simPeerSpec{Kind: simEBGP, Addr: "10.0.0.3", AS: sc.oAS, ID: "3.3.3.3", SpeakerMod: func(c *simSpeakerConf) { c.NoAS4 = true }}
	if sc.oKind == "rrclient" {
		oSpec.Kind = simRRClient
	}
	N, err := n.addPeer(nSpec)
	if err != nil {
		rec.Inconclusive("e2e c14: AddPeer N: " + err.Error())
		return
	}
	O, err := n.addPeer(oSpec)
	if err != nil {
		rec.Inconclusive("e2e c14: AddPeer O: " + err.Error())
		return
	}
	synctest.Wait()
	if err := N.bringUp(40); err != nil {
		rec.Inconclusive("e2e c14: " + err.Error())
		return
	}
	if err := e2eBringUpRaw(O, 40); err != nil { // raw recorder: the simnet reader cannot parse 2-octet AS_PATHs
		rec.Inconclusive("e2e c14: " + err.Error())
		return
	}
	rec.Eval()
	rec.Count("e2e:c14:scenarios", 1)
	topo := fmt.Sprintf("g=%d,confed=%v,n=%s/%d,o=%s", sc.gAS, sc.confed, sc.nKind, sc.nAS, sc.oKind)
	rec.Count("e2e:c14:topology:n="+sc.nKind+",o="+sc.oKind, 1)
	if sc.gAS > 65535 {
		rec.Count("e2e:c14:local-as-4-octet", 1)
	}
	if sc.confed {
		rec.Count("e2e:c14:confederation", 1)
	}

	// ---------------- direction 1: N announces, O (2-octet) receives
	var d1 []*e2eC14Route
	for i := 0; i < 4+r.IntN(5); i++ {
		var x []e2eSeg
		var sh string
		if sc.nKind == "ebgp" {
			x, sh = sc.genPath(sc.nAS, e2eSEQ, false, false)
		} else {
			x, sh = sc.genPath(0, 0, sc.confed, false)
		}
		rt := &e2eC14Route{pfx: fmt.Sprintf("10.1.%d.0/24", i), x: x, shape: sh}
		if r.IntN(3) == 0 {
			rt.agg = &e2eC14Agg{AS: []uint32{64496, 70009, 4200000001, 65535}[r.IntN(4)], Addr: netip.MustParseAddr("192.0.2.200")}
		}
		attrs := []bgp.PathAttributeInterface{bgp.NewPathAttributeOrigin(0), bgp.NewPathAttributeAsPath(e2eC14Params(x))}
		nh, _ := bgp.NewPathAttributeNextHop(netip.MustParseAddr("10.0.0.2"))
		attrs = append(attrs, nh)
		if sc.nKind == "ibgp" {
			attrs = append(attrs, bgp.NewPathAttributeLocalPref(100))
		}
		if rt.agg != nil {
			a, _ := bgp.NewPathAttributeAggregator(rt.agg.AS, rt.agg.Addr)
			attrs = append(attrs, a)
		}
		nl, _ := bgp.NewIPAddrPrefix(netip.MustParsePrefix(rt.pfx))
		if err := N.sendMsg(bgp.NewBGPUpdateMessage(nil, attrs, []bgp.PathNLRI{{NLRI: nl}})); err != nil {
			rec.Inconclusive("e2e c14: N cannot send: " + err.Error())
			return
		}
		d1 = append(d1, rt)
	}
	// ---------------- direction 2: O announces hand-built 2-octet UPDATEs
	var d2 []*e2eC14Route
	for i := 0; i < 4+r.IntN(5); i++ {
		rt := sc.genOldRoute(i)
		var attrs []byte
		attrs = append(attrs, e2eTLV(0x40, 1, []byte{0})...)
		attrs = append(attrs, e2eTLV(0x40, 2, e2eASPathValue(rt.as2, 2))...)
		attrs = append(attrs, e2eTLV(0x40, 3, []byte{10, 0, 0, 3})...)
		if sc.oKind == "rrclient" {
			attrs = append(attrs, e2eTLV(0x40, 5, e2eU32(100))...)
		}
		if rt.agg != nil {
			attrs = append(attrs, e2eTLV(0xc0, 7, append(e2eU16(uint16(e2eC14Down(rt.agg.AS))), rt.agg.Addr.AsSlice()...))...)
		}
		if rt.hasAS4 {
			attrs = append(attrs, e2eTLV(0xc0, 17, e2eASPathValue(rt.as4, 4))...)
		}
		if rt.agg != nil && rt.agg.AS > 65535 {
			attrs = append(attrs, e2eTLV(0xc0, 18, append(e2eU32(rt.agg.AS), rt.agg.Addr.AsSlice()...))...)
		}
		msg := e2eUpdateBytes(nil, attrs, e2ePrefixBytes(netip.MustParsePrefix(rt.pfx), nil))
		if len(msg) > 4096 {
			continue
		}
		if err := O.sendRaw(msg); err != nil {
			rec.Inconclusive("e2e c14: O cannot send: " + err.Error())
			return
		}
		d2 = append(d2, rt)
	}
	synctest.Wait()

	wit := func(rt *e2eC14Route, extra map[string]any) map[string]any {
		w := map[string]any{"case": idx, "topology": topo}
		if rt != nil {
			w["prefix"], w["shape"] = rt.pfx, rt.shape
			if rt.as2 != nil {
				w["sent_as_path_2octet"], w["sent_as4_path"], w["as4_path_present"] = refmodel.C09PathText(rt.as2), refmodel.C09PathText(rt.as4), rt.hasAS4
				w["expected_reconstruction"] = refmodel.C09PathText(rt.x)
			} else {
				w["announced_as_path"] = refmodel.C09PathText(rt.x)
			}
			if rt.agg != nil {
				w["aggregator"] = fmt.Sprintf("%d %s", rt.agg.AS, rt.agg.Addr)
			}
		}
		for k, v := range extra {
			w[k] = v
		}
		return w
	}
	for name, sp := range map[string]*simSpeaker{"N": N, "O": O} {
		if !e2eEstablished(n, sp.conf.Addr) {
			sp.mu.Lock()
			nf := sp.notif
			sp.mu.Unlock()
			rec.Violation("e2e:c14:session-lost:"+name+":"+map[string]string{"N": sc.nKind, "O": sc.oKind}[name], fmt.Sprintf("the session to %s was lost (notification %v) although it sent RFC-valid paths", name, nf), wit(nil, map[string]any{"d2_routes": e2eC14Describe(d2), "d1_routes": e2eC14Describe(d1)}))
			return
		}
	}
	viewOf := func(sp *simSpeaker, who string) map[simRouteKey]*e2eRoute {
		ups, problems := e2eDecodeRx(sp)
		for _, pr := range problems {
			rec.Violation("e2e:c14:wire:malformed-message:"+who, "a message sent to "+who+" is malformed: "+pr, wit(nil, map[string]any{"rx": e2eRxLog(sp, 4)}))
		}
		v, _ := e2eApply(ups)
		return v
	}
	oView, nView := viewOf(O, "O"), viewOf(N, "N")
	global, err := e2eListPath(n, api.TableType_TABLE_TYPE_GLOBAL, "", bgp.RF_IPv4_UC, false)
	if err != nil {
		rec.Inconclusive("e2e c14: ListPath: " + err.Error())
		return
	}
	reached := 0
	shapes := map[string]bool{}

	// ---- judge direction 1 on O's raw octets
	for _, rt := range d1 {
		rec.Count("e2e:c14:to-old:routes", 1)
		want := e2eC14Export(sc.oKind, rt.x, sc.L(), sc.gAS)
		suffix := sc.oKind
		if len(rt.x) > 0 && e2eIsConfed(rt.x[0].Type) {
			suffix += ":confed-run"
			rec.Count("e2e:c14:to-old:leading-confed-run", 1)
		}
		if ps := global[rt.pfx]; len(ps) != 1 {
			rec.Violation("e2e:c14:from-new:route-missing:rib", fmt.Sprintf("a route announced by the 4-octet speaker is listed %d times in the Loc-RIB", len(ps)), wit(rt, nil))
			continue
		} else if got, _, err := ps[0].Route.asPath(4); err != nil || !e2eC14Equal(got, rt.x) {
			rec.Violation("e2e:c14:from-new:rib-path-differs", fmt.Sprintf("Loc-RIB AS_PATH '%s' (err %v)", refmodel.C09PathText(got), err), wit(rt, nil))
		}
		got, held := oView[simRouteKey{bgp.RF_IPv4_UC, rt.pfx, 0}]
		if !held && e2eC14OldSize(want) > 4096-96 {
			// AS_PATH + AS4_PATH together (nearly) exceed the 4096-octet limit of the session: the route cannot be
			// sent to an OLD speaker at all (skipping it is what C11 asks for)
			rec.Count("e2e:c14:to-old:too-large-for-the-session", 1)
			continue
		}
		if !held {
			rec.Violation("e2e:c14:to-old:route-missing:"+suffix, "the 2-octet speaker never received the route", wit(rt, map[string]any{"rx": e2eRxLog(O, 4)}))
			continue
		}
		reached++
		shapes["d1:"+sc.oKind+":"+rt.shape+fmt.Sprint(e2eC14Has4(rt.x, false), e2eC14Has4(rt.x, true), rt.agg != nil)] = true
		w := func(extra map[string]any) map[string]any {
			m := wit(rt, map[string]any{"expected_4octet_path_at_peer": refmodel.C09PathText(want), "raw_message": e2eRxLog(O, 2)})
			for _, t := range []uint8{2, 7, 17, 18} {
				if a := got.attr(t); a != nil {
					m[fmt.Sprintf("attr%d", t)] = fmt.Sprintf("flags=%#x %x", a.Flags, a.Value)
				}
			}
			for k, v := range extra {
				m[k] = v
			}
			return m
		}
		// (a) well-formedness of the 2-octet AS_PATH
		as2, has, err := got.asPath(2)
		if !has || err != nil {
			rec.Violation("e2e:c14:to-old:malformed:as-path", fmt.Sprintf("AS_PATH sent to a 2-octet peer is not a well-formed 2-octet path: present=%v %v", has, err), w(nil))
			continue
		}
		if a := got.attr(2); a.Flags&^(0x10) != 0x40 {
			rec.Violation("e2e:c14:to-old:malformed:as-path-flags", fmt.Sprintf("AS_PATH flags %#x", a.Flags), w(nil))
		}
		// (b) AS4_PATH
		var as4 []e2eSeg
		a17 := got.attr(17)
		if a17 != nil {
			rec.Count("e2e:c14:to-old:as4-path-sent", 1)
			if a17.Flags&0xc0 != 0xc0 {
				rec.Violation("e2e:c14:to-old:malformed:as4-path-flags", fmt.Sprintf("AS4_PATH flags %#x are not optional transitive", a17.Flags), w(nil))
			}
			if as4, err = e2eParseASPath(a17.Value, 4); err != nil {
				rec.Violation("e2e:c14:to-old:malformed:as4-path", "AS4_PATH is not well-formed: "+err.Error(), w(nil))
				continue
			}
			if len(as4) == 0 {
				rec.Count("e2e:c14:to-old:as4-path-empty", 1)
			}
			for _, s := range as4 {
				if e2eIsConfed(s.Type) {
					rec.Violation("e2e:c14:to-old:confed-segment-in-as4-path", "AS4_PATH carries a confederation segment (RFC 6793 4.2.2 / 3)", w(nil))
				}
			}
		}
		// (c) AS_TRANS substitution: member by member against the path a NEW peer of this kind must get
		wantC, gotC := e2eC14Canon(want), e2eC14Canon(as2)
		okMap := len(wantC) == len(gotC)
		for i := 0; okMap && i < len(wantC); i++ {
			okMap = wantC[i].Type == gotC[i].Type && len(wantC[i].AS) == len(gotC[i].AS)
			for j := 0; okMap && j < len(wantC[i].AS); j++ {
				okMap = gotC[i].AS[j] == e2eC14Down(wantC[i].AS[j])
			}
		}
		if !okMap {
			rec.Violation("e2e:c14:to-old:as-path-not-the-as-trans-image:"+suffix, fmt.Sprintf("2-octet AS_PATH '%s' is not the path '%s' with AS_TRANS in place of 4-octet ASNs", refmodel.C09PathText(as2), refmodel.C09PathText(want)), w(nil))
		}
		// (d) the harness' reconstruction gives the original back (4-octet members of confederation segments excepted)
		rec4 := e2eC14Reconstruct(as2, as4, a17 != nil)
		wantX := e2eC14Canon(want)
		for i := range wantX {
			if e2eIsConfed(wantX[i].Type) {
				for j := range wantX[i].AS {
					wantX[i].AS[j] = e2eC14Down(wantX[i].AS[j])
				}
			}
		}
		if !e2eC14Equal(rec4, wantX) {
			rec.Violation("e2e:c14:to-old:reconstruction-differs:"+suffix, fmt.Sprintf("reconstructing (RFC 6793 4.2.3) from AS_PATH '%s' + AS4_PATH '%s' gives '%s', the original is '%s'",
				refmodel.C09PathText(as2), refmodel.C09PathText(as4), refmodel.C09PathText(rec4), refmodel.C09PathText(want)), w(nil))
		} else {
			rec.Count("e2e:c14:to-old:reconstructed-equal", 1)
		}
		if e2eC14Has4(want, false) {
			rec.Count("e2e:c14:to-old:with-4-octet-asn", 1)
		}
		for _, s := range as2 {
			if len(s.AS) == 255 {
				rec.Count("e2e:c14:to-old:255-member-segment", 1)
			}
			if s.Type == e2eSET {
				rec.Count("e2e:c14:to-old:set-segment", 1)
			}
		}
		// (e) AGGREGATOR
		a7, a18 := got.attr(7), got.attr(18)
		if rt.agg == nil {
			if a7 != nil || a18 != nil {
				rec.Violation("e2e:c14:to-old:aggregator-appeared", "AGGREGATOR / AS4_AGGREGATOR appeared on a route that had none", w(nil))
			}
			continue
		}
		rec.Count("e2e:c14:to-old:aggregator", 1)
		if a7 == nil || len(a7.Value) != 6 {
			rec.Violation("e2e:c14:to-old:malformed:aggregator", "AGGREGATOR towards a 2-octet peer must be 6 octets (2-octet AS + address)", w(nil))
			continue
		}
		gas, gaddr := uint32(binary.BigEndian.Uint16(a7.Value)), e2eAddr(a7.Value[2:])
		if a18 != nil {
			rec.Count("e2e:c14:to-old:as4-aggregator-sent", 1)
			if len(a18.Value) != 8 || a18.Flags&0xc0 != 0xc0 {
				rec.Violation("e2e:c14:to-old:malformed:as4-aggregator", fmt.Sprintf("AS4_AGGREGATOR of %d octets, flags %#x", len(a18.Value), a18.Flags), w(nil))
				continue
			}
			if gas == e2eTRANS { // RFC 6793 4.2.3: AS4_AGGREGATOR is taken only when AGGREGATOR holds AS_TRANS
				gas, gaddr = binary.BigEndian.Uint32(a18.Value), e2eAddr(a18.Value[4:])
			}
		}
		if gas != rt.agg.AS || gaddr != rt.agg.Addr {
			rec.Violation("e2e:c14:to-old:aggregator-differs", fmt.Sprintf("reconstructed AGGREGATOR %d %v, original %d %v", gas, gaddr, rt.agg.AS, rt.agg.Addr), w(nil))
		}
	}

	// ---- judge direction 2: ListPath and N's raw octets
	for _, rt := range d2 {
		rec.Count("e2e:c14:from-old:routes", 1)
		rec.Count("e2e:c14:from-old:class:"+rt.class, 1)
		w := func(extra map[string]any) map[string]any { return wit(rt, extra) }
		ps := global[rt.pfx]
		if len(ps) != 1 {
			rec.Violation("e2e:c14:from-old:route-missing:rib:"+rt.class, fmt.Sprintf("a route announced by the 2-octet speaker is listed %d times in the Loc-RIB", len(ps)), w(nil))
			continue
		}
		got, _, err := ps[0].Route.asPath(4)
		if err != nil {
			rec.Violation("e2e:c14:from-old:malformed:rib-path", err.Error(), w(nil))
			continue
		}
		for _, s := range got {
			if len(s.AS) == 0 || len(s.AS) > 255 {
				rec.Violation("e2e:c14:from-old:segment-size", fmt.Sprintf("reconstructed path has a segment of %d members", len(s.AS)), w(nil))
			}
		}
		if !e2eC14Equal(got, rt.x) {
			rec.Violation("e2e:c14:from-old:rib-path-differs:"+rt.class, fmt.Sprintf("Loc-RIB AS_PATH '%s', RFC 6793 reconstruction '%s'", refmodel.C09PathText(got), refmodel.C09PathText(rt.x)), w(nil))
		} else {
			rec.Count("e2e:c14:from-old:rib-path-equal", 1)
		}
		if ps[0].Route.attr(17) != nil || ps[0].Route.attr(18) != nil {
			rec.Violation("e2e:c14:from-old:as4-attributes-kept-in-rib", "AS4_PATH / AS4_AGGREGATOR still attached to the stored route", w(nil))
		}
		if rt.agg != nil {
			rec.Count("e2e:c14:from-old:aggregator", 1)
			a := ps[0].Route.attr(7)
			if a == nil || len(a.Value) != 8 || binary.BigEndian.Uint32(a.Value) != rt.agg.AS || e2eAddr(a.Value[4:]) != rt.agg.Addr {
				rec.Violation("e2e:c14:from-old:aggregator-differs", fmt.Sprintf("Loc-RIB AGGREGATOR %v, expected %d %v", a, rt.agg.AS, rt.agg.Addr), w(nil))
			}
		}
		// at the 4-octet speaker
		wantN := e2eC14Export(sc.nKind, rt.x, sc.L(), sc.gAS)
		gn, held := nView[simRouteKey{bgp.RF_IPv4_UC, rt.pfx, 0}]
		if sz := 4 * e2eC14Members(wantN); !held && sz > 4096-160 {
			rec.Count("e2e:c14:from-old:too-large-for-the-session", 1)
			continue
		}
		if !held {
			rec.Violation("e2e:c14:from-old:route-missing:new-speaker:"+rt.class, "the 4-octet speaker never received the route learned from the 2-octet speaker", w(map[string]any{"rx": e2eRxLog(N, 4)}))
			continue
		}
		reached++
		shapes["d2:"+sc.nKind+":"+rt.shape+":"+rt.class] = true
		if gn.attr(17) != nil || gn.attr(18) != nil {
			rec.Violation("e2e:c14:as4-attributes-sent-to-new-speaker", "AS4_PATH / AS4_AGGREGATOR sent on a session with 4-octet AS numbers (RFC 6793 3)", w(nil))
		}
		pn, has, err := gn.asPath(4)
		if !has || err != nil {
			rec.Violation("e2e:c14:from-old:malformed:new-speaker-path", fmt.Sprintf("present=%v %v", has, err), w(nil))
			continue
		}
		if !e2eC14Equal(pn, wantN) {
			rec.Violation("e2e:c14:from-old:new-speaker-path-differs:"+rt.class, fmt.Sprintf("the 4-octet speaker got AS_PATH '%s', expected '%s'", refmodel.C09PathText(pn), refmodel.C09PathText(wantN)), w(nil))
		} else {
			rec.Count("e2e:c14:from-old:new-speaker-path-equal", 1)
		}
		if rt.agg != nil {
			a := gn.attr(7)
			if a == nil || len(a.Value) != 8 || binary.BigEndian.Uint32(a.Value) != rt.agg.AS || e2eAddr(a.Value[4:]) != rt.agg.Addr {
				rec.Violation("e2e:c14:from-old:aggregator-differs", fmt.Sprintf("the 4-octet speaker got AGGREGATOR %v, expected %d %v", a, rt.agg.AS, rt.agg.Addr), w(nil))
			}
		}
	}
	if reached > 0 {
		var ks []string
		for k := range shapes {
			ks = append(ks, k)
		}
		sort.Strings(ks)
		rec.Count("e2e:c14:nontrivial_scenarios", 1)
		rec.Nontrivial("e2e-c14|" + vlib.Hash(topo+"|"+strings.Join(ks, "|")))
	}
	if idx%103 == 0 {
		rec.Sample(wit(nil, map[string]any{"unit": "e2e", "to_old": e2eC14Describe(d1), "from_old": e2eC14Describe(d2)}))
	}
}

func e2eC14Describe(rs []*e2eC14Route) []string {
	var out []string
	for _, r := range rs {
		if r.as2 != nil {
			out = append(out, fmt.Sprintf("%s AS_PATH(2) '%s' AS4_PATH(%v) '%s' -> '%s' [%s]", r.pfx, refmodel.C09PathText(r.as2), r.hasAS4, refmodel.C09PathText(r.as4), refmodel.C09PathText(r.x), r.class))
		} else {
			out = append(out, fmt.Sprintf("%s '%s'", r.pfx, refmodel.C09PathText(r.x)))
		}
	}
	return out
}

// genOldRoute: what a chain of OLD speakers ending in O delivers.
//   class "chain":         a NEW speaker sent Y to an OLD one (AS_PATH = AS_TRANS image of Y, AS4_PATH = Y without
//                          confederation segments), then 0-3 OLD hops prepended their 2-octet AS to AS_PATH only
//   class "no-as4":        all ASNs fit 2 octets (or AS_TRANS was left without AS4_PATH)
//   class "as4-longer":    AS4_PATH counts more AS numbers than AS_PATH: it must be ignored
//   class "as4-shorter-set": the AS4_PATH covers only a tail; the cut falls next to / inside SET and SEQUENCE segments
func (sc *e2eC14Sc) genOldRoute(i int) *e2eC14Route {
	r := sc.r
	rt := &e2eC14Route{pfx: fmt.Sprintf("10.2.%d.0/24", i)}
	// the part O and the OLD hops behind it put in front (2-octet ASNs only)
	var front []e2eSeg
	switch sc.oKind {
	case "ebgp":
		s := e2eSeg{Type: e2eSEQ, AS: []uint32{sc.oAS}}
		for k := r.IntN(4); k > 0; k-- {
			s.AS = append(s.AS, sc.asn(true))
		}
		front = []e2eSeg{s}
	case "confed":
		s := sc.confedSeg(true)
		s.AS = append([]uint32{sc.oAS}, s.AS...)
		front = []e2eSeg{s}
		if r.IntN(2) == 0 {
			front = append(front, sc.seg(e2eSEQ, 1+r.IntN(3), true))
		}
	case "rrclient":
		if sc.confed && r.IntN(2) == 0 {
			front = append(front, sc.confedSeg(true))
		}
		if r.IntN(3) != 0 {
			t := uint8(e2eSEQ)
			if r.IntN(5) == 0 {
				t = e2eSET // a leading AS_SET
			}
			front = append(front, sc.seg(t, 1+r.IntN(3), true))
		}
	}
	y, ysh := sc.genPath(0, 0, false, false)
	down := func(p []e2eSeg) []e2eSeg {
		var o []e2eSeg
		for _, s := range p {
			n := e2eSeg{Type: s.Type}
			for _, a := range s.AS {
				n.AS = append(n.AS, e2eC14Down(a))
			}
			o = append(o, n)
		}
		return o
	}
	rt.as2 = append(append([]e2eSeg{}, front...), down(y)...)
	rt.shape = ysh
	switch k := r.IntN(10); {
	case k < 5:
		rt.class = "chain"
		if e2eC14Has4(y, false) || r.IntN(3) == 0 {
			rt.as4, rt.hasAS4 = y, true
		} else {
			rt.class = "no-as4"
		}
	case k < 6:
		rt.class = "no-as4" // AS_TRANS (if any) stays: nothing to reconstruct from
	case k < 8:
		rt.class = "as4-longer"
		extra, _ := sc.genPath(0, 0, false, false)
		rt.as4, rt.hasAS4 = append(append([]e2eSeg{}, extra...), y...), true
		if e2eC14Count(rt.as4) <= e2eC14Count(rt.as2) {
			rt.as4 = append([]e2eSeg{sc.seg(e2eSEQ, 1+e2eC14Count(rt.as2)-e2eC14Count(rt.as4), false)}, rt.as4...)
		}
	default:
		rt.class = "as4-tail"
		// AS4_PATH = a proper tail of Y (an OLD speaker in the middle aggregated / a NEW one started AS4_PATH late)
		flatCut := 0
		if c := e2eC14Count(y); c > 1 {
			flatCut = 1 + r.IntN(c-1)
		}
		var tail []e2eSeg
		skip := flatCut
		for _, s := range y {
			switch {
			case skip == 0:
				tail = append(tail, s)
			case s.Type == e2eSET:
				skip--
			case len(s.AS) <= skip:
				skip -= len(s.AS)
			default:
				tail = append(tail, e2eSeg{Type: e2eSEQ, AS: s.AS[skip:]})
				skip = 0
			}
		}
		rt.as4, rt.hasAS4 = tail, len(tail) > 0
		if !rt.hasAS4 {
			rt.class = "no-as4"
		}
	}
	if len(front) > 0 && e2eIsConfed(front[0].Type) {
		rt.class += ":confed-run"
	} else if len(rt.as2) > 0 && rt.as2[0].Type == e2eSET {
		rt.class += ":leading-set"
	}
	rt.x = e2eC14Reconstruct(rt.as2, rt.as4, rt.hasAS4)
	// AGGREGATOR: AS_TRANS + AS4_AGGREGATOR, or a 2-octet aggregator on a route without AS4_PATH (RFC 6793 4.2.3:
	// an AGGREGATOR that is not AS_TRANS makes a NEW speaker ignore AS4_PATH too - not generated)
	switch {
	case r.IntN(4) == 0 && rt.hasAS4:
		rt.agg = &e2eC14Agg{AS: []uint32{70009, 4200000001}[r.IntN(2)], Addr: netip.MustParseAddr("192.0.2.201")}
	case r.IntN(4) == 0 && !rt.hasAS4:
		rt.agg = &e2eC14Agg{AS: []uint32{64496, 65535, 70009}[r.IntN(3)], Addr: netip.MustParseAddr("192.0.2.202")}
	}
	return rt
}

// e2eC14OldSize: octets of AS_PATH (2-octet form) + AS4_PATH the path needs towards an OLD speaker.
func e2eC14OldSize(p []e2eSeg) int {
	n := 4
	n4 := 0
	for _, s := range p {
		n += 2 + 2*len(s.AS)
		if !e2eIsConfed(s.Type) {
			n4 += 2 + 4*len(s.AS)
		}
	}
	if e2eC14Has4(p, true) {
		n += 4 + n4
	}
	return n
}

func e2eC14Members(p []e2eSeg) int {
	n := 0
	for _, s := range p {
		n += 1 + len(s.AS)
	}
	return n
}
