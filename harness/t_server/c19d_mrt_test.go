package server

// C19 daemon level, MRT part: a real BgpServer in a synctest bubble, 2-4 scripted speakers, one
// MRT writer for UPDATE dumping and one for table dumps, both writing under $VERIF_TMP. The files
// are split with mrt.SplitMrt and parsed with mrt.ParseHeader/ParseBody; the oracles compare
//   - every BGP4MP record with the bytes the speakers really wrote (per peer, in order) and with
//     the session parameters (peer/local AS and address, AS4 / ADD-PATH subtype);
//   - every table dump (PEER_INDEX_TABLE + RIB_* records) with ListPeer and ListPath(GLOBAL) taken
//     in the same quiet window of virtual time.

import (
	"bufio"
	"bytes"
	"context"
	"encoding/binary"
	"encoding/hex"
	"fmt"
	"math/rand/v2"
	"net/netip"
	"os"
	"sort"
	"strings"
	"testing"
	"testing/synctest"
	"time"

	"github.com/osrg/gobgp/v4/api"
	"github.com/osrg/gobgp/v4/internal/verif/vlib"
	"github.com/osrg/gobgp/v4/pkg/config/oc"
	"github.com/osrg/gobgp/v4/pkg/packet/bgp"
	"github.com/osrg/gobgp/v4/pkg/packet/mrt"
)

// c19dFileName builds a file name without any character sequence time.Format would rewrite
// (the MRT writer passes the configured name through time.Now().Format when a rotation interval
// is set): lower-case letters a..k only, no digits.
func c19dFileName(idx int, tag string) string {
	const digits = "abcdefghik"
	s := ""
	for _, ch := range fmt.Sprint(idx) {
		s += string(digits[ch-'0'])
	}
	return "c" + s + tag + ".dat"
}

type c19dMRTRec struct {
	Type, Sub uint16
	Body      []byte
	Msg       *mrt.MRTMessage
	Err       error
}

var c19dTD2Names = map[uint16]string{
	uint16(mrt.PEER_INDEX_TABLE): "PEER_INDEX_TABLE", uint16(mrt.RIB_IPV4_UNICAST): "RIB_IPV4_UNICAST", uint16(mrt.RIB_IPV4_MULTICAST): "RIB_IPV4_MULTICAST",
	uint16(mrt.RIB_IPV6_UNICAST): "RIB_IPV6_UNICAST", uint16(mrt.RIB_IPV6_MULTICAST): "RIB_IPV6_MULTICAST", uint16(mrt.RIB_GENERIC): "RIB_GENERIC",
	uint16(mrt.RIB_IPV4_UNICAST_ADDPATH): "RIB_IPV4_UNICAST_ADDPATH", uint16(mrt.RIB_IPV6_UNICAST_ADDPATH): "RIB_IPV6_UNICAST_ADDPATH",
}

var c19dB4Names = map[uint16]string{
	uint16(mrt.MESSAGE): "MESSAGE", uint16(mrt.MESSAGE_AS4): "MESSAGE_AS4", uint16(mrt.MESSAGE_ADDPATH): "MESSAGE_ADDPATH", uint16(mrt.MESSAGE_AS4_ADDPATH): "MESSAGE_AS4_ADDPATH",
	uint16(mrt.MESSAGE_LOCAL): "MESSAGE_LOCAL", uint16(mrt.MESSAGE_AS4_LOCAL): "MESSAGE_AS4_LOCAL",
}

func c19dRecName(typ, sub uint16) string {
	switch mrt.MRTType(typ) {
	case mrt.TABLE_DUMPv2:
		if n, ok := c19dTD2Names[sub]; ok {
			return "TABLE_DUMPv2/" + n
		}
	case mrt.BGP4MP:
		if n, ok := c19dB4Names[sub]; ok {
			return "BGP4MP/" + n
		}
	}
	return fmt.Sprintf("type%d/sub%d", typ, sub)
}

// c19dReadMRT splits a file image with the package's SplitMrt on a real bufio.Scanner and parses
// every record. leftover is the number of bytes the scanner did not hand out as tokens.
func c19dReadMRT(data []byte) (recs []c19dMRTRec, leftover int, scanErr error) {
	sc := bufio.NewScanner(bytes.NewReader(data))
	sc.Buffer(make([]byte, 0, 1<<16), 1<<26)
	sc.Split(mrt.SplitMrt)
	used := 0
	for sc.Scan() {
		tok := append([]byte{}, sc.Bytes()...)
		used += len(tok)
		if len(tok) < mrt.MRT_COMMON_HEADER_LEN {
			recs = append(recs, c19dMRTRec{Err: fmt.Errorf("token of %d bytes", len(tok))})
			continue
		}
		h, err := mrt.ParseHeader(tok[:mrt.MRT_COMMON_HEADER_LEN])
		if err != nil {
			recs = append(recs, c19dMRTRec{Err: fmt.Errorf("ParseHeader: %w", err)})
			continue
		}
		rc := c19dMRTRec{Type: uint16(h.Type), Sub: h.SubType, Body: tok[mrt.MRT_COMMON_HEADER_LEN:]}
		rc.Msg, rc.Err = mrt.ParseBody(rc.Body, h)
		recs = append(recs, rc)
	}
	return recs, len(data) - used, sc.Err()
}

// c19dB4 is the harness's own decoding of a BGP4MP MESSAGE* record body (RFC 6396 4.4.2/4.4.3,
// RFC 8050): the reference the package's ParseBody result is compared with.
type c19dB4 struct {
	AS4, AddPath    bool
	PeerAS, LocalAS uint32
	IfIndex, AFI    uint16
	PeerIP, LocalIP netip.Addr
	Msg             []byte
}

func c19dDecodeB4(sub uint16, b []byte) (c19dB4, error) {
	var o c19dB4
	switch mrt.MRTSubTypeBGP4MP(sub) {
	case mrt.MESSAGE:
	case mrt.MESSAGE_AS4:
		o.AS4 = true
	case mrt.MESSAGE_ADDPATH:
		o.AddPath = true
	case mrt.MESSAGE_AS4_ADDPATH:
		o.AS4, o.AddPath = true, true
	default:
		return o, fmt.Errorf("unexpected BGP4MP subtype %d", sub)
	}
	need := 4
	if o.AS4 {
		need = 8
	}
	if len(b) < need+4 {
		return o, fmt.Errorf("short BGP4MP header")
	}
	if o.AS4 {
		o.PeerAS, o.LocalAS = binary.BigEndian.Uint32(b), binary.BigEndian.Uint32(b[4:])
	} else {
		o.PeerAS, o.LocalAS = uint32(binary.BigEndian.Uint16(b)), uint32(binary.BigEndian.Uint16(b[2:]))
	}
	b = b[need:]
	o.IfIndex, o.AFI = binary.BigEndian.Uint16(b), binary.BigEndian.Uint16(b[2:])
	b = b[4:]
	al := 4
	if o.AFI == bgp.AFI_IP6 {
		al = 16
	} else if o.AFI != bgp.AFI_IP {
		return o, fmt.Errorf("address family %d", o.AFI)
	}
	if len(b) < 2*al {
		return o, fmt.Errorf("short BGP4MP addresses")
	}
	o.PeerIP, _ = netip.AddrFromSlice(b[:al])
	o.LocalIP, _ = netip.AddrFromSlice(b[al : 2*al])
	o.Msg = b[2*al:]
	return o, nil
}

// c19dRoutesOf renders what an UPDATE announces / withdraws: "+fam/prefix#id canon" and "-fam/prefix#id".
func c19dRoutesOf(m *bgp.BGPMessage) []string {
	u, ok := m.Body.(*bgp.BGPUpdate)
	if !ok {
		return []string{fmt.Sprintf("type %d", m.Header.Type)}
	}
	var out []string
	canon := c19dCanon(u.PathAttributes)
	for _, w := range u.WithdrawnRoutes {
		out = append(out, fmt.Sprintf("-ipv4/%s#%d", w.NLRI, w.ID))
	}
	for _, n := range u.NLRI {
		out = append(out, fmt.Sprintf("+ipv4/%s#%d %s", n.NLRI, n.ID, canon))
	}
	for _, a := range u.PathAttributes {
		switch v := a.(type) {
		case *bgp.PathAttributeMpReachNLRI:
			for _, n := range v.Value {
				out = append(out, fmt.Sprintf("+%d.%d/%s#%d %s", v.AFI, v.SAFI, n.NLRI, n.ID, canon))
			}
		case *bgp.PathAttributeMpUnreachNLRI:
			for _, n := range v.Value {
				out = append(out, fmt.Sprintf("-%d.%d/%s#%d", v.AFI, v.SAFI, n.NLRI, n.ID))
			}
		}
	}
	sort.Strings(out)
	return out
}

type c19dMRT struct {
	c19dCase
	t        *testing.T
	r        *rand.Rand
	n        *simNet
	gen      *c19dGen
	globalAS uint32
	peers    []*c19dPeer
	local    bool // API-injected routes present
	fileU    string
	fileT    string
	recsSeen int
	routeRec int
	// updates sent while the UPDATE writer is active, per peer address, in order
	expect map[string][]c19dSent
	active bool
	asSeen map[string][]uint32 // earlier AS numbers of a neighbour address (re-configured during the history)
}

func (h *c19dMRT) viol(key, what string, extra map[string]any) {
	h.rec.Violation(key, what, h.witness(extra))
}

func (h *c19dMRT) traffic(count int) {
	for i := 0; i < count; i++ {
		var ups []*c19dPeer
		for _, p := range h.peers {
			if p.up {
				ups = append(ups, p)
			}
		}
		if len(ups) == 0 {
			return
		}
		p := ups[h.r.IntN(len(ups))]
		s := h.gen.sendNext(p)
		if s == nil {
			h.logf("send to %s failed", p.conf.Addr)
			continue
		}
		h.logf("send #%d %s %s %s", s.Seq, p.conf.Addr, s.Class, hex.EncodeToString(s.Raw))
		h.rec.Count("mrt_updates_sent_"+s.Class, 1)
		if h.active {
			h.expect[p.conf.Addr] = append(h.expect[p.conf.Addr], *s)
		}
		if h.r.IntN(3) == 0 {
			synctest.Wait()
		}
	}
	synctest.Wait()
}

// identityEvent changes who is behind a neighbour address (or removes the neighbour) between two
// dumps of the same table dump writer. It returns false if the scenario cannot go on.
func (h *c19dMRT) identityEvent() bool {
	r, n := h.r, h.n
	var ups []int
	for i, p := range h.peers {
		if p.up {
			ups = append(ups, i)
		}
	}
	if len(ups) < 2 {
		return true
	}
	i := ups[r.IntN(len(ups))]
	p := h.peers[i]
	kind := []string{"new-router-id", "new-as", "withdraw-all", "delete-peer", "new-router-id", "new-as"}[r.IntN(6)]
	if kind == "new-as" && p.conf.Kind == simIBGP {
		kind = "new-router-id"
	}
	h.rec.Count("mrt_identity_event_"+kind, 1)
	h.shape = append(h.shape, "ev:"+kind)
	h.logf("identity event %s on %s", kind, p.conf.Addr)
	synctest.Wait()
	switch kind {
	case "new-router-id":
		p.sp.close()
		p.up = false
		p.held = map[bgp.Family]map[c19dNLRI]bool{}
		synctest.Wait()
		p.conf.ID = fmt.Sprintf("9.%d.%d.%d", 1+r.IntN(200), 1+i, 1+r.IntN(200))
		p.sp.conf.ID = p.conf.ID
		if err := p.bringUp(n, true); err != nil {
			h.rec.Inconclusive(err.Error())
			return false
		}
		h.trafficFrom(p, 2+r.IntN(4))
	case "new-as":
		// the neighbour is re-configured with another AS: a new session, a new identity behind the address
		if err := n.s.DeletePeer(context.Background(), &api.DeletePeerRequest{Address: p.conf.Addr}); err != nil {
			h.t.Fatalf("DeletePeer: %v", err)
		}
		p.up = false
		synctest.Wait()
		p.sp.close()
		synctest.Wait()
		c := p.conf
		if c.NoAS4 || r.IntN(2) == 0 {
			c.AS = uint32(65200 + i + 10*r.IntN(5))
		} else {
			c.AS = uint32(4200000300 + i + 10*r.IntN(5))
		}
		if c.AS == p.conf.AS {
			c.AS++
		}
		c.ID = fmt.Sprintf("8.%d.%d.%d", 1+r.IntN(200), 1+i, 1+r.IntN(200))
		np, err := c19dAddPeer(n, c)
		if err != nil {
			h.t.Fatalf("AddPeer %v: %v", c, err)
		}
		h.asSeen[c.Addr] = append(h.asSeen[c.Addr], p.conf.AS)
		h.peers[i] = np
		if err := np.bringUp(n, true); err != nil {
			h.rec.Inconclusive(err.Error())
			return false
		}
		h.trafficFrom(np, 2+r.IntN(4))
	case "withdraw-all":
		for _, f := range p.conf.families() {
			var wd []c19dNLRI
			for k := range p.held[f] {
				wd = append(wd, k)
			}
			sort.Slice(wd, func(a, b int) bool {
				if wd[a].Pfx != wd[b].Pfx {
					return wd[a].Pfx.String() < wd[b].Pfx.String()
				}
				return wd[a].ID < wd[b].ID
			})
			if len(wd) == 0 {
				continue
			}
			var m *bgp.BGPMessage
			if f == bgp.RF_IPv4_UC {
				m = bgp.NewBGPUpdateMessage(c19dPathNLRIs(wd), nil, nil)
			} else {
				mu, _ := bgp.NewPathAttributeMpUnreachNLRI(f, c19dPathNLRIs(wd))
				m = bgp.NewBGPUpdateMessage(nil, []bgp.PathAttributeInterface{mu}, nil)
			}
			raw, err := m.Serialize(p.marshalOpt())
			if err != nil {
				h.t.Fatalf("serialize withdraw-all: %v", err)
			}
			if p.sp.sendRaw(raw) != nil {
				p.up = false
				break
			}
			h.gen.seq++
			s := c19dSent{Raw: raw, Class: "withdraw", Seq: h.gen.seq}
			p.sent = append(p.sent, s)
			if h.active {
				h.expect[p.conf.Addr] = append(h.expect[p.conf.Addr], s)
			}
			h.logf("send #%d %s withdraw-all %s", s.Seq, p.conf.Addr, hex.EncodeToString(raw))
			p.held[f] = map[c19dNLRI]bool{}
		}
	case "delete-peer":
		if err := n.s.DeletePeer(context.Background(), &api.DeletePeerRequest{Address: p.conf.Addr}); err != nil {
			h.t.Fatalf("DeletePeer: %v", err)
		}
		p.up = false
		synctest.Wait()
		p.sp.close()
	}
	synctest.Wait()
	return true
}

// trafficFrom sends count UPDATEs from one peer (announcements mostly: the peer has routes afterwards).
func (h *c19dMRT) trafficFrom(p *c19dPeer, count int) {
	for i := 0; i < count && p.up; i++ {
		s := h.gen.sendNext(p)
		if s == nil {
			continue
		}
		h.logf("send #%d %s %s %s", s.Seq, p.conf.Addr, s.Class, hex.EncodeToString(s.Raw))
		h.rec.Count("mrt_updates_sent_"+s.Class, 1)
		if h.active {
			h.expect[p.conf.Addr] = append(h.expect[p.conf.Addr], *s)
		}
	}
	synctest.Wait()
}

func (h *c19dMRT) fileSize(name string) int {
	st, err := os.Stat(name)
	if err != nil {
		return 0
	}
	return int(st.Size())
}

// checkDumps compares every complete table dump found in data with the API views taken in the
// same quiet window.
func (h *c19dMRT) checkDumps(data []byte, phase string) {
	recs, left, serr := c19dReadMRT(data)
	if serr != nil || left != 0 {
		h.viol("c19d:mrt:table-file:split", fmt.Sprintf("SplitMrt over the table dump file: scanner error %v, %d bytes not handed out", serr, left), map[string]any{"phase": phase})
		return
	}
	h.recsSeen += len(recs)
	var dumps [][]c19dMRTRec
	for _, rc := range recs {
		if rc.Err == nil || rc.Body != nil {
			h.rec.Count("mrt_rec_"+c19dRecName(rc.Type, rc.Sub), 1)
		}
		if mrt.MRTType(rc.Type) == mrt.TABLE_DUMPv2 && mrt.MRTSubTypeTableDumpv2(rc.Sub) == mrt.PEER_INDEX_TABLE {
			dumps = append(dumps, nil)
		}
		if len(dumps) == 0 {
			h.viol("c19d:mrt:table-dump:record-before-peer-index-table", "a table dump record precedes the first PEER_INDEX_TABLE of the window", map[string]any{"phase": phase, "record": c19dRecName(rc.Type, rc.Sub)})
			continue
		}
		dumps[len(dumps)-1] = append(dumps[len(dumps)-1], rc)
	}
	if len(dumps) == 0 {
		h.viol("c19d:mrt:table-dump:none-in-interval", "no table dump was written during more than one dump interval of virtual time", map[string]any{"phase": phase, "bytes": len(data)})
		return
	}
	apiPeers, err := c19dListPeer(h.n)
	if err != nil {
		h.t.Fatalf("ListPeer: %v", err)
	}
	apiPaths, err := c19dListPath(h.n, api.TableType_TABLE_TYPE_GLOBAL, "", []bgp.Family{bgp.RF_IPv4_UC, bgp.RF_IPv6_UC}, false)
	if err != nil {
		h.t.Fatalf("ListPath: %v", err)
	}
	for _, d := range dumps {
		h.checkDump(d, apiPeers, apiPaths, phase)
	}
}

func (h *c19dMRT) localTag() string {
	if h.local {
		return "with-local-routes"
	}
	return "peer-routes-only"
}

func (h *c19dMRT) checkDump(d []c19dMRTRec, apiPeers map[string]c19dAPIPeer, apiPaths []c19dAPIPath, phase string) {
	h.rec.Count("mrt_table_dumps_checked", 1)
	pitRec := d[0]
	if pitRec.Err != nil {
		h.viol("c19d:mrt:peer-index-table:parse-error:"+h.localTag(), "the PEER_INDEX_TABLE record gobgp wrote does not parse: "+pitRec.Err.Error(),
			map[string]any{"phase": phase, "body": hex.EncodeToString(pitRec.Body), "api_peers": fmt.Sprint(apiPeers)})
		h.rec.Count("mrt_table_dumps_skipped_after_peer_index_error", 1)
		// the RIB records must still parse
		for _, rc := range d[1:] {
			if rc.Err != nil {
				h.viol("c19d:mrt:rib:parse-error:"+c19dRecName(rc.Type, rc.Sub), "a RIB record gobgp wrote does not parse: "+rc.Err.Error(), map[string]any{"phase": phase, "body": hex.EncodeToString(rc.Body)})
			} else {
				h.routeRec++
			}
		}
		return
	}
	pit := pitRec.Msg.Body.(*mrt.PeerIndexTable)
	if pit.CollectorBgpId.String() != c19dRouterID {
		h.viol("c19d:mrt:peer-index-table:collector-bgp-id", fmt.Sprintf("collector BGP id %s, router id is %s", pit.CollectorBgpId, c19dRouterID), map[string]any{"phase": phase})
	}
	// peers: every entry is a neighbour ListPeer reports (address, BGP id, AS) or the documented
	// dummy entry for locally generated routes (0.0.0.0 / 0.0.0.0 / AS 0); no entry twice
	idxPeer := map[int]string{}
	seen := map[string]bool{}
	pitOK := true
	for i, pe := range pit.Peers {
		h.rec.Count("mrt_peer_entries_compared", 1)
		addr := pe.IpAddress.String()
		if pe.IpAddress == netip.IPv4Unspecified() && pe.AS == 0 && pe.BgpId == netip.IPv4Unspecified() {
			idxPeer[i] = "local"
			h.rec.Count("mrt_peer_entries_local_dummy", 1)
			if seen["local"] {
				h.viol("c19d:mrt:peer-index-table:duplicate-entry", "two entries for locally generated routes", map[string]any{"phase": phase, "table": pit.String()})
			}
			seen["local"] = true
			continue
		}
		ap, ok := apiPeers[addr]
		if !ok {
			pitOK = false
			h.viol("c19d:mrt:peer-index-table:entry-not-a-neighbour:"+h.localTag(), fmt.Sprintf("entry %d (%s) is neither a neighbour ListPeer reports nor the 0.0.0.0 entry documented for local routes", i, pe),
				map[string]any{"phase": phase, "table": pit.String(), "body": hex.EncodeToString(pitRec.Body), "api_peers": fmt.Sprint(apiPeers)})
			continue
		}
		if seen[addr] {
			h.viol("c19d:mrt:peer-index-table:duplicate-entry", "neighbour "+addr+" is listed twice", map[string]any{"phase": phase, "table": pit.String()})
		}
		seen[addr] = true
		idxPeer[i] = addr
		if pe.AS != ap.AS {
			h.viol("c19d:mrt:peer-index-table:peer-as", fmt.Sprintf("entry for %s carries AS %d, ListPeer reports AS %d", addr, pe.AS, ap.AS), map[string]any{"phase": phase, "table": pit.String()})
		}
		if pe.BgpId.String() != ap.ID {
			h.viol("c19d:mrt:peer-index-table:peer-bgp-id", fmt.Sprintf("entry for %s carries BGP id %s, ListPeer reports %s", addr, pe.BgpId, ap.ID), map[string]any{"phase": phase, "table": pit.String()})
		}
	}
	if !pitOK {
		h.rec.Count("mrt_table_dumps_skipped_after_peer_index_error", 1)
		for _, rc := range d[1:] {
			if rc.Err == nil {
				h.routeRec++
			}
		}
		return
	}

	// the identity the table holds for the source of every route (what the session that delivered it announced)
	srcIdent := map[string]string{}
	for _, p := range apiPaths {
		if !p.IsLocal {
			srcIdent[p.Peer] = fmt.Sprintf("AS %d BGP id %s", p.PeerAS, p.PeerID)
		}
	}
	for i, pe := range pit.Peers {
		addr := idxPeer[i]
		if want, ok := srcIdent[addr]; ok {
			h.rec.Count("mrt_peer_entries_compared_with_route_source", 1)
			if got := fmt.Sprintf("AS %d BGP id %s", pe.AS, pe.BgpId); got != want {
				h.viol("c19d:mrt:peer-index-table:stale-identity", fmt.Sprintf("entry for %s says %s, the routes dumped for it come from %s", addr, got, want), map[string]any{"phase": phase, "table": pit.String()})
			}
		}
	}
	// an entry that is the source of no dumped route is admissible only when the table is the complete
	// neighbour list (RFC 6396 does not say which); a partial list with left-over entries describes neither
	hasLocal := false
	for _, p := range apiPaths {
		if p.IsLocal {
			hasLocal = true
		}
	}
	var idle []string
	for i := range pit.Peers {
		a := idxPeer[i]
		if _, ok := srcIdent[a]; !ok && !(a == "local" && hasLocal) {
			idle = append(idle, a)
		}
	}
	if len(idle) > 0 {
		complete := true
		for a := range apiPeers {
			if !seen[a] {
				complete = false
			}
		}
		if !complete {
			h.viol("c19d:mrt:peer-index-table:entry-without-routes", fmt.Sprintf("entries %v are the source of no route of this dump, while other neighbours without routes are not listed", idle),
				map[string]any{"phase": phase, "table": pit.String(), "api_peers": fmt.Sprint(apiPeers)})
		}
	}

	// routes: per (family, prefix) the multiset of (source, path id, attributes, originated time)
	want := map[string][]string{}
	for _, p := range apiPaths {
		id := uint32(0)
		if p.IsLocal || h.peerAddPath(p.Peer) {
			id = p.Remote
		}
		k := fmt.Sprintf("%s/%s", p.Family, p.Prefix)
		want[k] = append(want[k], fmt.Sprintf("src=%s id=%d t=%d %s", p.Peer, id, uint32(p.Age), p.Canon))
		if !seen[p.Peer] {
			h.viol("c19d:mrt:peer-index-table:route-source-missing", "a source of a route in ListPath(GLOBAL) has no PEER_INDEX_TABLE entry: "+p.Peer, map[string]any{"phase": phase, "table": pit.String()})
		}
	}
	got := map[string][]string{}
	seqWant := uint32(0)
	for _, rc := range d[1:] {
		name := c19dRecName(rc.Type, rc.Sub)
		if rc.Err != nil {
			h.viol("c19d:mrt:rib:parse-error:"+name, "a RIB record gobgp wrote does not parse: "+rc.Err.Error(), map[string]any{"phase": phase, "body": hex.EncodeToString(rc.Body)})
			continue
		}
		rib, ok := rc.Msg.Body.(*mrt.Rib)
		if !ok {
			h.viol("c19d:mrt:table-dump:unexpected-record:"+name, "unexpected record inside a table dump", map[string]any{"phase": phase})
			continue
		}
		h.routeRec++
		if rib.SequenceNumber != seqWant {
			h.viol("c19d:mrt:rib:sequence-number", fmt.Sprintf("RIB record sequence number %d, expected %d (RFC 6396 4.3.2: starts at 0, increments per record)", rib.SequenceNumber, seqWant), map[string]any{"phase": phase})
		}
		seqWant = rib.SequenceNumber + 1
		addPathRec := strings.HasSuffix(name, "_ADDPATH")
		k := fmt.Sprintf("%s/%s", rib.Family, rib.Prefix)
		for _, e := range rib.Entries {
			h.rec.Count("mrt_rib_entries_compared", 1)
			src, ok := idxPeer[int(e.PeerIndex)]
			if !ok {
				src = fmt.Sprintf("?index%d", e.PeerIndex)
				h.viol("c19d:mrt:rib:peer-index-out-of-table", fmt.Sprintf("RIB entry refers to peer index %d, the table has %d entries", e.PeerIndex, len(pit.Peers)), map[string]any{"phase": phase, "record": rib.String()})
			}
			id := uint32(0)
			if addPathRec {
				id = e.PathIdentifier
			}
			got[k] = append(got[k], fmt.Sprintf("src=%s id=%d t=%d %s", src, id, e.OriginatedTime, c19dCanon(e.PathAttributes)))
		}
	}
	keys := map[string]bool{}
	for k := range want {
		keys[k] = true
	}
	for k := range got {
		keys[k] = true
	}
	for k := range keys {
		w, g := append([]string{}, want[k]...), append([]string{}, got[k]...)
		sort.Strings(w)
		sort.Strings(g)
		h.rec.Count("mrt_prefixes_compared", 1)
		if strings.Join(w, "\n") == strings.Join(g, "\n") {
			continue
		}
		class := "entries-differ"
		// project one field away at a time: the field whose removal makes the multisets equal is the one that differs
		proj := func(l []string, drop int) string {
			o := make([]string, len(l))
			for i, e := range l {
				f := strings.SplitN(e, " ", 4)
				f[drop] = "_"
				o[i] = strings.Join(f, " ")
			}
			sort.Strings(o)
			return strings.Join(o, "\n")
		}
		switch {
		case len(g) == 0:
			class = "prefix-missing"
		case len(w) == 0:
			class = "prefix-not-in-table"
		case len(g) != len(w):
			class = "entry-count"
		case proj(w, 0) == proj(g, 0):
			class = "entry-source"
		case proj(w, 1) == proj(g, 1):
			class = "entry-path-id"
		case proj(w, 2) == proj(g, 2):
			class = "entry-originated-time"
		case proj(w, 3) == proj(g, 3):
			class = "entry-attributes"
			if len(w) == 1 {
				class += ":" + c19dDiffClass(strings.SplitN(w[0], " ", 4)[3], strings.SplitN(g[0], " ", 4)[3])
			}
		}
		h.viol("c19d:mrt:rib:"+class, fmt.Sprintf("table dump and ListPath(GLOBAL) differ for %s", k), map[string]any{"phase": phase, "dump": g, "listpath": w})
	}
}

func (h *c19dMRT) peerAddPath(addr string) bool {
	for _, p := range h.peers {
		if p.conf.Addr == addr {
			return p.conf.APRecv
		}
	}
	return false
}

// checkUpdates compares the UPDATE dump file with what the speakers sent.
func (h *c19dMRT) checkUpdates(data []byte) {
	recs, left, serr := c19dReadMRT(data)
	if serr != nil || left != 0 {
		h.viol("c19d:mrt:update-file:split", fmt.Sprintf("SplitMrt over the update dump file: scanner error %v, %d bytes not handed out", serr, left), nil)
		return
	}
	h.recsSeen += len(recs)
	byPeer := map[string][]c19dB4{}
	confOf := map[string]*c19dPeer{}
	for _, p := range h.peers {
		confOf[p.conf.Addr] = p
	}
	for i, rc := range recs {
		name := c19dRecName(rc.Type, rc.Sub)
		h.rec.Count("mrt_rec_"+name, 1)
		if mrt.MRTType(rc.Type) != mrt.BGP4MP {
			h.viol("c19d:mrt:update-file:unexpected-record:"+name, "unexpected record type in an update dump", map[string]any{"record": i})
			continue
		}
		ref, err := c19dDecodeB4(rc.Sub, rc.Body)
		if err != nil {
			h.viol("c19d:mrt:bgp4mp:malformed:"+name, "BGP4MP record is not decodable by the RFC layout: "+err.Error(), map[string]any{"record": i, "body": hex.EncodeToString(rc.Body)})
			continue
		}
		h.routeRec++
		peer := ref.PeerIP.String()
		byPeer[peer] = append(byPeer[peer], ref)
		p := confOf[peer]
		if p == nil {
			h.viol("c19d:mrt:bgp4mp:peer-address", "BGP4MP record names a peer address that is no neighbour: "+peer, map[string]any{"record": i})
			continue
		}
		h.rec.Count("mrt_bgp4mp_headers_compared", 1)
		wit := map[string]any{"record": i, "subtype": name, "peer": p.conf.shape(), "body": hex.EncodeToString(rc.Body)}
		asOK := ref.PeerAS == p.conf.AS
		for _, a := range h.asSeen[peer] {
			if ref.PeerAS == a {
				asOK = true // a record of the neighbour's earlier configuration
			}
		}
		if !asOK {
			h.viol("c19d:mrt:bgp4mp:peer-as", fmt.Sprintf("record carries peer AS %d, the peer is AS %d", ref.PeerAS, p.conf.AS), wit)
		}
		// a 2-octet field cannot hold a 4-octet AS number: AS_TRANS (what the OPEN of that session carried) is admissible there
		if ref.LocalAS != h.globalAS && !(!ref.AS4 && h.globalAS > 65535 && ref.LocalAS == bgp.AS_TRANS) {
			cls := "as4-record"
			if !ref.AS4 {
				cls = "2-octet-record"
				if h.globalAS > 65535 {
					cls = "2-octet-record:4-octet-local-as"
				}
			}
			h.viol("c19d:mrt:bgp4mp:local-as:"+cls, fmt.Sprintf("record carries local AS %d, gobgp is AS %d", ref.LocalAS, h.globalAS), wit)
		}
		if ref.LocalIP.String() != p.conf.Local {
			h.viol("c19d:mrt:bgp4mp:local-address", fmt.Sprintf("record carries local address %s, the session's local address is %s", ref.LocalIP, p.conf.Local), wit)
		}
		if ref.AS4 != !p.conf.NoAS4 {
			h.viol("c19d:mrt:bgp4mp:subtype:as4", fmt.Sprintf("subtype %s on a session whose 4-octet-AS capability is %v", name, !p.conf.NoAS4), wit)
		}
		// the embedded message decides the family the ADD-PATH flavour is about
		opt := &bgp.MarshallingOption{Use2ByteAS: p.conf.NoAS4, AddPath: map[bgp.Family]bgp.BGPAddPathMode{}}
		if p.conf.APRecv {
			for _, f := range p.conf.families() {
				opt.AddPath[f] = bgp.BGP_ADD_PATH_RECEIVE
			}
		}
		if ref.AddPath != p.conf.APRecv {
			h.viol("c19d:mrt:bgp4mp:subtype:addpath", fmt.Sprintf("subtype %s on a session whose ADD-PATH receive state is %v", name, p.conf.APRecv), wit)
		}
		sentMsg, perr := bgp.ParseBGPMessage(ref.Msg, opt)
		if perr != nil {
			// compared byte-wise below; an unparsable embedded message is reported there
			continue
		}
		// what the package's parser made of the record
		cls := "as4-record"
		if !ref.AS4 {
			cls = "2-octet-as-record"
		}
		if ref.AddPath {
			cls += ":addpath"
		}
		if rc.Err != nil {
			h.viol("c19d:mrt:bgp4mp:ParseBody-error:"+cls, "mrt.ParseBody fails on a BGP4MP record gobgp wrote: "+rc.Err.Error(), wit)
			continue
		}
		pm, ok := rc.Msg.Body.(*mrt.BGP4MPMessage)
		if !ok {
			h.viol("c19d:mrt:bgp4mp:ParseBody-type", fmt.Sprintf("ParseBody returned %T", rc.Msg.Body), wit)
			continue
		}
		h.rec.Count("mrt_bgp4mp_parsebody_compared", 1)
		if pm.PeerAS != ref.PeerAS || pm.LocalAS != ref.LocalAS || pm.PeerIpAddress != ref.PeerIP || pm.LocalIpAddress != ref.LocalIP || pm.InterfaceIndex != ref.IfIndex {
			h.viol("c19d:mrt:bgp4mp:ParseBody-header-differs", "ParseBody's BGP4MP header fields differ from the RFC layout decoding", wit)
		}
		a, b := c19dRoutesOf(sentMsg), c19dRoutesOf(pm.BGPMessage)
		if strings.Join(a, "\n") != strings.Join(b, "\n") {
			wit["wire"], wit["parsebody"] = a, b
			h.viol("c19d:mrt:bgp4mp:ParseBody-routes-differ:"+cls, "the UPDATE ParseBody returns for the record announces/withdraws other routes or attributes than the bytes in the record", wit)
		}
	}
	// per peer: the embedded messages are exactly the UPDATEs the speaker wrote, in order
	addrs := map[string]bool{}
	for a := range byPeer {
		addrs[a] = true
	}
	for a := range h.expect {
		addrs[a] = true
	}
	for a := range addrs {
		exp, got := h.expect[a], byPeer[a]
		gi := 0
		for _, e := range exp {
			h.rec.Count("mrt_bgp4mp_updates_compared", 1)
			if gi < len(got) && bytes.Equal(got[gi].Msg, e.Raw) {
				gi++
				continue
			}
			// is it further down (reordered) or absent?
			later := false
			for j := gi + 1; j < len(got); j++ {
				if bytes.Equal(got[j].Msg, e.Raw) {
					later = true
					break
				}
			}
			if later {
				continue // reported below as an unmatched record
			}
			h.viol("c19d:mrt:bgp4mp:update-not-recorded:"+e.Class, fmt.Sprintf("UPDATE #%d (%s) that %s sent while the update dump was active has no BGP4MP record", e.Seq, e.Class, a),
				map[string]any{"update": hex.EncodeToString(e.Raw), "peer": a, "records_for_peer": len(got), "updates_sent": len(exp)})
		}
		if gi < len(got) {
			h.viol("c19d:mrt:bgp4mp:record-without-matching-update", fmt.Sprintf("%d BGP4MP record(s) for %s carry bytes that are not the next UPDATE the peer sent (altered, duplicated or out of order)", len(got)-gi, a),
				map[string]any{"first_unmatched": hex.EncodeToString(got[gi].Msg), "peer": a})
		}
	}
}

func c19dMRTCase(t *testing.T, rec *vlib.Rec, idx int) {
	r := vlib.CaseRand("c19d-mrt", idx)
	h := &c19dMRT{c19dCase: c19dCase{rec: rec, idx: idx}, t: t, r: r, expect: map[string][]c19dSent{}, asSeen: map[string][]uint32{}}
	h.globalAS = 65000
	if r.IntN(4) == 0 {
		h.globalAS = 4200000001
	}
	h.gen = &c19dGen{r: r, globalAS: h.globalAS, loops: true}
	h.fileU, h.fileT = c19dFileName(idx, "u"), c19dFileName(idx, "t")
	os.Remove(h.fileU)
	os.Remove(h.fileT)
	defer os.Remove(h.fileU)
	defer os.Remove(h.fileT)
	policy := r.IntN(3) == 0
	nLocal := 0
	if r.IntN(3) == 0 {
		nLocal = 1 + r.IntN(2)
	}
	h.local = nLocal > 0
	tableByRotation := r.IntN(4) == 0
	confs := c19dGenPeers(r, 2+r.IntN(3), h.globalAS, true)
	rounds := 2 + r.IntN(3)
	h.shape = []string{fmt.Sprintf("as=%d policy=%v local=%d rot=%v rounds=%d", h.globalAS, policy, nLocal, tableByRotation, rounds)}
	for _, c := range confs {
		h.shape = append(h.shape, c.shape())
	}
	rec.Mark(fmt.Sprintf("c19d mrt case %d %v", idx, h.shape), true)

	h.n = simStart(t, &api.Global{Asn: h.globalAS, RouterId: c19dRouterID})
	n := h.n
	enabled := []string{}
	defer func() {
		// the writers must be gone before Stop: their loop only ends through the manager
		for _, f := range enabled {
			n.s.mgmtOperation(func() error { return n.s.mrtManager.disable(&oc.MrtConfig{FileName: f}) }, false)
		}
		synctest.Wait()
		n.stop()
		synctest.Wait()
	}()
	if policy {
		if err := c19dImportPolicy(n); err != nil {
			t.Fatalf("import policy: %v", err)
		}
	}
	for _, c := range confs {
		p, err := c19dAddPeer(n, c)
		if err != nil {
			t.Fatalf("AddPeer %v: %v", c, err)
		}
		h.peers = append(h.peers, p)
	}
	late := -1
	if r.IntN(3) == 0 {
		late = r.IntN(len(h.peers))
	}
	for i, p := range h.peers {
		if i == late {
			continue
		}
		if err := p.bringUp(n, true); err != nil {
			rec.Inconclusive(err.Error())
			return
		}
		h.logf("up %s", p.conf.Addr)
	}
	h.traffic(r.IntN(5))
	pool := append(append([]string{}, c19dV4Pool...), c19dV6Pool...)
	for i := 0; i < nLocal; i++ {
		pfx := pool[r.IntN(len(pool))]
		if err := c19dAddLocal(n, r, pfx); err != nil {
			t.Fatalf("AddPath %s: %v", pfx, err)
		}
		h.logf("local route %s", pfx)
	}
	synctest.Wait()

	bg := context.Background()
	if err := n.s.EnableMrt(bg, &api.EnableMrtRequest{DumpType: api.EnableMrtRequest_DUMP_TYPE_UPDATES, Filename: h.fileU, RotationInterval: 60}); err != nil {
		t.Fatalf("EnableMrt updates: %v", err)
	}
	enabled = append(enabled, h.fileU)
	h.active = true
	treq := &api.EnableMrtRequest{DumpType: api.EnableMrtRequest_DUMP_TYPE_TABLE, Filename: h.fileT, DumpInterval: 60}
	if tableByRotation {
		treq.DumpInterval, treq.RotationInterval = 0, 60
	}
	if err := n.s.EnableMrt(bg, treq); err != nil {
		t.Fatalf("EnableMrt table: %v", err)
	}
	enabled = append(enabled, h.fileT)
	synctest.Wait()

	for round := 0; round < rounds; round++ {
		if round == 1 && late >= 0 {
			if err := h.peers[late].bringUp(n, true); err != nil {
				rec.Inconclusive(err.Error())
				return
			}
			h.logf("up (late) %s", h.peers[late].conf.Addr)
		}
		h.traffic(4 + r.IntN(14))
		if r.IntN(4) == 0 {
			// session flap at a quiet moment (everything sent so far has been processed)
			var ups []*c19dPeer
			for _, p := range h.peers {
				if p.up {
					ups = append(ups, p)
				}
			}
			if len(ups) > 1 {
				p := ups[r.IntN(len(ups))]
				p.sp.close()
				p.up = false
				p.held = map[bgp.Family]map[c19dNLRI]bool{}
				synctest.Wait()
				h.logf("flap %s", p.conf.Addr)
				if err := p.bringUp(n, true); err != nil {
					rec.Inconclusive(err.Error())
					return
				}
				h.traffic(1 + r.IntN(4))
			}
		}
		if round >= 1 && r.IntN(3) != 0 {
			// The same writer has dumped before: now a neighbour changes identity or goes away, and the
			// next dump must describe the peers and routes of the table as it is then.
			if !h.identityEvent() {
				return
			}
		}
		synctest.Wait()
		off := h.fileSize(h.fileT)
		time.Sleep(61 * time.Second) // at least one dump (and one rotation) tick, nothing else happens
		synctest.Wait()
		data, err := os.ReadFile(h.fileT)
		if err != nil {
			h.viol("c19d:mrt:table-file:missing", "the table dump file does not exist after a dump interval: "+err.Error(), nil)
			continue
		}
		if off > len(data) {
			off = 0
		}
		h.checkDumps(data[off:], fmt.Sprintf("round %d", round))
	}
	synctest.Wait()
	// the public way to stop a writer
	for _, f := range enabled {
		if err := n.s.DisableMrt(bg, &api.DisableMrtRequest{Filename: f}); err != nil {
			rec.Count("mrt_disable_api_error", 1)
			h.logf("DisableMrt(%s): %v", f, err)
		} else {
			rec.Count("mrt_disable_api_ok", 1)
		}
	}
	for _, f := range enabled {
		n.s.mgmtOperation(func() error { return n.s.mrtManager.disable(&oc.MrtConfig{FileName: f}) }, false)
	}
	enabled = nil
	synctest.Wait()
	if data, err := os.ReadFile(h.fileU); err != nil {
		if len(h.expect) > 0 {
			h.viol("c19d:mrt:update-file:missing", "the update dump file does not exist: "+err.Error(), nil)
		}
	} else {
		h.checkUpdates(data)
	}
	for _, p := range h.peers {
		if p.up && !p.sp.established() {
			rec.Inconclusive(fmt.Sprintf("c19d mrt case %d: session %s was lost unexpectedly (notification %v)", idx, p.conf.Addr, p.sp.notif))
		}
	}
	rec.Eval()
	rec.Count("mrt_scenarios", 1)
	if h.routeRec > 0 {
		rec.Count("mrt_scenarios_nontrivial", 1)
		rec.Nontrivial("mrt|" + vlib.Hash(strings.Join(h.shape, "|")))
	}
	if idx%17 == 0 {
		rec.Sample(map[string]any{"case": idx, "kind": "mrt", "shape": h.shape, "records": h.recsSeen, "route_records": h.routeRec})
	}
}
