package server

// C18 (unit server) — what is configured through the API is read back through the API.
//
// One real BgpServer per shard (ListenPort -1, every address family enabled, no sessions). Cases:
//   path        api.Path (NLRI of any family, attributes from the C18 generator, path identifier,
//               next hop) -> gRPC-layer AddPath -> ListPath(GLOBAL): same NLRI (structured and
//               binary), same identifier, same attribute set, same next hop; then DeletePath.
//   peer        api.Peer with a random subset of the fields newNeighborFromAPIStruct reads ->
//               AddPeer -> ListPeer: every field that was set reads back unchanged; DeletePeer.
//   peer-group  the same for AddPeerGroup / ListPeerGroup.
//   defined-set / statement / policy / assignment
//               Add* -> List*: every field that was set reads back unchanged; Delete*.
// Oracle = the request itself ("compare only fields that were set": a field the request leaves at
// its proto3 default is not compared, the server may fill in a default there).
// Values that do not survive the pure converter round trip of unit apiutil are not submitted
// (their loss is reported there), so this unit reports what the server path adds.

import (
	"bytes"
	"context"
	"encoding/hex"
	"fmt"
	"math/rand/v2"
	"net/netip"
	"regexp"
	"sort"
	"strings"
	"testing"

	"google.golang.org/protobuf/proto"

	"github.com/osrg/gobgp/v4/api"
	"github.com/osrg/gobgp/v4/internal/verif/vlib"
	"github.com/osrg/gobgp/v4/pkg/apiutil"
	"github.com/osrg/gobgp/v4/pkg/packet/bgp"
)

type c18Srv struct {
	t   *testing.T
	s   *BgpServer
	g   *server
	rec *vlib.Rec
}

type c18SCtx struct {
	r   *rand.Rand
	idx int
}

var c18Ctx0 = context.Background()

func c18StartServer(t *testing.T, rec *vlib.Rec) *c18Srv {
	s := NewBgpServer()
	go s.Serve()
	var fams []uint32
	for i := 0; i <= 25; i++ {
		fams = append(fams, uint32(i))
	}
	if err := s.StartBgp(c18Ctx0, &api.StartBgpRequest{Global: &api.Global{Asn: 65000, RouterId: "192.0.2.1", ListenPort: -1, Families: fams}}); err != nil {
		t.Fatalf("c18: StartBgp: %v", err)
	}
	return &c18Srv{t: t, s: s, g: &server{bgpServer: s}, rec: rec}
}

func c18T(v any) string { return strings.TrimPrefix(fmt.Sprintf("%T", v), "*bgp.") }

func c18NLRIType(n bgp.NLRI) string {
	switch v := n.(type) {
	case *bgp.EVPNNLRI:
		return "EVPNNLRI/" + c18T(v.RouteTypeData)
	case *bgp.MUPNLRI:
		return "MUPNLRI/" + c18T(v.RouteTypeData)
	case *bgp.LsAddrPrefix:
		return "LsAddrPrefix/" + c18T(v.NLRI)
	}
	return c18T(n)
}

func c18AttrKind(a *api.Attribute) string {
	if a == nil || a.Attr == nil {
		return "nil"
	}
	return strings.TrimPrefix(fmt.Sprintf("%T", a.Attr), "*api.Attribute_")
}

// c18CleanAttr converts one native attribute to its API form and reports whether the pure
// converter round trip (unit apiutil) preserves it.
func c18CleanAttr(a bgp.PathAttributeInterface) (out *api.Attribute, clean bool) {
	defer func() {
		if recover() != nil {
			out, clean = nil, false
		}
	}()
	w0, err := a.Serialize()
	if err != nil {
		return nil, false
	}
	as, err := apiutil.MarshalPathAttributes([]bgp.PathAttributeInterface{a})
	if err != nil || len(as) != 1 || as[0].Attr == nil {
		return nil, false
	}
	n1, err := apiutil.UnmarshalAttribute(as[0])
	if err != nil {
		return nil, false
	}
	w1, err := n1.Serialize()
	if err != nil || !bytes.Equal(w0, w1) {
		return nil, false
	}
	a2, err := apiutil.MarshalPathAttributes([]bgp.PathAttributeInterface{n1})
	if err != nil || len(a2) != 1 || !proto.Equal(as[0], a2[0]) {
		return nil, false
	}
	return as[0], true
}

func c18CleanNLRI(f bgp.Family, n bgp.NLRI) (out *api.NLRI, clean bool) {
	defer func() {
		if recover() != nil {
			out, clean = nil, false
		}
	}()
	w0, err := n.Serialize()
	if err != nil {
		return nil, false
	}
	a, err := apiutil.MarshalNLRI(n)
	if err != nil || a == nil || a.Nlri == nil {
		return nil, false
	}
	n1, err := apiutil.UnmarshalNLRI(f, a)
	if err != nil {
		return nil, false
	}
	w1, err := n1.Serialize()
	if err != nil || !bytes.Equal(w0, w1) || n.String() != n1.String() {
		return nil, false
	}
	a2, err := apiutil.MarshalNLRI(n1)
	if err != nil || !proto.Equal(a, a2) {
		return nil, false
	}
	return a, true
}

// ---------------------------------------------------------------- AddPath / ListPath

var c18PathAttrTypes = []bgp.BGPAttrType{
	bgp.BGP_ATTR_TYPE_AS_PATH, bgp.BGP_ATTR_TYPE_MULTI_EXIT_DISC, bgp.BGP_ATTR_TYPE_LOCAL_PREF, bgp.BGP_ATTR_TYPE_ATOMIC_AGGREGATE, bgp.BGP_ATTR_TYPE_AGGREGATOR,
	bgp.BGP_ATTR_TYPE_COMMUNITIES, bgp.BGP_ATTR_TYPE_ORIGINATOR_ID, bgp.BGP_ATTR_TYPE_CLUSTER_LIST, bgp.BGP_ATTR_TYPE_EXTENDED_COMMUNITIES, bgp.BGP_ATTR_TYPE_AS4_PATH,
	bgp.BGP_ATTR_TYPE_AS4_AGGREGATOR, bgp.BGP_ATTR_TYPE_PMSI_TUNNEL, bgp.BGP_ATTR_TYPE_TUNNEL_ENCAP, bgp.BGP_ATTR_TYPE_IP6_EXTENDED_COMMUNITIES, bgp.BGP_ATTR_TYPE_AIGP,
	bgp.BGP_ATTR_TYPE_LS, bgp.BGP_ATTR_TYPE_LARGE_COMMUNITY, bgp.BGP_ATTR_TYPE_PREFIX_SID, bgp.BGPAttrType(0),
}

func (x *c18Srv) listGlobal(fam bgp.Family) ([]*api.Destination, error) {
	var ds []*api.Destination
	err := x.g.listPath(c18Ctx0, &api.ListPathRequest{TableType: api.TableType_TABLE_TYPE_GLOBAL, Family: apiutil.ToApiFamily(fam.Afi(), fam.Safi()),
		EnableNlriBinary: true, EnableAttributeBinary: true}, func(d *api.Destination) { ds = append(ds, d) })
	return ds, err
}

func (x *c18Srv) pathCase(c *c18SCtx) {
	r, rec := c.r, x.rec
	fam := c18Families[r.IntN(len(c18Families))]
	if r.IntN(3) == 0 {
		fam = c18CoreFamilies[r.IntN(len(c18CoreFamilies))]
	}
	nc := &c18NLRICtx{single: true}
	nlri := c18NLRI(r, fam, nc)
	if c18IsNilIface(nlri) {
		rec.Count("path_gen_failed", 1)
		return
	}
	apiNlri, ok := c18CleanNLRI(fam, nlri)
	if !ok {
		rec.Count("path_skipped_unit1_nlri:"+c18NLRIType(nlri), 1)
		return
	}
	gen := c18MakeOptSet(map[bgp.Family]bool{}, false, false, false, false)
	ac := &c18AttrCtx{o: gen}
	in := map[string]*api.Attribute{}
	var inNative []bgp.PathAttributeInterface
	add := func(a bgp.PathAttributeInterface) {
		if c18IsNilIface(a) {
			return
		}
		aa, ok := c18CleanAttr(a)
		if !ok {
			rec.Count("path_skipped_unit1_attr:"+c18T(a), 1)
			return
		}
		k := fmt.Sprintf("%s/%d", c18AttrKind(aa), a.GetType())
		for kk := range in {
			if strings.HasSuffix(kk, fmt.Sprintf("/%d", a.GetType())) {
				return
			}
		}
		in[k] = aa
		inNative = append(inNative, a)
	}
	add(bgp.NewPathAttributeOrigin(uint8(r.IntN(3))))
	for i := r.IntN(6); i > 0; i-- {
		add(c18Attr(r, c18PathAttrTypes[r.IntN(len(c18PathAttrTypes))], ac))
	}
	// next hop
	var nh, ll netip.Addr
	isFS := fam.Safi() == bgp.SAFI_FLOW_SPEC_UNICAST || fam.Safi() == bgp.SAFI_FLOW_SPEC_VPN
	if !isFS {
		v6 := fam.Afi() == bgp.AFI_IP6
		if fam.Afi() != bgp.AFI_IP && fam.Afi() != bgp.AFI_IP6 {
			v6 = c18Bool(r)
		}
		if v6 {
			nh = netip.MustParseAddr(c18Pick(r, "2001:db8::1", "2001:db8:1::ffff", "fd00::7"))
			if c18Chance(r, 3) {
				ll = c18LinkLocal6(r)
			}
		} else {
			nh = netip.AddrFrom4([4]byte{192, 0, 2, byte(1 + r.IntN(250))})
		}
	}
	id := c18Pick(r, 0, 0, 1, 2, c18U32(r))
	req := &api.Path{Family: apiutil.ToApiFamily(fam.Afi(), fam.Safi()), Nlri: apiNlri, Identifier: id}
	var keys []string
	for k := range in {
		keys = append(keys, k)
	}
	sort.Strings(keys)
	for _, k := range keys {
		req.Pattrs = append(req.Pattrs, in[k])
	}
	carrier := "mp_reach"
	if fam == bgp.RF_IPv4_UC && nh.Is4() && c18Bool(r) {
		carrier = "next_hop"
		req.Pattrs = append(req.Pattrs, &api.Attribute{Attr: &api.Attribute_NextHop{NextHop: &api.NextHopAttribute{NextHop: nh.String()}}})
	} else {
		mp := &api.MpReachNLRIAttribute{Family: req.Family, Nlris: []*api.NLRI{apiNlri}}
		if nh.IsValid() {
			mp.NextHops = append(mp.NextHops, nh.String())
			if ll.IsValid() {
				mp.NextHops = append(mp.NextHops, ll.String())
			}
		}
		req.Pattrs = append(req.Pattrs, &api.Attribute{Attr: &api.Attribute_MpReach{MpReach: mp}})
	}
	typ := c18NLRIType(nlri)
	rec.Mark(fmt.Sprintf("path case %d %s %s", c.idx, fam, typ), false)
	wit := func() any { return map[string]any{"case": c.idx, "family": fam.String(), "request": c18JSON(req)} }

	var resp *api.AddPathResponse
	var err error
	if rec.Guard("c18:server:AddPath", wit, func() {
		resp, err = x.g.AddPath(c18Ctx0, &api.AddPathRequest{TableType: api.TableType_TABLE_TYPE_GLOBAL, Path: req})
	}) {
		return
	}
	if err != nil {
		rec.Count("path_rejected:"+fam.String(), 1)
		if c.idx%50 == 0 {
			rec.Count("path_rejected_reason:"+c18Shorten(err.Error()), 1)
		}
		return
	}
	defer func() {
		// leave the table empty for the next case
		if _, err := x.g.DeletePath(c18Ctx0, &api.DeletePathRequest{TableType: api.TableType_TABLE_TYPE_GLOBAL, Uuid: resp.Uuid}); err != nil {
			f := apiutil.ToApiFamily(fam.Afi(), fam.Safi())
			x.g.DeletePath(c18Ctx0, &api.DeletePathRequest{TableType: api.TableType_TABLE_TYPE_GLOBAL, Family: f})
		}
		if ds, err := x.listGlobal(fam); err == nil && len(ds) != 0 {
			rec.Violation("c18:server:path:not-deleted:"+fam.String(), fmt.Sprintf("after DeletePath by uuid the %s table still lists %d destination(s)", fam, len(ds)), wit())
			f := apiutil.ToApiFamily(fam.Afi(), fam.Safi())
			x.g.DeletePath(c18Ctx0, &api.DeletePathRequest{TableType: api.TableType_TABLE_TYPE_GLOBAL, Family: f})
		}
	}()
	var ds []*api.Destination
	if rec.Guard("c18:server:ListPath", wit, func() { ds, err = x.listGlobal(fam) }) {
		return
	}
	if err != nil {
		rec.Violation("c18:server:path:list-error:"+fam.String(), fmt.Sprintf("ListPath(GLOBAL, %s) after AddPath: %v", fam, err), wit())
		return
	}
	rec.Eval()
	rec.Count("path_readbacks", 1)
	rec.Count("path_family:"+fam.String(), 1)
	rec.Count("path_nlri:"+typ, 1)
	if id != 0 {
		rec.Count("path_with_identifier", 1)
	}
	rec.Nontrivial(fmt.Sprintf("path:%s:%s:%s:%v", typ, strings.Join(keys, ","), carrier, id != 0))
	var got *api.Path
	n := 0
	for _, d := range ds {
		for _, p := range d.Paths {
			n++
			got = p
			if d.Prefix != nlri.String() {
				rec.Violation("c18:server:path:prefix-text:"+typ, fmt.Sprintf("Destination.prefix %q, the NLRI added renders as %q", d.Prefix, nlri.String()), wit())
			}
		}
	}
	if n != 1 {
		rec.Violation("c18:server:path:count:"+fam.String(), fmt.Sprintf("one path added to an empty %s table, ListPath returns %d", fam, n), wit())
		return
	}
	w := func() any {
		return map[string]any{"case": c.idx, "family": fam.String(), "request": c18JSON(req), "listed": c18JSON(got)}
	}
	if !proto.Equal(got.Nlri, apiNlri) {
		rec.Violation("c18:server:path:nlri:"+typ, "the listed NLRI differs from the one added", w())
	}
	if nb, _ := nlri.Serialize(); !bytes.Equal(nb, got.NlriBinary) {
		rec.Violation("c18:server:path:nlri-binary:"+typ, fmt.Sprintf("binary NLRI %x added, %x listed", nb, got.NlriBinary), w())
	}
	if got.Identifier != id {
		rec.Violation("c18:server:path:identifier", fmt.Sprintf("path identifier %d added, %d listed", id, got.Identifier), w())
	}
	if f := got.Family; f == nil || uint16(f.Afi) != fam.Afi() || uint8(f.Safi) != fam.Safi() {
		rec.Violation("c18:server:path:family", fmt.Sprintf("family %s added, %v listed", fam, got.Family), w())
	}
	// attributes
	out := map[string]*api.Attribute{}
	var carriers []*api.Attribute
	for i, a := range got.Pattrs {
		switch a.Attr.(type) {
		case *api.Attribute_NextHop, *api.Attribute_MpReach:
			carriers = append(carriers, a)
			continue
		}
		t := -1
		if i < len(got.PattrsBinary) && len(got.PattrsBinary[i]) > 1 {
			t = int(got.PattrsBinary[i][1])
		}
		out[fmt.Sprintf("%s/%d", c18AttrKind(a), t)] = a
	}
	esDerived := false
	if e, ok := nlri.(*bgp.EVPNNLRI); ok {
		if es, ok := e.RouteTypeData.(*bgp.EVPNEthernetSegmentRoute); ok {
			switch es.ESI.Type {
			case bgp.ESI_LACP, bgp.ESI_MSTP, bgp.ESI_MAC:
				esDerived = true // the server derives the ES-Import route target (RFC 7432 7.6): not compared
			}
		}
	}
	for k, a := range in {
		b, ok := out[k]
		kind := k[:strings.Index(k, "/")]
		if kind == "ExtendedCommunities" && esDerived {
			continue
		}
		switch {
		case !ok:
			rec.Violation("c18:server:path:attr-lost:"+kind, fmt.Sprintf("attribute %s added with the path is not listed", k), w())
		case !proto.Equal(a, b):
			rec.Violation("c18:server:path:attr-changed:"+kind, fmt.Sprintf("attribute %s is listed with another value", k), w())
		}
	}
	for k := range out {
		kind := k[:strings.Index(k, "/")]
		if _, ok := in[k]; !ok && !(kind == "ExtendedCommunities" && esDerived) {
			rec.Violation("c18:server:path:attr-added:"+kind, fmt.Sprintf("attribute %s is listed but was not added", k), w())
		}
	}
	// binary attributes agree with what was added
	if len(got.PattrsBinary) == len(got.Pattrs) {
		want := map[string]bool{}
		for _, a := range inNative {
			b, _ := a.Serialize()
			want[hex.EncodeToString(b)] = true
		}
		for i, b := range got.PattrsBinary {
			switch got.Pattrs[i].Attr.(type) {
			case *api.Attribute_NextHop, *api.Attribute_MpReach:
				continue
			}
			if !want[hex.EncodeToString(b)] && !(esDerived && c18AttrKind(got.Pattrs[i]) == "ExtendedCommunities") {
				rec.Violation("c18:server:path:attr-binary:"+c18AttrKind(got.Pattrs[i]), fmt.Sprintf("listed binary attribute %x is none of the attributes added", b), w())
			}
		}
	}
	// next hop carrier
	if len(carriers) != 1 {
		rec.Violation("c18:server:path:nexthop-carriers", fmt.Sprintf("%d NEXT_HOP/MP_REACH attributes listed", len(carriers)), w())
		return
	}
	switch cv := carriers[0].Attr.(type) {
	case *api.Attribute_NextHop:
		if fam != bgp.RF_IPv4_UC || cv.NextHop.NextHop != nh.String() {
			rec.Violation("c18:server:path:nexthop:"+carrier, fmt.Sprintf("next hop %s added, NEXT_HOP %s listed", nh, cv.NextHop.NextHop), w())
		}
	case *api.Attribute_MpReach:
		mp := cv.MpReach
		if fam == bgp.RF_IPv4_UC && nh.Is4() {
			rec.Count("path_ipv4_listed_as_mp_reach", 1) // admissible representation of the same next hop
		}
		if len(mp.Nlris) != 1 || !proto.Equal(mp.Nlris[0], apiNlri) {
			rec.Violation("c18:server:path:mp-reach-nlri:"+typ, "the NLRI inside the listed MP_REACH differs from the one added", w())
		}
		switch {
		case !nh.IsValid():
			if len(mp.NextHops) != 0 {
				rec.Violation("c18:server:path:nexthop:flowspec", fmt.Sprintf("no next hop added, %v listed", mp.NextHops), w())
			}
		case len(mp.NextHops) == 0 || mp.NextHops[0] != nh.String():
			rec.Violation("c18:server:path:nexthop:"+carrier, fmt.Sprintf("next hop %s added, %v listed", nh, mp.NextHops), w())
		case ll.IsValid() && (len(mp.NextHops) < 2 || mp.NextHops[1] != ll.String()):
			rec.Violation("c18:server:path:nexthop-linklocal", fmt.Sprintf("next hops [%s %s] added, %v listed", nh, ll, mp.NextHops), w())
		}
	}
	if c.idx%499 == 0 {
		rec.Sample(map[string]any{"case": c.idx, "kind": "path", "family": fam.String(), "request": c18JSON(req)})
	}
}

var c18NumRe = regexp.MustCompile(`[0-9a-fA-F:.]{3,}|\d+`)

func c18Shorten(s string) string {
	s = c18NumRe.ReplaceAllString(s, "N")
	if len(s) > 60 {
		s = s[:60]
	}
	return s
}

// ---------------------------------------------------------------- AddPeer / ListPeer

func c18GenAfiSafis(r *rand.Rand, policies []string) []*api.AfiSafi {
	var out []*api.AfiSafi
	perm := r.Perm(len(c18Families))
	for i := c18SmallLen(r, 3); i > 0; i-- {
		f := c18Families[perm[i]]
		fa := apiutil.ToApiFamily(f.Afi(), f.Safi())
		a := &api.AfiSafi{Config: &api.AfiSafiConfig{Family: fa, Enabled: true}}
		if c18Bool(r) {
			a.MpGracefulRestart = &api.MpGracefulRestart{Config: &api.MpGracefulRestartConfig{Enabled: true}}
		}
		if c18Bool(r) {
			a.AddPaths = &api.AddPaths{Config: &api.AddPathsConfig{Receive: c18Bool(r), SendMax: uint32(r.IntN(256))}}
		}
		if c18Bool(r) {
			a.LongLivedGracefulRestart = &api.LongLivedGracefulRestart{Config: &api.LongLivedGracefulRestartConfig{Enabled: c18Bool(r), RestartTime: c18U24(r)}}
		}
		if c18Bool(r) {
			a.PrefixLimits = &api.PrefixLimit{Family: fa, MaxPrefixes: 1 + c18U32(r)%100000, ShutdownThresholdPct: uint32(r.IntN(101))}
		}
		if c18Chance(r, 3) {
			a.RouteTargetMembership = &api.RouteTargetMembership{Config: &api.RouteTargetMembershipConfig{DeferralTime: uint32(c18U16(r))}}
		}
		if c18Chance(r, 3) {
			a.UseMultiplePaths = &api.UseMultiplePaths{Config: &api.UseMultiplePathsConfig{Enabled: c18Bool(r)},
				Ebgp: &api.Ebgp{Config: &api.EbgpConfig{AllowMultipleAsn: c18Bool(r), MaximumPaths: uint32(r.IntN(64))}},
				Ibgp: &api.Ibgp{Config: &api.IbgpConfig{MaximumPaths: uint32(r.IntN(64))}}}
		}
		if c18Chance(r, 3) {
			a.RouteSelectionOptions = &api.RouteSelectionOptions{Config: &api.RouteSelectionOptionsConfig{AlwaysCompareMed: c18Bool(r), IgnoreAsPathLength: c18Bool(r),
				ExternalCompareRouterId: c18Bool(r), AdvertiseInactiveRoutes: c18Bool(r), EnableAigp: c18Bool(r), IgnoreNextHopIgpMetric: c18Bool(r)}}
		}
		if len(policies) > 0 && c18Chance(r, 3) {
			a.ApplyPolicy = c18GenApplyPolicy(r, policies)
		}
		out = append(out, a)
	}
	return out
}

func c18GenApplyPolicy(r *rand.Rand, policies []string) *api.ApplyPolicy {
	ap := &api.ApplyPolicy{}
	mk := func(dir api.PolicyDirection) *api.PolicyAssignment {
		pa := &api.PolicyAssignment{Direction: dir, DefaultAction: api.RouteAction(r.IntN(3))}
		perm := r.Perm(len(policies))
		for i := c18SmallLen(r, len(policies)); i > 0; i-- {
			pa.Policies = append(pa.Policies, &api.Policy{Name: policies[perm[i-1]]})
		}
		return pa
	}
	if c18Bool(r) {
		ap.ImportPolicy = mk(api.PolicyDirection_POLICY_DIRECTION_IMPORT)
	}
	if c18Bool(r) {
		ap.ExportPolicy = mk(api.PolicyDirection_POLICY_DIRECTION_EXPORT)
	}
	return ap
}

type c18PeerCommon struct {
	ebgp       bool
	quiet      bool // passive or administratively down: never dials
	Timers     *api.Timers
	RR         *api.RouteReflector
	RS         *api.RouteServer
	GR         *api.GracefulRestart
	Transport  *api.Transport
	Multihop   *api.EbgpMultihop
	TtlSec     *api.TtlSecurity
	Bfd        *api.BfdPeerConfig
	AfiSafis   []*api.AfiSafi
	ApplyPol   *api.ApplyPolicy
	v6         bool
	forGroup   bool
	rsOrRRUsed string
}

func c18GenPeerCommon(r *rand.Rand, ebgp, v6, forGroup bool, policies []string) *c18PeerCommon {
	p := &c18PeerCommon{ebgp: ebgp, v6: v6, forGroup: forGroup}
	if c18Bool(r) {
		t := &api.TimersConfig{}
		if c18Bool(r) {
			t.ConnectRetry = uint64(1 + r.IntN(600))
		}
		if c18Bool(r) {
			t.HoldTime = uint64(3 + r.IntN(600))
			if c18Bool(r) {
				t.KeepaliveInterval = uint64(1 + r.IntN(int(t.HoldTime)/3+1))
			}
		}
		if c18Bool(r) {
			t.MinimumAdvertisementInterval = uint64(1 + r.IntN(60))
		}
		if c18Bool(r) {
			t.IdleHoldTimeAfterReset = uint64(1 + r.IntN(120))
		}
		p.Timers = &api.Timers{Config: t}
	}
	switch r.IntN(4) {
	case 0:
		if !ebgp {
			p.RR = &api.RouteReflector{RouteReflectorClient: true}
			if c18Bool(r) {
				p.RR.RouteReflectorClusterId = c18Pick(r, "10.9.8.7", "0.0.0.1", "255.255.255.254")
			}
		}
	case 1:
		p.RS = &api.RouteServer{RouteServerClient: true, SecondaryRoute: c18Bool(r)}
	}
	if c18Bool(r) {
		p.GR = &api.GracefulRestart{Enabled: c18Bool(r), HelperOnly: c18Bool(r), NotificationEnabled: c18Bool(r), LonglivedEnabled: c18Bool(r)}
		if c18Bool(r) {
			p.GR.RestartTime = uint32(1 + r.IntN(4095))
		}
		if c18Bool(r) {
			p.GR.DeferralTime = uint32(1 + r.IntN(4095))
		}
	}
	{
		t := &api.Transport{}
		p.quiet = !c18Chance(r, 4)
		if !forGroup {
			if c18Bool(r) {
				if v6 {
					t.LocalAddress = "::1"
				} else {
					t.LocalAddress = "127.0.0.1"
				}
			}
		}
		if p.quiet {
			t.PassiveMode = true
		}
		if c18Bool(r) {
			t.RemotePort = uint32(1024 + r.IntN(60000))
		}
		if !forGroup && c18Bool(r) { // (newPeerGroupFromAPIStruct does not read local_port)
			t.LocalPort = uint32(1024 + r.IntN(60000))
		}
		if c18Bool(r) {
			t.TcpMss = uint32(536 + r.IntN(9000))
		}
		if c18Bool(r) {
			t.IpTos = uint32(1 + r.IntN(255))
		}
		p.Transport = t
	}
	if ebgp {
		switch r.IntN(4) {
		case 0:
			p.Multihop = &api.EbgpMultihop{Enabled: true, MultihopTtl: uint32(r.IntN(256))}
		case 1:
			p.TtlSec = &api.TtlSecurity{Enabled: true, TtlMin: uint32(r.IntN(256))}
		}
	}
	if c18Chance(r, 3) {
		p.Bfd = &api.BfdPeerConfig{Port: uint32(1024 + r.IntN(60000)), DesiredMinimumTxInterval: 1 + c18U32(r)%10000000, RequiredMinimumReceive: 1 + c18U32(r)%10000000, DetectionMultiplier: uint32(1 + r.IntN(255))}
	}
	p.AfiSafis = c18GenAfiSafis(r, policies)
	if len(policies) > 0 && p.RS != nil && c18Bool(r) {
		p.ApplyPol = c18GenApplyPolicy(r, policies) // (per-peer policies exist for route server clients)
	}
	return p
}

var c18PeerIgnore = regexp.MustCompile(`^\.(state|info)(\.|$)|^\.timers\.state(\.|$)`)

// newPeerGroupFromAPIStruct does not read conf.type (a group has no derived peer type)
var c18PeerGroupIgnore = regexp.MustCompile(`^\.(state|info)(\.|$)|^\.timers\.state(\.|$)|^\.conf\.type$`)

// c18Unanchor strips the ^...$ gobgp adds to plain community values of a remove action (the listed
// form of "exactly this value"): an admissible rendering of what was configured.
func c18Unanchor(st *api.Statement) {
	if st == nil || st.Actions == nil {
		return
	}
	for _, ca := range []*api.CommunityAction{st.Actions.Community, st.Actions.ExtCommunity, st.Actions.LargeCommunity} {
		if ca == nil {
			continue
		}
		for i, c := range ca.Communities {
			ca.Communities[i] = strings.NewReplacer("^", "", "$", "").Replace(c)
		}
	}
}

func (x *c18Srv) reportSubset(scope, obj string, want, got proto.Message, unordered map[string]bool, ignore *regexp.Regexp, idx int) bool {
	got = proto.Clone(got)
	switch g := got.(type) {
	case *api.Statement:
		c18Unanchor(g)
	case *api.Policy:
		for _, st := range g.Statements {
			c18Unanchor(st)
		}
	}
	diffs := c18Subset(want, got, unordered, ignore)
	for _, d := range diffs {
		x.rec.Violation("c18:server:"+scope+":"+d, fmt.Sprintf("%s: configured through the API and read back through the API: %s", obj, d),
			map[string]any{"case": idx, "configured": c18JSON(want), "read_back": c18JSON(got)})
	}
	return len(diffs) > 0
}

func (x *c18Srv) peerCase(c *c18SCtx, policies []string) {
	r, rec := c.r, x.rec
	v6 := c18Chance(r, 4)
	addr := fmt.Sprintf("127.%d.%d.%d", 1+r.IntN(200), r.IntN(250), 1+r.IntN(250))
	if v6 {
		addr = fmt.Sprintf("fd00::%x:%x", 1+r.IntN(65000), 1+r.IntN(65000))
	}
	local := uint32(65000)
	conf := &api.PeerConf{NeighborAddress: addr}
	if c18Chance(r, 3) {
		local = c18Pick[uint32](r, 64999, 65010, 4200000001)
		conf.LocalAsn = local
	}
	ebgp := c18Bool(r)
	if ebgp {
		conf.PeerAsn = c18Pick[uint32](r, 1, 64512, 65001, 65535, 65536, 4200000000)
		if conf.PeerAsn == local {
			conf.PeerAsn++
		}
		conf.Type = api.PeerType_PEER_TYPE_EXTERNAL
		if c18Chance(r, 3) {
			conf.RemovePrivate = api.RemovePrivate(1 + r.IntN(2))
		}
		conf.ReplacePeerAsn = c18Chance(r, 3)
	} else {
		conf.PeerAsn = local
		conf.Type = api.PeerType_PEER_TYPE_INTERNAL
	}
	pc := c18GenPeerCommon(r, ebgp, v6, false, policies)
	if c18Bool(r) {
		conf.Description = c18String(r, 1+r.IntN(20))
	}
	if pc.quiet && c18Chance(r, 3) {
		conf.AuthPassword = c18String(r, 1+r.IntN(12))
	}
	conf.RouteFlapDamping = c18Chance(r, 4)
	if c18Chance(r, 3) {
		conf.AllowOwnAsn = uint32(1 + r.IntN(255))
	}
	conf.AllowAspathLoopLocal = c18Chance(r, 4)
	conf.AdminDown = c18Chance(r, 3)
	conf.SendSoftwareVersion = c18Chance(r, 3)
	peer := &api.Peer{Conf: conf, Timers: pc.Timers, RouteReflector: pc.RR, RouteServer: pc.RS, GracefulRestart: pc.GR, Transport: pc.Transport,
		EbgpMultihop: pc.Multihop, TtlSecurity: pc.TtlSec, Bfd: pc.Bfd, AfiSafis: pc.AfiSafis, ApplyPolicy: pc.ApplyPol}
	rec.Mark(fmt.Sprintf("peer case %d %s", c.idx, addr), false)
	wit := func() any { return map[string]any{"case": c.idx, "request": c18JSON(peer)} }
	var err error
	if rec.Guard("c18:server:AddPeer", wit, func() { err = x.s.AddPeer(c18Ctx0, &api.AddPeerRequest{Peer: proto.Clone(peer).(*api.Peer)}) }) {
		return
	}
	if err != nil {
		rec.Count("peer_rejected", 1)
		rec.Count("peer_rejected_reason:"+c18Shorten(err.Error()), 1)
		return
	}
	defer x.s.DeletePeer(c18Ctx0, &api.DeletePeerRequest{Address: addr})
	var got []*api.Peer
	if rec.Guard("c18:server:ListPeer", wit, func() {
		err = x.s.ListPeer(c18Ctx0, &api.ListPeerRequest{Address: addr}, func(p *api.Peer) { got = append(got, p) })
	}) {
		return
	}
	if err != nil || len(got) != 1 {
		rec.Violation("c18:server:peer:list", fmt.Sprintf("ListPeer(%s) after AddPeer: %d peers, error %v", addr, len(got), err), wit())
		return
	}
	rec.Eval()
	rec.Count("peer_readbacks", 1)
	rec.Nontrivial("peer:" + c18Mask(peer))
	x.reportSubset("peer", "neighbor "+addr, peer, got[0], nil, c18PeerIgnore, c.idx)
	if c.idx%499 == 5 {
		rec.Sample(map[string]any{"case": c.idx, "kind": "peer", "request": c18JSON(peer)})
	}
}

func (x *c18Srv) peerGroupCase(c *c18SCtx, policies []string) {
	r, rec := c.r, x.rec
	name := fmt.Sprintf("pg%d", c.idx)
	conf := &api.PeerGroupConf{PeerGroupName: name}
	local := uint32(65000)
	if c18Chance(r, 3) {
		local = c18Pick[uint32](r, 64999, 65010, 4200000001)
		conf.LocalAsn = local
	}
	ebgp := c18Bool(r)
	if ebgp {
		conf.PeerAsn = c18Pick[uint32](r, 1, 64512, 65001, 65536, 4200000000)
		conf.Type = api.PeerType_PEER_TYPE_EXTERNAL
		if c18Chance(r, 3) {
			conf.RemovePrivate = api.RemovePrivate(1 + r.IntN(2))
		}
		conf.ReplacePeerAsn = c18Chance(r, 3)
	} else {
		conf.PeerAsn = local
		conf.Type = api.PeerType_PEER_TYPE_INTERNAL
	}
	pc := c18GenPeerCommon(r, ebgp, false, true, policies)
	if c18Bool(r) {
		conf.Description = c18String(r, 1+r.IntN(20))
	}
	if c18Chance(r, 3) {
		conf.AuthPassword = c18String(r, 1+r.IntN(12))
	}
	conf.RouteFlapDamping = c18Chance(r, 4)
	if c18Chance(r, 3) {
		conf.AllowOwnAsn = uint32(1 + r.IntN(255))
	}
	conf.AllowAspathLoopLocal = c18Chance(r, 4)
	conf.SendSoftwareVersion = c18Chance(r, 3)
	pg := &api.PeerGroup{Conf: conf, Timers: pc.Timers, RouteReflector: pc.RR, RouteServer: pc.RS, GracefulRestart: pc.GR, Transport: pc.Transport,
		EbgpMultihop: pc.Multihop, TtlSecurity: pc.TtlSec, Bfd: pc.Bfd, AfiSafis: pc.AfiSafis, ApplyPolicy: pc.ApplyPol}
	rec.Mark(fmt.Sprintf("peer-group case %d", c.idx), false)
	wit := func() any { return map[string]any{"case": c.idx, "request": c18JSON(pg)} }
	var err error
	if rec.Guard("c18:server:AddPeerGroup", wit, func() {
		err = x.s.AddPeerGroup(c18Ctx0, &api.AddPeerGroupRequest{PeerGroup: proto.Clone(pg).(*api.PeerGroup)})
	}) {
		return
	}
	if err != nil {
		rec.Count("peer_group_rejected", 1)
		rec.Count("peer_group_rejected_reason:"+c18Shorten(err.Error()), 1)
		return
	}
	defer x.s.DeletePeerGroup(c18Ctx0, &api.DeletePeerGroupRequest{Name: name})
	var got []*api.PeerGroup
	if rec.Guard("c18:server:ListPeerGroup", wit, func() {
		err = x.s.ListPeerGroup(c18Ctx0, &api.ListPeerGroupRequest{PeerGroupName: name}, func(p *api.PeerGroup) { got = append(got, p) })
	}) {
		return
	}
	if err != nil || len(got) != 1 {
		rec.Violation("c18:server:peer-group:list", fmt.Sprintf("ListPeerGroup(%s) after AddPeerGroup: %d groups, error %v", name, len(got), err), wit())
		return
	}
	rec.Eval()
	rec.Count("peer_group_readbacks", 1)
	rec.Nontrivial("pg:" + c18Mask(pg))
	x.reportSubset("peer-group", "peer group "+name, pg, got[0], nil, c18PeerGroupIgnore, c.idx)
}

// ---------------------------------------------------------------- policy objects

// c18Canon: admissible renderings of a configured set entry: itself, or itself anchored
// (docs/sources/policy.md: a plain value means exactly that value; gobgp lists it as ^value$).
func c18CanonEntry(typ api.DefinedType, s string) []string {
	out := []string{s}
	switch typ {
	case api.DefinedType_DEFINED_TYPE_AS_PATH:
		out = append(out, strings.ReplaceAll(s, "_", "(^|[,{}() ]|$)")) // policy.md: "_" abbreviates this group
	case api.DefinedType_DEFINED_TYPE_COMMUNITY, api.DefinedType_DEFINED_TYPE_LARGE_COMMUNITY:
		out = append(out, "^"+s+"$")
	case api.DefinedType_DEFINED_TYPE_EXT_COMMUNITY:
		if i := strings.Index(s, ":"); i > 0 {
			out = append(out, s[:i+1]+"^"+s[i+1:]+"$")
		}
	}
	return out
}

func c18GenDefinedSet(r *rand.Rand, typ api.DefinedType, name string) *api.DefinedSet {
	ds := &api.DefinedSet{DefinedType: typ, Name: name}
	n := 1 + c18SmallLen(r, 3)
	seen := map[string]bool{}
	addL := func(s string) {
		if !seen[s] {
			seen[s] = true
			ds.List = append(ds.List, s)
		}
	}
	switch typ {
	case api.DefinedType_DEFINED_TYPE_PREFIX:
		v6 := c18Chance(r, 3)
		for i := 0; i < n; i++ {
			p := c18Prefix(r, v6)
			for p.Addr().Is4In6() {
				p = c18Prefix(r, v6)
			}
			if seen[p.String()] {
				continue
			}
			seen[p.String()] = true
			x := &api.Prefix{IpPrefix: p.String()}
			if c18Bool(r) {
				max := p.Addr().BitLen()
				lo := p.Bits() + r.IntN(max-p.Bits()+1)
				hi := lo + r.IntN(max-lo+1)
				if lo > 0 {
					x.MaskLengthMin, x.MaskLengthMax = uint32(lo), uint32(hi)
				}
			}
			ds.Prefixes = append(ds.Prefixes, x)
		}
	case api.DefinedType_DEFINED_TYPE_NEIGHBOR:
		for i := 0; i < n; i++ {
			if c18Bool(r) {
				addL(netip.PrefixFrom(c18Addr4(r), 32).String())
			} else {
				addL(c18Prefix4(r).String())
			}
		}
	case api.DefinedType_DEFINED_TYPE_AS_PATH:
		for i := 0; i < n; i++ {
			addL(c18Pick(r, "^65100_", "_65200_", "_65300$", "^65400$", "^(65001|65002)_", "_6550[0-9]_", "^[0-9]+_65010$", "^65000_65001_"))
		}
	case api.DefinedType_DEFINED_TYPE_COMMUNITY:
		for i := 0; i < n; i++ {
			addL(c18Pick(r, "^65000:100$", "^65000:200$", "65000:300", "^65[0-9]+:1$", "^100:.*$", "^(100|200):1$", "65100:.*", "^.*:666$"))
		}
	case api.DefinedType_DEFINED_TYPE_EXT_COMMUNITY:
		for i := 0; i < n; i++ {
			addL(c18Pick(r, "rt:^65000:100$", "rt:^65000:200$", "soo:^65000:300$", "rt:^10.0.0.1:5$", "rt:^100:.*$", "rt:65000:400", "soo:^4200000000:1$"))
		}
	case api.DefinedType_DEFINED_TYPE_LARGE_COMMUNITY:
		for i := 0; i < n; i++ {
			addL(c18Pick(r, "^65000:1:2$", "^65000:1:3$", "65000:2:2", "^65000:.*:1$", "^4200000000:0:0$", "^(1|2):1:1$"))
		}
	}
	return ds
}

var c18SetTypes = []api.DefinedType{api.DefinedType_DEFINED_TYPE_PREFIX, api.DefinedType_DEFINED_TYPE_NEIGHBOR, api.DefinedType_DEFINED_TYPE_AS_PATH,
	api.DefinedType_DEFINED_TYPE_COMMUNITY, api.DefinedType_DEFINED_TYPE_EXT_COMMUNITY, api.DefinedType_DEFINED_TYPE_LARGE_COMMUNITY}

// c18CheckDefinedSet adds ds, lists it back and compares (as a set of entries); it leaves ds defined.
func (x *c18Srv) checkDefinedSet(ds *api.DefinedSet, idx int) bool {
	rec := x.rec
	wit := func() any { return map[string]any{"case": idx, "request": c18JSON(ds)} }
	var err error
	if rec.Guard("c18:server:AddDefinedSet", wit, func() { err = x.s.AddDefinedSet(c18Ctx0, &api.AddDefinedSetRequest{DefinedSet: proto.Clone(ds).(*api.DefinedSet)}) }) {
		return false
	}
	if err != nil {
		rec.Count("defined_set_rejected:"+ds.DefinedType.String(), 1)
		rec.Count("defined_set_rejected_reason:"+c18Shorten(err.Error()), 1)
		return false
	}
	var got []*api.DefinedSet
	if rec.Guard("c18:server:ListDefinedSet", wit, func() {
		err = x.s.ListDefinedSet(c18Ctx0, &api.ListDefinedSetRequest{DefinedType: ds.DefinedType, Name: ds.Name}, func(d *api.DefinedSet) { got = append(got, d) })
	}) {
		return true
	}
	tn := strings.TrimPrefix(ds.DefinedType.String(), "DEFINED_TYPE_")
	if err != nil || len(got) != 1 {
		rec.Violation("c18:server:defined-set:list:"+tn, fmt.Sprintf("ListDefinedSet(%s, %s) after AddDefinedSet: %d sets, error %v", tn, ds.Name, len(got), err), wit())
		return true
	}
	rec.Eval()
	rec.Count("defined_set_readbacks", 1)
	rec.Count("defined_set:"+tn, 1)
	rec.Nontrivial(fmt.Sprintf("ds:%s:%d:%d", tn, len(ds.List), len(ds.Prefixes)))
	g := got[0]
	w := func() any {
		return map[string]any{"case": idx, "configured": c18JSON(ds), "read_back": c18JSON(g)}
	}
	if g.Name != ds.Name || g.DefinedType != ds.DefinedType {
		rec.Violation("c18:server:defined-set:identity:"+tn, "name / type differ", w())
	}
	if ds.DefinedType == api.DefinedType_DEFINED_TYPE_PREFIX {
		x.reportSubset("defined-set:PREFIX", "prefix set "+ds.Name, ds, g, map[string]bool{"DefinedSet.prefixes": true}, nil, idx)
		return true
	}
	if len(g.List) != len(ds.List) {
		rec.Violation("c18:server:defined-set:"+tn+":count", fmt.Sprintf("%d entries configured, %d read back", len(ds.List), len(g.List)), w())
		return true
	}
	left := append([]string{}, g.List...)
	for _, e := range ds.List {
		found := false
		for _, cand := range c18CanonEntry(ds.DefinedType, e) {
			for i, l := range left {
				if l == cand {
					left = append(left[:i], left[i+1:]...)
					found = true
					break
				}
			}
			if found {
				break
			}
		}
		if !found {
			rec.Violation("c18:server:defined-set:"+tn+":entry", fmt.Sprintf("entry %q configured, read back %q", e, g.List), w())
			return true
		}
	}
	return true
}

func (x *c18Srv) deleteDefinedSet(ds *api.DefinedSet) {
	x.s.DeleteDefinedSet(c18Ctx0, &api.DeleteDefinedSetRequest{DefinedSet: &api.DefinedSet{DefinedType: ds.DefinedType, Name: ds.Name}, All: true})
}

func (x *c18Srv) definedSetCase(c *c18SCtx) {
	typ := c18SetTypes[c.r.IntN(len(c18SetTypes))]
	ds := c18GenDefinedSet(c.r, typ, fmt.Sprintf("set%d", c.idx))
	x.rec.Mark(fmt.Sprintf("defined-set case %d %s", c.idx, typ), false)
	if x.checkDefinedSet(ds, c.idx) {
		x.deleteDefinedSet(ds)
	}
	if c.idx%499 == 7 {
		x.rec.Sample(map[string]any{"case": c.idx, "kind": "defined-set", "request": c18JSON(ds)})
	}
}

// fixed sets the statements refer to (created once per server)
var c18RefSets = map[api.DefinedType]string{
	api.DefinedType_DEFINED_TYPE_PREFIX: "ref-prefix", api.DefinedType_DEFINED_TYPE_NEIGHBOR: "ref-neighbor", api.DefinedType_DEFINED_TYPE_AS_PATH: "ref-aspath",
	api.DefinedType_DEFINED_TYPE_COMMUNITY: "ref-community", api.DefinedType_DEFINED_TYPE_EXT_COMMUNITY: "ref-extcommunity", api.DefinedType_DEFINED_TYPE_LARGE_COMMUNITY: "ref-largecommunity",
}

func (x *c18Srv) ensureRefSets() {
	r := rand.New(rand.NewPCG(1, 2))
	for _, typ := range c18SetTypes {
		ds := c18GenDefinedSet(r, typ, c18RefSets[typ])
		if err := x.s.AddDefinedSet(c18Ctx0, &api.AddDefinedSetRequest{DefinedSet: ds}); err != nil {
			x.t.Fatalf("c18: reference set %s: %v", ds.Name, err)
		}
	}
}

func c18GenStatement(r *rand.Rand, name string) *api.Statement {
	ms := func(typ api.DefinedType, restricted bool) *api.MatchSet {
		t := api.MatchSet_Type(1 + r.IntN(3))
		if restricted && t == api.MatchSet_TYPE_ALL {
			t = api.MatchSet_TYPE_INVERT
		}
		return &api.MatchSet{Type: t, Name: c18RefSets[typ]}
	}
	cs := &api.Conditions{}
	p := func() bool { return c18Chance(r, 3) }
	if p() {
		cs.PrefixSet = ms(api.DefinedType_DEFINED_TYPE_PREFIX, true)
	}
	if p() {
		cs.NeighborSet = ms(api.DefinedType_DEFINED_TYPE_NEIGHBOR, true)
	}
	if p() {
		cs.AsPathLength = &api.AsPathLength{Type: api.Comparison(1 + r.IntN(3)), Length: uint32(1 + r.IntN(50))}
	}
	if p() {
		cs.AsPathSet = ms(api.DefinedType_DEFINED_TYPE_AS_PATH, false)
	}
	if p() {
		cs.CommunitySet = ms(api.DefinedType_DEFINED_TYPE_COMMUNITY, false)
	}
	if p() {
		cs.ExtCommunitySet = ms(api.DefinedType_DEFINED_TYPE_EXT_COMMUNITY, false)
	}
	if p() {
		cs.LargeCommunitySet = ms(api.DefinedType_DEFINED_TYPE_LARGE_COMMUNITY, false)
	}
	if p() {
		cs.RpkiResult = api.ValidationState(2 + r.IntN(3)) // (NONE means "no RPKI condition": the same as unset)
	}
	if p() {
		cs.RouteType = api.Conditions_RouteType(1 + r.IntN(3))
	}
	if p() {
		for i := 1 + c18SmallLen(r, 2); i > 0; i-- {
			cs.NextHopInList = append(cs.NextHopInList, c18Pick(r, "192.0.2.1", "10.0.0.0/8", "2001:db8::1", "2001:db8::/32", "198.51.100.7"))
		}
	}
	if p() {
		perm := r.Perm(len(c18Families))
		for i := 1 + c18SmallLen(r, 2); i > 0; i-- {
			f := c18Families[perm[i]]
			cs.AfiSafiIn = append(cs.AfiSafiIn, apiutil.ToApiFamily(f.Afi(), f.Safi()))
		}
	}
	if p() {
		cs.CommunityCount = &api.CommunityCount{Type: api.Comparison(1 + r.IntN(3)), Count: uint32(1 + r.IntN(50))}
	}
	if p() {
		cs.Origin = api.OriginType(1 + r.IntN(3))
	}
	if p() {
		cs.LocalPrefEq = &api.LocalPrefEq{Value: 1 + c18U32(r)%1000000}
	}
	if p() {
		cs.MedEq = &api.MedEq{Value: 1 + c18U32(r)%1000000}
	}
	as := &api.Actions{RouteAction: api.RouteAction(r.IntN(3))}
	if p() {
		as.Community = &api.CommunityAction{Type: api.CommunityAction_Type(1 + r.IntN(3)), Communities: []string{c18Pick(r, "65000:100", "65001:1", "100:200")}}
		if c18Bool(r) {
			as.Community.Communities = append(as.Community.Communities, "65010:10")
		}
	}
	if p() {
		if c18Bool(r) {
			as.Med = &api.MedAction{Type: api.MedAction_TYPE_REPLACE, Value: int64(1 + r.IntN(100000))}
		} else {
			as.Med = &api.MedAction{Type: api.MedAction_TYPE_MOD, Value: int64(c18Pick(r, -1, 1)) * int64(1+r.IntN(100000))}
		}
	}
	if p() {
		if c18Bool(r) {
			as.AsPrepend = &api.AsPrependAction{Asn: 1 + c18U32(r)%4200000000, Repeat: uint32(1 + r.IntN(10))}
		} else {
			as.AsPrepend = &api.AsPrependAction{UseLeftMost: true, Repeat: uint32(1 + r.IntN(10))}
		}
	}
	if p() {
		as.ExtCommunity = &api.CommunityAction{Type: api.CommunityAction_Type(1 + r.IntN(3)), Communities: []string{c18Pick(r, "rt:65000:100", "soo:65001:1", "rt:10.0.0.1:5")}}
	}
	if p() {
		switch r.IntN(5) {
		case 0:
			as.Nexthop = &api.NexthopAction{Self: true}
		case 1:
			as.Nexthop = &api.NexthopAction{Unchanged: true}
		case 2:
			as.Nexthop = &api.NexthopAction{PeerAddress: true}
		case 3:
			as.Nexthop = &api.NexthopAction{Address: "2001:db8::9"}
		default:
			as.Nexthop = &api.NexthopAction{Address: "192.0.2.9"}
		}
	}
	if p() {
		as.LocalPref = &api.LocalPrefAction{Value: 1 + c18U32(r)%1000000}
	}
	if p() {
		as.LargeCommunity = &api.CommunityAction{Type: api.CommunityAction_Type(1 + r.IntN(3)), Communities: []string{c18Pick(r, "65000:1:2", "4200000000:0:1")}}
	}
	if p() {
		as.OriginAction = &api.OriginAction{Origin: api.OriginType(1 + r.IntN(3))}
	}
	return &api.Statement{Name: name, Conditions: cs, Actions: as}
}

func (x *c18Srv) statementCase(c *c18SCtx) {
	r, rec := c.r, x.rec
	rec.Mark(fmt.Sprintf("statement/policy case %d", c.idx), false)
	nst := 1 + c18SmallLen(r, 2)
	var sts []*api.Statement
	for i := 0; i < nst; i++ {
		sts = append(sts, c18GenStatement(r, fmt.Sprintf("st%d-%d", c.idx, i)))
	}
	pol := &api.Policy{Name: fmt.Sprintf("pol%d", c.idx), Statements: sts}
	wit := func() any { return map[string]any{"case": c.idx, "request": c18JSON(pol)} }
	viaStatements := c18Bool(r)
	var err error
	if viaStatements {
		// AddStatement each, read back with ListStatement, then a policy referring to them
		for _, st := range sts {
			if rec.Guard("c18:server:AddStatement", wit, func() { err = x.s.AddStatement(c18Ctx0, &api.AddStatementRequest{Statement: proto.Clone(st).(*api.Statement)}) }) {
				return
			}
			if err != nil {
				rec.Count("statement_rejected", 1)
				rec.Count("statement_rejected_reason:"+c18Shorten(err.Error()), 1)
				return
			}
			defer x.s.DeleteStatement(c18Ctx0, &api.DeleteStatementRequest{Statement: &api.Statement{Name: st.Name}, All: true})
			var got []*api.Statement
			if rec.Guard("c18:server:ListStatement", wit, func() {
				err = x.s.ListStatement(c18Ctx0, &api.ListStatementRequest{Name: st.Name}, func(s *api.Statement) { got = append(got, s) })
			}) {
				return
			}
			if err != nil || len(got) != 1 {
				rec.Violation("c18:server:statement:list", fmt.Sprintf("ListStatement(%s) after AddStatement: %d statements, error %v", st.Name, len(got), err), wit())
				return
			}
			rec.Eval()
			rec.Count("statement_readbacks", 1)
			rec.Nontrivial("st:" + c18Mask(st))
			x.reportSubset("statement", "statement "+st.Name+" (ListStatement)", st, got[0], nil, nil, c.idx)
		}
	}
	addPol := pol
	if viaStatements {
		addPol = &api.Policy{Name: pol.Name}
		for _, st := range sts {
			addPol.Statements = append(addPol.Statements, &api.Statement{Name: st.Name})
		}
	}
	if rec.Guard("c18:server:AddPolicy", wit, func() {
		err = x.s.AddPolicy(c18Ctx0, &api.AddPolicyRequest{Policy: proto.Clone(addPol).(*api.Policy), ReferExistingStatements: viaStatements})
	}) {
		return
	}
	if err != nil {
		rec.Count("policy_rejected", 1)
		rec.Count("policy_rejected_reason:"+c18Shorten(err.Error()), 1)
		return
	}
	defer x.s.DeletePolicy(c18Ctx0, &api.DeletePolicyRequest{Policy: &api.Policy{Name: pol.Name}, All: true, PreserveStatements: viaStatements})
	var got []*api.Policy
	if rec.Guard("c18:server:ListPolicy", wit, func() {
		err = x.s.ListPolicy(c18Ctx0, &api.ListPolicyRequest{Name: pol.Name}, func(p *api.Policy) { got = append(got, p) })
	}) {
		return
	}
	if err != nil || len(got) != 1 {
		rec.Violation("c18:server:policy:list", fmt.Sprintf("ListPolicy(%s) after AddPolicy: %d policies, error %v", pol.Name, len(got), err), wit())
		return
	}
	rec.Eval()
	rec.Count("policy_readbacks", 1)
	rec.Nontrivial("pol:" + c18Mask(pol))
	x.reportSubset("policy", "policy "+pol.Name+" (ListPolicy)", pol, got[0], nil, nil, c.idx)
	if c.idx%499 == 8 {
		rec.Sample(map[string]any{"case": c.idx, "kind": "policy", "request": c18JSON(pol)})
	}
}

func (x *c18Srv) assignmentCase(c *c18SCtx, policies []string) {
	r, rec := c.r, x.rec
	dir := api.PolicyDirection(1 + r.IntN(2))
	pa := &api.PolicyAssignment{Name: "global", Direction: dir, DefaultAction: api.RouteAction(r.IntN(3))}
	perm := r.Perm(len(policies))
	for i := c18SmallLen(r, len(policies)); i > 0; i-- {
		pa.Policies = append(pa.Policies, &api.Policy{Name: policies[perm[i-1]]})
	}
	rec.Mark(fmt.Sprintf("assignment case %d", c.idx), false)
	wit := func() any { return map[string]any{"case": c.idx, "request": c18JSON(pa)} }
	var err error
	if rec.Guard("c18:server:AddPolicyAssignment", wit, func() {
		err = x.s.AddPolicyAssignment(c18Ctx0, &api.AddPolicyAssignmentRequest{Assignment: proto.Clone(pa).(*api.PolicyAssignment)})
	}) {
		return
	}
	if err != nil {
		rec.Count("assignment_rejected", 1)
		rec.Count("assignment_rejected_reason:"+c18Shorten(err.Error()), 1)
		return
	}
	defer func() {
		x.s.DeletePolicyAssignment(c18Ctx0, &api.DeletePolicyAssignmentRequest{Assignment: &api.PolicyAssignment{Name: "global", Direction: dir}, All: true})
		// back to the default action of a fresh server
		x.s.SetPolicyAssignment(c18Ctx0, &api.SetPolicyAssignmentRequest{Assignment: &api.PolicyAssignment{Name: "global", Direction: dir, DefaultAction: api.RouteAction_ROUTE_ACTION_ACCEPT}})
	}()
	var got []*api.PolicyAssignment
	if rec.Guard("c18:server:ListPolicyAssignment", wit, func() {
		err = x.s.ListPolicyAssignment(c18Ctx0, &api.ListPolicyAssignmentRequest{Name: "global", Direction: dir}, func(a *api.PolicyAssignment) { got = append(got, a) })
	}) {
		return
	}
	if err != nil || len(got) != 1 {
		rec.Violation("c18:server:assignment:list", fmt.Sprintf("ListPolicyAssignment(global, %s): %d assignments, error %v", dir, len(got), err), wit())
		return
	}
	rec.Eval()
	rec.Count("assignment_readbacks", 1)
	rec.Nontrivial(fmt.Sprintf("pa:%s:%d:%d", dir, len(pa.Policies), pa.DefaultAction))
	// the listed policies carry their statements: compare names, order and the default
	want := proto.Clone(pa).(*api.PolicyAssignment)
	x.reportSubset("assignment", "global policy assignment", want, got[0], nil, nil, c.idx)
}

// c18RefPolicies creates a few policies (once per server) that peers and assignments refer to.
func (x *c18Srv) ensureRefPolicies() []string {
	r := rand.New(rand.NewPCG(3, 4))
	var names []string
	for i := 0; i < 3; i++ {
		p := &api.Policy{Name: fmt.Sprintf("ref-policy-%d", i), Statements: []*api.Statement{c18GenStatement(r, fmt.Sprintf("ref-st-%d", i))}}
		if err := x.s.AddPolicy(c18Ctx0, &api.AddPolicyRequest{Policy: p}); err != nil {
			x.t.Fatalf("c18: reference policy: %v", err)
		}
		names = append(names, p.Name)
	}
	return names
}

func TestVerifC18(t *testing.T) {
	rec := vlib.Open("C18")
	defer rec.Close()
	x := c18StartServer(t, rec)
	defer x.s.Stop()
	x.ensureRefSets()
	policies := x.ensureRefPolicies()
	total := vlib.Scale(3400, 102000)
	vlib.Cases(total, func(idx int) {
		c := &c18SCtx{r: vlib.CaseRand("c18srv", idx), idx: idx}
		switch idx % 17 {
		case 0, 1, 2, 3, 4, 5:
			x.pathCase(c)
		case 6, 7:
			x.peerCase(c, policies)
		case 8:
			x.peerGroupCase(c, policies)
		case 9:
			x.definedSetCase(c)
		case 10:
			x.statementCase(c)
		case 11:
			x.assignmentCase(c, policies)
		case 12, 13:
			x.definedSetSeqCase(c)
		case 14:
			if (idx/17)%2 == 0 {
				x.statementSeqCase(c)
			} else {
				x.policySeqCase(c)
			}
		case 15:
			x.assignmentSeqCase(c, policies)
		default:
			x.peerUpdateCase(c, policies)
		}
	})
}
