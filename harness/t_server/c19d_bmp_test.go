package server

// C19 daemon level, BMP part. The BMP client dials TCP, so this part runs in REAL time: a loopback
// listener plays the monitoring station, the speakers are simnet pipes (hold time 0). Nothing is
// decided by timing: the harness waits (bounded; a timeout ends INCONCLUSIVE) for deterministic
// barriers - a marker route per peer that has to show up in every configured view - and compares
// the accumulated station views with ListPath in a converge loop.

import (
	"bufio"
	"bytes"
	"context"
	"encoding/binary"
	"encoding/hex"
	"fmt"
	"math/rand/v2"
	"net"
	"net/netip"
	"sort"
	"strings"
	"sync"
	"testing"
	"time"

	"github.com/osrg/gobgp/v4/api"
	"github.com/osrg/gobgp/v4/internal/verif/vlib"
	"github.com/osrg/gobgp/v4/pkg/packet/bgp"
	"github.com/osrg/gobgp/v4/pkg/packet/bmp"
)

const c19dWait = 30 * time.Second

// ---------------------------------------------------------------- station

type c19dStation struct {
	ln    net.Listener
	mu    sync.Mutex
	data  []byte
	conns int
	eof   bool
	wg    sync.WaitGroup
}

func c19dNewStation() (*c19dStation, error) {
	ln, err := net.Listen("tcp", "127.0.0.1:0")
	if err != nil {
		return nil, err
	}
	st := &c19dStation{ln: ln}
	st.wg.Add(1)
	go func() {
		defer st.wg.Done()
		for {
			c, err := ln.Accept()
			if err != nil {
				return
			}
			st.mu.Lock()
			st.conns++
			first := st.conns == 1
			st.mu.Unlock()
			if !first {
				c.Close() // one station session per scenario
				continue
			}
			st.wg.Add(1)
			go func() {
				defer st.wg.Done()
				defer c.Close()
				buf := make([]byte, 65536)
				for {
					n, err := c.Read(buf)
					st.mu.Lock()
					st.data = append(st.data, buf[:n]...)
					if err != nil {
						st.eof = true
					}
					st.mu.Unlock()
					if err != nil {
						return
					}
				}
			}()
		}
	}()
	return st, nil
}

func (st *c19dStation) port() uint32 { return uint32(st.ln.Addr().(*net.TCPAddr).Port) }

func (st *c19dStation) snapshot() ([]byte, bool) {
	st.mu.Lock()
	defer st.mu.Unlock()
	return append([]byte{}, st.data...), st.eof
}

func (st *c19dStation) close() {
	st.ln.Close()
	// a connection still open (scenario aborted) ends when gobgp stops; do not wait for it
}

// c19dSplitBMP runs the package's SplitBMP on a real bufio.Scanner over the station's bytes.
func c19dSplitBMP(data []byte) (toks [][]byte, leftover int, err error) {
	sc := bufio.NewScanner(bytes.NewReader(data))
	sc.Buffer(make([]byte, 0, 1<<16), 1<<26)
	sc.Split(bmp.SplitBMP)
	used := 0
	for sc.Scan() {
		toks = append(toks, append([]byte{}, sc.Bytes()...))
		used += len(sc.Bytes())
	}
	return toks, len(data) - used, sc.Err()
}

// ---------------------------------------------------------------- decoded station state

type c19dBMPSess struct {
	up      bool
	addPath map[bgp.Family]bool // path ids travel peer -> gobgp (from the two OPENs of the Peer Up)
	ups     int
}

type c19dBMPDown struct {
	peer   string
	reason uint8
	notif  []byte // raw BGP NOTIFICATION following the reason (reasons 1 and 3)
	data   []byte // other trailing data
	tok    int
}

type c19dBMPStat struct {
	tok  int
	vals map[uint16]uint64
}

type c19dBMPState struct {
	ntok      int
	initTok   int
	termTok   int
	termInfo  string
	sess      map[string]*c19dBMPSess
	pre, post map[string]map[string]string
	loc       map[string]string
	tainted   map[string]bool // "pre|addr", "post|addr", "loc": decoding finding, set comparison skipped
	locUps    int
	locDowns  int
	locOpt    *bgp.MarshallingOption
	downs     []c19dBMPDown
	stats     map[string]c19dBMPStat
	rm        map[string]int // RM messages per view
	ops       map[string]*[]c19dOp // per view (taint key): the announce/withdraw operations in stream order
	routeMsgs int            // RM messages that carry at least one route
}

type c19dBMP struct {
	c19dCase
	t        *testing.T
	r        *rand.Rand
	n        *simNet
	gen      *c19dGen
	st       *c19dStation
	globalAS uint32
	policy   api.AddBmpRequest_MonitoringPolicy
	peers    []*c19dPeer
	loopPfx  map[string]map[string]bool // peer -> "fam/prefix": an AS-loop version was announced
	reported map[string]bool
	late     bool
	downKind string
	streamBroken bool // the byte stream stopped framing / parsing: reported as a violation, the scenario ends there
	evaluated    bool
	counting bool // counters are taken from the last (complete) decoding of a scenario only
	markerNo int
	sysName  string
	routeRM  int
}

func (h *c19dBMP) viol(tok int, key, what string, extra map[string]any) {
	k := fmt.Sprintf("%s@%d", key, tok)
	if h.reported[k] {
		return
	}
	h.reported[k] = true
	if strings.HasPrefix(key, "c19d:bmp:stream:") || strings.HasSuffix(key, ":parse-error") || strings.HasSuffix(key, ":update-parse-error") || strings.HasSuffix(key, ":length-mismatch") {
		h.streamBroken = true
	}
	if extra == nil {
		extra = map[string]any{}
	}
	extra["bmp_message_index"] = tok
	h.rec.Violation(key, what, h.witness(extra))
}

func (h *c19dBMP) count(name string) {
	if h.counting {
		h.rec.Count(name, 1)
	}
}

func (h *c19dBMP) wantPre() bool {
	return h.policy == api.AddBmpRequest_MONITORING_POLICY_PRE || h.policy == api.AddBmpRequest_MONITORING_POLICY_ALL
}
func (h *c19dBMP) wantPost() bool {
	return h.policy == api.AddBmpRequest_MONITORING_POLICY_POST || h.policy == api.AddBmpRequest_MONITORING_POLICY_ALL
}
func (h *c19dBMP) wantLoc() bool {
	return h.policy == api.AddBmpRequest_MONITORING_POLICY_LOCAL || h.policy == api.AddBmpRequest_MONITORING_POLICY_ALL
}

func (h *c19dBMP) peerByAddr(a string) *c19dPeer {
	for _, p := range h.peers {
		if p.conf.Addr == a {
			return p
		}
	}
	return nil
}

var c19dBMPTypeNames = map[uint8]string{bmp.BMP_MSG_ROUTE_MONITORING: "route-monitoring", bmp.BMP_MSG_STATISTICS_REPORT: "statistics-report",
	bmp.BMP_MSG_PEER_DOWN_NOTIFICATION: "peer-down", bmp.BMP_MSG_PEER_UP_NOTIFICATION: "peer-up", bmp.BMP_MSG_INITIATION: "initiation",
	bmp.BMP_MSG_TERMINATION: "termination", bmp.BMP_MSG_ROUTE_MIRRORING: "route-mirroring"}

func c19dCapsAddPath(open *bgp.BGPOpen) map[bgp.Family]bgp.BGPAddPathMode {
	out := map[bgp.Family]bgp.BGPAddPathMode{}
	for _, p := range open.OptParams {
		if c, ok := p.(*bgp.OptionParameterCapability); ok {
			for _, cc := range c.Capability {
				if v, ok := cc.(*bgp.CapAddPath); ok {
					for _, tp := range v.Tuples {
						out[tp.Family] = tp.Mode
					}
				}
			}
		}
	}
	return out
}

// applyUpdate applies one decoded UPDATE to a view; it returns the number of routes touched.
type c19dOp struct {
	add        bool
	key, canon string
}

func (o c19dOp) String() string {
	if o.add {
		return "+" + o.key
	}
	return "-" + o.key
}

func c19dPfxOf(k string) string {
	if j := strings.LastIndex(k, "#"); j >= 0 {
		return k[:j]
	}
	return k
}

func c19dApplyUpdate(view map[string]string, m *bgp.BGPMessage, ops ...*[]c19dOp) int {
	u, ok := m.Body.(*bgp.BGPUpdate)
	if !ok {
		return 0
	}
	n := 0
	canon := c19dCanon(u.PathAttributes)
	del := func(k string) {
		delete(view, k)
		n++
		for _, o := range ops {
			*o = append(*o, c19dOp{false, k, ""})
		}
	}
	set := func(k string) {
		view[k] = canon
		n++
		for _, o := range ops {
			*o = append(*o, c19dOp{true, k, canon})
		}
	}
	for _, w := range u.WithdrawnRoutes {
		del(fmt.Sprintf("%s/%s#%d", bgp.RF_IPv4_UC, w.NLRI, w.ID))
	}
	for _, a := range u.PathAttributes {
		if v, ok := a.(*bgp.PathAttributeMpUnreachNLRI); ok {
			for _, w := range v.Value {
				del(fmt.Sprintf("%s/%s#%d", bgp.NewFamily(v.AFI, v.SAFI), w.NLRI, w.ID))
			}
		}
	}
	for _, nl := range u.NLRI {
		set(fmt.Sprintf("%s/%s#%d", bgp.RF_IPv4_UC, nl.NLRI, nl.ID))
	}
	for _, a := range u.PathAttributes {
		if v, ok := a.(*bgp.PathAttributeMpReachNLRI); ok {
			for _, nl := range v.Value {
				set(fmt.Sprintf("%s/%s#%d", bgp.NewFamily(v.AFI, v.SAFI), nl.NLRI, nl.ID))
			}
		}
	}
	return n
}

// decode walks the station's byte stream from the start and rebuilds the monitored state.
// Findings about individual messages are reported (once per message) on the way.
func (h *c19dBMP) decode(data []byte, final bool) *c19dBMPState {
	s := &c19dBMPState{initTok: -1, termTok: -1, sess: map[string]*c19dBMPSess{}, pre: map[string]map[string]string{}, post: map[string]map[string]string{},
		loc: map[string]string{}, tainted: map[string]bool{}, stats: map[string]c19dBMPStat{}, rm: map[string]int{}, ops: map[string]*[]c19dOp{}}
	toks, left, err := c19dSplitBMP(data)
	if err != nil {
		h.viol(len(toks), "c19d:bmp:stream:split-error", "SplitBMP fails on the stream gobgp wrote: "+err.Error(), nil)
	}
	if final && left != 0 {
		h.viol(len(toks), "c19d:bmp:stream:trailing-bytes", fmt.Sprintf("%d bytes at the end of the closed stream are not a BMP message", left), nil)
	}
	s.ntok = len(toks)
	for i, tok := range toks {
		if len(tok) < bmp.BMP_HEADER_SIZE {
			continue
		}
		typ := tok[5]
		name := c19dBMPTypeNames[typ]
		if name == "" {
			name = fmt.Sprintf("type%d", typ)
		}
		wit := func() map[string]any { return map[string]any{"message": hex.EncodeToString(tok), "type": name} }
		if s.termTok >= 0 {
			h.viol(i, "c19d:bmp:termination:not-last", "a "+name+" message follows the Termination message", wit())
		}
		if i == 0 && typ != bmp.BMP_MSG_INITIATION {
			h.viol(i, "c19d:bmp:initiation:not-first", "the first message of the session is "+name, wit())
		}
		hasPeerHdr := typ != bmp.BMP_MSG_INITIATION && typ != bmp.BMP_MSG_TERMINATION
		var ph bmp.BMPPeerHeader
		if hasPeerHdr {
			if len(tok) < bmp.BMP_HEADER_SIZE+bmp.BMP_PEER_HEADER_SIZE {
				h.viol(i, "c19d:bmp:"+name+":short", "message shorter than the per-peer header", wit())
				continue
			}
			ph.DecodeFromBytes(tok[bmp.BMP_HEADER_SIZE:])
		}
		body := tok[bmp.BMP_HEADER_SIZE:]
		if hasPeerHdr {
			body = body[bmp.BMP_PEER_HEADER_SIZE:]
		}
		// the options a station derives for this message (RFC 7854 4.2: A flag; capabilities of the Peer Up)
		optFor := func(p bmp.BMPPeerHeader) []*bgp.MarshallingOption {
			if p.PeerType == bmp.BMP_PEER_TYPE_LOCAL_RIB {
				if s.locOpt != nil {
					return []*bgp.MarshallingOption{s.locOpt}
				}
				return nil
			}
			o := &bgp.MarshallingOption{Use2ByteAS: p.Flags&bmp.BMP_PEER_FLAG_TWO_AS != 0, AddPath: map[bgp.Family]bgp.BGPAddPathMode{}}
			if ss := s.sess[p.PeerAddress.String()]; ss != nil {
				for f, on := range ss.addPath {
					if on {
						o.AddPath[f] = bgp.BGP_ADD_PATH_RECEIVE
					}
				}
			}
			return []*bgp.MarshallingOption{o}
		}
		msg, perr := bmp.ParseBMPMessageWithOptions(tok, optFor)
		h.count("bmp_msg_"+name)
		if perr != nil && typ != bmp.BMP_MSG_ROUTE_MONITORING {
			h.viol(i, "c19d:bmp:"+name+":parse-error", "ParseBMPMessage fails on a message gobgp wrote: "+perr.Error(), wit())
			continue
		}
		if msg != nil && int(msg.Header.Length) != len(tok) {
			h.viol(i, "c19d:bmp:"+name+":length", "common header length differs from the token length", wit())
		}
		switch typ {
		case bmp.BMP_MSG_INITIATION:
			if s.initTok >= 0 {
				h.viol(i, "c19d:bmp:initiation:repeated", "second Initiation message in one session", wit())
			}
			s.initTok = i
			got := ""
			for _, tlv := range msg.Body.(*bmp.BMPInitiation).Info {
				if sv, ok := tlv.(*bmp.BMPInfoTLVString); ok && sv.Type == bmp.BMP_INIT_TLV_TYPE_SYS_NAME {
					got = sv.Value
				}
			}
			if got != h.sysName {
				h.viol(i, "c19d:bmp:initiation:sys-name", fmt.Sprintf("sysName TLV %q, configured %q", got, h.sysName), wit())
			}
		case bmp.BMP_MSG_TERMINATION:
			s.termTok = i
			for _, tlv := range msg.Body.(*bmp.BMPTermination).Info {
				if v, ok := tlv.(*bmp.BMPTermTLV16); ok && v.Type == bmp.BMP_TERM_TLV_TYPE_REASON {
					s.termInfo = fmt.Sprintf("reason=%d", v.Value)
				}
			}
		case bmp.BMP_MSG_PEER_UP_NOTIFICATION:
			h.onPeerUp(s, i, tok, ph, body, msg, wit)
		case bmp.BMP_MSG_PEER_DOWN_NOTIFICATION:
			h.onPeerDown(s, i, ph, body, msg, wit)
		case bmp.BMP_MSG_STATISTICS_REPORT:
			if !h.checkPeerHeader(s, i, name, ph, wit) {
				continue
			}
			vals := map[uint16]uint64{}
			for _, tlv := range msg.Body.(*bmp.BMPStatisticsReport).Stats {
				switch v := tlv.(type) {
				case *bmp.BMPStatsTLV32:
					vals[v.Type] = uint64(v.Value)
				case *bmp.BMPStatsTLV64:
					vals[v.Type] = v.Value
				}
			}
			s.stats[ph.PeerAddress.String()] = c19dBMPStat{tok: i, vals: vals}
		case bmp.BMP_MSG_ROUTE_MONITORING:
			h.onRouteMonitoring(s, i, ph, body, msg, perr, optFor, wit)
		default:
			h.viol(i, "c19d:bmp:"+name+":unexpected", "message type that was not configured", wit())
		}
	}
	return s
}

// checkPeerHeader: a per-peer header of a global-instance peer names a neighbour with an
// announced session, with its AS, BGP id and address family flag.
func (h *c19dBMP) checkPeerHeader(s *c19dBMPState, i int, name string, ph bmp.BMPPeerHeader, wit func() map[string]any) bool {
	addr := ph.PeerAddress.String()
	p := h.peerByAddr(addr)
	if name == "route-monitoring" && ph.PeerType == bmp.BMP_PEER_TYPE_GLOBAL && p == nil && ph.PeerAS == 0 && ph.PeerAddress.IsUnspecified() {
		view := "pre-policy"
		if ph.Flags&bmp.BMP_PEER_FLAG_POST_POLICY != 0 {
			view = "post-policy"
		}
		h.viol(i, "c19d:bmp:route-monitoring:"+view+":locally-originated-route:peer-without-peer-up",
			"route monitoring message under the per-peer header address 0.0.0.0 / AS 0 / BGP id 0.0.0.0 (the source of locally originated routes): no Peer Up ever announced such a peer", wit())
		return false
	}
	if ph.PeerType != bmp.BMP_PEER_TYPE_GLOBAL || p == nil {
		h.viol(i, "c19d:bmp:"+name+":peer-header:unknown-peer", fmt.Sprintf("per-peer header names peer type %d address %s", ph.PeerType, addr), wit())
		return false
	}
	h.count("bmp_peer_headers_checked")
	if ph.PeerAS != p.conf.AS {
		h.viol(i, "c19d:bmp:"+name+":peer-header:peer-as", fmt.Sprintf("peer AS %d, the peer is AS %d", ph.PeerAS, p.conf.AS), wit())
	}
	if ph.PeerBGPID.String() != p.conf.ID {
		k := "c19d:bmp:" + name + ":peer-header:bgp-id"
		if name == "peer-down" {
			k += ":" + h.downKind
		}
		h.viol(i, k, fmt.Sprintf("peer BGP id %s, the peer's router id is %s", ph.PeerBGPID, p.conf.ID), wit())
	}
	if (ph.Flags&bmp.BMP_PEER_FLAG_IPV6 != 0) != netip.MustParseAddr(p.conf.Addr).Is6() {
		h.viol(i, "c19d:bmp:"+name+":peer-header:v-flag", fmt.Sprintf("V flag %v for peer address %s", ph.Flags&bmp.BMP_PEER_FLAG_IPV6 != 0, addr), wit())
	}
	if ph.PeerDistinguisher != 0 {
		h.viol(i, "c19d:bmp:"+name+":peer-header:distinguisher", "non-zero peer distinguisher for a global instance peer", wit())
	}
	if ph.Flags&bmp.BMP_PEER_FLAG_ADJ_RIB_TYP != 0 {
		h.viol(i, "c19d:bmp:"+name+":peer-header:o-flag", "Adj-RIB-Out flag set; gobgp has no Adj-RIB-Out monitoring", wit())
	}
	return true
}

func (h *c19dBMP) onPeerUp(s *c19dBMPState, i int, tok []byte, ph bmp.BMPPeerHeader, body []byte, msg *bmp.BMPMessage, wit func() map[string]any) {
	pu := msg.Body.(*bmp.BMPPeerUpNotification)
	// raw OPENs
	var sentRaw, recvRaw []byte
	if len(body) >= 20 {
		ms := c19dSplitBGP(body[20:])
		if len(ms) >= 2 {
			sentRaw, recvRaw = ms[0], ms[1]
		}
	}
	if ph.PeerType == bmp.BMP_PEER_TYPE_LOCAL_RIB {
		s.locUps++
		h.count("bmp_peer_up_loc_rib")
		if !h.wantLoc() {
			h.viol(i, "c19d:bmp:peer-up:loc-rib:unconfigured", "Loc-RIB instance Peer Up although local-rib monitoring is not configured", wit())
		}
		if ph.PeerAS != h.globalAS || ph.PeerBGPID.String() != c19dRouterID || ph.PeerAddress.IsValid() && !ph.PeerAddress.IsUnspecified() {
			h.viol(i, "c19d:bmp:peer-up:loc-rib:peer-header", fmt.Sprintf("RFC 9069 5.1: address must be zero, AS %d and BGP id %s the router's; got address %v AS %d id %s", h.globalAS, c19dRouterID, ph.PeerAddress, ph.PeerAS, ph.PeerBGPID), wit())
		}
		hasName := false
		for _, tlv := range pu.Info {
			if sv, ok := tlv.(*bmp.BMPInfoTLVString); ok && sv.Type == bmp.BMP_INIT_TLV_TYPE_VRF_TABLE_NAME && sv.Value != "" {
				hasName = true
			}
		}
		if !hasName {
			h.viol(i, "c19d:bmp:peer-up:loc-rib:table-name", "RFC 9069 5.2.1: the VRF/Table Name TLV is missing", wit())
		}
		// capabilities that describe the encoding of the Loc-RIB route monitoring messages
		o := &bgp.MarshallingOption{AddPath: map[bgp.Family]bgp.BGPAddPathMode{}}
		if open, ok := pu.SentOpenMsg.Body.(*bgp.BGPOpen); ok {
			for f, m := range c19dCapsAddPath(open) {
				if m&bgp.BGP_ADD_PATH_SEND != 0 {
					o.AddPath[f] = bgp.BGP_ADD_PATH_RECEIVE
				}
			}
		}
		s.locOpt = o
		return
	}
	if !h.checkPeerHeader(s, i, "peer-up", ph, wit) {
		return
	}
	addr := ph.PeerAddress.String()
	p := h.peerByAddr(addr)
	ss := s.sess[addr]
	if ss == nil {
		ss = &c19dBMPSess{}
		s.sess[addr] = ss
	}
	if ss.up {
		h.viol(i, "c19d:bmp:peer-up:repeated", "second Peer Up for "+addr+" without a Peer Down in between", wit())
	}
	ss.up = true
	ss.ups++
	s.pre[addr], s.post[addr] = map[string]string{}, map[string]string{}
	h.count("bmp_peer_up_checked")
	if ph.Flags&bmp.BMP_PEER_FLAG_POST_POLICY != 0 {
		h.viol(i, "c19d:bmp:peer-up:peer-header:l-flag", "L flag set in a Peer Up", wit())
	}
	if pu.LocalAddress.String() != p.conf.Local {
		cls := "local-address-not-configured"
		if p.conf.CfgLocal {
			cls = "local-address-configured"
		}
		h.viol(i, "c19d:bmp:peer-up:local-address:"+cls, fmt.Sprintf("Peer Up local address %v, the session's local address is %s", pu.LocalAddress, p.conf.Local), wit())
	}
	if pu.LocalPort != 179 || pu.RemotePort != c19dPeerPort {
		h.viol(i, "c19d:bmp:peer-up:ports", fmt.Sprintf("Peer Up ports local %d remote %d, the session uses 179 and %d", pu.LocalPort, pu.RemotePort, c19dPeerPort), wit())
	}
	// the OPENs are the ones of the session that is up now: the latest connection of the speaker
	gOpen, sOpen := p.openBytes()
	if !bytes.Equal(sentRaw, gOpen) {
		w := wit()
		w["peer_up_sent_open"], w["wire_open_from_gobgp"] = hex.EncodeToString(sentRaw), hex.EncodeToString(gOpen)
		h.viol(i, "c19d:bmp:peer-up:sent-open", "the Sent OPEN of the Peer Up differs from the OPEN gobgp wrote on the session", w)
	}
	if !bytes.Equal(recvRaw, sOpen) {
		w := wit()
		w["peer_up_received_open"], w["wire_open_from_peer"] = hex.EncodeToString(recvRaw), hex.EncodeToString(sOpen)
		h.viol(i, "c19d:bmp:peer-up:received-open", "the Received OPEN of the Peer Up differs from the OPEN the peer wrote on the session", w)
	}
	ss.addPath = map[bgp.Family]bool{}
	so, ok1 := pu.SentOpenMsg.Body.(*bgp.BGPOpen)
	ro, ok2 := pu.ReceivedOpenMsg.Body.(*bgp.BGPOpen)
	if ok1 && ok2 {
		mine, theirs := c19dCapsAddPath(so), c19dCapsAddPath(ro)
		for f, m := range mine {
			if m&bgp.BGP_ADD_PATH_RECEIVE != 0 && theirs[f]&bgp.BGP_ADD_PATH_SEND != 0 {
				ss.addPath[f] = true
			}
		}
	}
}

func (h *c19dBMP) onPeerDown(s *c19dBMPState, i int, ph bmp.BMPPeerHeader, body []byte, msg *bmp.BMPMessage, wit func() map[string]any) {
	pd := msg.Body.(*bmp.BMPPeerDownNotification)
	if ph.PeerType == bmp.BMP_PEER_TYPE_LOCAL_RIB {
		s.locDowns++
		h.count("bmp_peer_down_loc_rib")
		if pd.Reason != bmp.BMP_PEER_DOWN_REASON_TLV_FOLLOWS {
			h.viol(i, "c19d:bmp:peer-down:loc-rib:reason", fmt.Sprintf("RFC 9069 5.3: reason must be 6, got %d", pd.Reason), wit())
		}
		return
	}
	if !h.checkPeerHeader(s, i, "peer-down", ph, wit) {
		return
	}
	addr := ph.PeerAddress.String()
	ss := s.sess[addr]
	if ss == nil || !ss.up {
		h.viol(i, "c19d:bmp:peer-down:without-peer-up", "Peer Down for "+addr+" whose session was not announced with a Peer Up", wit())
	} else {
		ss.up = false
	}
	delete(s.pre, addr)
	delete(s.post, addr)
	delete(s.tainted, "pre|"+addr)
	delete(s.tainted, "post|"+addr)
	d := c19dBMPDown{peer: addr, reason: pd.Reason, tok: i}
	if len(body) > 1 {
		switch pd.Reason {
		case bmp.BMP_PEER_DOWN_REASON_LOCAL_BGP_NOTIFICATION, bmp.BMP_PEER_DOWN_REASON_REMOTE_BGP_NOTIFICATION:
			d.notif = append([]byte{}, body[1:]...)
		default:
			d.data = append([]byte{}, body[1:]...)
		}
	}
	s.downs = append(s.downs, d)
	h.count(fmt.Sprintf("bmp_peer_down_reason_%d", pd.Reason))
}

func (h *c19dBMP) onRouteMonitoring(s *c19dBMPState, i int, ph bmp.BMPPeerHeader, body []byte, msg *bmp.BMPMessage, perr error,
	optFor func(bmp.BMPPeerHeader) []*bgp.MarshallingOption, wit func() map[string]any) {
	var view map[string]string
	var vname, taintKey, sessCls string
	addr := ph.PeerAddress.String()
	switch {
	case ph.PeerType == bmp.BMP_PEER_TYPE_LOCAL_RIB:
		vname, taintKey, view = "loc-rib", "loc", s.loc
		if !h.wantLoc() {
			h.viol(i, "c19d:bmp:route-monitoring:unconfigured-view:loc-rib", "Loc-RIB route monitoring although local-rib is not configured", wit())
		}
		if s.locUps == 0 {
			h.viol(i, "c19d:bmp:route-monitoring:loc-rib:before-peer-up", "Loc-RIB route monitoring before the Loc-RIB instance Peer Up", wit())
		}
		if ph.PeerAS != h.globalAS || ph.PeerBGPID.String() != c19dRouterID || ph.Flags&bmp.BMP_PEER_FLAG_IPV6 != 0 {
			h.viol(i, "c19d:bmp:route-monitoring:loc-rib:peer-header", fmt.Sprintf("Loc-RIB per-peer header: AS %d id %s flags %#x", ph.PeerAS, ph.PeerBGPID, ph.Flags), wit())
		}
		sessCls = "loc-rib"
	default:
		if !h.checkPeerHeader(s, i, "route-monitoring", ph, wit) {
			return
		}
		ss := s.sess[addr]
		if ss == nil || !ss.up {
			h.viol(i, "c19d:bmp:route-monitoring:without-peer-up", "route monitoring for "+addr+" whose session is not announced as up", wit())
			return
		}
		if ph.Flags&bmp.BMP_PEER_FLAG_POST_POLICY != 0 {
			vname, taintKey, view = "post-policy", "post|"+addr, s.post[addr]
			if !h.wantPost() {
				h.viol(i, "c19d:bmp:route-monitoring:unconfigured-view:post-policy", "post-policy route monitoring although it is not configured", wit())
			}
		} else {
			vname, taintKey, view = "pre-policy", "pre|"+addr, s.pre[addr]
			if !h.wantPre() {
				h.viol(i, "c19d:bmp:route-monitoring:unconfigured-view:pre-policy", "pre-policy route monitoring although it is not configured", wit())
			}
		}
		sessCls = "plain-session"
		for _, on := range ss.addPath {
			if on {
				sessCls = "addpath-session"
			}
		}
	}
	s.rm[vname]++
	h.count("bmp_rm_"+vname)
	var upd *bgp.BGPMessage
	if perr == nil && msg != nil {
		upd = msg.Body.(*bmp.BMPRouteMonitoring).BGPUpdate
	}
	if upd == nil {
		// the capabilities of the Peer Up do not describe these bytes; would they parse without path ids?
		opts := optFor(ph)
		alt := &bgp.MarshallingOption{}
		if len(opts) > 0 && opts[0] != nil {
			alt.Use2ByteAS = opts[0].Use2ByteAS
		}
		if m2, err2 := bgp.ParseBGPMessage(body, alt); err2 == nil && sessCls != "plain-session" {
			h.viol(i, "c19d:bmp:route-monitoring:"+vname+":"+sessCls+":path-ids-missing",
				"the UPDATE does not parse with the ADD-PATH capability the Peer Up announces for this peer ("+fmt.Sprint(perr)+"); it parses when no path identifiers are assumed", wit())
			s.tainted[taintKey] = true
			if c19dApplyUpdate(map[string]string{}, m2) > 0 {
				s.routeMsgs++
			}
		} else {
			h.viol(i, "c19d:bmp:route-monitoring:"+vname+":"+sessCls+":update-parse-error", "the UPDATE of a route monitoring message does not parse: "+fmt.Sprint(perr), wit())
			s.tainted[taintKey] = true
		}
		return
	}
	if upd.Header.Type != bgp.BGP_MSG_UPDATE {
		h.viol(i, "c19d:bmp:route-monitoring:not-an-update", fmt.Sprintf("BGP message type %d inside a route monitoring message", upd.Header.Type), wit())
		return
	}
	if view == nil {
		return
	}
	if s.ops[taintKey] == nil {
		s.ops[taintKey] = &[]c19dOp{}
	}
	if c19dApplyUpdate(view, upd, s.ops[taintKey]) > 0 {
		s.routeMsgs++
	}
}

// ---------------------------------------------------------------- comparisons

func c19dMapDiff(got, want map[string]string) (missing, extra, differ []string) {
	for k, w := range want {
		g, ok := got[k]
		if !ok {
			missing = append(missing, k)
		} else if g != w {
			differ = append(differ, k)
		}
	}
	for k := range got {
		if _, ok := want[k]; !ok {
			extra = append(extra, k)
		}
	}
	sort.Strings(missing)
	sort.Strings(extra)
	sort.Strings(differ)
	return
}

type c19dViewDiff struct {
	key, what string
	wit       map[string]any
}

// compareViews compares every configured view of the decoded station state with the API.
func (h *c19dBMP) compareViews(s *c19dBMPState) ([]c19dViewDiff, int) {
	var out []c19dViewDiff
	compared := 0
	fams := []bgp.Family{bgp.RF_IPv4_UC, bgp.RF_IPv6_UC}
	global, err := c19dListPath(h.n, api.TableType_TABLE_TYPE_GLOBAL, "", fams, false)
	if err != nil {
		h.t.Fatalf("ListPath global: %v", err)
	}
	mk := func(view, peer string, got, want map[string]string, sessCls string) {
		compared += len(want)
		opsKey := map[string]string{"pre-policy": "pre|" + peer, "post-policy": "post|" + peer, "loc-rib": "loc"}[view]
		missing, extra, differ := c19dMapDiff(got, want)
		if len(missing)+len(extra)+len(differ) == 0 {
			return
		}
		var cls []string
		loopOnly := true
		for _, k := range append(append(append([]string{}, missing...), extra...), differ...) {
			pk := k
			if j := strings.LastIndex(pk, "#"); j >= 0 {
				pk = pk[:j]
			}
			if !h.loopPfx[peer][pk] {
				loopOnly = false
			}
		}
		if len(missing) > 0 {
			cls = append(cls, "route-missing")
		}
		if len(extra) > 0 {
			cls = append(cls, "stale-or-extra-route")
		}
		if len(differ) > 0 {
			cls = append(cls, "attributes:"+c19dDiffClass(got[differ[0]], want[differ[0]]))
		}
		key := "c19d:bmp:route-monitoring:" + view + ":" + sessCls + ":view-differs:" + strings.Join(cls, "+")
		if h.late && view != "loc-rib" {
			key += ":station-added-late"
			if sessCls == "addpath-session" {
				// one root cause (initial dump regenerated without path identifiers, decoded with them): one key
				key = "c19d:bmp:route-monitoring:" + view + ":addpath-session:view-differs:station-added-late"
			}
		}
		if loopOnly && view == "pre-policy" {
			key = "c19d:bmp:route-monitoring:" + view + ":" + sessCls + ":view-differs:as-loop-route"
		}
		w := map[string]any{"peer": peer, "missing_at_station": missing, "only_at_station": extra, "attributes_differ": differ}
		if len(differ) > 0 {
			w["station"], w["api"] = got[differ[0]], want[differ[0]]
		}
		pfxOf := c19dPfxOf
		bad := map[string]bool{}
		for _, k := range append(append(append([]string{}, missing...), extra...), differ...) {
			bad[pfxOf(k)] = true
		}
		if o := s.ops[opsKey]; o != nil {
			var hist []string
			for _, op := range *o {
				if bad[pfxOf(op.key)] {
					hist = append(hist, op.String())
				}
			}
			w["station_operations_on_these_prefixes"] = hist
		}
		var tbl []string
		for _, a := range global {
			if bad[fmt.Sprintf("%s/%s", a.Family, a.Prefix)] {
				tbl = append(tbl, fmt.Sprintf("%s/%s src=%s remote-id=%d local-id=%d best=%v", a.Family, a.Prefix, a.Peer, a.Remote, a.Local, a.Best))
			}
		}
		w["global_table_paths_of_these_prefixes"] = tbl
		out = append(out, c19dViewDiff{key, fmt.Sprintf("the %s view the station accumulated for %s differs from the API's", view, peer), w})
	}
	for _, p := range h.peers {
		addr := p.conf.Addr
		ss := s.sess[addr]
		if ss == nil || !ss.up || !p.up {
			continue
		}
		sessCls := "plain-session"
		if p.conf.APRecv {
			sessCls = "addpath-session"
		}
		if h.wantPre() && !s.tainted["pre|"+addr] {
			adj, err := c19dListPath(h.n, api.TableType_TABLE_TYPE_ADJ_IN, addr, p.conf.families(), false)
			if err != nil {
				h.t.Fatalf("ListPath adj-in %s: %v", addr, err)
			}
			want := map[string]string{}
			for _, a := range adj {
				id := uint32(0)
				if p.conf.APRecv {
					id = a.Remote
				}
				want[fmt.Sprintf("%s/%s#%d", a.Family, a.Prefix, id)] = a.Canon
			}
			mk("pre-policy", addr, s.pre[addr], want, sessCls)
		}
		if h.wantPost() && !s.tainted["post|"+addr] {
			want := map[string]string{}
			for _, a := range global {
				if a.Peer != addr {
					continue
				}
				id := uint32(0)
				if p.conf.APRecv {
					id = a.Remote
				}
				want[fmt.Sprintf("%s/%s#%d", a.Family, a.Prefix, id)] = a.Canon
			}
			mk("post-policy", addr, s.post[addr], want, sessCls)
		}
	}
	if h.wantLoc() && !s.tainted["loc"] {
		// level 1, the semantics gobgp implements: per prefix the last operation wins, whatever
		// the path identifier - that must be the best path of the destination
		last := map[string]string{}
		if o := s.ops["loc"]; o != nil {
			for _, op := range *o {
				if op.add {
					last[c19dPfxOf(op.key)] = op.canon
				} else {
					delete(last, c19dPfxOf(op.key))
				}
			}
		}
		want1, want2 := map[string]string{}, map[string]string{}
		for _, a := range global {
			if a.Best {
				want1[fmt.Sprintf("%s/%s", a.Family, a.Prefix)] = a.Canon
				want2[fmt.Sprintf("%s/%s#%d", a.Family, a.Prefix, a.Local)] = a.Canon
			}
		}
		n0 := len(out)
		mk("loc-rib", "loc-rib", last, want1, "per-prefix")
		if len(out) == n0 {
			// level 2, what a station does with the ADD-PATH capability of the Loc-RIB Peer Up
			// (RFC 7911): routes are keyed by (prefix, path identifier)
			// The identifier itself is an opaque handle (two equal paths may swap the best position
			// silently): what must hold is one route per destination that has a best path, none otherwise.
			missing, extra, differ := c19dMapDiff(s.loc, want2)
			perPfx := map[string]int{}
			for k := range s.loc {
				perPfx[c19dPfxOf(k)]++
			}
			consistent := len(perPfx) == len(want1)
			for pfx := range want1 {
				if perPfx[pfx] != 1 {
					consistent = false
				}
			}
			if !consistent {
				bad := map[string]bool{}
				for _, k := range append(append(append([]string{}, missing...), extra...), differ...) {
					bad[c19dPfxOf(k)] = true
				}
				var hist, tbl []string
				if o := s.ops["loc"]; o != nil {
					for _, op := range *o {
						if bad[c19dPfxOf(op.key)] {
							hist = append(hist, op.String())
						}
					}
				}
				for _, a := range global {
					if bad[fmt.Sprintf("%s/%s", a.Family, a.Prefix)] {
						tbl = append(tbl, fmt.Sprintf("%s/%s src=%s remote-id=%d local-id=%d best=%v", a.Family, a.Prefix, a.Peer, a.Remote, a.Local, a.Best))
					}
				}
				out = append(out, c19dViewDiff{"c19d:bmp:route-monitoring:loc-rib:path-identifiers:stale-or-missing-path-id",
					"keyed by (prefix, path id) - the encoding the Loc-RIB Peer Up announces - the station's Loc-RIB differs from the best paths of ListPath(GLOBAL): a best path change to another path id is announced without withdrawing the previous id",
					map[string]any{"peer": "loc-rib", "missing_at_station": missing, "only_at_station": extra, "attributes_differ": differ,
						"station_operations_on_these_prefixes": hist, "global_table_paths_of_these_prefixes": tbl}})
			}
		}
	}
	return out, compared
}

// converge decodes + compares until the views agree (real time: the last events may still be
// in flight when the barrier is reached) or the bounded number of attempts is used up.
func (h *c19dBMP) converge(phase string) *c19dBMPState {
	var s *c19dBMPState
	var diffs []c19dViewDiff
	compared := 0
	for attempt := 0; attempt < 40; attempt++ {
		data, eof := h.st.snapshot()
		if !h.checkStream(data, eof) {
			return h.decode(nil, false)
		}
		s = h.decode(data, false)
		if h.streamBroken {
			return s
		}
		diffs, compared = h.compareViews(s)
		if len(diffs) == 0 {
			break
		}
		time.Sleep(75 * time.Millisecond)
	}
	h.rec.Count("bmp_view_comparisons", 1)
	h.rec.Count("bmp_routes_compared", compared)
	for _, d := range diffs {
		d.wit["phase"] = phase
		h.viol(-1, d.key, d.what+" ("+phase+")", d.wit)
	}
	return s
}

// waitFor polls cond on the decoded-on-demand raw stream; false = timeout.
// c19dFrame is the strict monitor of the station: every octet received must belong to a BMP
// message with a valid common header (version 3, a known type, a length that covers the headers of
// that type and is not absurd), and the UPDATE of a route monitoring message must fill the message
// exactly. It returns the number of complete messages and, for the first defect, its offset,
// message index, class and description (class "" = none so far).
func c19dFrame(data []byte, eof bool) (n int, off int, class, why string) {
	for off < len(data) {
		rest := data[off:]
		if len(rest) < bmp.BMP_HEADER_SIZE {
			if eof {
				return n, off, "trailing-bytes", fmt.Sprintf("%d octets at the end of the closed stream are no BMP common header", len(rest))
			}
			return n, off, "", ""
		}
		l := int(binary.BigEndian.Uint32(rest[1:5]))
		typ := rest[5]
		min := bmp.BMP_HEADER_SIZE
		if typ != bmp.BMP_MSG_INITIATION && typ != bmp.BMP_MSG_TERMINATION {
			min += bmp.BMP_PEER_HEADER_SIZE
		}
		switch {
		case rest[0] != bmp.BMP_VERSION:
			return n, off, "unframeable", fmt.Sprintf("version octet %d where a BMP common header must start", rest[0])
		case typ > bmp.BMP_MSG_ROUTE_MIRRORING:
			return n, off, "unframeable", fmt.Sprintf("unknown BMP message type %d", typ)
		case l < min:
			return n, off, "unframeable", fmt.Sprintf("message length %d is shorter than the headers of a type %d message (%d)", l, typ, min)
		case l > 1<<20:
			return n, off, "unframeable", fmt.Sprintf("message length %d", l)
		}
		if l > len(rest) {
			if eof {
				return n, off, "trailing-bytes", fmt.Sprintf("the closed stream ends %d octets into a message of %d", len(rest), l)
			}
			return n, off, "", ""
		}
		if typ == bmp.BMP_MSG_ROUTE_MONITORING {
			body := rest[min:l]
			if len(body) < bgp.BGP_HEADER_LENGTH || !bytes.Equal(body[:16], bytes.Repeat([]byte{0xff}, 16)) {
				return n, off, "route-monitoring:length-mismatch", "the route monitoring message does not hold a BGP message (marker) after the per-peer header"
			}
			if bl := int(body[16])<<8 | int(body[17]); bl != len(body) {
				return n, off, "route-monitoring:length-mismatch", fmt.Sprintf("BMP message length %d leaves %d octets for an UPDATE whose own length field says %d", l, len(body), bl)
			}
		}
		off += l
		n++
	}
	return n, off, "", ""
}

// checkStream runs the strict monitor over everything received so far; the first defect is a
// violation (never a timeout) and ends the scenario.
func (h *c19dBMP) checkStream(data []byte, eof bool) bool {
	if h.streamBroken {
		return false
	}
	n, off, class, why := c19dFrame(data, eof)
	if class == "" {
		return true
	}
	lo, hi := off-96, off+160
	if lo < 0 {
		lo = 0
	}
	if hi > len(data) {
		hi = len(data)
	}
	key := "c19d:bmp:stream:" + class
	if strings.HasPrefix(class, "route-monitoring:") {
		key = "c19d:bmp:" + class
	}
	h.viol(n, key, fmt.Sprintf("the octets gobgp sent to the station stop being a sequence of BMP messages at offset %d (message %d): %s", off, n, why),
		map[string]any{"offset": off, "octets_from": lo, "octets": hex.EncodeToString(data[lo:hi]), "stream_length": len(data)})
	h.streamBroken = true
	return false
}

// timeout: a bounded wait ran out. If the stream is broken that is the (already reported) reason;
// otherwise the whole stream is decoded once more - a message that does not parse explains it - and
// only when nothing else does the scenario ends inconclusive.
func (h *c19dBMP) timeout(msg string) {
	data, eof := h.st.snapshot()
	if h.checkStream(data, eof) {
		h.decode(data, false)
	}
	if h.streamBroken {
		return
	}
	h.rec.Inconclusive(msg)
}

func (h *c19dBMP) waitFor(cond func(data []byte, eof bool) bool) bool {
	deadline := time.NewTimer(c19dWait)
	defer deadline.Stop()
	for {
		data, eof := h.st.snapshot()
		if !h.checkStream(data, eof) {
			return false
		}
		if cond(data, eof) {
			return true
		}
		select {
		case <-deadline.C:
			return false
		case <-time.After(3 * time.Millisecond):
		}
	}
}

func c19dCountType(data []byte, typ uint8) int {
	n := 0
	for len(data) >= bmp.BMP_HEADER_SIZE {
		l := int(binary.BigEndian.Uint32(data[1:5]))
		if l < bmp.BMP_HEADER_SIZE || l > len(data) {
			break
		}
		if data[5] == typ {
			n++
		}
		data = data[l:]
	}
	return n
}

// barrier: every established peer announces a fresh marker prefix; the call returns when the
// marker has arrived in every configured view (FIFO per watcher: everything sent before is in).
func (h *c19dBMP) barrier() bool {
	if !h.wantPre() && !h.wantPost() && !h.wantLoc() {
		return true
	}
	var needs []string
	for _, p := range h.peers {
		if !p.up {
			continue
		}
		h.markerNo++
		x := h.markerNo
		if x > 255 {
			h.t.Fatalf("too many markers")
		}
		pfx := netip.PrefixFrom(netip.AddrFrom4([4]byte{203, 0, 113, byte(x)}), 32)
		nl := c19dNLRI{Pfx: pfx}
		if p.addPathTx(bgp.RF_IPv4_UC) {
			nl.ID = 1
		}
		var params []bgp.AsPathParamInterface
		if p.conf.Kind != simIBGP {
			if p.conf.NoAS4 {
				params = append(params, bgp.NewAsPathParam(bgp.BGP_ASPATH_ATTR_TYPE_SEQ, []uint16{uint16(p.conf.AS)}))
			} else {
				params = append(params, bgp.NewAs4PathParam(bgp.BGP_ASPATH_ATTR_TYPE_SEQ, []uint32{p.conf.AS}))
			}
		}
		attrs := []bgp.PathAttributeInterface{bgp.NewPathAttributeOrigin(0), bgp.NewPathAttributeAsPath(params)}
		nh, _ := bgp.NewPathAttributeNextHop(netip.MustParseAddr("192.0.2.1"))
		attrs = append(attrs, nh)
		if p.conf.Kind == simIBGP {
			attrs = append(attrs, bgp.NewPathAttributeLocalPref(100))
		}
		m := bgp.NewBGPUpdateMessage(nil, attrs, c19dPathNLRIs([]c19dNLRI{nl}))
		raw, err := m.Serialize(p.marshalOpt())
		if err != nil {
			h.t.Fatalf("marker serialize: %v", err)
		}
		if err := p.sp.sendRaw(raw); err != nil {
			p.up = false
			continue
		}
		if p.held[bgp.RF_IPv4_UC] == nil {
			p.held[bgp.RF_IPv4_UC] = map[c19dNLRI]bool{}
		}
		p.held[bgp.RF_IPv4_UC][nl] = true
		h.logf("marker %s from %s", pfx, p.conf.Addr)
		if h.wantPre() {
			needs = append(needs, fmt.Sprintf("pre-policy|%s|%d", p.conf.Addr, x))
		}
		if h.wantPost() {
			needs = append(needs, fmt.Sprintf("post-policy|%s|%d", p.conf.Addr, x))
		}
		if h.wantLoc() {
			needs = append(needs, fmt.Sprintf("loc-rib|<invalid>|%d", x))
		}
	}
	ok := h.waitFor(func(data []byte, eof bool) bool {
		have := c19dMarkers(data)
		for _, k := range needs {
			if !have[k] {
				return false
			}
		}
		return true
	})
	if !ok {
		data, _ := h.st.snapshot()
		have := c19dMarkers(data)
		var miss []string
		for _, k := range needs {
			if !have[k] {
				miss = append(miss, k)
			}
		}
		h.timeout(fmt.Sprintf("c19d bmp case %d: marker routes did not reach the station within %v: %v (shape %v)", h.idx, c19dWait, miss, h.shape))
	}
	return ok
}

// c19dMarkers scans the raw stream for marker prefixes in route monitoring messages.
func c19dMarkers(data []byte) map[string]bool {
	out := map[string]bool{}
	for len(data) >= bmp.BMP_HEADER_SIZE {
		l := int(binary.BigEndian.Uint32(data[1:5]))
		if l < bmp.BMP_HEADER_SIZE || l > len(data) {
			break
		}
		tok := data[:l]
		data = data[l:]
		if tok[5] != bmp.BMP_MSG_ROUTE_MONITORING || len(tok) < bmp.BMP_HEADER_SIZE+bmp.BMP_PEER_HEADER_SIZE {
			continue
		}
		var ph bmp.BMPPeerHeader
		ph.DecodeFromBytes(tok[bmp.BMP_HEADER_SIZE:])
		body := tok[bmp.BMP_HEADER_SIZE+bmp.BMP_PEER_HEADER_SIZE:]
		view := "pre-policy"
		addr := ph.PeerAddress.String()
		if ph.PeerType == bmp.BMP_PEER_TYPE_LOCAL_RIB {
			view, addr = "loc-rib", "<invalid>"
		} else if ph.Flags&bmp.BMP_PEER_FLAG_POST_POLICY != 0 {
			view = "post-policy"
		}
		for i := 0; i+5 <= len(body); i++ {
			if body[i] == 32 && body[i+1] == 203 && body[i+2] == 0 && body[i+3] == 113 {
				out[fmt.Sprintf("%s|%s|%d", view, addr, body[i+4])] = true
			}
		}
	}
	return out
}

func (h *c19dBMP) traffic(count int) {
	for i := 0; i < count; i++ {
		var ups []*c19dPeer
		for _, p := range h.peers {
			if p.up {
				ups = append(ups, p)
			}
		}
		if len(ups) == 0 {
			return
		}
		p := ups[h.r.IntN(len(ups))]
		s := h.gen.sendNext(p)
		if s == nil {
			h.logf("send to %s failed", p.conf.Addr)
			continue
		}
		h.logf("send #%d %s %s %s", s.Seq, p.conf.Addr, s.Class, hex.EncodeToString(s.Raw))
		h.rec.Count("bmp_updates_sent_"+s.Class, 1)
		if s.Class == "as-loop" {
			if m, err := bgp.ParseBGPMessage(s.Raw, &bgp.MarshallingOption{Use2ByteAS: p.conf.NoAS4, AddPath: c19dRxOpt(p)}); err == nil {
				v := map[string]string{}
				c19dApplyUpdate(v, m)
				for k := range v {
					if j := strings.LastIndex(k, "#"); j >= 0 {
						k = k[:j]
					}
					if h.loopPfx[p.conf.Addr] == nil {
						h.loopPfx[p.conf.Addr] = map[string]bool{}
					}
					h.loopPfx[p.conf.Addr][k] = true
				}
			}
		}
	}
}

func c19dRxOpt(p *c19dPeer) map[bgp.Family]bgp.BGPAddPathMode {
	m := map[bgp.Family]bgp.BGPAddPathMode{}
	if p.conf.APRecv {
		for _, f := range p.conf.families() {
			m[f] = bgp.BGP_ADD_PATH_RECEIVE
		}
	}
	return m
}

func c19dBMPCase(t *testing.T, rec *vlib.Rec, idx int) {
	r := vlib.CaseRand("c19d-bmp", idx)
	h := &c19dBMP{c19dCase: c19dCase{rec: rec, idx: idx}, t: t, r: r, loopPfx: map[string]map[string]bool{}, reported: map[string]bool{}}
	h.globalAS = 65000
	if r.IntN(4) == 0 {
		h.globalAS = 4200000001
	}
	h.gen = &c19dGen{r: r, globalAS: h.globalAS, loops: true}
	pols := []api.AddBmpRequest_MonitoringPolicy{api.AddBmpRequest_MONITORING_POLICY_PRE, api.AddBmpRequest_MONITORING_POLICY_POST, api.AddBmpRequest_MONITORING_POLICY_LOCAL,
		api.AddBmpRequest_MONITORING_POLICY_ALL, api.AddBmpRequest_MONITORING_POLICY_ALL, api.AddBmpRequest_MONITORING_POLICY_PRE, api.AddBmpRequest_MONITORING_POLICY_POST,
		api.AddBmpRequest_MONITORING_POLICY_LOCAL, api.AddBmpRequest_MONITORING_POLICY_ALL, api.AddBmpRequest_MONITORING_POLICY_BOTH}
	h.policy = pols[r.IntN(len(pols))]
	policy := r.IntN(2) == 0
	stats := r.IntN(3) == 0
	late := r.IntN(3) == 0
	downKind := []string{"none", "remote-close", "remote-notification", "disable-peer", "delete-peer"}[r.IntN(5)]
	if downKind == "delete-peer" && h.policy == api.AddBmpRequest_MONITORING_POLICY_BOTH {
		downKind = "remote-close" // nothing is monitored: no marker barrier to decide "no Peer Down" with
	}
	h.late, h.downKind = late, downKind
	reup := r.IntN(2) == 0
	nLocal := 0
	if r.IntN(3) == 0 {
		nLocal = 1 + r.IntN(2)
	}
	confs := c19dGenPeers(r, 2+r.IntN(2), h.globalAS, false)
	h.sysName = fmt.Sprintf("c19d-station-%d", idx)
	h.shape = []string{fmt.Sprintf("as=%d mon=%s import-policy=%v stats=%v late-station=%v down=%s reup=%v local=%d", h.globalAS, h.policy, policy, stats, late, downKind, reup, nLocal)}
	for _, c := range confs {
		h.shape = append(h.shape, c.shape())
	}
	rec.Mark(fmt.Sprintf("c19d bmp case %d %v", idx, h.shape), true)
	defer func() {
		if h.streamBroken && !h.evaluated {
			// decided: the stream broke (violation recorded) and the scenario ended there
			rec.Eval()
			rec.Count("bmp_scenarios", 1)
			rec.Count("bmp_scenarios_ended_on_broken_stream", 1)
			rec.Nontrivial("bmp|" + vlib.Hash(strings.Join(h.shape, "|")))
		}
	}()

	st, err := c19dNewStation()
	if err != nil {
		rec.Inconclusive("c19d: cannot listen on loopback: " + err.Error())
		return
	}
	h.st = st
	defer st.close()
	h.n = simStart(t, &api.Global{Asn: h.globalAS, RouterId: c19dRouterID})
	n := h.n
	bmpAdded := false
	bg := context.Background()
	defer func() {
		if bmpAdded {
			n.s.DeleteBmp(bg, &api.DeleteBmpRequest{Address: "127.0.0.1", Port: st.port()})
		}
		n.stop()
	}()
	if policy {
		if err := c19dImportPolicy(n); err != nil {
			t.Fatalf("import policy: %v", err)
		}
	}
	addBmp := func() bool {
		req := &api.AddBmpRequest{Address: "127.0.0.1", Port: st.port(), Policy: h.policy, SysName: h.sysName}
		if stats {
			req.StatisticsTimeout = 1
		}
		if err := n.s.AddBmp(bg, req); err != nil {
			t.Fatalf("AddBmp: %v", err)
		}
		bmpAdded = true
		if !h.waitFor(func(data []byte, eof bool) bool { return c19dCountType(data, bmp.BMP_MSG_INITIATION) > 0 }) {
			h.timeout(fmt.Sprintf("c19d bmp case %d: no Initiation message within %v", idx, c19dWait))
			return false
		}
		return true
	}
	if !late && !addBmp() {
		return
	}
	for _, c := range confs {
		p, err := c19dAddPeer(n, c)
		if err != nil {
			t.Fatalf("AddPeer %v: %v", c, err)
		}
		h.peers = append(h.peers, p)
	}
	for _, p := range h.peers {
		if err := p.bringUp(n, false); err != nil {
			rec.Inconclusive(err.Error())
			return
		}
		h.logf("up %s", p.conf.Addr)
	}
	pool := append(append([]string{}, c19dV4Pool...), c19dV6Pool...)
	for i := 0; i < nLocal; i++ {
		pfx := pool[r.IntN(len(pool))]
		if err := c19dAddLocal(n, r, pfx); err != nil {
			t.Fatalf("AddPath %s: %v", pfx, err)
		}
		h.logf("local route %s", pfx)
	}
	h.traffic(4 + r.IntN(8))
	if late {
		// the initial dump is one watch event per peer and family: make it carry several routes
		// of different encoded size (prefix lengths and attribute sets vary per UPDATE)
		h.traffic(6 + r.IntN(8))
		// let gobgp take everything in before the station connects: the initial dump is what is tested
		time.Sleep(50 * time.Millisecond)
		if !addBmp() {
			return
		}
	}
	nothingMonitored := !h.wantPre() && !h.wantPost() && !h.wantLoc()
	if !h.barrier() {
		return
	}
	s := h.converge("after phase 1")
	if h.streamBroken {
		return
	}
	h.traffic(3 + r.IntN(8))
	if !h.barrier() {
		return
	}
	s = h.converge("after phase 2")
	if h.streamBroken {
		return
	}

	// sessions: one Peer Up per established session
	if !h.waitFor(func(data []byte, eof bool) bool { return c19dCountType(data, bmp.BMP_MSG_PEER_UP_NOTIFICATION) >= len(h.peers) }) {
		h.timeout(fmt.Sprintf("c19d bmp case %d: fewer Peer Up messages than sessions within %v", idx, c19dWait))
		return
	}
	data, _ := st.snapshot()
	s = h.decode(data, false)
	for _, p := range h.peers {
		ss := s.sess[p.conf.Addr]
		if ss == nil || ss.ups != 1 || !ss.up {
			h.viol(-1, "c19d:bmp:peer-up:count", fmt.Sprintf("session %s is established once, the station saw %v", p.conf.Addr, ss), nil)
		}
	}
	if h.wantLoc() && s.locUps != 1 {
		h.viol(-1, "c19d:bmp:peer-up:loc-rib:count", fmt.Sprintf("%d Loc-RIB instance Peer Up messages", s.locUps), nil)
	}
	if nothingMonitored {
		rec.Count("bmp_policy_both_nothing_monitored", 1)
	}

	// statistics reports
	if stats {
		mark := s.ntok
		ok := h.waitFor(func(data []byte, eof bool) bool {
			toks, _, _ := c19dSplitBMP(data)
			seen := map[string]bool{}
			for i := mark; i < len(toks); i++ {
				if len(toks[i]) > 6+42 && toks[i][5] == bmp.BMP_MSG_STATISTICS_REPORT {
					var ph bmp.BMPPeerHeader
					ph.DecodeFromBytes(toks[i][6:])
					seen[ph.PeerAddress.String()] = true
				}
			}
			return len(seen) >= len(h.peers)
		})
		if !ok {
			h.timeout(fmt.Sprintf("c19d bmp case %d: no statistics report for every peer within %v", idx, c19dWait))
			return
		}
		data, _ := st.snapshot()
		s = h.decode(data, false)
		apiPeers, err := c19dListPeer(n)
		if err != nil {
			t.Fatalf("ListPeer: %v", err)
		}
		for _, p := range h.peers {
			sr, ok := s.stats[p.conf.Addr]
			ap := apiPeers[p.conf.Addr]
			if !ok || sr.tok < mark {
				continue
			}
			rec.Count("bmp_stats_reports_compared", 1)
			chk := func(typ uint16, name string, want uint64) {
				got, ok := sr.vals[typ]
				if !ok || got != want {
					h.viol(sr.tok, "c19d:bmp:statistics-report:"+name, fmt.Sprintf("statistics report for %s: %s = %d (present %v), ListPeer says %d", p.conf.Addr, name, got, ok, want), nil)
				}
			}
			chk(bmp.BMP_STAT_TYPE_ADJ_RIB_IN, "adj-rib-in", ap.Received)
			chk(bmp.BMP_STAT_TYPE_LOC_RIB, "loc-rib", ap.Accepted)
			chk(bmp.BMP_STAT_TYPE_WITHDRAW_UPDATE, "withdraw-updates", ap.WithdrawUpd)
			chk(bmp.BMP_STAT_TYPE_WITHDRAW_PREFIX, "withdraw-prefixes", ap.WithdrawPfx)
		}
	}

	// session loss
	if downKind != "none" {
		p := h.peers[r.IntN(len(h.peers))]
		var sentNotif []byte
		switch downKind {
		case "remote-close":
			p.sp.close()
		case "remote-notification":
			sentNotif, _ = bgp.NewBGPNotificationMessage(bgp.BGP_ERROR_CEASE, bgp.BGP_ERROR_SUB_ADMINISTRATIVE_SHUTDOWN, nil).Serialize()
			p.sp.sendRaw(sentNotif)
			time.Sleep(20 * time.Millisecond)
			p.sp.close()
		case "disable-peer":
			if err := n.s.DisablePeer(bg, &api.DisablePeerRequest{Address: p.conf.Addr}); err != nil {
				t.Fatalf("DisablePeer: %v", err)
			}
		case "delete-peer":
			if err := n.s.DeletePeer(bg, &api.DeletePeerRequest{Address: p.conf.Addr}); err != nil {
				t.Fatalf("DeletePeer: %v", err)
			}
		}
		p.up = false
		h.logf("down %s by %s", p.conf.Addr, downKind)
		if downKind == "delete-peer" {
			// DeletePeer reports the state change synchronously, before it returns: whatever it put
			// into the station's watcher precedes the markers of the remaining peers (FIFO). A second
			// barrier after the peer has seen its connection closed covers the FSM teardown as well.
			if !h.barrier() {
				return
			}
			closed := false
			for j := 0; j < 6000 && !closed; j++ {
				p.sp.mu.Lock()
				closed = p.sp.closedErr != nil
				p.sp.mu.Unlock()
				if !closed {
					time.Sleep(5 * time.Millisecond)
				}
			}
			if !closed {
				h.timeout(fmt.Sprintf("c19d bmp case %d: connection of the deleted peer still open after %v", idx, c19dWait))
				return
			}
			if !h.barrier() {
				return
			}
			if data, _ := st.snapshot(); c19dCountType(data, bmp.BMP_MSG_PEER_DOWN_NOTIFICATION) == 0 {
				h.viol(-1, "c19d:bmp:peer-down:missing:delete-peer", "DeletePeer of an established neighbour: the session is gone (ListPeer, connection closed), two later barriers have passed, and the station got no Peer Down for "+p.conf.Addr, nil)
				rec.Count("bmp_peer_down_missing", 1)
			}
		} else if !h.waitFor(func(data []byte, eof bool) bool { return c19dCountType(data, bmp.BMP_MSG_PEER_DOWN_NOTIFICATION) > 0 }) {
			h.timeout(fmt.Sprintf("c19d bmp case %d: no Peer Down within %v after %s", idx, c19dWait, downKind))
			return
		}
		// what gobgp wrote to the peer before the session ended
		var gotNotif []byte
		dl := time.Now().Add(2 * time.Second)
		for {
			for _, m := range p.tap.fromGobgp() {
				if len(m) >= bgp.BGP_HEADER_LENGTH && m[18] == bgp.BGP_MSG_NOTIFICATION {
					gotNotif = m
				}
			}
			p.sp.mu.Lock()
			closed := p.sp.closedErr != nil
			p.sp.mu.Unlock()
			if gotNotif != nil || closed || !time.Now().Before(dl) {
				break
			}
			time.Sleep(5 * time.Millisecond)
		}
		data, _ := st.snapshot()
		s = h.decode(data, false)
		var d *c19dBMPDown
		for i := range s.downs {
			if s.downs[i].peer == p.conf.Addr {
				d = &s.downs[i]
			}
		}
		if d == nil && len(s.downs) == 0 {
			// reported above (delete-peer)
		} else if d == nil {
			h.viol(-1, "c19d:bmp:peer-down:wrong-peer", "a Peer Down arrived, but not for the session that was lost ("+p.conf.Addr+")", map[string]any{"downs": fmt.Sprint(s.downs)})
		} else {
			rec.Count("bmp_peer_down_checked", 1)
			wit := map[string]any{"down_kind": downKind, "reason": d.reason, "notification_in_peer_down": hex.EncodeToString(d.notif), "data": hex.EncodeToString(d.data),
				"notification_gobgp_sent_to_peer": hex.EncodeToString(gotNotif), "notification_peer_sent": hex.EncodeToString(sentNotif)}
			switch downKind {
			case "remote-close":
				if d.reason != bmp.BMP_PEER_DOWN_REASON_REMOTE_NO_NOTIFICATION {
					h.viol(d.tok, "c19d:bmp:peer-down:reason:remote-close", fmt.Sprintf("the peer closed the connection without a NOTIFICATION; reason %d, RFC 7854 4.9 says 4", d.reason), wit)
				}
			case "remote-notification":
				if d.reason != bmp.BMP_PEER_DOWN_REASON_REMOTE_BGP_NOTIFICATION {
					h.viol(d.tok, "c19d:bmp:peer-down:reason:remote-notification", fmt.Sprintf("the peer sent a NOTIFICATION; reason %d, RFC 7854 4.9 says 3", d.reason), wit)
				} else if !bytes.Equal(d.notif, sentNotif) {
					h.viol(d.tok, "c19d:bmp:peer-down:notification:remote", "the NOTIFICATION in the Peer Down differs from the one the peer sent", wit)
				}
			case "disable-peer", "delete-peer":
				// local close. With a NOTIFICATION on the wire: reason 1 + that PDU (delete: 5 is documented too);
				// without: reason 2 + a 2-octet FSM event code.
				switch {
				case d.reason == bmp.BMP_PEER_DOWN_REASON_LOCAL_BGP_NOTIFICATION:
					if gotNotif != nil && !bytes.Equal(d.notif, gotNotif) {
						h.viol(d.tok, "c19d:bmp:peer-down:notification:local", "the NOTIFICATION in the Peer Down differs from the one gobgp sent to the peer", wit)
					}
				case d.reason == bmp.BMP_PEER_DOWN_REASON_PEER_DE_CONFIGURED && downKind == "delete-peer":
				case d.reason == bmp.BMP_PEER_DOWN_REASON_LOCAL_NO_NOTIFICATION:
					if gotNotif != nil {
						h.viol(d.tok, "c19d:bmp:peer-down:reason:"+downKind+":notification-was-sent", "reason 2 (local close, no NOTIFICATION sent) although gobgp sent a NOTIFICATION to the peer", wit)
					} else if len(d.data) != 2 {
						h.viol(d.tok, "c19d:bmp:peer-down:reason-2:fsm-event-code", fmt.Sprintf("reason 2 must be followed by a 2-octet FSM event code (RFC 7854 4.9), %d octets follow", len(d.data)), wit)
					}
				default:
					h.viol(d.tok, "c19d:bmp:peer-down:reason:"+downKind, fmt.Sprintf("local close reported with reason %d", d.reason), wit)
				}
			}
		}
		// the remaining views (and the Loc-RIB without the lost peer's routes) still agree
		if !h.barrier() {
			return
		}
		s = h.converge("after session loss")
		if h.streamBroken {
			return
		}
		if reup && (downKind == "remote-close" || downKind == "remote-notification") {
			// the session comes back: a second Peer Up with the new OPENs, the routes are reported afresh
			p.held = map[bgp.Family]map[c19dNLRI]bool{}
			if err := p.bringUp(n, false); err != nil {
				rec.Inconclusive(err.Error())
				return
			}
			h.logf("up again %s", p.conf.Addr)
			h.traffic(2 + r.IntN(6))
			if !h.barrier() {
				return
			}
			s = h.converge("after re-establishment")
			if h.streamBroken {
				return
			}
			if ss := s.sess[p.conf.Addr]; ss == nil || ss.ups != 2 || !ss.up {
				h.viol(-1, "c19d:bmp:peer-up:count:re-established", fmt.Sprintf("session %s was established twice, the station saw %v", p.conf.Addr, ss), nil)
			}
			rec.Count("bmp_sessions_reestablished", 1)
		}
	}

	// termination
	if err := n.s.DeleteBmp(bg, &api.DeleteBmpRequest{Address: "127.0.0.1", Port: st.port()}); err != nil {
		t.Fatalf("DeleteBmp: %v", err)
	}
	bmpAdded = false
	if !h.waitFor(func(data []byte, eof bool) bool { return eof }) {
		h.timeout(fmt.Sprintf("c19d bmp case %d: the BMP connection was not closed within %v after DeleteBmp", idx, c19dWait))
		return
	}
	data, _ = st.snapshot()
	if !h.checkStream(data, true) {
		return
	}
	h.counting = true
	s = h.decode(data, true)
	h.counting = false
	if s.termTok < 0 {
		h.viol(s.ntok, "c19d:bmp:termination:missing", "the session ended after DeleteBmp without a Termination message", nil)
	} else {
		rec.Count("bmp_termination_checked", 1)
		if s.termInfo == "" {
			h.viol(s.termTok, "c19d:bmp:termination:reason-tlv", "Termination message without a reason TLV", nil)
		}
	}
	if h.wantLoc() && s.locDowns != 1 {
		h.viol(-1, "c19d:bmp:peer-down:loc-rib:count", fmt.Sprintf("%d Loc-RIB instance Peer Down messages at the end of the session", s.locDowns), nil)
	}
	h.routeRM = s.routeMsgs
	for _, p := range h.peers {
		if p.up && !p.sp.established() {
			rec.Inconclusive(fmt.Sprintf("c19d bmp case %d: session %s was lost unexpectedly (notification %v)", idx, p.conf.Addr, p.sp.notif))
		}
	}
	h.evaluated = true
	rec.Eval()
	rec.Count("bmp_scenarios", 1)
	rec.Count("bmp_scenarios_"+strings.ToLower(strings.TrimPrefix(h.policy.String(), "MONITORING_POLICY_")), 1)
	if h.routeRM > 0 {
		rec.Count("bmp_scenarios_nontrivial", 1)
		rec.Nontrivial("bmp|" + vlib.Hash(strings.Join(h.shape, "|")))
	}
	if idx%17 == 2 {
		rec.Sample(map[string]any{"case": idx, "kind": "bmp", "shape": h.shape, "messages": s.ntok, "route_monitoring": s.rm})
	}
}
