package server

// C11, unit "e2e", second scenario kind — several sessions of ONE neighbour whose capabilities change.
//
// The target T closes its session and comes back 1-2 times; between sessions the speaker's OPEN changes
// (Extended Message on->off / off->on, ADD-PATH receive on/off, 4-octet-AS capability on/off). The sources hold
// groups of 850-1150 IPv4 /32 (and 260-420 IPv6 /128) prefixes sharing one attribute set, i.e. more than 4096
// octets of packable NLRI, so every initial table transfer and every replacement of a group has to be split
// according to the limit negotiated for THAT session. Oracle as in the first kind, applied per session to the
// octets received during that session: every message within the session's limit (raw header length), every
// announced prefix carries an attribute set it was announced with, the view accumulated during the session equals
// the last action per key (and, on 4-octet sessions, gobgp's fresh ADJ_OUT evaluation), sessions survive.

import (
	"encoding/binary"
	"fmt"
	"net/netip"
	"sort"
	"strings"
	"testing"
	"testing/synctest"

	"github.com/osrg/gobgp/v4/api"
	"github.com/osrg/gobgp/v4/internal/verif/vlib"
	"github.com/osrg/gobgp/v4/pkg/packet/bgp"
)

type e2eC11SessCaps struct{ ext, ap, as4 bool }

func (c e2eC11SessCaps) String() string {
	return fmt.Sprintf("ext=%v,addpath=%v,as4=%v", c.ext, c.ap, c.as4)
}

func e2eC11OnOff(b bool) string {
	if b {
		return "on"
	}
	return "off"
}

func e2eC11SessCapList(as uint32, c e2eC11SessCaps) []bgp.ParameterCapabilityInterface {
	var out []bgp.ParameterCapabilityInterface
	for _, x := range e2eC11Caps(as, c.ap, c.ext, false) {
		if _, is4 := x.(*bgp.CapFourOctetASNumber); is4 && !c.as4 {
			continue
		}
		out = append(out, x)
	}
	return out
}

func e2eC11Resession(t *testing.T, rec *vlib.Rec, idx, j int) {
	r := vlib.CaseRand("e2e-c11-resession", j)
	sc := &e2eC11Sc{rec: rec, idx: idx, r: r, sp: map[string]*simSpeaker{}, ext: map[string]bool{}, seq: map[string]uint32{},
		cur: map[e2eC11Key]map[string]*e2eC11Ver{}, ever: map[e2eC11Key]map[uint32]*e2eC11Ver{}, oversize: map[e2eC11Key]bool{}, groups: map[string][]netip.Prefix{}, events: map[string]int{}}
	n := simStart(t, &api.Global{Asn: simLocalAS, RouterId: "1.1.1.1"})
	sc.n = n
	defer func() {
		n.stop()
		synctest.Wait()
	}()
	// ---- the capability sets of T's sessions: every re-establishment changes at least one of them
	nSess := 2 + r.IntN(2)
	caps := make([]e2eC11SessCaps, nSess)
	caps[0] = e2eC11SessCaps{ext: r.IntN(2) == 0, ap: r.IntN(3) == 0, as4: r.IntN(4) != 0}
	if j%2 == 0 {
		caps[0].ext = true // the history the property is most sensitive to: extended first, plain later
	}
	for s := 1; s < nSess; s++ {
		c := caps[s-1]
		switch r.IntN(6) {
		case 0, 1, 2:
			c.ext = !c.ext
		case 3:
			c.ap = !c.ap
		case 4:
			c.as4 = !c.as4
		default:
			c.ext, c.ap = !c.ext, !c.ap
		}
		if j%2 == 0 && s == 1 {
			c.ext = false
		}
		caps[s] = c
	}
	add := func(role, addr string, as uint32, sendMax uint32, cl []bgp.ParameterCapabilityInterface) bool {
		sp, err := n.addPeer(simPeerSpec{Kind: simEBGP, Addr: addr, AS: as, ID: addr, V6: true, SendMax: sendMax, SpeakerMod: func(c *simSpeakerConf) { c.Caps = cl }})
		if err != nil {
			rec.Inconclusive("e2e c11: AddPeer: " + err.Error())
			return false
		}
		sc.sp[role] = sp
		return true
	}
	sc.ext["S1"], sc.ext["S2"] = r.IntN(2) == 0, false
	if !add("S1", "10.0.0.2", e2eC11S1AS, 0, e2eC11Caps(e2eC11S1AS, false, sc.ext["S1"], false)) || !add("S2", "10.0.0.3", e2eC11S2AS, 0, e2eC11Caps(e2eC11S2AS, false, false, false)) ||
		!add("T", "10.0.0.4", e2eC11TAS, 8, e2eC11SessCapList(e2eC11TAS, caps[0])) {
		return
	}
	synctest.Wait()
	for _, role := range []string{"S1", "S2"} {
		if err := sc.sp[role].bringUp(40); err != nil {
			rec.Inconclusive("e2e c11: " + err.Error())
			return
		}
	}
	T := sc.sp["T"]
	rec.Eval()
	rec.Count("e2e:c11:resession:scenarios", 1)

	// ---- route changes
	bigGroup := func(i int, v6 bool) bool {
		src := []string{"S1", "S2"}[r.IntN(2)]
		sb := 0
		if src == "S2" {
			sb = 1
		}
		g := r.IntN(2)
		name := fmt.Sprintf("%s-big%d-v6=%v", src, g, v6)
		var pf []netip.Prefix
		if v6 {
			for k := 0; k < 260+r.IntN(160); k++ {
				pf = append(pf, netip.MustParsePrefix(fmt.Sprintf("2001:db8:%x:%x::%x/128", 0x300+sb, g, k+1)))
			}
		} else {
			for k := 0; k < 850+r.IntN(300); k++ {
				pf = append(pf, netip.MustParsePrefix(fmt.Sprintf("10.%d.%d.%d/32", 60+sb*10+g, k/250, 1+k%250)))
			}
		}
		v := sc.newVer(src, []int{1, 1, 2, 3, 40}[r.IntN(5)])
		sc.groups[name] = e2eC11Union(sc.groups[name], pf)
		sc.events["big-group-announce"]++
		sc.logf("#%d %s big group %s announce %d prefixes tag=%#x comms=%d", i, src, name, len(pf), v.tag, v.ncomm)
		return sc.announce(v, pf)
	}
	shared := []string{"10.1.0.0/24", "10.1.1.0/24", "10.2.0.0/16", "192.0.2.0/24", "2001:db8:1::/48", "2001:db8:2::/64"}
	step := func(i int) bool {
		src := []string{"S1", "S2"}[r.IntN(2)]
		switch x := r.IntN(100); {
		case x < 30:
			return bigGroup(i, r.IntN(4) == 0)
		case x < 50: // a smaller group with a large attribute set
			sb := 0
			if src == "S2" {
				sb = 1
			}
			g := r.IntN(2)
			name := fmt.Sprintf("%s-mid%d", src, g)
			var pf []netip.Prefix
			for k := 0; k < 20+r.IntN(180); k++ {
				pf = append(pf, netip.MustParsePrefix(fmt.Sprintf("10.%d.%d.0/24", 90+sb*10+g, k)))
			}
			v := sc.newVer(src, []int{40, 300, 880, 960}[r.IntN(4)])
			sc.groups[name] = e2eC11Union(sc.groups[name], pf)
			sc.events["group-announce"]++
			sc.logf("#%d %s group %s announce %d prefixes tag=%#x comms=%d", i, src, name, len(pf), v.tag, v.ncomm)
			return sc.announce(v, pf)
		case x < 65:
			var names []string
			for nm := range sc.groups {
				if strings.HasPrefix(nm, src) && len(sc.groups[nm]) > 0 {
					names = append(names, nm)
				}
			}
			if len(names) == 0 {
				return true
			}
			sort.Strings(names)
			nm := names[r.IntN(len(names))]
			pf := sc.groups[nm]
			if len(pf) > 2 {
				pf = pf[:1+r.IntN(len(pf)-1)]
			}
			sc.events["group-withdraw"]++
			sc.logf("#%d %s group %s withdraw %d prefixes", i, src, nm, len(pf))
			return sc.withdraw(src, pf)
		case x < 85:
			p := netip.MustParsePrefix(shared[r.IntN(len(shared))])
			v := sc.newVer(src, 1+r.IntN(60))
			sc.events["announce"]++
			sc.logf("#%d %s announce %s tag=%#x comms=%d", i, src, p, v.tag, v.ncomm)
			return sc.announce(v, []netip.Prefix{p})
		default:
			p := netip.MustParsePrefix(shared[r.IntN(len(shared))])
			sc.events["withdraw"]++
			sc.logf("#%d %s withdraw %s", i, src, p)
			return sc.withdraw(src, []netip.Prefix{p})
		}
	}
	ev := 0
	if !bigGroup(ev, false) {
		return
	}
	ev++
	if r.IntN(2) == 0 {
		if !bigGroup(ev, true) {
			return
		}
		ev++
	}
	synctest.Wait()

	reached := false
	var flips []string
	for s := 0; s < nSess; s++ {
		c := caps[s]
		T.conf.Caps = e2eC11SessCapList(e2eC11TAS, c)
		sc.ext["T"], sc.tAP, sc.tExt = c.ext, c.ap, c.ext
		T.mu.Lock()
		rxStart := len(T.rx)
		T.mu.Unlock()
		sc.logf("-- T session %d comes up with %s", s+1, c)
		if err := e2eBringUpRaw(T, 60); err != nil {
			rec.Inconclusive("e2e c11: " + err.Error())
			return
		}
		synctest.Wait()
		rec.Count("e2e:c11:resession:sessions", 1)
		if s > 0 {
			p := caps[s-1]
			for _, f := range [][3]any{{"ext", p.ext, c.ext}, {"addpath", p.ap, c.ap}, {"as4", p.as4, c.as4}} {
				if f[1] != f[2] {
					fl := fmt.Sprintf("%s:%s->%s", f[0], e2eC11OnOff(f[1].(bool)), e2eC11OnOff(f[2].(bool)))
					rec.Count("e2e:c11:resession:flip:"+fl, 1)
					flips = append(flips, fl)
				}
			}
		}
		// changes while the session is up; sometimes behind a stalled reader so that they are coalesced
		stall := r.IntN(2) == 0
		if stall {
			T.setPaused(true)
		}
		for k := 1 + r.IntN(5); k > 0; k-- {
			if !step(ev) {
				return
			}
			ev++
			if r.IntN(3) == 0 {
				synctest.Wait()
			}
		}
		synctest.Wait()
		T.setPaused(false)
		synctest.Wait()
		ok, got := sc.judgeSession(s+1, c, caps[:s+1], rxStart)
		if !ok {
			return
		}
		reached = reached || got
		if s+1 < nSess {
			sc.logf("-- T closes session %d", s+1)
			T.close()
			synctest.Wait()
			if r.IntN(2) == 0 { // the table changes while T is away
				if !step(ev) {
					return
				}
				ev++
				synctest.Wait()
			}
		}
	}
	for k, v := range sc.events {
		rec.Count("e2e:c11:resession:ev:"+k, v)
	}
	if reached {
		sort.Strings(flips)
		rec.Count("e2e:c11:resession:nontrivial_scenarios", 1)
		rec.Nontrivial("e2e-c11-resession|" + caps[0].String() + "|" + strings.Join(flips, ","))
	}
	if j%41 == 0 {
		h := sc.log
		if len(h) > 25 {
			h = h[:25]
		}
		rec.Sample(map[string]any{"case": idx, "unit": "e2e", "kind": "re-session", "sessions": fmt.Sprint(caps), "history": h})
	}
}

// judgeSession checks what T received during the session that began at rx index rxStart.
// Returns (go on, the session carried more than 4096 octets of NLRI).
func (sc *e2eC11Sc) judgeSession(no int, c e2eC11SessCaps, history []e2eC11SessCaps, rxStart int) (bool, bool) {
	rec, n, T := sc.rec, sc.n, sc.sp["T"]
	var hs []string
	for _, h := range history {
		hs = append(hs, h.String())
	}
	wit := func(extra map[string]any) map[string]any {
		w := map[string]any{"case": sc.idx, "session_number": no, "sessions_of_T_so_far": hs, "history": append([]string{}, sc.log...)}
		for k, v := range extra {
			w[k] = v
		}
		return w
	}
	for _, role := range []string{"S1", "S2", "T"} {
		if !e2eEstablished(n, sc.sp[role].conf.Addr) {
			sc.sp[role].mu.Lock()
			nf := sc.sp[role].notif
			sc.sp[role].mu.Unlock()
			rec.Violation("e2e:c11:resession:session-lost:"+role, fmt.Sprintf("the session to %s did not survive (notification %v)", role, nf), wit(nil))
			return false, false
		}
	}
	lim := 4096
	if c.ext {
		lim = 65535
	}
	// was an earlier session of this neighbour negotiated differently? (names the history class in the key)
	prevExt := false
	for _, h := range history[:len(history)-1] {
		prevExt = prevExt || h.ext
	}
	hist := "first-session"
	if len(history) > 1 {
		hist = "after-plain-sessions"
		if prevExt {
			hist = "after-extended-session"
		}
	}
	T.mu.Lock()
	rx := append([]simRxMsg{}, T.rx[rxStart:]...)
	T.mu.Unlock()
	nlriOctets, maxLen := 0, 0
	for mi, m := range rx {
		l := int(binary.BigEndian.Uint16(m.Raw[16:18]))
		if l > maxLen {
			maxLen = l
		}
		if l > lim || len(m.Raw) > lim {
			rec.Violation(fmt.Sprintf("e2e:c11:resession:message-too-long:%d:%s", lim, hist),
				fmt.Sprintf("message %d of T's session %d (%s) has header length %d (%d octets); the limit negotiated for this session is %d", mi, no, c, l, len(m.Raw), lim), wit(nil))
		}
	}
	rec.Count("e2e:c11:resession:messages_checked", len(rx))
	ups, problems := e2eDecodeRxFrom(T, rxStart)
	for _, pr := range problems {
		if strings.Contains(pr, "exceeds the maximum") {
			continue // reported above under message-too-long
		}
		rec.Violation("e2e:c11:resession:wire:malformed-message", fmt.Sprintf("session %d (%s): %s", no, c, pr), wit(map[string]any{"rx": e2eRxLog(T, 3)}))
	}
	tagOf := func(rt *e2eRoute) (uint32, bool) {
		cs, err := rt.communities()
		if err != nil || len(cs) == 0 {
			return 0, false
		}
		return cs[0], true
	}
	nUpd := 0
	for _, u := range ups {
		nUpd++
		if u.Len >= lim-64 {
			rec.Count("e2e:c11:resession:messages_within_64_of_limit", 1)
		}
		for _, a := range u.Announced {
			nlriOctets += e2eC11NLRILen(netip.MustParsePrefix(a.Prefix), c.ap)
			rt := u.RouteFor[a.Family]
			tg, ok := tagOf(rt)
			v := sc.ever[e2eC11Key{a.Family, a.Prefix}][tg]
			if !ok || v == nil {
				rec.Violation("e2e:c11:resession:prefix-with-foreign-attributes", fmt.Sprintf("session %d: message %d announces %s with an attribute set (tag %#x) that prefix was never announced with", no, u.Idx, a, tg), wit(nil))
				continue
			}
			why := ""
			if c.as4 {
				why = sc.checkAttrs(rt, v)
			} else {
				why = e2eC11CheckAttrsOld(rt, v)
			}
			if why != "" {
				rec.Violation("e2e:c11:resession:attributes-differ-from-announced-set:as4="+e2eC11OnOff(c.as4), fmt.Sprintf("session %d: message %d announces %s with tag %#x but %s", no, u.Idx, a, tg, why), wit(nil))
			}
		}
	}
	if nlriOctets > 4096 {
		rec.Count("e2e:c11:resession:sessions_with_more_than_4096_octets_of_nlri", 1)
		rec.Count("e2e:c11:resession:session:"+c.String(), 1)
	}
	if nlriOctets > 4096 && !c.ext {
		rec.Count("e2e:c11:resession:plain_sessions_that_had_to_split:"+hist, 1)
	}
	view, _ := e2eApply(ups)
	byPfx := map[e2eC11Key][]uint32{}
	for k2, rt := range view {
		tg, _ := tagOf(rt)
		kk := e2eC11Key{k2.Family, k2.Prefix}
		byPfx[kk] = append(byPfx[kk], tg)
	}
	nCmp := 0
	for kk, holders := range sc.cur {
		want := map[uint32]bool{}
		for _, v := range holders {
			want[v.tag] = true
		}
		got := byPfx[kk]
		nCmp += len(want)
		bad := false
		switch {
		case len(want) == 0:
			bad = len(got) > 0
		case len(got) == 0:
			bad = true
		case !c.ap:
			bad = len(got) != 1 || !want[got[0]]
		default:
			gs := map[uint32]bool{}
			for _, tg := range got {
				gs[tg] = true
				bad = bad || !want[tg]
			}
			bad = bad || len(gs) != len(got) || len(gs) != len(want)
		}
		if bad {
			rec.Violation("e2e:c11:resession:view!=last-action:"+hist, fmt.Sprintf("session %d (%s): T holds %s with tags %#x, the current announcements are %v", no, c, kk.pfx, got, e2eC11Tags(want)), wit(nil))
			break
		}
	}
	for kk, got := range byPfx {
		if len(sc.cur[kk]) == 0 && len(got) > 0 {
			rec.Violation("e2e:c11:resession:view!=last-action:"+hist, fmt.Sprintf("session %d (%s): T holds %s (tags %#x) although every source withdrew it last", no, c, kk.pfx, got), wit(nil))
			break
		}
	}
	rec.Count("e2e:c11:resession:routes_compared_with_last_action", nCmp)
	if c.as4 { // the API shows 4-octet encodings; on a 2-octet session the octets differ by design (C14)
		var want map[simRouteKey]*e2eRoute
		var err error
		if c.ap {
			want, err = e2eAdjOutEligible(n, "10.0.0.4")
		} else {
			want, err = e2eAdjOut(n, "10.0.0.4", []bgp.Family{bgp.RF_IPv4_UC, bgp.RF_IPv6_UC})
		}
		if err != nil {
			rec.Inconclusive("e2e c11: ADJ_OUT: " + err.Error())
			return false, false
		}
		var d []string
		for k2, w := range want {
			if g, ok := view[k2]; !ok {
				d = append(d, "MISSING "+k2.String())
			} else if g.Canon() != w.Canon() || string(g.NextHop) != string(w.NextHop) {
				d = append(d, "DIFFERENT "+k2.String())
			}
		}
		for k2 := range view {
			if _, ok := want[k2]; !ok {
				d = append(d, "STALE "+k2.String())
			}
		}
		if len(d) > 0 {
			sort.Strings(d)
			if len(d) > 10 {
				d = append(d[:10], fmt.Sprintf("... %d more", len(d)-10))
			}
			rec.Violation("e2e:c11:resession:view!=adj-out:"+hist, fmt.Sprintf("session %d (%s): T's view differs from ListPath(ADJ_OUT): %s", no, c, strings.Join(d, " | ")), wit(nil))
		}
		rec.Count("e2e:c11:resession:routes_compared_with_adj_out", len(want))
	}
	return true, nlriOctets > 4096
}

// e2eC11CheckAttrsOld: the attribute set as a 2-octet-AS eBGP peer must get it (RFC 6793 4.2.2): AS_PATH with
// AS_TRANS in place of 4-octet ASNs, and AS4_PATH with the whole path iff one is needed.
func e2eC11CheckAttrsOld(rt *e2eRoute, v *e2eC11Ver) string {
	cs, err := rt.communities()
	if err != nil {
		return err.Error()
	}
	want := v.comms()
	if len(cs) != len(want) {
		return fmt.Sprintf("it carries %d communities, the set has %d", len(cs), len(want))
	}
	for i := range cs {
		if cs[i] != want[i] {
			return fmt.Sprintf("community %d is %#x, the set has %#x", i, cs[i], want[i])
		}
	}
	wp := append([]uint32{simLocalAS, v.srcAS}, v.extra...)
	flat := func(asSize int, t uint8) ([]uint32, string) {
		a := rt.attr(t)
		if a == nil {
			return nil, "absent"
		}
		segs, err := e2eParseASPath(a.Value, asSize)
		if err != nil {
			return nil, err.Error()
		}
		var out []uint32
		for _, s := range segs {
			if s.Type != bgp.BGP_ASPATH_ATTR_TYPE_SEQ {
				return nil, "non-sequence segment"
			}
			out = append(out, s.AS...)
		}
		return out, ""
	}
	p2, why := flat(2, 2)
	if why != "" {
		return "2-octet AS_PATH: " + why
	}
	need4 := false
	w2 := make([]uint32, len(wp))
	for i, a := range wp {
		w2[i] = a
		if a > 65535 {
			w2[i], need4 = 23456, true
		}
	}
	if fmt.Sprint(p2) != fmt.Sprint(w2) {
		return fmt.Sprintf("2-octet AS_PATH is %v, expected %v", p2, w2)
	}
	p4, why := flat(4, 17)
	switch {
	case need4 && why != "":
		return "AS4_PATH: " + why
	case need4 && fmt.Sprint(p4) != fmt.Sprint(wp):
		return fmt.Sprintf("AS4_PATH is %v, expected %v", p4, wp)
	}
	if a := rt.attr(1); a == nil || len(a.Value) != 1 || a.Value[0] != v.origin {
		return "ORIGIN differs"
	}
	return ""
}
