package server

// C06 layer 2 — end to end: a whole BgpServer in virtual time, the injecting speaker (eBGP, iBGP or
// confederation member; treat-as-withdraw on or off) and a third speaker that only listens. First
// valid routes for every prefix the faulty message will name plus two bystander prefixes, then the
// faulty UPDATE as raw octets, then at exact quiescence: NOTIFICATION octets, session state,
// ListPath(ADJ_IN) and ListPath(GLOBAL), and everything the third speaker has been told.

import (
	"fmt"
	"math/rand/v2"
	"net/netip"
	"runtime"
	"strings"
	"testing"
	"testing/synctest"
	"time"

	"github.com/osrg/gobgp/v4/api"
	"github.com/osrg/gobgp/v4/internal/verif/vlib"
	"github.com/osrg/gobgp/v4/pkg/apiutil"
	"github.com/osrg/gobgp/v4/pkg/packet/bgp"
)

// c06Pipe: how a layer-3 session delivers the message under test.
type c06Pipe struct {
	Prelude bool          // valid routes for the named prefixes in front of it (same write)
	Hold    uint16        // hold time offered by the speaker (0: no keepalives)
	HoldUp  time.Duration // virtual time the Established handler is held at its yield point (0: just yields)
}

const c06Trailer = "10.88.0.0/24" // announced by the well-formed UPDATE written right behind the message under test

// c06PipeConnect offers a connection to gobgp, reads its OPEN, and then writes OPEN + KEEPALIVE + burst in
// one go without looking at what gobgp does, while the ordinary reader collects what gobgp sends.
func c06PipeConnect(sp *simSpeaker, burst []byte, tries int) error {
	var err error
	for i := 0; i < tries; i++ {
		gside, mine := simPipe(simLocalAddr, sp.conf.Addr, sp.conf.Port)
		sp.n.acceptCh <- gside
		var hd *bgp.BGPHeader
		var body []byte
		if hd, body, err = simReadMsgRaw(mine); err == nil {
			var om *bgp.BGPMessage
			if om, err = bgp.ParseBGPBody(hd, body); err == nil {
				if open, ok := om.Body.(*bgp.BGPOpen); ok {
					sp.mu.Lock()
					sp.c = mine
					sp.view = map[simRouteKey]simRoute{}
					sp.eor = map[bgp.Family]int{}
					sp.notif, sp.closedErr = nil, nil
					sp.done = make(chan struct{})
					done := sp.done
					sp.mu.Unlock()
					sp.negotiate(open)
					ob, _ := sp.openMsg().Serialize()
					kb, _ := bgp.NewBGPKeepAliveMessage().Serialize()
					out := append(append(ob, kb...), burst...)
					sp.readerWG.Add(1)
					go sp.reader(mine, done)
					go mine.Write(out)
					return nil
				}
				err = fmt.Errorf("expected OPEN, got type %d", hd.Type)
			}
		}
		mine.Close()
		time.Sleep(time.Second)
	}
	return err
}

const (
	c06Marker      = 65000<<16 | 999 // community carried by the routes sent before the faulty message
	c06ObserverAS  = 65009
	c06ObserverAdr = "10.0.0.3"
)

var c06Bystanders = []string{"10.77.0.0/24", "2001:db8:77::/48"}

func c06HasMarker(as []bgp.PathAttributeInterface) bool {
	for _, a := range as {
		if c, ok := a.(*bgp.PathAttributeCommunities); ok {
			for _, v := range c.Value {
				if v == c06Marker {
					return true
				}
			}
		}
	}
	return false
}

// c06Prelude builds the valid UPDATEs sent first: one per family, naming every prefix of ps.
func c06Prelude(s c06Sess, ps []c06Pfx) [][]byte {
	var v4, v6 []c06Pfx
	for _, p := range ps {
		if p.v6 {
			v6 = append(v6, p)
		} else {
			v4 = append(v4, p)
		}
	}
	common := func() []c06Attr {
		o := c06GoodAttr(c06TOrigin, s.pt)
		o.val = []byte{2}
		as := []c06Attr{o, c06GoodAttr(c06TASPath, s.pt)}
		if s.pt != c06EBGP {
			as = append(as, c06GoodAttr(c06TLocalPref, s.pt))
		}
		c := c06GoodAttr(c06TComm, s.pt)
		c.val = c06U32(c06Marker)
		as = append(as, c)
		c06ForSession(s, as)
		return as
	}
	var out [][]byte
	if len(v4) > 0 {
		m := &c06Msg{addPath: s.ap4(), wdrLenField: -1, attrLenField: -1, nlri: v4}
		m.attrs = append(common(), c06GoodAttr(c06TNextHop, s.pt))
		out = append(out, m.bytes())
	}
	if len(v6) > 0 {
		m := &c06Msg{addPath: s.ap6(), wdrLenField: -1, attrLenField: -1, reach: v6}
		m.attrs = append(common(), c06Attr{flags: 0x80, typ: c06TMPReach, lenField: -1, val: c06MPReachVal(2, c06IP(c06V6NH), v6, s.ap6())})
		out = append(out, m.bytes())
	}
	return out
}

func c06StripID(k string) string {
	if i := strings.LastIndexByte(k, '#'); i >= 0 {
		return k[:i]
	}
	return k
}

// c06List lists a table of the server, keyed like c06Pfx.key.
func c06List(n *simNet, tt api.TableType, name string, addPath bool) (map[string]*apiutil.Path, error) {
	out := map[string]*apiutil.Path{}
	var ferr error
	for _, fam := range []bgp.Family{bgp.RF_IPv4_UC, bgp.RF_IPv6_UC} {
		err := n.s.ListPath(apiutil.ListPathRequest{TableType: tt, Name: name, Family: fam}, func(prefix bgp.NLRI, paths []*apiutil.Path) {
			for _, p := range paths {
				if p.Withdrawal {
					continue
				}
				if tt == api.TableType_TABLE_TYPE_GLOBAL && p.PeerAddress != netip.MustParseAddr(c06PeerAddr) {
					continue
				}
				out[c06Key(fam, prefix.String(), p.RemoteID, addPath)] = p
			}
		})
		if err != nil {
			ferr = err
		}
	}
	return out, ferr
}

// c06ObserverView replays everything the third speaker received: family/prefix -> attributes.
func c06ObserverView(sp *simSpeaker) map[string][]bgp.PathAttributeInterface {
	view := map[string][]bgp.PathAttributeInterface{}
	sp.mu.Lock()
	defer sp.mu.Unlock()
	for _, rx := range sp.rx {
		u, ok := rx.Msg.Body.(*bgp.BGPUpdate)
		if !ok {
			continue
		}
		for _, w := range u.WithdrawnRoutes {
			delete(view, c06Key(bgp.RF_IPv4_UC, w.NLRI.String(), 0, false))
		}
		for _, a := range u.PathAttributes {
			if un, ok := a.(*bgp.PathAttributeMpUnreachNLRI); ok {
				for _, w := range un.Value {
					delete(view, c06Key(bgp.NewFamily(un.AFI, un.SAFI), w.NLRI.String(), 0, false))
				}
			}
		}
		for _, nl := range u.NLRI {
			view[c06Key(bgp.RF_IPv4_UC, nl.NLRI.String(), 0, false)] = u.PathAttributes
		}
		for _, a := range u.PathAttributes {
			if re, ok := a.(*bgp.PathAttributeMpReachNLRI); ok {
				for _, nl := range re.Value {
					view[c06Key(bgp.NewFamily(re.AFI, re.SAFI), nl.NLRI.String(), 0, false)] = u.PathAttributes
				}
			}
		}
	}
	return view
}

func c06StateOf(as []bgp.PathAttributeInterface, present bool) c06PState {
	switch {
	case !present:
		return c06Gone
	case c06HasMarker(as):
		return c06Old
	}
	return c06New
}

// c06L2Session runs one end-to-end session for the case (c.faults may be empty: no-penalty run of the base).
func c06L2Session(t *testing.T, rec *vlib.Rec, idx int, c *c06Case) (obs *c06Obs, ok bool) {
	s := c.sess
	g := &api.Global{Asn: c06LocalAS, RouterId: "1.1.1.1"}
	if s.pt == c06Confed {
		g.Confederation = &api.Confederation{Enabled: true, Identifier: c06ConfedID, MemberAsList: []uint32{c06MemberAS}}
	}
	n := simStart(t, g)
	defer func() {
		n.stop()
		synctest.Wait()
	}()
	kind := simEBGP
	if s.pt == c06IBGP {
		kind = simIBGP
	}
	hold := uint16(0)
	if c.pipe != nil {
		hold = c.pipe.Hold
	}
	inj, err := n.addPeer(simPeerSpec{Kind: kind, Addr: c06PeerAddr, AS: s.pt.peerAS(), ID: "2.2.2.2", V6: true, APRecv: s.addPath, Hold: hold})
	if err != nil {
		rec.Inconclusive("c06: AddPeer: " + err.Error())
		return nil, false
	}
	third, err := n.addPeer(simPeerSpec{Kind: simEBGP, Addr: c06ObserverAdr, AS: c06ObserverAS, ID: "3.3.3.3", V6: true})
	if err != nil {
		rec.Inconclusive("c06: AddPeer: " + err.Error())
		return nil, false
	}
	if !s.taw {
		// ErrorHandling.Config.TreatAsWithdraw is not reachable through the API Peer message (it defaults to
		// true); set it in the peer's configuration before the session comes up, where stateChange latches it.
		err := n.s.mgmtOperation(func() error {
			peer, ok := n.s.neighborMap[netip.MustParseAddr(c06PeerAddr)]
			if !ok {
				return fmt.Errorf("no neighbor")
			}
			peer.fsm.lock.Lock()
			cf := peer.fsm.pConf.ReadCopy()
			cf.ErrorHandling.Config.TreatAsWithdraw = false
			peer.fsm.pConf.Update(&cf)
			peer.fsm.lock.Unlock()
			return nil
		}, false)
		if err != nil {
			rec.Inconclusive("c06: set treat-as-withdraw: " + err.Error())
			return nil, false
		}
	}
	synctest.Wait()
	// ---- what will be sent
	m := c.msg
	var pre []c06Pfx
	seen := map[string]bool{}
	for _, l := range [][]c06Pfx{m.nlri, m.reach, m.wdr, m.unreach} {
		for _, p := range l {
			if !seen[p.key(s.addPath)] {
				seen[p.key(s.addPath)] = true
				pre = append(pre, p)
			}
		}
	}
	var by []string
	for _, b := range c06Bystanders {
		p := c06P(b, 3)
		pre = append(pre, p)
		by = append(by, p.key(s.addPath))
	}
	trailer := c06P(c06Trailer, 3)
	if c.pipe != nil {
		// layer 3: OPEN + KEEPALIVE + [valid routes] + message under test + one more valid route, written back
		// to back without waiting for gobgp; optionally the Established handler is held up after it started
		// its I/O goroutines so that the receive side runs ahead of it.
		if err := third.bringUp(40); err != nil {
			rec.Inconclusive("c06: " + err.Error())
			return nil, false
		}
		var burst []byte
		if c.pipe.Prelude {
			for _, raw := range c06Prelude(s, pre) {
				burst = append(burst, raw...)
			}
		} else {
			by = nil
		}
		burst = append(burst, c.raw...)
		burst = append(burst, c06Prelude(s, []c06Pfx{trailer})[0]...)
		verifHookPtr.Store(&verifHooks{yield: func(point, peer string) {
			if point == "established" && peer == c06PeerAddr && c.pipe.HoldUp > 0 {
				time.Sleep(c.pipe.HoldUp)
			} else {
				runtime.Gosched()
			}
		}})
		err := c06PipeConnect(inj, burst, 40)
		time.Sleep(100 * time.Millisecond)
		synctest.Wait()
		verifHookPtr.Store(nil)
		if err != nil {
			rec.Inconclusive("c06: pipelined connect: " + err.Error())
			return nil, false
		}
	} else {
		for _, sp := range []*simSpeaker{inj, third} {
			if err := sp.bringUp(40); err != nil {
				rec.Inconclusive("c06: " + err.Error())
				return nil, false
			}
		}
	}
	var latched [3]bool
	n.s.mgmtOperation(func() error {
		f := n.s.neighborMap[netip.MustParseAddr(c06PeerAddr)].fsm
		latched = [3]bool{f.isTreatAsWithdraw, f.isEBGP, f.isConfed}
		return nil
	}, false)
	if latched != [3]bool{s.taw, s.pt != c06IBGP, s.pt == c06Confed} {
		rec.Inconclusive(fmt.Sprintf("c06: session parameters latched as taw/ebgp/confed=%v for %s", latched, s))
		return nil, false
	}

	if c.pipe == nil {
		// ---- valid routes first
		for _, raw := range c06Prelude(s, pre) {
			if err := inj.sendRaw(raw); err != nil {
				rec.Inconclusive("c06: send prelude: " + err.Error())
				return nil, false
			}
		}
		synctest.Wait()
		adj, _ := c06List(n, api.TableType_TABLE_TYPE_ADJ_IN, c06PeerAddr, s.addPath)
		view := c06ObserverView(third)
		for _, p := range pre {
			k := p.key(s.addPath)
			ap, inAdj := adj[k]
			_, atThird := view[c06StripID(k)+"#0"]
			if !inj.established() || !inAdj || !c06HasMarker(ap.Attrs) || !atThird {
				rec.Violation(fmt.Sprintf("c06:prelude:%s:not-accepted", s.pt),
					fmt.Sprintf("layer 2, %s session: the valid routes sent first were not all accepted and propagated (prefix %s: adj-in=%v third-peer=%v established=%v)", s, k, inAdj, atThird, inj.established()),
					c.witness(idx, nil))
				return nil, false
			}
		}

		// ---- the message under test
		if err := inj.sendRaw(c.raw); err != nil {
			rec.Inconclusive("c06: send: " + err.Error())
			return nil, false
		}
		synctest.Wait()
	}
	var tr *c06Pfx
	if c.pipe != nil {
		tr = &trailer
	}
	return c06Observe(rec, idx, n, inj, third, c, by, tr), true
}

// c06Observe reads off, at quiescence, what the message under test did: NOTIFICATION, session state, adj-in /
// global table of the injecting peer, the third speaker's view (by: bystander prefixes that must stay; trailer:
// prefix of a well-formed UPDATE written behind the message that must have been processed if the session lives).
func c06Observe(rec *vlib.Rec, idx int, n *simNet, inj, third *simSpeaker, c *c06Case, by []string, trailerP *c06Pfx) *c06Obs {
	s, m := c.sess, c.msg
	o := &c06Obs{label: -1, state: map[string]c06PState{}, attrs: map[string][]bgp.PathAttributeInterface{}}
	inj.mu.Lock()
	nf := inj.notif
	inj.mu.Unlock()
	est := inj.established()
	if nf != nil {
		o.reset, o.code, o.sub = true, nf.ErrorCode, nf.ErrorSubcode
		if est {
			o.notes = append(o.notes, "NOTIFICATION sent but the session is still reported established")
		}
	} else if !est {
		o.reset = true
		o.notes = append(o.notes, "session went down without a NOTIFICATION")
	}
	adj, _ := c06List(n, api.TableType_TABLE_TYPE_ADJ_IN, c06PeerAddr, s.addPath)
	glob, _ := c06List(n, api.TableType_TABLE_TYPE_GLOBAL, "", s.addPath)
	view := c06ObserverView(third)
	if trailerP != nil && !o.reset {
		if tp, in := adj[trailerP.key(s.addPath)]; !in || !c06HasMarker(tp.Attrs) {
			o.dead = true
		}
	}
	ann, wd := m.named()
	keys := append(append(append([]string{}, ann...), wd...), by...)
	var third3 []string
	for _, k := range keys {
		ap, in := adj[k]
		var as []bgp.PathAttributeInterface
		if in {
			as = ap.Attrs
		}
		st := c06StateOf(as, in)
		gp, inG := glob[k]
		var gas []bgp.PathAttributeInterface
		if inG {
			gas = gp.Attrs
		}
		gst := c06StateOf(gas, inG)
		vas, inV := view[c06StripID(k)+"#0"]
		vst := c06StateOf(vas, inV)
		o.state[k] = st
		if st == c06New {
			o.attrs[k] = as
		}
		if gst != st && gst != c06Gone {
			third3 = append(third3, fmt.Sprintf("%s: adj-in %s but global %s", k, st, gst))
		}
		if vst != gst {
			third3 = append(third3, fmt.Sprintf("%s: global %s but third peer holds %s", k, gst, vst))
		}
		if o.reset && (st != c06Gone || gst != c06Gone || vst != c06Gone) {
			third3 = append(third3, fmt.Sprintf("%s: after the reset adj-in %s, global %s, third peer %s", k, st, gst, vst))
		}
	}
	rec.Count(fmt.Sprintf("l%d_third_peer_checks", c.layer), len(keys))
	if !o.reset {
		for _, k := range by {
			if o.state[k] != c06Old {
				o.unnamed = append(o.unnamed, k+"="+o.state[k].String())
			}
		}
	}
	if len(third3) > 0 {
		fam := "base"
		if len(c.faults) == 1 {
			fam = c.faults[0].family()
		} else if len(c.faults) > 1 {
			fam = "pair"
		}
		taw := 0
		if s.taw {
			taw = 1
		}
		key := fmt.Sprintf("c06:%s:%s:taw%d:tables-disagree", fam, s.pt, taw)
		if fam == "pair" {
			key = fmt.Sprintf("c06:pair:tables-disagree:%s:taw%d", s.pt, taw)
		}
		rec.Violation(key,
			fmt.Sprintf("end to end, %s session, faults %s: adj-in, global table and the third peer's view disagree: %s", s, c.faultIDs(), strings.Join(third3, "; ")), c.witness(idx, o))
	}
	return o
}

// c06PickCase draws an applicable (base, position) for the faults on the session, preferring bases
// that announce something (so that the reaction can be told from the outside).
func c06PickCase(r *rand.Rand, layer int, pt c06PeerType, taw bool, faults []*c06Fault) *c06Case {
	var fallback *c06Case
	for try := 0; try < 40; try++ {
		bi := r.IntN(len(c06Bases))
		s := c06Sess{pt: pt, taw: taw, addPath: c06Bases[bi].addPath}
		pos := make([]int, len(faults))
		for i := range pos {
			pos[i] = r.IntN(c06NPos(bi, pt) + 1)
		}
		c, ok := c06Make(layer, s, bi, faults, pos)
		if !ok || !c.present() {
			continue
		}
		if ann, _ := c.required(); len(ann) > 0 {
			return c
		}
		if fallback == nil {
			fallback = c
		}
	}
	return fallback
}
