package server

// simnet — the whole gobgp daemon in virtual time (testing/synctest) talking to scripted BGP
// speakers over net.Pipe connections. Shared by the session-level checks (C01, C02, C06, C07, C08,
// C12, C15, C17, C20). Everything here is test-side; gobgp is only touched through its public
// API, its wire bytes, and the white-box points listed in DESIGN.md §2.8.

import (
	"context"
	"errors"
	"fmt"
	"io"
	"net"
	"net/netip"
	"os"
	"runtime"
	"sort"
	"strings"
	"sync"
	"sync/atomic"
	"syscall"
	"testing"
	"time"

	"github.com/osrg/gobgp/v4/api"
	"github.com/osrg/gobgp/v4/internal/pkg/table"
	"github.com/osrg/gobgp/v4/pkg/apiutil"
	"github.com/osrg/gobgp/v4/pkg/packet/bgp"
)

const simLocalAddr = "10.0.0.1"

var simDebug = os.Getenv("VERIF_DEBUG") != ""

// ---------------------------------------------------------------- transport

type simConn struct {
	net.Conn
	l, r net.Addr

	// net.Pipe serialises writers with a sync.Mutex that it holds while a write is blocked on the
	// reader. A goroutine waiting for a mutex is not durably blocked, so a second gobgp writer
	// (e.g. sendNotification while sendMessageloop is stuck behind a slow reader) would keep the
	// synctest bubble from ever becoming idle, and - unlike a TCP socket - would ignore its write
	// deadline. This wrapper serialises writers with a channel instead and honours the deadline
	// while waiting, which is what a kernel socket does.
	wsem   chan struct{}
	closed chan struct{}
	once   sync.Once
	dmu    sync.Mutex
	wdl    time.Time
}

func newSimConn(c net.Conn, l, r net.Addr) *simConn {
	return &simConn{Conn: c, l: l, r: r, wsem: make(chan struct{}, 1), closed: make(chan struct{})}
}

func (p *simConn) LocalAddr() net.Addr  { return p.l }
func (p *simConn) RemoteAddr() net.Addr { return p.r }

func (p *simConn) SetWriteDeadline(t time.Time) error {
	p.dmu.Lock()
	p.wdl = t
	p.dmu.Unlock()
	return p.Conn.SetWriteDeadline(t)
}

func (p *simConn) SetDeadline(t time.Time) error {
	p.dmu.Lock()
	p.wdl = t
	p.dmu.Unlock()
	return p.Conn.SetDeadline(t)
}

func (p *simConn) Close() error {
	p.once.Do(func() { close(p.closed) })
	return p.Conn.Close()
}

func (p *simConn) Write(b []byte) (int, error) {
	p.dmu.Lock()
	dl := p.wdl
	p.dmu.Unlock()
	var expired <-chan time.Time
	if !dl.IsZero() {
		d := time.Until(dl)
		if d <= 0 {
			return 0, os.ErrDeadlineExceeded
		}
		t := time.NewTimer(d)
		defer t.Stop()
		expired = t.C
	}
	select {
	case p.wsem <- struct{}{}:
	case <-expired:
		return 0, os.ErrDeadlineExceeded
	case <-p.closed:
		return 0, io.ErrClosedPipe
	}
	defer func() { <-p.wsem }()
	return p.Conn.Write(b)
}

// SyscallConn fails softly: gobgp's sockopt helpers (TTL, MSS) log the error and go on, exactly
// as they would for a socket type they cannot handle.
func (p *simConn) SyscallConn() (syscall.RawConn, error) { return nil, errors.New("simnet: no raw conn") }

func simTCPAddr(ip string, port uint16) net.Addr {
	return net.TCPAddrFromAddrPort(netip.AddrPortFrom(netip.MustParseAddr(ip), port))
}

// simPipe returns (gobgp side, speaker side).
func simPipe(local, remote string, rport uint16) (net.Conn, net.Conn) {
	a, b := net.Pipe()
	return newSimConn(a, simTCPAddr(local, 179), simTCPAddr(remote, rport)), b
}

// ---------------------------------------------------------------- server under test

type simNet struct {
	t        *testing.T
	s        *BgpServer
	acceptCh chan net.Conn
	mu       sync.Mutex
	speakers map[string]*simSpeaker
	dialMu   sync.Mutex
	dialQ    map[string]chan net.Conn // addr -> conns offered to gobgp's active connect
}

func simStart(t *testing.T, g *api.Global) *simNet {
	s := NewBgpServer()
	go s.Serve()
	if g.ListenPort == 0 {
		g.ListenPort = -1
	}
	if err := s.StartBgp(context.Background(), &api.StartBgpRequest{Global: g}); err != nil {
		t.Fatalf("simnet: StartBgp: %v", err)
	}
	n := &simNet{t: t, s: s, acceptCh: make(chan net.Conn, 64), speakers: map[string]*simSpeaker{}, dialQ: map[string]chan net.Conn{}}
	if err := s.mgmtOperation(func() error { s.acceptCh = n.acceptCh; return nil }, false); err != nil {
		t.Fatalf("simnet: install acceptCh: %v", err)
	}
	return n
}

func (n *simNet) stop() {
	n.mu.Lock()
	sp := make([]*simSpeaker, 0, len(n.speakers))
	for _, s := range n.speakers {
		sp = append(sp, s)
	}
	n.mu.Unlock()
	for _, s := range sp {
		s.close()
	}
	n.s.Stop()
}

// ---------------------------------------------------------------- speaker

type simRoute struct {
	Attrs   string // canonical: attributes sorted by type, MP_REACH/MP_UNREACH removed, rendered
	Nexthop string
}

type simRouteKey struct {
	Family bgp.Family
	Prefix string
	ID     uint32
}

func (k simRouteKey) String() string { return fmt.Sprintf("%s/%s#%d", k.Family, k.Prefix, k.ID) }

type simRxMsg struct {
	At  time.Time
	Msg *bgp.BGPMessage
	Raw []byte
}

type simSpeakerConf struct {
	Addr     string
	AS       uint32
	ID       string
	Hold     uint16
	Caps     []bgp.ParameterCapabilityInterface // nil => 4-octet AS + MP(ipv4-unicast)
	Families []bgp.Family                       // convenience: MP caps for these (used when Caps == nil)
	AddPath  map[bgp.Family]bgp.BGPAddPathMode  // as announced by the speaker (used when Caps == nil)
	NoAS4    bool
	NoRouteRefresh bool
	ExtraCaps []bgp.ParameterCapabilityInterface // appended to the generated capabilities (used when Caps == nil)
	Keepalive bool // with Hold > 0: send KEEPALIVE every Hold/3 until goSilent (harnesses that script keepalives themselves leave it off)
	Port     uint16
	Local    string // gobgp-side (local) address of the connections offered by connectPassive; "" = simLocalAddr
}

type simSpeaker struct {
	n    *simNet
	conf simSpeakerConf
	c    net.Conn

	mu        sync.Mutex
	view      map[simRouteKey]simRoute
	rx        []simRxMsg
	nUpdates  int
	eor       map[bgp.Family]int
	notif     *bgp.BGPNotification
	closedErr error
	peerOpen  *bgp.BGPOpen
	rxAddPath map[bgp.Family]bool // path ids present in what gobgp sends us
	txAddPath map[bgp.Family]bool // path ids present in what we send
	ext       bool
	dupID     []string // protocol-level anomalies seen by the receiver model
	txSem     chan struct{}        // serialises the speaker's writers (net.Pipe would park a second writer on a mutex, which is not durably blocking)
	silent    bool                 // keepalive sender switched off (goSilent)
	lastKA    time.Time            // (virtual) time of the last message written (it restarts gobgp's hold timer)
	overMax   int                  // >0: note paths that arrive while the prefix already holds overMax paths
	overSent  map[simRouteKey]bool // such paths (until withdrawn / session end)
	readerWG  sync.WaitGroup

	pmu    sync.Mutex
	paused bool
	gate   *sync.Cond
	done   chan struct{}
}

func (n *simNet) newSpeaker(c simSpeakerConf) *simSpeaker {
	if c.Port == 0 {
		c.Port = 40000
	}
	sp := &simSpeaker{n: n, conf: c, view: map[simRouteKey]simRoute{}, eor: map[bgp.Family]int{}, done: make(chan struct{}), txSem: make(chan struct{}, 1)}
	sp.gate = sync.NewCond(&sp.pmu)
	n.mu.Lock()
	n.speakers[c.Addr] = sp
	n.mu.Unlock()
	return sp
}

func (sp *simSpeaker) caps() []bgp.ParameterCapabilityInterface {
	if sp.conf.Caps != nil {
		return sp.conf.Caps
	}
	var caps []bgp.ParameterCapabilityInterface
	fams := sp.conf.Families
	if len(fams) == 0 {
		fams = []bgp.Family{bgp.RF_IPv4_UC}
	}
	for _, f := range fams {
		caps = append(caps, bgp.NewCapMultiProtocol(f))
	}
	if !sp.conf.NoAS4 {
		caps = append(caps, bgp.NewCapFourOctetASNumber(sp.conf.AS))
	}
	if !sp.conf.NoRouteRefresh {
		caps = append(caps, bgp.NewCapRouteRefresh())
	}
	if len(sp.conf.AddPath) > 0 {
		var tuples []*bgp.CapAddPathTuple
		for _, f := range fams {
			if m, ok := sp.conf.AddPath[f]; ok && m != 0 {
				tuples = append(tuples, bgp.NewCapAddPathTuple(f, m))
			}
		}
		if len(tuples) > 0 {
			caps = append(caps, bgp.NewCapAddPath(tuples))
		}
	}
	caps = append(caps, sp.conf.ExtraCaps...)
	return caps
}

func simReadMsgRaw(c net.Conn) (*bgp.BGPHeader, []byte, error) {
	h := make([]byte, bgp.BGP_HEADER_LENGTH)
	if _, err := io.ReadFull(c, h); err != nil {
		return nil, nil, err
	}
	hd := &bgp.BGPHeader{}
	if err := hd.DecodeFromBytes(h); err != nil {
		return nil, nil, err
	}
	if hd.Len < bgp.BGP_HEADER_LENGTH {
		return nil, nil, fmt.Errorf("simnet: short length %d", hd.Len)
	}
	b := make([]byte, int(hd.Len)-bgp.BGP_HEADER_LENGTH)
	if _, err := io.ReadFull(c, b); err != nil {
		return nil, nil, err
	}
	return hd, b, nil
}

// connectPassive offers a new inbound connection to gobgp and performs the OPEN/KEEPALIVE
// exchange. It returns an error if gobgp did not bring the session up.
func (sp *simSpeaker) connectPassive() error {
	local := simLocalAddr
	if sp.conf.Local != "" {
		local = sp.conf.Local
	}
	gside, mine := simPipe(local, sp.conf.Addr, sp.conf.Port)
	sp.n.acceptCh <- gside
	return sp.handshake(mine)
}

func (sp *simSpeaker) openMsg() *bgp.BGPMessage {
	as := sp.conf.AS
	myas := uint16(as)
	if as > 65535 {
		myas = bgp.AS_TRANS
	}
	var opts []bgp.OptionParameterInterface
	if caps := sp.caps(); len(caps) > 0 {
		opts = append(opts, bgp.NewOptionParameterCapability(caps))
	}
	m, _ := bgp.NewBGPOpenMessage(myas, sp.conf.Hold, netip.MustParseAddr(sp.conf.ID), opts)
	return m
}

func (sp *simSpeaker) handshake(mine net.Conn) error {
	sp.mu.Lock()
	sp.c = mine
	sp.view = map[simRouteKey]simRoute{}
	sp.overSent = map[simRouteKey]bool{}
	sp.eor = map[bgp.Family]int{}
	sp.notif = nil
	sp.closedErr = nil
	sp.done = make(chan struct{})
	sp.mu.Unlock()
	hd, body, err := simReadMsgRaw(mine)
	if err != nil {
		return fmt.Errorf("read OPEN: %w", err)
	}
	m, err := bgp.ParseBGPBody(hd, body)
	if err != nil {
		return fmt.Errorf("parse OPEN: %w", err)
	}
	open, ok := m.Body.(*bgp.BGPOpen)
	if !ok {
		return fmt.Errorf("expected OPEN, got type %d", hd.Type)
	}
	sp.negotiate(open)
	if err := sp.sendMsg(sp.openMsg()); err != nil {
		return err
	}
	hd, body, err = simReadMsgRaw(mine)
	if err != nil {
		return fmt.Errorf("read KEEPALIVE: %w", err)
	}
	if hd.Type != bgp.BGP_MSG_KEEPALIVE {
		if hd.Type == bgp.BGP_MSG_NOTIFICATION {
			if m, err := bgp.ParseBGPBody(hd, body); err == nil {
				nb := m.Body.(*bgp.BGPNotification)
				return fmt.Errorf("NOTIFICATION %d/%d instead of KEEPALIVE", nb.ErrorCode, nb.ErrorSubcode)
			}
		}
		return fmt.Errorf("expected KEEPALIVE, got type %d", hd.Type)
	}
	if err := sp.sendMsg(bgp.NewBGPKeepAliveMessage()); err != nil {
		return err
	}
	sp.readerWG.Add(1)
	go sp.reader(mine, sp.done)
	if sp.conf.Keepalive && sp.conf.Hold >= 3 {
		sp.mu.Lock()
		sp.silent, sp.lastKA = false, time.Now()
		sp.mu.Unlock()
		go sp.keepaliveSender(mine, sp.done, time.Duration(sp.conf.Hold)*time.Second/3)
	}
	return nil
}

// keepaliveSender keeps the session alive until the connection ends or goSilent is called.
func (sp *simSpeaker) keepaliveSender(c net.Conn, done chan struct{}, every time.Duration) {
	for {
		select {
		case <-done:
			return
		case <-time.After(every):
		}
		sp.mu.Lock()
		silent, cur := sp.silent, sp.c
		if !silent && cur == c {
			sp.lastKA = time.Now()
		}
		sp.mu.Unlock()
		if silent || cur != c {
			return
		}
		if sp.sendMsg(bgp.NewBGPKeepAliveMessage()) != nil {
			return
		}
	}
}

// goSilent stops the keepalive sender so that gobgp's hold timer runs out one hold time after the last
// KEEPALIVE. With crossing set, the speaker's own hold-timer expiry is played at that very (virtual)
// instant: NOTIFICATION 4/0 and close arrive while gobgp's hold timer fires. Returns immediately.
func (sp *simSpeaker) goSilent(crossing bool) {
	sp.mu.Lock()
	sp.silent = true
	c, last, done := sp.c, sp.lastKA, sp.done
	sp.mu.Unlock()
	if !crossing || c == nil {
		return
	}
	hold := time.Duration(sp.conf.Hold) * time.Second
	go func() {
		select {
		case <-done:
			return
		case <-time.After(time.Until(last.Add(hold))):
		}
		if b, err := bgp.NewBGPNotificationMessage(bgp.BGP_ERROR_HOLD_TIMER_EXPIRED, 0, nil).Serialize(); err == nil {
			sp.write(c, b)
		}
		c.Close()
	}()
}

// negotiate derives, from gobgp's OPEN and our own capabilities, how the byte stream is framed.
func (sp *simSpeaker) negotiate(open *bgp.BGPOpen) {
	sp.mu.Lock()
	defer sp.mu.Unlock()
	sp.peerOpen = open
	sp.rxAddPath = map[bgp.Family]bool{}
	sp.txAddPath = map[bgp.Family]bool{}
	theirs := map[bgp.Family]bgp.BGPAddPathMode{}
	theirExt := false
	for _, p := range open.OptParams {
		if c, ok := p.(*bgp.OptionParameterCapability); ok {
			for _, cc := range c.Capability {
				switch v := cc.(type) {
				case *bgp.CapAddPath:
					for _, tp := range v.Tuples {
						theirs[tp.Family] = tp.Mode
					}
				case *bgp.CapExtendedMessage:
					theirExt = true
				}
			}
		}
	}
	mine := map[bgp.Family]bgp.BGPAddPathMode{}
	myExt := false
	for _, cc := range sp.caps() {
		switch v := cc.(type) {
		case *bgp.CapAddPath:
			for _, tp := range v.Tuples {
				mine[tp.Family] = tp.Mode
			}
		case *bgp.CapExtendedMessage:
			myExt = true
		}
	}
	for f, m := range mine {
		t := theirs[f]
		if m&bgp.BGP_ADD_PATH_RECEIVE != 0 && t&bgp.BGP_ADD_PATH_SEND != 0 {
			sp.rxAddPath[f] = true
		}
		if m&bgp.BGP_ADD_PATH_SEND != 0 && t&bgp.BGP_ADD_PATH_RECEIVE != 0 {
			sp.txAddPath[f] = true
		}
	}
	sp.ext = myExt && theirExt
}

func (sp *simSpeaker) rxOptions() *bgp.MarshallingOption {
	m := map[bgp.Family]bgp.BGPAddPathMode{}
	for f, on := range sp.rxAddPath {
		if on {
			m[f] = bgp.BGP_ADD_PATH_RECEIVE
		}
	}
	return &bgp.MarshallingOption{AddPath: m, ExtendedMessage: sp.ext}
}

func (sp *simSpeaker) txOptions() *bgp.MarshallingOption {
	m := map[bgp.Family]bgp.BGPAddPathMode{}
	for f, on := range sp.txAddPath {
		if on {
			m[f] = bgp.BGP_ADD_PATH_SEND
		}
	}
	return &bgp.MarshallingOption{AddPath: m, ExtendedMessage: sp.ext}
}

func (sp *simSpeaker) setPaused(p bool) {
	sp.pmu.Lock()
	sp.paused = p
	sp.pmu.Unlock()
	sp.gate.Broadcast()
}

func simCanonAttrs(attrs []bgp.PathAttributeInterface) (string, string) {
	as := make([]bgp.PathAttributeInterface, 0, len(attrs))
	nh := ""
	for _, a := range attrs {
		switch v := a.(type) {
		case *bgp.PathAttributeMpReachNLRI:
			nh = v.Nexthop.Unmap().String() // a v4 next hop travels as ::ffff:a.b.c.d in a v6 MP_REACH
			if v.LinkLocalNexthop.IsValid() {
				nh += "," + v.LinkLocalNexthop.String()
			}
			continue
		case *bgp.PathAttributeMpUnreachNLRI:
			continue
		case *bgp.PathAttributeNextHop:
			nh = v.Value.Unmap().String()
			continue
		}
		as = append(as, a)
	}
	sort.SliceStable(as, func(i, j int) bool { return as[i].GetType() < as[j].GetType() })
	var sb strings.Builder
	for _, a := range as {
		sb.WriteString(a.String())
		sb.WriteString(";")
	}
	return sb.String(), nh
}

func (sp *simSpeaker) reader(c net.Conn, done chan struct{}) {
	defer sp.readerWG.Done()
	defer close(done)
	for {
		sp.pmu.Lock()
		for sp.paused {
			sp.gate.Wait()
		}
		sp.pmu.Unlock()
		hd, body, err := simReadMsgRaw(c)
		if err != nil {
			sp.mu.Lock()
			sp.closedErr = err
			sp.mu.Unlock()
			return
		}
		sp.mu.Lock()
		opt := sp.rxOptions()
		sp.mu.Unlock()
		m, err := bgp.ParseBGPBody(hd, body, opt)
		now := time.Now()
		sp.mu.Lock()
		if err != nil {
			sp.dupID = append(sp.dupID, fmt.Sprintf("unparsable message type %d from gobgp: %v", hd.Type, err))
			sp.mu.Unlock()
			continue
		}
		if simDebug {
			fmt.Printf("SIMDBG %s rx at %s type=%d %v\n", sp.conf.Addr, now.Format("15:04:05"), hd.Type, m.Body)
		}
		raw := append(append([]byte{}, mustSerializeHeader(hd)...), body...)
		sp.rx = append(sp.rx, simRxMsg{At: now, Msg: m, Raw: raw})
		switch b := m.Body.(type) {
		case *bgp.BGPUpdate:
			sp.nUpdates++
			sp.applyUpdate(b)
		case *bgp.BGPNotification:
			sp.notif = b
		}
		sp.mu.Unlock()
	}
}

func mustSerializeHeader(h *bgp.BGPHeader) []byte {
	b, _ := h.Serialize()
	return b
}

// applyUpdate is the receiver model: strictly in byte order, withdrawals first then
// announcements within one message (RFC 4271 §3.1: a message's withdrawn routes and NLRI
// are disjoint; gobgp never emits both for one prefix in one message — if it did the NLRI wins).
func (sp *simSpeaker) applyUpdate(u *bgp.BGPUpdate) {
	if ok, fam := u.IsEndOfRib(); ok {
		sp.eor[fam]++
		return
	}
	del := func(k simRouteKey) {
		delete(sp.view, k)
		delete(sp.overSent, k)
	}
	put := func(k simRouteKey, r simRoute) {
		if _, held := sp.view[k]; !held && sp.overMax > 0 {
			var same []simRouteKey
			for o := range sp.view {
				if o.Family == k.Family && o.Prefix == k.Prefix {
					same = append(same, o)
				}
			}
			if len(same) >= sp.overMax {
				// more paths than overMax for this prefix from now on: every path involved is noted
				if sp.overSent == nil {
					sp.overSent = map[simRouteKey]bool{}
				}
				sp.overSent[k] = true
				for _, o := range same {
					sp.overSent[o] = true
				}
			}
		}
		sp.view[k] = r
	}
	for _, w := range u.WithdrawnRoutes {
		del(simRouteKey{bgp.RF_IPv4_UC, w.NLRI.String(), w.ID})
	}
	attrs, nh := simCanonAttrs(u.PathAttributes)
	for _, a := range u.PathAttributes {
		if un, ok := a.(*bgp.PathAttributeMpUnreachNLRI); ok {
			fam := bgp.NewFamily(un.AFI, un.SAFI)
			for _, w := range un.Value {
				del(simRouteKey{fam, w.NLRI.String(), w.ID})
			}
		}
	}
	for _, nl := range u.NLRI {
		put(simRouteKey{bgp.RF_IPv4_UC, nl.NLRI.String(), nl.ID}, simRoute{attrs, nh})
	}
	for _, a := range u.PathAttributes {
		if re, ok := a.(*bgp.PathAttributeMpReachNLRI); ok {
			fam := bgp.NewFamily(re.AFI, re.SAFI)
			for _, nl := range re.Value {
				put(simRouteKey{fam, nl.NLRI.String(), nl.ID}, simRoute{attrs, nh})
			}
		}
	}
}

func (sp *simSpeaker) sendMsg(m *bgp.BGPMessage) error {
	sp.mu.Lock()
	opt := sp.txOptions()
	c := sp.c
	sp.lastKA = time.Now() // any message restarts gobgp's hold timer
	sp.mu.Unlock()
	b, err := m.Serialize(opt)
	if err != nil {
		return fmt.Errorf("simnet: serialize: %w", err)
	}
	return sp.write(c, b)
}

// write puts b on the wire; concurrent writers (script, keepalive sender, crossing NOTIFICATION) queue on a
// channel so that a writer waiting for its turn is durably blocked like one waiting for the reader.
func (sp *simSpeaker) write(c net.Conn, b []byte) error {
	sp.txSem <- struct{}{}
	defer func() { <-sp.txSem }()
	_, err := c.Write(b)
	return err
}

func (sp *simSpeaker) sendRaw(b []byte) error {
	sp.mu.Lock()
	c := sp.c
	sp.mu.Unlock()
	return sp.write(c, b)
}

func (sp *simSpeaker) close() {
	sp.mu.Lock()
	c := sp.c
	sp.mu.Unlock()
	sp.setPaused(false)
	if c != nil {
		c.Close()
	}
}

func (sp *simSpeaker) snapshot() map[simRouteKey]simRoute {
	sp.mu.Lock()
	defer sp.mu.Unlock()
	out := make(map[simRouteKey]simRoute, len(sp.view))
	for k, v := range sp.view {
		out[k] = v
	}
	return out
}

func (sp *simSpeaker) established() bool {
	st := api.PeerState_SESSION_STATE_UNSPECIFIED
	sp.n.s.ListPeer(context.Background(), &api.ListPeerRequest{Address: sp.conf.Addr}, func(p *api.Peer) { st = p.State.SessionState })
	return st == api.PeerState_SESSION_STATE_ESTABLISHED
}

// ---------------------------------------------------------------- API-side observation

func (n *simNet) listPaths(tt api.TableType, name string, fam bgp.Family) (map[simRouteKey][]*apiutil.Path, error) {
	out := map[simRouteKey][]*apiutil.Path{}
	err := n.s.ListPath(apiutil.ListPathRequest{TableType: tt, Name: name, Family: fam}, func(prefix bgp.NLRI, paths []*apiutil.Path) {
		for _, p := range paths {
			k := simRouteKey{fam, prefix.String(), 0}
			out[k] = append(out[k], p)
		}
	})
	return out, err
}

// adjOut returns what gobgp says it advertises to peer addr right now (freshly computed from the
// table through filterpath/export policy — independent of the incremental machinery).
func (n *simNet) adjOut(addr string, fam bgp.Family, addPath bool) (map[simRouteKey]simRoute, error) {
	out := map[simRouteKey]simRoute{}
	err := n.s.ListPath(apiutil.ListPathRequest{TableType: api.TableType_TABLE_TYPE_ADJ_OUT, Name: addr, Family: fam}, func(prefix bgp.NLRI, paths []*apiutil.Path) {
		for _, p := range paths {
			if p.Filtered || p.Withdrawal {
				continue
			}
			a, nh := simCanonAttrs(p.Attrs)
			id := uint32(0)
			if addPath {
				id = p.LocalID
			}
			out[simRouteKey{fam, prefix.String(), id}] = simRoute{a, nh}
		}
	})
	return out, err
}

// adjOutEligible is the white-box variant of adjOut for ADD-PATH targets: ListPath(ADJ_OUT)
// rebuilds an AdjRib keyed by *remote* path id, which collapses paths of different sources, so
// it under-reports what an ADD-PATH peer should hold. This runs the same fresh evaluation
// (getBestFromLocalCallback -> filterpath: loop prevention, export policy, attribute rewriting)
// and keeps every resulting path under its local path id.
func (n *simNet) adjOutEligible(addr string) (map[simRouteKey]simRoute, error) {
	out := map[simRouteKey]simRoute{}
	err := n.s.mgmtOperation(func() error {
		peer, ok := n.s.neighborMap[netip.MustParseAddr(addr)]
		if !ok {
			return fmt.Errorf("no such neighbor %s", addr)
		}
		n.s.getBestFromLocalCallback(peer, peer.configuredRFlist(), false, false, func(paths []*table.Path, _ []*table.Path) {
			for _, p := range paths {
				if p == nil || p.IsEOR() || p.IsWithdraw {
					continue
				}
				ap := toPathApiUtil(p)
				a, nh := simCanonAttrs(ap.Attrs)
				out[simRouteKey{p.GetFamily(), p.GetNlri().String(), ap.LocalID}] = simRoute{a, nh}
			}
		})
		return nil
	}, true)
	return out, err
}

// simInstallYield installs the schedule-diversifying yield hook (build tag verif) for one case and
// returns (signature of the order in which yield points were passed, number of points passed,
// uninstall). Virtual sleeps are only used where gobgp holds no lock ("bucket" is inside the shared
// read lock: a sleeper there would stop virtual time for ever because a goroutine waiting for the
// write lock is not durably blocked).
func simInstallYield(seed uint64, allowSleep bool) (sig func() uint64, count func() int64, uninstall func()) {
	var n atomic.Int64
	var sg atomic.Uint64
	verifHookPtr.Store(&verifHooks{yield: func(point, peer string) {
		x := uint64(n.Add(1))*0x9E3779B97F4A7C15 ^ seed
		x ^= x >> 29
		x *= 0xBF58476D1CE4E5B9
		x ^= x >> 32
		for {
			old := sg.Load()
			if sg.CompareAndSwap(old, old*1099511628211^uint64(len(point))^uint64(len(peer))<<8^uint64(point[0])<<16) {
				break
			}
		}
		switch x & 7 {
		case 0, 1, 2:
			runtime.Gosched()
		case 3:
			runtime.Gosched()
			runtime.Gosched()
			runtime.Gosched()
		case 4:
			// (a sleeping goroutine is durably blocked: synctest.Wait() would report quiescence while
			// gobgp still has work in hand, so checks that compare at quiescence must not allow sleeps)
			if allowSleep && point != "bucket" && point != "walk" && point != "target" { // both sit inside locks other goroutines wait for
				time.Sleep(time.Duration(x>>8&1023) * time.Microsecond)
			} else {
				runtime.Gosched()
			}
		}
	}})
	return sg.Load, n.Load, func() { verifHookPtr.Store(nil) }
}
