package server

// C18 (unit server) — stateful sequences on configuration objects. After every step the object is
// listed back and compared with what an API client is entitled to expect from the sequence:
//   defined sets   create / AddDefinedSet{Replace:true} (exactly the new members) / AddDefinedSet on
//                  an existing name (union) / DeleteDefinedSet with members, All=false (difference) /
//                  delete all + re-create. Reference listing = a FRESH set created once with the
//                  expected members (so every normalisation gobgp applies to a member is the same
//                  on both sides); members are compared as a set of listed strings.
//   statements     AddStatement on an existing name with further condition/action kinds (union),
//                  DeleteStatement All=false (those kinds are gone, the others stay).
//   policies       AddPolicy on an existing name (statements appended), DeletePolicy All=false
//                  (named statements removed), delete + re-create.
//   assignments    Add (append) / Set (replace) / Delete with policies (difference) / Delete all.
//   neighbors      AddPeer, UpdatePeer with another configuration, ListPeer: what the update set.

import (
	"fmt"
	"math/rand/v2"
	"sort"
	"strings"

	"google.golang.org/protobuf/proto"
	"google.golang.org/protobuf/reflect/protoreflect"

	"github.com/osrg/gobgp/v4/api"
)

// ---------------------------------------------------------------- defined sets

func c18MemberKey(typ api.DefinedType, ds *api.DefinedSet) []string {
	var out []string
	if typ == api.DefinedType_DEFINED_TYPE_PREFIX {
		for _, p := range ds.Prefixes {
			out = append(out, fmt.Sprintf("%s%s %d..%d", p.IpPrefix, p.RtcPrefix, p.MaskLengthMin, p.MaskLengthMax))
		}
	} else {
		out = append(out, ds.List...)
	}
	sort.Strings(out)
	return out
}

// c18SetModel: the members a client has configured, in configuration form, without duplicates.
type c18SetModel struct {
	typ      api.DefinedType
	list     []string
	prefixes []*api.Prefix
}

func c18PrefixCfgKey(p *api.Prefix) string {
	return fmt.Sprintf("%s %d..%d", p.IpPrefix, p.MaskLengthMin, p.MaskLengthMax)
}

func (m *c18SetModel) size() int { return len(m.list) + len(m.prefixes) }

func (m *c18SetModel) add(ds *api.DefinedSet) {
	for _, e := range ds.List {
		dup := false
		for _, x := range m.list {
			dup = dup || x == e
		}
		if !dup {
			m.list = append(m.list, e)
		}
	}
	for _, p := range ds.Prefixes {
		dup := false
		for _, x := range m.prefixes {
			dup = dup || x.IpPrefix == p.IpPrefix // one entry per prefix: the sequences never configure two ranges of one prefix
		}
		if !dup {
			m.prefixes = append(m.prefixes, p)
		}
	}
}

func (m *c18SetModel) remove(ds *api.DefinedSet) {
	var l []string
	for _, x := range m.list {
		keep := true
		for _, e := range ds.List {
			keep = keep && x != e
		}
		if keep {
			l = append(l, x)
		}
	}
	m.list = l
	var ps []*api.Prefix
	for _, x := range m.prefixes {
		keep := true
		for _, p := range ds.Prefixes {
			keep = keep && c18PrefixCfgKey(x) != c18PrefixCfgKey(p)
		}
		if keep {
			ps = append(ps, x)
		}
	}
	m.prefixes = ps
}

func (m *c18SetModel) message(name string) *api.DefinedSet {
	ds := &api.DefinedSet{DefinedType: m.typ, Name: name, List: append([]string{}, m.list...)}
	for _, p := range m.prefixes {
		ds.Prefixes = append(ds.Prefixes, proto.Clone(p).(*api.Prefix))
	}
	return ds
}

// c18DrawMembers draws members for a set of type typ (prefix sets: of the given family), none of
// which repeats a prefix already in the model.
func c18DrawMembers(r *rand.Rand, typ api.DefinedType, name string, v6 bool, m *c18SetModel) *api.DefinedSet {
	for try := 0; try < 50; try++ {
		ds := c18GenDefinedSet(r, typ, name)
		if typ != api.DefinedType_DEFINED_TYPE_PREFIX {
			return ds
		}
		if len(ds.Prefixes) == 0 || strings.Contains(ds.Prefixes[0].IpPrefix, ":") != v6 {
			continue
		}
		var ps []*api.Prefix
		for _, p := range ds.Prefixes {
			dup := false
			for _, x := range m.prefixes {
				dup = dup || x.IpPrefix == p.IpPrefix
			}
			if !dup {
				ps = append(ps, p)
			}
		}
		if len(ps) > 0 {
			ds.Prefixes = ps
			return ds
		}
	}
	return nil
}

func (x *c18Srv) listSet(typ api.DefinedType, name string) ([]string, int, error) {
	var got []*api.DefinedSet
	err := x.s.ListDefinedSet(c18Ctx0, &api.ListDefinedSetRequest{DefinedType: typ, Name: name}, func(d *api.DefinedSet) { got = append(got, d) })
	if err != nil {
		return nil, 0, err
	}
	if len(got) == 0 {
		return nil, 0, nil
	}
	return c18MemberKey(typ, got[0]), len(got), nil
}

func c18Distinct(l []string) []string {
	var out []string
	for i, s := range l {
		if i == 0 || s != l[i-1] {
			out = append(out, s)
		}
	}
	return out
}

func (x *c18Srv) definedSetSeqCase(c *c18SCtx) {
	r, rec := c.r, x.rec
	typ := c18SetTypes[r.IntN(len(c18SetTypes))]
	tn := strings.TrimPrefix(typ.String(), "DEFINED_TYPE_")
	name := fmt.Sprintf("seq%d", c.idx)
	v6 := c18Chance(r, 3)
	m := &c18SetModel{typ: typ}
	exists := false
	var trace []string
	rec.Mark(fmt.Sprintf("defined-set sequence case %d %s", c.idx, tn), false)
	defer func() {
		x.s.DeleteDefinedSet(c18Ctx0, &api.DeleteDefinedSetRequest{DefinedSet: &api.DefinedSet{DefinedType: typ, Name: name}, All: true})
	}()
	steps := 3 + r.IntN(4)
	for step := 0; step < steps; step++ {
		op := "create"
		if exists {
			op = c18Pick(r, "replace", "replace", "append", "append", "remove", "recreate")
			if op == "remove" && m.size() < 2 {
				op = "append"
			}
		}
		var err error
		var arg *api.DefinedSet
		wit := func() any {
			return map[string]any{"case": c.idx, "type": tn, "steps": trace, "request": c18JSON(arg), "expected_members": c18JSON(m.message(name))}
		}
		switch op {
		case "create", "replace", "append", "recreate":
			if op == "recreate" {
				if err = x.s.DeleteDefinedSet(c18Ctx0, &api.DeleteDefinedSetRequest{DefinedSet: &api.DefinedSet{DefinedType: typ, Name: name}, All: true}); err != nil {
					rec.Count("seq_set_step_rejected:delete-all", 1)
					return
				}
				m.list, m.prefixes = nil, nil
			}
			if op == "replace" {
				m.list, m.prefixes = nil, nil
			}
			arg = c18DrawMembers(r, typ, name, v6, m)
			if arg == nil {
				return
			}
			if rec.Guard("c18:server:AddDefinedSet", wit, func() {
				err = x.s.AddDefinedSet(c18Ctx0, &api.AddDefinedSetRequest{DefinedSet: proto.Clone(arg).(*api.DefinedSet), Replace: op == "replace"})
			}) {
				return
			}
			if err == nil {
				m.add(arg)
			}
		case "remove":
			arg = &api.DefinedSet{DefinedType: typ, Name: name}
			if typ == api.DefinedType_DEFINED_TYPE_PREFIX {
				perm := r.Perm(len(m.prefixes))
				for i := 0; i < 1+r.IntN(len(m.prefixes)-1); i++ {
					arg.Prefixes = append(arg.Prefixes, proto.Clone(m.prefixes[perm[i]]).(*api.Prefix))
				}
			} else {
				perm := r.Perm(len(m.list))
				for i := 0; i < 1+r.IntN(len(m.list)-1); i++ {
					arg.List = append(arg.List, m.list[perm[i]])
				}
			}
			if rec.Guard("c18:server:DeleteDefinedSet", wit, func() {
				err = x.s.DeleteDefinedSet(c18Ctx0, &api.DeleteDefinedSetRequest{DefinedSet: proto.Clone(arg).(*api.DefinedSet), All: false})
			}) {
				return
			}
			if err == nil {
				m.remove(arg)
			}
		}
		trace = append(trace, op)
		if err != nil {
			rec.Count("seq_set_step_rejected:"+op, 1)
			rec.Count("seq_set_step_rejected_reason:"+c18Shorten(err.Error()), 1)
			return
		}
		exists = true
		got, n, err := x.listSet(typ, name)
		if err != nil || n > 1 {
			rec.Violation("c18:server:defined-set-seq:"+tn+":list", fmt.Sprintf("ListDefinedSet after %v: %d sets, error %v", trace, n, err), wit())
			return
		}
		// reference: a fresh set created once with the expected members
		var want []string
		if m.size() > 0 {
			ref := m.message(fmt.Sprintf("ref%d-%d", c.idx, step))
			if err := x.s.AddDefinedSet(c18Ctx0, &api.AddDefinedSetRequest{DefinedSet: proto.Clone(ref).(*api.DefinedSet)}); err != nil {
				rec.Count("seq_set_reference_rejected", 1)
				return
			}
			want, _, err = x.listSet(typ, ref.Name)
			x.s.DeleteDefinedSet(c18Ctx0, &api.DeleteDefinedSetRequest{DefinedSet: &api.DefinedSet{DefinedType: typ, Name: ref.Name}, All: true})
			if err != nil {
				rec.Count("seq_set_reference_rejected", 1)
				return
			}
		}
		rec.Eval()
		rec.Count("seq_set_steps", 1)
		rec.Count("seq_set_op:"+op, 1)
		rec.Count("seq_set:"+tn, 1)
		rec.Nontrivial(fmt.Sprintf("setseq:%s:%s:%d", tn, strings.Join(trace, ","), len(want)))
		if len(got) != len(c18Distinct(got)) {
			rec.Count("seq_set_listing_with_duplicates:"+tn, 1)
		}
		if strings.Join(c18Distinct(got), "\x00") != strings.Join(c18Distinct(want), "\x00") {
			rec.Violation("c18:server:defined-set-seq:"+tn+":"+op, fmt.Sprintf("%s set after %v lists %q, a set created with the expected members lists %q", tn, trace, got, want),
				map[string]any{"case": c.idx, "type": tn, "steps": trace, "last_request": c18JSON(arg), "expected_members": c18JSON(m.message(name)), "listed": got, "reference_listed": want})
			return
		}
	}
}

// ---------------------------------------------------------------- statements

// c18SplitStatement distributes the populated condition / action kinds of st over two statements
// of the same name (the route action stays in the first).
func c18SplitStatement(r *rand.Rand, st *api.Statement) (a, b *api.Statement, bKinds []string) {
	a = &api.Statement{Name: st.Name, Conditions: &api.Conditions{}, Actions: &api.Actions{}}
	b = &api.Statement{Name: st.Name, Conditions: &api.Conditions{}, Actions: &api.Actions{}}
	split := func(src, da, db protoreflect.Message, prefix string) {
		src.Range(func(fd protoreflect.FieldDescriptor, v protoreflect.Value) bool {
			if fd.Name() == "route_action" || c18Bool(r) {
				da.Set(fd, v)
			} else {
				db.Set(fd, v)
				bKinds = append(bKinds, prefix+"."+string(fd.Name()))
			}
			return true
		})
	}
	split(st.Conditions.ProtoReflect(), a.Conditions.ProtoReflect(), b.Conditions.ProtoReflect(), ".conditions")
	split(st.Actions.ProtoReflect(), a.Actions.ProtoReflect(), b.Actions.ProtoReflect(), ".actions")
	sort.Strings(bKinds)
	return
}

func c18MergeStatements(a, b *api.Statement) *api.Statement {
	m := proto.Clone(a).(*api.Statement)
	proto.Merge(m, b)
	return m
}

func (x *c18Srv) listStatement(name string) (*api.Statement, error) {
	var got []*api.Statement
	err := x.s.ListStatement(c18Ctx0, &api.ListStatementRequest{Name: name}, func(s *api.Statement) { got = append(got, s) })
	if err != nil {
		return nil, err
	}
	if len(got) != 1 {
		return nil, fmt.Errorf("%d statements listed", len(got))
	}
	return got[0], nil
}

// c18FieldSet reports whether the field at path (".conditions.origin") is populated in st.
func c18FieldSet(st *api.Statement, path string) bool {
	pm := st.ProtoReflect()
	parts := strings.Split(strings.TrimPrefix(path, "."), ".")
	for i, p := range parts {
		fd := pm.Descriptor().Fields().ByName(protoreflect.Name(p))
		if fd == nil || !pm.Has(fd) {
			return false
		}
		if i < len(parts)-1 {
			pm = pm.Get(fd).Message()
		}
	}
	return true
}

func (x *c18Srv) statementSeqCase(c *c18SCtx) {
	r, rec := c.r, x.rec
	name := fmt.Sprintf("sq%d", c.idx)
	full := c18GenStatement(r, name)
	a, b, bKinds := c18SplitStatement(r, full)
	rec.Mark(fmt.Sprintf("statement sequence case %d", c.idx), false)
	wit := func() any {
		return map[string]any{"case": c.idx, "first": c18JSON(a), "added": c18JSON(b)}
	}
	var err error
	if rec.Guard("c18:server:AddStatement", wit, func() { err = x.s.AddStatement(c18Ctx0, &api.AddStatementRequest{Statement: proto.Clone(a).(*api.Statement)}) }) {
		return
	}
	if err != nil {
		rec.Count("seq_statement_rejected:create", 1)
		return
	}
	defer x.s.DeleteStatement(c18Ctx0, &api.DeleteStatementRequest{Statement: &api.Statement{Name: name}, All: true})
	if len(bKinds) == 0 {
		return
	}
	// add further kinds to the existing statement: the union is expected
	if rec.Guard("c18:server:AddStatement", wit, func() { err = x.s.AddStatement(c18Ctx0, &api.AddStatementRequest{Statement: proto.Clone(b).(*api.Statement)}) }) {
		return
	}
	if err != nil {
		rec.Count("seq_statement_rejected:add", 1)
		rec.Count("seq_statement_rejected_reason:"+c18Shorten(err.Error()), 1)
		return
	}
	got, err := x.listStatement(name)
	if err != nil {
		rec.Violation("c18:server:statement-seq:list", fmt.Sprintf("ListStatement after AddStatement x2: %v", err), wit())
		return
	}
	rec.Eval()
	rec.Count("seq_statement_steps", 1)
	rec.Nontrivial("stseq:add:" + strings.Join(bKinds, ","))
	x.reportSubset("statement", "statement "+name+" after AddStatement on the existing name (union expected)", c18MergeStatements(a, b), got, nil, nil, c.idx)
	// remove some of the kinds again: they must be gone, the others must stay
	var del []string
	rm := &api.Statement{Name: name, Conditions: &api.Conditions{}, Actions: &api.Actions{}}
	keep := proto.Clone(c18MergeStatements(a, b)).(*api.Statement)
	for _, k := range bKinds {
		if c18Bool(r) {
			continue
		}
		del = append(del, k)
		parts := strings.Split(strings.TrimPrefix(k, "."), ".")
		src := b.ProtoReflect().Get(b.ProtoReflect().Descriptor().Fields().ByName(protoreflect.Name(parts[0]))).Message()
		dst := rm.ProtoReflect().Get(rm.ProtoReflect().Descriptor().Fields().ByName(protoreflect.Name(parts[0]))).Message()
		kp := keep.ProtoReflect().Get(keep.ProtoReflect().Descriptor().Fields().ByName(protoreflect.Name(parts[0]))).Message()
		fd := src.Descriptor().Fields().ByName(protoreflect.Name(parts[1]))
		dst.Set(fd, src.Get(fd))
		kp.Clear(fd)
	}
	if len(del) == 0 {
		return
	}
	w2 := func() any {
		return map[string]any{"case": c.idx, "before": c18JSON(c18MergeStatements(a, b)), "delete_request": c18JSON(rm)}
	}
	if rec.Guard("c18:server:DeleteStatement", w2, func() {
		err = x.s.DeleteStatement(c18Ctx0, &api.DeleteStatementRequest{Statement: proto.Clone(rm).(*api.Statement), All: false})
	}) {
		return
	}
	if err != nil {
		rec.Count("seq_statement_rejected:remove", 1)
		rec.Count("seq_statement_rejected_reason:"+c18Shorten(err.Error()), 1)
		return
	}
	got, err = x.listStatement(name)
	if err != nil {
		rec.Violation("c18:server:statement-seq:list", fmt.Sprintf("ListStatement after DeleteStatement(all=false): %v", err), w2())
		return
	}
	rec.Eval()
	rec.Count("seq_statement_steps", 1)
	rec.Nontrivial("stseq:remove:" + strings.Join(del, ","))
	x.reportSubset("statement", "statement "+name+" after DeleteStatement all=false (the other kinds must stay)", keep, got, nil, nil, c.idx)
	for _, k := range del {
		if c18FieldSet(got, k) {
			rec.Violation("c18:server:statement-seq:not-removed:"+k, fmt.Sprintf("DeleteStatement(all=false) of %s: still listed", k),
				map[string]any{"case": c.idx, "delete_request": c18JSON(rm), "listed": c18JSON(got)})
		}
	}
}

// ---------------------------------------------------------------- policies

func (x *c18Srv) policyStatementNames(name string) ([]string, error) {
	var got []*api.Policy
	err := x.s.ListPolicy(c18Ctx0, &api.ListPolicyRequest{Name: name}, func(p *api.Policy) { got = append(got, p) })
	if err != nil {
		return nil, err
	}
	if len(got) != 1 {
		return nil, fmt.Errorf("%d policies listed", len(got))
	}
	var out []string
	for _, s := range got[0].Statements {
		out = append(out, s.Name)
	}
	return out, nil
}

func (x *c18Srv) policySeqCase(c *c18SCtx) {
	r, rec := c.r, x.rec
	name := fmt.Sprintf("pq%d", c.idx)
	rec.Mark(fmt.Sprintf("policy sequence case %d", c.idx), false)
	n := 0
	newSt := func() *api.Statement {
		n++
		return c18GenStatement(r, fmt.Sprintf("pq%d-s%d", c.idx, n))
	}
	var model []string
	var trace []string
	defer func() {
		x.s.DeletePolicy(c18Ctx0, &api.DeletePolicyRequest{Policy: &api.Policy{Name: name}, All: true})
		for i := 1; i <= n; i++ {
			x.s.DeleteStatement(c18Ctx0, &api.DeleteStatementRequest{Statement: &api.Statement{Name: fmt.Sprintf("pq%d-s%d", c.idx, i)}, All: true})
		}
	}()
	exists := false
	for step := 0; step < 3+r.IntN(3); step++ {
		op := "create"
		if exists {
			op = c18Pick(r, "append", "append", "remove", "recreate")
			if op == "remove" && len(model) < 2 {
				op = "append"
			}
		}
		var err error
		var req *api.Policy
		switch op {
		case "create", "append", "recreate":
			if op == "recreate" {
				if err = x.s.DeletePolicy(c18Ctx0, &api.DeletePolicyRequest{Policy: &api.Policy{Name: name}, All: true}); err != nil {
					rec.Count("seq_policy_rejected:delete-all", 1)
					return
				}
				model = nil
			}
			req = &api.Policy{Name: name}
			for i := 1 + c18SmallLen(r, 2); i > 0; i-- {
				req.Statements = append(req.Statements, newSt())
			}
			err = x.s.AddPolicy(c18Ctx0, &api.AddPolicyRequest{Policy: proto.Clone(req).(*api.Policy)})
			if err == nil {
				for _, s := range req.Statements {
					model = append(model, s.Name)
				}
			}
		case "remove":
			req = &api.Policy{Name: name}
			perm := r.Perm(len(model))
			gone := map[string]bool{}
			for i := 0; i < 1+r.IntN(len(model)-1); i++ {
				req.Statements = append(req.Statements, &api.Statement{Name: model[perm[i]]})
				gone[model[perm[i]]] = true
			}
			err = x.s.DeletePolicy(c18Ctx0, &api.DeletePolicyRequest{Policy: proto.Clone(req).(*api.Policy), All: false, PreserveStatements: true})
			if err == nil {
				var nm []string
				for _, s := range model {
					if !gone[s] {
						nm = append(nm, s)
					}
				}
				model = nm
			}
		}
		trace = append(trace, op)
		if err != nil {
			rec.Count("seq_policy_rejected:"+op, 1)
			rec.Count("seq_policy_rejected_reason:"+c18Shorten(err.Error()), 1)
			return
		}
		exists = true
		got, err := x.policyStatementNames(name)
		wit := map[string]any{"case": c.idx, "steps": trace, "last_request": c18JSON(req), "expected_statements": model, "listed_statements": got}
		if err != nil {
			rec.Violation("c18:server:policy-seq:list", fmt.Sprintf("ListPolicy after %v: %v", trace, err), wit)
			return
		}
		rec.Eval()
		rec.Count("seq_policy_steps", 1)
		rec.Count("seq_policy_op:"+op, 1)
		rec.Nontrivial(fmt.Sprintf("polseq:%s:%d", strings.Join(trace, ","), len(model)))
		if strings.Join(got, ",") != strings.Join(model, ",") {
			rec.Violation("c18:server:policy-seq:"+op, fmt.Sprintf("policy after %v lists statements %v, expected %v", trace, got, model), wit)
			return
		}
	}
}

// ---------------------------------------------------------------- policy assignments

func (x *c18Srv) assignmentSeqCase(c *c18SCtx, policies []string) {
	r, rec := c.r, x.rec
	dir := api.PolicyDirection(1 + r.IntN(2))
	rec.Mark(fmt.Sprintf("assignment sequence case %d", c.idx), false)
	var model []string
	def := api.RouteAction_ROUTE_ACTION_UNSPECIFIED // what the sequence has set last (unspecified: not set by the sequence)
	var trace []string
	defer func() {
		x.s.DeletePolicyAssignment(c18Ctx0, &api.DeletePolicyAssignmentRequest{Assignment: &api.PolicyAssignment{Name: "global", Direction: dir}, All: true})
		x.s.SetPolicyAssignment(c18Ctx0, &api.SetPolicyAssignmentRequest{Assignment: &api.PolicyAssignment{Name: "global", Direction: dir, DefaultAction: api.RouteAction_ROUTE_ACTION_ACCEPT}})
	}()
	in := func(l []string, s string) bool {
		for _, x := range l {
			if x == s {
				return true
			}
		}
		return false
	}
	for step := 0; step < 3+r.IntN(4); step++ {
		op := c18Pick(r, "add", "add", "set", "remove", "delete-all")
		pa := &api.PolicyAssignment{Name: "global", Direction: dir}
		var err error
		switch op {
		case "add":
			for _, p := range policies {
				if !in(model, p) && c18Bool(r) {
					pa.Policies = append(pa.Policies, &api.Policy{Name: p})
				}
			}
			pa.DefaultAction = api.RouteAction(r.IntN(3))
			err = x.s.AddPolicyAssignment(c18Ctx0, &api.AddPolicyAssignmentRequest{Assignment: proto.Clone(pa).(*api.PolicyAssignment)})
			if err == nil {
				for _, p := range pa.Policies {
					model = append(model, p.Name)
				}
				if pa.DefaultAction != api.RouteAction_ROUTE_ACTION_UNSPECIFIED {
					def = pa.DefaultAction
				}
			}
		case "set":
			perm := r.Perm(len(policies))
			for i := c18SmallLen(r, len(policies)); i > 0; i-- {
				pa.Policies = append(pa.Policies, &api.Policy{Name: policies[perm[i-1]]})
			}
			pa.DefaultAction = api.RouteAction(r.IntN(3))
			err = x.s.SetPolicyAssignment(c18Ctx0, &api.SetPolicyAssignmentRequest{Assignment: proto.Clone(pa).(*api.PolicyAssignment)})
			if err == nil {
				model = nil
				for _, p := range pa.Policies {
					model = append(model, p.Name)
				}
				if pa.DefaultAction != api.RouteAction_ROUTE_ACTION_UNSPECIFIED {
					def = pa.DefaultAction
				}
			}
		case "remove":
			if len(model) == 0 {
				continue
			}
			gone := map[string]bool{}
			for _, p := range model {
				if c18Bool(r) {
					gone[p] = true
					pa.Policies = append(pa.Policies, &api.Policy{Name: p})
				}
			}
			if len(gone) == 0 {
				continue
			}
			err = x.s.DeletePolicyAssignment(c18Ctx0, &api.DeletePolicyAssignmentRequest{Assignment: proto.Clone(pa).(*api.PolicyAssignment), All: false})
			if err == nil {
				var nm []string
				for _, p := range model {
					if !gone[p] {
						nm = append(nm, p)
					}
				}
				model = nm
			}
		case "delete-all":
			err = x.s.DeletePolicyAssignment(c18Ctx0, &api.DeletePolicyAssignmentRequest{Assignment: proto.Clone(pa).(*api.PolicyAssignment), All: true})
			if err == nil {
				model = nil
				def = api.RouteAction_ROUTE_ACTION_UNSPECIFIED
			}
		}
		trace = append(trace, op)
		if err != nil {
			rec.Count("seq_assignment_rejected:"+op, 1)
			rec.Count("seq_assignment_rejected_reason:"+c18Shorten(err.Error()), 1)
			return
		}
		var got []*api.PolicyAssignment
		err = x.s.ListPolicyAssignment(c18Ctx0, &api.ListPolicyAssignmentRequest{Name: "global", Direction: dir}, func(a *api.PolicyAssignment) { got = append(got, a) })
		wit := map[string]any{"case": c.idx, "steps": trace, "last_request": c18JSON(pa), "expected_policies": model, "expected_default": def.String()}
		if err != nil || len(got) != 1 {
			rec.Violation("c18:server:assignment-seq:list", fmt.Sprintf("ListPolicyAssignment after %v: %d assignments, error %v", trace, len(got), err), wit)
			return
		}
		var names []string
		for _, p := range got[0].Policies {
			names = append(names, p.Name)
		}
		wit["listed"] = c18JSON(got[0])
		rec.Eval()
		rec.Count("seq_assignment_steps", 1)
		rec.Count("seq_assignment_op:"+op, 1)
		rec.Nontrivial(fmt.Sprintf("paseq:%s:%s:%d", dir, strings.Join(trace, ","), len(model)))
		if strings.Join(names, ",") != strings.Join(model, ",") {
			rec.Violation("c18:server:assignment-seq:"+op+":policies", fmt.Sprintf("assignment after %v lists %v, expected %v", trace, names, model), wit)
			return
		}
		if def != api.RouteAction_ROUTE_ACTION_UNSPECIFIED && got[0].DefaultAction != def {
			rec.Violation("c18:server:assignment-seq:"+op+":default-action", fmt.Sprintf("assignment after %v lists default %s, the sequence set %s", trace, got[0].DefaultAction, def), wit)
			return
		}
	}
}

// ---------------------------------------------------------------- neighbors: Add -> Update -> List

// paths of scalar fields whose default is the zero value: set by AddPeer, left unset by UpdatePeer,
// they must not keep the old value
var c18PeerZeroDefault = []string{"conf.description", "conf.allow_own_asn", "conf.send_software_version", "conf.route_flap_damping", "conf.allow_aspath_loop_local",
	"transport.remote_port", "transport.ip_tos", "transport.tcp_mss", "transport.local_port", "timers.config.minimum_advertisement_interval"}

func c18Leaf(m proto.Message, path string) (protoreflect.Value, bool) {
	pm := m.ProtoReflect()
	parts := strings.Split(path, ".")
	for i, p := range parts {
		fd := pm.Descriptor().Fields().ByName(protoreflect.Name(p))
		if fd == nil || !pm.Has(fd) {
			return protoreflect.Value{}, false
		}
		if i == len(parts)-1 {
			return pm.Get(fd), true
		}
		pm = pm.Get(fd).Message()
	}
	return protoreflect.Value{}, false
}

func (x *c18Srv) peerUpdateCase(c *c18SCtx, policies []string) {
	r, rec := c.r, x.rec
	v6 := c18Chance(r, 4)
	addr := fmt.Sprintf("127.%d.%d.%d", 1+r.IntN(200), r.IntN(250), 1+r.IntN(250))
	if v6 {
		addr = fmt.Sprintf("fd00::%x:%x", 1+r.IntN(65000), 1+r.IntN(65000))
	}
	ebgp := c18Bool(r)
	mk := func() *api.Peer {
		conf := &api.PeerConf{NeighborAddress: addr, PeerAsn: 65000, Type: api.PeerType_PEER_TYPE_INTERNAL}
		if ebgp {
			conf.PeerAsn, conf.Type = 65001, api.PeerType_PEER_TYPE_EXTERNAL
			if c18Chance(r, 3) {
				conf.RemovePrivate = api.RemovePrivate(1 + r.IntN(2))
			}
			conf.ReplacePeerAsn = c18Chance(r, 3)
		}
		pc := c18GenPeerCommon(r, ebgp, v6, false, policies)
		pc.Transport.PassiveMode = true
		if c18Bool(r) {
			conf.Description = c18String(r, 1+r.IntN(20))
		}
		conf.RouteFlapDamping = c18Chance(r, 4)
		if c18Chance(r, 3) {
			conf.AllowOwnAsn = uint32(1 + r.IntN(255))
		}
		conf.AllowAspathLoopLocal = c18Chance(r, 4)
		conf.AdminDown = c18Chance(r, 3)
		conf.SendSoftwareVersion = c18Chance(r, 3)
		return &api.Peer{Conf: conf, Timers: pc.Timers, RouteReflector: pc.RR, RouteServer: pc.RS, GracefulRestart: pc.GR, Transport: pc.Transport,
			EbgpMultihop: pc.Multihop, TtlSecurity: pc.TtlSec, Bfd: pc.Bfd, AfiSafis: pc.AfiSafis, ApplyPolicy: pc.ApplyPol}
	}
	p1, p2 := mk(), mk()
	rec.Mark(fmt.Sprintf("peer update case %d %s", c.idx, addr), false)
	wit := func() any { return map[string]any{"case": c.idx, "added": c18JSON(p1), "update": c18JSON(p2)} }
	var err error
	if rec.Guard("c18:server:AddPeer", wit, func() { err = x.s.AddPeer(c18Ctx0, &api.AddPeerRequest{Peer: proto.Clone(p1).(*api.Peer)}) }) {
		return
	}
	if err != nil {
		rec.Count("seq_peer_rejected:add", 1)
		return
	}
	defer x.s.DeletePeer(c18Ctx0, &api.DeletePeerRequest{Address: addr})
	if rec.Guard("c18:server:UpdatePeer", wit, func() { _, err = x.s.UpdatePeer(c18Ctx0, &api.UpdatePeerRequest{Peer: proto.Clone(p2).(*api.Peer)}) }) {
		return
	}
	if err != nil {
		rec.Count("seq_peer_rejected:update", 1)
		rec.Count("seq_peer_rejected_reason:"+c18Shorten(err.Error()), 1)
		return
	}
	var got []*api.Peer
	if rec.Guard("c18:server:ListPeer", wit, func() {
		err = x.s.ListPeer(c18Ctx0, &api.ListPeerRequest{Address: addr}, func(p *api.Peer) { got = append(got, p) })
	}) {
		return
	}
	if err != nil || len(got) != 1 {
		rec.Violation("c18:server:peer-update:list", fmt.Sprintf("ListPeer(%s) after UpdatePeer: %d peers, error %v", addr, len(got), err), wit())
		return
	}
	rec.Eval()
	rec.Count("seq_peer_updates", 1)
	rec.Nontrivial("peerupd:" + c18Mask(p2))
	x.reportSubset("peer-update", "neighbor "+addr+" after AddPeer + UpdatePeer (the update's values are expected)", p2, got[0], nil, c18PeerIgnore, c.idx)
	for _, path := range c18PeerZeroDefault {
		v1, ok1 := c18Leaf(p1, path)
		_, ok2 := c18Leaf(p2, path)
		if !ok1 || ok2 {
			continue
		}
		if vg, ok := c18Leaf(got[0], path); ok && vg.Equal(v1) {
			rec.Violation("c18:server:peer-update:stale:."+path, fmt.Sprintf("neighbor %s: %s was set by AddPeer, left unset by UpdatePeer, and still reads back as %v", addr, path, vg),
				map[string]any{"case": c.idx, "added": c18JSON(p1), "update": c18JSON(p2), "read_back": c18JSON(got[0])})
		}
	}
}
