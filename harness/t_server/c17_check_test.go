package server

// C17 — observation, comparison with c17Model, attribution of differences, driver.

import (
	"context"
	"encoding/hex"
	"fmt"
	"regexp"
	"sort"
	"strconv"
	"strings"
	"testing"
	"testing/synctest"
	"time"

	"github.com/google/uuid"

	"github.com/osrg/gobgp/v4/api"
	"github.com/osrg/gobgp/v4/internal/verif/vlib"
	"github.com/osrg/gobgp/v4/pkg/apiutil"
	"github.com/osrg/gobgp/v4/pkg/packet/bgp"
)

// ---------------------------------------------------------------- observation

type c17Got struct {
	dest  string // destination key of the table entry
	nlri  bgp.NLRI
	fam   bgp.Family
	src   string
	id    uint32
	tag   uint32
	rts   map[string]bool // hex of every route-target extended community of the path
	first bool            // first path of its destination
}

func c17GotOf(dest string, p *apiutil.Path, first bool) c17Got {
	g := c17Got{dest: dest, nlri: p.Nlri, fam: p.Family, id: p.RemoteID, rts: map[string]bool{}, first: first, src: c17Local}
	if p.PeerAddress.IsValid() && !p.PeerAddress.IsUnspecified() {
		g.src = p.PeerAddress.String()
	}
	for _, a := range p.Attrs {
		switch v := a.(type) {
		case *bgp.PathAttributeCommunities:
			for _, c := range v.Value {
				if c>>16 == c17TagHi {
					g.tag = c & 0xffff
				}
			}
		case *bgp.PathAttributeExtendedCommunities:
			for _, ec := range v.Value {
				// route targets only (sub-type 0x02 of the AS2 / IPv4 / AS4 specific types, either transitivity);
				// e.g. the MAC mobility community gobgp adds to local EVPN routes is none of C17's business
				if b, err := ec.Serialize(); err == nil && len(b) == 8 && b[1] == 0x02 && b[0]&0xbf <= 0x02 {
					g.rts[hex.EncodeToString(b)] = true
				}
			}
		}
	}
	return g
}

func (h *c17Hist) listTable(tt api.TableType, name string, fam bgp.Family) ([]c17Got, error) {
	var out []c17Got
	err := h.n.s.ListPath(apiutil.ListPathRequest{TableType: tt, Name: name, Family: fam}, func(prefix bgp.NLRI, paths []*apiutil.Path) {
		for i, p := range paths {
			out = append(out, c17GotOf(prefix.String(), p, i == 0))
		}
	})
	return out, err
}

var c17VPNFams = []bgp.Family{bgp.RF_IPv4_VPN, bgp.RF_EVPN}

// globalBest lists the GLOBAL VPN tables; best maps fam/key to the model route gobgp ranks first.
func (h *c17Hist) globalBest() (map[string]*c17Route, map[bgp.Family][]c17Got, error) {
	best := map[string]*c17Route{}
	all := map[bgp.Family][]c17Got{}
	for _, fam := range c17VPNFams {
		got, err := h.listTable(api.TableType_TABLE_TYPE_GLOBAL, "", fam)
		if err != nil {
			return nil, nil, err
		}
		all[fam] = got
		for _, g := range got {
			if g.first {
				if w := h.m.routes[c17PathKey{fam, g.dest, g.src, g.id}]; w != nil {
					best[fam.String()+"/"+g.dest] = w
				}
			}
		}
	}
	return best, all, nil
}

// wantFor: the acceptable versions of every route the neighbour must hold (the relation of the property).
//
//	PE   : every best VPN route that is not its own;
//	RTC  : ... and for which it has an accepted membership (any target of the route, or the default);
//	CE   : per plain prefix, the best VPN routes (not its own) with a transitive RT in its VRF's import set.
func (h *c17Hist) wantFor(p *c17Peer, best map[string]*c17Route) map[simRouteKey][]*c17Route {
	want := map[simRouteKey][]*c17Route{}
	if p.role == c17CE {
		imp := c17RTHexSet(h.m.vrfs[p.vrf].imp)
		for _, b := range best {
			if b.fam == bgp.RF_IPv4_VPN && b.src != p.addr() && b.hasTransRTIn(imp) {
				k := simRouteKey{bgp.RF_IPv4_UC, b.plain, 0}
				want[k] = append(want[k], b)
			}
		}
		return want
	}
	for _, b := range best {
		if b.src == p.addr() {
			continue
		}
		if p.role == c17RTC && !c17Interested(p.members, b) {
			continue
		}
		want[simRouteKey{b.fam, b.key, 0}] = []*c17Route{b}
	}
	return want
}

func c17TagSig(rs []*c17Route) string {
	var t []int
	for _, r := range rs {
		t = append(t, int(r.tag))
	}
	sort.Ints(t)
	return fmt.Sprint(t)
}

// endEvent: quiescence after one event; bookkeeping for the attribution of later differences.
func (h *c17Hist) endEvent() {
	synctest.Wait()
	h.expireGR()
	i := len(h.evKind)
	h.evKind = append(h.evKind, h.curKind)
	h.evActor = append(h.evActor, h.curActor)
	for _, p := range h.peers {
		p.sp.mu.Lock()
		n := len(p.sp.rx)
		p.sp.mu.Unlock()
		h.rxMark[p.addr()] = append(h.rxMark[p.addr()], n)
	}
	best, _, err := h.globalBest()
	if err != nil {
		h.bestTags = append(h.bestTags, nil)
		return
	}
	if simDebug {
		_, all, _ := h.globalBest()
		var l []string
		for _, f := range c17VPNFams {
			for _, g := range all[f] {
				l = append(l, fmt.Sprintf("%s<%s#%d t%d", g.dest, g.src, g.id, g.tag))
			}
		}
		sort.Strings(l)
		fmt.Printf("SIMDBG TABLE after %d: %v\n", i, l)
	}
	bt := map[uint32]bool{}
	for _, b := range best {
		bt[b.tag] = true
	}
	h.bestTags = append(h.bestTags, bt)
	for _, p := range h.peers {
		if !p.up {
			continue
		}
		cur := h.wantFor(p, best)
		sn, gn := h.since[p.addr()], h.gone[p.addr()]
		for k, rs := range cur {
			if s, ok := sn[k]; !ok || s.sig != c17TagSig(rs) {
				sn[k] = c17Since{i, c17TagSig(rs), !ok}
			}
			delete(gn, k)
		}
		for k := range sn {
			if _, ok := cur[k]; !ok {
				delete(sn, k)
				gn[k] = c17Gone{i, h.whyGone(p, k, best)}
			}
		}
	}
}

// whyGone: why the model stopped expecting k at p (classification of a later "stale" difference only).
func (h *c17Hist) whyGone(p *c17Peer, k simRouteKey, best map[string]*c17Route) string {
	if p.role == c17CE {
		why := "no-best"
		for _, b := range best {
			if b.fam == bgp.RF_IPv4_VPN && b.plain == k.Prefix {
				if b.src != p.addr() {
					return "best-became-non-importable"
				}
				why = "best-became-own-route"
			}
		}
		return why
	}
	b := best[k.Family.String()+"/"+k.Prefix]
	switch {
	case b == nil:
		return "no-best"
	case b.src == p.addr():
		return "own-best"
	}
	return "no-membership"
}

// vpnIndexHas: diagnosis only (refines a violation key, never decides one): does gobgp's RT index of VPN paths
// know version w under any of its route targets?
func (h *c17Hist) vpnIndexHas(w *c17Route) bool {
	found := false
	h.n.s.mgmtOperation(func() error {
		for _, rt := range w.rts {
			for _, p := range h.n.s.globalRib.GetPathsByRT(rt.ec(), []bgp.Family{w.fam}) {
				if g := c17GotOf("", toPathApiUtil(p), false); g.tag == w.tag && p.GetNlri().String() == w.key {
					found = true
				}
			}
		}
		return nil
	}, false)
	return found
}

// lastMention: index into sp.rx of the last UPDATE of the current session that announces or withdraws k.
func (h *c17Hist) lastMention(p *c17Peer, k simRouteKey) (int, bool) {
	p.sp.mu.Lock()
	defer p.sp.mu.Unlock()
	for i := len(p.sp.rx) - 1; i >= p.rxBase; i-- {
		u, ok := p.sp.rx[i].Msg.Body.(*bgp.BGPUpdate)
		if !ok {
			continue
		}
		ann, wd := false, false
		if k.Family == bgp.RF_IPv4_UC {
			for _, n := range u.NLRI {
				ann = ann || n.NLRI.String() == k.Prefix
			}
			for _, n := range u.WithdrawnRoutes {
				wd = wd || n.NLRI.String() == k.Prefix
			}
		}
		for _, a := range u.PathAttributes {
			switch v := a.(type) {
			case *bgp.PathAttributeMpReachNLRI:
				if bgp.NewFamily(v.AFI, v.SAFI) == k.Family {
					for _, n := range v.Value {
						ann = ann || n.NLRI.String() == k.Prefix
					}
				}
			case *bgp.PathAttributeMpUnreachNLRI:
				if bgp.NewFamily(v.AFI, v.SAFI) == k.Family {
					for _, n := range v.Value {
						wd = wd || n.NLRI.String() == k.Prefix
					}
				}
			}
		}
		if ann {
			return i, false
		}
		if wd {
			return i, true
		}
	}
	return -1, false
}

func (h *c17Hist) eventOfRx(p *c17Peer, idx int) int {
	marks := h.rxMark[p.addr()]
	for i, n := range marks {
		if n > idx {
			return i
		}
	}
	return len(marks) // received during the event that is still running
}

// kindFor: the kind of event i as seen from neighbour p.
func (h *c17Hist) kindFor(p *c17Peer, i int) string {
	if i < 0 {
		return "start"
	}
	if i >= len(h.evKind) {
		return h.curKind
	}
	k := h.evKind[i]
	if a := h.evActor[i]; a != "" && a != p.addr() && (strings.Contains(k, "membership") || strings.HasPrefix(k, "session") || k == "rtc-end-of-rib") {
		k = "other-peer-" + k
	}
	return k
}

// blame turns "p holds / lacks k" into a reason naming the event at which gobgp went wrong:
//
//	stale     : sent-on-<e> if gobgp announced it when it was not due, else after-<e>: not withdrawn when <e> ended its eligibility
//	missing   : withdrawn-on-<e> if gobgp withdrew it while due, else after-<e>: never sent since <e> made it due
//	different : sent-on-<e> / after-<e> likewise for the version
func (h *c17Hist) blame(p *c17Peer, k simRouteKey, class string) (string, int) {
	idx, wd := h.lastMention(p, k)
	msgEv := -1
	if idx >= 0 {
		msgEv = h.eventOfRx(p, idx)
	}
	return h.blame1(p, k, class, idx, wd, msgEv), msgEv
}

func (h *c17Hist) blame1(p *c17Peer, k simRouteKey, class string, idx int, wd bool, msgEv int) string {
	switch class {
	case "stale":
		if g, ok := h.gone[p.addr()][k]; ok && (idx < 0 || msgEv <= g.ev) {
			if strings.HasPrefix(g.why, "best-became-") {
				return g.why
			}
			return "after-" + h.kindFor(p, g.ev)
		}
		return "sent-on-" + h.kindFor(p, msgEv)
	case "missing":
		s, ok := h.since[p.addr()][k]
		if !ok {
			return "after-" + h.curKind
		}
		if idx >= 0 && wd && msgEv > s.ev {
			return "withdrawn-on-" + h.kindFor(p, msgEv)
		}
		return "after-" + h.kindFor(p, s.ev)
	default: // different version
		s, ok := h.since[p.addr()][k]
		if !ok {
			return "after-" + h.curKind
		}
		if idx >= 0 && !wd && (msgEv >= s.ev || s.fresh) {
			// announced at / after the event that fixed the expectation, or a copy announced while the route was
			// not due at all (and which the later eligibility of a newer version did not replace)
			return "sent-on-" + h.kindFor(p, msgEv)
		}
		return "after-" + h.kindFor(p, s.ev)
	}
}

var c17TagRe = regexp.MustCompile(`Communities: 64000:(\d+)`)

func c17TagOfAttrs(attrs string) uint32 {
	m := c17TagRe.FindStringSubmatch(attrs)
	if m == nil {
		return 0
	}
	n, _ := strconv.Atoi(m[1])
	return uint32(n)
}

func (h *c17Hist) witness(at string) map[string]any {
	var peers, vrfs []string
	for _, p := range h.peers {
		peers = append(peers, fmt.Sprintf("%s %s %s as%d vrf=%q addpath-vpn=%v addpath-rtc=%v deferral=%d gr=%d up=%v", p.addr(), p.role, p.spec.Kind, p.spec.AS, p.vrf, p.apVPN, p.apRTC, p.deferral, p.gr, p.up))
	}
	for _, v := range h.vrfs {
		vrfs = append(vrfs, fmt.Sprintf("%s rd=%s import=%s export=%s ce=%v present=%v", v.name, v.rdString(), c17RTsString(v.imp), c17RTsString(v.exp), v.hasCE, v.present))
	}
	return map[string]any{"case": h.idx, "at": at, "peers": peers, "vrfs": vrfs, "rtc_import_policy": h.rtcPolicy, "med_import_policy": h.medPolicy, "collide": h.collide, "history": append([]string{}, h.log...)}
}

func (h *c17Hist) violation(key, what string, at string, extra map[string]any) {
	w := h.witness(at)
	for k, v := range extra {
		w[k] = v
	}
	h.rec.Violation(key, what, w)
}

func c17Abbrev(d []string) string {
	if len(d) > 6 {
		d = append(append([]string{}, d[:6]...), fmt.Sprintf("... %d more", len(d)-6))
	}
	return strings.Join(d, " | ")
}

// inDeferral: gobgp documents (server.go at ESTABLISHED, RFC 4684 sec. 6) that towards a neighbour with an rtc
// deferral-time it holds back the other families until the rtc End-of-RIB arrives or the timer fires.
func (h *c17Hist) inDeferral(p *c17Peer) bool {
	if p.role != c17RTC || p.deferral == 0 || p.eorSent {
		return false
	}
	return time.Since(p.upAt) < time.Duration(p.deferral+1)*time.Second
}

// ---------------------------------------------------------------- comparison at quiescence

func (h *c17Hist) compare(at string) bool {
	synctest.Wait()
	h.expireGR()
	nontrivial := len(h.changes) > 0
	h.rec.Count("comparisons", 1)
	if nontrivial {
		h.rec.Count("comparisons_nontrivial", 1)
		var roles []string
		for _, p := range h.peers {
			roles = append(roles, fmt.Sprintf("%s/%s/%v/%v/%d", p.role, p.spec.Kind, p.apVPN, p.apRTC, p.deferral))
		}
		h.rec.Nontrivial(vlib.Hash(strings.Join(h.changes, ",") + "|" + strings.Join(roles, ",")))
	}
	h.changes = nil

	for _, p := range h.peers {
		if !p.up {
			continue
		}
		p.sp.mu.Lock()
		nf, anomalies := p.sp.notif, append([]string{}, p.sp.dupID...)
		p.sp.mu.Unlock()
		if !p.sp.established() {
			h.violation("c17:session-lost:"+p.role.String(), fmt.Sprintf("session to %s (%s) is no longer established although the speaker sent only well-formed messages; notification=%v", p.addr(), p.role, nf), at, nil)
			return false
		}
		if len(anomalies) > 0 {
			h.violation("c17:unparsable-message:"+p.role.String(), fmt.Sprintf("gobgp sent %s something its own parser rejects: %v", p.addr(), anomalies), at, nil)
			return false
		}
	}

	// ---- 1. the global VPN tables: exactly the routes announced and not withdrawn
	best, all, err := h.globalBest()
	if err != nil {
		h.rec.Inconclusive("c17: ListPath(GLOBAL): " + err.Error())
		return false
	}
	for _, fam := range c17VPNFams {
		want := map[c17PathKey]*c17Route{}
		for pk, rt := range h.m.routes {
			if pk.fam == fam {
				want[pk] = rt
			}
		}
		h.rec.Count("routes_compared_global", len(want))
		seen := map[c17PathKey]bool{}
		for _, g := range all[fam] {
			pk := c17PathKey{fam, g.dest, g.src, g.id}
			seen[pk] = true
			w := want[pk]
			after := h.lastKind(c17KeyScope(fam, g.dest))
			if w == nil {
				h.violation("c17:global-table:extra:after-"+after, fmt.Sprintf("GLOBAL %s table holds %s from %s#%d (tag %d) which no source announces any more", fam, g.dest, g.src, g.id, g.tag), at, nil)
				return false
			}
			if g.tag != w.tag {
				h.violation("c17:global-table:old-version:after-"+after, fmt.Sprintf("GLOBAL %s table holds version tag %d of %s from %s#%d, the source's current version is %d", fam, g.tag, g.dest, g.src, g.id, w.tag), at, nil)
				return false
			}
			if ws := c17SetString(c17RTHexSet(w.rts)); ws != c17SetString(g.rts) {
				if w.vrf != "" {
					v := h.m.vrfs[w.vrf]
					h.violation("c17:vrf-origin:export-rts", fmt.Sprintf("route %s originated in VRF %s (export %s) by %s is in the GLOBAL table with route targets {%s}, expected {%s}", g.dest, w.vrf, c17RTsString(v.exp), w.src, c17SetString(g.rts), ws), at, nil)
				} else {
					h.violation("c17:global-table:route-targets-changed", fmt.Sprintf("route %s from %s was announced with RTs %s {%s} but the GLOBAL table shows {%s}", g.dest, w.src, c17RTsString(w.rts), ws, c17SetString(g.rts)), at, nil)
				}
				return false
			}
			if w.vrf != "" && fam == bgp.RF_IPv4_VPN {
				h.rec.Count("vrf_originated_routes_checked", 1)
				l, isVPN := g.nlri.(*bgp.LabeledVPNIPAddrPrefix)
				var wantLabel uint32
				h.n.s.mgmtOperation(func() error {
					if v, ok := h.n.s.globalRib.GetVrf(w.vrf); ok {
						wantLabel = v.MplsLabel
					}
					return nil
				}, false)
				if !isVPN || l.RD.String() != w.rd || len(l.Labels.Labels) != 1 || l.Labels.Labels[0] != wantLabel {
					h.violation("c17:vrf-origin:rd-or-label", fmt.Sprintf("route originated in VRF %s appears as %v (labels %v), expected RD %s label %d", w.vrf, g.nlri, l, w.rd, wantLabel), at, nil)
					return false
				}
			}
		}
		for pk, w := range want {
			if !seen[pk] {
				after := h.lastKind(c17KeyScope(fam, pk.key))
				if w.vrf != "" {
					h.violation("c17:vrf-origin:missing-from-global:after-"+after, fmt.Sprintf("route originated in VRF %s by %s is not in the GLOBAL %s table under %s", w.vrf, w.src, fam, pk.key), at, nil)
				} else {
					h.violation("c17:global-table:missing:after-"+after, fmt.Sprintf("GLOBAL %s table lacks %s", fam, w), at, nil)
				}
				return false
			}
		}
	}

	// ---- 2a. ListVrf shows exactly the configured VRFs with their RD and RT sets
	listed := map[string]string{}
	if err := h.n.s.ListVrf(context.Background(), &api.ListVrfRequest{}, func(v *api.Vrf) {
		rd, _ := apiutil.UnmarshalRD(v.Rd)
		im, _ := apiutil.UnmarshalRTs(v.ImportRt)
		ex, _ := apiutil.UnmarshalRTs(v.ExportRt)
		hexes := func(l []bgp.ExtendedCommunityInterface) string {
			m := map[string]bool{}
			for _, ec := range l {
				if b, err := ec.Serialize(); err == nil {
					m[hex.EncodeToString(b)] = true
				}
			}
			return c17SetString(m)
		}
		listed[v.Name] = fmt.Sprintf("rd=%v id=%d import={%s} export={%s}", rd, v.Id, hexes(im), hexes(ex))
	}); err != nil {
		h.rec.Inconclusive("c17: ListVrf: " + err.Error())
		return false
	}
	for _, v := range h.vrfs {
		got, have := listed[v.name]
		want := fmt.Sprintf("rd=%s id=%d import={%s} export={%s}", v.rdString(), v.id, c17SetString(c17RTHexSet(v.imp)), c17SetString(c17RTHexSet(v.exp)))
		h.rec.Count("listvrf_compared", 1)
		if have != v.present || have && got != want {
			h.violation("c17:list-vrf:differs:after-"+h.lastKind("vrf:"+v.name), fmt.Sprintf("ListVrf shows VRF %s as %q (listed=%v), configured: %q (present=%v)", v.name, got, have, want, v.present), at, nil)
			return false
		}
	}

	// ---- 2. every VRF table: VPN routes with >=1 transitive RT in the import set, shown as plain routes
	ok := true
	for _, v := range h.vrfs {
		for _, q := range []struct{ ask, fam bgp.Family }{{bgp.RF_IPv4_UC, bgp.RF_IPv4_VPN}, {bgp.RF_EVPN, bgp.RF_EVPN}} {
			got, err := h.listTable(api.TableType_TABLE_TYPE_VRF, v.name, q.ask)
			if !v.present {
				if err == nil {
					h.violation("c17:vrf-table:deleted-vrf-still-listed", fmt.Sprintf("ListPath(VRF %s) succeeds although the VRF was deleted", v.name), at, nil)
					return false
				}
				continue
			}
			if err != nil {
				h.violation("c17:vrf-table:list-error", fmt.Sprintf("ListPath(VRF %s, %s): %v", v.name, q.ask, err), at, nil)
				return false
			}
			want := h.m.vrfTable(v, q.fam)
			h.rec.Count("routes_compared_vrf_table", len(want))
			h.rec.Count("vrf_table_comparisons", 1)
			wm := map[string]*c17Route{}
			for _, w := range want {
				wm[fmt.Sprintf("%s from %s#%d tag %d", w.plain, w.src, w.id, w.tag)] = w
			}
			var diffs []string
			cls, scopeKey := "", ""
			for _, g := range got {
				if q.fam == bgp.RF_IPv4_VPN {
					if _, plain := g.nlri.(*bgp.IPAddrPrefix); !plain || g.fam != bgp.RF_IPv4_UC {
						h.violation("c17:vrf-table:not-plain", fmt.Sprintf("VRF %s table shows %v (%T, family %s), expected a plain ipv4-unicast route", v.name, g.nlri, g.nlri, g.fam), at, nil)
						return false
					}
				}
				k := fmt.Sprintf("%s from %s#%d tag %d", g.nlri.String(), g.src, g.id, g.tag)
				if wm[k] == nil {
					why := "no transitive RT in the import set"
					if m := h.m.routes[c17PathKey{q.fam, g.dest, g.src, g.id}]; m == nil {
						why = "not announced by that source"
					} else {
						imp := c17RTHexSet(v.imp)
						for _, rt := range m.rts {
							if rt.nontrans && imp[c17RT{four: rt.four, as: rt.as, admin: rt.admin}.hex()] {
								why = "only a NON-transitive RT equals an import RT"
							}
						}
					}
					diffs = append(diffs, "FOREIGN "+k+" (dest "+g.dest+": "+why+")")
					if cls == "" {
						cls, scopeKey = "foreign", g.dest
						if strings.HasPrefix(why, "only a NON") {
							cls = "foreign:non-transitive-rt-matched"
						}
					}
				}
				delete(wm, k)
			}
			for k, w := range wm {
				diffs = append(diffs, "MISSING "+k+" (key "+w.key+" rts "+c17RTsString(w.rts)+")")
				if cls == "" || strings.HasPrefix(cls, "foreign") {
					cls, scopeKey = "missing", w.key
				}
			}
			if len(diffs) > 0 {
				sort.Strings(diffs)
				after := ":after-" + h.lastKind(c17KeyScope(q.fam, scopeKey), "vrf:"+v.name)
				if strings.Contains(cls, "non-transitive") {
					after = "" // a stateless view: the class says it all
				}
				h.violation("c17:vrf-table:"+cls+after, fmt.Sprintf("ListPath(VRF %s, %s) (import %s) differs from the VPN routes with a transitive import RT: %s", v.name, q.ask, c17RTsString(v.imp), c17Abbrev(diffs)), at, map[string]any{"diff": diffs})
				ok = false
			}
		}
	}
	if !ok {
		return false
	}

	// ---- 3..5 what every speaker holds
	for _, p := range h.peers {
		if p.up && !h.comparePeer(p, best, at) {
			ok = false
		}
	}
	return ok
}

// apiTwin: an API route originated in a VRF whose AddPath NLRI text was also used for an API route originated in
// another VRF during this history (gobgp keys its send bookkeeping on the text the path was created with).
func (h *c17Hist) apiTwin(w *c17Route) bool {
	return w.src == c17Local && w.vrf != "" && w.rel != "" && len(h.apiRel[w.rel]) > 1
}

// indexClass folds the reasons of one root cause into one stable key part: gobgp answers a change of a specific
// (non-default) membership from its RT index of VPN paths, and that index is kept differently for sources with and
// without ADD-PATH ("every path" vs "best path only"). Every difference at an rtc neighbour that is attributed to
// one of its own specific-membership events, on an NLRI some source announced with a path id, belongs here.
func (h *c17Hist) indexClass(p *c17Peer, k simRouteKey, bl string) string {
	if p.role != c17RTC {
		return bl
	}
	// a second root cause with the same symptom: soft-reset-in feeds the very same path object to the table again
	refed := false
	for _, rt := range h.m.routes {
		if rt.fam == k.Family && rt.key == k.Prefix && rt.refed {
			refed = true
		}
	}
	if !refed && !h.apKeys[c17KeyScope(k.Family, k.Prefix)] {
		return bl
	}
	cls := "vpn-index-addpath-nlri"
	if refed {
		cls = "vpn-index-after-soft-reset-in"
	}
	kind := bl
	for _, pre := range []string{"non-best-path:", "ghost-version:", "not-in-vpn-index:", "sent-on-", "withdrawn-on-", "after-"} {
		kind = strings.TrimPrefix(kind, pre)
	}
	if !strings.HasPrefix(kind, "membership-") {
		return bl
	}
	if strings.HasPrefix(kind, "membership-announce") && !strings.Contains(kind, "rejected") {
		return cls + ":on-membership-announce"
	}
	return cls + ":on-membership-withdraw"
}

// versionClass qualifies a version gobgp announced when it was not due: one that no source announced any more at
// that time (ghost), or one that is in the Loc-RIB but not the best path of its destination.
func (h *c17Hist) versionClass(tag uint32, sentEv int, best map[string]*c17Route) string {
	_, known := h.tagKey[tag]
	if !known {
		return "ghost-version:"
	}
	if died, ok := h.tagDied[tag]; ok && died < sentEv {
		return "ghost-version:"
	}
	if sentEv >= 0 && sentEv < len(h.bestTags) && h.bestTags[sentEv] != nil && !h.bestTags[sentEv][tag] {
		return "non-best-path:" // in the Loc-RIB when it was announced, but not the path ranked first
	}
	return ""
}

// foreignFamilyUpdate: an UPDATE of the current session that carries NLRI of a family the CE never negotiated.
func (h *c17Hist) foreignFamilyUpdate(p *c17Peer) string {
	p.sp.mu.Lock()
	defer p.sp.mu.Unlock()
	for i := p.rxBase; i < len(p.sp.rx); i++ {
		u, ok := p.sp.rx[i].Msg.Body.(*bgp.BGPUpdate)
		if !ok {
			continue
		}
		for _, a := range u.PathAttributes {
			switch v := a.(type) {
			case *bgp.PathAttributeMpReachNLRI:
				if f := bgp.NewFamily(v.AFI, v.SAFI); f != bgp.RF_IPv4_UC {
					return fmt.Sprintf("event %d (%s): %v", h.eventOfRx(p, i), h.kindFor(p, h.eventOfRx(p, i)), u)
				}
			case *bgp.PathAttributeMpUnreachNLRI:
				if f := bgp.NewFamily(v.AFI, v.SAFI); f != bgp.RF_IPv4_UC {
					return fmt.Sprintf("event %d (%s): %v", h.eventOfRx(p, i), h.kindFor(p, h.eventOfRx(p, i)), u)
				}
			}
		}
	}
	return ""
}

// comparePeer: what the speaker holds (accumulated from the bytes gobgp wrote) vs wantFor.
func (h *c17Hist) comparePeer(p *c17Peer, best map[string]*c17Route, at string) bool {
	snap := p.sp.snapshot()
	want := h.wantFor(p, best)
	wait := h.inDeferral(p)
	role := p.role.String()
	h.rec.Count("routes_compared_"+role, len(want))
	h.rec.Count("peer_comparisons_"+role, 1)
	if wait {
		h.rec.Count("peer_comparisons_in_deferral", 1)
	}
	staleName, missName := "stale-vpn-route", "missing-vpn-route"
	if p.role == c17CE {
		staleName, missName = "stale-route", "missing"
	}
	// CE: every VPN key seen so far per plain prefix (same prefix under several RDs is its own class)
	rdsOf := map[string]map[string]bool{}
	if p.role == c17CE {
		pre := "key:" + bgp.RF_IPv4_VPN.String() + "/"
		for sc := range h.keyRTs {
			if strings.HasPrefix(sc, pre) {
				if parts := strings.SplitN(strings.TrimPrefix(sc, pre), ":", 3); len(parts) == 3 {
					if rdsOf[parts[2]] == nil {
						rdsOf[parts[2]] = map[string]bool{}
					}
					rdsOf[parts[2]][parts[0]+":"+parts[1]] = true
				}
			}
		}
	}
	sfx := func(k simRouteKey) string {
		if len(rdsOf[k.Prefix]) > 1 {
			return ":same-prefix-several-rds"
		}
		return ""
	}

	if p.role == c17CE {
		if m := h.foreignFamilyUpdate(p); m != "" {
			h.violation("c17:ce-peer:foreign-route:vpn-family-update-sent-to-ce", fmt.Sprintf("CE %s negotiated ipv4-unicast only but gobgp sent it an UPDATE of another family at %s", p.addr(), m), at, map[string]any{"peer": p.addr(), "last_rx": c17LastRx(p.sp, 15)})
			return false
		}
	}
	if p.role == c17RTC {
		// gobgp originates a membership (local AS, RT) for every import RT of a configured VRF and advertises it to
		// rtc neighbours (TestDelVrfWithRTC); not part of the property: counted as coverage only
		for _, v := range h.vrfs {
			for _, rt := range v.imp {
				if v.present {
					if _, held := snap[simRouteKey{bgp.RF_RTC_UC, bgp.NewRouteTargetMembershipNLRI(simLocalAS, rt.ec()).String(), 0}]; held {
						h.rec.Count("rtc_local_vrf_membership_held", 1)
					} else {
						h.rec.Count("rtc_local_vrf_membership_not_held", 1)
					}
				}
			}
		}
	}
	var diffs []string
	type cl struct {
		key  string
		prio int
	}
	var worst *cl
	set := func(key string, prio int) {
		if worst == nil || prio < worst.prio {
			worst = &cl{key, prio}
		}
	}
	for k, g := range snap {
		if k.Family == bgp.RF_RTC_UC && p.role == c17RTC {
			h.rec.Count("rtc_nlri_held_by_peers", 1)
			continue
		}
		okFam := k.Family == bgp.RF_IPv4_VPN || k.Family == bgp.RF_EVPN
		if p.role == c17CE {
			okFam = k.Family == bgp.RF_IPv4_UC
		}
		if !okFam {
			diffs = append(diffs, "FOREIGN "+k.String()+" (family not expected at a "+role+")")
			set("foreign-route", 0)
			continue
		}
		tag := c17TagOfAttrs(g.Attrs)
		ws := want[k]
		if len(ws) == 0 {
			why := "not in the Loc-RIB"
			if p.role == c17CE {
				why = fmt.Sprintf("no best VPN route with that prefix carries a transitive RT of %s's import set", p.vrf)
			} else if b := best[k.Family.String()+"/"+k.Prefix]; b != nil {
				if b.src == p.addr() {
					why = "best route is the peer's own"
				} else {
					why = "no membership for any of its targets " + c17RTsString(b.rts)
				}
			}
			bl, msgEv := h.blame(p, k, "stale")
			if strings.HasPrefix(bl, "sent-on-") && !strings.Contains(bl, "race-") { // in a race event the version may change within the event
				bl = h.versionClass(tag, msgEv, best) + bl
			}
			diffs = append(diffs, fmt.Sprintf("STALE %s tag %d (%s) [%s]", k, tag, why, bl))
			bl = h.indexClass(p, k, bl)
			if sfx(k) != "" {
				set(staleName+sfx(k), 4)
			} else {
				set(staleName+":"+bl, 1)
			}
			continue
		}
		match := false
		for _, w := range ws {
			match = match || w.tag == tag
		}
		if !match {
			bl, msgEv := h.blame(p, k, "different")
			if strings.HasPrefix(bl, "sent-on-") && !strings.Contains(bl, "race-") { // in a race event the version may change within the event
				bl = h.versionClass(tag, msgEv, best) + bl
			}
			diffs = append(diffs, fmt.Sprintf("DIFFERENT %s peer holds version tag %d, should hold %v [%s]", k, tag, ws, bl))
			bl = h.indexClass(p, k, bl)
			if sfx(k) != "" {
				set("different-version"+sfx(k), 6)
			} else {
				set("different-version:"+bl, 3)
			}
		}
	}
	if !wait {
		for k, ws := range want {
			if _, held := snap[k]; held {
				continue
			}
			bl, _ := h.blame(p, k, "missing")
			twin := false
			for _, w := range ws {
				twin = twin || h.apiTwin(w)
			}
			if twin {
				bl = "vrf-api-route-same-nlri-in-two-vrfs"
			} else if p.role == c17RTC && strings.HasPrefix(bl, "after-membership-announce") && len(ws) == 1 && !h.vpnIndexHas(ws[0]) {
				bl = "not-in-vpn-index:" + bl
			}
			diffs = append(diffs, fmt.Sprintf("MISSING %s %v [%s]", k, ws, bl))
			bl = h.indexClass(p, k, bl)
			if sfx(k) != "" {
				set(missName+sfx(k), 5)
			} else {
				set(missName+":"+bl, 2)
			}
		}
	}
	if len(diffs) == 0 {
		return true
	}
	sort.Strings(diffs)
	var ms []string
	for mb, acc := range p.members {
		ms = append(ms, fmt.Sprintf("%d:%s#%d accepted=%v", mb.as, mb.rt, mb.id, acc))
	}
	sort.Strings(ms)
	what := fmt.Sprintf("at quiescence %s %s (%s, deferral-wait=%v) holds a VPN route set different from the model: %s", role, p.addr(), p.spec.Kind, wait, c17Abbrev(diffs))
	if p.role == c17CE {
		v := h.m.vrfs[p.vrf]
		what = fmt.Sprintf("at quiescence CE %s attached to VRF %s (import %s) holds a route set different from the model: %s", p.addr(), v.name, c17RTsString(v.imp), c17Abbrev(diffs))
	}
	h.violation("c17:"+role+":"+worst.key, what, at, map[string]any{"peer": p.addr(), "diff": diffs, "memberships": ms, "last_rx": c17LastRx(p.sp, 15)})
	return false
}

func c17LastRx(sp *simSpeaker, n int) []string {
	sp.mu.Lock()
	defer sp.mu.Unlock()
	var last []string
	for i := len(sp.rx) - 1; i >= 0 && len(last) < n; i-- {
		last = append(last, fmt.Sprintf("%v type=%d %v", sp.rx[i].At.Format("15:04:05"), sp.rx[i].Msg.Header.Type, sp.rx[i].Msg.Body))
	}
	return last
}

// ---------------------------------------------------------------- driver

func TestVerifC17(t *testing.T) {
	rec := vlib.Open("C17")
	defer rec.Close()
	total := vlib.Scale(300, 9000)
	vlib.Cases(total, func(idx int) {
		rec.Mark(fmt.Sprintf("c17 history %d", idx), true)
		synctest.Test(t, func(t *testing.T) { c17History(t, rec, idx) })
	})
}

func c17History(t *testing.T, rec *vlib.Rec, idx int) {
	r := vlib.CaseRand("c17", idx)
	n := simStart(t, &api.Global{Asn: simLocalAS, RouterId: "1.1.1.1"})
	defer func() {
		n.stop()
		synctest.Wait()
	}()
	h := &c17Hist{t: t, rec: rec, idx: idx, r: r, n: n, m: c17NewModel(), apiUUID: map[c17PathKey]uuid.UUID{}, apiVrf: map[c17PathKey]*apiutil.Path{},
		events: map[string]int{}, last: map[string]c17Ev{}, keyRTs: map[string]map[string]bool{}, rxMark: map[string][]int{},
		since: map[string]map[simRouteKey]c17Since{}, gone: map[string]map[simRouteKey]c17Gone{}, tagKey: map[uint32]c17PathKey{}, tagDied: map[uint32]int{}, apiRel: map[string]map[string]bool{}, apKeys: map[string]bool{}}
	defer func() { // what was exercised is recorded also when the history ends at a violation
		for k, v := range h.events {
			rec.Count("ev_"+k, v)
		}
		rec.Count("membership_or_vrf_changes", h.allChg)
		rec.Count("membership_changes", h.nMemChg)
		rec.Count("vrf_changes", h.nVrfChg)
		if h.collide {
			rec.Count("histories_with_prefix_collisions", 1)
		}
		if h.rtcPolicy {
			rec.Count("histories_with_rtc_import_policy", 1)
		}
		if h.medPolicy {
			rec.Count("histories_with_modifying_import_policy", 1)
		}
	}()
	// scheduler yields at gobgp's lock-free points (Gosched only: the comparison is at quiescence)
	_, yields, unhook := simInstallYield(r.Uint64(), false)
	defer func() { rec.Count("scheduler_yields", int(yields())); unhook() }()
	h.rtcPolicy = r.IntN(2) == 0
	h.medPolicy = r.IntN(2) == 0
	h.collide = r.IntN(6) == 0
	h.genVrfs()
	h.peers = h.genPeers()
	h.genPools()
	if h.rtcPolicy || h.medPolicy {
		if err := h.installPolicies(); err != nil {
			rec.Inconclusive("c17: policy: " + err.Error())
			return
		}
	}
	for _, v := range h.vrfs {
		h.randomizeVrfRTs(v)
		if v.hasCE || r.IntN(5) < 3 {
			if err := h.addVrf(v); err != nil {
				rec.Inconclusive("c17: AddVrf: " + err.Error())
				return
			}
			h.logf("initial vrf %s rd=%s import=%s export=%s ce=%v", v.name, v.rdString(), c17RTsString(v.imp), c17RTsString(v.exp), v.hasCE)
		}
	}
	for _, p := range h.peers {
		sp, err := n.addPeer(p.spec)
		if err != nil {
			rec.Inconclusive("c17: AddPeer: " + err.Error())
			return
		}
		p.sp = sp
		h.since[p.addr()] = map[simRouteKey]c17Since{}
		h.gone[p.addr()] = map[simRouteKey]c17Gone{}
	}
	synctest.Wait()
	for _, p := range h.peers {
		if r.IntN(5) == 0 {
			continue // comes up later: initial transfer of a non-empty table
		}
		if !h.bringUp(p) {
			return
		}
	}
	h.ev("session-up", "")
	h.endEvent() // event 0: the set-up
	rec.Eval()
	nEvents := 40 + r.IntN(161)
	next := 5 + r.IntN(16)
	for i := 1; i <= nEvents; i++ {
		h.seq = i
		if !h.step() {
			return
		}
		rec.Count("events", 1)
		last := i == nEvents
		if last {
			time.Sleep(8 * time.Second) // every deferral is over: the final comparison is exact for all peers
		}
		h.endEvent()
		if i == next || last {
			next = i + 5 + r.IntN(16)
			if !h.compare(fmt.Sprintf("event %d", i)) {
				return
			}
		}
	}
	rec.Count("histories_run_to_the_end", 1)
	if idx%97 == 0 {
		w := h.witness("end")
		if hist := w["history"].([]string); len(hist) > 25 {
			w["history"] = hist[:25]
		}
		rec.Sample(w)
	}
}
