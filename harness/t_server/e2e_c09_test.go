package server

// C09, unit "e2e" — the rule table of the property statement checked on the wire.
//
// One scenario = one real BgpServer (virtual time) with eight established neighbours: two eBGP, two
// non-client iBGP, two route-reflector clients, two route-server clients, with drawn per-peer options
// (remove-private-as, replace-peer-as, local-as, allow-own-as, allow-as-path-loop-local, cluster id).
// Every neighbour and the management API (local routes) announce 2-4 routes on prefixes of their own
// (so each accepted route is the best one) with drawn AS_PATH / MED / LOCAL_PREF / ORIGINATOR_ID /
// CLUSTER_LIST / communities / unknown optional attributes, IPv4 and IPv6 NLRI. At exact quiescence, for every
// (route, other neighbour) the expectation of the function-level reference (refmodel.C09Export / C09Inbound,
// written from the property text and the RFCs) is compared with what that neighbour received: decoded from
// the raw octets by the independent reader (wire) and the decoders in e2e_common_test.go.

import (
	"fmt"
	"math/rand/v2"
	"net/netip"
	"sort"
	"strings"
	"testing"
	"testing/synctest"

	"github.com/osrg/gobgp/v4/api"
	"github.com/osrg/gobgp/v4/internal/verif/refmodel"
	"github.com/osrg/gobgp/v4/internal/verif/vlib"
	"github.com/osrg/gobgp/v4/pkg/apiutil"
	"github.com/osrg/gobgp/v4/pkg/packet/bgp"
)

type e2eC09Sent struct {
	ro      *refmodel.C09Route
	key     simRouteKey
	in      *refmodel.C09Obs
	reject  refmodel.C09Tri // must the route be left unused (inbound loop rules)
	inRule  string
	sentErr error
}

type e2eC09Peer struct {
	name   string
	spec   *refmodel.C09Peer // nil: the management API (local routes)
	sp     *simSpeaker
	idx    int
	routes []*e2eC09Sent
}

func (p *e2eC09Peer) kind() refmodel.C09Kind {
	if p.spec == nil {
		return refmodel.C09Local
	}
	return p.spec.Kind
}

func e2eC09SimSpec(p *refmodel.C09Peer) simPeerSpec {
	kind := map[refmodel.C09Kind]simPeerKind{refmodel.C09EBGP: simEBGP, refmodel.C09IBGP: simIBGP, refmodel.C09RRClient: simRRClient, refmodel.C09RSClient: simRSClient}[p.Kind]
	return simPeerSpec{Kind: kind, Addr: p.Addr.String(), AS: p.AS, ID: p.RouterID.String(), V6: true,
		SpeakerMod: func(c *simSpeakerConf) { c.Local = p.LocalAddr.String() },
		Extra: func(ap *api.Peer) {
			ap.Conf.LocalAsn = p.LocalASOverride
			if p.Negotiated {
				ap.Conf.PeerAsn = 0 // peer-as not configured: the session type is derived from the peer's OPEN
			}
			switch p.RemovePrivate {
			case "all":
				ap.Conf.RemovePrivate = api.RemovePrivate_REMOVE_PRIVATE_ALL
			case "replace":
				ap.Conf.RemovePrivate = api.RemovePrivate_REMOVE_PRIVATE_REPLACE
			}
			ap.Conf.ReplacePeerAsn = p.ReplacePeerAS
			ap.Conf.AllowOwnAsn = uint32(p.AllowOwnAS)
			ap.Conf.AllowAspathLoopLocal = p.AllowLoopLocal
			if p.Kind == refmodel.C09RRClient {
				cid := ""
				if p.ClusterID.IsValid() {
					cid = p.ClusterID.String()
				}
				ap.RouteReflector = &api.RouteReflector{RouteReflectorClient: true, RouteReflectorClusterId: cid}
			}
		}}
}

// e2eC09Sanitize makes a drawn route something a correct speaker of the source's kind may send, so that
// gobgp's receive path (RFC 7606 / 4271 6.3 handling, covered by C06) does not interfere.
func e2eC09Sanitize(r *rand.Rand, rt *refmodel.C09Router, src *refmodel.C09Peer, ro *refmodel.C09Route) {
	var shape []string
	for _, s := range strings.Fields(ro.Shape) {
		if !strings.HasPrefix(s, "nh:") && !strings.HasPrefix(s, "unk:") {
			shape = append(shape, s)
		}
	}
	// no confederation here: confederation segments are malformed outside one
	var path []refmodel.C09Seg
	for _, s := range ro.ASPath {
		if s.Type == bgp.BGP_ASPATH_ATTR_TYPE_SEQ || s.Type == bgp.BGP_ASPATH_ATTR_TYPE_SET {
			path = append(path, s)
		}
	}
	ro.ASPath = path
	// next hop forms: IPv4 NLRI with NEXT_HOP, IPv6 NLRI in MP_REACH_NLRI (global, optionally + link-local)
	if ro.V6 {
		ro.MP, ro.NextHop = true, netip.Addr{}
		if !ro.MPNextHop.IsValid() || ro.MPNextHop.Is4() {
			ro.MPNextHop = netip.MustParseAddr("2001:db8:9::9")
		}
		shape = append(shape, "nh:v6")
		if ro.MPLinkLocal.IsValid() {
			shape = append(shape, "ll")
		}
	} else {
		if ro.MP || !ro.NextHop.IsValid() {
			ro.NextHop = netip.MustParseAddr("10.9.9.9")
			if src == nil && r.IntN(2) == 0 {
				ro.NextHop = netip.IPv4Unspecified()
			}
		}
		ro.MP, ro.MPNextHop, ro.MPLinkLocal = false, netip.Addr{}, netip.Addr{}
		shape = append(shape, "nh:v4")
	}
	if src == nil {
		ro.MPLinkLocal = netip.Addr{} // the API takes one next hop
	} else {
		if ro.NextHop.IsValid() && ro.NextHop.IsUnspecified() {
			ro.NextHop = src.Addr
		}
		if ro.MPNextHop.IsValid() && ro.MPNextHop.IsUnspecified() {
			ro.MPNextHop = netip.MustParseAddr("2001:db8:9::9")
		}
	}
	switch {
	case src == nil:
	case src.Kind == refmodel.C09EBGP || src.Kind == refmodel.C09RSClient:
		// an eBGP speaker sends no LOCAL_PREF / ORIGINATOR_ID / CLUSTER_LIST and starts the path with its own AS
		ro.LocalPref, ro.Originator, ro.ClusterList = nil, netip.Addr{}, nil
		ro.HasASPath = true
		if len(ro.ASPath) == 0 || ro.ASPath[0].Type != bgp.BGP_ASPATH_ATTR_TYPE_SEQ || ro.ASPath[0].AS[0] != src.AS {
			if len(ro.ASPath) > 0 && ro.ASPath[0].Type == bgp.BGP_ASPATH_ATTR_TYPE_SEQ && len(ro.ASPath[0].AS) < 250 {
				ro.ASPath[0].AS = append([]uint32{src.AS}, ro.ASPath[0].AS...)
			} else {
				ro.ASPath = append([]refmodel.C09Seg{{Type: bgp.BGP_ASPATH_ATTR_TYPE_SEQ, AS: []uint32{src.AS}}}, ro.ASPath...)
			}
		}
	default:
		ro.HasASPath = true
		if ro.LocalPref == nil {
			v := uint32(100)
			ro.LocalPref = &v
		}
	}
	// RFC 8092 5: a receiver MUST remove redundant Large Community values, so a sender has none
	var lc [][3]uint32
	for _, l := range ro.LargeComms {
		dup := false
		for _, x := range lc {
			dup = dup || x == l
		}
		if !dup {
			lc = append(lc, l)
		}
	}
	ro.LargeComms = lc
	// unknown attributes: optional ones only (an unrecognised well-known attribute resets the session)
	var fl []string
	for i := range ro.Unknown {
		u := &ro.Unknown[i]
		u.Flags |= uint8(bgp.BGP_ATTR_FLAG_OPTIONAL)
		if u.Flags&uint8(bgp.BGP_ATTR_FLAG_TRANSITIVE) == 0 {
			u.Flags &^= uint8(bgp.BGP_ATTR_FLAG_PARTIAL)
			fl = append(fl, "o")
		} else {
			fl = append(fl, "o-t")
		}
	}
	if len(fl) > 0 {
		sort.Strings(fl)
		shape = append(shape, "unk:"+strings.Join(fl, "+"))
	}
	ro.Shape = strings.Join(shape, " ")
}

type e2eC09Scenario struct {
	rec   *vlib.Rec
	idx   int
	r     *rand.Rand
	rt    *refmodel.C09Router
	n     *simNet
	peers []*e2eC09Peer // index 0 is the API
	// only != nil: second phase, judge only these targets (re-established on another local address) and
	// skip the inbound half (already judged)
	only map[string]bool
}

func (sc *e2eC09Scenario) clusterIDs() []netip.Addr {
	var out []netip.Addr
	for _, p := range sc.peers {
		if p.spec != nil && p.spec.Kind == refmodel.C09RRClient {
			out = append(out, p.spec.EffClusterID(sc.rt))
		}
	}
	return out
}

func (sc *e2eC09Scenario) witness(extra map[string]any) map[string]any {
	w := map[string]any{"case": sc.idx, "router": sc.rt.Describe()}
	var ps []string
	for _, p := range sc.peers {
		if p.spec != nil {
			ps = append(ps, fmt.Sprintf("%s %s as%d id=%s options=%s allow-own-as=%d", p.name, p.spec.Addr, p.spec.AS, p.spec.RouterID, p.spec.Options(), p.spec.AllowOwnAS))
		}
	}
	w["peers"] = ps
	for k, v := range extra {
		w[k] = v
	}
	return w
}

func e2eC09GenPeers(r *rand.Rand, rt *refmodel.C09Router) []*e2eC09Peer {
	kinds := []refmodel.C09Kind{refmodel.C09EBGP, refmodel.C09EBGP, refmodel.C09IBGP, refmodel.C09IBGP, refmodel.C09RRClient, refmodel.C09RRClient, refmodel.C09RSClient, refmodel.C09RSClient}
	names := []string{"e1", "e2", "i1", "i2", "c1", "c2", "r1", "r2"}
	out := []*e2eC09Peer{{name: "api"}}
	var specs []*refmodel.C09Peer
	for i, k := range kinds {
		p := refmodel.C09GenPeer(r, rt, k, i+1)
		p.Addr = netip.AddrFrom4([4]byte{10, 0, 0, byte(2 + i)})
		p.LocalAddr = netip.MustParseAddr(simLocalAddr)
		if i%2 == 1 && r.IntN(2) == 0 {
			// an IPv6 session (both families are carried on every session)
			p.Addr = netip.MustParseAddr(fmt.Sprintf("2001:db8::%x", 2+i))
			p.LocalAddr = netip.MustParseAddr("2001:db8::1")
		}
		if i > 0 && kinds[i-1] == k {
			prev := specs[i-1]
			switch r.IntN(6) {
			case 0: // second session to the same router
				p.AS, p.RouterID = prev.AS, prev.RouterID
			case 1, 2: // another router of the same AS
				if k == refmodel.C09EBGP || k == refmodel.C09RSClient {
					p.AS = prev.AS
				}
			}
		}
		// distinct AS between the plain eBGP and the route-server worlds keeps the expectations separate
		specs = append(specs, p)
		out = append(out, &e2eC09Peer{name: names[i], spec: p, idx: i + 1})
	}
	return out
}

func TestVerifE2E_C09(t *testing.T) {
	rec := vlib.Open("C09")
	defer rec.Close()
	total := vlib.Scale(480, 9600)
	vlib.Cases(total, func(idx int) {
		rec.Mark(fmt.Sprintf("e2e c09 scenario %d", idx), true)
		synctest.Test(t, func(t *testing.T) { e2eC09Scenario1(t, rec, idx) })
	})
}

func e2eC09Scenario1(t *testing.T, rec *vlib.Rec, idx int) {
	r := vlib.CaseRand("e2e-c09", idx)
	rt := refmodel.C09GenRouter(r)
	rt.Confed, rt.ConfedID, rt.Members = false, 0, nil
	n := simStart(t, &api.Global{Asn: rt.AS, RouterId: rt.RouterID.String()})
	defer func() {
		n.stop()
		synctest.Wait()
	}()
	sc := &e2eC09Scenario{rec: rec, idx: idx, r: r, rt: rt, n: n, peers: e2eC09GenPeers(r, rt)}
	for _, p := range sc.peers[1:] {
		sp, err := n.addPeer(e2eC09SimSpec(p.spec))
		if err != nil {
			rec.Inconclusive("e2e c09: AddPeer: " + err.Error())
			return
		}
		p.sp = sp
	}
	synctest.Wait()
	for _, p := range sc.peers[1:] {
		if err := p.sp.bringUp(40); err != nil {
			rec.Inconclusive("e2e c09: " + err.Error())
			return
		}
	}
	rec.Eval()
	rec.Count("e2e:c09:scenarios", 1)

	// ---- every source announces its routes
	var allSpecs []*refmodel.C09Peer
	for _, p := range sc.peers[1:] {
		allSpecs = append(allSpecs, p.spec)
	}
	for si, p := range sc.peers {
		nr := 2 + r.IntN(3)
		for j := 0; j < nr; j++ {
			var dsts []*refmodel.C09Peer
			for _, q := range allSpecs {
				if q != p.spec {
					dsts = append(dsts, q)
				}
			}
			ro := refmodel.C09GenRoute(r, rt, p.spec, dsts)
			e2eC09Sanitize(r, rt, p.spec, ro)
			if ro.V6 {
				ro.Prefix = netip.MustParsePrefix(fmt.Sprintf("2001:db8:%x:%x::/64", si+1, j+1))
			} else {
				ro.Prefix = netip.MustParsePrefix(fmt.Sprintf("10.%d.%d.0/24", si+1, j+1))
			}
			if p.spec != nil {
				sc.aimInbound(p, ro)
			}
			p.routes = append(p.routes, sc.send(p, ro))
		}
	}
	synctest.Wait()

	// ---- sessions must have survived (the routes are valid for their session type)
	for _, p := range sc.peers[1:] {
		if !e2eEstablished(n, p.spec.Addr.String()) {
			p.sp.mu.Lock()
			nf := p.sp.notif
			p.sp.mu.Unlock()
			var sent []any
			for _, s := range p.routes {
				sent = append(sent, map[string]any{"prefix": s.key.Prefix, "shape": s.ro.Shape, "sent": e2eObsText(s.in)})
			}
			rec.Violation("e2e:c09:"+p.kind().String()+"->rib:session-lost", fmt.Sprintf("session to %s (%s) was lost after it announced well-formed routes; notification=%v", p.name, p.kind(), nf),
				sc.witness(map[string]any{"peer": p.name, "routes": sent}))
			return
		}
	}

	// ---- observe
	views := map[string]map[simRouteKey]*e2eRoute{}
	for _, p := range sc.peers[1:] {
		ups, problems := e2eDecodeRx(p.sp)
		for _, pr := range problems {
			rec.Violation("e2e:c09:wire:malformed-message:"+p.kind().String(), "a message sent to "+p.name+" is malformed: "+pr, sc.witness(map[string]any{"peer": p.name, "rx": e2eRxLog(p.sp, 6)}))
		}
		views[p.name], _ = e2eApply(ups)
	}
	global := map[string][]e2eAPIPath{}
	for _, f := range []bgp.Family{bgp.RF_IPv4_UC, bgp.RF_IPv6_UC} {
		m, err := e2eListPath(n, api.TableType_TABLE_TYPE_GLOBAL, "", f, false)
		if err != nil {
			rec.Inconclusive("e2e c09: ListPath(GLOBAL): " + err.Error())
			return
		}
		for k, v := range m {
			global[k] = v
		}
	}
	rsLocal := map[string]map[string][]e2eAPIPath{} // rs client name -> prefix -> paths
	for _, p := range sc.peers[1:] {
		if p.spec.Kind != refmodel.C09RSClient {
			continue
		}
		rsLocal[p.name] = map[string][]e2eAPIPath{}
		for _, f := range []bgp.Family{bgp.RF_IPv4_UC, bgp.RF_IPv6_UC} {
			m, err := e2eListPath(n, api.TableType_TABLE_TYPE_LOCAL, p.spec.Addr.String(), f, false)
			if err != nil {
				rec.Inconclusive("e2e c09: ListPath(LOCAL): " + err.Error())
				return
			}
			for k, v := range m {
				rsLocal[p.name][k] = v
			}
		}
	}

	reached := 0
	var shape []string
	shape = append(shape, fmt.Sprint(rt.AS))
	for _, src := range sc.peers {
		if src.spec != nil {
			shape = append(shape, src.spec.Options())
		}
		for _, s := range src.routes {
			shape = append(shape, s.ro.Shape)
			reached += sc.judge(src, s, views, global, rsLocal)
		}
	}
	// ---- second phase: some neighbours lose their session and the same speaker (same AS, router id, neighbour
	// address) comes back over another local address of the router; what it is sent then is judged against
	// THIS session's local address
	{
		order := r.Perm(len(sc.peers) - 1)
		nre := 2 + r.IntN(2)
		from := map[string]int{}
		sc.only = map[string]bool{}
		var moved []*e2eC09Peer
		for _, k := range order[:nre] {
			q := sc.peers[1+k]
			q.sp.mu.Lock()
			from[q.name] = len(q.sp.rx)
			q.sp.mu.Unlock()
			q.sp.close()
			moved = append(moved, q)
			sc.only[q.name] = true
		}
		synctest.Wait()
		for _, q := range moved {
			nl := netip.MustParseAddr(fmt.Sprintf("10.0.%d.1", 8+r.IntN(2)))
			if q.spec.Addr.Is6() {
				nl = netip.MustParseAddr(fmt.Sprintf("2001:db8:%x::1", 0xb0+r.IntN(2)))
			}
			q.spec.LocalAddr = nl
			q.sp.conf.Local = nl.String()
			if err := q.sp.bringUp(40); err != nil {
				rec.Inconclusive("e2e c09: re-establish: " + err.Error())
				return
			}
		}
		synctest.Wait()
		views2 := map[string]map[simRouteKey]*e2eRoute{}
		for _, q := range moved {
			ups, problems := e2eDecodeRxFrom(q.sp, from[q.name])
			for _, pr := range problems {
				rec.Violation("e2e:c09:wire:malformed-message:"+q.kind().String(), "a message sent to "+q.name+" (re-established session) is malformed: "+pr, sc.witness(map[string]any{"peer": q.name, "rx": e2eRxLog(q.sp, 6)}))
			}
			views2[q.name], _ = e2eApply(ups)
			rec.Count("e2e:c09:rehomed:sessions:"+q.kind().String(), 1)
			if q.spec.Addr.Is6() {
				rec.Count("e2e:c09:rehomed:sessions:ipv6", 1)
			} else {
				rec.Count("e2e:c09:rehomed:sessions:ipv4", 1)
			}
		}
		for _, src := range sc.peers {
			if sc.only[src.name] {
				continue // its routes went away with its first session
			}
			for _, s := range src.routes {
				n2 := sc.judge(src, s, views2, global, rsLocal)
				reached += n2
				rec.Count("e2e:c09:rehomed:routes_reached", n2)
			}
		}
		sc.only = nil
	}
	if reached > 0 {
		rec.Count("e2e:c09:nontrivial_scenarios", 1)
		rec.Nontrivial("e2e-c09|" + vlib.Hash(strings.Join(shape, "|")))
	}
	if idx%97 == 0 {
		rec.Sample(sc.witness(map[string]any{"unit": "e2e", "routes_that_reached_a_target": reached}))
	}
}

// aimInbound steers some routes at the inbound loop rules: 0..4 occurrences of the session's local AS around
// the allow-own-as boundary, the own router id as ORIGINATOR_ID, a local cluster id in CLUSTER_LIST.
func (sc *e2eC09Scenario) aimInbound(p *e2eC09Peer, ro *refmodel.C09Route) {
	r, rt := sc.r, sc.rt
	L := p.spec.LocalAS(rt)
	if r.IntN(3) == 0 {
		for k := r.IntN(5); k > 0; k-- {
			if len(ro.ASPath) == 0 {
				ro.ASPath = append(ro.ASPath, refmodel.C09Seg{Type: bgp.BGP_ASPATH_ATTR_TYPE_SEQ, AS: []uint32{200}})
			}
			sg := &ro.ASPath[r.IntN(len(ro.ASPath))]
			if len(sg.AS) >= 250 {
				continue
			}
			pos := 1 + r.IntN(len(sg.AS)) // never in front of the sender's own AS
			sg.AS = append(sg.AS[:pos], append([]uint32{L}, sg.AS[pos:]...)...)
		}
		ro.Shape += " aimed:own-as"
	}
	if p.spec.Kind.Internal() {
		switch r.IntN(8) {
		case 0:
			ro.Originator = rt.RouterID
			ro.Shape += " aimed:originator"
		case 1:
			ids := sc.clusterIDs()
			ro.ClusterList = append([]netip.Addr{netip.MustParseAddr("8.8.8.3")}, ids[r.IntN(len(ids))])
			ro.Shape += " aimed:cluster-id"
		}
	}
}

func (sc *e2eC09Scenario) send(p *e2eC09Peer, ro *refmodel.C09Route) *e2eC09Sent {
	fam, nlri, attrs, err := refmodel.C09Build(ro, sc.r)
	s := &e2eC09Sent{ro: ro, key: simRouteKey{fam, nlri.String(), 0}}
	if err != nil {
		s.sentErr = err
		return s
	}
	sent, err := e2eRouteFromAttrs(attrs)
	if err != nil {
		s.sentErr = err
		return s
	}
	if ro.MP {
		sent = e2eStripNextHop(sent)
	}
	s.in = e2eObs(sent, fam, s.key.Prefix)
	if p.spec == nil {
		res, err := sc.n.s.AddPath(apiutil.AddPathRequest{Paths: []*apiutil.Path{{Family: fam, Nlri: nlri, Attrs: attrs}}})
		if err != nil {
			s.sentErr = err
		} else if len(res) == 1 && res[0].Error != nil {
			s.sentErr = res[0].Error
		}
		s.reject, s.inRule = refmodel.C09MustNot, "local"
		return s
	}
	var msg *bgp.BGPMessage
	if ro.MP {
		msg = bgp.NewBGPUpdateMessage(nil, attrs, nil)
	} else {
		msg = bgp.NewBGPUpdateMessage(nil, attrs, []bgp.PathNLRI{{NLRI: nlri}})
	}
	s.sentErr = p.sp.sendMsg(msg)
	s.reject, s.inRule = refmodel.C09Inbound(sc.rt, p.spec, s.in, sc.clusterIDs())
	return s
}

// judge compares one announced route with every other neighbour's view. Returns the number of targets reached.
func (sc *e2eC09Scenario) judge(src *e2eC09Peer, s *e2eC09Sent, views map[string]map[simRouteKey]*e2eRoute, global map[string][]e2eAPIPath, rsLocal map[string]map[string][]e2eAPIPath) int {
	rec, rt := sc.rec, sc.rt
	sk := src.kind()
	base := func(extra map[string]any) map[string]any {
		w := sc.witness(map[string]any{"source": src.name, "source_spec": src.spec.Describe(), "prefix": s.key.Prefix, "shape": s.ro.Shape, "sent": e2eObsText(s.in),
			"inbound_expectation": "must be left unused: " + s.reject.String() + " (" + s.inRule + ")"})
		for k, v := range extra {
			w[k] = v
		}
		return w
	}
	if s.sentErr != nil {
		rec.Inconclusive(fmt.Sprintf("e2e c09: case %d: could not announce %s from %s: %v", sc.idx, s.key.Prefix, src.name, s.sentErr))
		return 0
	}
	if sc.only != nil {
		if s.reject != refmodel.C09MustNot {
			return 0
		}
	} else {
		rec.Count("e2e:c09:routes_announced", 1)
		rec.Count("e2e:c09:inbound:"+s.inRule, 1)
		if s.reject == refmodel.C09Either {
			return 0
		}
		// ---- is the route in use
		used := false
		if sk == refmodel.C09RSClient {
			for name, tbl := range rsLocal {
				if name != src.name && len(tbl[s.key.Prefix]) > 0 {
					used = true
				}
			}
		} else {
			used = len(global[s.key.Prefix]) > 0
		}
		if s.reject == refmodel.C09Must {
			holders := []string{}
			for name, v := range views {
				if _, ok := v[s.key]; ok {
					holders = append(holders, name)
				}
			}
			sort.Strings(holders)
			if used || len(holders) > 0 {
				rec.Violation("e2e:c09:"+sk.String()+"->rib:"+s.inRule+"-used", fmt.Sprintf("a route with %s received from %s (%s) is in the Loc-RIB: %v, advertised to: %v", s.inRule, src.name, sk, used, holders), base(nil))
			}
			return 0
		}
		if !used {
			if sk == refmodel.C09RSClient {
				// a route-server client's route that no other client may take (AS loop towards each) is in no view; judged per target below
			} else {
				rec.Violation("e2e:c09:"+sk.String()+"->rib:wrongly-rejected:"+s.inRule, fmt.Sprintf("a route without loop indication from %s (%s) is not in the Loc-RIB", src.name, sk), base(nil))
				return 0
			}
		}
	}
	// ---- every other neighbour
	reached := 0
	for _, dst := range sc.peers[1:] {
		if sc.only != nil && !sc.only[dst.name] {
			continue
		}
		if sc.only != nil {
			rec.Count("e2e:c09:rehomed:judged:"+dst.kind().String(), 1)
		}
		if dst == src {
			// never back to the source itself
			if _, ok := views[dst.name][s.key]; ok {
				rec.Violation("e2e:c09:"+sk.String()+"->"+dst.kind().String()+":advertised-despite:back-to-source-router", "a route was advertised to the very session it was learned from", base(nil))
			}
			continue
		}
		dk := dst.spec.Kind
		if (sk == refmodel.C09RSClient) != (dk == refmodel.C09RSClient) {
			continue // the route-server world and the plain world do not exchange routes; the property does not speak about it
		}
		pair := sk.String() + "->" + dk.String()
		exp := refmodel.C09Export(rt, src.spec, dst.spec, s.in, true)
		if dk == refmodel.C09RSClient && exp.Advertise == refmodel.C09Must {
			// a route-server client is an eBGP peer: "never to an eBGP peer whose AS is already in its AS_PATH"
			for _, sg := range s.in.ASPath {
				for _, a := range sg.AS {
					if a == dst.spec.AS {
						exp.Advertise, exp.AdvRule = refmodel.C09MustNot, "peer-as-in-path"
					}
				}
			}
		}
		rec.Count("e2e:c09:pair:"+pair, 1)
		rec.Count("e2e:c09:opt:"+dst.spec.Options(), 1)
		if dst.spec.Negotiated {
			rec.Count("e2e:c09:peer-as-unset:target:"+dst.kind().String(), 1)
		}
		if src.spec != nil && src.spec.Negotiated {
			rec.Count("e2e:c09:peer-as-unset:source:"+src.kind().String(), 1)
		}
		for _, ru := range exp.Rules {
			if !strings.HasPrefix(ru, "adv:") {
				rec.Count("e2e:c09:rule:"+ru, 1)
			}
		}
		got, held := views[dst.name][s.key]
		wit := func(extra map[string]any) map[string]any {
			w := base(map[string]any{"target": dst.name, "target_spec": dst.spec.Describe(), "expected_decision": exp.Advertise.String(), "decision_rule": exp.AdvRule, "target_holds_route": held,
				"target_session": map[bool]string{false: "first session", true: "re-established on another local address of the router"}[sc.only != nil]})
			for k, v := range extra {
				w[k] = v
			}
			return w
		}
		if dst.spec.ReplacePeerAS {
			// one defect class: the peer got exactly what it would get without replace-peer-as
			agrees := func(e *refmodel.C09Exp) bool {
				if e.Advertise == refmodel.C09MustNot && held || e.Advertise == refmodel.C09Must && !held {
					return false
				}
				return !held || len(refmodel.C09Check(e, s.in, e2eObs(got, s.key.Family, s.key.Prefix), dst.spec.LocalAddr)) == 0
			}
			plain := *dst.spec
			plain.ReplacePeerAS = false
			if !agrees(exp) && agrees(refmodel.C09Export(rt, src.spec, &plain, s.in, true)) {
				class := "peer-as-configured"
				if dst.spec.Negotiated {
					class = "peer-as-unset"
				}
				rec.Violation("e2e:c09:replace-peer-as-not-applied:"+class, fmt.Sprintf("replace-peer-as is configured for %s (%s, AS %d); for the route of %s it received what it gets without the option (route held: %v)", dst.name, dk, dst.spec.AS, src.name, held),
					wit(map[string]any{"rx": e2eRxLog(dst.sp, 8)}))
				continue
			}
		}
		switch exp.Advertise {
		case refmodel.C09MustNot:
			rec.Count("e2e:c09:decision:suppressed:"+exp.AdvRule, 1)
			if held {
				rec.Violation("e2e:c09:"+pair+":advertised-despite:"+exp.AdvRule, fmt.Sprintf("%s (%s) received the route of %s (%s) although rule '%s' forbids it", dst.name, dk, src.name, sk, exp.AdvRule), wit(map[string]any{"rx": e2eRxLog(dst.sp, 8)}))
			}
			continue
		case refmodel.C09Must:
			rec.Count("e2e:c09:decision:advertised", 1)
			if !held {
				rec.Violation("e2e:c09:"+pair+":not-advertised", fmt.Sprintf("no rule forbids the route of %s (%s) towards %s (%s), yet it never arrived there", src.name, sk, dst.name, dk), wit(map[string]any{"rx": e2eRxLog(dst.sp, 8)}))
				continue
			}
		default:
			rec.Count("e2e:c09:decision:either:"+exp.AdvRule, 1)
			if !held {
				continue
			}
		}
		reached++
		rec.Count("e2e:c09:reached:"+pair, 1)
		out := e2eObs(got, s.key.Family, s.key.Prefix)
		in := s.in
		if in.MPLinkLocal.IsValid() && out.MP && !out.MPLinkLocal.IsValid() && out.MPNextHop == in.MPNextHop {
			// The global next hop was passed on, the link-local one (RFC 2545 3) was not. Towards iBGP peers
			// RFC 2545 makes the link-local address depend on the subnet shared with the receiving peer, which
			// nobody configured: both outcomes are admitted. Route-server clients share the exchange LAN by
			// definition and "the route is unchanged" is stated without exception: reported under its own key.
			cp := *in
			cp.Raw = map[uint8]string{}
			for k, v := range in.Raw {
				cp.Raw[k] = v
			}
			cp.MPLinkLocal = netip.Addr{}
			cp.Raw[14] = out.Raw[14]
			in = &cp
			if dk == refmodel.C09RSClient {
				rec.Violation("e2e:c09:"+pair+":rs-not-transparent:linklocal-nexthop-dropped",
					fmt.Sprintf("%s -> %s: MP_REACH_NLRI next hop %v + link-local %v arrived as %v alone", src.name, dst.name, s.in.MPNextHop, s.in.MPLinkLocal, out.MPNextHop),
					wit(map[string]any{"received": e2eObsText(out), "raw_message": e2eRxLog(dst.sp, 3)}))
			} else {
				rec.Count("e2e:c09:obs:linklocal-nexthop-not-passed-on:"+dk.String(), 1)
			}
		}
		mm := refmodel.C09Check(exp, in, out, dst.spec.LocalAddr)
		seen := map[string]bool{}
		for _, x := range mm {
			if seen[x.Rule] {
				continue
			}
			seen[x.Rule] = true
			rec.Violation("e2e:c09:"+pair+":"+x.Rule, fmt.Sprintf("%s -> %s: %s", src.name, dst.name, x.Detail), wit(map[string]any{"received": e2eObsText(out), "all_mismatches": fmt.Sprint(mm), "raw_message": e2eRxLog(dst.sp, 3)}))
		}
		rec.Count("e2e:c09:attribute_checks", 1)
		for _, u := range s.in.Unknown {
			if u.Flags&uint8(bgp.BGP_ATTR_FLAG_TRANSITIVE) != 0 {
				rec.Count("e2e:c09:rule:unknown-transitive-passed-on", 1)
			} else if dk == refmodel.C09EBGP {
				rec.Count("e2e:c09:rule:unknown-nontransitive-dropped", 1)
			}
		}
		ps, pu := refmodel.C09PartialCount(out)
		rec.Count("e2e:c09:unknown_transitive_partial_set", ps)
		rec.Count("e2e:c09:unknown_transitive_partial_unset", pu)
	}
	return reached
}
