package server

// C08 — session parameters are negotiated as the intersection of both OPEN messages.
//
// This file holds what is independent of gobgp's negotiation code: the description of a local
// neighbour configuration (c08Local), a byte-level OPEN (c08Open), the reference negotiation
// c08Negotiate (written from the property text and RFC 4271 s4.2/s4.4/s6.2, RFC 4760 s8, RFC 7911 s4,
// RFC 6793 s3/s4.1, RFC 8654 s3/s4), the generators, and small byte-level readers for OPEN and
// UPDATE messages as gobgp writes them.

import (
	"encoding/binary"
	"fmt"
	"math/rand/v2"
	"net/netip"
	"sort"
	"strings"

	"github.com/osrg/gobgp/v4/pkg/packet/bgp"
)

const (
	c08CapMP      = 1
	c08CapRR      = 2
	c08CapExtNH   = 5
	c08CapExtMsg  = 6
	c08CapGR      = 64
	c08CapAS4     = 65
	c08CapAddPath = 69
	c08CapERR     = 70
	c08CapLLGR    = 71
	c08CapFQDN    = 73
	c08CapSoftVer = 75
	c08ASTrans    = 23456

	c08APRecv = 1 // RFC 7911: 1 = able to receive multiple paths, 2 = able to send, 3 = both
	c08APSend = 2
)

var (
	c08V4   = bgp.NewFamily(1, 1)
	c08V6   = bgp.NewFamily(2, 1)
	c08VPN4 = bgp.NewFamily(1, 128)
	c08EVPN = bgp.NewFamily(25, 70)
	c08RTC  = bgp.NewFamily(1, 132)
	// the families the property quantifies over
	c08Fams = []bgp.Family{c08V4, c08V6, c08VPN4, c08EVPN, c08RTC}
	// families a peer may announce although gobgp is never configured with them here
	c08ForeignFams = []bgp.Family{bgp.NewFamily(1, 2), bgp.NewFamily(2, 128), bgp.NewFamily(1, 4)}
)

func c08FamName(f bgp.Family) string {
	switch f {
	case c08V4:
		return "ipv4-unicast"
	case c08V6:
		return "ipv6-unicast"
	case c08VPN4:
		return "l3vpn-ipv4-unicast"
	case c08EVPN:
		return "l2vpn-evpn"
	case c08RTC:
		return "rtc"
	}
	return fmt.Sprintf("afi%d-safi%d", f.Afi(), f.Safi())
}

// ---------------------------------------------------------------- local configuration

type c08FamConf struct {
	F        bgp.Family
	SendMax  uint8 // add-path send-max (>0 = we want to send several paths)
	APRecv   bool  // add-path receive
	GR       bool  // mp-graceful-restart enabled
	LLGR     bool  // long-lived graceful restart enabled
	LLGRTime uint32
}

type c08Local struct {
	GlobalAS uint32
	LocalAS  uint32 // neighbour-level local-as (0 = use the global AS)
	RouterID string
	PeerAS   uint32       // 0 = AS checking disabled
	Hold     uint16       // configured hold time
	HoldSet  bool         // false: not configured (default 90)
	KA       uint16       // configured keepalive interval
	KASet    bool         // false: not configured (default hold/3)
	Fams     []c08FamConf // nil: not configured (IPv4 unicast for an IPv4 neighbour)
	GR       bool
	GRTime   uint16 // 0 = default (hold time)
	GRHelper bool
	GRNotif  bool
	LLGR     bool
}

func (l *c08Local) effAS() uint32 {
	if l.LocalAS != 0 {
		return l.LocalAS
	}
	return l.GlobalAS
}

func (l *c08Local) effHold() uint16 {
	if !l.HoldSet {
		return 90
	}
	return l.Hold
}

func (l *c08Local) effKA() float64 {
	if l.KASet {
		return float64(l.KA)
	}
	return float64(l.effHold()) / 3
}

func (l *c08Local) fams() []c08FamConf {
	if l.Fams == nil {
		return []c08FamConf{{F: c08V4}}
	}
	return l.Fams
}

func (l *c08Local) String() string {
	var fs []string
	for _, f := range l.fams() {
		s := c08FamName(f.F)
		if f.SendMax > 0 {
			s += fmt.Sprintf("+send%d", f.SendMax)
		}
		if f.APRecv {
			s += "+recv"
		}
		if f.GR {
			s += "+gr"
		}
		if f.LLGR {
			s += fmt.Sprintf("+llgr%d", f.LLGRTime)
		}
		fs = append(fs, s)
	}
	return fmt.Sprintf("global-as=%d local-as=%d router-id=%s peer-as=%d hold=%d(set=%v) keepalive=%d(set=%v) families=[%s](configured=%v) gr=%v(time=%d helper=%v notif=%v llgr=%v)",
		l.GlobalAS, l.LocalAS, l.RouterID, l.PeerAS, l.Hold, l.HoldSet, l.KA, l.KASet, strings.Join(fs, " "), l.Fams != nil, l.GR, l.GRTime, l.GRHelper, l.GRNotif, l.LLGR)
}

// ---------------------------------------------------------------- OPEN as bytes

type c08Cap struct {
	Code uint8
	Val  []byte
}

type c08Open struct {
	Version uint8
	MyAS    uint16
	Hold    uint16
	ID      [4]byte
	Params  [][]c08Cap // one optional parameter of type 2 per element
	PadTo   int        // >0: header length field and trailing padding up to this many octets (oversize probe)
}

func (o *c08Open) caps() []c08Cap {
	var out []c08Cap
	for _, p := range o.Params {
		out = append(out, p...)
	}
	return out
}

func c08Header(length int, typ uint8) []byte {
	b := make([]byte, 19)
	for i := 0; i < 16; i++ {
		b[i] = 0xff
	}
	binary.BigEndian.PutUint16(b[16:], uint16(length))
	b[18] = typ
	return b
}

func (o *c08Open) bytes() []byte {
	var opt []byte
	for _, p := range o.Params {
		var pb []byte
		for _, c := range p {
			pb = append(pb, c.Code, uint8(len(c.Val)))
			pb = append(pb, c.Val...)
		}
		opt = append(opt, 2, uint8(len(pb)))
		opt = append(opt, pb...)
	}
	body := []byte{o.Version, byte(o.MyAS >> 8), byte(o.MyAS), byte(o.Hold >> 8), byte(o.Hold), o.ID[0], o.ID[1], o.ID[2], o.ID[3], uint8(len(opt))}
	body = append(body, opt...)
	n := 19 + len(body)
	if o.PadTo > n {
		body = append(body, make([]byte, o.PadTo-n)...)
		n = o.PadTo
	}
	return append(c08Header(n, 1), body...)
}

func (o *c08Open) String() string {
	var ps []string
	for _, p := range o.Params {
		var cs []string
		for _, c := range p {
			cs = append(cs, fmt.Sprintf("%d:%x", c.Code, c.Val))
		}
		ps = append(ps, "{"+strings.Join(cs, " ")+"}")
	}
	return fmt.Sprintf("my-as=%d hold=%d id=%d.%d.%d.%d params=%s", o.MyAS, o.Hold, o.ID[0], o.ID[1], o.ID[2], o.ID[3], strings.Join(ps, ""))
}

// c08ReadOpen decodes an OPEN (with header) as written by gobgp.
func c08ReadOpen(raw []byte) (*c08Open, error) {
	if len(raw) < 29 || raw[18] != 1 {
		return nil, fmt.Errorf("not an OPEN (%d octets)", len(raw))
	}
	if int(binary.BigEndian.Uint16(raw[16:18])) != len(raw) {
		return nil, fmt.Errorf("header length %d != %d octets read", binary.BigEndian.Uint16(raw[16:18]), len(raw))
	}
	b := raw[19:]
	o := &c08Open{Version: b[0], MyAS: binary.BigEndian.Uint16(b[1:3]), Hold: binary.BigEndian.Uint16(b[3:5])}
	copy(o.ID[:], b[5:9])
	optLen := int(b[9])
	opt := b[10:]
	if optLen != len(opt) {
		return nil, fmt.Errorf("optional parameter length %d but %d octets follow", optLen, len(opt))
	}
	for len(opt) > 0 {
		if len(opt) < 2 || len(opt) < 2+int(opt[1]) {
			return nil, fmt.Errorf("truncated optional parameter")
		}
		typ, val := opt[0], opt[2:2+int(opt[1])]
		opt = opt[2+int(opt[1]):]
		if typ != 2 {
			return nil, fmt.Errorf("optional parameter type %d", typ)
		}
		var caps []c08Cap
		for len(val) > 0 {
			if len(val) < 2 || len(val) < 2+int(val[1]) {
				return nil, fmt.Errorf("truncated capability")
			}
			caps = append(caps, c08Cap{val[0], append([]byte{}, val[2:2+int(val[1])]...)})
			val = val[2+int(val[1]):]
		}
		o.Params = append(o.Params, caps)
	}
	return o, nil
}

// ---------------------------------------------------------------- reference negotiation

type c08Refusal struct{ Code, Sub uint8 }

type c08Result struct {
	Refuse   map[c08Refusal]bool // non-empty: the OPEN must be refused with one of these NOTIFICATIONs
	RemoteAS uint32
	Internal bool
	Hold     uint16
	KA       map[float64]bool // admissible keepalive intervals in seconds (0 = none are sent)
	Fams     map[bgp.Family]bool
	// AP[f]: admissible negotiated modes from OUR point of view (bit c08APSend: we send path ids,
	// bit c08APRecv: we expect path ids); nil map entry = unconstrained (peer sent an undefined mode)
	AP  map[bgp.Family]map[uint8]bool
	AS4 bool
	Ext bool
}

// c08Negotiate is the reference. weAS4 / weExt say whether the OPEN gobgp sent carried the
// 4-octet-AS / Extended Message capability (neither is configurable in gobgp; that the rest of
// gobgp's OPEN mirrors the configuration is checked separately by c08CheckOpen).
func c08Negotiate(l *c08Local, o *c08Open, weAS4, weExt bool) *c08Result {
	res := &c08Result{Refuse: map[c08Refusal]bool{}, KA: map[float64]bool{}, Fams: map[bgp.Family]bool{}, AP: map[bgp.Family]map[uint8]bool{}}
	peerFams := map[bgp.Family]bool{}
	peerAP := map[bgp.Family][]uint8{}
	anyMP, peerAS4, peerExt := false, false, false
	res.RemoteAS = uint32(o.MyAS)
	for _, c := range o.caps() {
		switch {
		case c.Code == c08CapMP && len(c.Val) == 4:
			anyMP = true
			peerFams[bgp.NewFamily(binary.BigEndian.Uint16(c.Val), c.Val[3])] = true
		case c.Code == c08CapAS4 && len(c.Val) == 4:
			peerAS4 = true
			res.RemoteAS = binary.BigEndian.Uint32(c.Val) // RFC 6793 s3: the capability carries the speaker's AS number
		case c.Code == c08CapExtMsg:
			peerExt = true
		case c.Code == c08CapAddPath:
			for i := 0; i+4 <= len(c.Val); i += 4 {
				f := bgp.NewFamily(binary.BigEndian.Uint16(c.Val[i:]), c.Val[i+2])
				peerAP[f] = append(peerAP[f], c.Val[i+3])
			}
		}
	}
	if !anyMP {
		peerFams[c08V4] = true // RFC 4760 s8 / RFC 4271: without the capability only IPv4 unicast is exchanged
	}
	// RFC 4271 s6.2
	if o.PadTo > 4096 {
		res.Refuse[c08Refusal{1, 2}] = true // RFC 8654 s4: OPEN never above 4096
	}
	if l.PeerAS != 0 && res.RemoteAS != l.PeerAS {
		res.Refuse[c08Refusal{2, 2}] = true
	}
	if o.Hold == 1 || o.Hold == 2 {
		res.Refuse[c08Refusal{2, 6}] = true
	}
	res.Internal = res.RemoteAS == l.effAS()
	// hold time: the smaller of the two (RFC 4271 s4.2); zero = no keepalives, no hold timer
	res.Hold = l.effHold()
	if o.Hold < res.Hold {
		res.Hold = o.Hold
	}
	if res.Hold == 0 {
		res.KA[0] = true
	} else {
		third := float64(res.Hold) / 3
		res.KA[third] = true
		// "unless the configured one applies": undocumented when it does. It certainly may when our own
		// hold time is the one in force; when the peer's smaller hold time is in force a configured
		// interval is still safe if it is not longer than a third of it.
		if l.KASet && (res.Hold == l.effHold() || float64(l.KA) <= third) {
			res.KA[float64(l.KA)] = true
		}
	}
	for _, fc := range l.fams() {
		if !peerFams[fc.F] {
			continue
		}
		res.Fams[fc.F] = true
		modes := peerAP[fc.F]
		adm := map[uint8]bool{}
		neg := func(pm uint8) uint8 {
			var m uint8
			if fc.SendMax > 0 && pm&c08APRecv != 0 {
				m |= c08APSend
			}
			if fc.APRecv && pm&c08APSend != 0 {
				m |= c08APRecv
			}
			return m
		}
		if len(modes) == 0 {
			adm[0] = true
		} else {
			// RFC 7911 does not say what several tuples for one <AFI, SAFI> mean: first wins, last wins
			// and the union are all accepted. An undefined Send/Receive value (not 1..3) leaves the
			// family unconstrained ("SHOULD be treated as not understood and ignored").
			union, undefined := uint8(0), false
			for _, m := range modes {
				if m < 1 || m > 3 {
					undefined = true
				}
				union |= m
			}
			if undefined {
				adm = nil
			} else {
				adm[neg(modes[0])] = true
				adm[neg(modes[len(modes)-1])] = true
				adm[neg(union)] = true
			}
		}
		res.AP[fc.F] = adm
	}
	res.AS4 = peerAS4 && weAS4
	res.Ext = peerExt && weExt
	return res
}

func (r *c08Result) refused() bool { return len(r.Refuse) > 0 }

func (r *c08Result) famList() []bgp.Family {
	var fs []bgp.Family
	for f := range r.Fams {
		fs = append(fs, f)
	}
	sort.Slice(fs, func(i, j int) bool { return fs[i] < fs[j] })
	return fs
}

// outcome is the negotiation-outcome tuple used for evidence counters and distinctness.
func (r *c08Result) outcome(ka float64, ap map[bgp.Family]uint8) string {
	if r.refused() {
		var rs []string
		for k := range r.Refuse {
			rs = append(rs, fmt.Sprintf("%d/%d", k.Code, k.Sub))
		}
		sort.Strings(rs)
		return "refused:" + strings.Join(rs, ",")
	}
	var fs []string
	for _, f := range r.famList() {
		fs = append(fs, fmt.Sprintf("%s:%d", c08FamName(f), ap[f]))
	}
	typ := "ebgp"
	if r.Internal {
		typ = "ibgp"
	}
	return fmt.Sprintf("hold=%d ka=%g fam=[%s] as4=%v ext=%v %s", r.Hold, ka, strings.Join(fs, ","), r.AS4, r.Ext, typ)
}

// kaWire lists the keepalive periods admissible on the wire: the admissible intervals, whole
// seconds below them (an implementation keeping whole seconds), never below one second.
func (r *c08Result) kaWire() map[int64]bool { // milliseconds
	out := map[int64]bool{}
	for k := range r.KA {
		if k == 0 {
			out[0] = true
			continue
		}
		for _, v := range []float64{k, float64(int64(k))} {
			if v < 1 {
				v = 1
			}
			out[int64(v*1000)] = true
		}
	}
	return out
}

// ---------------------------------------------------------------- OPEN sent vs configuration

type c08Issue struct{ Key, What string }

// c08CheckOpen compares the OPEN gobgp wrote with the configuration.
func c08CheckOpen(l *c08Local, raw []byte) (issues []c08Issue, weAS4, weExt bool) {
	add := func(k, f string, a ...any) { issues = append(issues, c08Issue{"c08:open:" + k, fmt.Sprintf(f, a...)}) }
	o, err := c08ReadOpen(raw)
	if err != nil {
		add("undecodable", "OPEN sent by gobgp cannot be decoded: %v", err)
		return
	}
	if o.Version != 4 {
		add("version", "version %d", o.Version)
	}
	wantAS := l.effAS()
	wantMy := uint16(wantAS)
	if wantAS > 65535 {
		wantMy = c08ASTrans
	}
	if o.MyAS != wantMy {
		add("my-as-field", "My Autonomous System field is %d, want %d for local AS %d", o.MyAS, wantMy, wantAS)
	}
	if o.Hold != l.effHold() {
		add("hold-time", "Hold Time field is %d, configured %d", o.Hold, l.effHold())
	}
	if id := netip.MustParseAddr(l.RouterID).As4(); o.ID != id {
		add("router-id", "BGP Identifier %v, configured %s", o.ID, l.RouterID)
	}
	mp := map[bgp.Family]int{}
	ap := map[bgp.Family][]uint8{}
	var as4 [][]byte
	var gr, llgr [][]byte
	for _, c := range o.caps() {
		switch c.Code {
		case c08CapMP:
			if len(c.Val) != 4 {
				add("mp-capability-length", "MP capability of length %d", len(c.Val))
				continue
			}
			mp[bgp.NewFamily(binary.BigEndian.Uint16(c.Val), c.Val[3])]++
		case c08CapAS4:
			as4 = append(as4, c.Val)
		case c08CapExtMsg:
			weExt = true
			if len(c.Val) != 0 {
				add("extmsg-capability-length", "Extended Message capability of length %d", len(c.Val))
			}
		case c08CapAddPath:
			if len(c.Val) == 0 || len(c.Val)%4 != 0 {
				add("addpath-capability-length", "ADD-PATH capability of length %d", len(c.Val))
				continue
			}
			for i := 0; i+4 <= len(c.Val); i += 4 {
				f := bgp.NewFamily(binary.BigEndian.Uint16(c.Val[i:]), c.Val[i+2])
				ap[f] = append(ap[f], c.Val[i+3])
			}
		case c08CapGR:
			gr = append(gr, c.Val)
		case c08CapLLGR:
			llgr = append(llgr, c.Val)
		}
	}
	// one MP capability per configured family
	want := map[bgp.Family]bool{}
	for _, fc := range l.fams() {
		want[fc.F] = true
		if mp[fc.F] != 1 {
			add("mp-families", "configured family %s announced %d times", c08FamName(fc.F), mp[fc.F])
		}
	}
	for f := range mp {
		if !want[f] {
			add("mp-families", "family %s announced but not configured", c08FamName(f))
		}
	}
	// 4-octet AS capability with the real local AS
	if len(as4) != 1 || len(as4[0]) != 4 {
		add("as4-capability", "%d 4-octet AS capabilities %x", len(as4), as4)
	} else {
		weAS4 = true
		if v := binary.BigEndian.Uint32(as4[0]); v != wantAS {
			add("as4-capability", "4-octet AS capability carries %d, local AS is %d", v, wantAS)
		}
	}
	// ADD-PATH tuples per configured mode
	for _, fc := range l.fams() {
		var m uint8
		if fc.SendMax > 0 {
			m |= c08APSend
		}
		if fc.APRecv {
			m |= c08APRecv
		}
		got := ap[fc.F]
		switch {
		case m == 0 && len(got) != 0:
			add("addpath-tuples", "family %s: no add-path configured but tuple(s) %v announced", c08FamName(fc.F), got)
		case m != 0 && (len(got) != 1 || got[0] != m):
			add("addpath-tuples", "family %s: configured mode %d, announced %v", c08FamName(fc.F), m, got)
		}
	}
	for f, got := range ap {
		if !want[f] {
			add("addpath-tuples", "tuple(s) %v for unconfigured family %s", got, c08FamName(f))
		}
	}
	// graceful restart / long-lived graceful restart
	if !l.GR {
		if len(gr) != 0 || len(llgr) != 0 {
			add("gr-capability", "graceful restart not configured but capability announced (gr=%x llgr=%x)", gr, llgr)
		}
	} else {
		if len(gr) != 1 || len(gr[0]) < 2 || (len(gr[0])-2)%4 != 0 {
			add("gr-capability", "graceful restart configured, capabilities announced: %x", gr)
		} else {
			v := gr[0]
			hd := binary.BigEndian.Uint16(v)
			wantT := l.GRTime
			if wantT == 0 {
				wantT = l.effHold()
			}
			if hd&0x0fff != wantT&0x0fff {
				add("gr-capability", "restart time %d, configured %d", hd&0x0fff, wantT)
			}
			if (hd&0x4000 != 0) != l.GRNotif {
				add("gr-capability", "N bit %v, notification-enabled %v", hd&0x4000 != 0, l.GRNotif)
			}
			if hd&0x8000 != 0 {
				add("gr-capability", "R bit set although not restarting")
			}
			got := map[bgp.Family]int{}
			for i := 2; i+4 <= len(v); i += 4 {
				got[bgp.NewFamily(binary.BigEndian.Uint16(v[i:]), v[i+2])]++
			}
			for _, fc := range l.fams() {
				w := 0
				if fc.GR && !l.GRHelper {
					w = 1
				}
				if got[fc.F] != w {
					add("gr-tuples", "family %s: %d GR tuple(s), want %d (mp-graceful-restart=%v helper-only=%v)", c08FamName(fc.F), got[fc.F], w, fc.GR, l.GRHelper)
				}
				delete(got, fc.F)
			}
			for f := range got {
				add("gr-tuples", "GR tuple for unconfigured family %s", c08FamName(f))
			}
		}
		if !l.LLGR {
			if len(llgr) != 0 {
				add("llgr-capability", "long-lived graceful restart not configured but announced: %x", llgr)
			}
		} else if len(llgr) != 1 || len(llgr[0])%7 != 0 {
			add("llgr-capability", "long-lived graceful restart configured, capabilities announced: %x", llgr)
		} else {
			v := llgr[0]
			got := map[bgp.Family][]uint32{}
			for i := 0; i+7 <= len(v); i += 7 {
				f := bgp.NewFamily(binary.BigEndian.Uint16(v[i:]), v[i+2])
				got[f] = append(got[f], uint32(v[i+4])<<16|uint32(v[i+5])<<8|uint32(v[i+6]))
			}
			for _, fc := range l.fams() {
				g := got[fc.F]
				if fc.LLGR && !l.GRHelper {
					if len(g) != 1 || g[0] != fc.LLGRTime&0xffffff {
						add("llgr-tuples", "family %s: LLGR tuples %v, configured restart time %d", c08FamName(fc.F), g, fc.LLGRTime)
					}
				} else if len(g) != 0 {
					add("llgr-tuples", "family %s: LLGR tuple(s) %v but not configured", c08FamName(fc.F), g)
				}
				delete(got, fc.F)
			}
			for f := range got {
				add("llgr-tuples", "LLGR tuple for unconfigured family %s", c08FamName(f))
			}
		}
	}
	return
}

// ---------------------------------------------------------------- generators

func c08Pick[T any](r *rand.Rand, xs ...T) T { return xs[r.IntN(len(xs))] }

// c08GenLocal draws a neighbour configuration. viaAPI: only what AddPeer can express (a hold time of
// zero is patched in white-box by the caller, as a configuration file would set it).
func c08GenLocal(r *rand.Rand) *c08Local {
	l := &c08Local{RouterID: c08Pick(r, "1.1.1.1", "192.0.2.1", "10.255.0.1")}
	l.GlobalAS = c08Pick(r, uint32(65000), 65000, 64999, 4200000000, 131072)
	if r.IntN(5) == 0 {
		l.LocalAS = c08Pick(r, uint32(65100), 4200000100, 200)
	}
	switch r.IntN(4) {
	case 0:
	default:
		l.HoldSet = true
		l.Hold = c08Pick(r, uint16(0), 3, 3, 9, 9, 90, 90, 30, 10, 4)
	}
	if l.effHold() > 3 && r.IntN(3) == 0 {
		l.KASet = true
		var opts []uint16
		for _, k := range []uint16{1, 2, 3, 5, 10, 30, 45} {
			if k < l.effHold() {
				opts = append(opts, k)
			}
		}
		l.KA = opts[r.IntN(len(opts))]
	}
	if r.IntN(8) != 0 {
		perm := r.Perm(len(c08Fams))
		n := 1 + r.IntN(len(c08Fams))
		if r.IntN(3) == 0 {
			n = len(c08Fams)
		}
		l.Fams = []c08FamConf{}
		for _, i := range perm[:n] {
			fc := c08FamConf{F: c08Fams[i]}
			switch r.IntN(6) {
			case 0:
				fc.SendMax = uint8(1 + r.IntN(3))
			case 1:
				fc.APRecv = true
			case 2:
				fc.SendMax, fc.APRecv = uint8(1+r.IntN(3)), true
			}
			l.Fams = append(l.Fams, fc)
		}
	}
	if r.IntN(3) == 0 {
		l.GR = true
		l.GRTime = c08Pick(r, uint16(0), 30, 120, 4095)
		l.GRHelper = r.IntN(5) == 0
		l.GRNotif = r.IntN(3) == 0
		l.LLGR = r.IntN(2) == 0
		for i := range l.Fams {
			l.Fams[i].GR = r.IntN(3) != 0
			if l.LLGR && r.IntN(2) == 0 {
				l.Fams[i].LLGR = true
				l.Fams[i].LLGRTime = c08Pick(r, uint32(0), 1, 3600, 0xffffff)
			}
		}
	}
	return l
}

// c08PickPeerAS fixes the configured peer AS given the AS the first OPEN will carry.
func c08PickPeerAS(r *rand.Rand, l *c08Local, firstRemoteAS uint32) {
	switch r.IntN(12) {
	case 0, 1:
		l.PeerAS = 0
	case 2:
		l.PeerAS = firstRemoteAS + 1 // mismatch: the OPEN must be refused
	default:
		l.PeerAS = firstRemoteAS
	}
}

// c08GenRemoteAS draws the AS of the scripted speaker and whether it announces 4-octet AS support.
func c08GenRemoteAS(r *rand.Rand, l *c08Local) (as uint32, as4 bool) {
	as4 = r.IntN(4) != 0
	switch k := r.IntN(10); {
	case k < 3: // internal
		as = l.effAS()
	case k < 5 && as4:
		as = c08Pick(r, uint32(4200000001), 70001, 65536)
	default:
		as = c08Pick(r, uint32(65001), 65002, 100, 23456)
	}
	if as > 65535 {
		as4 = true
	}
	return
}

func c08MPVal(f bgp.Family) []byte {
	return []byte{byte(f.Afi() >> 8), byte(f.Afi()), 0, f.Safi()}
}

// c08GenOpen draws the OPEN of the scripted speaker. sim restricts the shapes to what the session
// level can probe consistently (no conflicting 4-octet AS capabilities).
func c08GenOpen(r *rand.Rand, l *c08Local, as uint32, as4 bool) *c08Open {
	o := &c08Open{Version: 4}
	o.ID = [4]byte{byte(2 + r.IntN(200)), 2, 2, byte(1 + r.IntN(250))}
	if as > 65535 {
		o.MyAS = c08ASTrans
	} else {
		o.MyAS = uint16(as)
	}
	o.Hold = c08Pick(r, uint16(0), 0, 3, 3, 4, 5, 9, 9, 10, 30, 89, 90, 90, 91, 180, 65535, 65535, 1, 2)
	var caps []c08Cap
	// multiprotocol
	if r.IntN(6) != 0 {
		for _, f := range c08Fams {
			if r.IntN(3) != 0 {
				caps = append(caps, c08Cap{c08CapMP, c08MPVal(f)})
				if r.IntN(8) == 0 {
					caps = append(caps, c08Cap{c08CapMP, c08MPVal(f)}) // duplicate
				}
			}
		}
		if r.IntN(4) == 0 {
			caps = append(caps, c08Cap{c08CapMP, c08MPVal(c08Pick(r, c08ForeignFams...))})
		}
	}
	if as4 {
		v := make([]byte, 4)
		binary.BigEndian.PutUint32(v, as)
		caps = append(caps, c08Cap{c08CapAS4, v})
		if r.IntN(10) == 0 {
			caps = append(caps, c08Cap{c08CapAS4, append([]byte{}, v...)}) // identical duplicate
		}
	}
	for n := r.IntN(3); n > 0 && r.IntN(3) != 0; n-- {
		caps = append(caps, c08Cap{c08CapExtMsg, nil})
	}
	// ADD-PATH: 0-3 capabilities with 1-4 tuples each, so that several tuples for one family occur
	if r.IntN(2) == 0 {
		pool := append(append([]bgp.Family{}, c08Fams...), c08ForeignFams[0])
		if r.IntN(2) == 0 {
			pool = pool[:2] // concentrate on v4/v6: conflicts become frequent
		}
		for nc := 1 + r.IntN(3); nc > 0; nc-- {
			var v []byte
			for nt := 1 + r.IntN(4); nt > 0; nt-- {
				f := pool[r.IntN(len(pool))]
				m := uint8(1 + r.IntN(3))
				if r.IntN(25) == 0 {
					m = c08Pick(r, uint8(0), 4, 5, 7, 255)
				}
				v = append(v, byte(f.Afi()>>8), byte(f.Afi()), f.Safi(), m)
			}
			caps = append(caps, c08Cap{c08CapAddPath, v})
		}
	}
	// other well-formed capabilities and unknown codes
	if r.IntN(2) == 0 {
		caps = append(caps, c08Cap{c08CapRR, nil})
	}
	if r.IntN(4) == 0 {
		caps = append(caps, c08Cap{c08CapERR, nil})
	}
	if r.IntN(3) == 0 {
		v := []byte{byte(r.IntN(16) << 4), byte(r.IntN(256))}
		for _, f := range c08Fams {
			if r.IntN(2) == 0 {
				v = append(v, byte(f.Afi()>>8), byte(f.Afi()), f.Safi(), c08Pick(r, uint8(0), 0x80))
			}
		}
		caps = append(caps, c08Cap{c08CapGR, v})
		if r.IntN(2) == 0 {
			var lv []byte
			for _, f := range c08Fams {
				if r.IntN(2) == 0 {
					lv = append(lv, byte(f.Afi()>>8), byte(f.Afi()), f.Safi(), 0, 0, byte(r.IntN(256)), byte(r.IntN(256)))
				}
			}
			caps = append(caps, c08Cap{c08CapLLGR, lv})
		}
	}
	if r.IntN(5) == 0 {
		caps = append(caps, c08Cap{c08CapFQDN, []byte{4, 'p', 'e', 'e', 'r', 0}})
	}
	if r.IntN(6) == 0 {
		caps = append(caps, c08Cap{c08CapSoftVer, []byte{3, 'x', '/', '1'}})
	}
	if r.IntN(6) == 0 {
		caps = append(caps, c08Cap{c08CapExtNH, []byte{0, 1, 0, 1, 0, 2}})
	}
	for n := r.IntN(3); n > 0 && r.IntN(2) == 0; n-- {
		v := make([]byte, r.IntN(7))
		for i := range v {
			v[i] = byte(r.IntN(256))
		}
		caps = append(caps, c08Cap{c08Pick(r, uint8(3), 7, 66, 67, 68, 72, 74, 129, 200, 255), v})
	}
	r.Shuffle(len(caps), func(i, j int) { caps[i], caps[j] = caps[j], caps[i] })
	// keep the optional parameters within one octet of length
	size := func(cs []c08Cap) int {
		n := 0
		for _, c := range cs {
			n += 2 + len(c.Val)
		}
		return n
	}
	for len(caps) > 0 && size(caps)+2*len(caps) > 250 {
		caps = caps[:len(caps)-1]
	}
	switch r.IntN(3) {
	case 0: // everything in one parameter
		if len(caps) > 0 {
			o.Params = [][]c08Cap{caps}
		}
	case 1: // one capability per parameter
		for _, c := range caps {
			o.Params = append(o.Params, []c08Cap{c})
		}
	default:
		for len(caps) > 0 {
			k := 1 + r.IntN(len(caps))
			o.Params = append(o.Params, caps[:k])
			caps = caps[k:]
		}
	}
	return o
}

// ---------------------------------------------------------------- UPDATE reader (bytes as written by gobgp)

type c08Attr struct {
	Flags, Type uint8
	Val         []byte
}

type c08Upd struct {
	Withdrawn []byte
	Attrs     []c08Attr
	NLRI      []byte
}

func c08ReadUpdate(raw []byte) (*c08Upd, error) {
	if len(raw) < 23 || raw[18] != 2 {
		return nil, fmt.Errorf("not an UPDATE")
	}
	if int(binary.BigEndian.Uint16(raw[16:18])) != len(raw) {
		return nil, fmt.Errorf("header length %d != %d", binary.BigEndian.Uint16(raw[16:18]), len(raw))
	}
	b := raw[19:]
	wl := int(binary.BigEndian.Uint16(b))
	if len(b) < 2+wl+2 {
		return nil, fmt.Errorf("withdrawn routes length %d overruns", wl)
	}
	u := &c08Upd{Withdrawn: b[2 : 2+wl]}
	b = b[2+wl:]
	al := int(binary.BigEndian.Uint16(b))
	if len(b) < 2+al {
		return nil, fmt.Errorf("attribute length %d overruns", al)
	}
	ab := b[2 : 2+al]
	u.NLRI = b[2+al:]
	for len(ab) > 0 {
		if len(ab) < 3 {
			return nil, fmt.Errorf("truncated attribute header")
		}
		a := c08Attr{Flags: ab[0], Type: ab[1]}
		var n, h int
		if a.Flags&0x10 != 0 {
			if len(ab) < 4 {
				return nil, fmt.Errorf("truncated attribute header")
			}
			n, h = int(binary.BigEndian.Uint16(ab[2:])), 4
		} else {
			n, h = int(ab[2]), 3
		}
		if len(ab) < h+n {
			return nil, fmt.Errorf("attribute %d length %d overruns", a.Type, n)
		}
		a.Val = ab[h : h+n]
		ab = ab[h+n:]
		u.Attrs = append(u.Attrs, a)
	}
	return u, nil
}

func (u *c08Upd) attr(t uint8) *c08Attr {
	for i := range u.Attrs {
		if u.Attrs[i].Type == t {
			return &u.Attrs[i]
		}
	}
	return nil
}

// mpReach splits an MP_REACH_NLRI value: family and the NLRI field.
func c08MPReach(v []byte) (bgp.Family, []byte, error) {
	if len(v) < 5 {
		return 0, nil, fmt.Errorf("short MP_REACH_NLRI")
	}
	f := bgp.NewFamily(binary.BigEndian.Uint16(v), v[2])
	nh := int(v[3])
	if len(v) < 4+nh+1 {
		return 0, nil, fmt.Errorf("MP_REACH_NLRI next hop length %d overruns", nh)
	}
	return f, v[4+nh+1:], nil
}

func c08MPUnreach(v []byte) (bgp.Family, []byte, error) {
	if len(v) < 3 {
		return 0, nil, fmt.Errorf("short MP_UNREACH_NLRI")
	}
	return bgp.NewFamily(binary.BigEndian.Uint16(v), v[2]), v[3:], nil
}

// c08ParseASPath decodes an AS_PATH / AS4_PATH value with the given AS number width.
func c08ParseASPath(v []byte, width int) ([]uint32, error) {
	var out []uint32
	for len(v) > 0 {
		if len(v) < 2 {
			return nil, fmt.Errorf("truncated segment header")
		}
		typ, n := v[0], int(v[1])
		if typ < 1 || typ > 4 {
			return nil, fmt.Errorf("segment type %d", typ)
		}
		if n == 0 || len(v) < 2+n*width {
			return nil, fmt.Errorf("segment of %d ASNs overruns", n)
		}
		for i := 0; i < n; i++ {
			if width == 2 {
				out = append(out, uint32(binary.BigEndian.Uint16(v[2+i*2:])))
			} else {
				out = append(out, binary.BigEndian.Uint32(v[2+i*4:]))
			}
		}
		v = v[2+n*width:]
	}
	return out, nil
}

type c08Pfx struct {
	ID    uint32
	HasID bool
	Bits  uint8
	Addr  string // hex of the significant octets
}

// c08ParsePrefixes decodes a list of <length, prefix> NLRI, with or without path identifiers.
func c08ParsePrefixes(b []byte, withID bool, maxBits int) ([]c08Pfx, error) {
	var out []c08Pfx
	for len(b) > 0 {
		p := c08Pfx{HasID: withID}
		if withID {
			if len(b) < 5 {
				return nil, fmt.Errorf("truncated path identifier")
			}
			p.ID = binary.BigEndian.Uint32(b)
			b = b[4:]
		}
		p.Bits = b[0]
		n := (int(p.Bits) + 7) / 8
		if int(p.Bits) > maxBits || len(b) < 1+n {
			return nil, fmt.Errorf("prefix length %d (of max %d) with %d octets left", p.Bits, maxBits, len(b)-1)
		}
		p.Addr = fmt.Sprintf("%x", b[1:1+n])
		b = b[1+n:]
		out = append(out, p)
	}
	return out, nil
}

func c08EqU32(a, b []uint32) bool {
	if len(a) != len(b) {
		return false
	}
	for i := range a {
		if a[i] != b[i] {
			return false
		}
	}
	return true
}
