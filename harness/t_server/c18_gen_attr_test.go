package server

// gen_attr: one structurally valid path attribute of every type the package can construct.

import (
	. "github.com/osrg/gobgp/v4/pkg/packet/bgp"
	"math"
	"math/rand/v2"
	"net"
	"net/netip"
)

func c18Float(r *rand.Rand) float32 {
	switch r.IntN(5) {
	case 0:
		return 0
	case 1:
		return float32(r.IntN(1 << 20))
	case 2:
		return math.MaxFloat32
	case 3:
		return float32(math.Inf(1))
	default:
		return r.Float32() * 1e9
	}
}

// c18ExtComm draws one 8-octet extended community of any constructible kind.
func c18ExtComm(r *rand.Rand, quirk string, tags *[]string) ExtendedCommunityInterface {
	tag := func(s string) {
		if tags != nil {
			*tags = append(*tags, "ec-"+s)
		}
	}
	// sub-types of the AS/IPv4-specific kinds; 0x04 with a two-octet AS is link bandwidth (own type)
	st := c18Pick(r, EC_SUBTYPE_ROUTE_TARGET, EC_SUBTYPE_ROUTE_ORIGIN, EC_SUBTYPE_OSPF_DOMAIN_ID, EC_SUBTYPE_SOURCE_AS, EC_SUBTYPE_L2VPN_ID,
		EC_SUBTYPE_VRF_ROUTE_IMPORT, EC_SUBTYPE_CISCO_VPN_DISTINGUISHER, ExtendedCommunityAttrSubType(0x77), ExtendedCommunityAttrSubType(0xff))
	trans := !c18Chance(r, 4)
	switch r.IntN(30) {
	case 0:
		tag("2as")
		return NewTwoOctetAsSpecificExtended(st, c18U16(r), c18U32(r), trans)
	case 1:
		tag("ip4")
		e, _ := NewIPv4AddressSpecificExtended(st, c18Addr4(r), c18U16(r), trans)
		return e
	case 2:
		tag("4as")
		if c18Bool(r) {
			st = EC_SUBTYPE_GENERIC
		}
		return NewFourOctetAsSpecificExtended(st, c18U32(r), c18U16(r), trans)
	case 3:
		tag("validation")
		return NewValidationExtended(ValidationState(c18Pick(r, 0, 1, 2, 3, 255)))
	case 4:
		tag("linkbw")
		return NewLinkBandwidthExtended(c18U16(r), c18Float(r))
	case 5:
		tag("color")
		return NewColorExtended(c18U32(r))
	case 6:
		tag("encap")
		return NewEncapExtended(TunnelType(c18Pick[uint16](r, 1, 2, 7, 8, 9, 10, 11, 12, 13, 15, 19, 0, 255, 256, 65535)))
	case 7:
		tag("defgw")
		return NewDefaultGatewayExtended()
	case 8:
		tag("opaque")
		v := c18Bytes(r, 7)
		if trans {
			for v[0] == byte(EC_SUBTYPE_COLOR) || v[0] == byte(EC_SUBTYPE_ENCAPSULATION) || v[0] == byte(EC_SUBTYPE_DEFAULT_GATEWAY) {
				v[0]++
			}
		} else if v[0] == byte(EC_SUBTYPE_ORIGIN_VALIDATION) {
			v[0] = 0x55
		}
		return NewOpaqueExtended(trans, v)
	case 9:
		tag("esilabel")
		return NewESILabelExtended(c18U24(r), c18Bool(r))
	case 10:
		tag("esimport")
		return NewESImportRouteTarget(c18MAC(r))
	case 11:
		tag("macmob")
		return NewMacMobilityExtended(c18U32(r), c18Bool(r))
	case 12:
		tag("routermac")
		return NewRoutersMacExtended(c18MAC(r))
	case 13:
		tag("l2attr")
		e := &Layer2AttributesExtended{HasCILabel: c18Bool(r), HasFlowLabel: c18Bool(r), HasControlWord: c18Bool(r), Mtu: c18U16(r)}
		switch r.IntN(3) {
		case 0:
			e.IsPrimaryPe = true
		case 1:
			e.IsBackupPe = true
		}
		return e
	case 14:
		tag("etree")
		return NewETreeExtended(c18U24(r), c18Bool(r))
	case 15:
		tag("mcastflags")
		if quirk == "mcast-flags-none-or-both" && c18Bool(r) {
			// no flag / both flags: legal per RFC 9251 (a flags field), exercised rarely
			b := c18Bool(r)
			*tags = append(*tags, "quirk:mcast-flags-none-or-both")
			return NewMulticastFlagsExtended(b, b)
		}
		b := c18Bool(r)
		return NewMulticastFlagsExtended(b, !b)
	case 16:
		tag("trafficrate")
		return NewTrafficRateExtended(c18U16(r), c18Float(r))
	case 17:
		tag("trafficaction")
		return NewTrafficActionExtended(c18Bool(r), c18Bool(r))
	case 18:
		tag("redirect2as")
		return NewRedirectTwoOctetAsSpecificExtended(c18U16(r), c18U32(r))
	case 19:
		tag("redirectip4")
		e, _ := NewRedirectIPv4AddressSpecificExtended(c18Addr4(r), c18U16(r))
		return e
	case 20:
		tag("redirect4as")
		return NewRedirectFourOctetAsSpecificExtended(c18U32(r), c18U16(r))
	case 21:
		tag("remark")
		return NewTrafficRemarkExtended(c18U8(r))
	case 22:
		tag("vpls")
		return NewVPLSExtended(c18U8(r), c18U16(r))
	case 23:
		tag("mup")
		return NewMUPExtended(c18Pick(r, EC_SUBTYPE_MUP_DIRECT_SEG, EC_SUBTYPE_MUP_INTERWORK_SEG), c18U16(r), c18U32(r))
	case 24:
		tag("mupip4")
		e, _ := NewMUPIPv4AddressSpecificExtended(c18Pick(r, EC_SUBTYPE_MUP_DIRECT_SEG_IPV4, EC_SUBTYPE_MUP_INTERWORK_SEG_IPV4), c18Addr4(r), c18U16(r))
		return e
	case 25:
		tag("mup4as")
		return NewMUPFourOctetAsSpecificExtended(c18Pick(r, EC_SUBTYPE_MUP_DIRECT_SEG_4_OCTET_AS, EC_SUBTYPE_MUP_INTERWORK_SEG_4_OCTET_AS), c18U32(r), c18U16(r))
	case 26, 27:
		tag("unknown")
		// a type octet none of the decoders claims
		t := c18Pick[uint8](r, 0x04, 0x05, 0x07, 0x09, 0x0b, 0x20, 0x3f, 0x44, 0x45, 0x7f, 0x83, 0x90, 0xc0, 0xff)
		return NewUnknownExtended(ExtendedCommunityAttrType(t), c18Bytes(r, 7))
	default:
		tag("2as")
		return NewTwoOctetAsSpecificExtended(EC_SUBTYPE_ROUTE_TARGET, c18U16(r), c18U32(r), true)
	}
}

func c18IP6ExtComm(r *rand.Rand, tags *[]string) ExtendedCommunityInterface {
	tag := func(s string) {
		if tags != nil {
			*tags = append(*tags, "ec6-"+s)
		}
	}
	switch r.IntN(4) {
	case 0:
		tag("redirect")
		e, _ := NewRedirectIPv6AddressSpecificExtended(c18Addr6(r), c18U16(r))
		return e
	case 1:
		tag("unknown")
		return &UnknownIP6Extended{Type: ExtendedCommunityAttrType(c18Pick[uint8](r, 0x01, 0x02, 0x41, 0x43, 0x81, 0xff)), Value: c18Bytes(r, 19)}
	default:
		tag("ip6")
		st := c18Pick(r, EC_SUBTYPE_ROUTE_TARGET, EC_SUBTYPE_ROUTE_ORIGIN, ExtendedCommunityAttrSubType(0x0b), ExtendedCommunityAttrSubType(0x77))
		e, _ := NewIPv6AddressSpecificExtended(st, c18Addr6(r), c18U16(r), !c18Chance(r, 4))
		return e
	}
}

var c18KnownEncapSubTLV = map[EncapSubTLVType]bool{1: true, 2: true, 4: true, 6: true, 8: true, 12: true, 13: true, 14: true, 15: true, 128: true, 129: true}

func c18EncapSubTLV(r *rand.Rand, quirk string, tags *[]string) TunnelEncapSubTLVInterface {
	tag := func(s string) {
		if tags != nil {
			*tags = append(*tags, "encap-"+s)
		}
	}
	switch r.IntN(13) {
	case 0:
		tag("encapsulation")
		return NewTunnelEncapSubTLVEncapsulation(c18U32(r), c18Bytes(r, c18Pick(r, 0, 4, 8, 64, 250, 251)))
	case 1:
		tag("protocol")
		return NewTunnelEncapSubTLVProtocol(c18U16(r))
	case 2:
		tag("color")
		return NewTunnelEncapSubTLVColor(c18U32(r))
	case 3:
		tag("egress")
		t, _ := NewTunnelEncapSubTLVEgressEndpoint(c18Addr(r, c18Bool(r)))
		return t
	case 4:
		tag("udpport")
		return NewTunnelEncapSubTLVUDPDestPort(c18U16(r))
	case 5:
		tag("srpreference")
		return NewTunnelEncapSubTLVSRPreference(uint32(c18U8(r)), c18U32(r))
	case 6:
		tag("srpriority")
		return NewTunnelEncapSubTLVSRPriority(c18U8(r))
	case 7:
		tag("srcpname")
		return NewTunnelEncapSubTLVSRCandidatePathName(c18String(r, c18Pick(r, 0, 1, 8, 255, 300)))
	case 8:
		tag("srenlp")
		return NewTunnelEncapSubTLVSRENLP(uint32(c18U8(r)), SRENLPValue(1+r.IntN(4)))
	case 9:
		tag("srbsid")
		var b *BSID
		switch r.IntN(3) {
		case 0:
			b = &BSID{Value: []byte{}}
		case 1:
			b, _ = NewBSID(c18Bytes(r, 4))
		default:
			b, _ = NewBSID(c18Bytes(r, 16))
		}
		return &TunnelEncapSubTLVSRBSID{TunnelEncapSubTLV: TunnelEncapSubTLV{Type: ENCAP_SUBTLV_TYPE_SRBINDING_SID}, Flags: c18U8(r) & 0xc0, BSID: b} // (C18) S and I flags: the bits the API models
	case 10:
		tag("srseglist")
		sl := &TunnelEncapSubTLVSRSegmentList{TunnelEncapSubTLV: TunnelEncapSubTLV{Type: ENCAP_SUBTLV_TYPE_SRSEGMENT_LIST}}
		if c18Bool(r) {
			sl.Weight = &SegmentListWeight{TunnelEncapSubTLV: TunnelEncapSubTLV{Type: SegmentListSubTLVWeight}, Flags: c18U8(r), Weight: c18U32(r)}
		}
		for i := c18SmallLen(r, 4); i > 0; i-- {
			if c18Bool(r) {
				sl.Segments = append(sl.Segments, &SegmentTypeA{TunnelEncapSubTLV: TunnelEncapSubTLV{Type: EncapSubTLVType(TypeA)}, Flags: c18U8(r) & 0xf0, Label: c18U32(r)})
			} else {
				s := &SegmentTypeB{TunnelEncapSubTLV: TunnelEncapSubTLV{Type: EncapSubTLVType(TypeB)}, Flags: c18U8(r) & 0xf0, SID: c18Bytes(r, 16)}
				if c18Bool(r) {
					s.SRv6EBS = &SRv6EndpointBehaviorStructure{Behavior: SRBehavior(c18U16(r)), BlockLen: c18U8(r), NodeLen: c18U8(r), FuncLen: c18U8(r), ArgLen: c18U8(r)}
				}
				sl.Segments = append(sl.Segments, s)
			}
		}
		return sl
	default:
		tag("unknown")
		t := EncapSubTLVType(c18U8(r))
		for c18KnownEncapSubTLV[t] {
			t++
		}
		n := c18Pick(r, 1, 2, 3, 16, 254, 255)
		if quirk == "encap-empty-tlv" && c18Bool(r) {
			n = 0
			*tags = append(*tags, "quirk:encap-empty-tlv")
		}
		if t >= 0x80 && c18Chance(r, 4) {
			n = c18Pick(r, 256, 300, 1000)
		}
		return NewTunnelEncapSubTLVUnknown(t, c18Bytes(r, n))
	}
}

// c18AttrCtx carries what an attribute generator needs to know about the message.
type c18AttrCtx struct {
	o      *c18OptSet
	big    bool // this attribute may be large (value length next to 255/256, 4096, 65535)
	quirk  string
	tags   *[]string
	single bool // single-label stacks (Prefix-SID present)
}

func (c *c18AttrCtx) tag(s string) {
	if c.tags != nil {
		*c.tags = append(*c.tags, s)
	}
}

func c18AsPath(r *rand.Rand, c *c18AttrCtx) PathAttributeInterface {
	nseg := c18SmallLen(r, 4)
	var segs []AsPathParamInterface
	for i := 0; i < nseg; i++ {
		n := 1 + c18SmallLen(r, 5)
		if c.big && c18Chance(r, 2) {
			n = c18Pick(r, 62, 63, 64, 65, 126, 127, 128, 254, 255)
		}
		typ := uint8(c18Pick(r, 1, 2, 2, 2, 3, 4))
		if c.o.AS2 {
			as := make([]uint16, n, n+4)
			for j := range as {
				as[j] = c18U16(r)
			}
			segs = append(segs, NewAsPathParam(typ, as))
		} else {
			as := make([]uint32, n, n+4)
			for j := range as {
				as[j] = c18U32(r)
			}
			segs = append(segs, NewAs4PathParam(typ, as))
		}
	}
	return NewPathAttributeAsPath(segs)
}

func c18As4Path(r *rand.Rand, c *c18AttrCtx) PathAttributeInterface {
	nseg := c18SmallLen(r, 4)
	var segs []*As4PathParam
	for i := 0; i < nseg; i++ {
		n := 1 + c18SmallLen(r, 5)
		if c.big && c18Chance(r, 2) {
			n = c18Pick(r, 62, 63, 64, 65, 254, 255)
		}
		as := make([]uint32, n, n+4)
		for j := range as {
			as[j] = c18U32(r)
		}
		segs = append(segs, NewAs4PathParam(uint8(c18Pick(r, 1, 2, 2, 3, 4)), as))
	}
	return NewPathAttributeAs4Path(segs)
}

// c18NextHops picks the next hop(s) of an MP_REACH for family f.
func c18NextHops(r *rand.Rand, f Family) []netip.Addr {
	switch f.Safi() {
	case SAFI_FLOW_SPEC_UNICAST, SAFI_FLOW_SPEC_VPN:
		return nil
	}
	if f == RF_OPAQUE && c18Chance(r, 3) {
		return nil
	}
	v6 := f.Afi() == AFI_IP6
	switch f.Afi() {
	case AFI_IP:
		v6 = c18Chance(r, 5) // RFC 8950
	case AFI_IP6:
		v6 = !c18Chance(r, 8) // an IPv4 next hop is sent IPv4-mapped (6PE)
	default:
		v6 = c18Bool(r)
	}
	if !v6 {
		return []netip.Addr{c18Addr4(r)}
	}
	// (C18) an IPv4-mapped next hop is the wire form of an IPv4 next hop under an IPv6 AFI; the API
	// prints it as IPv4 on purpose, so only the unmapped form is generated
	g := c18Addr6(r).Unmap()
	if g.Is4() {
		return []netip.Addr{g}
	}
	if c18Chance(r, 3) {
		return []netip.Addr{g, c18LinkLocal6(r)}
	}
	return []netip.Addr{g}
}

func c18MpReach(r *rand.Rand, f Family, c *c18AttrCtx) PathAttributeInterface {
	n := 1 + c18SmallLen(r, 4)
	if c.big {
		n = c18Pick(r, 30, 50, 60, 100, 300, 800)
	}
	if f == RF_OPAQUE {
		n = 1 // the key/value NLRI has no delimiter: one per attribute
	}
	nc := &c18NLRICtx{single: c.single, quirk: c.quirk, tags: c.tags}
	nl := c18NLRIs(r, f, n, c.o.addPath(f), nc)
	if len(nl) == 0 {
		return nil
	}
	a, err := NewPathAttributeMpReachNLRI(f, nl, c18NextHops(r, f)...)
	if err != nil {
		return nil
	}
	return a
}

func c18MpUnreach(r *rand.Rand, f Family, c *c18AttrCtx) PathAttributeInterface {
	n := c18SmallLen(r, 4)
	if c.big {
		n = c18Pick(r, 30, 50, 60, 100, 300, 800)
	}
	if f == RF_OPAQUE && n > 1 {
		n = 1
	}
	nc := &c18NLRICtx{withdraw: true, single: c.single, quirk: c.quirk, tags: c.tags}
	nl := c18NLRIs(r, f, n, c.o.addPath(f), nc)
	a, _ := NewPathAttributeMpUnreachNLRI(f, nl)
	return a
}

func c18TunnelEncap(r *rand.Rand, c *c18AttrCtx) PathAttributeInterface {
	var tlvs []*TunnelEncapTLV
	nt := 1 + c18SmallLen(r, 3)
	for i := 0; i < nt; i++ {
		var subs []TunnelEncapSubTLVInterface
		ns := 1 + c18SmallLen(r, 4)
		if c.quirk == "encap-empty-tlv" && c18Chance(r, 3) {
			ns = 0
			c.tag("quirk:encap-empty-tlv")
		}
		for j := 0; j < ns; j++ {
			s := c18EncapSubTLV(r, c.quirk, c.tags)
			if !c18IsNilIface(s) {
				subs = append(subs, s)
			}
		}
		tt := TunnelType(c18Pick[uint16](r, 1, 2, 7, 8, 9, 10, 11, 12, 13, 15, 15, 19, 0, 999, 65535))
		tlvs = append(tlvs, NewTunnelEncapTLV(tt, subs))
	}
	return NewPathAttributeTunnelEncap(tlvs)
}

func c18Pmsi(r *rand.Rand, c *c18AttrCtx) PathAttributeInterface {
	typ := PmsiTunnelType(c18Pick[uint8](r, 0, 1, 2, 3, 4, 5, 6, 6, 7, 99))
	var id PmsiTunnelIDInterface
	if typ == PMSI_TUNNEL_TYPE_INGRESS_REPL {
		id, _ = NewIngressReplTunnelID(c18Addr(r, c18Bool(r)))
	} else {
		n := c18Pick(r, 0, 4, 8, 12, 16, 24)
		if c.big {
			n = c18Pick(r, 249, 250, 251, 252, 300)
		}
		id = NewDefaultPmsiTunnelID(c18Bytes(r, n))
	}
	a := NewPathAttributePmsiTunnel(typ, c18Bool(r), c18U24(r), id)
	if a == nil {
		return nil
	}
	return a
}

func c18PrefixSID(r *rand.Rand, c *c18AttrCtx) PathAttributeInterface {
	var tlvs []PrefixSIDTLVInterface
	for i := 1 + c18SmallLen(r, 2); i > 0; i-- {
		var subs []PrefixSIDTLVInterface
		for j := 1 + c18SmallLen(r, 2); j > 0; j-- {
			var sss []PrefixSIDTLVInterface
			if c18Bool(r) {
				sss = append(sss, NewSRv6SIDStructureSubSubTLV(c18U8(r), c18U8(r), c18U8(r), c18U8(r), c18U8(r), c18U8(r)))
			}
			subs = append(subs, NewSRv6InformationSubTLV(c18Addr6(r), SRBehavior(c18U16(r)), sss...))
		}
		tlvs = append(tlvs, NewSRv6ServiceTLV(c18Pick(r, TLVTypeSRv6L3Service, TLVTypeSRv6L2Service), subs...))
	}
	return NewPathAttributePrefixSID(tlvs...)
}

func c18LsAttr(r *rand.Rand, c *c18AttrCtx) PathAttributeInterface {
	la := &LsAttribute{}
	p := func() bool { return c18Chance(r, 4) }
	// (C18) optional scalar TLVs are aimed at the value 0, which the API cannot tell from "absent"
	z := func(v uint32) uint32 {
		if c18Chance(r, 3) {
			return 0
		}
		return v
	}
	u32 := func() *uint32 { v := z(c18U32(r)); return &v }
	bs := func(n int) *[]byte { b := c18Bytes(r, n); return &b }
	str := func(n int) *string { s := c18String(r, n); return &s }
	a4 := func() *netip.Addr { a := c18Addr4(r); return &a }
	a6 := func() *netip.Addr { a := c18Addr6(r); return &a }
	if p() {
		la.Node.Flags = &LsNodeFlags{Overload: c18Bool(r), Attached: c18Bool(r), External: c18Bool(r), ABR: c18Bool(r), Router: c18Bool(r), V6: c18Bool(r)}
	}
	if p() {
		la.Node.Opaque = bs(1 + r.IntN(20))
	}
	if p() {
		la.Node.Name = str(1 + r.IntN(30))
	}
	if p() {
		la.Node.IsisArea = bs(1 + r.IntN(13))
	}
	if p() {
		la.Node.LocalRouterID = a4()
	}
	if p() {
		la.Node.LocalRouterIDv6 = a6()
	}
	if c.quirk == "ls-sr-ranges" && c18Bool(r) {
		la.Node.SrCapabilties = &LsSrCapabilities{IPv4Supported: c18Bool(r), IPv6Supported: c18Bool(r), Ranges: []LsSrRange{{Begin: 16000, End: 24000}}}
		c.tag("quirk:ls-sr-ranges")
	}
	if p() {
		la.Node.SrAlgorithms = bs(1 + r.IntN(3))
	}
	if c.quirk == "ls-sr-ranges" && c18Bool(r) {
		la.Node.SrLocalBlock = &LsSrLocalBlock{Ranges: []LsSrRange{{Begin: 15000, End: 16000}}}
		c.tag("quirk:ls-sr-ranges")
	}
	if p() {
		la.Link.Name = str(1 + r.IntN(30))
	}
	if p() {
		la.Link.RemoteRouterID = a4()
	}
	if p() {
		la.Link.RemoteRouterIDv6 = a6()
	}
	if p() {
		la.Link.AdminGroup = u32()
	}
	if p() {
		la.Link.DefaultTEMetric = u32()
	}
	if p() {
		la.Link.UnidirectionalLinkDelay = &LsUnidirectionalLinkDelay{Flags: LsDelayMetricFlags{Anomalous: c18Bool(r)}, Delay: z(c18U24(r))}
	}
	if p() {
		la.Link.MinMaxUnidirectionalLinkDelay = &LsMinMaxUnidirectionalLinkDelay{Flags: LsDelayMetricFlags{Anomalous: c18Bool(r)}, MinDelay: c18U24(r), MaxDelay: c18U24(r)}
		if c18Chance(r, 2) {
			*la.Link.MinMaxUnidirectionalLinkDelay = LsMinMaxUnidirectionalLinkDelay{} // (C18) a measured delay of 0: the API cannot tell it from "absent"
		}
	}
	if p() {
		v := z(c18U24(r))
		la.Link.UnidirectionalDelayVariation = &v
	}
	if p() {
		v := z(c18U24(r))
		la.Link.IGPMetric = &v
	}
	if p() {
		la.Link.Opaque = bs(1 + r.IntN(20))
	}
	if p() {
		f := c18Pick(r, float32(0), 1, 125000000, math.MaxFloat32, r.Float32()*1e9)
		la.Link.Bandwidth = &f
	}
	if p() {
		f := c18Pick(r, float32(0), 1, 125000000, math.MaxFloat32, r.Float32()*1e9)
		la.Link.ReservableBandwidth = &f
	}
	if p() {
		var u [8]float32
		for i := range u {
			u[i] = float32(1 + r.IntN(1000))
		}
		la.Link.UnreservedBandwidth = &u
	}
	if p() {
		s := []uint32{c18U32(r), c18U32(r)}
		la.Link.Srlgs = &s
	}
	if p() {
		v := z(c18Label(r))
		la.Link.SrAdjacencySID = &v
	}
	if p() {
		la.Link.Srv6EndXSID = &LsSrv6EndXSID{EndpointBehavior: c18U16(r), Flags: c18U8(r), Algorithm: c18U8(r), Weight: c18U8(r), SIDs: []netip.Addr{c18Addr6(r)},
			Srv6SIDStructure: LsSrv6SIDStructure{LocalBlock: 32, LocalNode: 16, LocalFunc: 16, LocalArg: 0}}
	}
	if p() {
		la.Prefix.IGPFlags = &LsIGPFlags{Down: c18Bool(r), NoUnicast: c18Bool(r), LocalAddress: c18Bool(r), PropagateNSSA: c18Bool(r)}
	}
	if p() {
		la.Prefix.Opaque = bs(1 + r.IntN(20))
	}
	if p() {
		v := c18Label(r)
		la.Prefix.SrPrefixSID = &v
	}
	if p() {
		la.BgpPeerSegment.BgpPeerNodeSid = &LsBgpPeerSegmentSID{Flags: LsAttributeBgpPeerSegmentSIDFlags{Value: true, Local: true, Backup: c18Bool(r), Persistent: c18Bool(r)}, Weight: c18U8(r), SID: c18Label(r)}
	}
	if p() {
		la.BgpPeerSegment.BgpPeerAdjacencySid = &LsBgpPeerSegmentSID{Flags: LsAttributeBgpPeerSegmentSIDFlags{Value: true, Local: true}, Weight: c18U8(r), SID: c18Label(r)}
	}
	if p() {
		la.BgpPeerSegment.BgpPeerSetSid = &LsBgpPeerSegmentSID{Flags: LsAttributeBgpPeerSegmentSIDFlags{Value: false, Local: false}, Weight: c18U8(r), SID: c18U32(r)}
	}
	if p() {
		// the four lengths describe parts of one 128-bit SID
		lb := uint8(r.IntN(129))
		ln := uint8(r.IntN(129 - int(lb)))
		lf := uint8(r.IntN(129 - int(lb) - int(ln)))
		la.Srv6SID.Srv6SIDStructure = &LsSrv6SIDStructure{LocalBlock: lb, LocalNode: ln, LocalFunc: lf, LocalArg: uint8(r.IntN(129 - int(lb) - int(ln) - int(lf)))}
	}
	if p() {
		la.Srv6SID.Srv6BgpPeerNodeSID = &LsSrv6BgpPeerNodeSID{Flags: c18U8(r), Weight: c18U8(r), PeerAS: c18U32(r), PeerBgpID: c18Addr4(r).String()}
	}
	if p() {
		la.Srv6SID.Srv6EndpointBehavior = &LsSrv6EndpointBehavior{EndpointBehavior: c18U16(r), Flags: c18U8(r), Algorithm: c18U8(r)}
	}
	var tlvs []LsTLVInterface
	l := 0
	for _, t := range NewLsAttributeTLVs(la) {
		if c18IsNilIface(t) {
			continue
		}
		tlvs = append(tlvs, t)
		l += t.Len()
	}
	return &PathAttributeLs{PathAttribute: PathAttribute{Flags: c18PathAttrFlags(BGP_ATTR_TYPE_LS, l), Type: BGP_ATTR_TYPE_LS, Length: uint16(l)}, TLVs: tlvs}
}

var c18KnownAttrTypes = map[BGPAttrType]bool{1: true, 2: true, 3: true, 4: true, 5: true, 6: true, 7: true, 8: true, 9: true, 10: true, 14: true, 15: true, 16: true, 17: true, 18: true,
	22: true, 23: true, 25: true, 26: true, 29: true, 32: true, 40: true}

// c18SimpleAttrTypes are the attribute types c18Attr can draw (MP_REACH/MP_UNREACH are handled
// by the message generator because they need a family).
var c18SimpleAttrTypes = []BGPAttrType{
	BGP_ATTR_TYPE_ORIGIN, BGP_ATTR_TYPE_AS_PATH, BGP_ATTR_TYPE_NEXT_HOP, BGP_ATTR_TYPE_MULTI_EXIT_DISC, BGP_ATTR_TYPE_LOCAL_PREF,
	BGP_ATTR_TYPE_ATOMIC_AGGREGATE, BGP_ATTR_TYPE_AGGREGATOR, BGP_ATTR_TYPE_COMMUNITIES, BGP_ATTR_TYPE_ORIGINATOR_ID, BGP_ATTR_TYPE_CLUSTER_LIST,
	BGP_ATTR_TYPE_EXTENDED_COMMUNITIES, BGP_ATTR_TYPE_AS4_PATH, BGP_ATTR_TYPE_AS4_AGGREGATOR, BGP_ATTR_TYPE_PMSI_TUNNEL, BGP_ATTR_TYPE_TUNNEL_ENCAP,
	BGP_ATTR_TYPE_IP6_EXTENDED_COMMUNITIES, BGP_ATTR_TYPE_AIGP, BGP_ATTR_TYPE_LS, BGP_ATTR_TYPE_LARGE_COMMUNITY, BGP_ATTR_TYPE_PREFIX_SID,
	BGPAttrType(0), // stands for "an attribute type gobgp does not know"
}

// c18Attr draws one attribute of type t (0 = unknown type).
func c18Attr(r *rand.Rand, t BGPAttrType, c *c18AttrCtx) PathAttributeInterface {
	switch t {
	case BGP_ATTR_TYPE_ORIGIN:
		return NewPathAttributeOrigin(c18Pick[uint8](r, 0, 1, 2, 2, 3, 255))
	case BGP_ATTR_TYPE_AS_PATH:
		return c18AsPath(r, c)
	case BGP_ATTR_TYPE_NEXT_HOP:
		a, _ := NewPathAttributeNextHop(c18Addr(r, c18Chance(r, 6)))
		return a
	case BGP_ATTR_TYPE_MULTI_EXIT_DISC:
		return NewPathAttributeMultiExitDisc(c18U32(r))
	case BGP_ATTR_TYPE_LOCAL_PREF:
		return NewPathAttributeLocalPref(c18U32(r))
	case BGP_ATTR_TYPE_ATOMIC_AGGREGATE:
		return NewPathAttributeAtomicAggregate()
	case BGP_ATTR_TYPE_AGGREGATOR:
		var a *PathAttributeAggregator
		if c.o.AS2 {
			a, _ = NewPathAttributeAggregator(c18U16(r), c18Addr4(r))
		} else {
			a, _ = NewPathAttributeAggregator(c18U32(r), c18Addr4(r))
		}
		return a
	case BGP_ATTR_TYPE_COMMUNITIES:
		n := c18Count(r, 4, c.big)
		v := make([]uint32, n, n+4)
		for i := range v {
			v[i] = c18Pick(r, c18U32(r), 0xffffff01, 0xffffff02, 0xffff029a, uint32(65000<<16|i))
		}
		return NewPathAttributeCommunities(v)
	case BGP_ATTR_TYPE_ORIGINATOR_ID:
		a, _ := NewPathAttributeOriginatorId(c18Addr4(r))
		return a
	case BGP_ATTR_TYPE_CLUSTER_LIST:
		n := c18Count(r, 4, c.big)
		v := make([]netip.Addr, n)
		for i := range v {
			v[i] = c18Addr4(r)
		}
		a, _ := NewPathAttributeClusterList(v)
		return a
	case BGP_ATTR_TYPE_EXTENDED_COMMUNITIES:
		n := c18Count(r, 8, c.big)
		v := make([]ExtendedCommunityInterface, 0, n+2)
		for i := 0; i < n; i++ {
			e := c18ExtComm(r, c.quirk, c.tags)
			if !c18IsNilIface(e) {
				v = append(v, e)
			}
		}
		return NewPathAttributeExtendedCommunities(v)
	case BGP_ATTR_TYPE_AS4_PATH:
		return c18As4Path(r, c)
	case BGP_ATTR_TYPE_AS4_AGGREGATOR:
		a, _ := NewPathAttributeAs4Aggregator(c18U32(r), c18Addr4(r))
		return a
	case BGP_ATTR_TYPE_PMSI_TUNNEL:
		return c18Pmsi(r, c)
	case BGP_ATTR_TYPE_TUNNEL_ENCAP:
		return c18TunnelEncap(r, c)
	case BGP_ATTR_TYPE_IP6_EXTENDED_COMMUNITIES:
		n := c18Count(r, 20, c.big)
		v := make([]ExtendedCommunityInterface, 0, n+2)
		for i := 0; i < n; i++ {
			e := c18IP6ExtComm(r, c.tags)
			if !c18IsNilIface(e) {
				v = append(v, e)
			}
		}
		return NewPathAttributeIP6ExtendedCommunities(v)
	case BGP_ATTR_TYPE_AIGP:
		var v []AigpTLVInterface
		for i := 1 + c18SmallLen(r, 2); i > 0; i-- {
			if c18Bool(r) {
				v = append(v, NewAigpTLVIgpMetric(c18U64(r)))
			} else {
				n := 1 + c18SmallLen(r, 12)
				if c.big {
					n = c18Pick(r, 249, 252, 253, 300)
				}
				v = append(v, NewAigpTLVDefault(AigpTLVType(c18Pick[uint8](r, 0, 2, 3, 200, 255)), c18Bytes(r, n)))
			}
		}
		return NewPathAttributeAigp(v)
	case BGP_ATTR_TYPE_LS:
		return c18LsAttr(r, c)
	case BGP_ATTR_TYPE_LARGE_COMMUNITY:
		n := c18Count(r, 12, c.big)
		v := make([]*LargeCommunity, n, n+2)
		for i := range v {
			v[i] = NewLargeCommunity(c18U32(r), c18U32(r), c18U32(r))
		}
		return NewPathAttributeLargeCommunities(v)
	case BGP_ATTR_TYPE_PREFIX_SID:
		return c18PrefixSID(r, c)
	default:
		typ := BGPAttrType(c18U8(r))
		for c18KnownAttrTypes[typ] {
			typ++
		}
		flags := c18Pick(r, BGP_ATTR_FLAG_OPTIONAL|BGP_ATTR_FLAG_TRANSITIVE, BGP_ATTR_FLAG_OPTIONAL|BGP_ATTR_FLAG_TRANSITIVE|BGP_ATTR_FLAG_PARTIAL,
			BGP_ATTR_FLAG_OPTIONAL, BGP_ATTR_FLAG_TRANSITIVE)
		n := c18SmallLen(r, 40)
		if c.big {
			n = c18Count(r, 1, true)
		}
		return NewPathAttributeUnknown(flags, typ, c18Bytes(r, n))
	}
}

var _ = net.IPv4len
