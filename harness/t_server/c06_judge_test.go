package server

// C06 — common observation model and oracle for both layers.

import (
	"bytes"
	"fmt"
	"sort"
	"strings"

	"github.com/osrg/gobgp/v4/internal/verif/vlib"
	"github.com/osrg/gobgp/v4/pkg/packet/bgp"
)

type c06PState int

const (
	c06Gone c06PState = iota // withdrawn by the message / no route of the peer left
	c06New                   // carries the route announced by the message
	c06Old                   // untouched: not in the resulting change list (layer 1) / still the earlier route (layer 2)
)

func (s c06PState) String() string { return [...]string{"gone", "new", "old"}[s] }

// c06Obs is what one execution showed.
type c06Obs struct {
	reset     bool
	code, sub uint8
	label     int                                     // layer 1: gobgp's own fsmMsg.handling (-1 unknown)
	state     map[string]c06PState                    // per prefix key
	attrs     map[string][]bgp.PathAttributeInterface // attributes of routes in state c06New
	unnamed   []string                                // prefixes touched although the message does not name them
	notes     []string
	dead      bool         // pipelined sessions: a well-formed UPDATE written after the message under test was never processed
	kept      map[int]bool // set by derive: index of a fault whose offending attribute is carried by an installed route
}

// c06Case is one message with what was injected into it.
type c06Case struct {
	pipe    *c06Pipe // layer 3: how the message reaches gobgp (nil: sent alone on a settled session)
	layer   int
	sess    c06Sess
	base    int
	faults  []*c06Fault
	pos     []int
	applied []c06Applied
	msg     *c06Msg
	raw     []byte
	walked  c06Walked
}

func (c *c06Case) faultIDs() string {
	var ids []string
	for _, f := range c.faults {
		ids = append(ids, f.id)
	}
	return strings.Join(ids, "+")
}

func (c *c06Case) present() bool {
	for _, a := range c.applied {
		if !a.present(c.walked) {
			return false
		}
	}
	return true
}

func (c *c06Case) witness(idx int, o *c06Obs) map[string]any {
	w := map[string]any{"case": idx, "layer": c.layer, "session": c.sess.String(), "add_path": c.sess.addPath,
		"base": c06Bases[c.base].name, "faults": c.faultIDs(), "positions": fmt.Sprint(c.pos), "update_hex": c06Hex(c.raw)}
	if c.pipe != nil {
		w["pipelined"] = fmt.Sprintf("%+v", *c.pipe)
	}
	if c.layer == 4 {
		w["session_capabilities"] = c.sess.caps()
	}
	if o != nil {
		st := []string{}
		for k, v := range o.state {
			st = append(st, k+"="+v.String())
		}
		sort.Strings(st)
		w["prefix_states"] = st
		w["notes"] = o.notes
		if o.reset {
			w["notification"] = fmt.Sprintf("%d/%d", o.code, o.sub)
		}
		if o.label >= 0 {
			w["gobgp_handling"] = o.label
		}
		at := []string{}
		for k, as := range o.attrs {
			at = append(at, k+": "+c06AttrStr(as))
		}
		sort.Strings(at)
		w["installed_attrs"] = at
	}
	return w
}

func c06AttrStr(as []bgp.PathAttributeInterface) string {
	var sb strings.Builder
	for _, a := range as {
		sb.WriteString(a.String())
	}
	return sb.String()
}

// required returns the prefixes whose fate the message decides for a receiver that does not reset:
// the NLRI and Withdrawn Routes fields always (RFC 7606 s4: the Total Attribute Length locates the
// NLRI field), the MP attributes' prefixes when the attribute itself can be located, i.e. it lies
// completely inside the attribute block in front of any attribute that overruns (RFC 7606 s5.1 is
// why position matters here).
func (c *c06Case) required() (ann, wd []string) {
	m := c.msg
	for _, p := range m.nlri {
		ann = append(ann, p.key(m.addPath))
	}
	for _, p := range m.wdr {
		wd = append(wd, p.key(m.addPath))
	}
	if c.walked.count(c06TMPReach) > 0 {
		for _, p := range m.reach {
			ann = append(ann, p.key(m.addPath))
		}
	}
	if c.walked.count(c06TMPUnreach) > 0 {
		for _, p := range m.unreach {
			wd = append(wd, p.key(m.addPath))
		}
	}
	return
}

func c06HasType(as []bgp.PathAttributeInterface, t int) int {
	n := 0
	for _, a := range as {
		if int(a.GetType()) == t {
			n++
		}
	}
	return n
}

// survivorVal is the value of the first attribute of type t in the message as sent.
func (c *c06Case) survivorVal(t int) []byte {
	for _, a := range c.msg.attrs {
		if int(a.typ) == t {
			return a.val
		}
	}
	return nil
}

func c06AttrVal(a bgp.PathAttributeInterface) []byte {
	b, err := a.Serialize()
	if err != nil || len(b) < 3 {
		return nil
	}
	if b[0]&0x10 != 0 {
		return b[4:]
	}
	return b[3:]
}

// derive turns the observation into a reaction.
func (c *c06Case) derive(o *c06Obs) c06Reaction {
	if o.reset {
		return c06Reaction{classes: c06R(c06Reset), code: o.code, sub: o.sub}
	}
	if o.dead {
		o.notes = append(o.notes, "no NOTIFICATION, session still established, but the well-formed UPDATE written right behind the message was never processed: the message went unanswered and the receive side is dead")
		return c06Reaction{classes: c06R(c06Stale)}
	}
	ann, wd := c.required()
	for _, k := range wd {
		if o.state[k] != c06Gone {
			o.notes = append(o.notes, "prefix named as withdrawn is still there: "+k)
			return c06Reaction{classes: c06R(c06Stale)}
		}
	}
	if len(ann) == 0 {
		switch bgp.ErrorHandling(o.label) {
		case bgp.ERROR_HANDLING_NONE:
			return c06Reaction{classes: c06R(c06None)}
		case bgp.ERROR_HANDLING_ATTRIBUTE_DISCARD:
			return c06Reaction{classes: c06R(c06Discard)}
		case bgp.ERROR_HANDLING_TREAT_AS_WITHDRAW:
			return c06Reaction{classes: c06R(c06TAW)}
		}
		return c06Reaction{classes: c06R(c06None, c06Discard, c06TAW)}
	}
	nGone, nNew := 0, 0
	for _, k := range ann {
		switch o.state[k] {
		case c06Gone:
			nGone++
		case c06New:
			nNew++
		}
	}
	switch {
	case nGone == len(ann):
		return c06Reaction{classes: c06R(c06TAW)}
	case nNew != len(ann):
		o.notes = append(o.notes, fmt.Sprintf("of %d announced prefixes %d were withdrawn, %d installed, the rest left as they were", len(ann), nGone, nNew))
		return c06Reaction{classes: c06R(c06Stale)}
	}
	// installed: with or without the offending attribute(s)?
	attrFaults, dropped := 0, 0
	o.kept = map[int]bool{}
	for fi, ap := range c.applied {
		switch {
		case ap.badType >= 0:
			attrFaults++
			carried := false
			for _, k := range ann {
				if c06HasType(o.attrs[k], ap.badType) > 0 {
					carried = true
				}
			}
			if !carried {
				dropped++
			} else {
				o.kept[fi] = true
			}
		case ap.dupType >= 0:
			attrFaults++
			ok := true
			want := c.survivorVal(ap.dupType)
			for _, k := range ann {
				if ap.dupType == c06TMPReach || ap.dupType == c06TMPUnreach {
					continue
				}
				n := 0
				for _, a := range o.attrs[k] {
					if int(a.GetType()) == ap.dupType {
						n++
						if !bytes.Equal(c06AttrVal(a), want) {
							ok = false
							o.notes = append(o.notes, fmt.Sprintf("%s carries attribute %d = %x, the first occurrence was %x", k, ap.dupType, c06AttrVal(a), want))
						}
					}
				}
				if n > 1 {
					ok = false
				}
			}
			if ok {
				dropped++
			} else {
				o.kept[fi] = true
			}
		}
	}
	_ = attrFaults
	if dropped > 0 {
		return c06Reaction{classes: c06R(c06Discard)}
	}
	return c06Reaction{classes: c06R(c06None)}
}

// mandatory lists what an installed route of the message lacks (ORIGIN, AS_PATH, and NEXT_HOP for
// prefixes of the NLRI field / a next hop inside MP_REACH_NLRI for the others).
func (c *c06Case) mandatory(o *c06Obs) []string {
	var out []string
	for k, as := range o.attrs {
		if o.state[k] != c06New {
			continue
		}
		if c06HasType(as, c06TOrigin) == 0 {
			out = append(out, k+" lacks ORIGIN")
		}
		if c06HasType(as, c06TASPath) == 0 {
			out = append(out, k+" lacks AS_PATH")
		}
		classic := false
		for _, p := range c.msg.nlri {
			if p.key(c.msg.addPath) == k {
				classic = true
			}
		}
		if classic {
			if c06HasType(as, c06TNextHop) == 0 && c06HasType(as, c06TMPReach) == 0 {
				out = append(out, k+" lacks NEXT_HOP")
			}
		} else {
			ok := false
			for _, a := range as {
				if r, y := a.(*bgp.PathAttributeMpReachNLRI); y && r.Nexthop.IsValid() {
					ok = true
				}
			}
			if !ok {
				out = append(out, k+" lacks an MP_REACH_NLRI next hop")
			}
		}
	}
	sort.Strings(out)
	return out
}

// judge compares one observation of a faulty message with the reference. It returns the derived
// reaction so that the caller can run the metamorphic relations.
func (c *c06Case) judge(rec *vlib.Rec, idx int, o *c06Obs) c06Reaction {
	got := c.derive(o)
	allowed := c06Classify(c.sess, c.faults...)
	fam := c.faults[0].family()
	if len(c.faults) > 1 {
		fam = "pair"
	}
	taw := 0
	if c.sess.taw {
		taw = 1
	}
	if o.dead && !o.reset {
		// independent of which fault was injected: keyed on its own
		rec.Violation(fmt.Sprintf("c06:pipelined:unanswered:%s:taw%d", c.sess.pt, taw),
			fmt.Sprintf("layer %d, %s session, fault %s in base %s, delivery %+v: RFC 7606/4271 allow %s, but the message was never answered: %s", c.layer, c.sess, c.faultIDs(), c06Bases[c.base].name, *c.pipe, allowed, strings.Join(o.notes, "; ")), c.witness(idx, o))
		return got
	}
	rec.Count(fmt.Sprintf("l%d_react_%s", c.layer, got.strongest()), 1)
	rec.Count(fmt.Sprintf("l%d_react_%s_%s_taw%d", c.layer, got.strongest(), c.sess.pt, taw), 1)
	if len(c.faults) == 1 {
		if !allowed.admits(got) {
			key := fmt.Sprintf("c06:%s:%s:taw%d:%s-not-in-%s", fam, c.sess.pt, taw, got, allowed)
			what := fmt.Sprintf("layer %d, %s session, fault %s in base %s at attribute index %v: observed reaction %s, RFC 7606/4271 allow %s", c.layer, c.sess, c.faultIDs(), c06Bases[c.base].name, c.pos, got, allowed)
			if miss := c.mandatory(o); len(miss) > 0 && !o.reset {
				what += "; installed: " + strings.Join(miss, ", ")
			}
			if len(o.notes) > 0 {
				what += "; " + strings.Join(o.notes, "; ")
			}
			rec.Violation(key, what, c.witness(idx, o))
		}
	}
	if !o.reset && len(o.unnamed) > 0 {
		key := fmt.Sprintf("c06:%s:%s:taw%d:unnamed-prefix-touched", fam, c.sess.pt, taw)
		if len(c.faults) > 1 {
			key = fmt.Sprintf("c06:pair:unnamed-prefix-touched:%s:taw%d", c.sess.pt, taw)
		}
		rec.Violation(key,
			fmt.Sprintf("layer %d, %s session, faults %s: prefixes the message does not name changed: %v", c.layer, c.sess, c.faultIDs(), o.unnamed), c.witness(idx, o))
	}
	return got
}

// judgeBase: a well-formed UPDATE must be accepted as it is.
func (c *c06Case) judgeBase(rec *vlib.Rec, idx int, o *c06Obs, variant string) {
	got := c.derive(o)
	name := c06Bases[c.base].name
	if !got.has(c06None) {
		rec.Violation(fmt.Sprintf("c06:base:%s:%s:penalised:%s", name, c.sess.pt, got),
			fmt.Sprintf("layer %d, %s session: well-formed base UPDATE %s (%s) got reaction %s; %s", c.layer, c.sess, name, variant, got, strings.Join(o.notes, "; ")), c.witness(idx, o))
		return
	}
	if len(o.unnamed) > 0 {
		rec.Violation(fmt.Sprintf("c06:base:%s:%s:unnamed-prefix-touched", name, c.sess.pt),
			fmt.Sprintf("layer %d, %s session, base %s: prefixes the message does not name changed: %v", c.layer, c.sess, name, o.unnamed), c.witness(idx, o))
	}
	if miss := c.mandatory(o); len(miss) > 0 {
		rec.Violation(fmt.Sprintf("c06:base:%s:%s:mandatory-lost", name, c.sess.pt),
			fmt.Sprintf("layer %d, %s session, base %s: %s", c.layer, c.sess, name, strings.Join(miss, ", ")), c.witness(idx, o))
	}
	// every attribute sent is carried (AS4_* never are on a four-octet session; MP_UNREACH names withdrawals)
	for k, as := range o.attrs {
		for _, a := range c.msg.attrs {
			if a.typ == c06TMPUnreach || a.typ == c06TMPReach || a.typ == c06TNextHop {
				continue
			}
			if c.sess.pt != c06IBGP && c.layer >= 2 && a.typ == c06TLocalPref {
				continue // gobgp keeps LOCAL_PREF of internal sessions only
			}
			if c06HasType(as, int(a.typ)) == 0 {
				rec.Violation(fmt.Sprintf("c06:base:%s:%s:attr-lost:%d", name, c.sess.pt, a.typ),
					fmt.Sprintf("layer %d, %s session, base %s: route %s was installed without attribute type %d of a well-formed UPDATE", c.layer, c.sess, name, k, a.typ), c.witness(idx, o))
			}
		}
	}
}

// c06Mono checks monotonicity: the reaction to the message with both faults is at least as strong
// as the reaction to either fault alone (same base, same session).
func c06Mono(rec *vlib.Rec, idx int, pair *c06Case, po *c06Obs, gotPair c06Reaction, singles [2]c06Reaction, singleOK [2]bool) {
	taw := 0
	if pair.sess.taw {
		taw = 1
	}
	if gotPair.has(c06Stale) && (singles[0].has(c06Stale) || singles[1].has(c06Stale)) {
		return // the single fault's own defect, reported there
	}
	worst := -1
	for i := 0; i < 2; i++ {
		if singles[i].has(c06Stale) || !singleOK[i] {
			continue // that fault's own deviation, reported on its own
		}
		if gotPair.strongest() < singles[i].weakest() && (worst < 0 || singles[i].weakest() > singles[worst].weakest()) {
			worst = i
		}
	}
	if i := worst; i >= 0 {
		other := singles[1-i]
		rec.Violation(fmt.Sprintf("c06:pair:weaker-than-single:taw%d:%s", taw, pair.faults[i].family()),
			fmt.Sprintf("monotonicity, layer %d, %s session, base %s: fault %s alone -> %s, fault %s alone -> %s, both -> %s", pair.layer, pair.sess, c06Bases[pair.base].name,
				pair.faults[i].id, singles[i], pair.faults[1-i].id, other, gotPair), pair.witness(idx, po))
		return
	}
	// attribute granularity: an attribute that is discarded when its fault stands alone must not be carried
	// because of the second fault
	if !gotPair.has(c06Reset) && !gotPair.has(c06TAW) && !gotPair.has(c06Stale) {
		for i := 0; i < 2; i++ {
			if singleOK[i] && singles[i].classes == c06R(c06Discard) && po.kept[i] {
				rec.Violation(fmt.Sprintf("c06:pair:kept-though-discarded-alone:taw%d:%s", taw, pair.faults[i].family()),
					fmt.Sprintf("layer %d, %s session, base %s: fault %s alone -> its attribute is discarded; together with %s (alone -> %s) the message gets %s and the installed routes carry the attribute",
						pair.layer, pair.sess, c06Bases[pair.base].name, pair.faults[i].id, pair.faults[1-i].id, singles[1-i], gotPair), pair.witness(idx, po))
				return
			}
		}
	}
	// table check of the pair, only when both singles were within the table (their own deviations are reported on their own)
	if singleOK[0] && singleOK[1] {
		allowed := c06Classify(pair.sess, pair.faults...)
		if !allowed.admits(gotPair) {
			rec.Violation(fmt.Sprintf("c06:pair:outside-table:taw%d:%s+%s:%s-not-in-%s", taw, pair.faults[0].family(), pair.faults[1].family(), gotPair, allowed),
				fmt.Sprintf("layer %d, %s session, base %s, faults %s: observed %s, strongest-of-both allows %s", pair.layer, pair.sess, c06Bases[pair.base].name, pair.faultIDs(), gotPair, allowed), pair.witness(idx, po))
		}
	}
}
