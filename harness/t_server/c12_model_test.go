package server

// C12 — reference model of the graceful-restart / long-lived graceful-restart lifecycle of the routes
// learned from ONE peer ("R"), as seen by the receiving (helper) speaker. Written from RFC 4724 §4.2,
// RFC 8538 §3-4, RFC 9494 §4.2-4.3 and the property text; it shares no code with gobgp.
//
// The model is event driven and keeps absolute (virtual) instants for its two kinds of timers. The
// harness feeds it exactly the events it makes happen on the wire (session up with the speaker's OPEN,
// announce, withdraw, End-of-RIB, loss of a given kind) and calls advance(now) before every
// observation. Where the RFCs and the property text allow more than one outcome the affected route is
// flagged Either (present or absent are both admissible).

import (
	"fmt"
	"sort"
	"time"

	"github.com/osrg/gobgp/v4/pkg/packet/bgp"
)

type c12LossKind int

const (
	c12LossClose         c12LossKind = iota // transport failure: the peer's end of the connection goes away
	c12LossHold                             // hold timer expiry at the helper (peer silent)
	c12LossNotif                            // NOTIFICATION from the peer, not a hard reset
	c12LossHardReset                        // NOTIFICATION Cease/Hard Reset (6/9) from the peer
	c12LossAdminShutdown                    // ShutdownPeer on the helper (Cease/administrative shutdown sent)
	c12LossAdminDisable                     // DisablePeer on the helper
	c12LossAdminReset                       // ResetPeer (hard) on the helper
	c12LossDelete                           // DeletePeer on the helper
)

func (k c12LossKind) String() string {
	return [...]string{"close", "hold-expiry", "notification", "hard-reset", "admin-shutdown", "admin-disable", "admin-reset", "peer-delete"}[k]
}

// c12Open is the GR-relevant content of the OPEN the peer sends for one session.
type c12Open struct {
	GR     bool                  // Graceful Restart capability present
	RBit   bool                  // restart state
	NBit   bool                  // RFC 8538 notification support
	RT     uint16                // restart time
	GRFams map[bgp.Family]bool   // families listed in the GR capability -> forwarding-state bit
	LLGR   bool                  // Long-lived GR capability present
	LLFams map[bgp.Family]uint32 // families listed in the LLGR capability -> long-lived stale time
}

func (o c12Open) String() string {
	s := "gr="
	if !o.GR {
		s += "none"
	} else {
		s += fmt.Sprintf("{R=%v N=%v rt=%d", o.RBit, o.NBit, o.RT)
		for _, f := range c12SortedFams(o.GRFams) {
			s += fmt.Sprintf(" %s(F=%v)", f, o.GRFams[f])
		}
		s += "}"
	}
	if o.LLGR {
		s += " llgr={"
		var fs []bgp.Family
		for f := range o.LLFams {
			fs = append(fs, f)
		}
		sort.Slice(fs, func(i, j int) bool { return fs[i] < fs[j] })
		for _, f := range fs {
			s += fmt.Sprintf(" %s:%ds", f, o.LLFams[f])
		}
		s += " }"
	}
	return s
}

func c12SortedFams(m map[bgp.Family]bool) []bgp.Family {
	var fs []bgp.Family
	for f := range m {
		fs = append(fs, f)
	}
	sort.Slice(fs, func(i, j int) bool { return fs[i] < fs[j] })
	return fs
}

// c12HelperCfg is what the helper (gobgp) is configured to do for the peer.
type c12HelperCfg struct {
	GR   bool // graceful-restart enabled
	NBit bool // notification-enabled
	LLGR bool // long-lived-enabled
	Fams []bgp.Family
}

type c12Key struct {
	Fam    bgp.Family
	Prefix string
}

func (k c12Key) String() string { return k.Fam.String() + "/" + k.Prefix }

type c12MRoute struct {
	Ver         int  // attribute version (carried in a community)
	NoLLGR      bool // carries NO_LLGR
	RxLLGRStale bool // arrived already carrying LLGR_STALE
	Stale       bool // retained from a lost session, not refreshed yet
	LLGR        bool // LLGR_STALE attached by the helper (long-lived phase)
	Either      bool // presence optional: the RFC and the property text name different removal instants
}

type c12Model struct {
	cfg c12HelperCfg

	up   bool
	open c12Open // OPEN of the current / last session
	gr   bool    // GR in force for that session (helper enabled + capability received)
	nbit bool
	llgr bool
	grF  map[bgp.Family]bool   // families preserved on a qualifying loss
	llF  map[bgp.Family]uint32 // families kept in the long-lived phase -> stale time
	eor  map[bgp.Family]bool   // End-of-RIB received in the current session

	routes map[c12Key]*c12MRoute

	restarting bool       // stale routes of the peer are being retained
	restartAt  *time.Time // pending restart timer
	llstAt     map[bgp.Family]time.Time
	inLLGR     bool // long-lived phase entered and not finished

	lastLossQualified bool
	sessions          int                 // sessions established so far
	capChanged        bool                // the current session's GR/LLGR capabilities differ from an earlier session's
	llgrEpisodes      int                 // long-lived phases entered so far
	episodesAtLoss    int                 // ... at the time of the latest loss
	llstFiredUp       map[bgp.Family]bool // a long-lived timer of the family ran out while the session was re-established
	gone              map[c12Key]string   // rule class that removed a route last
	trans             map[string]int      // lifecycle transitions the model went through
	log               []string
}

func c12NewModel(cfg c12HelperCfg) *c12Model {
	return &c12Model{cfg: cfg, routes: map[c12Key]*c12MRoute{}, llstAt: map[bgp.Family]time.Time{}, trans: map[string]int{}, gone: map[c12Key]string{}, llstFiredUp: map[bgp.Family]bool{},
		grF: map[bgp.Family]bool{}, llF: map[bgp.Family]uint32{}, eor: map[bgp.Family]bool{}}
}

func (m *c12Model) hasFam(f bgp.Family) bool {
	for _, x := range m.cfg.Fams {
		if x == f {
			return true
		}
	}
	return false
}

func (m *c12Model) note(f string, a ...any) { m.log = append(m.log, fmt.Sprintf(f, a...)) }

// del removes a route; class is the short, stable name of the rule that removed it (it becomes part
// of the violation key when gobgp still holds the route).
func (m *c12Model) del(k c12Key, class, why string) {
	if _, ok := m.routes[k]; ok {
		delete(m.routes, k)
		m.gone[k] = class
		m.note("  model: %s removed (%s)", k, why)
	}
}

func (m *c12Model) anyStale() bool {
	for _, r := range m.routes {
		if r.Stale {
			return true
		}
	}
	return false
}

// sessionUp: the session (re-)established at instant now with the peer's OPEN o.
func (m *c12Model) sessionUp(now time.Time, o c12Open) {
	m.advance(now)
	m.up = true
	if m.sessions > 0 && !c12SameCaps(m.open, o) {
		m.capChanged = true
	}
	m.sessions++
	m.open = o
	m.gr = m.cfg.GR && o.GR
	m.nbit = m.gr && m.cfg.NBit && o.NBit
	m.llgr = m.gr && m.cfg.LLGR && o.LLGR // RFC 9494 §3: the LLGR capability is ignored without the GR capability
	m.grF, m.llF, m.eor = map[bgp.Family]bool{}, map[bgp.Family]uint32{}, map[bgp.Family]bool{}
	if m.gr {
		for f := range o.GRFams {
			if m.hasFam(f) {
				m.grF[f] = true
			}
		}
	}
	if m.llgr {
		for f, t := range o.LLFams {
			if m.hasFam(f) {
				m.llF[f] = t
			}
		}
	}
	// the restart timer bounds the time until re-establishment (RFC 4724 §4.2)
	m.restartAt = nil
	if m.restarting {
		// RFC 4724 §4.2: "if the Forwarding State bit for a specific address family is not set in the newly
		// received Graceful Restart Capability, or if a specific address family is not included in the newly
		// received Graceful Restart Capability, or if the Graceful Restart Capability is not received in the
		// re-established session at all, then the Receiving Speaker MUST immediately remove all the stale
		// routes from the peer that it is retaining for that address family."
		for k, r := range m.routes {
			if !r.Stale {
				continue
			}
			fwd, listed := o.GRFams[k.Fam]
			switch {
			case !m.gr:
				m.del(k, "reopen-no-gr-cap", "no Graceful Restart capability in the new OPEN")
				m.trans["reopen-family-dropped"]++
			case !listed:
				m.del(k, "reopen-family-unlisted", "family not listed in the new Graceful Restart capability")
				m.trans["reopen-family-dropped"]++
			case !fwd:
				m.del(k, "reopen-fbit-clear", "forwarding-state bit clear in the new Graceful Restart capability")
				m.trans["reopen-family-dropped"]++
			}
		}
		if !m.anyStale() {
			// nothing left to refresh; long-lived timers that are still pending stay in the model (they can
			// only ever remove stale routes, and the model must know when one of them runs out)
			m.note("  model: restart finished (nothing left to refresh)")
			m.restarting, m.inLLGR = false, false
		}
	}
}

func (m *c12Model) finishRestart(why string) {
	if m.restarting {
		m.note("  model: restart finished (%s)", why)
	}
	m.restarting = false
	m.inLLGR = false
	m.restartAt = nil
	m.llstAt = map[bgp.Family]time.Time{}
}

func (m *c12Model) announce(now time.Time, k c12Key, ver int, noLLGR, rxStale bool) {
	m.advance(now)
	if old, ok := m.routes[k]; ok && old.Stale {
		m.trans["stale-refreshed"]++
	}
	m.routes[k] = &c12MRoute{Ver: ver, NoLLGR: noLLGR, RxLLGRStale: rxStale}
	delete(m.gone, k)
}

// phase names where in the lifecycle the model is (part of violation keys).
func (m *c12Model) phase() string {
	switch {
	case m.up && m.restarting:
		return "resync"
	case m.up:
		return "established"
	case m.inLLGR:
		return "llgr"
	case m.restarting:
		return "restart-window"
	}
	return "down"
}

func (m *c12Model) withdraw(now time.Time, k c12Key) {
	m.advance(now)
	m.del(k, "withdrawn", "withdrawn by the peer")
}

// eorRx: End-of-RIB for family f arrived.
func (m *c12Model) eorRx(now time.Time, f bgp.Family) {
	m.advance(now)
	m.eor[f] = true
	if !m.restarting {
		return
	}
	all := true
	for g := range m.grF {
		if !m.eor[g] {
			all = false
		}
	}
	if all {
		// property text: "when End-of-RIB has arrived for every GR family ... routes not re-announced are withdrawn"
		n := 0
		for k, r := range m.routes {
			if r.Stale {
				m.del(k, "eor", "not refreshed before the last End-of-RIB")
				n++
			}
		}
		if n > 0 {
			m.trans["stale-swept-at-eor"]++
		}
		m.trans["all-eor"]++
		m.finishRestart("End-of-RIB for every GR family")
		return
	}
	// RFC 4724 §4.2 removes the still-stale routes of f right now, the property text only once every GR
	// family has sent its marker: both instants are admissible.
	for k, r := range m.routes {
		if r.Stale && k.Fam == f {
			r.Either = true
		}
	}
}

// qualifies: does a loss of this kind start the helper procedure?
func (m *c12Model) qualifies(kind c12LossKind) bool {
	if !m.gr {
		return false
	}
	switch kind {
	case c12LossClose, c12LossHold:
		return true
	case c12LossNotif:
		return m.nbit // RFC 8538 §4
	}
	return false // hard reset, administrative actions, de-configuration
}

func (m *c12Model) loss(now time.Time, kind c12LossKind) bool {
	m.advance(now)
	m.up = false
	m.lastLossQualified = m.qualifies(kind)
	if !m.restarting {
		m.llstAt = map[bgp.Family]time.Time{} // leftovers of a restart that is over
	}
	m.episodesAtLoss = m.llgrEpisodes
	m.llstFiredUp = map[bgp.Family]bool{}
	q := m.qualifies(kind)
	if !q {
		for k := range m.routes {
			m.del(k, "loss-"+kind.String(), "session lost without graceful restart ("+kind.String()+")")
		}
		m.finishRestart("non-qualifying loss")
		m.trans["dropped-all"]++
		return false
	}
	// RFC 4724 §4.2: "To deal with possible consecutive restarts, a route (from the peer) previously
	// marked as stale MUST be deleted."
	for k, r := range m.routes {
		if r.Stale {
			m.del(k, "consecutive-restart", "already stale at a consecutive restart")
			m.trans["consecutive-restart-swept"]++
		}
	}
	for k, r := range m.routes {
		if m.grF[k.Fam] {
			r.Stale = true
			m.trans["stale-marked"]++
		} else {
			m.del(k, "unlisted-family", "family not listed in the GR capability")
			m.trans["unlisted-family-dropped"]++
		}
	}
	m.restarting = true
	t := now.Add(time.Duration(m.open.RT) * time.Second)
	m.restartAt = &t
	m.advance(now) // restart time 0 expires at once
	return true
}

// advance fires every model timer due at or before now, in time order.
func (m *c12Model) advance(now time.Time) {
	for {
		var at *time.Time
		var fam bgp.Family
		kind := ""
		if m.restartAt != nil && !m.restartAt.After(now) {
			t := *m.restartAt
			at, kind = &t, "restart"
		}
		fams := make([]bgp.Family, 0, len(m.llstAt))
		for f := range m.llstAt {
			fams = append(fams, f)
		}
		sort.Slice(fams, func(i, j int) bool { return fams[i] < fams[j] })
		for _, f := range fams {
			t := m.llstAt[f]
			if !t.After(now) && (at == nil || t.Before(*at)) {
				tt := t
				at, kind, fam = &tt, "llst", f
			}
		}
		if at == nil {
			return
		}
		if kind == "restart" {
			m.restartExpired(*at)
		} else {
			m.llstExpired(*at, fam)
		}
	}
}

func (m *c12Model) restartExpired(at time.Time) {
	m.restartAt = nil
	if m.up || !m.restarting {
		return
	}
	if !m.llgr {
		// RFC 4724 §4.2: "If the session does not get re-established within the Restart Time ... the
		// Receiving Speaker MUST delete all the stale routes from the peer that it is retaining."
		for k, r := range m.routes {
			if r.Stale {
				m.del(k, "restart-timer", "restart time expired")
			}
		}
		m.trans["stale-expired"]++
		m.finishRestart("restart time expired")
		return
	}
	// RFC 9494 §4.2: the long-lived phase starts when the restart time is over
	m.inLLGR = true
	m.llgrEpisodes++
	m.trans["llgr-entered"]++
	for k, r := range m.routes {
		if !r.Stale {
			continue
		}
		lt, ok := m.llF[k.Fam]
		switch {
		case !ok:
			m.del(k, "restart-timer", "restart time expired, family not in the LLGR capability")
		case r.NoLLGR:
			m.del(k, "no-llgr", "NO_LLGR route at the start of the long-lived phase")
			m.trans["no-llgr-dropped"]++
		case lt == 0:
			m.del(k, "llst-timer", "long-lived stale time 0")
		default:
			r.LLGR = true
		}
	}
	for f, lt := range m.llF {
		if m.grF[f] && lt > 0 {
			m.llstAt[f] = at.Add(time.Duration(lt) * time.Second)
		}
	}
	if len(m.llstAt) == 0 {
		m.finishRestart("no family kept in the long-lived phase")
	}
}

func (m *c12Model) llstExpired(at time.Time, f bgp.Family) {
	delete(m.llstAt, f)
	if m.up {
		m.llstFiredUp[f] = true
	}
	for k, r := range m.routes {
		if k.Fam == f && r.Stale {
			if m.up {
				// session re-established, markers still outstanding: RFC 9494 does not say whether the
				// timer keeps running until End-of-RIB; fresh routes are never touched
				r.Either = true
			} else {
				m.del(k, "llst-timer", "long-lived stale time expired")
			}
		}
	}
	m.trans["llgr-expired"]++
	if len(m.llstAt) == 0 && !m.up {
		m.finishRestart("every long-lived stale timer expired")
	}
}

// nextTimer returns the earliest pending model timer.
func (m *c12Model) nextTimer() (time.Time, string, bool) {
	var best time.Time
	what, ok := "", false
	if m.restartAt != nil {
		best, what, ok = *m.restartAt, "restart-timer", true
	}
	for f, t := range m.llstAt {
		if !ok || t.Before(best) {
			best, what, ok = t, "llst-timer:"+f.String(), true
		}
	}
	return best, what, ok
}

// ctx qualifies violation keys (it is placed right after "c12:") of scenarios in which the peer changed its
// GR/LLGR capabilities between sessions, or in which the current restart follows an earlier long-lived
// phase of the same peer: gobgp keeps negotiated state and LLGR bookkeeping across sessions, so findings
// in these contexts have root causes of their own and get key prefixes of their own.
func (m *c12Model) ctx() string {
	if m.capChanged {
		return "after-capability-change:"
	}
	if m.episodesAtLoss > 0 {
		return "after-earlier-llgr-phase:"
	}
	return ""
}

// c12SameCaps: same GR-relevant capabilities (restart state and forwarding bits aside).
func c12SameCaps(a, b c12Open) bool {
	if a.GR != b.GR || a.LLGR != b.LLGR || (a.GR && a.NBit != b.NBit) || len(a.GRFams) != len(b.GRFams) || len(a.LLFams) != len(b.LLFams) {
		return false
	}
	for f := range a.GRFams {
		if _, ok := b.GRFams[f]; !ok {
			return false
		}
	}
	for f := range a.LLFams {
		if _, ok := b.LLFams[f]; !ok {
			return false
		}
	}
	return true
}

func (r *c12MRoute) llgrStale() bool { return r.LLGR || r.RxLLGRStale }
