package server

// C06 layer 1 — the real receive loop (fsmHandler.recvMessageloop: recvMessageWithError ->
// ParseBGPBody -> ValidateUpdateMsg -> handlingError -> NOTIFICATION or callback) is run on one
// message at a time over an in-memory connection, with a minimally constructed fsm whose session
// parameters (isEBGP, isConfed, isTreatAsWithdraw, negotiated families / ADD-PATH) are set the way
// fsm.stateChange latches them. What the server would do next is mirrored with the real
// table.ProcessMessage, exactly as peer.handleUpdate calls it.

import (
	"bytes"
	"context"
	"fmt"
	"io"
	"log/slog"
	"math/rand/v2"
	"net"
	"net/netip"
	"sync"
	"time"

	"github.com/osrg/gobgp/v4/internal/pkg/table"
	"github.com/osrg/gobgp/v4/internal/verif/vlib"
	"github.com/osrg/gobgp/v4/pkg/config/oc"
	"github.com/osrg/gobgp/v4/pkg/packet/bgp"
)

type c06Conn struct{ r *bytes.Reader }

func (c *c06Conn) Read(b []byte) (int, error)       { return c.r.Read(b) }
func (c *c06Conn) Write(b []byte) (int, error)      { return len(b), nil }
func (c *c06Conn) Close() error                     { return nil }
func (c *c06Conn) LocalAddr() net.Addr              { return simTCPAddr(simLocalAddr, 179) }
func (c *c06Conn) RemoteAddr() net.Addr             { return simTCPAddr(c06PeerAddr, 40000) }
func (c *c06Conn) SetDeadline(time.Time) error      { return nil }
func (c *c06Conn) SetReadDeadline(time.Time) error  { return nil }
func (c *c06Conn) SetWriteDeadline(time.Time) error { return nil }

var _ io.Reader = (*c06Conn)(nil)

type c06L1 struct {
	sess   c06Sess
	fsm    *fsm
	h      *fsmHandler
	got    *fsmMsg
	hold   chan struct{}
	reason chan fsmStateReason
	info   *table.PeerInfo
}

func c06NewL1(s c06Sess) *c06L1 {
	l := &c06L1{sess: s, hold: make(chan struct{}, 4), reason: make(chan fsmStateReason, 4)}
	f := newFSM(&oc.Global{}, &oc.Neighbor{}, bgp.BGP_FSM_ESTABLISHED, slog.New(slog.DiscardHandler))
	f.isEBGP = s.pt != c06IBGP
	f.isConfed = s.pt == c06Confed
	f.isTreatAsWithdraw = s.taw
	f.twoByteAsTrans = s.as2
	f.extendedMessage.Store(s.ext)
	mode := bgp.BGP_ADD_PATH_NONE
	if s.addPath {
		mode = bgp.BGP_ADD_PATH_RECEIVE
	}
	f.familyMap.Store(map[bgp.Family]bgp.BGPAddPathMode{bgp.RF_IPv4_UC: mode, bgp.RF_IPv6_UC: mode})
	l.fsm = f
	l.h = &fsmHandler{fsm: f, callback: func(m *fsmMsg) { l.got = m }}
	f.h = l.h
	pt := oc.PEER_TYPE_EXTERNAL
	if s.pt == c06IBGP {
		pt = oc.PEER_TYPE_INTERNAL
	}
	l.info = &table.PeerInfo{PeerType: pt, AS: s.pt.peerAS(), ID: netip.MustParseAddr("2.2.2.2"), Address: netip.MustParseAddr(c06PeerAddr),
		LocalAS: c06LocalAS, LocalID: netip.MustParseAddr("1.1.1.1"), LocalAddress: netip.MustParseAddr(simLocalAddr)}
	return l
}

func (l *c06L1) close() { l.fsm.outgoingCh.Close() }

func c06Key(fam bgp.Family, prefix string, id uint32, addPath bool) string {
	f := "4"
	if fam == bgp.RF_IPv6_UC {
		f = "6"
	} else if fam != bgp.RF_IPv4_UC {
		f = fam.String()
	}
	if !addPath {
		id = 0
	}
	return fmt.Sprintf("%s/%s#%d", f, prefix, id)
}

// run feeds one message to the receive loop and reports what came out.
func (l *c06L1) run(c *c06Case) *c06Obs {
	o := &c06Obs{label: -1, state: map[string]c06PState{}, attrs: map[string][]bgp.PathAttributeInterface{}}
	l.got = nil
	for len(l.fsm.notification) > 0 {
		<-l.fsm.notification
	}
	var wg sync.WaitGroup
	wg.Add(1)
	l.h.recvMessageloop(context.Background(), &c06Conn{r: bytes.NewReader(c.raw)}, l.hold, l.reason, &wg)
	for len(l.hold) > 0 {
		<-l.hold
	}
	for len(l.reason) > 0 {
		<-l.reason
	}
	ann, wd := c.msg.named()
	for _, k := range append(ann, wd...) {
		o.state[k] = c06Old
	}
	select {
	case n := <-l.fsm.notification:
		nb := n.Body.(*bgp.BGPNotification)
		o.reset, o.code, o.sub = true, nb.ErrorCode, nb.ErrorSubcode
		if l.got != nil {
			o.notes = append(o.notes, "a NOTIFICATION was queued although the message had been handed to the server")
		}
		return o
	default:
	}
	if l.got == nil {
		o.notes = append(o.notes, "neither NOTIFICATION nor callback")
		return o
	}
	o.label = int(l.got.handling)
	m, ok := l.got.MsgData.(*bgp.BGPMessage)
	if !ok {
		o.notes = append(o.notes, fmt.Sprintf("callback with %T", l.got.MsgData))
		return o
	}
	// what peer.handleUpdate does with it
	for _, p := range table.ProcessMessage(m, l.info, l.got.timestamp, l.got.handling == bgp.ERROR_HANDLING_TREAT_AS_WITHDRAW) {
		if p.IsEOR() {
			o.notes = append(o.notes, "the message was taken for an End-of-RIB marker of "+p.GetFamily().String())
			continue
		}
		k := c06Key(p.GetFamily(), p.GetNlri().String(), p.RemoteID(), l.sess.addPath)
		if _, named := o.state[k]; !named {
			o.unnamed = append(o.unnamed, k)
			continue
		}
		if p.IsWithdraw {
			if o.state[k] != c06New { // an announcement of the same message wins over its withdrawal
				o.state[k] = c06Gone
			}
		} else {
			o.state[k] = c06New
			o.attrs[k] = p.GetPathAttrs()
		}
	}
	return o
}

// ---------------------------------------------------------------- case construction

// c06Make applies the faults to a copy of the base. ok=false: some fault does not apply to this base.
func c06Make(layer int, s c06Sess, bi int, faults []*c06Fault, pos []int) (*c06Case, bool) {
	m := c06BuildBase(bi, s.pt)
	c06ForSession(s, m.attrs)
	c := &c06Case{layer: layer, sess: s, base: bi, faults: faults, pos: pos, msg: m}
	for i, f := range faults {
		if f.peers&(1<<uint(s.pt)) == 0 {
			return nil, false
		}
		ap, ok := f.apply(m, s, pos[i])
		if !ok {
			return nil, false
		}
		c.applied = append(c.applied, ap)
	}
	c.raw = m.bytes()
	c.walked = c06Walk(c.raw)
	return c, true
}

// c06NPos: number of attributes of the base (an upper bound for insertion indices).
func c06NPos(bi int, pt c06PeerType) int { return len(c06BuildBase(bi, pt).attrs) + 1 }

type c06Pool struct {
	l1 map[c06Sess]*c06L1
}

func (p *c06Pool) get(s c06Sess) *c06L1 {
	if p.l1 == nil {
		p.l1 = map[c06Sess]*c06L1{}
	}
	l, ok := p.l1[s]
	if !ok {
		l = c06NewL1(s)
		p.l1[s] = l
	}
	return l
}

func (p *c06Pool) close() {
	for _, l := range p.l1 {
		l.close()
	}
}

func c06Sessions(addPath bool) []c06Sess {
	var out []c06Sess
	for _, pt := range []c06PeerType{c06EBGP, c06IBGP, c06Confed} {
		for _, taw := range []bool{true, false} {
			out = append(out, c06Sess{pt: pt, taw: taw, addPath: addPath})
		}
	}
	return out
}

func c06Count(rec *vlib.Rec, c *c06Case) {
	for _, f := range c.faults {
		rec.Count(fmt.Sprintf("l%d_fault_%s", c.layer, f.id), 1)
	}
	rec.Count(fmt.Sprintf("l%d_peer_%s", c.layer, c.sess.pt), 1)
	if c.sess.taw {
		rec.Count(fmt.Sprintf("l%d_taw_on", c.layer), 1)
	} else {
		rec.Count(fmt.Sprintf("l%d_taw_off", c.layer), 1)
	}
	if c.sess.addPath {
		rec.Count(fmt.Sprintf("l%d_addpath_sessions", c.layer), 1)
	}
}

// c06L1Base: no-penalty for base bi on all six sessions, in the base's own attribute order and in every rotation of it.
func c06L1Base(rec *vlib.Rec, pool *c06Pool, idx, bi int) {
	for _, s := range c06Sessions(c06Bases[bi].addPath) {
		n := len(c06BuildBase(bi, s.pt).attrs)
		for rot := 0; rot < n || rot == 0; rot++ {
			c, _ := c06Make(1, s, bi, nil, nil)
			if rot > 0 {
				c.msg.attrs = append(c.msg.attrs[rot:], c.msg.attrs[:rot]...)
				c.raw = c.msg.bytes()
				c.walked = c06Walk(c.raw)
			}
			var o *c06Obs
			if rec.Guard("c06:l1:base", func() any { return c.witness(idx, nil) }, func() { o = pool.get(s).run(c) }) {
				continue
			}
			rec.Eval()
			rec.Count("l1_base_evaluations", 1)
			c.judgeBase(rec, idx, o, fmt.Sprintf("attributes rotated by %d", rot))
		}
	}
}

// c06L1Single: fault fi in base bi at every position, on all six sessions; table check per
// execution and position independence across the positions.
func c06L1Single(rec *vlib.Rec, pool *c06Pool, idx, bi int, f *c06Fault) {
	for _, s := range c06Sessions(c06Bases[bi].addPath) {
		if f.peers&(1<<uint(s.pt)) == 0 {
			continue
		}
		seen := map[string][]int{}
		var first *c06Case
		var firstObs *c06Obs
		for pos := 0; pos == 0 || f.positional; pos++ {
			c, ok := c06Make(1, s, bi, []*c06Fault{f}, []int{pos})
			if !ok {
				rec.Count("l1_inapplicable", 1)
				break
			}
			if pos > 0 && pos >= len(c.msg.attrs) {
				break // the index is clamped: same message as the previous one
			}
			var o *c06Obs
			if rec.Guard("c06:l1:"+f.family(), func() any { return c.witness(idx, nil) }, func() { o = pool.get(s).run(c) }) {
				continue
			}
			rec.Eval()
			if !c.present() {
				rec.Count("l1_fault_not_present", 1)
				continue
			}
			c06Count(rec, c)
			rec.Count("l1_single_evaluations", 1)
			rec.Nontrivial(fmt.Sprintf("1|%s|%d|%d|%s", f.id, bi, pos, s))
			got := c.judge(rec, idx, o)
			if idx%1499 == 0 && pos == 0 {
				w := c.witness(idx, o)
				w["observed"], w["allowed"] = got.String(), c06Classify(s, f).String()
				rec.Sample(w)
			}
			seen[got.String()] = append(seen[got.String()], pos)
			if first == nil {
				first, firstObs = c, o
			}
		}
		if len(seen) > 1 {
			taw := 0
			if s.taw {
				taw = 1
			}
			w := first.witness(idx, firstObs)
			w["reaction_by_position"] = fmt.Sprint(seen)
			rec.Violation(fmt.Sprintf("c06:position:%s:%s:taw%d", f.family(), s.pt, taw),
				fmt.Sprintf("position independence, layer 1, %s session, fault %s in base %s: the reaction depends on where the faulty attribute sits: %v", s, f.id, c06Bases[bi].name, seen), w)
		}
		if len(seen) > 0 {
			rec.Count("l1_position_groups", 1)
		}
	}
}

// c06L1Pair: two faults in one base at PRNG positions on all six sessions: monotonicity against the
// two single-fault messages, and the strongest-of-both table.
func c06L1Pair(rec *vlib.Rec, pool *c06Pool, idx, bi int, f1, f2 *c06Fault, r *rand.Rand) {
	if c06Conflict(f1, f2) {
		rec.Count("l1_pair_conflicting", 1)
		return
	}
	for _, s := range c06Sessions(c06Bases[bi].addPath) {
		np := c06NPos(bi, s.pt)
		p1, p2 := r.IntN(np), r.IntN(np+1)
		pair, ok := c06Make(1, s, bi, []*c06Fault{f1, f2}, []int{p1, p2})
		if !ok {
			rec.Count("l1_inapplicable", 1)
			continue
		}
		s1, ok1 := c06Make(1, s, bi, []*c06Fault{f1}, []int{p1})
		s2, ok2 := c06Make(1, s, bi, []*c06Fault{f2}, []int{p2})
		if !ok1 || !ok2 {
			continue
		}
		var po, o1, o2 *c06Obs
		if rec.Guard("c06:l1:pair", func() any { return pair.witness(idx, nil) }, func() {
			po, o1, o2 = pool.get(s).run(pair), pool.get(s).run(s1), pool.get(s).run(s2)
		}) {
			continue
		}
		rec.Eval()
		if !pair.present() || !s1.present() || !s2.present() {
			rec.Count("l1_fault_not_present", 1)
			continue
		}
		c06Count(rec, pair)
		rec.Count("l1_pair_evaluations", 1)
		rec.Nontrivial(fmt.Sprintf("1|%s|%d|%d,%d|%s", pair.faultIDs(), bi, p1, p2, s))
		gp := pair.judge(rec, idx, po)
		g1, g2 := s1.derive(o1), s2.derive(o2)
		a1, a2 := c06Classify(s, f1), c06Classify(s, f2)
		c06Mono(rec, idx, pair, po, gp, [2]c06Reaction{g1, g2}, [2]bool{a1.admits(g1), a2.admits(g2)})
	}
}
