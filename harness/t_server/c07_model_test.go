package server

// c07Model — an executable model of the RFC 4271 section 8 peer state machine restricted to the C07
// event alphabet, with RFC 6608 (FSM error subcodes), RFC 4486 / RFC 8203 (Cease subcodes) and
// RFC 6286 (BGP identifier) folded in. It is written from the RFC text and the C07 property, not
// from gobgp's code; what it takes from gobgp are only the documented parameters the property
// leaves to the implementation (no Connect state, idle-hold 0 s / 5 s / IdleHoldTimeAfterReset,
// OpenSent hold 240 s, keepalive = hold/3).
//
// The model is non-deterministic: step() returns the SET of outcomes (messages with admissible
// code/subcode sets and their virtual instants, whether gobgp closes the connection, the peer-state
// transitions with their instants, the successor state). Outcomes with dev != "" are *recognised
// deviations*: behaviour the RFCs do not admit but that is described precisely enough to keep the
// model in step with the implementation after it was reported (so that one deviation does not hide
// the rest of the sequence). The driver (c07_drive_test.go) keeps the set of model states that are
// consistent with everything observed so far and reports a deviation as soon as no admissible
// state is left.

import (
	"fmt"
	"sort"
	"strings"
	"time"

	"github.com/osrg/gobgp/v4/pkg/packet/bgp"
)

type c07St uint8

const (
	c07Idle c07St = iota
	c07Active
	c07OpenSent
	c07OpenConfirm
	c07Established
	c07Deleted
)

func (s c07St) String() string {
	return [...]string{"idle", "active", "opensent", "openconfirm", "established", "deleted"}[s]
}

type c07Adm uint8

const (
	c07Up c07Adm = iota
	c07Down
	c07PfxCt
)

func (a c07Adm) String() string { return [...]string{"up", "down", "pfx_ct"}[a] }

type c07Ev uint8

const (
	c07EvConnect c07Ev = iota
	c07EvOpenValid
	c07EvOpenBadVer
	c07EvOpenBadAS
	c07EvOpenID0
	c07EvOpenIDSelf
	c07EvOpenHold1
	c07EvOpenHold2
	c07EvOpenMalformed
	c07EvOpenUnsup
	c07EvOpenTrunc
	c07EvKeepalive
	c07EvUpdate
	c07EvRefresh
	c07EvNotif
	c07EvGMarker
	c07EvGShort
	c07EvGLong
	c07EvGType
	c07EvClose
	c07EvSilNextBelow
	c07EvSilNextAt
	c07EvSilNextAbove
	c07EvSilHoldBelow
	c07EvSilHoldAt
	c07EvSilHoldAbove
	c07EvEnable
	c07EvDisable
	c07EvShutdown
	c07EvResetHard
	c07EvResetSoft
	c07EvDelete
	c07EvPfxLimit
	c07NumEv // size of the enumerated alphabet
	// events of the scripted multi-session histories only (c07_multi_test.go), never enumerated:
	// well-formed UPDATEs of exactly 4096, 4097 and 65535 octets (RFC 8654 limits)
	c07EvUpdate4096
	c07EvUpdate4097
	c07EvUpdate65535
)

var c07EvNames = [...]string{"connect", "open-valid", "open-badversion", "open-badas", "open-id0", "open-idself", "open-hold1", "open-hold2",
	"open-malformed-optparam", "open-unsup-optparam", "open-truncated", "keepalive", "update", "route-refresh", "notification",
	"garbage-marker", "garbage-len-short", "garbage-len-long", "garbage-type", "remote-close",
	"silence-next-below", "silence-next-at", "silence-next-above", "silence-hold-below", "silence-hold-at", "silence-hold-above",
	"enable", "disable", "shutdown", "reset-hard", "reset-soft", "delete", "prefix-limit", "-", "update-4096-octets", "update-4097-octets", "update-65535-octets"}

func (e c07Ev) String() string { return c07EvNames[e] }

func (e c07Ev) isOpen() bool { return e >= c07EvOpenValid && e <= c07EvOpenTrunc }
func (e c07Ev) isMsg() bool {
	return (e >= c07EvOpenValid && e <= c07EvClose) || e == c07EvPfxLimit || e > c07NumEv
}

// bigLen: the header Length of the sized UPDATE events, 0 for every other event.
func (e c07Ev) bigLen() int {
	switch e {
	case c07EvUpdate4096:
		return 4096
	case c07EvUpdate4097:
		return 4097
	case c07EvUpdate65535:
		return 65535
	}
	return 0
}
func (e c07Ev) isSilence() bool { return e >= c07EvSilNextBelow && e <= c07EvSilHoldAbove }
func (e c07Ev) isGarbage() bool { return e >= c07EvGMarker && e <= c07EvGType }

const c07Sec = int64(time.Second)

// lengths / type used by the garbage-header events (also the NOTIFICATION data the RFC demands)
const (
	c07ShortLen  = 18
	c07LongLen   = 4097
	c07BadType   = 99
	c07TruncLen  = 25
	c07OSHoldSec = 240
)

// c07Conf is the per-case configuration the model needs.
type c07Conf struct {
	ibgp    bool
	cfgHold int64 // gobgp's configured hold time (s)
	spkHold int64 // hold time in the speaker's OPEN (s); may change between the sessions of a case
	spkExt  bool  // the speaker's OPEN carries the Extended Message capability (gobgp always sends it)
}

func (cf *c07Conf) negotiate() (hold, ka int64) {
	hold = cf.cfgHold
	if cf.spkHold < hold {
		hold = cf.spkHold
	}
	if hold == 0 {
		return 0, 0
	}
	ka = hold / 3
	if ka == 0 {
		ka = 1
	}
	return hold, ka
}

// c07M is one model state (comparable, so sets of states are maps).
type c07M struct {
	st       c07St
	adm      c07Adm
	now      int64 // virtual ns since the bubble's start
	conn     bool  // a transport connection is attached to the session
	idleAt   int64 // instant of Idle->Active, -1 none
	idleHold int64 // idle-hold for the next return to Idle (s)
	holdAt   int64 // hold timer expiry, -1 none
	kaAt     int64 // next keepalive, -1 none
	kaIv     int64 // keepalive interval (s)
	negHold  int64 // negotiated hold (s)
	routes   int   // routes of this peer that must be in ADJ_IN and the global table
	ext      bool  // RFC 8654: both OPENs of THIS session carried the Extended Message capability

	// bookkeeping of recognised deviations
	stale byte   // an administrative NOTIFICATION (subcode 2 or 4) requested while not Established is still queued
	ocOff bool   // OpenConfirm runs without hold/keepalive timers
	pend  string // deviation keys this state depends on that were not reported yet ("|"-joined)
}

type c07XMsg struct {
	at       int64
	typ      uint8
	code     uint8
	subs     []uint8 // admissible subcodes
	codes    []uint8 // if set: any of these codes with any subcode (classes the RFCs leave loose)
	data     []byte  // if dataMust: the Data field the RFC demands
	dataMust bool
	optional bool
}

type c07XTr struct {
	st c07St
	at int64
}

type c07Out struct {
	next   c07M
	msgs   []c07XMsg
	closed bool
	trans  []c07XTr
	dev    string
}

func c07Notif(at int64, code uint8, subs ...uint8) c07XMsg {
	return c07XMsg{at: at, typ: bgp.BGP_MSG_NOTIFICATION, code: code, subs: subs}
}

func (o c07Out) clone() c07Out {
	n := o
	n.msgs = append([]c07XMsg(nil), o.msgs...)
	n.trans = append([]c07XTr(nil), o.trans...)
	return n
}

func (o *c07Out) tr(st c07St, at int64) {
	o.next.st = st
	o.trans = append(o.trans, c07XTr{st, at})
}

// toIdle: release the connection, drop the peer's routes, arm the idle-hold timer.
func (o *c07Out) toIdle(at int64) {
	m := &o.next
	o.tr(c07Idle, at)
	m.conn = false
	m.holdAt, m.kaAt = -1, -1
	m.routes = 0
	m.ocOff = false
	m.ext = false
	if m.adm == c07Up {
		m.idleAt = at + m.idleHold*c07Sec
	} else {
		m.idleAt = -1
	}
}

func (o *c07Out) notifyCloseIdle(at int64, n c07XMsg) {
	n.at = at
	o.msgs = append(o.msgs, n)
	o.closed = true
	o.toIdle(at)
}

func c07DevKey(st c07St, ev c07Ev, what string) string {
	return fmt.Sprintf("c07:%s:%s:%s", st, ev, what)
}

func c07U16(v int) []byte { return []byte{byte(v >> 8), byte(v)} }

// headerError returns the NOTIFICATION RFC 4271 6.1 prescribes for the garbage-header events.
func c07HeaderError(ev c07Ev) c07XMsg {
	switch ev {
	case c07EvGMarker:
		return c07Notif(0, 1, 1)
	case c07EvGShort:
		n := c07Notif(0, 1, 2)
		n.data, n.dataMust = c07U16(c07ShortLen), true
		return n
	case c07EvGLong:
		n := c07Notif(0, 1, 2)
		n.data, n.dataMust = c07U16(c07LongLen), true
		return n
	case c07EvGType:
		n := c07Notif(0, 1, 3)
		n.data, n.dataMust = []byte{c07BadType}, true
		return n
	}
	panic("c07: not a header error")
}

// openError: the NOTIFICATION RFC 4271 6.2 / RFC 6286 prescribe for an invalid OPEN (nil if the OPEN is acceptable).
func c07OpenError(cf *c07Conf, ev c07Ev) *c07XMsg {
	var n c07XMsg
	switch ev {
	case c07EvOpenValid:
		return nil
	case c07EvOpenBadVer:
		n = c07Notif(0, 2, 1)
		n.data, n.dataMust = c07U16(4), true // largest locally supported version
	case c07EvOpenBadAS:
		n = c07Notif(0, 2, 2)
	case c07EvOpenID0:
		n = c07Notif(0, 2, 3)
	case c07EvOpenIDSelf:
		if !cf.ibgp {
			return nil // RFC 6286: only AS-wide uniqueness is required
		}
		n = c07Notif(0, 2, 3)
	case c07EvOpenHold1, c07EvOpenHold2:
		n = c07Notif(0, 2, 6)
	case c07EvOpenMalformed:
		n = c07Notif(0, 2, 0) // "recognized, but malformed ... MUST be set to 0 (Unspecific)"
	case c07EvOpenUnsup:
		n = c07Notif(0, 2, 4)
	case c07EvOpenTrunc:
		n = c07Notif(0, 1, 2) // header Length below the minimum OPEN length (29)
		n.data, n.dataMust = c07U16(c07TruncLen), true
	default:
		panic("c07: not an OPEN event")
	}
	return &n
}

func (m c07M) base() c07Out { return c07Out{next: m} }

// enterOpenConfirm: a valid OPEN was received in OpenSent.
func (m c07M) enterOpenConfirm(cf *c07Conf, ev c07Ev, extraDev string) []c07Out {
	t := m.now
	o := m.base()
	o.dev = extraDev
	o.msgs = append(o.msgs, c07XMsg{at: t, typ: bgp.BGP_MSG_KEEPALIVE})
	o.tr(c07OpenConfirm, t)
	n := &o.next
	n.negHold, n.kaIv = cf.negotiate()
	n.ext = cf.spkExt
	if n.negHold > 0 {
		n.holdAt = t + n.negHold*c07Sec
		n.kaAt = t + n.kaIv*c07Sec
	} else {
		n.holdAt, n.kaAt = -1, -1
	}
	outs := []c07Out{o}
	if n.negHold > 0 {
		// recognised deviation: OpenConfirm without the negotiated hold / keepalive timers
		d := o.clone()
		d.next.ocOff = true
		d.next.holdAt, d.next.kaAt = -1, -1
		d.dev = c07JoinDev(extraDev, "c07:openconfirm:silence:no-negotiated-hold-or-keepalive-timer")
		outs = append(outs, d)
	}
	return outs
}

func c07JoinDev(a, b string) string {
	if a == "" {
		return b
	}
	if b == "" {
		return a
	}
	parts := strings.Split(a+"|"+b, "|")
	sort.Strings(parts)
	out := parts[:0]
	for i, p := range parts {
		if i == 0 || p != parts[i-1] {
			out = append(out, p)
		}
	}
	return strings.Join(out, "|")
}

// step returns the admissible (and recognised deviating) outcomes of event ev in state m.
// dur is the length of a silence event.
func (m c07M) step(cf *c07Conf, ev c07Ev, dur int64) []c07Out {
	t := m.now
	switch {
	case ev.isSilence():
		return m.silence(dur)
	case ev == c07EvConnect:
		return m.connect()
	case ev.isMsg():
		if !m.conn {
			return []c07Out{m.base()} // nothing to send on (the driver does not apply such events)
		}
		switch m.st {
		case c07OpenSent:
			return m.msgOpenSent(cf, ev)
		case c07OpenConfirm:
			return m.msgOpenConfirm(cf, ev)
		case c07Established:
			return m.msgEstablished(cf, ev)
		}
		panic("c07 model: connection attached in state " + m.st.String())
	}
	// administrative events
	if m.st == c07Deleted {
		return []c07Out{m.base()}
	}
	switch ev {
	case c07EvResetSoft:
		return []c07Out{m.base()}
	case c07EvEnable:
		if m.st != c07Idle {
			return []c07Out{m.base()}
		}
		var outs []c07Out
		if m.adm == c07Up {
			outs = append(outs, m.base()) // already started: the running idle-hold may simply go on
		}
		// (re)start: after the idle-hold (damping) ...
		o := m.base()
		o.next.adm = c07Up
		o.next.idleAt = t + m.idleHold*c07Sec
		outs = append(outs, o)
		// ... or at once (RFC 4271 ManualStart in Idle)
		if m.idleHold != 0 {
			o = m.base()
			o.next.adm = c07Up
			o.next.idleAt = -1
			o.next.idleHold = 5
			o.tr(c07Active, t)
			outs = append(outs, o)
		}
		return m.fireDueIdle(outs)
	case c07EvDisable:
		switch m.st {
		case c07Idle:
			o := m.base()
			o.next.adm = c07Down
			o.next.idleAt = -1
			return []c07Out{o}
		case c07Active:
			o := m.base()
			o.next.adm = c07Down
			o.toIdle(t)
			return []c07Out{o}
		case c07OpenSent, c07OpenConfirm:
			// RFC 4271 8.2.2 ManualStop: "sends the NOTIFICATION with a Cease" (RFC 4486: subcode 2)
			o := m.base()
			o.next.adm = c07Down
			o.notifyCloseIdle(t, c07Notif(t, 6, 0, 2))
			d := m.base()
			d.next.adm = c07Down
			d.closed = true
			d.toIdle(t)
			d.dev = c07DevKey(m.st, ev, "no-notification")
			return []c07Out{o, d}
		case c07Established:
			o := m.base()
			o.next.adm = c07Down
			o.notifyCloseIdle(t, c07Notif(t, 6, 2))
			return []c07Out{o}
		}
	case c07EvShutdown, c07EvResetHard:
		sub := uint8(2)
		if ev == c07EvResetHard {
			sub = 4
		}
		if m.st == c07Established {
			o := m.base()
			if ev == c07EvResetHard {
				o.next.idleHold = 30
			}
			o.notifyCloseIdle(t, c07Notif(t, 6, sub))
			return []c07Out{o}
		}
		// no session to notify: nothing happens (RFC 4271: ManualStop is ignored in Idle; the API call
		// is "notify the peer", which has no addressee before Established)
		outs := []c07Out{m.base()}
		if m.stale == 0 {
			d := m.base()
			d.next.stale = sub
			d.dev = "c07:established:stale-admin-notification"
			outs = append(outs, d)
		}
		return outs
	case c07EvDelete:
		o := m.base()
		switch m.st {
		case c07Idle, c07Active:
			o.tr(c07Idle, t)
			o.next.st = c07Deleted
			o.next.idleAt = -1
			return []c07Out{o}
		case c07OpenSent, c07OpenConfirm:
			o.msgs = append(o.msgs, c07Notif(t, 6, 0, 3))
			o.closed = true
			o.toIdle(t)
			o.next.st, o.next.idleAt = c07Deleted, -1
			d := m.base()
			d.closed = true
			d.toIdle(t)
			d.next.st, d.next.idleAt = c07Deleted, -1
			d.dev = c07DevKey(m.st, ev, "no-notification")
			return []c07Out{o, d}
		case c07Established:
			o.msgs = append(o.msgs, c07Notif(t, 6, 3))
			o.closed = true
			o.toIdle(t)
			o.next.st, o.next.idleAt = c07Deleted, -1
			return []c07Out{o}
		}
	}
	panic(fmt.Sprintf("c07 model: unhandled %s in %s", ev, m.st))
}

// fireDueIdle: an idle-hold of 0 s expires at the instant it is armed.
func (m c07M) fireDueIdle(outs []c07Out) []c07Out {
	for i := range outs {
		n := &outs[i].next
		if n.st == c07Idle && n.adm == c07Up && n.idleAt >= 0 && n.idleAt <= n.now {
			at := n.idleAt
			n.idleAt = -1
			n.idleHold = 5
			outs[i].tr(c07Active, at)
		}
	}
	return outs
}

func (m c07M) connect() []c07Out {
	t := m.now
	if m.st == c07Active && m.adm == c07Up && !m.conn {
		o := m.base()
		o.msgs = append(o.msgs, c07XMsg{at: t, typ: bgp.BGP_MSG_OPEN})
		o.tr(c07OpenSent, t)
		o.next.conn = true
		o.next.holdAt = t + c07OSHoldSec*c07Sec
		return []c07Out{o}
	}
	// refused (Idle, administratively down, unknown peer) or a second connection while one is in use:
	// closed at once; a Cease (RFC 4486 "Connection Rejected" / "Connection Collision Resolution") is optional
	o := m.base()
	c := c07XMsg{at: t, typ: bgp.BGP_MSG_NOTIFICATION, codes: []uint8{6}, optional: true}
	o.msgs = append(o.msgs, c)
	o.closed = true
	return []c07Out{o}
}

func (m c07M) msgOpenSent(cf *c07Conf, ev c07Ev) []c07Out {
	t := m.now
	switch {
	case ev == c07EvClose:
		o := m.base()
		o.toIdle(t)
		return []c07Out{o}
	case ev.isGarbage():
		o := m.base()
		o.notifyCloseIdle(t, c07HeaderError(ev))
		return []c07Out{o}
	case ev.isOpen():
		e := c07OpenError(cf, ev)
		if e == nil {
			return m.enterOpenConfirm(cf, ev, "")
		}
		o := m.base()
		o.notifyCloseIdle(t, *e)
		outs := []c07Out{o}
		switch ev {
		case c07EvOpenUnsup:
			outs = append(outs, m.enterOpenConfirm(cf, ev, c07DevKey(m.st, ev, "accepted"))...)
		case c07EvOpenMalformed:
			d := m.base()
			d.notifyCloseIdle(t, c07Notif(t, 1, 2))
			d.dev = c07DevKey(m.st, ev, "notification-1/2-instead-of-2/0")
			outs = append(outs, d)
		}
		return outs
	case ev == c07EvNotif:
		// RFC 4271 lists NotifMsg under "any other event" (FSM error); closing silently on a peer's
		// NOTIFICATION is the other common reading
		o := m.base()
		o.notifyCloseIdle(t, c07Notif(t, 5, 0, 1))
		s := m.base()
		s.closed = true
		s.toIdle(t)
		return []c07Out{o, s}
	default: // KEEPALIVE, UPDATE, ROUTE-REFRESH: unexpected message in OpenSent
		o := m.base()
		o.notifyCloseIdle(t, c07Notif(t, 5, 0, 1))
		return []c07Out{o}
	}
}

func (m c07M) msgOpenConfirm(cf *c07Conf, ev c07Ev) []c07Out {
	t := m.now
	switch {
	case ev == c07EvClose:
		o := m.base()
		o.toIdle(t)
		return []c07Out{o}
	case ev.isGarbage():
		o := m.base()
		o.notifyCloseIdle(t, c07HeaderError(ev))
		return []c07Out{o}
	case ev == c07EvKeepalive:
		return m.enterEstablished()
	case ev == c07EvNotif:
		o := m.base()
		o.closed = true
		o.toIdle(t)
		return []c07Out{o}
	case ev.isOpen():
		// a second OPEN on the connection: some NOTIFICATION (OPEN error, FSM error 5/2, header error for
		// the truncated one, Cease) and back to Idle
		o := m.base()
		n := c07XMsg{typ: bgp.BGP_MSG_NOTIFICATION, codes: []uint8{1, 2, 5, 6}}
		o.notifyCloseIdle(t, n)
		d := m.base()
		d.closed = true
		d.toIdle(t)
		if c07OpenError(cf, ev) != nil {
			// BGPOpenMsgErr (Event 22): "sends a NOTIFICATION message with the appropriate error code"
			d.dev = "c07:openconfirm:unexpected-msg:open-invalid:no-notification"
		}
		// a valid second OPEN is only subject to collision processing (6.8), which this connection cannot lose
		// against itself: dropping it silently is not excluded by the text
		return []c07Out{o, d}
	default: // UPDATE, ROUTE-REFRESH: RFC 4271 8.2.2 "any other event" -> FSM error (RFC 6608 subcode 2)
		o := m.base()
		o.notifyCloseIdle(t, c07Notif(t, 5, 0, 2))
		d := m.base()
		d.closed = true
		d.toIdle(t)
		name := "update"
		if ev == c07EvRefresh {
			name = "route-refresh"
		}
		d.dev = "c07:openconfirm:unexpected-msg:" + name + ":no-notification"
		return []c07Out{o, d}
	}
}

func (m c07M) enterEstablished() []c07Out {
	t := m.now
	o := m.base()
	o.tr(c07Established, t)
	n := &o.next
	n.ocOff = false
	if n.negHold > 0 {
		n.holdAt = t + n.negHold*c07Sec
		n.kaAt = t + n.kaIv*c07Sec
	} else {
		n.holdAt, n.kaAt = -1, -1
	}
	if m.stale != 0 {
		// recognised deviation: the queued administrative NOTIFICATION kills the fresh session
		n.stale = 0
		if m.stale == 4 {
			n.idleHold = 30
		}
		o.notifyCloseIdle(t, c07Notif(t, 6, m.stale))
	}
	return []c07Out{o}
}

func (m c07M) msgEstablished(cf *c07Conf, ev c07Ev) []c07Out {
	t := m.now
	rearm := func(o *c07Out) {
		if o.next.negHold > 0 {
			o.next.holdAt = t + o.next.negHold*c07Sec
		}
	}
	switch {
	case ev == c07EvClose:
		o := m.base()
		o.toIdle(t)
		return []c07Out{o}
	case ev.isGarbage():
		o := m.base()
		o.notifyCloseIdle(t, c07HeaderError(ev))
		return []c07Out{o}
	case ev == c07EvKeepalive:
		o := m.base()
		rearm(&o)
		return []c07Out{o}
	case ev == c07EvUpdate:
		o := m.base()
		rearm(&o)
		o.next.routes = 1
		return []c07Out{o}
	case ev.bigLen() > 0:
		// RFC 4271 6.1 / RFC 8654 4: the limit is 4096 octets unless THIS session negotiated extended messages
		if l := ev.bigLen(); l > 4096 && !m.ext {
			n := c07Notif(t, 1, 2)
			n.data, n.dataMust = c07U16(l), true
			o := m.base()
			o.notifyCloseIdle(t, n)
			return []c07Out{o}
		}
		o := m.base()
		rearm(&o)
		o.next.routes = 1
		return []c07Out{o}
	case ev == c07EvPfxLimit:
		o := m.base()
		o.next.adm = c07PfxCt
		o.notifyCloseIdle(t, c07Notif(t, 6, 1))
		return []c07Out{o}
	case ev == c07EvRefresh:
		return []c07Out{m.base()}
	case ev == c07EvNotif:
		o := m.base()
		o.closed = true
		o.toIdle(t)
		return []c07Out{o}
	case ev.isOpen():
		fsmErr := m.base()
		fsmErr.notifyCloseIdle(t, c07Notif(t, 5, 0, 3))
		switch {
		case c07OpenError(cf, ev) == nil:
			// RFC 4271: a valid OPEN in Established only matters with CollisionDetectEstablishedState
			return []c07Out{m.base(), fsmErr}
		case ev == c07EvOpenMalformed || ev == c07EvOpenTrunc:
			o := m.base()
			o.notifyCloseIdle(t, c07XMsg{typ: bgp.BGP_MSG_NOTIFICATION, codes: []uint8{1, 2, 5}})
			return []c07Out{o}
		default:
			// BGPOpenMsgErr (Event 22) in Established: "any other event" -> FSM error (an OPEN error code is tolerated)
			o := m.base()
			o.notifyCloseIdle(t, c07XMsg{typ: bgp.BGP_MSG_NOTIFICATION, codes: []uint8{2, 5}})
			d := m.base()
			d.dev = "c07:established:open-invalid:ignored"
			return []c07Out{o, d}
		}
	}
	panic("c07 model: unhandled message " + ev.String())
}

// silence lets dur of virtual time pass with nothing sent: timers fire in order of their instants;
// two timers due at the same instant may fire in either order.
func (m c07M) silence(dur int64) []c07Out {
	end := m.now + dur
	var done []c07Out
	work := []c07Out{m.base()}
	for len(work) > 0 {
		o := work[len(work)-1]
		work = work[:len(work)-1]
		n := &o.next
		// earliest timer
		next := int64(-1)
		pick := func(at int64) {
			if at >= 0 && (next < 0 || at < next) {
				next = at
			}
		}
		if n.st == c07Idle && n.adm == c07Up {
			pick(n.idleAt)
		}
		if n.conn {
			pick(n.holdAt)
			pick(n.kaAt)
		}
		if next < 0 || next > end {
			n.now = end
			done = append(done, o)
			continue
		}
		n.now = next
		switch {
		case n.st == c07Idle && n.idleAt == next:
			n.idleAt = -1
			n.idleHold = 5
			o.tr(c07Active, next)
			work = append(work, o)
		case n.conn && n.holdAt == next:
			if n.kaAt == next {
				// keepalive first, then the hold timer
				k := o.clone()
				k.msgs = append(k.msgs, c07XMsg{at: next, typ: bgp.BGP_MSG_KEEPALIVE})
				k.notifyCloseIdle(next, c07Notif(next, 4, 0))
				work = append(work, k)
				// ... or the keepalive is written between the NOTIFICATION and the close of the connection (the
				// keepalive timer did fire at this instant; only a transport-level interleaving differs)
				l := o.clone()
				l.notifyCloseIdle(next, c07Notif(next, 4, 0))
				l.msgs = append(l.msgs, c07XMsg{at: next, typ: bgp.BGP_MSG_KEEPALIVE})
				work = append(work, l)
			}
			o.notifyCloseIdle(next, c07Notif(next, 4, 0))
			work = append(work, o)
		case n.conn && n.kaAt == next:
			o.msgs = append(o.msgs, c07XMsg{at: next, typ: bgp.BGP_MSG_KEEPALIVE})
			n.kaAt = next + n.kaIv*c07Sec
			work = append(work, o)
		default:
			panic("c07 model: timer bookkeeping")
		}
	}
	return done
}

// deadlines the driver aims the silence events at: the earliest pending timer and the hold timer in force.
func (m c07M) deadlines() (next, hold int64) {
	next, hold = -1, -1
	pick := func(at int64) {
		if at >= 0 && (next < 0 || at < next) {
			next = at
		}
	}
	if m.st == c07Idle && m.adm == c07Up {
		pick(m.idleAt)
		hold = m.idleAt
	}
	if m.conn {
		pick(m.holdAt)
		pick(m.kaAt)
		hold = m.holdAt
	}
	return next, hold
}
