package server

// C16 (unit 2) — the RTR state machine of pkg/server/rpki.go driven with PDU sequences.
//
// Every event reaches roaManager the way it does in the daemon: through roaManager.eventCh, read by
// a pump goroutine that stands in for the BgpServer.Serve loop and calls HandleROAEvent under a
// mutex (management calls AddServer / DeleteServer / SoftReset / Disable / Enable take the same mutex,
// as mgmtOperation serialises them with the loop). Two transports:
//   * "wb"  (white box): no connection; the harness posts roaRTR / roaDisconnected events itself,
//   * "tcp" (real time): the harness is the RTR cache on loopback listeners; gobgp's own
//     tryConnect / established goroutines connect, send queries, frame PDUs and post the events.
// Lifetime expiry is driven without waiting: a timer that gobgp armed and that is still pending is
// stopped by the harness and its own callback (roaClient.lifetimeout) is invoked in its place.
// After every step the table (ROATable.List) is compared with the reference model (c16_model_test.go).

import (
	"encoding/binary"
	"fmt"
	"io"
	"log/slog"
	"math/rand/v2"
	"net"
	"net/netip"
	"sort"
	"strings"
	"sync"
	"time"

	"github.com/osrg/gobgp/v4/internal/pkg/table"
	"github.com/osrg/gobgp/v4/internal/verif/vlib"
	"github.com/osrg/gobgp/v4/pkg/packet/bgp"
	"github.com/osrg/gobgp/v4/pkg/packet/rtr"
)

const c16Wait = 20 * time.Second // infrastructure bound only: expiry ends the case INCONCLUSIVE, never as a violation

func c16Pick[T any](r *rand.Rand, xs []T) T { return xs[r.IntN(len(xs))] }

func c16Logger() *slog.Logger { return slog.New(slog.NewTextHandler(io.Discard, nil)) }

// ---------------------------------------------------------------- PDUs

type c16PDU struct {
	kind   string
	sid    uint16
	serial uint32
	r      c16R
	data   []byte
}

func c16Ser(m rtr.RTRMessage) []byte {
	b, err := m.Serialize()
	if err != nil {
		panic(err)
	}
	return b
}

func c16PrefixPDU(r c16R, announce bool) c16PDU {
	fl := uint8(0)
	k := "withdraw"
	if announce {
		fl, k = 1, "announce"
	}
	if r.pfx.Addr().Is4() {
		k += "-v4"
	} else {
		k += "-v6"
	}
	return c16PDU{kind: k, r: r, data: c16Ser(rtr.NewRTRIPPrefix(r.pfx.Addr(), uint8(r.pfx.Bits()), r.maxLen, r.as, fl))}
}

func c16RawHeader(typ uint8, sid uint16, length uint32, body []byte) []byte {
	b := make([]byte, 8, 8+len(body))
	b[1] = typ
	binary.BigEndian.PutUint16(b[2:4], sid)
	binary.BigEndian.PutUint32(b[4:8], length)
	return append(b, body...)
}

// c16Barrier is an 8-byte PDU of an unassigned type: gobgp logs a parse error and changes nothing.
// Over TCP it is used as a happens-before barrier (it is delivered by the established goroutine
// after that goroutine finished its own Reset Query bookkeeping).
func c16Barrier() c16PDU { return c16PDU{kind: "unknown-type", data: c16RawHeader(255, 0, 8, nil)} }

// ---------------------------------------------------------------- harness-side cache endpoint (tcp)

type c16Cache struct {
	host, addr string
	ln         net.Listener
	acceptCh   chan net.Conn
	conn       net.Conn
	queries    chan byte // PDU types received from the router on the current connection; closed at EOF
	sid        uint16
	serial     uint32
	lnClosed   bool
}

// c16Listen opens a loopback listener (infrastructure). want is "" for an IPv4 address of the
// cache's own out of 127.0.0.0/8 - so that the cases of a run (and other jobs on the machine) do
// not compete for the ephemeral ports of 127.0.0.1 -, "v6" for [::1], or a literal address to
// share with another cache. A failed bind is retried on further addresses; ar is a PRNG of its
// own, so retries never shift the case's event stream.
func c16Listen(ar *rand.Rand, want string) (net.Listener, error) {
	var last error
	for try := 0; try < 8; try++ {
		la := want
		switch {
		case want == "v6" && try < 2:
			la = "::1"
		case want == "" || want == "v6" || try >= 3:
			la = fmt.Sprintf("127.%d.%d.%d", 1+ar.IntN(250), ar.IntN(256), 2+ar.IntN(250))
		}
		ln, err := net.Listen("tcp", net.JoinHostPort(la, "0"))
		if err == nil {
			return ln, nil
		}
		last = err
	}
	return nil, last
}

func (c *c16Cache) acceptLoop() {
	for {
		conn, err := c.ln.Accept()
		if err != nil {
			return
		}
		c.acceptCh <- conn
	}
}

func c16ReadQueries(conn net.Conn, out chan byte) {
	defer close(out)
	for {
		h := make([]byte, 8)
		if _, err := io.ReadFull(conn, h); err != nil {
			return
		}
		n := binary.BigEndian.Uint32(h[4:8])
		if n < 8 || n > 4096 {
			return
		}
		if _, err := io.ReadFull(conn, make([]byte, n-8)); err != nil {
			return
		}
		out <- h[1]
	}
}

// ---------------------------------------------------------------- driver

type c16Obs struct {
	typ      roaEventType
	src      string
	known    bool
	client   *roaClient
	resetQ   uint32
	timer    *time.Timer
	panicked bool
}

type c16Drv struct {
	rec   *vlib.Rec
	idx   int
	tcp   bool
	m     *roaManager
	tbl   *table.ROATable
	mu    sync.Mutex
	obs   []c16Obs
	next  int
	prog  chan struct{}
	stop  chan struct{}
	pdone chan struct{}

	caches map[string]*c16Cache  // tcp endpoints by host
	model  map[string]*c16CacheM // configured caches by host
	sent   map[string][]c16PDU   // PDUs delivered per host and not yet accounted for
	timers []*c16Timer
	trace  []string
	kinds  []string

	lastKind    string
	lastTimer   *c16Timer
	lastSynced  bool
	lastForeign bool
	changes     int
	prevTable   string
	orphans     map[string]bool
	broken      bool // infrastructure failure: stop the case
	violated    bool
}

func (d *c16Drv) witness() map[string]any {
	mode := "wb"
	if d.tcp {
		mode = "tcp"
	}
	tr := d.trace
	if len(tr) > 120 {
		tr = tr[len(tr)-120:]
	}
	return map[string]any{"case": d.idx, "transport": mode, "trace": append([]string{}, tr...)}
}

func (d *c16Drv) inconclusive(why string) {
	if !d.broken {
		d.broken = true
		d.rec.Inconclusive(fmt.Sprintf("c16 rtr case %d: %s (trace tail %v)", d.idx, why, d.tail(6)))
	}
}

func (d *c16Drv) tail(n int) []string {
	if len(d.trace) < n {
		return d.trace
	}
	return d.trace[len(d.trace)-n:]
}

func (d *c16Drv) pump() {
	defer close(d.pdone)
	for {
		select {
		case <-d.stop:
			return
		case ev := <-d.m.eventCh:
			d.mu.Lock()
			o := c16Obs{typ: ev.EventType, src: ev.Src}
			_, o.known = d.m.clientMap[ev.Src]
			o.panicked = d.rec.Guard("c16:HandleROAEvent", func() any { return d.witness() }, func() { d.m.HandleROAEvent(ev) })
			if c, ok := d.m.clientMap[ev.Src]; ok {
				o.client = c
				o.resetQ = uint32(c.state.RpkiMessages.RpkiSent.ResetQuery)
				o.timer = c.timer
			}
			d.obs = append(d.obs, o)
			d.mu.Unlock()
			select {
			case d.prog <- struct{}{}:
			default:
			}
		}
	}
}

// take waits for the next handled event and checks it is the one the step must produce.
func (d *c16Drv) take(typ roaEventType, src string) (c16Obs, bool) {
	if d.broken {
		return c16Obs{}, false
	}
	tm := time.NewTimer(c16Wait)
	defer tm.Stop()
	for {
		d.mu.Lock()
		if d.next < len(d.obs) {
			o := d.obs[d.next]
			d.next++
			d.mu.Unlock()
			if o.typ != typ || o.src != src {
				d.inconclusive(fmt.Sprintf("expected event %d from %s, the loop handled event %d from %s", typ, src, o.typ, o.src))
				return o, false
			}
			if o.panicked {
				d.violated = true
				d.broken = true
				return o, false
			}
			return o, true
		}
		d.mu.Unlock()
		select {
		case <-d.prog:
		case <-tm.C:
			d.inconclusive(fmt.Sprintf("event %d from %s was not handled within %v", typ, src, c16Wait))
			return c16Obs{}, false
		}
	}
}

func (d *c16Drv) post(ev *roaEvent) bool {
	tm := time.NewTimer(c16Wait)
	defer tm.Stop()
	select {
	case d.m.eventCh <- ev:
		return true
	case <-tm.C:
		d.inconclusive("the event loop did not accept an event")
		return false
	}
}

func (d *c16Drv) logf(format string, a ...any) { d.trace = append(d.trace, fmt.Sprintf(format, a...)) }

// ---- model updates driven by what was handled

func (d *c16Drv) applyPDU(host string, p c16PDU, o c16Obs) {
	d.rec.Count("pdu_"+p.kind, 1)
	cm := d.model[host]
	if cm == nil || !o.known {
		d.rec.Count("pdu_for_unconfigured_cache", 1)
		return
	}
	switch {
	case p.kind == "cache-response":
		cm.cacheResponse(p.sid)
	case strings.HasPrefix(p.kind, "announce"):
		cm.announce(p.r)
	case strings.HasPrefix(p.kind, "withdraw"):
		cm.withdraw(p.r)
	case p.kind == "end-of-data":
		cm.endOfData(p.sid, d.timers)
	}
	d.noteReset(cm, o.resetQ)
}

// noteReset: the router's "Reset Query sent" counter moved, i.e. it asked for a complete reload.
func (d *c16Drv) noteReset(cm *c16CacheM, resetQ uint32) {
	if resetQ > cm.lastResetQ {
		cm.resetPoint()
		d.rec.Count("router_reset_queries", int(resetQ-cm.lastResetQ))
	}
	cm.lastResetQ = resetQ
}

func (d *c16Drv) noteAllResets() {
	d.mu.Lock()
	defer d.mu.Unlock()
	for host, cm := range d.model {
		if c, ok := d.m.clientMap[host]; ok {
			d.noteReset(cm, uint32(c.state.RpkiMessages.RpkiSent.ResetQuery))
		}
	}
}

// ---- steps

func (d *c16Drv) deliver(host string, pdus []c16PDU) {
	if d.broken || len(pdus) == 0 {
		return
	}
	for _, p := range pdus {
		d.logf("%s <- %s", host, c16DescribePDU(p))
	}
	if d.tcp {
		c := d.caches[host]
		if c == nil || c.conn == nil {
			d.inconclusive("deliver to a cache without connection")
			return
		}
		var buf []byte
		for _, p := range pdus {
			buf = append(buf, p.data...)
		}
		c.conn.SetWriteDeadline(time.Now().Add(c16Wait))
		if _, err := c.conn.Write(buf); err != nil {
			d.inconclusive("write to router: " + err.Error())
			return
		}
		for _, p := range pdus {
			o, ok := d.take(roaRTR, host)
			if !ok {
				return
			}
			d.applyPDU(host, p, o)
		}
		return
	}
	for _, p := range pdus {
		if !d.post(&roaEvent{EventType: roaRTR, Src: host, Data: p.data}) {
			return
		}
		o, ok := d.take(roaRTR, host)
		if !ok {
			return
		}
		d.applyPDU(host, p, o)
	}
}

func c16DescribePDU(p c16PDU) string {
	switch {
	case strings.HasPrefix(p.kind, "announce"), strings.HasPrefix(p.kind, "withdraw"), p.kind == "bad-maxlen-prefix":
		return p.kind + " " + p.r.String()
	case p.kind == "cache-response":
		return fmt.Sprintf("cache-response sid=%d", p.sid)
	case p.kind == "end-of-data", p.kind == "serial-notify", p.kind == "serial-query":
		return fmt.Sprintf("%s sid=%d serial=%d", p.kind, p.sid, p.serial)
	}
	return p.kind
}

// onDisconnected accounts for a handled roaDisconnected event.
func (d *c16Drv) onDisconnected(host string, o c16Obs) {
	d.rec.Count("ev_disconnected", 1)
	cm := d.model[host]
	if cm == nil || !o.known {
		return
	}
	cm.disconnect()
	if o.timer != nil {
		d.timers = append(d.timers, &c16Timer{t: o.timer, client: o.client, host: host, cm: cm})
	}
}

// awaitConnect (tcp): gobgp's tryConnect dials the listener, the loop handles roaConnected, the
// established goroutine sends its Reset Query.
func (d *c16Drv) awaitConnect(host string) {
	c := d.caches[host]
	if d.broken || c == nil {
		return
	}
	tm := time.NewTimer(c16Wait)
	defer tm.Stop()
	select {
	case conn := <-c.acceptCh:
		c.conn = conn
	case <-tm.C:
		d.inconclusive("router did not connect to " + host)
		return
	}
	c.queries = make(chan byte, 256)
	go c16ReadQueries(c.conn, c.queries)
	if _, ok := d.take(roaConnected, host); !ok {
		return
	}
	select {
	case q, ok := <-c.queries:
		if !ok || q != rtr.RTR_RESET_QUERY {
			// RFC 8210 also allows a Serial Query here; gobgp documents a Reset Query. Nothing to refute.
			d.inconclusive(fmt.Sprintf("first PDU from router on a new connection: type %d ok=%v", q, ok))
			return
		}
	case <-tm.C:
		d.inconclusive("router sent no query after connecting to " + host)
		return
	}
	d.logf("%s: router connected and sent Reset Query", host)
	d.rec.Count("ev_connected", 1)
	cm := d.model[host]
	if cm != nil {
		cm.connected = true
		cm.resetPoint()
		cm.lastResetQ = 1
	}
	d.deliver(host, []c16PDU{c16Barrier()})
}

// dropConn (tcp): the cache side closes; flap=true keeps the listener so the router reconnects.
func (d *c16Drv) dropConn(host string, flap bool) {
	c := d.caches[host]
	if d.broken || c == nil || c.conn == nil {
		return
	}
	if !flap && !c.lnClosed {
		c.ln.Close()
		c.lnClosed = true
	}
	d.logf("%s: cache closes the connection (listener up: %v)", host, !c.lnClosed)
	c.conn.Close()
	c.conn = nil
	o, ok := d.take(roaDisconnected, host)
	if !ok {
		return
	}
	d.onDisconnected(host, o)
	if !c.lnClosed && o.known {
		d.awaitConnect(host)
	}
}

// routerClosed (tcp): gobgp closed the connection (Disable / DeleteServer); the event follows.
func (d *c16Drv) routerClosed(host string) {
	c := d.caches[host]
	if d.broken || c == nil || c.conn == nil {
		return
	}
	o, ok := d.take(roaDisconnected, host)
	if !ok {
		return
	}
	c.conn.Close()
	c.conn = nil
	d.onDisconnected(host, o)
	if o.known && !c.lnClosed {
		d.awaitConnect(host)
	}
}

func (d *c16Drv) wbDisconnect(host string) {
	d.logf("%s: roaDisconnected event", host)
	if !d.post(&roaEvent{EventType: roaDisconnected, Src: host}) {
		return
	}
	if o, ok := d.take(roaDisconnected, host); ok {
		d.onDisconnected(host, o)
	}
}

// fire lets a lifetime timer that is still pending expire now.
func (d *c16Drv) fire(t *c16Timer) {
	if d.broken || t.dead {
		return
	}
	// timers expire in the order they were armed (same clock): older pending ones go first
	for _, o := range d.timers {
		if o == t {
			break
		}
		if !o.dead {
			d.fire(o)
		}
	}
	if d.broken {
		return
	}
	t.dead = true
	if !t.t.Stop() {
		d.rec.Count("timer_already_cancelled", 1)
		return // gobgp cancelled it (or it is gone): it can no longer fire
	}
	d.logf("%s: pending lifetime timer expires (cache re-synchronised since it was armed: %v, cache still configured: %v)", t.host, t.synced, d.model[t.host] == t.cm)
	go t.client.lifetimeout()
	if _, ok := d.take(roaLifetimeout, t.host); !ok {
		return
	}
	d.rec.Count("ev_lifetime_expiry", 1)
	d.lastTimer = t
	switch {
	case d.model[t.host] != t.cm:
		d.lastForeign = true // the cache the timer belonged to was removed: nothing may change
	case t.synced:
		d.lastSynced = true // the cache re-synchronised after the disconnect: nothing may change
	default:
		t.cm.allToLimbo() // data of a cache that has been away for the record lifetime may be dropped
	}
}

func (d *c16Drv) addServer(host string, lifetime int64) {
	d.mu.Lock()
	var err error
	p := d.rec.Guard("c16:AddServer", func() any { return d.witness() }, func() { err = d.m.AddServer(host, lifetime) })
	d.mu.Unlock()
	d.logf("AddServer(%s) -> %v", host, err)
	if p {
		d.broken, d.violated = true, true
		return
	}
	d.rec.Count("mgmt_add_server", 1)
	if _, dup := d.model[host]; dup {
		if err == nil {
			d.rec.Violation("c16:rtr:AddServer-duplicate-accepted", "AddServer of an already configured cache returned no error", d.witness())
			d.violated = true
		}
		return
	}
	if err != nil {
		d.rec.Violation("c16:rtr:AddServer-refused", fmt.Sprintf("AddServer(%s) of an unconfigured cache failed: %v", host, err), d.witness())
		d.violated = true
		return
	}
	addr, _, _ := net.SplitHostPort(host)
	d.model[host] = c16NewCacheM(host, addr)
	if d.tcp && d.caches[host] != nil && !d.caches[host].lnClosed {
		d.awaitConnect(host)
	}
}

func (d *c16Drv) deleteServer(host string) {
	d.mu.Lock()
	var err error
	connected := false
	if c, ok := d.m.clientMap[host]; ok {
		connected = c.conn != nil
	}
	p := d.rec.Guard("c16:DeleteServer", func() any { return d.witness() }, func() { err = d.m.DeleteServer(host) })
	d.mu.Unlock()
	d.logf("DeleteServer(%s) -> %v", host, err)
	if p {
		d.broken, d.violated = true, true
		return
	}
	d.rec.Count("mgmt_delete_server", 1)
	if _, ok := d.model[host]; !ok {
		if err == nil {
			d.rec.Violation("c16:rtr:DeleteServer-unknown-accepted", "DeleteServer of an unknown cache returned no error", d.witness())
			d.violated = true
		}
		return
	}
	if err != nil {
		d.rec.Violation("c16:rtr:DeleteServer-refused", fmt.Sprintf("DeleteServer(%s) of a configured cache failed: %v", host, err), d.witness())
		d.violated = true
		return
	}
	delete(d.model, host)
	if d.tcp && connected {
		d.routerClosed(host)
	}
}

// byAddress runs Enable / Disable (= Reset) / SoftReset, which take a bare address.
func (d *c16Drv) byAddress(op, addr string) {
	var targets []*c16CacheM
	for _, cm := range d.model {
		if cm.addr == addr {
			targets = append(targets, cm)
		}
	}
	if len(targets) > 1 {
		return // two caches share the address: which one is meant is not defined by the API
	}
	d.mu.Lock()
	var err error
	connected := false
	if len(targets) == 1 {
		if c, ok := d.m.clientMap[targets[0].host]; ok {
			connected = c.conn != nil
		}
	}
	p := d.rec.Guard("c16:"+op, func() any { return d.witness() }, func() {
		switch op {
		case "Enable":
			err = d.m.Enable(addr)
		case "Disable":
			err = d.m.Disable(addr)
		case "Reset":
			err = d.m.Reset(addr)
		case "SoftReset":
			err = d.m.SoftReset(addr)
		}
	})
	d.mu.Unlock()
	d.logf("%s(%s) -> %v", op, addr, err)
	if p {
		d.broken, d.violated = true, true
		return
	}
	d.rec.Count("mgmt_"+op, 1)
	if len(targets) == 0 {
		if err == nil {
			d.rec.Violation("c16:rtr:"+op+"-unknown-accepted", op+" of an unknown cache address returned no error", d.witness())
			d.violated = true
		}
		return
	}
	cm := targets[0]
	switch op {
	case "SoftReset":
		cm.allToLimbo() // operator asked for a reload: dropping the data at once is admissible
	case "Disable", "Reset":
		had := len(cm.recs)
		cm.allToLimbo() // hard reset: same
		if had > 0 {    // evidence only: does the hard reset drop the cache's records (it deletes by bare address)?
			d.mu.Lock()
			left := 0
			if l, err := d.tbl.List(bgp.Family(0)); err == nil {
				for _, x := range l {
					if x.Src == cm.host {
						left++
					}
				}
			}
			d.mu.Unlock()
			if left > 0 {
				d.rec.Count("obs_hard_reset_left_records_in_table", 1)
			} else {
				d.rec.Count("obs_hard_reset_flushed_records", 1)
			}
		}
		if d.tcp && connected {
			d.noteAllResets()
			d.routerClosed(cm.host)
			return
		}
	}
	d.noteAllResets()
}

// ---- comparison

func c16ROAKey(r *table.ROA) c16R {
	ones, _ := r.Network.Mask.Size()
	a, _ := netip.AddrFromSlice(r.Network.IP)
	return c16R{pfx: netip.PrefixFrom(a, ones), maxLen: r.MaxLen, as: r.AS}
}

func (d *c16Drv) compare() {
	if d.broken {
		return
	}
	d.mu.Lock()
	var list []*table.ROA
	var servers map[string][2]uint32
	p := d.rec.Guard("c16:List", func() any { return d.witness() }, func() {
		list, _ = d.tbl.List(bgp.Family(0))
		servers = map[string][2]uint32{}
		for _, s := range d.m.GetServers() {
			servers[net.JoinHostPort(s.Config.Address.String(), fmt.Sprint(s.Config.Port))] = [2]uint32{s.State.RecordsV4, s.State.RecordsV6}
		}
	})
	d.mu.Unlock()
	if p {
		d.broken, d.violated = true, true
		return
	}
	d.rec.Count("compares", 1)
	bySrc := map[string]map[c16R]int{}
	var flat []string
	for _, r := range list {
		if bySrc[r.Src] == nil {
			bySrc[r.Src] = map[c16R]int{}
		}
		k := c16ROAKey(r)
		bySrc[r.Src][k]++
		flat = append(flat, r.Src+" "+k.String())
	}
	sort.Strings(flat)
	if cur := strings.Join(flat, "\n"); cur != d.prevTable {
		d.prevTable = cur
		d.changes++
		d.rec.Count("table_changes", 1)
	}
	after := d.lastKind
	fail := func(key, what string, extra map[string]any) {
		w := d.witness()
		for k, v := range extra {
			w[k] = v
		}
		w["table"] = flat
		d.rec.Violation(key, what, w)
		d.violated = true
	}
	for src, recs := range bySrc {
		if _, ok := d.model[src]; !ok {
			if d.orphans[src] {
				continue // already reported for this case
			}
			d.orphans[src] = true
			key := "c16:rtr:records-of-unconfigured-cache:after-" + after
			fail(key, fmt.Sprintf("the table holds %d record(s) of %s, which is not (or no longer) a configured cache", len(recs), src), map[string]any{"source": src})
		}
	}
	for host, cm := range d.model {
		got := bySrc[host]
		must, may := cm.bounds()
		var missing, extra, dups []string
		for r := range must {
			if got[r] == 0 {
				missing = append(missing, r.String())
			}
		}
		onlyAW := true
		for r, n := range got {
			if n > 1 {
				dups = append(dups, r.String())
			}
			if !may[r] {
				extra = append(extra, r.String())
				if !cm.awLost[r] {
					onlyAW = false
				}
			}
		}
		sort.Strings(missing)
		sort.Strings(extra)
		if len(dups) > 0 {
			fail("c16:rtr:duplicate-records", fmt.Sprintf("cache %s: records listed more than once: %v", host, dups), nil)
		}
		if len(missing) > 0 {
			key := "c16:rtr:records-missing:after-" + after
			what := fmt.Sprintf("cache %s: announced and not withdrawn, but not in the table after %s: %v", host, after, missing)
			if after == "lifetime-expiry" && d.lastSynced {
				key = "c16:rtr:lifetime-timer-not-cancelled:flushes-resynchronised-cache"
				what = fmt.Sprintf("cache %s re-synchronised (End of Data) after the disconnect that armed a lifetime timer; an earlier timer of the same cache still expired and flushed its records: %v", host, missing)
			} else if after == "lifetime-expiry" && d.lastForeign {
				key = "c16:rtr:lifetime-timer-not-cancelled:after-DeleteServer"
				what = fmt.Sprintf("the lifetime timer of a removed cache expired and flushed the records of the re-added cache %s: %v", host, missing)
			}
			fail(key, what, map[string]any{"cache": host, "missing": missing, "must": c16SortedRecs(must), "may": c16SortedRecs(may)})
		}
		if len(extra) > 0 {
			key := "c16:rtr:unexpected-records:after-" + after
			what := fmt.Sprintf("cache %s: in the table after %s although withdrawn / flushed / never committed: %v", host, after, extra)
			if onlyAW {
				key = "c16:rtr:withdraw-after-announce-in-one-response-ignored"
				what = fmt.Sprintf("cache %s announced and then withdrew %v between one Cache Response and its End of Data; the withdrawal was applied before the buffered announcement, so the record is in the table", host, extra)
			}
			fail(key, what, map[string]any{"cache": host, "unexpected": extra, "must": c16SortedRecs(must), "may": c16SortedRecs(may)})
		}
		// evidence: what gobgp does where the property leaves a choice
		nl := 0
		for r := range cm.limbo {
			if got[r] > 0 {
				nl++
			}
		}
		if cm.reloadDone && !cm.open {
			d.rec.Count("obs_stale_records_kept_after_same_session_reload", nl)
			cm.reloadDone = false
		}
		d.rec.Count("obs_optional_records_present", nl)
		d.rec.Count("obs_optional_records_absent", len(cm.limbo)-nl)
		// ListRpki view: per-server record counters, when the model pins them down
		if len(missing) == 0 && len(extra) == 0 && len(dups) == 0 && cm.exact() {
			d.rec.Count("compares_exact", 1)
			var v4, v6 uint32
			for r := range must {
				if r.pfx.Addr().Is4() {
					v4++
				} else {
					v6++
				}
			}
			if s, ok := servers[host]; !ok {
				fail("c16:rtr:GetServers-lacks-configured-cache", "GetServers does not list configured cache "+host, nil)
			} else if s != [2]uint32{v4, v6} {
				fail("c16:rtr:GetServers-record-counters", fmt.Sprintf("cache %s: GetServers reports %d IPv4 / %d IPv6 records, the cache has %d / %d", host, s[0], s[1], v4, v6), nil)
			}
		}
		if len(missing) > 0 || len(extra) > 0 {
			// follow gobgp from here so that one defect is reported once
			cm.recs, cm.limbo = map[c16R]bool{}, map[c16R]bool{}
			for r := range got {
				cm.recs[r] = true
			}
		}
		cm.awLost = map[c16R]bool{}
	}
	d.lastSynced, d.lastForeign = false, false
}

// ---------------------------------------------------------------- case generator

var c16WBHosts = []string{"127.0.0.1:1", "127.0.0.1:2", "127.0.0.2:1", "[::1]:1"}

var c16RecPrefixes = []string{"10.0.0.0/8", "10.0.0.0/16", "10.0.0.0/24", "2001:db8::/48", "10.1.0.0/16", "10.1.2.0/24", "10.1.2.0/24", "192.168.0.0/16", "0.0.0.0/0", "203.0.113.7/32",
	"2001:db8::/32", "2001:db8:1::/48", "2001:db8:1::/48", "::/0", "2001:db8::1/128"}

func c16RecPool(r *rand.Rand) []c16R {
	n := 4 + r.IntN(7)
	var out []c16R
	for len(out) < n {
		p := netip.MustParsePrefix(c16Pick(r, c16RecPrefixes))
		ml := p.Bits()
		if r.IntN(2) == 0 {
			ml += r.IntN(p.Addr().BitLen() - p.Bits() + 1)
		}
		out = append(out, c16R{pfx: p, maxLen: uint8(ml), as: c16Pick(r, []uint32{0, 65001, 65001, 65002, 4200000001, c16APILocalAS})})
	}
	return out
}

// c16NearMiss derives a record that differs from x in exactly one field: same base address with
// another prefix length (max-length and AS kept whenever the PDU stays well-formed), same prefix
// with another max-length, or same prefix with another AS. Withdrawing such a record must leave x
// alone, whether x is installed or still buffered.
func c16NearMiss(r *rand.Rand, x c16R) c16R {
	top := x.pfx.Addr().BitLen()
	y := x
	switch r.IntN(4) {
	case 0, 1:
		for tries := 0; tries < 8; tries++ {
			nb := r.IntN(top + 1)
			if int(x.maxLen) > x.pfx.Bits() && r.IntN(3) != 0 {
				nb = x.pfx.Bits() + 1 + r.IntN(int(x.maxLen)-x.pfx.Bits()) // longer, max-length still fits
			}
			p := netip.PrefixFrom(x.pfx.Addr(), nb)
			if nb == x.pfx.Bits() || p.Masked().Addr() != x.pfx.Addr() {
				continue
			}
			y.pfx = p
			if int(y.maxLen) < nb {
				y.maxLen = uint8(nb)
			}
			return y
		}
		fallthrough
	case 2:
		if x.pfx.Bits() == top {
			y.as = x.as + 1
			return y
		}
		for y.maxLen == x.maxLen {
			y.maxLen = uint8(x.pfx.Bits() + r.IntN(top-x.pfx.Bits()+1))
		}
	default:
		y.as = c16Pick(r, []uint32{x.as + 1, 0, 65001, 65002, 4200000001})
		if y.as == x.as {
			y.as = x.as + 7
		}
	}
	return y
}

func c16RTRCase(rec *vlib.Rec, idx int) {
	r := vlib.CaseRand("c16rtr", idx)
	rec.Eval()
	d := &c16Drv{rec: rec, idx: idx, tcp: r.IntN(5) < 2, prog: make(chan struct{}, 1), stop: make(chan struct{}), pdone: make(chan struct{}),
		caches: map[string]*c16Cache{}, model: map[string]*c16CacheM{}, sent: map[string][]c16PDU{}, orphans: map[string]bool{}}
	d.tbl = table.NewROATable(c16Logger())
	d.m = newROAManager(d.tbl, c16Logger())
	rec.Mark(fmt.Sprintf("c16 rtr case %d", idx), false)
	go d.pump()

	ncache := 1 + r.IntN(3)
	ar := vlib.CaseRand("c16addr", idx)
	var hosts []string
	sim := map[string]*c16Cache{} // cache-side session id / serial, both transports
	if d.tcp {
		rec.Count("seq_tcp", 1)
		for i := 0; i < ncache; i++ {
			la := c16Pick(r, []string{"", "", "same", "v6"})
			if la == "same" { // same address as another cache, other port
				la = ""
				if len(hosts) > 0 {
					la = d.caches[hosts[len(hosts)-1]].addr
				}
			}
			ln, err := c16Listen(ar, la)
			if err != nil {
				d.inconclusive("listen " + la + ": " + err.Error())
				break
			}
			h := ln.Addr().String()
			a, _, _ := net.SplitHostPort(h)
			c := &c16Cache{host: h, addr: a, ln: ln, acceptCh: make(chan net.Conn, 16)}
			go c.acceptLoop()
			d.caches[h] = c
			sim[h] = c
			hosts = append(hosts, h)
		}
	} else {
		rec.Count("seq_wb", 1)
		perm := r.Perm(len(c16WBHosts))
		for i := 0; i < ncache; i++ {
			h := c16WBHosts[perm[i]]
			a, _, _ := net.SplitHostPort(h)
			sim[h] = &c16Cache{host: h, addr: a}
			hosts = append(hosts, h)
		}
	}
	for _, h := range hosts {
		sim[h].sid = uint16(c16Pick(r, []int{0, 1, 7, 4242, 65535}))
		sim[h].serial = uint32(c16Pick(r, []int{0, 1, 100, 0x7fffffff, 0xfffffffe}))
	}
	pool := c16RecPool(r)
	known := map[string][]c16R{} // what each cache believes it has announced (for aimed withdrawals)

	for _, h := range hosts {
		d.lastKind = "AddServer"
		d.addServer(h, c16Pick(r, []int64{0, 3600, 86400}))
		d.compare()
	}

	usable := func() []string { // caches PDUs can be delivered for
		var out []string
		for _, h := range hosts {
			if d.model[h] == nil {
				continue
			}
			if d.tcp && (d.caches[h] == nil || d.caches[h].conn == nil) {
				continue
			}
			out = append(out, h)
		}
		return out
	}
	prefixPDU := func(h string, announce bool) c16PDU {
		x := c16Pick(r, pool)
		if !announce && len(known[h]) > 0 && r.IntN(4) != 0 {
			x = c16Pick(r, known[h])
		}
		if len(known[h]) > 0 && r.IntN(4) == 0 { // differs in one field from something this cache announced
			x = c16NearMiss(r, c16Pick(r, known[h]))
			rec.Count("pdu_near_miss_of_announced_record", 1)
		}
		if announce {
			known[h] = append(known[h], x)
		}
		return c16PrefixPDU(x, announce)
	}
	// withNearMiss follows an announcement (still buffered until End of Data) by the withdrawal of
	// a record that shares all but one field with it.
	withNearMiss := func(ps []c16PDU, odds int) []c16PDU {
		if last := ps[len(ps)-1]; strings.HasPrefix(last.kind, "announce") && r.IntN(odds) == 0 {
			rec.Count("pdu_near_miss_withdraw_of_pending", 1)
			ps = append(ps, c16PrefixPDU(c16NearMiss(r, last.r), false))
		}
		return ps
	}
	nsteps := 8 + r.IntN(40)
	for step := 0; step < nsteps && !d.broken; step++ {
		us := usable()
		k := r.IntN(100)
		var h string
		if len(us) > 0 {
			h = c16Pick(r, us)
		}
		c := sim[h]
		kind := ""
		switch {
		case k < 16 && h != "": // complete response (as after a Reset Query)
			kind = "full-response"
			var ps []c16PDU
			ps = append(ps, c16PDU{kind: "cache-response", sid: c.sid, data: c16Ser(rtr.NewRTRCacheResponse(c.sid))})
			for i := r.IntN(6); i > 0; i-- {
				ps = withNearMiss(append(ps, prefixPDU(h, true)), 6)
			}
			c.serial++
			ps = append(ps, c16PDU{kind: "end-of-data", sid: c.sid, serial: c.serial, data: c16Ser(rtr.NewRTREndOfData(c.sid, c.serial))})
			d.deliver(h, ps)
		case k < 32 && h != "": // incremental response (as after a Serial Query)
			kind = "incremental-response"
			var ps []c16PDU
			ps = append(ps, c16PDU{kind: "cache-response", sid: c.sid, data: c16Ser(rtr.NewRTRCacheResponse(c.sid))})
			for i := r.IntN(5); i > 0; i-- {
				ps = withNearMiss(append(ps, prefixPDU(h, r.IntN(2) == 0)), 3)
			}
			c.serial++
			ps = append(ps, c16PDU{kind: "end-of-data", sid: c.sid, serial: c.serial, data: c16Ser(rtr.NewRTREndOfData(c.sid, c.serial))})
			d.deliver(h, ps)
		case k < 42 && h != "":
			kind = "announce"
			d.deliver(h, []c16PDU{prefixPDU(h, true)})
		case k < 50 && h != "":
			kind = "withdraw"
			d.deliver(h, []c16PDU{prefixPDU(h, false)})
		case k < 54 && h != "":
			kind = "cache-response"
			d.deliver(h, []c16PDU{{kind: "cache-response", sid: c.sid, data: c16Ser(rtr.NewRTRCacheResponse(c.sid))}})
		case k < 59 && h != "":
			kind = "end-of-data"
			if r.IntN(3) == 0 {
				c.serial++
			}
			d.deliver(h, []c16PDU{{kind: "end-of-data", sid: c.sid, serial: c.serial, data: c16Ser(rtr.NewRTREndOfData(c.sid, c.serial))}})
		case k < 62 && h != "": // the cache restarted: new session id
			kind = "new-session"
			c.sid += uint16(1 + r.IntN(3))
			c.serial = uint32(r.IntN(5))
			known[h] = nil
			var ps []c16PDU
			if r.IntN(2) == 0 {
				ps = append(ps, c16PDU{kind: "cache-response", sid: c.sid, data: c16Ser(rtr.NewRTRCacheResponse(c.sid))})
				for i := r.IntN(4); i > 0; i-- {
					ps = append(ps, prefixPDU(h, true))
				}
			}
			ps = append(ps, c16PDU{kind: "end-of-data", sid: c.sid, serial: c.serial, data: c16Ser(rtr.NewRTREndOfData(c.sid, c.serial))})
			d.deliver(h, ps)
		case k < 65 && h != "":
			kind = "cache-reset"
			d.deliver(h, []c16PDU{{kind: "cache-reset", data: c16Ser(rtr.NewRTRCacheReset())}})
		case k < 69 && h != "":
			kind = "serial-notify"
			sn := c.serial + uint32(c16Pick(r, []int{0, 1, 1, 2, -1, -2, 0x40000000}))
			d.deliver(h, []c16PDU{{kind: "serial-notify", sid: c.sid, serial: sn, data: c16Ser(rtr.NewRTRSerialNotify(c.sid, sn))}})
		case k < 71 && h != "":
			kind = "error-report"
			d.deliver(h, []c16PDU{{kind: "error-report", data: c16Ser(rtr.NewRTRErrorReport(uint16(r.IntN(9)), nil, []byte("x")))}})
		case k < 73 && h != "": // PDUs only a router sends, unknown type, truncated / inconsistent prefix PDUs
			kind = "noise"
			x := c16Pick(r, pool)
			bad := c16PrefixPDU(x, true)
			bad.kind = "bad-maxlen-prefix"
			bad.data[10] = 0
			if x.pfx.Bits() == 0 {
				bad.data[9] = 8
			}
			bad.r.maxLen = 0
			d.deliver(h, []c16PDU{c16Pick(r, []c16PDU{
				{kind: "serial-query", sid: c.sid, serial: c.serial, data: c16Ser(rtr.NewRTRSerialQuery(c.sid, c.serial))},
				{kind: "reset-query", data: c16Ser(rtr.NewRTRResetQuery())},
				c16Barrier(),
				{kind: "truncated-prefix", data: c16RawHeader(rtr.RTR_IPV4_PREFIX, 0, 12, []byte{1, 8, 8, 0})},
				bad,
			})})
		case k < 76 && h != "": // the cache restarts: connection lost, new session id, fewer records than before
			kind = "cache-restart"
			if d.tcp {
				d.dropConn(h, true)
				if d.caches[h] == nil || d.caches[h].conn == nil {
					break
				}
			} else {
				d.wbDisconnect(h)
			}
			c.sid += uint16(1 + r.IntN(3))
			c.serial = uint32(r.IntN(5))
			var keep []c16R
			for _, x := range known[h] {
				if r.IntN(2) == 0 {
					keep = append(keep, x)
				}
			}
			known[h] = nil
			ps := []c16PDU{{kind: "cache-response", sid: c.sid, data: c16Ser(rtr.NewRTRCacheResponse(c.sid))}}
			for _, x := range keep {
				known[h] = append(known[h], x)
				ps = append(ps, c16PrefixPDU(x, true))
			}
			if r.IntN(3) == 0 {
				ps = append(ps, prefixPDU(h, true))
			}
			ps = append(ps, c16PDU{kind: "end-of-data", sid: c.sid, serial: c.serial, data: c16Ser(rtr.NewRTREndOfData(c.sid, c.serial))})
			d.deliver(h, ps)
		case k < 79: // connection loss
			kind = "disconnect"
			if d.tcp {
				if h == "" {
					continue
				}
				d.dropConn(h, r.IntN(10) < 7)
			} else {
				var cfg []string
				for _, x := range hosts {
					if d.model[x] != nil {
						cfg = append(cfg, x)
					}
				}
				if len(cfg) == 0 {
					continue
				}
				d.wbDisconnect(c16Pick(r, cfg))
			}
		case k < 85: // a lifetime timer armed by some earlier disconnect expires
			var live []*c16Timer
			for _, t := range d.timers {
				if !t.dead {
					live = append(live, t)
				}
			}
			if len(live) == 0 {
				continue
			}
			kind = "lifetime-expiry"
			d.fire(c16Pick(r, live))
		case k < 88:
			kind = "DeleteServer"
			x := c16Pick(r, hosts)
			if r.IntN(6) == 0 {
				x = "198.51.100.9:323"
			}
			d.deleteServer(x)
		case k < 92:
			kind = "AddServer"
			d.addServer(c16Pick(r, hosts), c16Pick(r, []int64{0, 3600}))
		case k < 95:
			kind = "SoftReset"
			d.byAddress("SoftReset", c16Pick(r, append([]string{"198.51.100.9"}, c16Addrs(sim, hosts)...)))
		case k < 97:
			kind = c16Pick(r, []string{"Disable", "Reset"})
			d.byAddress(kind, c16Pick(r, append([]string{"198.51.100.9"}, c16Addrs(sim, hosts)...)))
		case k < 98:
			kind = "Enable"
			d.byAddress("Enable", c16Pick(r, append([]string{"198.51.100.9"}, c16Addrs(sim, hosts)...)))
		default: // PDU attributed to a cache that is not configured (white box only)
			if d.tcp {
				continue
			}
			kind = "pdu-for-unconfigured-cache"
			x := "198.51.100.9:323"
			for _, y := range hosts {
				if d.model[y] == nil {
					x = y
				}
			}
			if d.model[x] != nil {
				continue
			}
			p := c16PrefixPDU(c16Pick(r, pool), true)
			d.logf("%s <- %s (not configured)", x, c16DescribePDU(p))
			if d.post(&roaEvent{EventType: roaRTR, Src: x, Data: p.data}) {
				if o, ok := d.take(roaRTR, x); ok {
					d.applyPDU(x, p, o)
				}
			}
		}
		if kind == "" {
			continue
		}
		d.lastKind = kind
		d.kinds = append(d.kinds, kind)
		rec.Count("step_"+kind, 1)
		d.compare()
	}

	// ---- tear down: removing every cache must leave an empty table
	if !d.broken {
		for _, h := range hosts {
			if d.model[h] != nil {
				d.lastKind = "DeleteServer"
				d.deleteServer(h)
			}
		}
		d.lastKind = "DeleteServer(all)"
		d.compare()
	}
	d.cleanup()
	if d.changes > 1 && !d.broken {
		mode := "wb:"
		if d.tcp {
			mode = "tcp:"
		}
		rec.Nontrivial("r:" + vlib.Hash(mode+strings.Join(d.kinds, ",")))
	}
	if idx%499 == 0 {
		rec.Sample(map[string]any{"case": idx, "unit": "rtr", "tcp": d.tcp, "caches": hosts, "steps": d.kinds, "table_changes": d.changes})
	}
}

func c16Addrs(sim map[string]*c16Cache, hosts []string) []string {
	var out []string
	for _, h := range hosts {
		out = append(out, sim[h].addr)
	}
	return out
}

// cleanup stops everything the case started (infrastructure; no oracle here).
func (d *c16Drv) cleanup() {
	d.mu.Lock()
	for h, c := range d.m.clientMap {
		c.stop()
		delete(d.m.clientMap, h)
	}
	d.mu.Unlock()
	for _, t := range d.timers {
		t.t.Stop()
	}
	for _, c := range d.caches {
		if !c.lnClosed {
			c.ln.Close()
			c.lnClosed = true
		}
		if c.conn != nil {
			c.conn.Close()
		}
	drain:
		for {
			select {
			case conn := <-c.acceptCh:
				conn.Close()
			default:
				break drain
			}
		}
	}
	if !d.broken {
		close(d.stop)
		<-d.pdone
		return
	}
	// let goroutines blocked on eventCh (disconnect notifications of stopped clients) finish
	tm := time.NewTimer(200 * time.Millisecond)
	idle := time.NewTimer(5 * time.Millisecond)
	defer tm.Stop()
	for done := false; !done; {
		select {
		case <-d.prog:
			if !idle.Stop() {
				select {
				case <-idle.C:
				default:
				}
			}
			idle.Reset(5 * time.Millisecond)
		case <-idle.C:
			done = true
		case <-tm.C:
			done = true
		}
	}
	close(d.stop)
	<-d.pdone
}
