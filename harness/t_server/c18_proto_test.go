package server

// C18 (unit server) helpers over protobuf reflection.

import (
	"fmt"
	"regexp"
	"sort"
	"strings"

	"google.golang.org/protobuf/encoding/protojson"
	"google.golang.org/protobuf/proto"
	"google.golang.org/protobuf/reflect/protoreflect"
)

func c18JSON(m proto.Message) string {
	if m == nil {
		return "null"
	}
	b, err := protojson.MarshalOptions{}.Marshal(m)
	if err != nil {
		return "protojson: " + err.Error()
	}
	s := string(b)
	if len(s) > 4000 {
		s = s[:4000] + "..."
	}
	return s
}

// c18Subset checks "what was configured is read back": every field populated in want (proto3:
// different from its default) must have the same value in got. Fields want leaves unset are not
// compared (the server may fill in defaults there). Repeated fields populated in want must have the
// same length in got and agree element by element; unordered names the repeated fields (by
// "Message.field") that are compared as multisets. It returns the (abstracted) paths that differ:
//   <path>:lost    populated in want, unset in got      <path>:value  another value
//   <path>:count   another number of elements
func c18Subset(want, got proto.Message, unordered map[string]bool, ignore *regexp.Regexp) []string {
	var out []string
	var walk func(w, g protoreflect.Message, path string)
	walk = func(w, g protoreflect.Message, path string) {
		w.Range(func(fd protoreflect.FieldDescriptor, wv protoreflect.Value) bool {
			name := path + "." + string(fd.Name())
			if ignore != nil && ignore.MatchString(name) {
				return true
			}
			if !g.Has(fd) {
				out = append(out, name+":lost")
				return true
			}
			gv := g.Get(fd)
			switch {
			case fd.IsList():
				wl, gl := wv.List(), gv.List()
				if wl.Len() != gl.Len() {
					out = append(out, name+":count")
					return true
				}
				if unordered[string(w.Descriptor().Name())+"."+string(fd.Name())] {
					key := func(v protoreflect.Value) string {
						if fd.Kind() == protoreflect.MessageKind {
							b, _ := proto.MarshalOptions{Deterministic: true}.Marshal(v.Message().Interface())
							return string(b)
						}
						return v.String()
					}
					var a, b []string
					for i := 0; i < wl.Len(); i++ {
						a = append(a, key(wl.Get(i)))
						b = append(b, key(gl.Get(i)))
					}
					sort.Strings(a)
					sort.Strings(b)
					if strings.Join(a, "\x00") != strings.Join(b, "\x00") {
						out = append(out, name+"[]:value")
					}
					return true
				}
				for i := 0; i < wl.Len(); i++ {
					if fd.Kind() == protoreflect.MessageKind {
						walk(wl.Get(i).Message(), gl.Get(i).Message(), name+"[]")
					} else if !wl.Get(i).Equal(gl.Get(i)) {
						out = append(out, name+"[]:value")
						break
					}
				}
			case fd.IsMap():
				// (no map fields in the configuration messages)
			case fd.Kind() == protoreflect.MessageKind:
				walk(wv.Message(), gv.Message(), name)
			default:
				if !wv.Equal(gv) {
					out = append(out, name+":value")
				}
			}
			return true
		})
	}
	walk(want.ProtoReflect(), got.ProtoReflect(), "")
	seen := map[string]bool{}
	var res []string
	for _, d := range out {
		if !seen[d] {
			seen[d] = true
			res = append(res, d)
		}
	}
	sort.Strings(res)
	return res
}

// c18Mask renders which fields of m are populated (field numbers, nested): the distinctness key
// of a read-back case.
func c18Mask(m proto.Message) string {
	var sb strings.Builder
	var walk func(pm protoreflect.Message, depth int)
	walk = func(pm protoreflect.Message, depth int) {
		if depth > 6 {
			return
		}
		type fv struct {
			fd protoreflect.FieldDescriptor
			v  protoreflect.Value
		}
		var fs []fv
		pm.Range(func(fd protoreflect.FieldDescriptor, v protoreflect.Value) bool {
			fs = append(fs, fv{fd, v})
			return true
		})
		sort.Slice(fs, func(i, j int) bool { return fs[i].fd.Number() < fs[j].fd.Number() })
		sb.WriteByte('{')
		for _, f := range fs {
			fmt.Fprintf(&sb, "%d", f.fd.Number())
			switch {
			case f.fd.IsList():
				n := f.v.List().Len()
				if n > 2 {
					n = 2
				}
				fmt.Fprintf(&sb, "[%d]", n)
				if f.fd.Kind() == protoreflect.MessageKind {
					for i := 0; i < f.v.List().Len() && i < 2; i++ {
						walk(f.v.List().Get(i).Message(), depth+1)
					}
				}
			case f.fd.Kind() == protoreflect.MessageKind && !f.fd.IsMap():
				walk(f.v.Message(), depth+1)
			}
			sb.WriteByte(',')
		}
		sb.WriteByte('}')
	}
	walk(m.ProtoReflect(), 0)
	return sb.String()
}
