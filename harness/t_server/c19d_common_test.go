package server

// C19 (daemon-level half) — the MRT files written by EnableMrt and the byte stream a BMP station
// receives parse back to the peers, routes and attributes that ListPeer / ListPath report and that
// the scripted speakers really sent.
//
// This file: what the MRT part (c19d_mrt_test.go, virtual time) and the BMP part
// (c19d_bmp_test.go, real time: the BMP client dials TCP) share — peer generation, a tap on the
// speaker side of every pipe (the exact bytes that crossed the wire in both directions), UPDATE
// generation with known bytes, and the canonical attribute form used by every comparison.

import (
	"context"
	"encoding/hex"
	"fmt"
	"math/rand/v2"
	"net"
	"net/netip"
	"sort"
	"strings"
	"sync"
	"testing/synctest"
	"time"

	"github.com/osrg/gobgp/v4/api"
	"github.com/osrg/gobgp/v4/internal/pkg/table"
	"github.com/osrg/gobgp/v4/internal/verif/vlib"
	"github.com/osrg/gobgp/v4/pkg/apiutil"
	"github.com/osrg/gobgp/v4/pkg/packet/bgp"
)

const (
	c19dLocal4   = "10.0.0.1"
	c19dLocal6   = "2001:db8:ffff::1"
	c19dRouterID = "1.1.1.1"
	c19dPeerPort = 40000
)

var c19dV4Pool = []string{"10.1.0.0/24", "10.1.1.0/24", "10.2.0.0/16", "10.3.3.0/25", "192.0.2.0/24", "10.1.0.0/25", "172.16.0.0/12", "198.51.100.128/26"}
var c19dV6Pool = []string{"2001:db8:1::/48", "2001:db8:2::/64", "2001:db8:1::/64", "2001:db8:a::/56"}

// ---------------------------------------------------------------- tap

// c19dTap sits on the speaker's end of the pipe and keeps every byte read from gobgp and every
// chunk written to it.
type c19dTap struct {
	net.Conn
	mu sync.Mutex
	rd []byte
	wr [][]byte
}

func (t *c19dTap) Read(b []byte) (int, error) {
	n, err := t.Conn.Read(b)
	if n > 0 {
		t.mu.Lock()
		t.rd = append(t.rd, b[:n]...)
		t.mu.Unlock()
	}
	return n, err
}

func (t *c19dTap) Write(b []byte) (int, error) {
	t.mu.Lock()
	t.wr = append(t.wr, append([]byte{}, b...))
	t.mu.Unlock()
	return t.Conn.Write(b)
}

// c19dSplitBGP cuts a byte stream into BGP messages (marker 16, length 2, type 1).
func c19dSplitBGP(b []byte) [][]byte {
	var out [][]byte
	for len(b) >= bgp.BGP_HEADER_LENGTH {
		l := int(b[16])<<8 | int(b[17])
		if l < bgp.BGP_HEADER_LENGTH || l > len(b) {
			break
		}
		out = append(out, b[:l])
		b = b[l:]
	}
	return out
}

// fromGobgp returns the messages gobgp wrote on this connection so far.
func (t *c19dTap) fromGobgp() [][]byte {
	t.mu.Lock()
	defer t.mu.Unlock()
	return c19dSplitBGP(append([]byte{}, t.rd...))
}

func (t *c19dTap) toGobgp() [][]byte {
	t.mu.Lock()
	defer t.mu.Unlock()
	out := make([][]byte, len(t.wr))
	copy(out, t.wr)
	return out
}

// ---------------------------------------------------------------- peers

type c19dPeerConf struct {
	Addr, Local, ID string
	AS              uint32
	Kind            simPeerKind
	V6Fam           bool // ipv6-unicast enabled as well
	APRecv          bool // gobgp accepts ADD-PATH from the peer (the speaker sends path ids)
	NoAS4           bool // the speaker does not announce the 4-octet AS capability
	CfgLocal        bool // transport local-address is configured in gobgp
}

func (c c19dPeerConf) shape() string {
	v := "4"
	if netip.MustParseAddr(c.Addr).Is6() {
		v = "6"
	}
	as := "as2"
	if c.AS > 65535 {
		as = "as4"
	}
	return fmt.Sprintf("%s/%s/%s/v6=%v/ap=%v/old=%v/cl=%v", c.Kind, v, as, c.V6Fam, c.APRecv, c.NoAS4, c.CfgLocal)
}

type c19dNLRI struct {
	Pfx netip.Prefix
	ID  uint32
}

// c19dSent is one UPDATE the speaker wrote (successfully) with the exact bytes.
type c19dSent struct {
	Raw   []byte
	Class string // announce / withdraw / mixed / end-of-rib / as-loop-only
	Seq   int    // global order over all peers
}

type c19dPeer struct {
	conf c19dPeerConf
	sp   *simSpeaker
	tap  *c19dTap
	taps []*c19dTap // one per connection attempt that reached the handshake
	held map[bgp.Family]map[c19dNLRI]bool
	sent []c19dSent
	up   bool
}

func (c c19dPeerConf) families() []bgp.Family {
	if c.V6Fam {
		return []bgp.Family{bgp.RF_IPv4_UC, bgp.RF_IPv6_UC}
	}
	return []bgp.Family{bgp.RF_IPv4_UC}
}

func (c c19dPeerConf) spec() simPeerSpec {
	return simPeerSpec{Kind: c.Kind, Addr: c.Addr, AS: c.AS, ID: c.ID, V6: c.V6Fam, APRecv: c.APRecv, Hold: 0,
		Extra: func(p *api.Peer) {
			if c.CfgLocal {
				p.Transport.LocalAddress = c.Local
			}
		},
		SpeakerMod: func(sc *simSpeakerConf) {
			sc.NoAS4 = c.NoAS4
			sc.Port = c19dPeerPort
		}}
}

// c19dGenPeers draws n neighbours. globalAS is gobgp's AS (2- or 4-octet).
func c19dGenPeers(r *rand.Rand, n int, globalAS uint32, allowRS bool) []c19dPeerConf {
	var out []c19dPeerConf
	for i := 0; i < n; i++ {
		c := c19dPeerConf{ID: fmt.Sprintf("%d.%d.%d.%d", 2+i, 2+i, 2+i, 2+i)}
		if r.IntN(3) == 0 {
			c.Addr, c.Local = fmt.Sprintf("2001:db8:ffff::%d", 2+i), c19dLocal6
		} else {
			c.Addr, c.Local = fmt.Sprintf("10.0.0.%d", 2+i), c19dLocal4
		}
		c.V6Fam = r.IntN(2) == 0
		c.APRecv = r.IntN(3) == 0
		c.CfgLocal = r.IntN(4) == 0
		switch k := r.IntN(10); {
		case k < 6:
			c.Kind = simEBGP
		case k < 9 || !allowRS:
			c.Kind = simIBGP
		default:
			c.Kind = simRSClient
		}
		old := r.IntN(3) == 0
		switch c.Kind {
		case simIBGP:
			c.AS = globalAS
			c.NoAS4 = old && globalAS <= 65535
		default:
			c.NoAS4 = old
			if !old && r.IntN(2) == 0 {
				c.AS = uint32(4200000100 + i)
			} else {
				c.AS = uint32(65001 + i)
			}
		}
		out = append(out, c)
	}
	return out
}

func c19dAddPeer(n *simNet, c c19dPeerConf) (*c19dPeer, error) {
	sp, err := n.addPeer(c.spec())
	if err != nil {
		return nil, err
	}
	return &c19dPeer{conf: c, sp: sp, held: map[bgp.Family]map[c19dNLRI]bool{}}, nil
}

// connect offers one inbound connection (from the peer's address to the matching local address)
// and runs the speaker's OPEN/KEEPALIVE exchange through a tap.
func (p *c19dPeer) connect(n *simNet) error {
	gside, mine := simPipe(p.conf.Local, p.conf.Addr, c19dPeerPort)
	tap := &c19dTap{Conn: mine}
	n.acceptCh <- gside
	if err := p.sp.handshake(tap); err != nil {
		return err
	}
	p.tap = tap
	p.taps = append(p.taps, tap)
	return nil
}

// bringUp establishes the session. Inside a synctest bubble quiescence is exact; outside
// (real time) the session state is polled with a bounded number of short sleeps.
func (p *c19dPeer) bringUp(n *simNet, bubble bool) error {
	var err error
	for i := 0; i < 40; i++ {
		if err = p.connect(n); err == nil {
			if bubble {
				synctest.Wait()
				if p.sp.established() {
					p.up = true
					return nil
				}
			} else {
				for j := 0; j < 2000; j++ {
					if p.sp.established() {
						p.up = true
						return nil
					}
					time.Sleep(2 * time.Millisecond)
				}
			}
			err = fmt.Errorf("handshake done but session not established")
		}
		p.sp.close()
		time.Sleep(time.Second)
	}
	return fmt.Errorf("c19d: %s did not come up: %w", p.conf.Addr, err)
}

// openBytes returns (OPEN gobgp wrote, OPEN the speaker wrote) on the current connection.
func (p *c19dPeer) openBytes() ([]byte, []byte) {
	var g, s []byte
	if ms := p.tap.fromGobgp(); len(ms) > 0 {
		g = ms[0]
	}
	if ws := p.tap.toGobgp(); len(ws) > 0 {
		s = ws[0]
	}
	return g, s
}

// addPathTx reports whether the speaker sends path identifiers for f on the current session.
func (p *c19dPeer) addPathTx(f bgp.Family) bool {
	p.sp.mu.Lock()
	defer p.sp.mu.Unlock()
	return p.sp.txAddPath[f]
}

func (p *c19dPeer) marshalOpt() *bgp.MarshallingOption {
	p.sp.mu.Lock()
	o := p.sp.txOptions()
	p.sp.mu.Unlock()
	o.Use2ByteAS = p.conf.NoAS4
	return o
}

// ---------------------------------------------------------------- UPDATE generation

type c19dGen struct {
	r        *rand.Rand
	globalAS uint32
	seq      int
	loops    bool // generate (rarely) routes whose AS_PATH holds gobgp's AS
}

func (g *c19dGen) asPath(p *c19dPeer) (bgp.PathAttributeInterface, bool) {
	r := g.r
	var seqAS []uint32
	if p.conf.Kind != simIBGP {
		seqAS = append(seqAS, p.conf.AS)
	}
	pool := []uint32{64512, 64513, 64600}
	if !p.conf.NoAS4 {
		pool = append(pool, 4200000500, 131072)
	}
	for k := r.IntN(3); k > 0; k-- {
		seqAS = append(seqAS, pool[r.IntN(len(pool))])
	}
	loop := false
	if g.loops && r.IntN(25) == 0 && (g.globalAS <= 65535 || !p.conf.NoAS4) && p.conf.Kind != simIBGP {
		seqAS = append(seqAS, g.globalAS)
		loop = true
	}
	var set []uint32
	if r.IntN(6) == 0 {
		set = []uint32{pool[r.IntN(len(pool))], pool[r.IntN(len(pool))]}
	}
	var params []bgp.AsPathParamInterface
	mk := func(t uint8, as []uint32) {
		if len(as) == 0 {
			return
		}
		if p.conf.NoAS4 {
			s := make([]uint16, len(as))
			for i, a := range as {
				s[i] = uint16(a)
			}
			params = append(params, bgp.NewAsPathParam(t, s))
		} else {
			params = append(params, bgp.NewAs4PathParam(t, as))
		}
	}
	mk(bgp.BGP_ASPATH_ATTR_TYPE_SEQ, seqAS)
	mk(bgp.BGP_ASPATH_ATTR_TYPE_SET, set)
	return bgp.NewPathAttributeAsPath(params), loop
}

// attrs draws a path attribute set (without next hop / MP attributes).
func (g *c19dGen) attrs(p *c19dPeer) ([]bgp.PathAttributeInterface, bool) {
	r := g.r
	ap, loop := g.asPath(p)
	out := []bgp.PathAttributeInterface{bgp.NewPathAttributeOrigin(uint8(r.IntN(3))), ap}
	if r.IntN(2) == 0 {
		out = append(out, bgp.NewPathAttributeMultiExitDisc([]uint32{0, 10, 20, 4000000000}[r.IntN(4)]))
	}
	if p.conf.Kind == simIBGP {
		out = append(out, bgp.NewPathAttributeLocalPref([]uint32{50, 100, 200}[r.IntN(3)]))
	}
	if r.IntN(6) == 0 {
		out = append(out, bgp.NewPathAttributeAtomicAggregate())
	}
	if r.IntN(6) == 0 {
		var a *bgp.PathAttributeAggregator
		if p.conf.NoAS4 {
			a, _ = bgp.NewPathAttributeAggregator(uint16(64700), netip.MustParseAddr("192.0.2.9"))
		} else {
			a, _ = bgp.NewPathAttributeAggregator([]uint32{64700, 4200000777}[r.IntN(2)], netip.MustParseAddr("192.0.2.9"))
		}
		out = append(out, a)
	}
	if r.IntN(2) == 0 {
		cs := []uint32{65000<<16 | 1, 65000<<16 | 2, 65000<<16 | 3, 64512<<16 | 100}
		var v []uint32
		for k := 1 + r.IntN(2); k > 0; k-- {
			v = append(v, cs[r.IntN(len(cs))])
		}
		out = append(out, bgp.NewPathAttributeCommunities(v))
	}
	if r.IntN(5) == 0 {
		out = append(out, bgp.NewPathAttributeLargeCommunities([]*bgp.LargeCommunity{bgp.NewLargeCommunity(4200000001, uint32(r.IntN(3)), 7)}))
	}
	if r.IntN(8) == 0 {
		v := make([]byte, 1+r.IntN(4))
		for i := range v {
			v[i] = byte(r.IntN(256))
		}
		out = append(out, bgp.NewPathAttributeUnknown(bgp.BGP_ATTR_FLAG_OPTIONAL|bgp.BGP_ATTR_FLAG_TRANSITIVE, bgp.BGPAttrType(99), v))
	}
	return out, loop
}

func c19dSortAttrs(a []bgp.PathAttributeInterface) {
	sort.SliceStable(a, func(i, j int) bool { return a[i].GetType() < a[j].GetType() })
}

func (g *c19dGen) pickNLRI(p *c19dPeer, f bgp.Family, fromHeld bool) c19dNLRI {
	r := g.r
	if fromHeld && len(p.held[f]) > 0 && r.IntN(5) != 0 {
		ks := make([]c19dNLRI, 0, len(p.held[f]))
		for k := range p.held[f] {
			ks = append(ks, k)
		}
		sort.Slice(ks, func(i, j int) bool {
			if ks[i].Pfx != ks[j].Pfx {
				return ks[i].Pfx.String() < ks[j].Pfx.String()
			}
			return ks[i].ID < ks[j].ID
		})
		return ks[r.IntN(len(ks))]
	}
	pool := c19dV4Pool
	if f == bgp.RF_IPv6_UC {
		pool = c19dV6Pool
	}
	nl := c19dNLRI{Pfx: netip.MustParsePrefix(pool[r.IntN(len(pool))])}
	if p.addPathTx(f) {
		nl.ID = uint32(1 + r.IntN(3))
	}
	return nl
}

func c19dPathNLRIs(ns []c19dNLRI) []bgp.PathNLRI {
	var out []bgp.PathNLRI
	for _, n := range ns {
		nl, _ := bgp.NewIPAddrPrefix(n.Pfx)
		out = append(out, bgp.PathNLRI{NLRI: nl, ID: n.ID})
	}
	return out
}

// next draws the next UPDATE of peer p: (message, class, announced, withdrawn, family).
func (g *c19dGen) next(p *c19dPeer) (*bgp.BGPMessage, string, []c19dNLRI, []c19dNLRI, bgp.Family) {
	r := g.r
	f := bgp.RF_IPv4_UC
	if p.conf.V6Fam && r.IntN(3) == 0 {
		f = bgp.RF_IPv6_UC
	}
	k := r.IntN(100)
	if k >= 92 {
		return bgp.NewEndOfRib(f), "end-of-rib", nil, nil, f
	}
	var ann, wd []c19dNLRI
	seen := map[c19dNLRI]bool{}
	add := func(dst *[]c19dNLRI, n c19dNLRI) {
		// one prefix at most once per message (with or without path id: RFC 4271 3.1 / RFC 7606 5.1)
		key := c19dNLRI{Pfx: n.Pfx}
		if p.addPathTx(f) {
			key.ID = n.ID
		}
		if seen[key] {
			return
		}
		seen[key] = true
		*dst = append(*dst, n)
	}
	class := "announce"
	switch {
	case k < 55:
		for c := 1 + r.IntN(3); c > 0; c-- {
			add(&ann, g.pickNLRI(p, f, false))
		}
	case k < 77:
		class = "withdraw"
		for c := 1 + r.IntN(2); c > 0; c-- {
			add(&wd, g.pickNLRI(p, f, true))
		}
	default:
		class = "mixed"
		add(&wd, g.pickNLRI(p, f, true))
		for c := 1 + r.IntN(2); c > 0; c-- {
			add(&ann, g.pickNLRI(p, f, false))
		}
		if len(ann) == 0 {
			class = "withdraw"
		}
	}
	var attrs []bgp.PathAttributeInterface
	if len(ann) > 0 {
		var loop bool
		attrs, loop = g.attrs(p)
		if loop {
			class = "as-loop"
		}
	}
	if f == bgp.RF_IPv4_UC {
		if len(ann) > 0 {
			nh, _ := bgp.NewPathAttributeNextHop(netip.MustParseAddr(fmt.Sprintf("192.0.2.%d", 1+r.IntN(3))))
			attrs = append(attrs, nh)
			c19dSortAttrs(attrs)
		}
		return bgp.NewBGPUpdateMessage(c19dPathNLRIs(wd), attrs, c19dPathNLRIs(ann)), class, ann, wd, f
	}
	if len(ann) > 0 {
		nhs := []netip.Addr{netip.MustParseAddr(fmt.Sprintf("2001:db8:ee::%d", 1+r.IntN(3)))}
		if r.IntN(5) == 0 {
			nhs = append(nhs, netip.MustParseAddr("fe80::1"))
		}
		mp, _ := bgp.NewPathAttributeMpReachNLRI(f, c19dPathNLRIs(ann), nhs...)
		attrs = append(attrs, mp)
	}
	if len(wd) > 0 {
		mu, _ := bgp.NewPathAttributeMpUnreachNLRI(f, c19dPathNLRIs(wd))
		attrs = append(attrs, mu)
	}
	c19dSortAttrs(attrs)
	return bgp.NewBGPUpdateMessage(nil, attrs, nil), class, ann, wd, f
}

// sendNext generates, serialises and writes one UPDATE; it returns the record of what was sent
// (nil if the write failed: the session is gone).
func (g *c19dGen) sendNext(p *c19dPeer) *c19dSent {
	m, class, ann, wd, f := g.next(p)
	raw, err := m.Serialize(p.marshalOpt())
	if err != nil {
		return nil
	}
	if err := p.sp.sendRaw(raw); err != nil {
		p.up = false
		return nil
	}
	if p.held[f] == nil {
		p.held[f] = map[c19dNLRI]bool{}
	}
	for _, n := range wd {
		delete(p.held[f], n)
	}
	for _, n := range ann {
		p.held[f][n] = true
	}
	g.seq++
	s := c19dSent{Raw: raw, Class: class, Seq: g.seq}
	p.sent = append(p.sent, s)
	return &p.sent[len(p.sent)-1]
}

// ---------------------------------------------------------------- canonical forms

// c19dCanon renders a path attribute list independent of attribute order, of the 2-/4-octet
// AS encoding and of where the NLRI travels: next hops are pulled out, MP_UNREACH is dropped,
// AS_PATH and AGGREGATOR are rendered by value, everything else by its serialised bytes.
func c19dCanon(attrs []bgp.PathAttributeInterface) string {
	type item struct {
		t uint8
		s string
	}
	var items []item
	nh := ""
	for _, a := range attrs {
		switch v := a.(type) {
		case *bgp.PathAttributeMpReachNLRI:
			// the link-local next hop is not part of the form: gobgp's table drops it on input
			// (table.ProcessMessage rebuilds MP_REACH_NLRI from the global next hop only), so the
			// API side never has it while raw wire bytes in BMP/MRT do
			nh = v.Nexthop.Unmap().String()
		case *bgp.PathAttributeMpUnreachNLRI:
		case *bgp.PathAttributeNextHop:
			nh = v.Value.Unmap().String()
		case *bgp.PathAttributeAsPath:
			var segs []string
			for _, p := range v.Value {
				segs = append(segs, fmt.Sprintf("%d%v", p.GetType(), p.GetAS()))
			}
			items = append(items, item{uint8(a.GetType()), "aspath=" + strings.Join(segs, ",")})
		case *bgp.PathAttributeAggregator:
			items = append(items, item{uint8(a.GetType()), fmt.Sprintf("aggregator=%d/%s", v.Value.AS, v.Value.Address)})
		default:
			b, err := a.Serialize()
			if err != nil {
				items = append(items, item{uint8(a.GetType()), fmt.Sprintf("t%d=!%v", a.GetType(), err)})
			} else {
				items = append(items, item{uint8(a.GetType()), fmt.Sprintf("t%d=%s", a.GetType(), hex.EncodeToString(b))})
			}
		}
	}
	sort.SliceStable(items, func(i, j int) bool { return items[i].t < items[j].t })
	var sb strings.Builder
	sb.WriteString("nh=" + nh)
	for _, it := range items {
		sb.WriteString(";" + it.s)
	}
	return sb.String()
}

// c19dDiffClass names what differs between two canonical attribute strings (for stable keys).
func c19dDiffClass(a, b string) string {
	pa, pb := strings.Split(a, ";"), strings.Split(b, ";")
	name := func(s string) string {
		if i := strings.Index(s, "="); i > 0 {
			s = s[:i]
		}
		switch s {
		case "t1":
			return "origin"
		case "t4":
			return "med"
		case "t5":
			return "local-pref"
		case "t6":
			return "atomic-aggregate"
		case "t8":
			return "communities"
		case "t32":
			return "large-communities"
		case "t99":
			return "unknown-attr"
		case "nh":
			return "next-hop"
		}
		return s
	}
	ma, mb := map[string]string{}, map[string]string{}
	for _, s := range pa {
		ma[name(s)] = s
	}
	for _, s := range pb {
		mb[name(s)] = s
	}
	set := map[string]bool{}
	for k, v := range ma {
		if mb[k] != v {
			set[k] = true
		}
	}
	for k, v := range mb {
		if ma[k] != v {
			set[k] = true
		}
	}
	var ks []string
	for k := range set {
		ks = append(ks, k)
	}
	sort.Strings(ks)
	if len(ks) > 3 {
		ks = append(ks[:3], "more")
	}
	return strings.Join(ks, "+")
}

// ---------------------------------------------------------------- API-side views

type c19dAPIPath struct {
	Peer    string // source address ("local" for API-injected routes)
	PeerAS  uint32
	PeerID  string
	Remote  uint32
	Local   uint32
	Canon   string
	Age     int64
	Best    bool
	Filt    bool
	Family  bgp.Family
	Prefix  string
	IsLocal bool
}

func c19dListPath(n *simNet, tt api.TableType, name string, fams []bgp.Family, filtered bool) ([]c19dAPIPath, error) {
	var out []c19dAPIPath
	for _, f := range fams {
		err := n.s.ListPath(apiutil.ListPathRequest{TableType: tt, Name: name, Family: f, EnableFiltered: filtered}, func(prefix bgp.NLRI, paths []*apiutil.Path) {
			for _, p := range paths {
				if p.Withdrawal {
					continue
				}
				ap := c19dAPIPath{Peer: "local", PeerAS: p.PeerASN, Remote: p.RemoteID, Local: p.LocalID, Canon: c19dCanon(p.Attrs), Age: p.Age,
					Best: p.Best, Filt: p.Filtered, Family: f, Prefix: prefix.String(), IsLocal: !p.PeerAddress.IsValid()}
				if p.PeerAddress.IsValid() {
					ap.Peer = p.PeerAddress.String()
				}
				if p.PeerID.IsValid() {
					ap.PeerID = p.PeerID.String()
				}
				out = append(out, ap)
			}
		})
		if err != nil {
			return nil, err
		}
	}
	return out, nil
}

type c19dAPIPeer struct {
	Addr, ID      string
	AS            uint32
	Established   bool
	Received      uint64
	Accepted      uint64
	WithdrawUpd   uint64
	WithdrawPfx   uint64
	UpdatesRecved uint64
}

func c19dListPeer(n *simNet) (map[string]c19dAPIPeer, error) {
	out := map[string]c19dAPIPeer{}
	err := n.s.ListPeer(context.Background(), &api.ListPeerRequest{EnableAdvertised: true}, func(p *api.Peer) {
		ap := c19dAPIPeer{Addr: p.State.NeighborAddress, ID: p.State.RouterId, AS: p.State.PeerAsn,
			Established: p.State.SessionState == api.PeerState_SESSION_STATE_ESTABLISHED}
		for _, a := range p.AfiSafis {
			if a.State != nil {
				ap.Received += a.State.Received
				ap.Accepted += a.State.Accepted
			}
		}
		if p.State.Messages != nil && p.State.Messages.Received != nil {
			ap.WithdrawUpd = p.State.Messages.Received.WithdrawUpdate
			ap.WithdrawPfx = p.State.Messages.Received.WithdrawPrefix
			ap.UpdatesRecved = p.State.Messages.Received.Update
		}
		out[netip.MustParseAddr(ap.Addr).String()] = ap
	})
	return out, err
}

// c19dImportPolicy installs a global import policy: routes carrying community 65000:1 are
// rejected, routes carrying 65000:2 get MED 77, everything else is accepted unchanged.
func c19dImportPolicy(n *simNet) error {
	bg := context.Background()
	s := n.s
	for _, ds := range []*api.DefinedSet{
		{DefinedType: api.DefinedType_DEFINED_TYPE_COMMUNITY, Name: "c19d1", List: []string{"^65000:1$"}},
		{DefinedType: api.DefinedType_DEFINED_TYPE_COMMUNITY, Name: "c19d2", List: []string{"^65000:2$"}},
	} {
		if err := s.AddDefinedSet(bg, &api.AddDefinedSetRequest{DefinedSet: ds}); err != nil {
			return err
		}
	}
	pol := &api.Policy{Name: "c19dimp", Statements: []*api.Statement{
		{Name: "c19d-rej", Conditions: &api.Conditions{CommunitySet: &api.MatchSet{Name: "c19d1", Type: api.MatchSet_TYPE_ANY}}, Actions: &api.Actions{RouteAction: api.RouteAction_ROUTE_ACTION_REJECT}},
		{Name: "c19d-med", Conditions: &api.Conditions{CommunitySet: &api.MatchSet{Name: "c19d2", Type: api.MatchSet_TYPE_ANY}}, Actions: &api.Actions{RouteAction: api.RouteAction_ROUTE_ACTION_ACCEPT, Med: &api.MedAction{Type: api.MedAction_TYPE_REPLACE, Value: 77}}},
	}}
	if err := s.AddPolicy(bg, &api.AddPolicyRequest{Policy: pol}); err != nil {
		return err
	}
	return s.AddPolicyAssignment(bg, &api.AddPolicyAssignmentRequest{Assignment: &api.PolicyAssignment{Name: table.GLOBAL_RIB_NAME, Direction: api.PolicyDirection_POLICY_DIRECTION_IMPORT,
		Policies: []*api.Policy{{Name: "c19dimp"}}, DefaultAction: api.RouteAction_ROUTE_ACTION_ACCEPT}})
}

// c19dAddLocal injects one route through the API (source = gobgp itself).
func c19dAddLocal(n *simNet, r *rand.Rand, prefix string) error {
	pfx := netip.MustParsePrefix(prefix)
	nl, _ := bgp.NewIPAddrPrefix(pfx)
	attrs := []bgp.PathAttributeInterface{bgp.NewPathAttributeOrigin(uint8(r.IntN(3)))}
	if r.IntN(2) == 0 {
		attrs = append(attrs, bgp.NewPathAttributeCommunities([]uint32{64512<<16 | 100}))
	}
	fam := bgp.RF_IPv4_UC
	if pfx.Addr().Is4() {
		nh, _ := bgp.NewPathAttributeNextHop(netip.MustParseAddr("192.0.2.200"))
		attrs = append(attrs, nh)
	} else {
		fam = bgp.RF_IPv6_UC
		mp, _ := bgp.NewPathAttributeMpReachNLRI(fam, []bgp.PathNLRI{{NLRI: nl}}, netip.MustParseAddr("2001:db8:ee::c8"))
		attrs = append(attrs, mp)
	}
	_, err := n.s.AddPath(apiutil.AddPathRequest{Paths: []*apiutil.Path{{Family: fam, Nlri: nl, Attrs: attrs}}})
	return err
}

type c19dCase struct {
	rec   *vlib.Rec
	idx   int
	log   []string
	shape []string
}

func (c *c19dCase) logf(f string, a ...any) {
	c.log = append(c.log, fmt.Sprintf(f, a...))
	if simDebug {
		fmt.Printf("C19D "+f+"\n", a...)
	}
}

func (c *c19dCase) witness(extra map[string]any) map[string]any {
	w := map[string]any{"case": c.idx, "shape": c.shape}
	l := c.log
	if len(l) > 120 {
		l = l[len(l)-120:]
	}
	w["events"] = l
	for k, v := range extra {
		w[k] = v
	}
	return w
}
