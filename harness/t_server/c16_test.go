package server

import (
	"testing"

	"github.com/osrg/gobgp/v4/internal/verif/vlib"
)

// TestVerifC16 — unit 2 of C16: the RTR state machine (c16_rtr_test.go, model in
// c16_model_test.go) and the RPKI management / listing API of BgpServer (c16_api_test.go).
// One case-index space (so that a replay names exactly one case): [0, nRTR) are PDU-sequence
// cases, [nRTR, nRTR+nAPI) are API-level cases.
func TestVerifC16(t *testing.T) {
	rec := vlib.Open("C16")
	defer rec.Close()
	nRTR, nAPI := vlib.Scale(5000, 80000), vlib.Scale(160, 2400)
	vlib.Cases(nRTR+nAPI, func(idx int) {
		if idx < nRTR {
			c16RTRCase(rec, idx)
		} else {
			c16APICase(rec, idx)
		}
	})
}
