package server

// Shared helpers of the daemon-level ("e2e") units of C09, C10, C11 and C14.
//
// Every unit runs a real BgpServer inside a synctest bubble against scripted speakers (simnet) and
// judges ONLY (a) the raw bytes the speakers received (simRxMsg.Raw, split and framed by the independent
// reader /verif/harness/wire, attribute values decoded by the small decoders below, written from RFC 4271
// 4.3/5, RFC 4456, RFC 1997, RFC 8092, RFC 6793) and (b) public API reads (ListPath, ListPeer).

import (
	"context"
	"encoding/binary"
	"encoding/hex"
	"fmt"
	"net"
	"net/netip"
	"sort"
	"strings"
	"testing/synctest"
	"time"

	"github.com/osrg/gobgp/v4/api"
	"github.com/osrg/gobgp/v4/internal/pkg/table"
	"github.com/osrg/gobgp/v4/internal/verif/refmodel"
	"github.com/osrg/gobgp/v4/internal/verif/wire"
	"github.com/osrg/gobgp/v4/pkg/apiutil"
	"github.com/osrg/gobgp/v4/pkg/packet/bgp"
)

// ---------------------------------------------------------------- building bytes by hand

// e2eTLV lays out one path attribute; the extended-length bit follows the value length.
func e2eTLV(flags, typ uint8, val []byte) []byte {
	flags &^= wire.FlagExtLen
	if len(val) > 255 {
		flags |= wire.FlagExtLen
		b := []byte{flags, typ, byte(len(val) >> 8), byte(len(val))}
		return append(b, val...)
	}
	return append([]byte{flags, typ, byte(len(val))}, val...)
}

func e2eU32(v uint32) []byte { return binary.BigEndian.AppendUint32(nil, v) }
func e2eU16(v uint16) []byte { return binary.BigEndian.AppendUint16(nil, v) }

// e2ePrefixBytes: <[path id,] length, prefix octets>
func e2ePrefixBytes(p netip.Prefix, id *uint32) []byte {
	var b []byte
	if id != nil {
		b = append(b, e2eU32(*id)...)
	}
	b = append(b, byte(p.Bits()))
	a := p.Masked().Addr().AsSlice()
	return append(b, a[:(p.Bits()+7)/8]...)
}

// e2eUpdateBytes frames an UPDATE: 19-octet header, withdrawn routes, path attributes, NLRI.
func e2eUpdateBytes(withdrawn, attrs, nlri []byte) []byte {
	body := append(e2eU16(uint16(len(withdrawn))), withdrawn...)
	body = append(body, e2eU16(uint16(len(attrs)))...)
	body = append(body, attrs...)
	body = append(body, nlri...)
	msg := make([]byte, 16, 19+len(body))
	for i := range msg {
		msg[i] = 0xff
	}
	msg = append(msg, e2eU16(uint16(19+len(body)))...)
	msg = append(msg, wire.MsgUpdate)
	return append(msg, body...)
}

// e2eASPathValue encodes AS_PATH segments with 2- or 4-octet members (no splitting, no checks: the caller
// decides what is well-formed).
func e2eASPathValue(segs []refmodel.C09Seg, asSize int) []byte {
	var b []byte
	for _, s := range segs {
		b = append(b, s.Type, byte(len(s.AS)))
		for _, a := range s.AS {
			if asSize == 2 {
				b = append(b, e2eU16(uint16(a))...)
			} else {
				b = append(b, e2eU32(a)...)
			}
		}
	}
	return b
}

// ---------------------------------------------------------------- decoding attribute values

// e2eParseASPath walks an AS_PATH / AS4_PATH value: <type, count, count members of asSize octets>*.
// Well-formedness (RFC 4271 4.3 b, RFC 5065 3): type in 1..4, count >= 1, the value is consumed exactly.
func e2eParseASPath(val []byte, asSize int) ([]refmodel.C09Seg, error) {
	var out []refmodel.C09Seg
	off := 0
	for off < len(val) {
		if len(val)-off < 2 {
			return out, fmt.Errorf("segment %d at %d: %d octet(s) cannot hold type and count", len(out), off, len(val)-off)
		}
		t, n := val[off], int(val[off+1])
		off += 2
		if t < 1 || t > 4 {
			return out, fmt.Errorf("segment %d: type %d is not an AS_PATH segment type", len(out), t)
		}
		if n == 0 {
			return out, fmt.Errorf("segment %d (type %d): zero members", len(out), t)
		}
		if len(val)-off < n*asSize {
			return out, fmt.Errorf("segment %d (type %d): %d members of %d octets need %d octets, %d left", len(out), t, n, asSize, n*asSize, len(val)-off)
		}
		s := refmodel.C09Seg{Type: t}
		for i := 0; i < n; i++ {
			if asSize == 2 {
				s.AS = append(s.AS, uint32(binary.BigEndian.Uint16(val[off:])))
			} else {
				s.AS = append(s.AS, binary.BigEndian.Uint32(val[off:]))
			}
			off += asSize
		}
		out = append(out, s)
	}
	return out, nil
}

// e2eRoute is one route as a receiver sees it: the attribute TLVs of the UPDATE that announced it
// (MP_REACH/MP_UNREACH taken out) and the next hop octets that apply to its family.
type e2eRoute struct {
	Attrs   []wire.Attr // sorted by type code (stable)
	NextHop []byte      // NEXT_HOP value (IPv4 unicast NLRI field) or MP_REACH next hop field
	MsgIdx  int         // index into the speaker's rx log
}

// Canon: normalised attribute bytes (flags without the extended-length bit, type, value) in type order.
func (r *e2eRoute) Canon() string {
	var sb strings.Builder
	for _, a := range r.Attrs {
		fmt.Fprintf(&sb, "%02x.%d:%x;", a.Flags&^wire.FlagExtLen, a.Type, a.Value)
	}
	return sb.String()
}

func (r *e2eRoute) attr(t uint8) *wire.Attr {
	for i := range r.Attrs {
		if r.Attrs[i].Type == t {
			return &r.Attrs[i]
		}
	}
	return nil
}

func (r *e2eRoute) u32(t uint8) *uint32 {
	if a := r.attr(t); a != nil && len(a.Value) == 4 {
		v := binary.BigEndian.Uint32(a.Value)
		return &v
	}
	return nil
}

// communities returns the COMMUNITIES members (RFC 1997: a sequence of four-octet values).
func (r *e2eRoute) communities() ([]uint32, error) {
	a := r.attr(8)
	if a == nil {
		return nil, nil
	}
	if len(a.Value)%4 != 0 || len(a.Value) == 0 {
		return nil, fmt.Errorf("COMMUNITIES value of %d octets", len(a.Value))
	}
	var out []uint32
	for i := 0; i < len(a.Value); i += 4 {
		out = append(out, binary.BigEndian.Uint32(a.Value[i:]))
	}
	return out, nil
}

// largeCommunities returns the LARGE_COMMUNITY members (RFC 8092: twelve octets each).
func (r *e2eRoute) largeCommunities() ([][3]uint32, error) {
	a := r.attr(32)
	if a == nil {
		return nil, nil
	}
	if len(a.Value)%12 != 0 || len(a.Value) == 0 {
		return nil, fmt.Errorf("LARGE_COMMUNITY value of %d octets", len(a.Value))
	}
	var out [][3]uint32
	for i := 0; i < len(a.Value); i += 12 {
		out = append(out, [3]uint32{binary.BigEndian.Uint32(a.Value[i:]), binary.BigEndian.Uint32(a.Value[i+4:]), binary.BigEndian.Uint32(a.Value[i+8:])})
	}
	return out, nil
}

func (r *e2eRoute) asPath(asSize int) ([]refmodel.C09Seg, bool, error) {
	a := r.attr(2)
	if a == nil {
		return nil, false, nil
	}
	p, err := e2eParseASPath(a.Value, asSize)
	return p, true, err
}

// ---------------------------------------------------------------- a speaker's received bytes

type e2eRxUpdate struct {
	Idx       int // index in sp.rx
	Len       int // length field of the raw header
	U         *wire.Update
	Withdrawn []simRouteKey
	Announced []simRouteKey
	Route     *e2eRoute // attributes shared by everything this message announces (nil if it announces nothing)
	RouteFor  map[bgp.Family]*e2eRoute
	EOR       bool
	EORFamily bgp.Family
}

func e2eWireOpts(sp *simSpeaker) wire.Options {
	sp.mu.Lock()
	defer sp.mu.Unlock()
	o := wire.Options{AddPath: map[wire.Family]bool{}, ExtendedMessage: sp.ext}
	for f, on := range sp.rxAddPath {
		if on {
			o.AddPath[wire.Family{AFI: f.Afi(), SAFI: f.Safi()}] = true
		}
	}
	return o
}

func e2ePrefixString(fam wire.Family, p wire.Prefix) (string, error) {
	n := 4
	if fam.AFI == 2 {
		n = 16
	}
	if len(p.Bytes) > n || p.BitLen > n*8 {
		return "", fmt.Errorf("prefix of %d bits / %d octets in family %v", p.BitLen, len(p.Bytes), fam)
	}
	b := make([]byte, n)
	copy(b, p.Bytes)
	a, _ := netip.AddrFromSlice(b)
	pf := netip.PrefixFrom(a, p.BitLen)
	if pf.Masked() != pf {
		return "", fmt.Errorf("prefix %v has bits set beyond its length", pf)
	}
	return pf.String(), nil
}

// e2eDecodeRx decodes every UPDATE the speaker has received so far, from the raw octets, with the
// independent reader. problems lists framing errors (each is a violation of its own for the caller).
func e2eDecodeRx(sp *simSpeaker) (ups []e2eRxUpdate, problems []string) {
	return e2eDecodeRxFrom(sp, 0)
}

// e2eDecodeRxFrom decodes the messages from index `from` of the rx log on: the log runs across the sessions of
// a speaker while the wire grammar (ADD-PATH, Extended Message) is the one negotiated for the CURRENT session.
func e2eDecodeRxFrom(sp *simSpeaker, from int) (ups []e2eRxUpdate, problems []string) {
	opt := e2eWireOpts(sp)
	sp.mu.Lock()
	rx := append([]simRxMsg{}, sp.rx...)
	// the simnet reader keeps no octets of a message gobgp's own parser rejects; it notes them here
	for _, d := range sp.dupID {
		if strings.HasPrefix(d, "unparsable message") {
			problems = append(problems, d)
		}
	}
	sp.mu.Unlock()
	for i, m := range rx {
		if i < from {
			continue
		}
		typ, body, err := wire.ParseHeader(m.Raw)
		if err != nil {
			problems = append(problems, fmt.Sprintf("message %d: %v", i, err))
			continue
		}
		if err := wire.CheckLength(m.Raw, opt); err != nil {
			problems = append(problems, fmt.Sprintf("message %d: %v", i, err))
		}
		if typ != wire.MsgUpdate {
			continue
		}
		u, err := wire.ParseUpdate(body, opt)
		if err != nil {
			problems = append(problems, fmt.Sprintf("message %d (UPDATE): %v", i, err))
			continue
		}
		ru := e2eRxUpdate{Idx: i, Len: int(binary.BigEndian.Uint16(m.Raw[16:18])), U: u, RouteFor: map[bgp.Family]*e2eRoute{}}
		v4 := wire.Family{AFI: 1, SAFI: 1}
		for _, w := range u.Withdrawn {
			s, err := e2ePrefixString(v4, w)
			if err != nil {
				problems = append(problems, fmt.Sprintf("message %d: withdrawn routes: %v", i, err))
				continue
			}
			ru.Withdrawn = append(ru.Withdrawn, simRouteKey{bgp.RF_IPv4_UC, s, w.PathID})
		}
		var plain []wire.Attr
		var nh4 []byte
		for _, a := range u.Attrs {
			switch a.Type {
			case wire.AttrMPReach, wire.AttrMPUnrch:
			default:
				plain = append(plain, a)
				if a.Type == 3 {
					nh4 = a.Value
				}
			}
		}
		sort.SliceStable(plain, func(x, y int) bool { return plain[x].Type < plain[y].Type })
		for _, un := range u.MPUnreach {
			fam := bgp.NewFamily(un.Family.AFI, un.Family.SAFI)
			if !un.Parsed {
				problems = append(problems, fmt.Sprintf("message %d: MP_UNREACH of family %v is not decoded by the harness", i, un.Family))
				continue
			}
			for _, w := range un.NLRI {
				s, err := e2ePrefixString(un.Family, w)
				if err != nil {
					problems = append(problems, fmt.Sprintf("message %d: MP_UNREACH: %v", i, err))
					continue
				}
				ru.Withdrawn = append(ru.Withdrawn, simRouteKey{fam, s, w.PathID})
			}
		}
		if len(u.NLRI) > 0 {
			// the IPv4 unicast NLRI field is governed by every attribute except NEXT_HOP's MP counterpart
			rt := &e2eRoute{Attrs: plain, NextHop: nh4, MsgIdx: i}
			ru.RouteFor[bgp.RF_IPv4_UC] = rt
			ru.Route = rt
			for _, p := range u.NLRI {
				s, err := e2ePrefixString(v4, p)
				if err != nil {
					problems = append(problems, fmt.Sprintf("message %d: NLRI: %v", i, err))
					continue
				}
				ru.Announced = append(ru.Announced, simRouteKey{bgp.RF_IPv4_UC, s, p.PathID})
			}
		}
		for _, re := range u.MPReach {
			fam := bgp.NewFamily(re.Family.AFI, re.Family.SAFI)
			if !re.Parsed {
				problems = append(problems, fmt.Sprintf("message %d: MP_REACH of family %v is not decoded by the harness", i, re.Family))
				continue
			}
			// NEXT_HOP (type 3) does not apply to MP NLRI; keep it out of the MP route's attribute set
			var mpAttrs []wire.Attr
			for _, a := range plain {
				if a.Type != 3 {
					mpAttrs = append(mpAttrs, a)
				}
			}
			rt := &e2eRoute{Attrs: mpAttrs, NextHop: re.NextHop, MsgIdx: i}
			if fam == bgp.RF_IPv4_UC {
				rt.Attrs = mpAttrs
			}
			ru.RouteFor[fam] = rt
			if ru.Route == nil {
				ru.Route = rt
			}
			for _, p := range re.NLRI {
				s, err := e2ePrefixString(re.Family, p)
				if err != nil {
					problems = append(problems, fmt.Sprintf("message %d: MP_REACH: %v", i, err))
					continue
				}
				ru.Announced = append(ru.Announced, simRouteKey{fam, s, p.PathID})
			}
		}
		// End-of-RIB (RFC 4724 2): an UPDATE with no reachable NLRI and empty withdrawn NLRI -- the minimum
		// length message for IPv4 unicast, or only an empty MP_UNREACH_NLRI for other families.
		if u.WithdrawnLen == 0 && len(u.NLRI) == 0 {
			if u.AttrLen == 0 {
				ru.EOR, ru.EORFamily = true, bgp.RF_IPv4_UC
			} else if len(u.Attrs) == 1 && len(u.MPUnreach) == 1 && len(u.MPUnreach[0].Raw) == 0 {
				ru.EOR, ru.EORFamily = true, bgp.NewFamily(u.MPUnreach[0].Family.AFI, u.MPUnreach[0].Family.SAFI)
			}
		}
		ups = append(ups, ru)
	}
	return ups, problems
}

// e2eApply accumulates the decoded UPDATEs in byte order: within a message withdrawals first, then
// announcements (RFC 4271 3.1).
func e2eApply(ups []e2eRxUpdate) (view map[simRouteKey]*e2eRoute, eor map[bgp.Family]int) {
	view = map[simRouteKey]*e2eRoute{}
	eor = map[bgp.Family]int{}
	for _, u := range ups {
		if u.EOR {
			eor[u.EORFamily]++
			continue
		}
		for _, k := range u.Withdrawn {
			delete(view, k)
		}
		for _, k := range u.Announced {
			view[k] = u.RouteFor[k.Family]
		}
	}
	return view, eor
}

// ---------------------------------------------------------------- API-side views in the same canonical form

// e2eRouteFromAttrs turns an attribute list returned by the API (or built by the harness) into the same
// form as a received route: every attribute is serialised on its own and re-read with the wire reader.
func e2eRouteFromAttrs(attrs []bgp.PathAttributeInterface) (*e2eRoute, error) {
	rt := &e2eRoute{MsgIdx: -1}
	var field []byte
	for _, a := range attrs {
		b, err := a.Serialize()
		if err != nil {
			return nil, fmt.Errorf("attribute %d does not serialise: %v", a.GetType(), err)
		}
		field = append(field, b...)
	}
	as, err := wire.ParseAttrs(field, 0)
	if err != nil {
		return nil, err
	}
	for _, a := range as {
		switch a.Type {
		case wire.AttrMPReach:
			m, err := wire.ParseMPReach(a.Value, wire.Options{})
			if err != nil && m == nil {
				return nil, err
			}
			rt.NextHop = m.NextHop
		case wire.AttrMPUnrch:
		case 3:
			if rt.NextHop == nil {
				rt.NextHop = a.Value
			}
			rt.Attrs = append(rt.Attrs, a)
		default:
			rt.Attrs = append(rt.Attrs, a)
		}
	}
	sort.SliceStable(rt.Attrs, func(x, y int) bool { return rt.Attrs[x].Type < rt.Attrs[y].Type })
	return rt, nil
}

// e2eStripNextHop returns the route without the NEXT_HOP attribute (for MP families, see e2eDecodeRx).
func e2eStripNextHop(r *e2eRoute) *e2eRoute {
	out := &e2eRoute{NextHop: r.NextHop, MsgIdx: r.MsgIdx}
	for _, a := range r.Attrs {
		if a.Type != 3 {
			out.Attrs = append(out.Attrs, a)
		}
	}
	return out
}

type e2eAPIPath struct {
	Route    *e2eRoute
	Filtered bool
	Best     bool
	LocalID  uint32
	Source   string
}

func e2eListPath(n *simNet, tt api.TableType, name string, fam bgp.Family, enableFiltered bool) (map[string][]e2eAPIPath, error) {
	out := map[string][]e2eAPIPath{}
	var ferr error
	err := n.s.ListPath(apiutil.ListPathRequest{TableType: tt, Name: name, Family: fam, EnableFiltered: enableFiltered}, func(prefix bgp.NLRI, paths []*apiutil.Path) {
		for _, p := range paths {
			if p.Withdrawal {
				continue
			}
			rt, err := e2eRouteFromAttrs(p.Attrs)
			if err != nil {
				ferr = err
				continue
			}
			if fam != bgp.RF_IPv4_UC {
				rt = e2eStripNextHop(rt)
			}
			src := ""
			if p.PeerAddress.IsValid() {
				src = p.PeerAddress.String()
			}
			out[prefix.String()] = append(out[prefix.String()], e2eAPIPath{Route: rt, Filtered: p.Filtered, Best: p.Best, LocalID: p.LocalID, Source: src})
		}
	})
	if err == nil {
		err = ferr
	}
	return out, err
}

// e2eAdjOut: what gobgp says it advertises to addr (fresh evaluation), keyed like a receiver's view.
func e2eAdjOut(n *simNet, addr string, fams []bgp.Family) (map[simRouteKey]*e2eRoute, error) {
	out := map[simRouteKey]*e2eRoute{}
	for _, f := range fams {
		m, err := e2eListPath(n, api.TableType_TABLE_TYPE_ADJ_OUT, addr, f, false)
		if err != nil {
			return nil, err
		}
		for pfx, ps := range m {
			for _, p := range ps {
				if p.Filtered {
					continue
				}
				out[simRouteKey{f, pfx, 0}] = p.Route
			}
		}
	}
	return out, nil
}

// e2eAdjOutEligible is the ADD-PATH variant (ListPath(ADJ_OUT) collapses paths by remote path id, see
// simNet.adjOutEligible): the same fresh evaluation, every resulting path under its local path id.
func e2eAdjOutEligible(n *simNet, addr string) (map[simRouteKey]*e2eRoute, error) {
	out := map[simRouteKey]*e2eRoute{}
	var ferr error
	err := n.s.mgmtOperation(func() error {
		peer, ok := n.s.neighborMap[netip.MustParseAddr(addr)]
		if !ok {
			return fmt.Errorf("no such neighbor %s", addr)
		}
		n.s.getBestFromLocalCallback(peer, peer.configuredRFlist(), false, false, func(paths []*table.Path, _ []*table.Path) {
			for _, p := range paths {
				if p == nil || p.IsEOR() || p.IsWithdraw {
					continue
				}
				ap := toPathApiUtil(p)
				rt, err := e2eRouteFromAttrs(ap.Attrs)
				if err != nil {
					ferr = err
					continue
				}
				if p.GetFamily() != bgp.RF_IPv4_UC {
					rt = e2eStripNextHop(rt)
				}
				out[simRouteKey{p.GetFamily(), p.GetNlri().String(), ap.LocalID}] = rt
			}
		})
		return nil
	}, true)
	if err == nil {
		err = ferr
	}
	return out, err
}

func e2eEstablished(n *simNet, addr string) bool {
	st := api.PeerState_SESSION_STATE_UNSPECIFIED
	n.s.ListPeer(context.Background(), &api.ListPeerRequest{Address: addr}, func(p *api.Peer) { st = p.State.SessionState })
	return st == api.PeerState_SESSION_STATE_ESTABLISHED
}

// ---------------------------------------------------------------- observation in the form of the C09 reference

var e2eKnownAttr = map[uint8]bool{1: true, 2: true, 3: true, 4: true, 5: true, 6: true, 7: true, 8: true, 9: true, 10: true, 14: true, 15: true, 16: true, 17: true, 18: true, 32: true}

func e2eAddr(b []byte) netip.Addr {
	a, _ := netip.AddrFromSlice(b)
	return a
}

// e2eObs builds the refmodel observation of a route from wire-level TLVs (4-octet AS_PATH encoding).
// fam/prefix name the route the observation is for (one NLRI, as the function-level reference sees it).
func e2eObs(rt *e2eRoute, fam bgp.Family, prefix string) *refmodel.C09Obs {
	o := &refmodel.C09Obs{Raw: map[uint8]string{}, Unknown: map[uint8]refmodel.C09Unknown{}}
	seen := map[uint8]bool{}
	bad := func(f string, a ...any) { o.Errors = append(o.Errors, fmt.Sprintf(f, a...)) }
	for _, a := range rt.Attrs {
		t := a.Type
		if seen[t] {
			o.Dup = append(o.Dup, t)
		}
		seen[t] = true
		o.Types = append(o.Types, t)
		if !e2eKnownAttr[t] {
			o.Unknown[t] = refmodel.C09Unknown{Type: t, Flags: a.Flags, Value: append([]byte{}, a.Value...)}
			continue
		}
		o.Raw[t] = hex.EncodeToString(append([]byte{a.Flags &^ wire.FlagExtLen}, a.Value...))
		switch t {
		case 2:
			o.HasASPath = true
			p, err := e2eParseASPath(a.Value, 4)
			if err != nil {
				bad("AS_PATH: %v", err)
			}
			o.ASPath = p
		case 3:
			if len(a.Value) != 4 {
				bad("NEXT_HOP of %d octets", len(a.Value))
			} else {
				o.NextHop = e2eAddr(a.Value)
			}
		case 4:
			if len(a.Value) != 4 {
				bad("MULTI_EXIT_DISC of %d octets", len(a.Value))
			} else {
				v := binary.BigEndian.Uint32(a.Value)
				o.MED = &v
			}
		case 5:
			if len(a.Value) != 4 {
				bad("LOCAL_PREF of %d octets", len(a.Value))
			} else {
				v := binary.BigEndian.Uint32(a.Value)
				o.LocalPref = &v
			}
		case 9:
			if len(a.Value) != 4 {
				bad("ORIGINATOR_ID of %d octets", len(a.Value))
			} else {
				o.Originator = e2eAddr(a.Value)
			}
		case 10:
			o.HasCluster = true
			if len(a.Value)%4 != 0 || len(a.Value) == 0 {
				bad("CLUSTER_LIST of %d octets", len(a.Value))
			} else {
				for i := 0; i < len(a.Value); i += 4 {
					o.ClusterList = append(o.ClusterList, e2eAddr(a.Value[i:i+4]))
				}
			}
		}
	}
	if fam != bgp.RF_IPv4_UC || (rt.attr(3) == nil && rt.NextHop != nil) {
		// the route travels in MP_REACH_NLRI
		o.MP = true
		o.MPFamily = fam.String()
		o.MPNlri = prefix
		o.Types = append(o.Types, wire.AttrMPReach)
		switch len(rt.NextHop) {
		case 4, 16:
			o.MPNextHop = e2eAddr(rt.NextHop)
		case 32:
			o.MPNextHop = e2eAddr(rt.NextHop[:16])
			o.MPLinkLocal = e2eAddr(rt.NextHop[16:])
		default:
			bad("MP_REACH_NLRI next hop field of %d octets", len(rt.NextHop))
		}
		o.Raw[wire.AttrMPReach] = fmt.Sprintf("%s nh=%x", fam, rt.NextHop)
	}
	return o
}

func e2eObsText(o *refmodel.C09Obs) map[string]any {
	m := map[string]any{"as_path": refmodel.C09PathText(o.ASPath), "next_hop": o.NextHop.String(), "mp": o.MP, "mp_next_hop": o.MPNextHop.String(),
		"mp_link_local": o.MPLinkLocal.String(), "originator": o.Originator.String(), "cluster_list": fmt.Sprint(o.ClusterList), "types": fmt.Sprint(o.Types)}
	if o.MED != nil {
		m["med"] = *o.MED
	}
	if o.LocalPref != nil {
		m["local_pref"] = *o.LocalPref
	}
	var u []string
	for t, x := range o.Unknown {
		v := x.Value
		if len(v) > 8 {
			v = v[:8]
		}
		u = append(u, fmt.Sprintf("%d/flags=%#x/len=%d/%x", t, x.Flags, len(x.Value), v))
	}
	sort.Strings(u)
	m["unknown"] = u
	return m
}

func e2eRxLog(sp *simSpeaker, max int) []string {
	sp.mu.Lock()
	defer sp.mu.Unlock()
	var out []string
	for i := len(sp.rx) - 1; i >= 0 && len(out) < max; i-- {
		r := sp.rx[i].Raw
		if len(r) > 120 {
			out = append(out, fmt.Sprintf("#%d len=%d %x...", i, len(r), r[:120]))
		} else {
			out = append(out, fmt.Sprintf("#%d len=%d %x", i, len(r), r))
		}
	}
	return out
}

// ---------------------------------------------------------------- a speaker that records raw octets only
//
// simSpeaker.reader decodes every message with gobgp's parser in 4-octet-AS mode and DROPS what that parser
// rejects; on a session without the 4-octet-AS capability gobgp (correctly) writes 2-octet AS_PATHs, which
// that parser cannot read. The e2e units judge raw octets, so for such sessions they run their own
// handshake + reader (same steps as simSpeaker.connectPassive / handshake / bringUp) that keeps every message
// as received (simRxMsg.Msg stays nil).

func e2eRawReader(sp *simSpeaker, c net.Conn, done chan struct{}) {
	defer sp.readerWG.Done()
	defer close(done)
	for {
		sp.pmu.Lock()
		for sp.paused {
			sp.gate.Wait()
		}
		sp.pmu.Unlock()
		hd, body, err := simReadMsgRaw(c)
		if err != nil {
			sp.mu.Lock()
			sp.closedErr = err
			sp.mu.Unlock()
			return
		}
		raw := append(append([]byte{}, mustSerializeHeader(hd)...), body...)
		sp.mu.Lock()
		sp.rx = append(sp.rx, simRxMsg{At: time.Now(), Raw: raw})
		if hd.Type == bgp.BGP_MSG_UPDATE {
			sp.nUpdates++
		}
		if hd.Type == bgp.BGP_MSG_NOTIFICATION {
			if m, err := bgp.ParseBGPBody(hd, body); err == nil {
				sp.notif = m.Body.(*bgp.BGPNotification)
			}
		}
		sp.mu.Unlock()
	}
}

func e2eHandshakeRaw(sp *simSpeaker, mine net.Conn) error {
	sp.mu.Lock()
	sp.c = mine
	sp.view = map[simRouteKey]simRoute{}
	sp.eor = map[bgp.Family]int{}
	sp.notif = nil
	sp.closedErr = nil
	sp.done = make(chan struct{})
	sp.mu.Unlock()
	hd, body, err := simReadMsgRaw(mine)
	if err != nil {
		return fmt.Errorf("read OPEN: %w", err)
	}
	m, err := bgp.ParseBGPBody(hd, body)
	if err != nil {
		return fmt.Errorf("parse OPEN: %w", err)
	}
	open, ok := m.Body.(*bgp.BGPOpen)
	if !ok {
		return fmt.Errorf("expected OPEN, got type %d", hd.Type)
	}
	sp.negotiate(open)
	if err := sp.sendMsg(sp.openMsg()); err != nil {
		return err
	}
	if hd, _, err = simReadMsgRaw(mine); err != nil {
		return fmt.Errorf("read KEEPALIVE: %w", err)
	}
	if hd.Type != bgp.BGP_MSG_KEEPALIVE {
		return fmt.Errorf("expected KEEPALIVE, got type %d", hd.Type)
	}
	if err := sp.sendMsg(bgp.NewBGPKeepAliveMessage()); err != nil {
		return err
	}
	sp.readerWG.Add(1)
	go e2eRawReader(sp, mine, sp.done)
	return nil
}

func e2eBringUpRaw(sp *simSpeaker, maxTries int) error {
	var err error
	for i := 0; i < maxTries; i++ {
		gside, mine := simPipe(simLocalAddr, sp.conf.Addr, sp.conf.Port)
		sp.n.acceptCh <- gside
		if err = e2eHandshakeRaw(sp, mine); err == nil {
			synctest.Wait()
			if sp.established() {
				return nil
			}
			err = fmt.Errorf("handshake done but session not established")
		}
		sp.close()
		time.Sleep(time.Second)
	}
	return fmt.Errorf("e2e: %s did not come up after %d tries: %w", sp.conf.Addr, maxTries, err)
}
