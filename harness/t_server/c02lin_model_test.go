package server

// C02 / unit "lin" — sequential specification, partitioning, witness minimisation and overlap
// statistics for the linearizability side-check (porcupine) of the management API
// AddPath / DeletePath / ListPath. The driver (clients, server, speakers) is in c02lin_test.go.
//
// Sequential model, per prefix (partition): a register
//
//	Cur  = unique value of the API-source route currently in the Loc-RIB, 0 = absent
//	UUID = value of the AddPath whose UUID is the one the server remembers for the key, 0 = none
//
// derived from the API contract of pkg/server/server.go (AddPath / DeletePath / uuidMap):
//
//	AddPath(p, v)          always succeeds; replaces the API route of p (one API route per prefix); Cur = UUID = v
//	DeletePath(uuid of v)  succeeds iff v's UUID is the LATEST one for the key (UUID == v) -> Cur = UUID = 0;
//	                       otherwise it returns an error and has no effect
//	DeletePath(path p)     always succeeds; Cur = UUID = 0
//	DeletePath(all[,fam])  always succeeds; Cur = UUID = 0 for every prefix of the family (every family if none given);
//	                       for prefixes of OTHER families it either leaves the remembered UUID alone or forgets it
//	                       (gobgp resets the whole uuidMap) — which of the two admissible behaviours the
//	                       implementation has is measured once by a sequential probe (c02linProbeWipe)
//	ListPath(GLOBAL, p)    returns Cur
//
// Every written value is unique (client id, counter), so a UUID is identified with the value of
// the AddPath that returned it.

import (
	"fmt"
	"sort"
	"strings"
	"time"

	"github.com/anishathalye/porcupine"
)

type c02linKind uint8

const (
	c02linAdd     c02linKind = iota // AddPath(prefix, value)
	c02linDelUUID                   // DeletePath(UUIDs: [uuid returned by one's own AddPath of Val])
	c02linDelPath                   // DeletePath(Paths: [prefix])
	c02linDelAll                    // DeletePath(DeleteAll, DeleteFamily)
	c02linList                      // ListPath(GLOBAL, exact prefix lookup)
	c02linListAll                   // ListPath(GLOBAL, whole family table)
)

var c02linKindName = [...]string{"add", "del-uuid", "del-path", "del-all", "list", "list-all"}

func (k c02linKind) String() string { return c02linKindName[k] }

// c02linOp is one recorded operation at the client boundary.
type c02linOp struct {
	Client  int
	Kind    c02linKind
	Pfx     int    // index into the case's pool; -1 for del-all / list-all
	Fam     int    // del-all: 0 = every family, 4, 6; list-all: 4 or 6
	Val     uint32 // add: value written; del-uuid: value of the AddPath whose UUID is used
	Call    int64
	Ret     int64
	OK      bool           // reply without error
	Unknown bool           // reply missing / unexpected error: effect and output unknown, stays open to the end
	Err     string         // error text of the reply, if any
	Seen    map[int]uint32 // list / list-all: pool index -> value of the API route seen (absent = not in map)
}

// projected operation inside one partition (one prefix)
type c02linPIn struct {
	Kind      c02linKind
	Val       uint32
	ClearCur  bool // del-all projected on this prefix
	ClearUUID bool
	Orig      int // index into the case's op list (diagnostics only; never used by Step)
}

type c02linPOut struct {
	OK      bool
	Val     uint32
	Unknown bool
}

type c02linState struct{ Cur, UUID uint32 }

func c02linStep(st, in, out interface{}) (bool, interface{}) {
	s, i, o := st.(c02linState), in.(c02linPIn), out.(c02linPOut)
	switch i.Kind {
	case c02linAdd:
		return true, c02linState{i.Val, i.Val}
	case c02linDelUUID:
		hit := s.UUID == i.Val && s.Cur != 0
		if !o.Unknown && o.OK != hit {
			return false, s
		}
		if hit {
			return true, c02linState{}
		}
		return true, s
	case c02linDelPath:
		return true, c02linState{}
	case c02linDelAll:
		n := s
		if i.ClearCur {
			n.Cur = 0
		}
		if i.ClearUUID {
			n.UUID = 0
		}
		return true, n
	default: // list, list-all
		return o.Unknown || o.Val == s.Cur, s
	}
}

// c02linPoolFam[i] is 4 or 6 for pool entry i; wipe = DeleteAll(family) forgets the UUIDs of the other families too.
type c02linSpec struct {
	PoolFam []int
	Wipe    bool
}

// project returns the projection of op on pool entry p, or ok=false when op does not concern p.
func (sp c02linSpec) project(op c02linOp, idx, p int) (porcupine.Operation, bool) {
	in := c02linPIn{Kind: op.Kind, Val: op.Val, Orig: idx}
	out := c02linPOut{OK: op.OK, Unknown: op.Unknown}
	switch op.Kind {
	case c02linDelAll:
		in.ClearCur = op.Fam == 0 || op.Fam == sp.PoolFam[p]
		in.ClearUUID = in.ClearCur || sp.Wipe
		if !in.ClearCur && !in.ClearUUID {
			return porcupine.Operation{}, false
		}
	case c02linListAll:
		if op.Fam != sp.PoolFam[p] {
			return porcupine.Operation{}, false
		}
		out.Val = op.Seen[p]
	case c02linList:
		if op.Pfx != p {
			return porcupine.Operation{}, false
		}
		out.Val = op.Seen[p]
	default:
		if op.Pfx != p {
			return porcupine.Operation{}, false
		}
	}
	return porcupine.Operation{ClientId: op.Client, Input: in, Call: op.Call, Output: out, Return: op.Ret}, true
}

func (sp c02linSpec) partition(ops []c02linOp, p int) []porcupine.Operation {
	var h []porcupine.Operation
	for i, op := range ops {
		if po, ok := sp.project(op, i, p); ok {
			h = append(h, po)
		}
	}
	return h
}

// c02linWhole wraps a case's operations so that the whole history goes through Model.Partition.
type c02linWhole struct {
	Op  c02linOp
	Idx int
}

func (sp c02linSpec) model() porcupine.Model {
	return porcupine.Model{
		// A history of multi-prefix operations (del-all, list-all) is linearizable only if each of its
		// per-prefix projections is: the partitions below are those projections (necessary condition;
		// cross-prefix atomicity of del-all / list-all is not decided here).
		Partition: func(history []porcupine.Operation) [][]porcupine.Operation {
			if len(history) == 0 {
				return nil
			}
			if _, already := history[0].Input.(c02linPIn); already {
				return [][]porcupine.Operation{history}
			}
			parts := make([][]porcupine.Operation, len(sp.PoolFam))
			for _, h := range history {
				w := h.Input.(c02linWhole)
				for p := range sp.PoolFam {
					if po, ok := sp.project(w.Op, w.Idx, p); ok {
						parts[p] = append(parts[p], po)
					}
				}
			}
			var out [][]porcupine.Operation
			for _, p := range parts {
				if len(p) > 0 {
					out = append(out, p)
				}
			}
			return out
		},
		Init: func() interface{} { return c02linState{} },
		Step: c02linStep,
		DescribeOperation: func(in, out interface{}) string {
			i, ok := in.(c02linPIn)
			if !ok {
				return fmt.Sprint(in)
			}
			return c02linDescribe(i, out.(c02linPOut))
		},
		DescribeState: func(st interface{}) string {
			s := st.(c02linState)
			return fmt.Sprintf("route=%s uuid-of=%s", c02linVal(s.Cur), c02linVal(s.UUID))
		},
	}
}

func c02linVal(v uint32) string {
	if v == 0 {
		return "absent"
	}
	return fmt.Sprintf("c%d#%d", int(v>>16)-1, v&0xffff)
}

func c02linDescribe(i c02linPIn, o c02linPOut) string {
	res := "ok"
	if o.Unknown {
		res = "?"
	} else if !o.OK {
		res = "error"
	}
	switch i.Kind {
	case c02linAdd:
		return fmt.Sprintf("add(%s) -> %s", c02linVal(i.Val), res)
	case c02linDelUUID:
		return fmt.Sprintf("del-uuid(of %s) -> %s", c02linVal(i.Val), res)
	case c02linDelPath:
		return "del-path -> " + res
	case c02linDelAll:
		return fmt.Sprintf("del-all(route:%v uuid:%v) -> %s", i.ClearCur, i.ClearUUID, res)
	}
	if o.Unknown {
		return i.Kind.String() + " -> ?"
	}
	return fmt.Sprintf("%s -> %s", i.Kind, c02linVal(o.Val))
}

// ---------------------------------------------------------------- verdict per case

type c02linVerdict struct {
	Result    porcupine.CheckResult
	Partition int                   // failing pool index (first one)
	Minimal   []porcupine.Operation // minimised witness history of that partition
	Full      []porcupine.Operation
	Pattern   string
	Info      porcupine.LinearizationInfo

	Joint          bool // the violation is one of the joint history (all partitions are fine on their own)
	JointRan       bool
	JointUndecided bool
}

// c02linKO returns kind and output of a projected or a whole operation.
func c02linKO(po porcupine.Operation) (c02linKind, c02linPOut) {
	o := po.Output.(c02linPOut)
	switch i := po.Input.(type) {
	case c02linPIn:
		return i.Kind, o
	case c02linWhole:
		if i.Op.Kind == c02linList {
			o.Val = i.Op.Seen[i.Op.Pfx]
		}
		return i.Op.Kind, o
	}
	panic("c02lin: unknown input type")
}

// observation-only operations: no effect on the register, so dropping one from an illegal history
// is sound (a linearization of the full history restricted to the rest is a linearization of the rest).
func c02linRemovable(po porcupine.Operation) bool {
	k, o := c02linKO(po)
	switch k {
	case c02linList, c02linListAll:
		return true
	case c02linDelUUID:
		return !o.Unknown && !o.OK
	}
	return false
}

func c02linConstrained(po porcupine.Operation) bool {
	k, o := c02linKO(po)
	if o.Unknown {
		return false
	}
	return k == c02linList || k == c02linListAll || k == c02linDelUUID
}

// c02linCutTail drops operations invoked after every output-constrained operation has returned:
// they are linearized after all of those in any linearization and accept every state themselves.
func c02linCutTail(h []porcupine.Operation) []porcupine.Operation {
	var last int64 = -1
	for _, po := range h {
		if c02linConstrained(po) && po.Return > last {
			last = po.Return
		}
	}
	out := h[:0:0]
	for _, po := range h {
		if po.Call <= last {
			out = append(out, po)
		}
	}
	return out
}

func c02linMinimise(m porcupine.Model, h []porcupine.Operation, timeout time.Duration) []porcupine.Operation {
	illegal := func(x []porcupine.Operation) bool {
		return porcupine.CheckOperationsTimeout(m, x, timeout) == porcupine.Illegal
	}
	cur := c02linCutTail(h)
	if !illegal(cur) {
		cur = h
	}
	for i := len(cur) - 1; i >= 0; i-- {
		if !c02linRemovable(cur[i]) {
			continue
		}
		cand := append(append([]porcupine.Operation{}, cur[:i]...), cur[i+1:]...)
		if illegal(cand) {
			cur = cand
		}
	}
	if t := c02linCutTail(cur); len(t) < len(cur) && illegal(t) {
		cur = t
	}
	return cur
}

// c02linPattern names the observation kinds that remain in the minimal witness.
func c02linPattern(min []porcupine.Operation) string {
	set := map[string]bool{}
	hit := false
	for _, po := range min {
		k, o := c02linKO(po)
		if o.Unknown {
			continue
		}
		switch k {
		case c02linList:
			if o.Val == 0 {
				set["list=absent"] = true
			} else {
				set["list=value"] = true
			}
		case c02linListAll:
			if _, whole := po.Input.(c02linWhole); whole {
				set["list-all"] = true
			} else if o.Val == 0 {
				set["list-all=absent"] = true
			} else {
				set["list-all=value"] = true
			}
		case c02linDelUUID:
			if o.OK {
				hit = true
			} else {
				set["del-uuid=error"] = true
			}
		}
	}
	if len(set) == 0 {
		if hit {
			return "del-uuid=ok"
		}
		return "history"
	}
	ks := make([]string, 0, len(set))
	for k := range set {
		ks = append(ks, k)
	}
	sort.Strings(ks)
	return strings.Join(ks, "+")
}

// ---------------------------------------------------------------- joint model (no partitioning)

// c02linJoint is the state of all registers of the pool; del-all and list-all are single atomic
// operations on it (what the per-prefix projections cannot express).
type c02linJoint struct{ R [8]c02linState }

func (sp c02linSpec) jointModel() porcupine.Model {
	return porcupine.Model{
		Init: func() interface{} { return c02linJoint{} },
		Step: func(st, in, out interface{}) (bool, interface{}) {
			s, w := st.(c02linJoint), in.(c02linWhole)
			for p := range sp.PoolFam {
				po, ok := sp.project(w.Op, w.Idx, p)
				if !ok {
					continue
				}
				ok, ns := c02linStep(s.R[p], po.Input, po.Output)
				if !ok {
					return false, st
				}
				s.R[p] = ns.(c02linState)
			}
			return true, s
		},
		DescribeOperation: func(in, out interface{}) string { return c02linDescribeWhole(in.(c02linWhole).Op) },
		DescribeState: func(st interface{}) string {
			s := st.(c02linJoint)
			var b strings.Builder
			for p := range sp.PoolFam {
				fmt.Fprintf(&b, "[%d: %s/%s] ", p, c02linVal(s.R[p].Cur), c02linVal(s.R[p].UUID))
			}
			return b.String()
		},
	}
}

func c02linDescribeWhole(op c02linOp) string {
	res := "ok"
	if op.Unknown {
		res = "?"
	} else if !op.OK {
		res = "error"
	}
	switch op.Kind {
	case c02linAdd:
		return fmt.Sprintf("add(p%d, %s) -> %s", op.Pfx, c02linVal(op.Val), res)
	case c02linDelUUID:
		return fmt.Sprintf("del-uuid(p%d, of %s) -> %s", op.Pfx, c02linVal(op.Val), res)
	case c02linDelPath:
		return fmt.Sprintf("del-path(p%d) -> %s", op.Pfx, res)
	case c02linDelAll:
		return fmt.Sprintf("del-all(family %d) -> %s", op.Fam, res)
	case c02linList:
		if op.Unknown {
			return fmt.Sprintf("list(p%d) -> ?", op.Pfx)
		}
		return fmt.Sprintf("list(p%d) -> %s", op.Pfx, c02linVal(op.Seen[op.Pfx]))
	}
	if op.Unknown {
		return fmt.Sprintf("list-all(family %d) -> ?", op.Fam)
	}
	ks := make([]int, 0, len(op.Seen))
	for p := range op.Seen {
		ks = append(ks, p)
	}
	sort.Ints(ks)
	var b strings.Builder
	for _, p := range ks {
		fmt.Fprintf(&b, " p%d=%s", p, c02linVal(op.Seen[p]))
	}
	return fmt.Sprintf("list-all(family %d) ->%s (others absent)", op.Fam, b.String())
}

// c02linCheck decides one case: the whole history through Model.Partition first; on Illegal the
// failing partition is located, minimised and named.
func c02linCheck(sp c02linSpec, ops []c02linOp, timeout, jointTimeout time.Duration) c02linVerdict {
	m := sp.model()
	multi := false
	for _, op := range ops {
		if op.Kind == c02linDelAll || op.Kind == c02linListAll {
			multi = true
		}
	}
	whole := make([]porcupine.Operation, len(ops))
	for i, op := range ops {
		whole[i] = porcupine.Operation{ClientId: op.Client, Input: c02linWhole{op, i}, Call: op.Call, Output: c02linPOut{OK: op.OK, Unknown: op.Unknown}, Return: op.Ret}
	}
	v := c02linVerdict{Partition: -1}
	v.Result = porcupine.CheckOperationsTimeout(m, whole, timeout)
	if v.Result == porcupine.Ok && multi {
		// every per-prefix projection is linearizable: now the joint history, in which del-all and
		// list-all are single atomic operations over all prefixes. An undecided joint check only
		// loses this extra (v.JointUndecided), the per-prefix verdict stands.
		jm := sp.jointModel()
		res, info := porcupine.CheckOperationsVerbose(jm, whole, jointTimeout)
		v.JointRan = true
		switch res {
		case porcupine.Unknown:
			v.JointUndecided = true
		case porcupine.Illegal:
			v.Result, v.Joint, v.Full, v.Info = porcupine.Illegal, true, whole, info
			v.Minimal = c02linMinimise(jm, whole, jointTimeout)
			v.Pattern = c02linPattern(v.Minimal)
		}
		return v
	}
	if v.Result != porcupine.Illegal {
		return v
	}
	for p := range sp.PoolFam {
		h := sp.partition(ops, p)
		if len(h) == 0 {
			continue
		}
		res, info := porcupine.CheckOperationsVerbose(m, h, timeout)
		if res == porcupine.Illegal {
			v.Partition, v.Full, v.Info = p, h, info
			v.Minimal = c02linMinimise(m, h, timeout)
			v.Pattern = c02linPattern(v.Minimal)
			return v
		}
	}
	// whole-history check said Illegal but no single partition reproduces it within the timeout
	v.Result = porcupine.Unknown
	return v
}

func c02linHistoryJSON(h []porcupine.Operation) []map[string]any {
	hh := append([]porcupine.Operation{}, h...)
	sort.Slice(hh, func(a, b int) bool { return hh[a].Call < hh[b].Call })
	out := make([]map[string]any, 0, len(hh))
	for _, po := range hh {
		switch i := po.Input.(type) {
		case c02linPIn:
			out = append(out, map[string]any{"client": po.ClientId, "call": po.Call, "return": po.Return, "op": c02linDescribe(i, po.Output.(c02linPOut)), "n": i.Orig})
		case c02linWhole:
			out = append(out, map[string]any{"client": po.ClientId, "call": po.Call, "return": po.Return, "op": c02linDescribeWhole(i.Op), "n": i.Idx})
		}
	}
	return out
}

// ---------------------------------------------------------------- overlap statistics

func c02linIsWrite(k c02linKind) bool { return k <= c02linDelAll }

type c02linOverlap struct {
	OpsOverlapping  int            // operations whose [Call, Return] intersects that of another operation
	MaxWidth        int            // largest number of operations outstanding at once
	WritePairs      map[string]int // "kindA/kindB" -> overlapping write pairs on one prefix
	ReadWritePairs  int            // a read overlapping a write of the same prefix
	WritesOverlapOn int            // prefixes on which >= 2 writes overlapped
}

func c02linOverlaps(sp c02linSpec, ops []c02linOp) c02linOverlap {
	st := c02linOverlap{WritePairs: map[string]int{}}
	type ev struct {
		t    int64
		call bool
	}
	var evs []ev
	for _, op := range ops {
		evs = append(evs, ev{op.Call, true}, ev{op.Ret, false})
	}
	sort.Slice(evs, func(a, b int) bool {
		if evs[a].t != evs[b].t {
			return evs[a].t < evs[b].t
		}
		return evs[a].call && !evs[b].call
	})
	w := 0
	for _, e := range evs {
		if e.call {
			w++
			if w > st.MaxWidth {
				st.MaxWidth = w
			}
		} else {
			w--
		}
	}
	over := make([]bool, len(ops))
	touches := func(op c02linOp, p int) bool {
		switch op.Kind {
		case c02linDelAll:
			return op.Fam == 0 || op.Fam == sp.PoolFam[p] || sp.Wipe
		case c02linListAll:
			return op.Fam == sp.PoolFam[p]
		}
		return op.Pfx == p
	}
	onPfx := map[int]bool{}
	for a := 0; a < len(ops); a++ {
		for b := a + 1; b < len(ops); b++ {
			x, y := ops[a], ops[b]
			if x.Call > y.Ret || y.Call > x.Ret {
				continue
			}
			over[a], over[b] = true, true
			for p := range sp.PoolFam {
				if !touches(x, p) || !touches(y, p) {
					continue
				}
				wx, wy := c02linIsWrite(x.Kind), c02linIsWrite(y.Kind)
				switch {
				case wx && wy:
					ka, kb := x.Kind.String(), y.Kind.String()
					if ka > kb {
						ka, kb = kb, ka
					}
					st.WritePairs[ka+"/"+kb]++
					onPfx[p] = true
				case wx != wy:
					st.ReadWritePairs++
				}
			}
		}
	}
	for _, o := range over {
		if o {
			st.OpsOverlapping++
		}
	}
	st.WritesOverlapOn = len(onPfx)
	return st
}

func c02linBucket(n int) string {
	switch {
	case n == 0:
		return "0"
	case n == 1:
		return "1"
	case n <= 3:
		return "2-3"
	case n <= 7:
		return "4-7"
	case n <= 15:
		return "8-15"
	case n <= 31:
		return "16-31"
	}
	return "32+"
}

// signature of the overlap pattern of a case (distinctness key together with the client count)
func (st c02linOverlap) signature() string {
	ks := make([]string, 0, len(st.WritePairs))
	for k, n := range st.WritePairs {
		b := "few"
		if n >= 8 {
			b = "many"
		}
		ks = append(ks, k+":"+b)
	}
	sort.Strings(ks)
	return strings.Join(ks, ",") + "|w" + c02linBucket(st.MaxWidth)
}
