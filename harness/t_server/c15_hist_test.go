package server

// C15, multi-round histories on one daemon: several policy changes in a row, each followed by a
// re-evaluation trigger chosen independently of the earlier rounds (ROUTE-REFRESH from the
// speaker(s), ResetPeer soft in / out / both, one peer or all), and after EVERY round the whole
// state (ADJ_IN, Loc-RIB, ADJ_OUT, what each speaker holds) is compared with a fresh daemon that had
// that round's program in force from the start. Half of the later rounds take the object touched by
// the round before back to what it was (relax <-> tighten the same set / assignment / policy), so
// that routes first advertised by one kind of trigger have to be withdrawn by another: this is
// where the bookkeeping of what a peer has been sent (peer.sentPaths) must be right whoever wrote it.

import (
	"fmt"
	"os"
	"strings"
	"testing"
	"testing/synctest"

	"github.com/osrg/gobgp/v4/api"
	"github.com/osrg/gobgp/v4/internal/verif/vlib"
	"github.com/osrg/gobgp/v4/pkg/packet/bgp"
)

type c15Round struct {
	changes []*c15Change
	prog    *c15Prog // program in force after the round's changes
	reset   c15Reset
	inverse bool // the changes undo the changes of the round before
	split   bool // ROUTE-REFRESH: one family at a time, IPv6 first, quiescence in between
}

func (r c15Round) kinds() string {
	var ks []string
	for _, ch := range r.changes {
		ks = append(ks, ch.Kind+"/"+c15DirName(ch.Dir))
	}
	return strings.Join(ks, "+")
}

func (r c15Round) describe() string {
	var calls []string
	for _, ch := range r.changes {
		for _, call := range ch.Calls {
			calls = append(calls, fmt.Sprintf("[%s %s affects=%s] %s", ch.Kind, c15DirName(ch.Dir), ch.Affected, call.Desc))
		}
	}
	inv := ""
	if r.inverse {
		inv = " (takes the previous round's change back)"
	}
	return fmt.Sprintf("%s%s ; then %s target=%s split=%v", strings.Join(calls, " ; "), inv, r.reset.Kind, r.reset.Target, r.split)
}

// c15GenRounds draws 2-4 rounds against the base case c.
func c15GenRounds(c *c15Case) []c15Round {
	r := c.r
	n := 2 + r.IntN(3)
	var rounds []c15Round
	prog := c.p1
	for k := 1; k <= n; k++ {
		next := prog.clone()
		rd := c15Round{}
		if k > 1 && r.IntN(2) == 0 {
			rd.inverse = true
			for _, ch := range rounds[k-2].changes {
				rd.changes = append(rd.changes, ch.inverse(next, k))
			}
		} else {
			var dirs []api.PolicyDirection
			switch x := r.IntN(20); {
			case c.apTarget >= 0:
				// With an ADD-PATH-send neighbour only the export side changes. A soft reset in that
				// re-imports a path with other attributes which the export policy rejects leaves the old
				// version at an ADD-PATH peer: that is the known defect of the incremental ADD-PATH
				// fan-out (C01: stale path after a filtered version), not the reset under test here.
				dirs = []api.PolicyDirection{c15Export}
			case x < 6:
				dirs = []api.PolicyDirection{c15Import}
			case x < 17:
				dirs = []api.PolicyDirection{c15Export}
			default:
				dirs = []api.PolicyDirection{c15Import, c15Export}
			}
			for _, d := range dirs {
				if ch := c.genChange(next, d); ch != nil {
					rd.changes = append(rd.changes, ch)
				}
			}
		}
		rd.prog = next
		aff := "none"
		hasIn, hasOut := false, false
		for _, ch := range rd.changes {
			aff = c15Union(aff, ch.Affected)
			hasIn = hasIn || ch.Dir == c15Import
			hasOut = hasOut || ch.Dir == c15Export
		}
		// the trigger: any that covers the directions changed, drawn afresh every round
		x := r.IntN(10)
		switch {
		case hasIn && hasOut:
			rd.reset.Kind = "soft-both"
		case hasIn:
			rd.reset.Kind = "soft-in"
			if x < 2 {
				rd.reset.Kind = "soft-both"
			}
		default:
			switch {
			case x < 5:
				rd.reset.Kind = "route-refresh"
				rd.split = r.IntN(3) == 0
			case x < 9:
				rd.reset.Kind = "soft-out"
			default:
				rd.reset.Kind = "soft-both"
			}
		}
		rd.reset.Target = "all"
		if aff != "all" && aff != "none" && r.IntN(10) < 6 {
			rd.reset.Target = aff
		}
		rounds = append(rounds, rd)
		prog = next
	}
	return rounds
}

func (ru *c15Run) doRoundReset(rd c15Round) error {
	c := ru.c
	if rd.reset.Kind != "route-refresh" {
		dir := api.ResetPeerRequest_DIRECTION_BOTH
		switch rd.reset.Kind {
		case "soft-in":
			dir = api.ResetPeerRequest_DIRECTION_IN
		case "soft-out":
			dir = api.ResetPeerRequest_DIRECTION_OUT
		}
		return ru.n.s.ResetPeer(c15Ctx, &api.ResetPeerRequest{Address: rd.reset.Target, Soft: true, Direction: dir})
	}
	fams := []bgp.Family{bgp.RF_IPv4_UC, bgp.RF_IPv6_UC, bgp.RF_IPv4_VPN}
	if rd.split {
		fams = []bgp.Family{bgp.RF_IPv4_VPN, bgp.RF_IPv6_UC, bgp.RF_IPv4_UC}
	}
	for _, f := range fams {
		for i, ps := range c.peers {
			if rd.reset.Target != "all" && rd.reset.Target != ps.Addr {
				continue
			}
			for _, g := range c.peerFams(i) {
				if g == f {
					if err := ru.sps[i].sendMsg(bgp.NewBGPRouteRefreshMessage(f.Afi(), 0, f.Safi())); err != nil {
						return err
					}
				}
			}
		}
		if rd.split {
			synctest.Wait()
		}
	}
	return nil
}

type c15HistResult struct {
	err      error
	a0       *c15Snap
	snaps    []*c15Snap // after each round
	readback [][]string
}

func c15RunHistory(t *testing.T, c *c15Case, rounds []c15Round, upto int) (res c15HistResult) {
	ru, err := c15Setup(t, c, c.p1)
	defer func() {
		ru.n.stop()
		synctest.Wait()
	}()
	if err != nil {
		res.err = err
		return
	}
	if res.err = ru.announce(c.routes); res.err != nil {
		return
	}
	if res.a0, res.err = ru.snapshot(); res.err != nil {
		return
	}
	for k, rd := range rounds {
		if k >= upto {
			break
		}
		for _, ch := range rd.changes {
			for _, call := range ch.Calls {
				if err := call.Do(ru.n.s); err != nil {
					res.err = fmt.Errorf("round %d: %s: %w", k+1, call.Desc, err)
					return
				}
			}
		}
		res.readback = append(res.readback, ru.readbackFor(rd.changes, rd.prog))
		if res.err = ru.doRoundReset(rd); res.err != nil {
			return
		}
		synctest.Wait()
		sn, err := ru.snapshot()
		if err != nil {
			res.err = err
			return
		}
		res.snaps = append(res.snaps, sn)
	}
	return
}

func c15HistoryCase(t *testing.T, rec *vlib.Rec, idx int) {
	r := vlib.CaseRand("c15h", idx)
	c := c15GenCaseMode(idx, r, true)
	c15RunHistoryCase(t, rec, idx, c, "")
}

// c15RunHistoryCase: fam "" = plain topologies, "vrf" = VRF neighbours behind VPN-speaking peers
// (violation keys and counters carry the family name).
func c15RunHistoryCase(t *testing.T, rec *vlib.Rec, idx int, c *c15Case, fam string) {
	rounds := c15GenRounds(c)
	famSfx, famPfx := "", ""
	if fam != "" {
		famSfx, famPfx = ":"+fam, fam+"_"
	}
	var a c15HistResult
	synctest.Test(t, func(t *testing.T) { a = c15RunHistory(t, c, rounds, len(rounds)) })
	if a.err != nil {
		t.Fatalf("c15 harness: history %d run A: %v", idx, a.err)
	}
	rec.Eval()
	rec.Count(famPfx+"histories", 1)
	if len(a.a0.anom) > 0 {
		rec.Inconclusive(fmt.Sprintf("c15: history %d: anomaly before the first change: %v", idx, a.a0.anom))
		return
	}
	witness := func(k int) map[string]any {
		w := c.witness()
		delete(w, "change_calls")
		delete(w, "P2")
		delete(w, "reset")
		var rs []string
		for i := 0; i <= k; i++ {
			rs = append(rs, fmt.Sprintf("round %d: %s", i+1, rounds[i].describe()))
		}
		w["history"] = true
		w["rounds_so_far"] = rs
		w["failing_round"] = k + 1
		w["program_in_force"] = rounds[k].prog.describe()
		return w
	}
	prev := a.a0
	for k, rd := range rounds {
		ak := a.snaps[k]
		// ---- the fresh evaluation: a new daemon with this round's program from the start
		cc := *c
		cc.p2, cc.changes = rd.prog, rd.changes
		var b *c15Snap
		var berr error
		var brb []string
		synctest.Test(t, func(t *testing.T) {
			ru, err := c15Setup(t, &cc, rd.prog)
			defer func() {
				ru.n.stop()
				synctest.Wait()
			}()
			if err != nil {
				berr = err
				return
			}
			if berr = ru.announce(c.routes); berr != nil {
				return
			}
			brb = ru.readbackFor(rd.changes, rd.prog)
			b, berr = ru.snapshot()
		})
		if berr != nil {
			t.Fatalf("c15 harness: history %d round %d run B: %v", idx, k+1, berr)
		}
		if strings.Join(a.readback[k], "\n") != strings.Join(brb, "\n") {
			rec.Inconclusive(fmt.Sprintf("c15: history %d round %d: read-back after the change (run A) differs from a fresh install (run B): A=%v B=%v", idx, k+1, a.readback[k], brb))
			return
		}
		if pat := os.Getenv("VERIF_C15_DUMP"); pat != "" {
			for _, x := range []struct {
				n string
				s *c15Snap
			}{{"A0", a.a0}, {fmt.Sprintf("A%d", k+1), ak}, {fmt.Sprintf("B%d", k+1), b}} {
				for vn, v := range x.s.views {
					for key, val := range v {
						if strings.Contains(key, pat) {
							fmt.Printf("C15DUMP %s %s %s = %s\n", x.n, vn, key, val)
						}
					}
				}
			}
			fmt.Printf("C15DUMP round %d: %s\n", k+1, rd.describe())
		}
		tgt := "one"
		if rd.reset.Target == "all" {
			tgt = "all"
		}
		rec.Count(famPfx+"rounds", 1)
		if c.apTarget >= 0 {
			rec.Count("rounds_with_addpath_target", 1)
			if rd.reset.Target == "all" || rd.reset.Target == c.peers[c.apTarget].Addr {
				rec.Count("rounds_addpath_target_"+rd.reset.Kind, 1)
			}
		}
		rec.Count(famPfx+"round_reset_"+rd.reset.Kind+"_"+tgt, 1)
		if rd.inverse {
			rec.Count("rounds_taking_previous_change_back", 1)
		}
		if rd.split {
			rec.Count("rounds_refresh_per_family", 1)
		}
		sfx := famSfx
		if k > 0 {
			sfx += ":after-" + rounds[k-1].reset.Kind
			rec.Count("round_"+rd.reset.Kind+"_after_"+rounds[k-1].reset.Kind, 1)
		}
		pats := c15Patterns(prev, b)
		for _, p := range pats {
			rec.Count("round_pattern_"+p, 1)
		}
		if len(pats) > 0 {
			rec.Count(famPfx+"nontrivial_rounds", 1)
			rec.Nontrivial("hist"+famSfx+"|" + strings.Join(pats, ",") + "|" + rd.reset.Kind + sfx + "|" + rd.kinds())
		}
		n := 0
		for _, v := range b.views {
			n += len(v)
		}
		rec.Count("routes_compared", n)
		if len(b.anom) > 0 {
			rec.Inconclusive(fmt.Sprintf("c15: history %d round %d: anomaly in the reference run: %v", idx, k+1, b.anom))
			return
		}
		if len(ak.anom) > 0 {
			w := witness(k)
			w["anomalies"] = ak.anom
			rec.Violation("c15:"+rd.reset.Kind+":"+strings.SplitN(ak.anom[0], ":", 2)[0]+sfx, fmt.Sprintf("round %d, after policy change + %s: %v", k+1, rd.reset.Kind, ak.anom), w)
			return
		}
		// peers whose wire view is no reference (property C01 broken without any change): left out
		tainted := map[string]bool{}
		for rn, s := range map[string]*c15Snap{"A-before-change": a.a0, "B": b} {
			for i, ps := range c.peers {
				if i == c.apTarget {
					continue // no fresh ADJ_OUT view of an ADD-PATH neighbour (see snapshot)
				}
				if ds := c15Compare(&c15Snap{views: map[string]c15View{"x": s.views["wire@"+ps.Addr]}}, &c15Snap{views: map[string]c15View{"x": s.views["adj-out@"+ps.Addr]}}, nil, nil); len(ds) > 0 {
					tainted["wire@"+ps.Addr] = true
					rec.Count(famPfx+"precondition_wire_ne_adjout_run_"+rn, 1)
					if os.Getenv("VERIF_C15_TAINT") != "" {
						fmt.Printf("C15TAINT %shistory %d round %d run %s peer %s: %v\n", famPfx, idx, k+1, rn, ps.Addr, c15DiffStrings(ds, 4))
					}
				}
			}
		}
		if ds := c15Compare(ak, b, prev, func(v string) bool { return !tainted[v] }); len(ds) > 0 {
			view, _ := c15Pick(ds)
			hows := map[string][]c15Diff{}
			for _, d := range ds {
				if c15ViewClass(d.View) == view {
					hows[d.How] = append(hows[d.How], d)
				}
			}
			for _, how := range c15HowPrio {
				hd := hows[how]
				if len(hd) == 0 {
					continue
				}
				key := "c15:" + rd.reset.Kind + ":" + view + ":" + how + sfx
				if view == "wire" && c.apTarget >= 0 {
					only := true
					for _, d := range hd {
						only = only && d.View == "wire@"+c.peers[c.apTarget].Addr
					}
					if only {
						key = "c15:" + rd.reset.Kind + ":wire-addpath:" + how + sfx
					}
				}
				what := fmt.Sprintf("round %d of a history on one daemon: after the policy change and %s (target %s) the daemon differs from a fresh one with the same program from the start: ", k+1, rd.reset.Kind, rd.reset.Target)
				if view == "adj-in" || view == "adj-out" {
					dname := map[string]string{"adj-in": "import", "adj-out": "export"}[view]
					var ks []string
					for _, ch := range rd.changes {
						if c15DirName(ch.Dir) == dname {
							ks = append(ks, ch.Kind)
						}
					}
					if len(ks) == 0 {
						ks = []string{"none"}
					}
					key = "c15:change-not-effective:" + strings.Join(ks, "+") + ":" + dname + famSfx
					if k > 0 {
						key += ":later-round"
					}
					what = fmt.Sprintf("round %d: the %s policy gobgp evaluates after the change is not the program in force (freshly evaluated %s differs from a fresh daemon): ", k+1, dname, view)
				}
				w := witness(k)
				w["readback_after_change_runA"] = a.readback[k]
				w["diff_A_vs_B_this_class"] = c15DiffStrings(hd, 25)
				w["diff_A_vs_B_all_views"] = c15DiffStrings(ds, 40)
				rec.Violation(key, what+strings.Join(c15DiffStrings(hd, 6), " || "), w)
				if view == "adj-in" || view == "adj-out" {
					break
				}
			}
			return // later rounds would only inherit the damage
		}
		rec.Count(famPfx+"rounds_equal", 1)
		prev = ak
	}
	if idx%53 == 3 {
		w := witness(len(rounds) - 1)
		delete(w, "routes_in_order")
		delete(w, "program_in_force")
		delete(w, "P1")
		rec.Sample(w)
	}
}
