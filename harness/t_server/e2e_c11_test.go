package server

// C11, unit "e2e" — UPDATE packing through the real sendMessageloop behind a slow reader.
//
// One scenario = one real BgpServer (virtual time), two eBGP sources S1/S2 and one eBGP target T whose session
// is drawn from {ADD-PATH on/off} x {Extended Message on/off} x {Graceful Restart (End-of-RIB) on/off} x {T is
// up from the start / T comes up when the table is already filled}. T stops reading (the pause takes effect
// after the read in progress, so the SECOND filler message blocks gobgp's sender), the sources make k in [2,400]
// route changes (announce / replace / withdraw of single routes with repeated keys, and of groups of up to ~250
// prefixes sharing one attribute set of up to ~3.9 KB so that T's messages have to be split; attribute sets from
// one community to several KB; IPv4 and IPv6; routes within a few octets of T's limit; oversize routes learned
// over S1's extended-message session), T resumes. Judged on T's raw octets: every message within the session's
// limit (length read from the raw header), every announced prefix carries an attribute set that prefix was
// announced with (attribute sets carry a version tag), the accumulated view equals the last action per key
// (reference kept by the harness) and gobgp's fresh ADJ_OUT evaluation, End-of-RIB markers arrive, oversize
// routes are skipped while everything else arrives and all sessions survive.

import (
	"encoding/binary"
	"fmt"
	"math/rand/v2"
	"net/netip"
	"sort"
	"strings"
	"testing"
	"testing/synctest"

	"github.com/osrg/gobgp/v4/api"
	"github.com/osrg/gobgp/v4/internal/verif/vlib"
	"github.com/osrg/gobgp/v4/pkg/packet/bgp"
)

const (
	e2eC11S1AS = 65001
	e2eC11S2AS = 65002
	e2eC11TAS  = 65010
)

// e2eC11Ver is one attribute set as a source announces it (identified by its tag, the first community).
type e2eC11Ver struct {
	src    string
	srcAS  uint32
	tag    uint32
	ncomm  int // communities including the tag
	med    bool
	extra  []uint32 // AS_PATH after the source's AS
	origin uint8
}

func (v *e2eC11Ver) comms() []uint32 {
	c := make([]uint32, 0, v.ncomm)
	c = append(c, v.tag)
	for i := 1; i < v.ncomm; i++ {
		c = append(c, uint32(0x00010000+i))
	}
	return c
}

func e2eC11AttrHdr(vlen int) int {
	if vlen > 255 {
		return 4
	}
	return 3
}

// attrsLen: octets of the attributes other than NEXT_HOP / MP_REACH_NLRI, at the source (atT=false) or as an
// eBGP target gets them (local AS prepended, MED of another AS removed).
func (v *e2eC11Ver) attrsLen(atT bool) int {
	nas := 1 + len(v.extra)
	n := 4 // ORIGIN
	if atT {
		nas++
	} else if v.med {
		n += 7
	}
	n += e2eC11AttrHdr(2+4*nas) + 2 + 4*nas
	n += e2eC11AttrHdr(4*v.ncomm) + 4*v.ncomm
	return n
}

func e2eC11NLRILen(p netip.Prefix, addPath bool) int {
	n := 1 + (p.Bits()+7)/8
	if addPath {
		n += 4
	}
	return n
}

// msgLen: the length of the UPDATE that announces exactly the given prefixes (one family) with this attribute set.
func (v *e2eC11Ver) msgLen(atT bool, pfx []netip.Prefix, addPath bool) int {
	nl := 0
	for _, p := range pfx {
		nl += e2eC11NLRILen(p, addPath)
	}
	n := 19 + 2 + 2 + v.attrsLen(atT)
	if pfx[0].Addr().Is4() {
		return n + 7 + nl // NEXT_HOP
	}
	val := 2 + 1 + 1 + 16 + 1 + nl
	return n + e2eC11AttrHdr(val) + val
}

type e2eC11Key struct {
	fam bgp.Family
	pfx string
}

type e2eC11Sc struct {
	rec  *vlib.Rec
	idx  int
	r    *rand.Rand
	n    *simNet
	sp   map[string]*simSpeaker
	ext  map[string]bool // session has Extended Message
	tAP  bool
	tExt bool
	tGR  bool
	late bool
	seq  map[string]uint32
	// reference
	cur      map[e2eC11Key]map[string]*e2eC11Ver // last announce per source, deleted on withdraw
	ever     map[e2eC11Key]map[uint32]*e2eC11Ver // every attribute set the prefix was ever announced with
	oversize map[e2eC11Key]bool                  // the prefix was (at some time) announced with a set that does not fit T's limit
	groups   map[string][]netip.Prefix           // group name -> prefixes currently making up the group
	log      []string
	events   map[string]int
}

func (sc *e2eC11Sc) logf(f string, a ...any) {
	if len(sc.log) < 600 {
		sc.log = append(sc.log, fmt.Sprintf(f, a...))
	}
}

func (sc *e2eC11Sc) limit(who string) int {
	if sc.ext[who] {
		return 65535
	}
	return 4096
}

func e2eC11Fam(p netip.Prefix) bgp.Family {
	if p.Addr().Is4() {
		return bgp.RF_IPv4_UC
	}
	return bgp.RF_IPv6_UC
}

func e2eC11Caps(as uint32, addPathRecv bool, ext, gr bool) []bgp.ParameterCapabilityInterface {
	fams := []bgp.Family{bgp.RF_IPv4_UC, bgp.RF_IPv6_UC}
	var caps []bgp.ParameterCapabilityInterface
	for _, f := range fams {
		caps = append(caps, bgp.NewCapMultiProtocol(f))
	}
	caps = append(caps, bgp.NewCapFourOctetASNumber(as))
	if addPathRecv {
		var tp []*bgp.CapAddPathTuple
		for _, f := range fams {
			tp = append(tp, bgp.NewCapAddPathTuple(f, bgp.BGP_ADD_PATH_RECEIVE))
		}
		caps = append(caps, bgp.NewCapAddPath(tp))
	}
	if ext {
		caps = append(caps, bgp.NewCapExtendedMessage())
	}
	if gr {
		var tp []*bgp.CapGracefulRestartTuple
		for _, f := range fams {
			tp = append(tp, bgp.NewCapGracefulRestartTuple(f, false))
		}
		caps = append(caps, bgp.NewCapGracefulRestart(false, false, 120, tp))
	}
	return caps
}

// announce sends the prefixes (one family) with the attribute set, in as many UPDATEs as the source's own
// limit requires, and records it in the reference.
func (sc *e2eC11Sc) announce(v *e2eC11Ver, pfx []netip.Prefix) bool {
	sp := sc.sp[v.src]
	lim := sc.limit(v.src)
	attrs := []bgp.PathAttributeInterface{bgp.NewPathAttributeOrigin(v.origin),
		bgp.NewPathAttributeAsPath([]bgp.AsPathParamInterface{bgp.NewAs4PathParam(bgp.BGP_ASPATH_ATTR_TYPE_SEQ, append([]uint32{v.srcAS}, v.extra...))})}
	if v.med {
		attrs = append(attrs, bgp.NewPathAttributeMultiExitDisc(77))
	}
	attrs = append(attrs, bgp.NewPathAttributeCommunities(v.comms()))
	v4 := pfx[0].Addr().Is4()
	for len(pfx) > 0 {
		k := 1
		for k < len(pfx) && v.msgLen(false, pfx[:k+1], false) <= lim {
			k++
		}
		chunk := pfx[:k]
		pfx = pfx[k:]
		if v.msgLen(false, chunk, false) > lim {
			sc.rec.Inconclusive(fmt.Sprintf("e2e c11: harness generated a route that does not fit the source's own limit (%d > %d)", v.msgLen(false, chunk, false), lim))
			return false
		}
		var nl []bgp.PathNLRI
		for _, p := range chunk {
			x, _ := bgp.NewIPAddrPrefix(p)
			nl = append(nl, bgp.PathNLRI{NLRI: x})
		}
		var msg *bgp.BGPMessage
		if v4 {
			nh, _ := bgp.NewPathAttributeNextHop(netip.MustParseAddr(sp.conf.Addr))
			msg = bgp.NewBGPUpdateMessage(nil, append(append([]bgp.PathAttributeInterface{}, attrs...), nh), nl)
		} else {
			mp, _ := bgp.NewPathAttributeMpReachNLRI(bgp.RF_IPv6_UC, nl, netip.MustParseAddr(simV6Of(sp.conf.Addr)))
			msg = bgp.NewBGPUpdateMessage(nil, append(append([]bgp.PathAttributeInterface{}, attrs...), mp), nil)
		}
		if err := sp.sendMsg(msg); err != nil {
			sc.rec.Inconclusive("e2e c11: source cannot send: " + err.Error())
			return false
		}
		for _, p := range chunk {
			k := e2eC11Key{e2eC11Fam(p), p.String()}
			if sc.cur[k] == nil {
				sc.cur[k] = map[string]*e2eC11Ver{}
			}
			sc.cur[k][v.src] = v
			if sc.ever[k] == nil {
				sc.ever[k] = map[uint32]*e2eC11Ver{}
			}
			sc.ever[k][v.tag] = v
			if v.msgLen(true, []netip.Prefix{p}, sc.tAP) > sc.limit("T") {
				sc.oversize[k] = true
			}
		}
	}
	return true
}

func (sc *e2eC11Sc) withdraw(src string, pfx []netip.Prefix) bool {
	sp := sc.sp[src]
	v4 := pfx[0].Addr().Is4()
	for len(pfx) > 0 {
		k := len(pfx)
		if k > 150 {
			k = 150
		}
		chunk := pfx[:k]
		pfx = pfx[k:]
		var nl []bgp.PathNLRI
		for _, p := range chunk {
			x, _ := bgp.NewIPAddrPrefix(p)
			nl = append(nl, bgp.PathNLRI{NLRI: x})
		}
		var msg *bgp.BGPMessage
		if v4 {
			msg = bgp.NewBGPUpdateMessage(nl, nil, nil)
		} else {
			mp, _ := bgp.NewPathAttributeMpUnreachNLRI(bgp.RF_IPv6_UC, nl)
			msg = bgp.NewBGPUpdateMessage(nil, []bgp.PathAttributeInterface{mp}, nil)
		}
		if err := sp.sendMsg(msg); err != nil {
			sc.rec.Inconclusive("e2e c11: source cannot send: " + err.Error())
			return false
		}
		for _, p := range chunk {
			delete(sc.cur[e2eC11Key{e2eC11Fam(p), p.String()}], src)
		}
	}
	return true
}

func (sc *e2eC11Sc) newVer(src string, ncomm int) *e2eC11Ver {
	r := sc.r
	sc.seq[src]++
	as := uint32(e2eC11S1AS)
	if src == "S2" {
		as = e2eC11S2AS
	}
	v := &e2eC11Ver{src: src, srcAS: as, tag: as<<16 | sc.seq[src]&0xffff, ncomm: ncomm, med: r.IntN(3) == 0, origin: uint8(r.IntN(3))}
	for k := r.IntN(3); k > 0; k-- {
		v.extra = append(v.extra, []uint32{64512, 100, 4200000009, 3356}[r.IntN(4)])
	}
	return v
}

// sizeClass draws the number of communities. "near" aims the single-route message at T's limit +-12 octets.
func (sc *e2eC11Sc) sizeClass(src string, p netip.Prefix) (int, string) {
	r := sc.r
	maxSrc := (sc.limit(src) - 80) / 4 // what the source can put into one message of its own
	if maxSrc > 3500 {
		maxSrc = 3500
	}
	switch k := r.IntN(100); {
	case k < 40:
		return 1 + r.IntN(4), "tiny"
	case k < 60:
		return 5 + r.IntN(60), "small"
	case k < 75:
		return 64 + r.IntN(500), "medium" // crosses the 255-octet extended-length boundary
	case k < 85:
		n := 800 + r.IntN(190)
		if n > maxSrc {
			n = maxSrc
		}
		return n, "large"
	case k < 95 && !sc.tExt:
		// near T's limit: solve msgLen(atT) = 4096 + d for the community count
		probe := &e2eC11Ver{ncomm: 300, extra: nil}
		base := probe.msgLen(true, []netip.Prefix{p}, sc.tAP) - 4*300
		n := (4096-base)/4 + r.IntN(7) - 3
		if n > maxSrc {
			n = maxSrc
		}
		return n, "near-limit"
	default:
		if sc.ext[src] && !sc.tExt {
			return 1030 + r.IntN(400), "oversize"
		}
		return 1 + r.IntN(8), "tiny"
	}
}

func TestVerifE2E_C11(t *testing.T) {
	rec := vlib.Open("C11")
	defer rec.Close()
	total := vlib.Scale(384, 7680)
	// the last fifth of the case list: several sessions per neighbour with changing capabilities (e2e_c11_resession_test.go)
	multi := vlib.Scale(96, 1920)
	vlib.Cases(total+multi, func(idx int) {
		if idx >= total {
			rec.Mark(fmt.Sprintf("e2e c11 re-session scenario %d", idx), true)
			synctest.Test(t, func(t *testing.T) { e2eC11Resession(t, rec, idx, idx-total) })
			return
		}
		rec.Mark(fmt.Sprintf("e2e c11 scenario %d", idx), true)
		synctest.Test(t, func(t *testing.T) { e2eC11Scenario(t, rec, idx) })
	})
}

func e2eC11Scenario(t *testing.T, rec *vlib.Rec, idx int) {
	r := vlib.CaseRand("e2e-c11", idx)
	sc := &e2eC11Sc{rec: rec, idx: idx, r: r, sp: map[string]*simSpeaker{}, ext: map[string]bool{}, seq: map[string]uint32{},
		cur: map[e2eC11Key]map[string]*e2eC11Ver{}, ever: map[e2eC11Key]map[uint32]*e2eC11Ver{}, oversize: map[e2eC11Key]bool{}, groups: map[string][]netip.Prefix{}, events: map[string]int{}}
	sc.tAP, sc.tExt, sc.tGR, sc.late = idx&1 != 0, idx&2 != 0, idx&4 != 0, idx&8 != 0
	sc.ext["S1"], sc.ext["S2"], sc.ext["T"] = r.IntN(3) != 0, false, sc.tExt
	n := simStart(t, &api.Global{Asn: simLocalAS, RouterId: "1.1.1.1"})
	sc.n = n
	defer func() {
		n.stop()
		synctest.Wait()
	}()
	mk := func(role, addr string, as uint32, sendMax uint32, ext, gr bool) bool {
		sp, err := n.addPeer(simPeerSpec{Kind: simEBGP, Addr: addr, AS: as, ID: addr, V6: true, SendMax: sendMax,
			Extra: func(p *api.Peer) {
				if gr {
					p.GracefulRestart = &api.GracefulRestart{Enabled: true, RestartTime: 120}
					for _, af := range p.AfiSafis {
						af.MpGracefulRestart = &api.MpGracefulRestart{Config: &api.MpGracefulRestartConfig{Enabled: true}}
					}
				}
			},
			SpeakerMod: func(c *simSpeakerConf) { c.Caps = e2eC11Caps(as, sendMax > 0, ext, gr) }})
		if err != nil {
			rec.Inconclusive("e2e c11: AddPeer: " + err.Error())
			return false
		}
		sc.sp[role] = sp
		return true
	}
	sendMax := uint32(0)
	if sc.tAP {
		sendMax = 8
	}
	if !mk("S1", "10.0.0.2", e2eC11S1AS, 0, sc.ext["S1"], false) || !mk("S2", "10.0.0.3", e2eC11S2AS, 0, false, false) || !mk("T", "10.0.0.4", e2eC11TAS, sendMax, sc.tExt, sc.tGR) {
		return
	}
	synctest.Wait()
	for _, role := range []string{"S1", "S2"} {
		if err := sc.sp[role].bringUp(40); err != nil {
			rec.Inconclusive("e2e c11: " + err.Error())
			return
		}
	}
	T := sc.sp["T"]
	upT := func() bool {
		if sc.late && r.IntN(2) == 0 {
			T.setPaused(true) // not even the first message of the initial transfer is read
			sc.events["late-target-paused-from-start"]++
		}
		if err := T.bringUp(40); err != nil {
			rec.Inconclusive("e2e c11: " + err.Error())
			return false
		}
		return true
	}
	if !sc.late && !upT() {
		return
	}
	rec.Eval()
	rec.Count("e2e:c11:scenarios", 1)
	opt := fmt.Sprintf("addpath=%v,ext=%v,gr=%v,late=%v", sc.tAP, sc.tExt, sc.tGR, sc.late)
	rec.Count("e2e:c11:session:"+opt, 1)

	// ---- the script of route changes
	k := 2 + r.IntN(30)
	switch r.IntN(4) {
	case 0:
		k = 2 + r.IntN(399)
	case 1:
		k = 30 + r.IntN(120)
	}
	kInitial := 0
	if sc.late {
		kInitial = 1 + k/3
	}
	shared4 := []string{"10.1.0.0/24", "10.1.1.0/24", "10.2.0.0/16", "10.3.3.0/25", "192.0.2.0/24", "10.1.0.0/25", "10.9.9.9/32", "10.0.0.0/8"}
	shared6 := []string{"2001:db8:1::/48", "2001:db8:2::/64", "2001:db8:1::/64", "2001:db8::1/128"}
	step := func(i int) bool {
		src := []string{"S1", "S2"}[r.IntN(2)]
		switch x := r.IntN(100); {
		case x < 45: // announce / replace a single route (shared keys: both sources use them)
			var p netip.Prefix
			if r.IntN(4) == 0 {
				p = netip.MustParsePrefix(shared6[r.IntN(len(shared6))])
			} else {
				p = netip.MustParsePrefix(shared4[r.IntN(len(shared4))])
			}
			nc, class := sc.sizeClass(src, p)
			if class == "oversize" || class == "near-limit" {
				// keys of their own: a route that may not fit must not shadow another source's route
				if p.Addr().Is4() {
					p = netip.MustParsePrefix(fmt.Sprintf("10.200.%d.0/24", r.IntN(6)))
				} else {
					p = netip.MustParsePrefix(fmt.Sprintf("2001:db8:200:%d::/64", r.IntN(4)))
				}
				if src == "S2" {
					if p.Addr().Is4() {
						p = netip.MustParsePrefix(fmt.Sprintf("10.201.%d.0/24", r.IntN(6)))
					} else {
						p = netip.MustParsePrefix(fmt.Sprintf("2001:db8:201:%d::/64", r.IntN(4)))
					}
				}
				if class == "near-limit" {
					nc, _ = sc.sizeClassNear(src, p)
				}
				if sc.oversizeOnly(p) {
					break // once a key has held a route that does not fit, leave it alone (what T keeps of an older version is not specified)
				}
			}
			v := sc.newVer(src, nc)
			sc.events["announce:"+class]++
			sc.logf("#%d %s announce %s tag=%#x comms=%d med=%v extra=%v", i, src, p, v.tag, nc, v.med, v.extra)
			return sc.announce(v, []netip.Prefix{p})
		case x < 65: // withdraw a single route (maybe never announced)
			var p netip.Prefix
			if r.IntN(4) == 0 {
				p = netip.MustParsePrefix(shared6[r.IntN(len(shared6))])
			} else {
				p = netip.MustParsePrefix(shared4[r.IntN(len(shared4))])
			}
			sc.events["withdraw"]++
			sc.logf("#%d %s withdraw %s", i, src, p)
			return sc.withdraw(src, []netip.Prefix{p})
		case x < 88: // announce / replace a group sharing one attribute set
			g := r.IntN(3)
			v6 := r.IntN(4) == 0
			name := fmt.Sprintf("%s-g%d-v6=%v", src, g, v6)
			host := r.IntN(2) == 0
			cnt := 2 + r.IntN(40)
			if r.IntN(3) == 0 {
				cnt = 80 + r.IntN(170)
			}
			sb := 0
			if src == "S2" {
				sb = 1
			}
			var pf []netip.Prefix
			for j := 0; j < cnt; j++ {
				switch {
				case v6 && host:
					pf = append(pf, netip.MustParsePrefix(fmt.Sprintf("2001:db8:%x:%x::%x/128", 0x100+sb, g, j+1)))
				case v6:
					pf = append(pf, netip.MustParsePrefix(fmt.Sprintf("2001:db8:%x:%x::/64", 0x110+sb*16+g, j)))
				case host:
					pf = append(pf, netip.MustParsePrefix(fmt.Sprintf("10.%d.%d.%d/32", 100+sb*10+g, j/200, 1+j%200)))
				default:
					pf = append(pf, netip.MustParsePrefix(fmt.Sprintf("10.%d.%d.0/24", 120+sb*10+g, j)))
				}
			}
			nc := []int{1, 3, 40, 300, 700, 880, 960}[r.IntN(7)]
			v := sc.newVer(src, nc)
			// the group's earlier members that are not re-announced stay as they are
			sc.groups[name] = e2eC11Union(sc.groups[name], pf)
			sc.events["group-announce"]++
			sc.logf("#%d %s group %s announce %d prefixes (first %s) tag=%#x comms=%d", i, src, name, len(pf), pf[0], v.tag, nc)
			return sc.announce(v, pf)
		default: // withdraw a whole group or a part of it
			var names []string
			for nm := range sc.groups {
				if strings.HasPrefix(nm, src) && len(sc.groups[nm]) > 0 {
					names = append(names, nm)
				}
			}
			if len(names) == 0 {
				return true
			}
			sort.Strings(names)
			nm := names[r.IntN(len(names))]
			pf := sc.groups[nm]
			if r.IntN(2) == 0 && len(pf) > 2 {
				pf = pf[:1+r.IntN(len(pf)-1)]
			}
			sc.events["group-withdraw"]++
			sc.logf("#%d %s group %s withdraw %d prefixes", i, src, nm, len(pf))
			return sc.withdraw(src, pf)
		}
		return true
	}
	i := 0
	for ; i < kInitial; i++ {
		if !step(i) {
			return
		}
	}
	synctest.Wait()
	if sc.late {
		if !upT() {
			return
		}
		sc.logf("-- T established (initial table transfer)")
	}
	// ---- block gobgp's sender towards T: the pause takes effect after the read in progress
	T.setPaused(true)
	fill := func(j int) bool {
		v := sc.newVer("S2", 1)
		p := netip.MustParsePrefix(fmt.Sprintf("10.250.0.%d/32", j))
		sc.logf("-- filler %s tag=%#x", p, v.tag)
		ok := sc.announce(v, []netip.Prefix{p})
		synctest.Wait()
		return ok
	}
	if !fill(1) || !fill(2) {
		return
	}
	T.mu.Lock()
	rxBefore := len(T.rx)
	T.mu.Unlock()
	for ; i < k; i++ {
		if !step(i) {
			return
		}
		if r.IntN(4) == 0 {
			synctest.Wait()
		}
	}
	synctest.Wait()
	T.mu.Lock()
	rxBlocked := len(T.rx)
	T.mu.Unlock()
	if rxBlocked != rxBefore {
		rec.Inconclusive(fmt.Sprintf("e2e c11: the paused target still received %d messages", rxBlocked-rxBefore))
		return
	}
	sc.logf("-- T resumes")
	T.setPaused(false)
	synctest.Wait()

	// ---- judge
	wit := func(extra map[string]any) map[string]any {
		w := map[string]any{"case": idx, "target_session": opt, "s1_extended_message": sc.ext["S1"], "k": k, "history": append([]string{}, sc.log...)}
		for k, v := range extra {
			w[k] = v
		}
		return w
	}
	for _, role := range []string{"S1", "S2", "T"} {
		if !e2eEstablished(n, sc.sp[role].conf.Addr) {
			sc.sp[role].mu.Lock()
			nf := sc.sp[role].notif
			sc.sp[role].mu.Unlock()
			rec.Violation("e2e:c11:session-lost:"+role, fmt.Sprintf("the session to %s did not survive (notification %v)", role, nf), wit(nil))
			return
		}
	}
	lim := sc.limit("T")
	T.mu.Lock()
	for mi, m := range T.rx {
		if l := int(binary.BigEndian.Uint16(m.Raw[16:18])); l > lim || len(m.Raw) > lim {
			T.mu.Unlock()
			rec.Violation(fmt.Sprintf("e2e:c11:message-too-long:%d", lim), fmt.Sprintf("message %d sent to T has header length %d (%d octets), the session's limit is %d", mi, l, len(m.Raw), lim), wit(nil))
			T.mu.Lock()
		}
	}
	nRx := len(T.rx)
	T.mu.Unlock()
	rec.Count("e2e:c11:messages_checked", nRx)
	ups, problems := e2eDecodeRx(T)
	for _, pr := range problems {
		rec.Violation("e2e:c11:wire:malformed-message", "a message sent to T is malformed: "+pr, wit(map[string]any{"rx": e2eRxLog(T, 4)}))
	}
	// every announced prefix carries an attribute set it was announced with
	tagOf := func(rt *e2eRoute) (uint32, bool) {
		cs, err := rt.communities()
		if err != nil || len(cs) == 0 {
			return 0, false
		}
		return cs[0], true
	}
	shared, maxPer, coalesced := 0, 0, 0
	for _, u := range ups {
		if len(u.Announced) > 1 {
			shared++
		}
		if len(u.Announced) > maxPer {
			maxPer = len(u.Announced)
		}
		if u.Idx >= rxBefore {
			coalesced++
		}
		if u.Len >= lim-64 {
			rec.Count("e2e:c11:messages_within_64_of_limit", 1)
		}
		for _, a := range u.Announced {
			rt := u.RouteFor[a.Family]
			tg, ok := tagOf(rt)
			kk := e2eC11Key{a.Family, a.Prefix}
			v := sc.ever[kk][tg]
			if !ok || v == nil {
				rec.Violation("e2e:c11:prefix-with-foreign-attributes", fmt.Sprintf("message %d announces %s with an attribute set (tag %#x) that prefix was never announced with", u.Idx, a, tg), wit(map[string]any{"raw": e2eRxLog(T, 3)}))
				continue
			}
			if why := sc.checkAttrs(rt, v); why != "" {
				rec.Violation("e2e:c11:attributes-differ-from-announced-set", fmt.Sprintf("message %d announces %s with tag %#x but %s", u.Idx, a, tg, why), wit(nil))
			}
		}
	}
	rec.Count("e2e:c11:messages_with_shared_attributes", shared)
	rec.Count("e2e:c11:updates_after_resume", coalesced)
	if maxPer >= 50 {
		rec.Count("e2e:c11:messages_with_50plus_prefixes", 1)
	}
	view, eor := e2eApply(ups)
	// the reference: last action per key
	byPfx := map[e2eC11Key][]uint32{}
	for k2, rt := range view {
		tg, _ := tagOf(rt)
		kk := e2eC11Key{k2.Family, k2.Prefix}
		byPfx[kk] = append(byPfx[kk], tg)
	}
	nOversize, nFit := 0, 0
	for kk, holders := range sc.cur {
		want := map[uint32]bool{}
		for _, v := range holders {
			p := netip.MustParsePrefix(kk.pfx)
			if v.msgLen(true, []netip.Prefix{p}, sc.tAP) > lim {
				nOversize++
				continue
			}
			want[v.tag] = true
		}
		got := byPfx[kk]
		if sc.oversize[kk] {
			// a key that has ever held a route too large for T: that route must not be there; what T keeps of an
			// older, fitting version is not specified
			for _, tg := range got {
				if v := sc.ever[kk][tg]; v != nil && v.msgLen(true, []netip.Prefix{netip.MustParsePrefix(kk.pfx)}, sc.tAP) > lim {
					rec.Violation("e2e:c11:oversize-route-sent", fmt.Sprintf("%s reached T with an attribute set that cannot fit", kk.pfx), wit(nil))
				}
			}
			if len(want) == 0 {
				continue
			}
		}
		nFit += len(want)
		switch {
		case len(want) == 0 && len(got) > 0:
			rec.Violation("e2e:c11:view:stale-route", fmt.Sprintf("T still holds %s (tags %#x) although every source withdrew it last", kk.pfx, got), wit(nil))
		case len(want) == 0:
		case len(got) == 0:
			rec.Violation("e2e:c11:view:missing-route:"+e2eC11WhyMissing(sc, kk), fmt.Sprintf("T does not hold %s although the last action of %d source(s) is an announcement that fits (tags %v)", kk.pfx, len(want), e2eC11Tags(want)), wit(nil))
		case !sc.tAP:
			if len(got) != 1 || !want[got[0]] {
				rec.Violation("e2e:c11:view:wrong-version", fmt.Sprintf("T holds %s with tags %#x, the current announcements are %v", kk.pfx, got, e2eC11Tags(want)), wit(nil))
			}
		default:
			gs := map[uint32]bool{}
			for _, tg := range got {
				gs[tg] = true
			}
			if len(gs) != len(got) || len(gs) != len(want) {
				rec.Violation("e2e:c11:view:addpath-path-set", fmt.Sprintf("T holds %s with tags %#x, the current announcements are %v", kk.pfx, got, e2eC11Tags(want)), wit(nil))
			} else {
				for tg := range gs {
					if !want[tg] {
						rec.Violation("e2e:c11:view:addpath-path-set", fmt.Sprintf("T holds %s with tags %#x, the current announcements are %v", kk.pfx, got, e2eC11Tags(want)), wit(nil))
					}
				}
			}
		}
	}
	for kk, got := range byPfx {
		if len(sc.cur[kk]) == 0 && !sc.oversize[kk] && len(got) > 0 {
			rec.Violation("e2e:c11:view:stale-route", fmt.Sprintf("T still holds %s (tags %#x) although every source withdrew it last", kk.pfx, got), wit(nil))
		}
	}
	rec.Count("e2e:c11:routes_compared_with_last_action", nFit)
	rec.Count("e2e:c11:oversize_routes_skipped", nOversize)
	// gobgp's own fresh evaluation
	var want map[simRouteKey]*e2eRoute
	var err error
	if sc.tAP {
		want, err = e2eAdjOutEligible(n, "10.0.0.4")
	} else {
		want, err = e2eAdjOut(n, "10.0.0.4", []bgp.Family{bgp.RF_IPv4_UC, bgp.RF_IPv6_UC})
	}
	if err != nil {
		rec.Inconclusive("e2e c11: ADJ_OUT: " + err.Error())
		return
	}
	var d []string
	for k2, w := range want {
		if sc.oversize[e2eC11Key{k2.Family, k2.Prefix}] {
			continue
		}
		g, ok := view[k2]
		if !ok {
			d = append(d, "MISSING "+k2.String())
		} else if g.Canon() != w.Canon() || string(g.NextHop) != string(w.NextHop) {
			d = append(d, "DIFFERENT "+k2.String())
		}
	}
	for k2 := range view {
		if _, ok := want[k2]; !ok && !sc.oversize[e2eC11Key{k2.Family, k2.Prefix}] {
			d = append(d, "STALE "+k2.String())
		}
	}
	if len(d) > 0 {
		sort.Strings(d)
		kinds := map[string]bool{}
		for _, l := range d {
			kinds[strings.Fields(l)[0]] = true
		}
		var ks []string
		for x := range kinds {
			ks = append(ks, x)
		}
		sort.Strings(ks)
		if len(d) > 12 {
			d = append(d[:12], fmt.Sprintf("... %d more", len(d)-12))
		}
		rec.Violation("e2e:c11:view!=adj-out:"+strings.Join(ks, "+"), "T's accumulated view differs from ListPath(ADJ_OUT): "+strings.Join(d, " | "), wit(nil))
	}
	rec.Count("e2e:c11:routes_compared_with_adj_out", len(want))
	// End-of-RIB
	if sc.tGR {
		for _, f := range []bgp.Family{bgp.RF_IPv4_UC, bgp.RF_IPv6_UC} {
			if eor[f] < 1 {
				rec.Violation("e2e:c11:eor:lost:"+f.String(), fmt.Sprintf("graceful restart was negotiated with T but no End-of-RIB for %s arrived (late=%v)", f, sc.late), wit(nil))
			} else {
				rec.Count("e2e:c11:eor_received", eor[f])
			}
		}
	}
	for kk := range sc.events {
		rec.Count("e2e:c11:ev:"+kk, sc.events[kk])
	}
	rec.Count("e2e:c11:route_changes", k)
	if len(view) > 0 || coalesced > 0 {
		var ks []string
		for kk, v := range sc.events {
			b := 0
			for x := v; x > 0; x >>= 1 {
				b++
			}
			ks = append(ks, fmt.Sprintf("%s%d", kk, b))
		}
		sort.Strings(ks)
		rec.Count("e2e:c11:nontrivial_scenarios", 1)
		rec.Nontrivial("e2e-c11|" + opt + "|" + vlib.Hash(strings.Join(ks, ",")))
	}
	if idx%89 == 0 {
		w := wit(map[string]any{"unit": "e2e", "messages_to_T": nRx, "updates_after_resume": coalesced, "max_prefixes_per_message": maxPer, "routes_held": len(view)})
		if h := w["history"].([]string); len(h) > 20 {
			w["history"] = h[:20]
		}
		rec.Sample(w)
	}
}

// oversizeOnly: the key has held a route that does not fit T's limit
func (sc *e2eC11Sc) oversizeOnly(p netip.Prefix) bool {
	return sc.oversize[e2eC11Key{e2eC11Fam(p), p.String()}]
}

// sizeClassNear recomputes the near-limit community count for the prefix actually used.
func (sc *e2eC11Sc) sizeClassNear(src string, p netip.Prefix) (int, string) {
	probe := &e2eC11Ver{ncomm: 300}
	base := probe.msgLen(true, []netip.Prefix{p}, sc.tAP) - 4*300
	n := (4096-base)/4 + sc.r.IntN(7) - 3
	// the source's own message: MED (+7) but one AS less (-4); keep it within the source's limit
	for n > 1 {
		v := &e2eC11Ver{ncomm: n, med: true, extra: []uint32{1, 2}}
		if v.msgLen(false, []netip.Prefix{p}, false) <= sc.limit(src) {
			break
		}
		n--
	}
	return n, "near-limit"
}

// checkAttrs: the received attribute set is the announced one as an eBGP peer must get it.
func (sc *e2eC11Sc) checkAttrs(rt *e2eRoute, v *e2eC11Ver) string {
	cs, err := rt.communities()
	if err != nil {
		return err.Error()
	}
	want := v.comms()
	if len(cs) != len(want) {
		return fmt.Sprintf("it carries %d communities, the set has %d", len(cs), len(want))
	}
	for i := range cs {
		if cs[i] != want[i] {
			return fmt.Sprintf("community %d is %#x, the set has %#x", i, cs[i], want[i])
		}
	}
	segs, has, err := rt.asPath(4)
	if err != nil || !has {
		return fmt.Sprintf("AS_PATH unreadable (%v)", err)
	}
	var flat []uint32
	for _, s := range segs {
		if s.Type != bgp.BGP_ASPATH_ATTR_TYPE_SEQ {
			return "AS_PATH has a non-sequence segment"
		}
		flat = append(flat, s.AS...)
	}
	wp := append([]uint32{simLocalAS, v.srcAS}, v.extra...)
	if fmt.Sprint(flat) != fmt.Sprint(wp) {
		return fmt.Sprintf("AS_PATH is %v, expected %v", flat, wp)
	}
	if a := rt.attr(1); a == nil || len(a.Value) != 1 || a.Value[0] != v.origin {
		return "ORIGIN differs"
	}
	return ""
}

func e2eC11Tags(m map[uint32]bool) []string {
	var out []string
	for t := range m {
		out = append(out, fmt.Sprintf("%#x", t))
	}
	sort.Strings(out)
	return out
}

func e2eC11WhyMissing(sc *e2eC11Sc, kk e2eC11Key) string {
	// classify by the size of the missing route's own message, so that a known finding covers its own shape
	p := netip.MustParsePrefix(kk.pfx)
	maxLen := 0
	for _, v := range sc.cur[kk] {
		if l := v.msgLen(true, []netip.Prefix{p}, sc.tAP); l > maxLen {
			maxLen = l
		}
	}
	fam := "v4"
	if p.Addr().Is6() {
		fam = "v6"
	}
	if maxLen > sc.limit("T")-16 {
		return fam + ":single-route-message-within-16-of-limit"
	}
	return fam + ":fits-easily"
}

func e2eC11Union(a, b []netip.Prefix) []netip.Prefix {
	seen := map[netip.Prefix]bool{}
	var out []netip.Prefix
	for _, p := range append(append([]netip.Prefix{}, a...), b...) {
		if !seen[p] {
			seen[p] = true
			out = append(out, p)
		}
	}
	return out
}
