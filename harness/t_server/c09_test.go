package server

// C09 (unit "server") — white-box executions of the export decision and rewriting of pkg/server on real `peer`
// objects (built like the repository's own TestFilterpathWith* tests, peerInfo filled by the call the daemon
// makes at ESTABLISHED):
//
//   - filterpath(peer, path, old)              split horizon / iBGP-RR rules / AS loop towards the peer
//   - (*BgpServer).filterpath(peer, path, old)   the whole pipeline: pre-policy filter, replace-peer-as,
//     table.UpdatePathAttrs, export policy (default accept), post filter (LOCAL_PREF stripping)
//   - peer.handleUpdate / hasOwnASLoop           inbound: own AS beyond allow-own-as, own router id as
//     ORIGINATOR_ID, own cluster id in CLUSTER_LIST
//
// judged by refmodel.C09Export / C09Check / C09Inbound and by the byte-level non-mutation snapshots.

import (
	"fmt"
	"io"
	"log/slog"
	"math/rand/v2"
	"net/netip"
	"sort"
	"strings"
	"testing"
	"time"

	"github.com/osrg/gobgp/v4/internal/pkg/table"
	"github.com/osrg/gobgp/v4/internal/verif/refmodel"
	"github.com/osrg/gobgp/v4/internal/verif/vlib"
	"github.com/osrg/gobgp/v4/pkg/config/oc"
	"github.com/osrg/gobgp/v4/pkg/packet/bgp"
)

var c09Logger = slog.New(slog.NewTextHandler(io.Discard, nil))

type c09Node struct {
	spec *refmodel.C09Peer
	p    *peer
}

func c09NewNode(g *oc.Global, rt *refmodel.C09Router, spec *refmodel.C09Peer, rib *table.TableManager, policy *table.RoutingPolicy) (*c09Node, error) {
	n, err := refmodel.C09Neighbor(g, rt, spec)
	if err != nil {
		return nil, err
	}
	p := newPeer(g, n, bgp.BGP_FSM_ESTABLISHED, rib, policy, c09Logger)
	p.fsm.familyMap.Store(map[bgp.Family]bgp.BGPAddPathMode{bgp.RF_IPv4_UC: bgp.BGP_ADD_PATH_NONE, bgp.RF_IPv6_UC: bgp.BGP_ADD_PATH_NONE})
	// what handleFSMMessage does when the session reaches ESTABLISHED
	conf := p.fsm.pConf.ReadOnly()
	info := table.NewPeerInfo(p.fsm.gConf, conf, conf.State.PeerAs, conf.Config.LocalAs, conf.State.RemoteRouterId,
		p.fsm.gConf.Config.RouterId, conf.Transport.State.RemoteAddress, conf.Transport.State.LocalAddress)
	p.peerInfo.Store(info)
	if p.isRouteServerClient() {
		if err := policy.SetPeerPolicy(p.TableID(), c09AcceptAll()); err != nil {
			return nil, err
		}
	}
	return &c09Node{spec: spec, p: p}, nil
}

func c09AcceptAll() oc.ApplyPolicy {
	return oc.ApplyPolicy{Config: oc.ApplyPolicyConfig{DefaultImportPolicy: oc.DEFAULT_POLICY_TYPE_ACCEPT_ROUTE, DefaultExportPolicy: oc.DEFAULT_POLICY_TYPE_ACCEPT_ROUTE}}
}

func c09SnapPath(p *table.Path) map[string]string {
	if p == nil {
		return map[string]string{"nil": "nil"}
	}
	m := refmodel.C09Snap(p.GetPathAttrs())
	if n := p.GetNlri(); n != nil {
		b, _ := n.Serialize()
		m["nlri"] = fmt.Sprintf("%x %s", b, n.String())
	}
	m["next-hop"] = p.GetNexthop().String()
	src := p.GetSource()
	m["meta"] = fmt.Sprint(p.GetFamily(), p.IsWithdraw, p.IsNexthopInvalid, p.IsRejected(), p.IsDropped(), p.LocalID(), p.RemoteID(),
		src.AS, src.ID, src.Address, src.LocalAS, src.LocalID, src.RouteReflectorClient, p.IsStale(), p.GetTimestamp().Unix())
	return m
}

func c09DiffClass(d []string) string {
	set := map[string]bool{}
	for _, k := range d {
		switch {
		case strings.HasPrefix(k, "spare:"):
			set[k] = true
		case strings.HasPrefix(k, "attr"):
			set[k[strings.Index(k, ":")+1:]] = true
		default:
			set[k] = true
		}
	}
	var out []string
	for k := range set {
		out = append(out, k)
	}
	sort.Strings(out)
	if len(out) > 3 {
		out = append(out[:3], "more")
	}
	return strings.Join(out, "+")
}

func c09ObsText(o *refmodel.C09Obs) map[string]any {
	m := map[string]any{"as_path": refmodel.C09PathText(o.ASPath), "has_as_path": o.HasASPath, "next_hop": o.NextHop.String(), "mp": o.MP,
		"mp_family": o.MPFamily, "mp_next_hop": o.MPNextHop.String(), "mp_link_local": o.MPLinkLocal.String(),
		"originator": o.Originator.String(), "cluster_list": fmt.Sprint(o.ClusterList), "types": fmt.Sprint(o.Types)}
	if o.MED != nil {
		m["med"] = *o.MED
	}
	if o.LocalPref != nil {
		m["local_pref"] = *o.LocalPref
	}
	var u []string
	for t, x := range o.Unknown {
		u = append(u, fmt.Sprintf("%d/flags=%#x/%x", t, x.Flags, x.Value))
	}
	sort.Strings(u)
	m["unknown"] = u
	return m
}

func c09Kind(n *c09Node) refmodel.C09Kind {
	if n == nil {
		return refmodel.C09Local
	}
	return n.spec.Kind
}

func c09Spec(n *c09Node) *refmodel.C09Peer {
	if n == nil {
		return nil
	}
	return n.spec
}

// c09Store builds the stored path as learned from src (nil: local); half of them as an overlay over a root.
func c09Store(r *rand.Rand, ro *refmodel.C09Route, src *c09Node) (*table.Path, error) {
	fam, nlri, attrs, err := refmodel.C09Build(ro, r)
	if err != nil {
		return nil, err
	}
	var info *table.PeerInfo
	if src != nil {
		info = src.p.peerInfo.Load()
	}
	p := table.NewPath(fam, info, bgp.PathNLRI{NLRI: nlri}, false, attrs, time.Unix(1000, 0), false)
	if r.IntN(2) == 0 {
		p = p.Clone(false)
		if ro.MED != nil && r.IntN(2) == 0 {
			// same value through the overlay (as an import policy would write it)
			if err := p.SetMed(int64(*ro.MED), true); err != nil {
				return nil, err
			}
		}
	}
	return p, nil
}

type c09Scenario struct {
	rt    *refmodel.C09Router
	g     *oc.Global
	nodes []*c09Node
}

func (sc *c09Scenario) close() {
	for _, n := range sc.nodes {
		cleanInfiniteChannel(n.p.fsm.outgoingCh)
	}
}

func c09GenScenario(r *rand.Rand, idx int) (*c09Scenario, error) {
	sc := &c09Scenario{rt: refmodel.C09GenRouter(r)}
	if idx%2 == 0 && !sc.rt.Confed {
		sc.rt.Confed = true
		sc.rt.ConfedID = 300
		sc.rt.Members = []uint32{65101, 201}
	}
	sc.g = refmodel.C09Global(sc.rt)
	rib := table.NewTableManager(c09Logger, []bgp.Family{bgp.RF_IPv4_UC, bgp.RF_IPv6_UC})
	policy := table.NewRoutingPolicy(c09Logger)
	if err := policy.Reset(&oc.RoutingPolicy{}, map[string]oc.ApplyPolicy{table.GLOBAL_RIB_NAME: c09AcceptAll()}); err != nil {
		return nil, err
	}
	kinds := []refmodel.C09Kind{refmodel.C09EBGP, refmodel.C09EBGP, refmodel.C09IBGP, refmodel.C09IBGP, refmodel.C09RRClient, refmodel.C09RRClient, refmodel.C09RSClient}
	if sc.rt.Confed {
		kinds = append(kinds, refmodel.C09Confed, refmodel.C09Confed)
	}
	var specs []*refmodel.C09Peer
	for i, k := range kinds {
		p := refmodel.C09GenPeer(r, sc.rt, k, i+1)
		if i > 0 && kinds[i-1] == k {
			prev := specs[i-1]
			switch r.IntN(6) {
			case 0: // second session to the same router
				p.AS, p.RouterID = prev.AS, prev.RouterID
			case 1, 2: // another router of the same AS
				if k == refmodel.C09EBGP {
					p.AS = prev.AS
				}
			}
		}
		specs = append(specs, p)
	}
	for _, sp := range specs {
		n, err := c09NewNode(sc.g, sc.rt, sp, rib, policy)
		if err != nil {
			sc.close()
			return nil, fmt.Errorf("peer %v: %w", sp.Describe(), err)
		}
		sc.nodes = append(sc.nodes, n)
	}
	return sc, nil
}

func (sc *c09Scenario) clusterIDs() []netip.Addr {
	var out []netip.Addr
	for _, n := range sc.nodes {
		if n.spec.Kind == refmodel.C09RRClient {
			out = append(out, n.spec.EffClusterID(sc.rt))
		}
	}
	return out
}

const c09ExportsPerScenario = 24
const c09InboundPerScenario = 12

func TestVerifC09(t *testing.T) {
	rec := vlib.Open("C09")
	defer rec.Close()
	s := NewBgpServer()
	total := vlib.Scale(900, 45000)
	vlib.Cases(total, func(idx int) {
		r := vlib.CaseRand("c09srv", idx)
		sc, err := c09GenScenario(r, idx)
		if err != nil {
			t.Fatalf("case %d: harness cannot build the scenario: %v", idx, err)
		}
		defer sc.close()
		rec.Mark(fmt.Sprintf("scenario %d", idx), false)
		// sources: local and every peer that is not a route-server client
		var sources []*c09Node
		sources = append(sources, nil)
		for _, n := range sc.nodes {
			if n.spec.Kind != refmodel.C09RSClient {
				sources = append(sources, n)
			}
		}
		type pair struct{ src, dst *c09Node }
		var pairs []pair
		for _, a := range sources {
			for _, b := range sc.nodes {
				pairs = append(pairs, pair{a, b})
			}
		}
		r.Shuffle(len(pairs), func(i, j int) { pairs[i], pairs[j] = pairs[j], pairs[i] })
		for m := 0; m < c09ExportsPerScenario; m++ {
			pr := pairs[m%len(pairs)]
			c09ExportCase(rec, s, r, idx, m, sc, pr.src, pr.dst, sources)
		}
		for m := 0; m < c09InboundPerScenario; m++ {
			c09InboundCase(rec, r, idx, m, sc, sc.nodes[r.IntN(len(sc.nodes))])
		}
	})
}

func c09ExportCase(rec *vlib.Rec, s *BgpServer, r *rand.Rand, idx, m int, sc *c09Scenario, src, dst *c09Node, sources []*c09Node) {
	rt := sc.rt
	ro := refmodel.C09GenRoute(r, rt, c09Spec(src), []*refmodel.C09Peer{dst.spec})
	stored, err := c09Store(r, ro, src)
	if err != nil {
		rec.Violation("c09:harness:build", err.Error(), map[string]any{"case": idx, "export": m})
		return
	}
	in := refmodel.C09Observe(stored.GetPathAttrs())
	// sometimes the route replaces an earlier best from another source (the `old` argument)
	var old *table.Path
	var oldSrc *c09Node
	if r.IntN(4) == 0 {
		oldSrc = sources[r.IntN(len(sources))]
		if oldSrc != src {
			oro := refmodel.C09GenRoute(r, rt, c09Spec(oldSrc), []*refmodel.C09Peer{dst.spec})
			oro.V6, oro.Prefix = ro.V6, ro.Prefix
			if oro.V6 && !oro.MP {
				oro.MP, oro.MPNextHop, oro.NextHop = true, netip.MustParseAddr("2001:db8:9::9"), netip.Addr{}
			}
			if !oro.V6 && !oro.NextHop.IsValid() && !oro.MP {
				oro.NextHop = netip.MustParseAddr("10.9.9.9")
			}
			old, err = c09Store(r, oro, oldSrc)
			if err != nil {
				old = nil
			}
		}
	}
	sk, dk := c09Kind(src), dst.spec.Kind
	pairName := sk.String() + "->" + dk.String()
	exp := refmodel.C09Export(rt, c09Spec(src), dst.spec, in, true)
	// the package-level filterpath runs after replace-peer-as was applied by its caller; called on its own it
	// sees the stored AS_PATH
	plainDst := *dst.spec
	plainDst.ReplacePeerAS = false
	expPre := refmodel.C09Export(rt, c09Spec(src), &plainDst, in, true)
	wit := func() map[string]any {
		w := map[string]any{"case": idx, "export": m, "router": rt.Describe(), "source": c09Spec(src).Describe(), "target": dst.spec.Describe(),
			"stored": c09ObsText(in), "prefix": ro.Prefix.String(), "shape": ro.Shape, "expected_decision": exp.Advertise.String(), "decision_rule": exp.AdvRule,
			"old_given": old != nil}
		if old != nil {
			w["old_source"] = c09Spec(oldSrc).Describe()
		}
		return w
	}
	rec.Eval()
	rec.Count("pair:"+pairName, 1)
	rec.Count("opt:"+dst.spec.Options(), 1)
	for _, ru := range exp.Rules {
		rec.Count("rule:"+ru, 1)
	}
	if old != nil {
		rec.Count("exports_with_old_best", 1)
	}
	if dst.spec.Negotiated {
		rec.Count("peer-as-unset:target:"+dk.String(), 1)
	}
	if src != nil && src.spec.Negotiated {
		rec.Count("peer-as-unset:source:"+sk.String(), 1)
	}
	snapStored, snapOld := c09SnapPath(stored), c09SnapPath(old)

	decide := func(level string, exp *refmodel.C09Exp, res *table.Path) (advertised bool) {
		advertised = res != nil && !res.IsWithdraw
		if res != nil && res.GetNlri().String() != stored.GetNlri().String() {
			rec.Violation("c09:server:"+level+":other-prefix:"+pairName, fmt.Sprintf("result names %s, the route is %s", res.GetNlri(), stored.GetNlri()), wit())
		}
		switch exp.Advertise {
		case refmodel.C09MustNot:
			rec.Count("decision:suppressed:"+exp.AdvRule, 1)
			if advertised {
				rec.Violation("c09:server:"+level+":advertised-despite:"+exp.AdvRule+":"+pairName,
					fmt.Sprintf("route is advertised to the %s peer although rule '%s' forbids it", dk, exp.AdvRule), wit())
			}
		case refmodel.C09Must:
			rec.Count("decision:advertised", 1)
			if !advertised {
				rec.Violation("c09:server:"+level+":not-advertised:"+pairName, fmt.Sprintf("no rule forbids the route towards the %s peer, result is %v", dk, c09ResText(res)), wit())
			}
		default:
			rec.Count("decision:either:"+exp.AdvRule, 1)
		}
		return advertised
	}

	// 1. the package-level decision function
	var res1 *table.Path
	if rec.Guard("c09:server:filterpath", func() any { return wit() }, func() { res1 = filterpath(dst.p, stored, old) }) {
		return
	}
	decide("filterpath", expPre, res1)

	// 2. the whole pipeline
	var res2 *table.Path
	if rec.Guard("c09:server:BgpServer.filterpath", func() any { return wit() }, func() { res2 = s.filterpath(dst.p, stored, old) }) {
		return
	}
	// does the result agree with an expectation (decision and attributes), without reporting
	agrees := func(e *refmodel.C09Exp, res *table.Path) bool {
		adv := res != nil && !res.IsWithdraw
		if e.Advertise == refmodel.C09MustNot && adv || e.Advertise == refmodel.C09Must && !adv {
			return false
		}
		return !adv || len(refmodel.C09Check(e, in, refmodel.C09Observe(res.GetPathAttrs()), dst.spec.LocalAddr)) == 0
	}
	if dst.spec.ReplacePeerAS && !agrees(exp, res2) && agrees(expPre, res2) {
		// one defect class: the result is exactly what the peer would get without the option
		class := "peer-as-configured"
		if dst.spec.Negotiated {
			class = "peer-as-unset"
		}
		w := wit()
		w["result"] = c09ResText(res2)
		rec.Violation("c09:server:replace-peer-as-not-applied:"+class, fmt.Sprintf("replace-peer-as is configured for the %s peer (AS %d), the result is what it gets without the option: %s", dk, dst.spec.AS, c09ResText(res2)), w)
	} else if decide("pipeline", exp, res2) {
		obs := refmodel.C09Observe(res2.GetPathAttrs())
		mm := refmodel.C09Check(exp, in, obs, dst.spec.LocalAddr)
		seen := map[string]bool{}
		for _, x := range mm {
			if seen[x.Rule] {
				continue
			}
			seen[x.Rule] = true
			w := wit()
			w["produced"] = c09ObsText(obs)
			w["all_mismatches"] = fmt.Sprint(mm)
			rec.Violation("c09:server:"+x.Rule+":"+pairName, x.Detail, w)
		}
		rec.Count("attribute_checks", 1)
	}
	if src == nil || src.spec.RouterID != dst.spec.RouterID {
		rec.Count("nontrivial_exports", 1)
		rec.Nontrivial("srv|" + pairName + "|" + dst.spec.Options() + "|" + ro.Shape)
	} else {
		rec.Count("same_router_exports", 1)
	}
	snapRes2 := c09SnapPath(res2)

	// 3. a copy for another target, then the non-mutation comparison
	other := sc.nodes[r.IntN(len(sc.nodes))]
	var res3 *table.Path
	if rec.Guard("c09:server:BgpServer.filterpath", func() any { return wit() }, func() { res3 = s.filterpath(other.p, stored, old) }) {
		return
	}
	_ = res3
	check := func(name string, before map[string]string, p *table.Path) {
		if d := refmodel.C09SnapDiff(before, c09SnapPath(p)); len(d) > 0 {
			w := wit()
			w["changed"] = d
			w["second_target"] = other.spec.Describe()
			rec.Violation("c09:server:"+name+"-mutated:"+dk.String()+"+"+other.spec.Kind.String()+":"+c09DiffClass(d),
				fmt.Sprintf("producing copies for a %s and a %s peer changed the %s: %v", dk, other.spec.Kind, name, d), w)
		}
	}
	check("stored-route", snapStored, stored)
	if old != nil {
		check("old-route", snapOld, old)
	}
	if res2 != nil && res2 != stored && res2 != old {
		check("earlier-copy", snapRes2, res2)
	}
	rec.Count("snapshots_compared", 2)
	if (idx*c09ExportsPerScenario+m)%4999 == 0 {
		rec.Sample(map[string]any{"case": idx, "export": m, "pair": pairName, "options": dst.spec.Options(), "shape": ro.Shape,
			"decision": exp.Advertise.String() + "/" + exp.AdvRule, "result": c09ResText(res2)})
	}
}

func c09ResText(p *table.Path) string {
	switch {
	case p == nil:
		return "nil"
	case p.IsWithdraw:
		return "withdraw " + p.GetNlri().String()
	}
	return "announce " + p.GetNlri().String() + " as-path '" + refmodel.C09PathText(refmodel.C09Observe(p.GetPathAttrs()).ASPath) + "'"
}

// c09InboundCase feeds one UPDATE to peer.handleUpdate.
func c09InboundCase(rec *vlib.Rec, r *rand.Rand, idx, m int, sc *c09Scenario, from *c09Node) {
	rt := sc.rt
	var clients []*refmodel.C09Peer
	for _, n := range sc.nodes {
		if n.spec.Kind == refmodel.C09RRClient {
			clients = append(clients, n.spec)
		}
	}
	ro := refmodel.C09GenRoute(r, rt, from.spec, clients)
	L := from.spec.LocalAS(rt)
	// aim at the allow-own-as boundary: 0..4 occurrences of the session's local AS
	if r.IntN(2) == 0 {
		if !ro.HasASPath {
			ro.HasASPath = true
		}
		for k := r.IntN(5); k > 0; k-- {
			if len(ro.ASPath) == 0 {
				ro.ASPath = append(ro.ASPath, refmodel.C09Seg{Type: bgp.BGP_ASPATH_ATTR_TYPE_SEQ, AS: []uint32{200}})
			}
			sg := &ro.ASPath[r.IntN(len(ro.ASPath))]
			if len(sg.AS) >= 250 {
				continue
			}
			pos := r.IntN(len(sg.AS) + 1)
			sg.AS = append(sg.AS[:pos], append([]uint32{L}, sg.AS[pos:]...)...)
		}
	}
	if from.spec.Kind.Internal() || r.IntN(6) == 0 {
		switch r.IntN(6) {
		case 0:
			ro.Originator = rt.RouterID
		case 1:
			ids := sc.clusterIDs()
			ro.ClusterList = append([]netip.Addr{netip.MustParseAddr("8.8.8.3")}, ids[r.IntN(len(ids))])
		}
	}
	fam, nlri, attrs, err := refmodel.C09Build(ro, r)
	if err != nil {
		rec.Violation("c09:harness:build", err.Error(), map[string]any{"case": idx, "inbound": m})
		return
	}
	in := refmodel.C09Observe(attrs)
	var msg *bgp.BGPMessage
	if ro.MP {
		msg = bgp.NewBGPUpdateMessage(nil, attrs, nil)
	} else {
		msg = bgp.NewBGPUpdateMessage(nil, attrs, []bgp.PathNLRI{{NLRI: nlri}})
	}
	want, rule := refmodel.C09Inbound(rt, from.spec, in, sc.clusterIDs())
	wit := func() map[string]any {
		return map[string]any{"case": idx, "inbound": m, "router": rt.Describe(), "from": from.spec.Describe(), "received": c09ObsText(in),
			"prefix": ro.Prefix.String(), "session_local_as": L, "local_cluster_ids": fmt.Sprint(sc.clusterIDs()), "expected_rejected": want.String(), "rule": rule}
	}
	rec.Eval()
	rec.Count("inbound_updates", 1)
	rec.Count("inbound:"+rule, 1)
	rec.Count("inbound_from:"+from.spec.Kind.String(), 1)
	if from.spec.Negotiated {
		rec.Count("peer-as-unset:inbound:"+from.spec.Kind.String(), 1)
	}
	var paths []*table.Path
	if rec.Guard("c09:server:handleUpdate", func() any { return wit() }, func() {
		paths, _, _ = from.p.handleUpdate(&fsmMsg{MsgType: fsmMsgBGPMessage, MsgData: msg, timestamp: time.Unix(1000, 0)})
	}) {
		return
	}
	used := false
	for _, p := range paths {
		if p.GetNlri().String() == nlri.String() && !p.IsWithdraw {
			used = true
		}
	}
	// the adj-rib-in entry must agree with what was handed on
	accepted := false
	for _, p := range from.p.adjRibIn.PathList([]bgp.Family{fam}, true) {
		if p.GetNlri().String() == nlri.String() {
			accepted = true
		}
	}
	if used != accepted {
		rec.Violation("c09:inbound:adj-in-disagrees:"+rule, fmt.Sprintf("handleUpdate handed the route on: %v, adj-rib-in lists it as accepted: %v", used, accepted), wit())
	}
	switch want {
	case refmodel.C09Must:
		if used {
			key := "c09:inbound:" + rule + "-used:" + from.spec.Kind.String()
			switch rule {
			case "own-cluster-id":
				key = "c09:inbound:own-cluster-id-used:peer.handleUpdate:session-cluster-id"
			case "own-cluster-id-nonclient-session":
				key = "c09:inbound:own-cluster-id-used:peer.handleUpdate:nonclient-session"
			}
			rec.Violation(key, fmt.Sprintf("a route with %s received from a %s peer is handed on to the decision process", rule, from.spec.Kind), wit())
		}
	case refmodel.C09MustNot:
		if !used {
			rec.Violation("c09:inbound:wrongly-rejected:"+rule+":"+from.spec.Kind.String(), "a route without any loop indication is rejected", wit())
		}
	}
	// hasOwnASLoop on its own, against plain counting
	if asp := func() *bgp.PathAttributeAsPath {
		for _, a := range attrs {
			if x, ok := a.(*bgp.PathAttributeAsPath); ok {
				return x
			}
		}
		return nil
	}(); asp != nil {
		n := 0
		for _, sg := range in.ASPath {
			for _, a := range sg.AS {
				if a == L || (rt.Confed && a == rt.ConfedID) {
					n++
				}
			}
		}
		got := hasOwnASLoop(L, int(from.spec.AllowOwnAS), asp, rt.ConfedID, rt.Confed)
		rec.Count("hasOwnASLoop_calls", 1)
		if got != (n > int(from.spec.AllowOwnAS)) {
			rec.Violation("c09:inbound:hasOwnASLoop:count", fmt.Sprintf("hasOwnASLoop=%v with %d occurrences and allow-own-as %d", got, n, from.spec.AllowOwnAS), wit())
		}
	}
	if want != refmodel.C09Either {
		rec.Nontrivial("in|" + from.spec.Kind.String() + "|" + rule + "|" + fmt.Sprint(from.spec.AllowOwnAS) + "|" + ro.Shape)
	}
}
