package server

// C19, daemon-level unit: TestVerifC19Daemon. Case index space: idx%3 == 2 is a BMP scenario
// (real time), every other index an MRT scenario (virtual time) — quick 90 cases = 60 MRT + 30 BMP.

import (
	"fmt"
	"os"
	"path/filepath"
	"testing"
	"testing/synctest"

	"github.com/osrg/gobgp/v4/internal/verif/vlib"
)

func TestVerifC19Daemon(t *testing.T) {
	rec := vlib.Open("C19")
	defer rec.Close()
	// MRT file names are passed through time.Format by the writer whenever a rotation interval is
	// set, and every digit in a path is a layout element. The scenarios therefore use digit-free
	// relative names and the process works inside its scratch directory.
	dir := os.Getenv("VERIF_TMP")
	if dir == "" {
		dir = filepath.Join("/verif/build/tmp", fmt.Sprintf("c19d-%d", os.Getpid()))
		defer os.RemoveAll(dir)
	}
	if err := os.MkdirAll(dir, 0o755); err != nil {
		t.Fatalf("scratch dir: %v", err)
	}
	t.Chdir(dir)
	total := vlib.Scale(90, 1800)
	vlib.Cases(total, func(idx int) {
		if idx%3 == 2 {
			c19dBMPCase(t, rec, idx)
			return
		}
		synctest.Test(t, func(t *testing.T) { c19dMRTCase(t, rec, idx) })
	})
}
