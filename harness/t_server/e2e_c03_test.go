package server

// C03, unit "e2e" — the documented decision process, observed on a running daemon.
//
// One scenario = one real BgpServer (virtual time; options always-compare-med / ignore-as-path-length /
// external-compare-router-id from the case index; every third one a confederation member) with sources of every
// kind -- two eBGP, two non-client iBGP (sometimes two sessions to one router-id), one RR client, two
// confederation-member peers, the management API (local routes) -- each neighbour either with a configured
// peer-as or WITHOUT one (peer-as 0: the session type is known only from the peer's OPEN), and a passive eBGP
// observer. For 4 prefixes the sources announce candidates whose attributes are drawn from a grid built to tie
// at every step (LOCAL_PREF, locally originated, AS_PATH length, ORIGIN, MED with the same / different
// neighbouring AS, eBGP over iBGP, age, router-id, neighbour address), in a random ARRIVAL ORDER with earlier
// versions, replacements, withdrawals and transient candidates, partly within one virtual second (equal age) and
// partly seconds apart. At exact quiescence the route ListPath(GLOBAL) marks best and the route the observer
// received (both identified by a tag community) must be a winner of the reference decision process applied to
// the final candidate SET (sequential elimination, a compact copy of the table unit's c03Decide; where the
// documentation leaves a choice -- confederation members in the age / router-id steps, router-id between equally
// old external routes -- the union over the readings is admitted).
//
// Exclusion (as in the table unit): candidate sets in which MED is comparable for some pairs and not for others
// (pairwise comparison is then not transitive: known finding c03:not-best:after-med-incomparable-history:
// med-not-comparable-cycle, decided at table level) are not generated: without always-compare-med all candidates a
// prefix ever has either share one neighbouring AS, or have pairwise different ones, or carry the same MED.

import (
	"fmt"
	"math/rand/v2"
	"net/netip"
	"sort"
	"strings"
	"testing"
	"testing/synctest"
	"time"

	"github.com/google/uuid"

	"github.com/osrg/gobgp/v4/api"
	"github.com/osrg/gobgp/v4/internal/verif/vlib"
	"github.com/osrg/gobgp/v4/pkg/apiutil"
	"github.com/osrg/gobgp/v4/pkg/packet/bgp"
)

const (
	e2eC03Local = iota
	e2eC03EBGP
	e2eC03IBGP
	e2eC03Confed
)

var e2eC03KindName = [...]string{"local", "ebgp", "ibgp", "confed"}

// e2eC03Route: everything the reference reads.
type e2eC03Route struct {
	Src    int
	Kind   int
	RID    uint32
	Addr   netip.Addr // invalid for local
	LP     uint32     // effective LOCAL_PREF (100 when none is carried / when it is not taken from the peer)
	ASLen  int        // AS_SEQUENCE members (confederation segments count 0)
	Nbr    int64      // neighbouring AS: first AS outside confederation segments, -1 = none
	Origin uint8
	Med    uint32
	TS     int64
	Tag    uint32
	Text   string
}

type e2eC03Opts struct{ AlwaysMed, IgnoreLen, ExtRID bool }

type e2eC03Interp struct {
	ConfedExt int  // confederation-member routes in the age / router-id steps: 0 like iBGP; 1 like eBGP, age only if every survivor is external-like; 2 like eBGP, the oldest external-like route eliminates the younger ones
	EBGPRid   bool // router-id between equally old external routes (RFC 4271 9.1.2.2 f) or not (RFC 5004)
}

var e2eC03Steps = []string{"local-pref", "local-origin", "as-path-len", "origin", "med", "ebgp-over-ibgp", "age-routerid", "neighbor-addr"}

func e2eC03Filter(cur []*e2eC03Route, keep func(r *e2eC03Route) bool) []*e2eC03Route {
	var out []*e2eC03Route
	for _, r := range cur {
		if keep(r) {
			out = append(out, r)
		}
	}
	return out
}

// e2eC03Decide: sequential elimination in the documented order; trace[s] = survivors after step s.
func e2eC03Decide(set []*e2eC03Route, o e2eC03Opts, in e2eC03Interp) (winners []*e2eC03Route, trace [][]*e2eC03Route) {
	cur := append([]*e2eC03Route{}, set...)
	step := func(next []*e2eC03Route) {
		cur = next
		trace = append(trace, append([]*e2eC03Route{}, cur...))
	}
	any := func(p func(r *e2eC03Route) bool) bool {
		for _, r := range cur {
			if p(r) {
				return true
			}
		}
		return false
	}
	// highest LOCAL_PREF
	maxLP := uint32(0)
	for _, r := range cur {
		maxLP = max(maxLP, r.LP)
	}
	step(e2eC03Filter(cur, func(r *e2eC03Route) bool { return r.LP == maxLP }))
	// locally originated
	if any(func(r *e2eC03Route) bool { return r.Kind == e2eC03Local }) {
		step(e2eC03Filter(cur, func(r *e2eC03Route) bool { return r.Kind == e2eC03Local }))
	} else {
		step(cur)
	}
	// shortest AS_PATH
	if !o.IgnoreLen && len(cur) > 0 {
		m := cur[0].ASLen
		for _, r := range cur {
			m = min(m, r.ASLen)
		}
		step(e2eC03Filter(cur, func(r *e2eC03Route) bool { return r.ASLen == m }))
	} else {
		step(cur)
	}
	// lowest ORIGIN
	if len(cur) > 0 {
		m := cur[0].Origin
		for _, r := range cur {
			m = min(m, r.Origin)
		}
		step(e2eC03Filter(cur, func(r *e2eC03Route) bool { return r.Origin == m }))
	} else {
		step(cur)
	}
	// lowest MED among comparable routes (RFC 4271 9.1.2.2 c)
	{
		before := cur
		step(e2eC03Filter(cur, func(r *e2eC03Route) bool {
			for _, q := range before {
				if q != r && (o.AlwaysMed || q.Nbr == r.Nbr) && q.Med < r.Med {
					return false
				}
			}
			return true
		}))
	}
	// eBGP over iBGP; confederation members count as internal (RFC 5065 5.3)
	if any(func(r *e2eC03Route) bool { return r.Kind == e2eC03EBGP }) {
		step(e2eC03Filter(cur, func(r *e2eC03Route) bool { return r.Kind == e2eC03EBGP }))
	} else {
		step(cur)
	}
	// oldest (external) / lowest router-id
	{
		ext := func(r *e2eC03Route) bool { return r.Kind == e2eC03EBGP || (r.Kind == e2eC03Confed && in.ConfedExt > 0) }
		allExt := !any(func(r *e2eC03Route) bool { return !ext(r) })
		next := cur
		if !o.ExtRID && len(next) > 0 && (allExt || in.ConfedExt == 2) {
			first := true
			var oldest int64
			for _, r := range next {
				if ext(r) && (first || r.TS < oldest) {
					oldest, first = r.TS, false
				}
			}
			next = e2eC03Filter(next, func(r *e2eC03Route) bool { return !ext(r) || r.TS == oldest })
		}
		ridComparable := func(a, b *e2eC03Route) bool {
			if a.Kind == e2eC03Local || b.Kind == e2eC03Local {
				return false
			}
			return o.ExtRID || in.EBGPRid || !(ext(a) && ext(b))
		}
		before := next
		step(e2eC03Filter(next, func(r *e2eC03Route) bool {
			for _, q := range before {
				if q != r && ridComparable(r, q) && q.RID < r.RID {
					return false
				}
			}
			return true
		}))
	}
	// lowest neighbour address
	{
		var lo netip.Addr
		for _, r := range cur {
			if r.Addr.IsValid() && (!lo.IsValid() || r.Addr.Compare(lo) < 0) {
				lo = r.Addr
			}
		}
		step(e2eC03Filter(cur, func(r *e2eC03Route) bool { return !r.Addr.IsValid() || r.Addr == lo }))
	}
	return cur, trace
}

// ---------------------------------------------------------------- scenario

type e2eC03Src struct {
	idx      int
	name     string
	kind     int
	rr       bool
	as       uint32
	addr     string
	rid      string
	unsetAS  bool // neighbour configured without peer-as
	sp       *simSpeaker
}

type e2eC03Ver struct {
	src    *e2eC03Src
	prefix string
	lpSet  bool
	lp     uint32
	confed []uint32 // leading AS_CONFED_SEQUENCE (confederation-member sources)
	seq    []uint32
	origin uint8
	medSet bool
	med    uint32
	tag    uint32
}

func (v *e2eC03Ver) String() string {
	s := fmt.Sprintf("%s(%s", v.src.name, e2eC03KindName[v.src.kind])
	if v.src.unsetAS {
		s += ",peer-as-unset"
	}
	s += fmt.Sprintf(") tag=%#x", v.tag)
	if v.lpSet {
		s += fmt.Sprintf(" lp=%d", v.lp)
	}
	s += fmt.Sprintf(" path=%v%v origin=%d", v.confed, v.seq, v.origin)
	if v.medSet {
		s += fmt.Sprintf(" med=%d", v.med)
	}
	return s
}

type e2eC03Op struct {
	ver      *e2eC03Ver // nil: withdraw
	src      *e2eC03Src
	prefix   string
	sleepSec int // virtual seconds to let pass BEFORE this op
}

func e2eC03RID(s string) uint32 {
	a := netip.MustParseAddr(s).As4()
	return uint32(a[0])<<24 | uint32(a[1])<<16 | uint32(a[2])<<8 | uint32(a[3])
}

func TestVerifE2E_C03(t *testing.T) {
	rec := vlib.Open("C03")
	defer rec.Close()
	total := vlib.Scale(480, 9600)
	vlib.Cases(total, func(idx int) {
		rec.Mark(fmt.Sprintf("e2e c03 scenario %d", idx), true)
		synctest.Test(t, func(t *testing.T) { e2eC03Scenario(t, rec, idx) })
	})
}

func e2eC03Scenario(t *testing.T, rec *vlib.Rec, idx int) {
	r := vlib.CaseRand("e2e-c03", idx)
	opt := e2eC03Opts{AlwaysMed: idx&1 != 0, IgnoreLen: idx&2 != 0 && idx&8 != 0, ExtRID: idx&4 != 0}
	confed := idx%3 == 0
	g := &api.Global{Asn: simLocalAS, RouterId: "1.1.1.1", RouteSelectionOptions: &api.RouteSelectionOptionsConfig{
		AlwaysCompareMed: opt.AlwaysMed, IgnoreAsPathLength: opt.IgnoreLen, ExternalCompareRouterId: opt.ExtRID}}
	if confed {
		g.Confederation = &api.Confederation{Enabled: true, Identifier: 300, MemberAsList: []uint32{65101}}
	}
	n := simStart(t, g)
	defer func() {
		n.stop()
		synctest.Wait()
	}()
	// ---- sources
	e2AS := uint32(65001)
	if r.IntN(2) == 0 {
		e2AS = 65002
	}
	srcs := []*e2eC03Src{
		{name: "api", kind: e2eC03Local},
		{name: "e1", kind: e2eC03EBGP, as: 65001, addr: "10.0.0.2", rid: "192.0.2.20"},
		{name: "e2", kind: e2eC03EBGP, as: e2AS, addr: "10.0.0.3", rid: "192.0.2.10"},
		{name: "i1", kind: e2eC03IBGP, as: simLocalAS, addr: "10.0.0.4", rid: "192.0.2.40"},
		{name: "i2", kind: e2eC03IBGP, as: simLocalAS, addr: "10.0.0.5", rid: "192.0.2.30"},
		{name: "c1", kind: e2eC03IBGP, rr: true, as: simLocalAS, addr: "10.0.0.6", rid: "192.0.2.35"},
	}
	if confed {
		srcs = append(srcs, &e2eC03Src{name: "m1", kind: e2eC03Confed, as: 65101, addr: "10.0.0.7", rid: "192.0.2.25"},
			&e2eC03Src{name: "m2", kind: e2eC03Confed, as: 65101, addr: "10.0.0.8", rid: "192.0.2.45"})
	}
	// router ids: sometimes ordered against the addresses, sometimes two sessions to one router
	if r.IntN(2) == 0 {
		rids := []string{}
		for _, s := range srcs[1:] {
			rids = append(rids, s.rid)
		}
		r.Shuffle(len(rids), func(i, j int) { rids[i], rids[j] = rids[j], rids[i] })
		for i, s := range srcs[1:] {
			s.rid = rids[i]
		}
	}
	if r.IntN(3) == 0 {
		srcs[4].rid = srcs[3].rid // i1 and i2: two sessions to the same router
	}
	if r.IntN(4) == 0 && e2AS == 65001 {
		srcs[2].rid = srcs[1].rid
	}
	for i, s := range srcs {
		s.idx = i
		if s.kind == e2eC03Local {
			continue
		}
		s.unsetAS = r.IntN(2) == 0
		if confed && s.kind != e2eC03EBGP {
			// Inside a confederation a neighbour without peer-as is presented the confederation identifier (gobgp
			// cannot know before the OPEN that the peer is a member; oc.getLocalAsForPeer), which a real iBGP /
			// member-AS peer refuses: such a session does not exist outside the simulator.
			s.unsetAS = false
		}
		ps := simPeerSpec{Kind: simEBGP, Addr: s.addr, AS: s.as, ID: s.rid}
		if s.kind == e2eC03IBGP {
			ps.Kind = simIBGP
		}
		if s.rr {
			ps.Kind = simRRClient
		}
		unset := s.unsetAS
		ps.Extra = func(p *api.Peer) {
			if unset {
				p.Conf.PeerAsn = 0 // the AS and the session type are learned from the peer's OPEN
			}
		}
		sp, err := n.addPeer(ps)
		if err != nil {
			rec.Inconclusive("e2e c03: AddPeer " + s.name + ": " + err.Error())
			return
		}
		s.sp = sp
	}
	obs, err := n.addPeer(simPeerSpec{Kind: simEBGP, Addr: "10.0.0.99", AS: 65099, ID: "192.0.2.99"})
	if err != nil {
		rec.Inconclusive("e2e c03: AddPeer observer: " + err.Error())
		return
	}
	synctest.Wait()
	for _, s := range srcs[1:] {
		if err := s.sp.bringUp(40); err != nil {
			rec.Inconclusive("e2e c03: " + s.name + ": " + err.Error())
			return
		}
	}
	if err := obs.bringUp(40); err != nil {
		rec.Inconclusive("e2e c03: observer: " + err.Error())
		return
	}
	rec.Eval()
	rec.Count("e2e:c03:scenarios", 1)
	rec.Count(fmt.Sprintf("e2e:c03:options:always-compare-med=%v", opt.AlwaysMed), 1)
	rec.Count(fmt.Sprintf("e2e:c03:options:ignore-as-path-length=%v", opt.IgnoreLen), 1)
	rec.Count(fmt.Sprintf("e2e:c03:options:external-compare-router-id=%v", opt.ExtRID), 1)
	if confed {
		rec.Count("e2e:c03:confederation", 1)
	}

	// ---- candidates per prefix
	prefixes := []string{"10.1.0.0/24", "10.2.0.0/16", "192.0.2.0/25", "10.3.3.0/24"}
	nextTag := uint32(0)
	type plan struct {
		ops   []e2eC03Op
		final map[int]*e2eC03Ver // by source index
	}
	plans := map[string]*plan{}
	fill := []uint32{64512, 64513, 100, 200, 4200000009, 3356}
	for pi, pfx := range prefixes {
		// the MED regime of this prefix (see the exclusion in the header)
		regime := "free"
		if !opt.AlwaysMed {
			regime = []string{"same-neighbor-as", "distinct-neighbor-as", "equal-med"}[r.IntN(3)]
		}
		equalMed, equalMedSet := uint32(r.IntN(3)*10), r.IntN(2) == 0
		cand := append([]*e2eC03Src{}, srcs...)
		r.Shuffle(len(cand), func(i, j int) { cand[i], cand[j] = cand[j], cand[i] })
		var use []*e2eC03Src
		for _, s := range cand {
			if regime == "same-neighbor-as" && s.kind == e2eC03EBGP && s.as != 65001 {
				continue
			}
			if regime == "distinct-neighbor-as" && s.kind == e2eC03EBGP && s.name == "e2" && s.as == 65001 {
				continue
			}
			if s.kind == e2eC03Local && r.IntN(3) != 0 {
				continue
			}
			use = append(use, s)
		}
		k := 2 + r.IntN(4)
		if k > len(use) {
			k = len(use)
		}
		use = use[:k]
		// a base the candidates tie on; each version deviates from it in few places
		baseLen := 1 + r.IntN(3)
		baseOrigin := uint8(r.IntN(2))
		draw := func(s *e2eC03Src) *e2eC03Ver {
			nextTag++
			v := &e2eC03Ver{src: s, prefix: pfx, tag: uint32(64000+pi)<<16 | nextTag, origin: baseOrigin}
			alen := baseLen
			switch r.IntN(8) {
			case 0:
				alen++
			case 1:
				if alen > 1 {
					alen--
				}
			}
			if r.IntN(6) == 0 {
				v.origin = uint8(r.IntN(3))
			}
			// the neighbouring AS
			nbr := uint32(0)
			switch regime {
			case "same-neighbor-as":
				nbr = 65001
			case "distinct-neighbor-as":
				nbr = 64600 + uint32(s.idx)
			default:
				nbr = []uint32{65001, 65002, 64600}[r.IntN(3)]
			}
			switch s.kind {
			case e2eC03EBGP:
				nbr = s.as
			case e2eC03Local:
				if regime != "same-neighbor-as" && regime != "distinct-neighbor-as" && r.IntN(2) == 0 {
					alen = 0
				}
			}
			for i := 0; i < alen; i++ {
				if i == 0 {
					v.seq = append(v.seq, nbr)
				} else {
					v.seq = append(v.seq, fill[r.IntN(len(fill))])
				}
			}
			if s.kind == e2eC03Confed {
				v.confed = []uint32{s.as}
				if r.IntN(3) == 0 {
					v.confed = append(v.confed, 65102)
				}
			}
			// MED
			switch {
			case regime == "equal-med":
				v.medSet, v.med = equalMedSet, equalMed
				if !equalMedSet {
					v.med = 0
				}
			case r.IntN(3) != 0:
				v.medSet, v.med = true, []uint32{0, 10, 10, 20}[r.IntN(4)]
			}
			// LOCAL_PREF: carried by internal peers and local routes only
			if s.kind == e2eC03IBGP {
				v.lpSet, v.lp = true, []uint32{100, 100, 100, 200, 50}[r.IntN(5)]
			} else if s.kind == e2eC03Local && r.IntN(2) == 0 {
				v.lpSet, v.lp = true, []uint32{100, 100, 200, 50}[r.IntN(4)]
			}
			return v
		}
		pl := &plan{final: map[int]*e2eC03Ver{}}
		// per source: earlier versions, maybe a withdrawal in between, the final version; transient sources end withdrawn
		var chains [][]e2eC03Op
		for _, s := range use {
			var ch []e2eC03Op
			for e := r.IntN(3); e > 0; e-- {
				ch = append(ch, e2eC03Op{ver: draw(s), src: s, prefix: pfx})
				if r.IntN(4) == 0 {
					ch = append(ch, e2eC03Op{src: s, prefix: pfx})
				}
			}
			if r.IntN(6) == 0 && len(ch) > 0 { // transient candidate
				ch = append(ch, e2eC03Op{src: s, prefix: pfx})
			} else {
				fv := draw(s)
				ch = append(ch, e2eC03Op{ver: fv, src: s, prefix: pfx})
				pl.final[s.idx] = fv
			}
			chains = append(chains, ch)
		}
		// a random interleaving that keeps each source's own order
		for {
			var live []int
			for i, ch := range chains {
				if len(ch) > 0 {
					live = append(live, i)
				}
			}
			if len(live) == 0 {
				break
			}
			i := live[r.IntN(len(live))]
			pl.ops = append(pl.ops, chains[i][0])
			chains[i] = chains[i][1:]
		}
		plans[pfx] = pl
		rec.Count("e2e:c03:med-regime:"+regime, 1)
	}
	// merge the prefixes' histories (again order preserving) and decide where virtual time passes
	var ops []e2eC03Op
	{
		rest := map[string][]e2eC03Op{}
		for p, pl := range plans {
			rest[p] = pl.ops
		}
		for {
			var live []string
			for _, p := range prefixes {
				if len(rest[p]) > 0 {
					live = append(live, p)
				}
			}
			if len(live) == 0 {
				break
			}
			p := live[r.IntN(len(live))]
			op := rest[p][0]
			rest[p] = rest[p][1:]
			if r.IntN(3) == 0 {
				op.sleepSec = 1 + r.IntN(3)
			}
			ops = append(ops, op)
		}
	}
	// ---- run the history
	var hist []string
	lastTS := map[string]map[int]int64{}
	apiUUID := map[string]uuid.UUID{}
	for _, op := range ops {
		if op.sleepSec > 0 {
			time.Sleep(time.Duration(op.sleepSec) * time.Second)
			hist = append(hist, fmt.Sprintf("-- %d s pass", op.sleepSec))
		}
		now := time.Now().Unix()
		pfx := netip.MustParsePrefix(op.prefix)
		nl, _ := bgp.NewIPAddrPrefix(pfx)
		if op.ver == nil {
			hist = append(hist, fmt.Sprintf("t=%d withdraw %s from %s", now, op.prefix, op.src.name))
			if op.src.kind == e2eC03Local {
				if u, ok := apiUUID[op.prefix]; ok {
					if err := n.s.DeletePath(apiutil.DeletePathRequest{UUIDs: []uuid.UUID{u}}); err != nil {
						rec.Inconclusive("e2e c03: DeletePath: " + err.Error())
						return
					}
					delete(apiUUID, op.prefix)
				}
			} else if err := op.src.sp.sendMsg(bgp.NewBGPUpdateMessage([]bgp.PathNLRI{{NLRI: nl}}, nil, nil)); err != nil {
				rec.Inconclusive("e2e c03: send: " + err.Error())
				return
			}
			synctest.Wait()
			continue
		}
		v := op.ver
		hist = append(hist, fmt.Sprintf("t=%d announce %s %s", now, op.prefix, v))
		var params []bgp.AsPathParamInterface
		if len(v.confed) > 0 {
			params = append(params, bgp.NewAs4PathParam(bgp.BGP_ASPATH_ATTR_TYPE_CONFED_SEQ, append([]uint32{}, v.confed...)))
		}
		if len(v.seq) > 0 {
			params = append(params, bgp.NewAs4PathParam(bgp.BGP_ASPATH_ATTR_TYPE_SEQ, append([]uint32{}, v.seq...)))
		}
		attrs := []bgp.PathAttributeInterface{bgp.NewPathAttributeOrigin(v.origin), bgp.NewPathAttributeAsPath(params)}
		nhAddr := "10.0.0.1"
		if v.src.kind != e2eC03Local {
			nhAddr = v.src.addr
		}
		nh, _ := bgp.NewPathAttributeNextHop(netip.MustParseAddr(nhAddr))
		attrs = append(attrs, nh)
		if v.medSet {
			attrs = append(attrs, bgp.NewPathAttributeMultiExitDisc(v.med))
		}
		if v.lpSet {
			attrs = append(attrs, bgp.NewPathAttributeLocalPref(v.lp))
		}
		attrs = append(attrs, bgp.NewPathAttributeCommunities([]uint32{v.tag}))
		if v.src.kind == e2eC03Local {
			if u, ok := apiUUID[op.prefix]; ok { // a new version of the local route replaces the old one
				n.s.DeletePath(apiutil.DeletePathRequest{UUIDs: []uuid.UUID{u}})
			}
			res, err := n.s.AddPath(apiutil.AddPathRequest{Paths: []*apiutil.Path{{Family: bgp.RF_IPv4_UC, Nlri: nl, Attrs: attrs}}})
			if err != nil || len(res) != 1 || res[0].Error != nil {
				rec.Inconclusive(fmt.Sprintf("e2e c03: AddPath: %v %v", err, res))
				return
			}
			apiUUID[op.prefix] = res[0].UUID
		} else if err := v.src.sp.sendMsg(bgp.NewBGPUpdateMessage(nil, attrs, []bgp.PathNLRI{{NLRI: nl}})); err != nil {
			rec.Inconclusive("e2e c03: send: " + err.Error())
			return
		}
		if lastTS[op.prefix] == nil {
			lastTS[op.prefix] = map[int]int64{}
		}
		lastTS[op.prefix][v.src.idx] = now
		synctest.Wait() // the arrival order is the order of this history
	}
	synctest.Wait()

	wit := func(extra map[string]any) map[string]any {
		var ss []string
		for _, s := range srcs[1:] {
			ss = append(ss, fmt.Sprintf("%s %s as%d addr=%s router-id=%s peer-as-configured=%v rr-client=%v", s.name, e2eC03KindName[s.kind], s.as, s.addr, s.rid, !s.unsetAS, s.rr))
		}
		w := map[string]any{"case": idx, "options": fmt.Sprintf("%+v", opt), "confederation": confed, "sources": ss, "history": hist}
		for k, v := range extra {
			w[k] = v
		}
		return w
	}
	for _, s := range srcs[1:] {
		if !e2eEstablished(n, s.addr) {
			s.sp.mu.Lock()
			nf := s.sp.notif
			s.sp.mu.Unlock()
			rec.Violation("e2e:c03:session-lost:"+e2eC03KindName[s.kind], fmt.Sprintf("the session to %s was lost (notification %v) although it announced well-formed routes", s.name, nf), wit(nil))
			return
		}
	}
	// ---- observe
	global, err := e2eListPath(n, api.TableType_TABLE_TYPE_GLOBAL, "", bgp.RF_IPv4_UC, false)
	if err != nil {
		rec.Inconclusive("e2e c03: ListPath: " + err.Error())
		return
	}
	ups, problems := e2eDecodeRx(obs)
	for _, pr := range problems {
		rec.Violation("e2e:c03:wire:malformed-message", "a message sent to the observer is malformed: "+pr, wit(nil))
	}
	oview, _ := e2eApply(ups)
	tagOf := func(rt *e2eRoute) uint32 {
		cs, _ := rt.communities()
		if len(cs) == 0 {
			return 0
		}
		return cs[0]
	}

	// ---- judge
	nontrivial := false
	var shape []string
	for _, pfx := range prefixes {
		pl := plans[pfx]
		var set []*e2eC03Route
		var desc []string
		unsetInvolved := false
		kinds := map[string]bool{}
		for si, v := range pl.final {
			s := srcs[si]
			rt := &e2eC03Route{Src: si, Kind: s.kind, LP: 100, ASLen: len(v.seq), Nbr: -1, Origin: v.origin, TS: lastTS[pfx][si], Tag: v.tag, Text: v.String()}
			if s.kind != e2eC03Local {
				rt.RID, rt.Addr = e2eC03RID(s.rid), netip.MustParseAddr(s.addr)
			}
			if v.lpSet && (s.kind == e2eC03IBGP || s.kind == e2eC03Local) {
				rt.LP = v.lp
			}
			if len(v.seq) > 0 {
				rt.Nbr = int64(v.seq[0])
			}
			if v.medSet {
				rt.Med = v.med
			}
			set = append(set, rt)
			kinds[e2eC03KindName[s.kind]] = true
			if s.unsetAS {
				kinds[e2eC03KindName[s.kind]+"/peer-as-unset"] = true
			}
		}
		sort.Slice(set, func(i, j int) bool { return set[i].Src < set[j].Src })
		for _, rt := range set {
			desc = append(desc, fmt.Sprintf("%s t=%d", rt.Text, rt.TS))
		}
		rec.Count("e2e:c03:candidate_sets", 1)
		rec.Count(fmt.Sprintf("e2e:c03:set-size:%d", len(set)), 1)
		for k := range kinds {
			rec.Count("e2e:c03:candidate-kind:"+k, 1)
		}
		// the reference, under every reading
		admissible := map[uint32]*e2eC03Route{}
		var trace0 [][]*e2eC03Route
		for ce := 0; ce < 3; ce++ {
			for _, er := range []bool{false, true} {
				w, tr := e2eC03Decide(set, opt, e2eC03Interp{ce, er})
				if trace0 == nil {
					trace0 = tr
				}
				for _, x := range w {
					admissible[x.Tag] = x
				}
			}
		}
		// deciding step (first reading): the step after which one route is left
		decided := "none"
		if len(set) > 1 {
			decided = "tie-left"
			prev := len(set)
			for s, tr := range trace0 {
				if len(tr) < prev {
					decided = e2eC03Steps[s]
					prev = len(tr)
				}
			}
			rec.Count("e2e:c03:decided_at_"+decided, 1)
			nontrivial = true
		}
		var adm []string
		for _, x := range admissible {
			adm = append(adm, x.Text)
			if srcs[x.Src].unsetAS {
				unsetInvolved = true
			}
		}
		sort.Strings(adm)
		elimStep := func(tag uint32) string {
			alive := "never-a-candidate"
			for _, rt := range set {
				if rt.Tag == tag {
					alive = "kept-to-the-end"
					for s := len(trace0) - 1; s >= 0; s-- {
						in := false
						for _, x := range trace0[s] {
							in = in || x.Tag == tag
						}
						if !in {
							alive = e2eC03Steps[s]
						}
					}
					if srcs[rt.Src].unsetAS {
						unsetInvolved = true
					}
				}
			}
			return alive
		}
		var ribPaths []string
		for _, p := range global[pfx] {
			ribPaths = append(ribPaths, fmt.Sprintf("tag=%#x from=%s best=%v local-pref=%s med=%s", tagOf(p.Route), p.Source, p.Best, e2eC10U32(p.Route.u32(5)), e2eC10U32(p.Route.u32(4))))
		}
		judge := func(view string, tag uint32, present bool) {
			w := wit(map[string]any{"prefix": pfx, "candidates": desc, "rib_paths_in_list_order": ribPaths, "admissible_winners": adm, "view": view, "observed_tag": fmt.Sprintf("%#x", tag), "observed_present": present})
			cls := func() string {
				if unsetInvolved {
					return ":peer-as-unset-involved"
				}
				return ""
			}
			switch {
			case len(set) == 0 && present:
				rec.Violation("e2e:c03:"+view+":route-although-no-candidate", fmt.Sprintf("%s shows a best route for %s (tag %#x) although every candidate was withdrawn", view, pfx, tag), w)
			case len(set) > 0 && !present:
				rec.Violation("e2e:c03:"+view+":no-best-although-candidates", fmt.Sprintf("%s shows no best route for %s although %d candidates are announced", view, pfx, len(set)), w)
			case present && admissible[tag] == nil:
				st := elimStep(tag)
				rec.Violation("e2e:c03:"+view+":not-best:eliminated-at-"+st+cls(), fmt.Sprintf("%s: the best route of %s is tag %#x, which the documented decision process eliminates at step '%s'; admissible: %v", view, pfx, tag, st, adm), w)
			}
		}
		// ListPath(GLOBAL): exactly one path marked best, and every candidate listed
		var bestTag uint32
		nBest := 0
		for _, p := range global[pfx] {
			if p.Best {
				nBest++
				bestTag = tagOf(p.Route)
			}
		}
		if len(global[pfx]) != len(set) {
			rec.Violation("e2e:c03:rib:candidate-count", fmt.Sprintf("ListPath(GLOBAL) lists %d paths for %s, %d candidates are announced", len(global[pfx]), pfx, len(set)), wit(map[string]any{"prefix": pfx, "candidates": desc}))
		}
		if nBest > 1 {
			rec.Violation("e2e:c03:rib:several-best", fmt.Sprintf("ListPath(GLOBAL) marks %d paths of %s best", nBest, pfx), wit(map[string]any{"prefix": pfx, "candidates": desc}))
		}
		judge("rib", bestTag, nBest > 0)
		rec.Count("e2e:c03:rib_best_checked", 1)
		// the observer
		ort, held := oview[simRouteKey{bgp.RF_IPv4_UC, pfx, 0}]
		var otag uint32
		if held {
			otag = tagOf(ort)
		}
		judge("observer", otag, held)
		rec.Count("e2e:c03:observer_best_checked", 1)
		if held && nBest > 0 && otag != bestTag {
			rec.Violation("e2e:c03:observer!=rib-best", fmt.Sprintf("the observer holds tag %#x for %s, ListPath(GLOBAL) marks tag %#x best", otag, pfx, bestTag), wit(map[string]any{"prefix": pfx, "candidates": desc}))
		}
		var ks []string
		for k := range kinds {
			ks = append(ks, k)
		}
		sort.Strings(ks)
		shape = append(shape, strings.Join(ks, "+")+"@"+decided)
	}
	if nontrivial {
		sort.Strings(shape)
		rec.Count("e2e:c03:nontrivial_scenarios", 1)
		rec.Nontrivial("e2e-c03|" + fmt.Sprintf("%+v|%v|", opt, confed) + vlib.Hash(strings.Join(shape, "|")))
	}
	if idx%97 == 0 {
		h := hist
		if len(h) > 30 {
			h = h[:30]
		}
		rec.Sample(map[string]any{"case": idx, "unit": "e2e", "options": fmt.Sprintf("%+v", opt), "confederation": confed, "history": h})
	}
	_ = rand.Int
}
