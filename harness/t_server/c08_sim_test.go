package server

// C08, session level: a whole BgpServer in virtual time, one neighbour configured through the API,
// a byte-level scripted speaker. One case = one neighbour configuration x 1-2 consecutive sessions
// with independently generated OPENs. Observed per session: gobgp's OPEN bytes, refusal and its
// NOTIFICATION, ListPeer and the fsm's negotiation result, acceptance of one probe UPDATE per
// family (encoded under the reference's options), every UPDATE gobgp emits (decoded from the raw
// bytes), the extended-message length gate, keepalive instants and the hold-timer expiry instant.

import (
	"context"
	"encoding/binary"
	"fmt"
	"log/slog"
	"math/rand/v2"
	"net"
	"net/netip"
	"os"
	"sort"
	"strings"
	"sync"
	"testing"
	"testing/synctest"
	"time"

	"github.com/osrg/gobgp/v4/api"
	"github.com/osrg/gobgp/v4/internal/pkg/table"
	"github.com/osrg/gobgp/v4/internal/verif/vlib"
	"github.com/osrg/gobgp/v4/pkg/apiutil"
	"github.com/osrg/gobgp/v4/pkg/packet/bgp"
)

const (
	c08Addr     = "10.0.0.2"
	c08PadAttr  = 251 // unknown optional transitive attribute used to size probe UPDATEs exactly
	c08BulkN    = 1100
	c08BigComms = 1040 // communities on the oversize local route (attribute value 4160 octets)
)

// c08BlackBox (VERIF_C08_BLACKBOX=1, sensitivity experiments only) switches the white-box and ListPeer
// comparisons off, so that a mutant has to be caught by wire behaviour alone.
var c08BlackBox = os.Getenv("VERIF_C08_BLACKBOX") != ""

// c08CollisionVerdict (VERIF_C08_COLLISION_VERDICT=1) additionally reports the outcome of the
// connection collision itself (which connection survives) under c07:collision:both-opens-pending:*
// keys, and VERIF_C08_ONLY_COLLISIONS=1 turns every case into a collision case: for a C07 unit
// that wants the "both OPENs pending at opensent()'s select" schedule this file can produce.
var c08CollisionVerdict = os.Getenv("VERIF_C08_COLLISION_VERDICT") != ""
var c08OnlyCollisions = os.Getenv("VERIF_C08_ONLY_COLLISIONS") != ""

// ---------------------------------------------------------------- speaker

type c08Rx struct {
	At   time.Time
	Type uint8
	Raw  []byte
}

type c08Spk struct {
	c        net.Conn
	mu       sync.Mutex
	rx       []c08Rx
	closed   bool
	closedAt time.Time
	wg       sync.WaitGroup
	reading  bool
}

func (s *c08Spk) startReader() {
	if s.reading {
		return
	}
	s.reading = true
	s.wg.Add(1)
	go func() {
		defer s.wg.Done()
		for {
			hd, body, err := simReadMsgRaw(s.c)
			now := time.Now()
			s.mu.Lock()
			if err != nil {
				s.closed, s.closedAt = true, now
				s.mu.Unlock()
				return
			}
			s.rx = append(s.rx, c08Rx{now, hd.Type, append(mustSerializeHeader(hd), body...)})
			s.mu.Unlock()
		}
	}()
}

func (s *c08Spk) write(b []byte) error { _, err := s.c.Write(b); return err }

// writeAsync is for messages gobgp may stop reading half way (it answers the header alone).
func (s *c08Spk) writeAsync(b []byte) {
	s.wg.Add(1)
	go func() { defer s.wg.Done(); s.c.Write(b) }()
}

func (s *c08Spk) shutdown() {
	s.c.Close()
	s.wg.Wait()
}

func (s *c08Spk) snapshot() (rx []c08Rx, closed bool, closedAt time.Time) {
	s.mu.Lock()
	defer s.mu.Unlock()
	return append([]c08Rx{}, s.rx...), s.closed, s.closedAt
}

func (s *c08Spk) notification() (code, sub uint8, at time.Time, ok bool) {
	rx, _, _ := s.snapshot()
	for _, m := range rx {
		if m.Type == bgp.BGP_MSG_NOTIFICATION && len(m.Raw) >= 21 {
			return m.Raw[19], m.Raw[20], m.At, true
		}
	}
	return 0, 0, time.Time{}, false
}

// ---------------------------------------------------------------- routes

type c08Route struct {
	F    bgp.Family
	NLRI bgp.NLRI
	X    []byte // NLRI octets without path identifier
}

func c08MustNLRI(f bgp.Family, local bool) bgp.NLRI {
	rdAS, rdN, etag := uint16(65009), uint32(1), uint32(99)
	p4, p6, pv := "10.99.0.0/24", "2001:db8:99::/48", "10.98.0.0/24"
	ip := "10.0.0.2"
	if local {
		rdAS, rdN, etag = 65000, 100, 10
		p4, p6, pv = "10.8.0.0/24", "2001:db8:8::/48", "10.9.0.0/24"
		ip = "10.0.0.1"
	}
	rd := bgp.NewRouteDistinguisherTwoOctetAS(rdAS, rdN)
	var nl bgp.NLRI
	var err error
	switch f {
	case c08V4:
		nl, err = bgp.NewIPAddrPrefix(netip.MustParsePrefix(p4))
	case c08V6:
		nl, err = bgp.NewIPAddrPrefix(netip.MustParsePrefix(p6))
	case c08VPN4:
		nl, err = bgp.NewLabeledVPNIPAddrPrefix(netip.MustParsePrefix(pv), *bgp.NewMPLSLabelStack(200), rd)
	case c08EVPN:
		nl, err = bgp.NewEVPNMulticastEthernetTagRoute(rd, etag, netip.MustParseAddr(ip))
	case c08RTC:
		// the speaker registers interest in the route target of gobgp's local VPN routes
		nl = bgp.NewRouteTargetMembershipNLRI(uint32(rdAS), bgp.NewTwoOctetAsSpecificExtended(bgp.EC_SUBTYPE_ROUTE_TARGET, 65000, 100, true))
	}
	if err != nil || nl == nil {
		panic(fmt.Sprintf("c08: cannot build NLRI for %s: %v", f, err))
	}
	return nl
}

func c08NewRoute(f bgp.Family, local bool) *c08Route {
	nl := c08MustNLRI(f, local)
	x, err := nl.Serialize()
	if err != nil {
		panic(err)
	}
	return &c08Route{F: f, NLRI: nl, X: x}
}

var c08PathTail = []uint32{70000, 64512} // AS_PATH of every local route and probe (before the sender's own AS)

// ---------------------------------------------------------------- UPDATE construction (speaker side, raw)

func c08AttrBytes(flags, typ uint8, val []byte) []byte {
	if len(val) > 255 || flags&0x10 != 0 {
		return append([]byte{flags | 0x10, typ, byte(len(val) >> 8), byte(len(val))}, val...)
	}
	return append([]byte{flags, typ, byte(len(val))}, val...)
}

func c08ASPathVal(path []uint32, width int) []byte {
	if len(path) == 0 {
		return nil
	}
	v := []byte{2, byte(len(path))}
	for _, a := range path {
		if width == 2 {
			if a > 65535 {
				a = c08ASTrans
			}
			v = append(v, byte(a>>8), byte(a))
		} else {
			v = append(v, byte(a>>24), byte(a>>16), byte(a>>8), byte(a))
		}
	}
	return v
}

// c08BuildUpdate writes an UPDATE announcing one NLRI of family f under the given session options.
// padTo > 0 adds an unknown optional transitive attribute so that the message is exactly padTo octets.
func c08BuildUpdate(f bgp.Family, x []byte, withID bool, id uint32, path []uint32, as4, internal bool, padTo int) []byte {
	nlri := x
	if withID {
		nlri = append([]byte{byte(id >> 24), byte(id >> 16), byte(id >> 8), byte(id)}, x...)
	}
	attrs := c08AttrBytes(0x40, 1, []byte{0})
	if as4 {
		attrs = append(attrs, c08AttrBytes(0x40, 2, c08ASPathVal(path, 4))...)
	} else {
		attrs = append(attrs, c08AttrBytes(0x40, 2, c08ASPathVal(path, 2))...)
	}
	nh4 := netip.MustParseAddr(c08Addr).As4()
	if f == c08V4 {
		attrs = append(attrs, c08AttrBytes(0x40, 3, nh4[:])...)
	}
	if internal {
		attrs = append(attrs, c08AttrBytes(0x40, 5, []byte{0, 0, 0, 100})...)
	}
	if !as4 {
		big := false
		for _, a := range path {
			if a > 65535 {
				big = true
			}
		}
		if big {
			attrs = append(attrs, c08AttrBytes(0xc0, 17, c08ASPathVal(path, 4))...)
		}
	}
	var tail []byte
	if f == c08V4 {
		tail = nlri
	} else {
		var nh []byte
		switch f {
		case c08V6:
			a := netip.MustParseAddr("2001:db8::2").As16()
			nh = a[:]
		case c08VPN4:
			nh = append(make([]byte, 8), nh4[:]...)
		default:
			nh = nh4[:]
		}
		v := []byte{byte(f.Afi() >> 8), byte(f.Afi()), f.Safi(), byte(len(nh))}
		v = append(v, nh...)
		v = append(v, 0)
		v = append(v, nlri...)
		attrs = append(attrs, c08AttrBytes(0x80, 14, v)...)
	}
	if padTo > 0 {
		cur := 19 + 2 + 2 + len(attrs) + len(tail)
		n := padTo - cur - 4
		if n < 0 {
			panic("c08: padTo too small")
		}
		pad := make([]byte, n)
		for i := range pad {
			pad[i] = byte(i)
		}
		attrs = append(attrs, c08AttrBytes(0xd0, c08PadAttr, pad)...)
	}
	body := []byte{0, 0, byte(len(attrs) >> 8), byte(len(attrs))}
	body = append(body, attrs...)
	body = append(body, tail...)
	return append(c08Header(19+len(body), 2), body...)
}

// ---------------------------------------------------------------- the case

type c08Case struct {
	t      *testing.T
	rec    *vlib.Rec
	idx    int
	r      *rand.Rand
	n      *simNet
	l      *c08Local
	log    []string
	local  map[bgp.Family]*c08Route
	probe  map[bgp.Family]*c08Route
	bulk   bool
	failed bool
	spk    *c08Spk // current connection (for witnesses)
	// how the first session comes about: "passive" (the speaker connects, gobgp never dials),
	// "active" (gobgp's own outgoing connection only), "collision" (both connections, both OPENs
	// pending when opensent() selects), "collision-out-first" (outgoing connection completes while
	// the incoming one is still waiting for the peer's OPEN)
	mode   string
	offer  chan net.Conn // connection handed to gobgp's next dial
	dialed chan struct{}
	oAlt   *c08Open // the OPEN sent on the incoming connection of a collision (o goes out on the dialled one)
	extra  []*c08Spk
}

func (cs *c08Case) logf(f string, a ...any) {
	cs.log = append(cs.log, fmt.Sprintf("%s ", time.Now().Format("15:04:05.000"))+fmt.Sprintf(f, a...))
	if simDebug {
		fmt.Printf("C08DBG "+f+"\n", a...)
	}
}

func (cs *c08Case) witness(o *c08Open, extra map[string]any) map[string]any {
	w := map[string]any{"case": cs.idx, "layer": "session", "config": cs.l.String(), "bulk_prefixes": cs.bulk, "log": append([]string{}, cs.log...)}
	if o != nil {
		w["open"] = o.String()
		w["open_hex"] = fmt.Sprintf("%x", o.bytes())
	}
	if cs.spk != nil {
		rx, closed, _ := cs.spk.snapshot()
		var l []string
		for i, m := range rx {
			if i >= 40 {
				l = append(l, fmt.Sprintf("... %d more", len(rx)-i))
				break
			}
			l = append(l, fmt.Sprintf("%s type=%d len=%d %x", m.At.Format("15:04:05.000"), m.Type, len(m.Raw), c08Trunc(m.Raw[18:])))
		}
		w["received_from_gobgp"] = l
		w["connection_closed_by_gobgp"] = closed
	}
	for k, v := range extra {
		w[k] = v
	}
	return w
}

func (cs *c08Case) viol(o *c08Open, key, what string, extra map[string]any) {
	cs.failed = true
	cs.rec.Violation(key, what, cs.witness(o, extra))
}

func c08APIPeer(l *c08Local, passive bool) *api.Peer {
	p := &api.Peer{
		Conf:      &api.PeerConf{NeighborAddress: c08Addr, PeerAsn: l.PeerAS, LocalAsn: l.LocalAS},
		Transport: &api.Transport{PassiveMode: passive},
	}
	tc := &api.TimersConfig{}
	if l.HoldSet && l.Hold != 0 {
		tc.HoldTime = uint64(l.Hold)
	}
	if l.KASet {
		tc.KeepaliveInterval = uint64(l.KA)
	}
	p.Timers = &api.Timers{Config: tc}
	for _, fc := range l.Fams {
		af := &api.AfiSafi{
			Config:                   &api.AfiSafiConfig{Family: &api.Family{Afi: api.Family_Afi(fc.F.Afi()), Safi: api.Family_Safi(fc.F.Safi())}, Enabled: true},
			AddPaths:                 &api.AddPaths{Config: &api.AddPathsConfig{Receive: fc.APRecv, SendMax: uint32(fc.SendMax)}},
			MpGracefulRestart:        &api.MpGracefulRestart{Config: &api.MpGracefulRestartConfig{Enabled: fc.GR}},
			LongLivedGracefulRestart: &api.LongLivedGracefulRestart{Config: &api.LongLivedGracefulRestartConfig{Enabled: fc.LLGR, RestartTime: fc.LLGRTime}},
		}
		p.AfiSafis = append(p.AfiSafis, af)
	}
	if l.GR {
		p.GracefulRestart = &api.GracefulRestart{Enabled: true, RestartTime: uint32(l.GRTime), HelperOnly: l.GRHelper, NotificationEnabled: l.GRNotif, LonglivedEnabled: l.LLGR}
	}
	return p
}

func (cs *c08Case) addLocalRoutes() error {
	var paths []*apiutil.Path
	origin := bgp.NewPathAttributeOrigin(0)
	mk := func(f bgp.Family, nl bgp.NLRI) *apiutil.Path {
		attrs := []bgp.PathAttributeInterface{origin, bgp.NewPathAttributeAsPath([]bgp.AsPathParamInterface{bgp.NewAs4PathParam(bgp.BGP_ASPATH_ATTR_TYPE_SEQ, c08PathTail)})}
		if f == c08V6 {
			mp, _ := bgp.NewPathAttributeMpReachNLRI(f, []bgp.PathNLRI{{NLRI: nl}}, netip.MustParseAddr("2001:db8::1"))
			attrs = append(attrs, mp)
		} else {
			nh, _ := bgp.NewPathAttributeNextHop(netip.MustParseAddr(simLocalAddr))
			attrs = append(attrs, nh)
		}
		if f == c08VPN4 || f == c08EVPN {
			attrs = append(attrs, bgp.NewPathAttributeExtendedCommunities([]bgp.ExtendedCommunityInterface{bgp.NewTwoOctetAsSpecificExtended(bgp.EC_SUBTYPE_ROUTE_TARGET, 65000, 100, true)}))
		}
		return &apiutil.Path{Family: f, Nlri: nl, Attrs: attrs}
	}
	for _, f := range c08Fams {
		rt := c08NewRoute(f, true)
		cs.local[f] = rt
		paths = append(paths, mk(f, rt.NLRI))
	}
	if cs.bulk {
		for i := 0; i < c08BulkN; i++ {
			nl, _ := bgp.NewIPAddrPrefix(netip.PrefixFrom(netip.AddrFrom4([4]byte{10, 200, byte(i >> 8), byte(i)}), 32))
			paths = append(paths, mk(c08V4, nl))
		}
	}
	res, err := cs.n.s.AddPath(apiutil.AddPathRequest{Paths: paths})
	if err != nil {
		return err
	}
	for _, r := range res {
		if r.Error != nil {
			return r.Error
		}
	}
	return nil
}

func (cs *c08Case) peer() *peer { return cs.n.s.neighborMap[netip.MustParseAddr(c08Addr)] }

func (cs *c08Case) listPeer() *api.Peer {
	var out *api.Peer
	cs.n.s.ListPeer(context.Background(), &api.ListPeerRequest{Address: c08Addr}, func(p *api.Peer) { out = p })
	return out
}

type c08In struct {
	F      bgp.Family
	X      string
	ID     uint32
	ASList []uint32
	PadLen int
	Stale  bool
}

func (cs *c08Case) adjIn() []c08In {
	var out []c08In
	cs.n.s.mgmtOperation(func() error {
		for _, p := range cs.peer().adjRibIn.PathList(c08Fams, false) {
			x, _ := p.GetNlri().Serialize()
			in := c08In{F: p.GetFamily(), X: fmt.Sprintf("%x", x), ID: p.RemoteID(), ASList: p.GetAsList(), PadLen: -1, Stale: p.IsStale()}
			for _, a := range p.GetPathAttrs() {
				if u, ok := a.(*bgp.PathAttributeUnknown); ok && uint8(u.GetType()) == c08PadAttr {
					in.PadLen = len(u.Value)
				}
			}
			out = append(out, in)
		}
		return nil
	}, true)
	return out
}

// c08FindIn looks the route up in ADJ_IN, preferring the entry with the path id it was sent with
// (a stale copy retained from an earlier graceful-restart session may sit under another id).
func c08FindIn(ins []c08In, rt *c08Route, id uint32) *c08In {
	x := fmt.Sprintf("%x", rt.X)
	var other *c08In
	for i := range ins {
		if ins[i].F == rt.F && ins[i].X == x {
			if ins[i].ID == id && !ins[i].Stale {
				return &ins[i]
			}
			if !ins[i].Stale {
				other = &ins[i]
			}
		}
	}
	return other
}

// connect offers connections until gobgp answers with its OPEN (it closes them while Idle), then
// plays the speaker's side of the OPEN exchange. Returns the speaker (reader not yet started),
// gobgp's OPEN and what came back after ours: a KEEPALIVE (accepted), a NOTIFICATION or nothing.
type c08Hs struct {
	spk      *c08Spk
	sentOpen []byte // gobgp's OPEN
	accepted bool
	notif    *c08Refusal
	at       time.Time // instant our OPEN was delivered
}

func (cs *c08Case) connect(o *c08Open) (*c08Hs, error) {
	vanished := 0
	for try := 0; try < 60; try++ {
		gside, mine := simPipe(simLocalAddr, c08Addr, uint16(40000+try))
		cs.n.acceptCh <- gside
		hd, body, err := simReadMsgRaw(mine)
		if err != nil {
			mine.Close()
			time.Sleep(time.Second)
			continue
		}
		hs := &c08Hs{spk: &c08Spk{c: mine}, sentOpen: append(mustSerializeHeader(hd), body...)}
		if hd.Type != bgp.BGP_MSG_OPEN {
			mine.Close()
			return nil, fmt.Errorf("first message from gobgp has type %d", hd.Type)
		}
		hs.spk.writeAsync(o.bytes())
		hs.at = time.Now()
		hd, body, err = simReadMsgRaw(mine)
		switch {
		case err != nil:
			// closed without any answer. That is what gobgp does when another FSM event wins at the
			// very instant our OPEN arrives (e.g. the graceful-restart timer of the previous session
			// expiring while in OpenSent); only a repeated silent close is reported.
			if vanished++; vanished < 3 {
				hs.spk.shutdown()
				time.Sleep(time.Second)
				continue
			}
		case hd.Type == bgp.BGP_MSG_KEEPALIVE:
			hs.accepted = true
		case hd.Type == bgp.BGP_MSG_NOTIFICATION && len(body) >= 2:
			hs.notif = &c08Refusal{body[0], body[1]}
		default:
			mine.Close()
			hs.spk.wg.Wait()
			return nil, fmt.Errorf("unexpected message type %d after our OPEN", hd.Type)
		}
		if !hs.accepted {
			hs.spk.shutdown()
		}
		return hs, nil
	}
	return nil, fmt.Errorf("gobgp never sent an OPEN in 60 connection attempts")
}

// connectActive brings the first session up through gobgp's own outgoing connection, alone or in a
// connection collision (RFC 4271 s6.8) with a connection the speaker opens at the same time and on
// which it sends ANOTHER OPEN (oIn). Returns the handshake state of the surviving connection and
// the OPEN that went over it: that one is what the session must be negotiated from. A nil
// handshake without error means no connection survived.
func (cs *c08Case) connectActive(oOut, oIn *c08Open) (*c08Hs, *c08Open, error) {
	rec, l := cs.rec, cs.l
	readOpen := func(c net.Conn, what string) ([]byte, error) {
		hd, body, err := simReadMsgRaw(c)
		if err != nil {
			return nil, fmt.Errorf("reading gobgp's OPEN on the %s connection: %w", what, err)
		}
		if hd.Type != bgp.BGP_MSG_OPEN {
			return nil, fmt.Errorf("first message on the %s connection has type %d", what, hd.Type)
		}
		return append(mustSerializeHeader(hd), body...), nil
	}
	checkOpen := func(raw []byte, o *c08Open, what string) {
		issues, _, _ := c08CheckOpen(l, raw)
		for _, is := range issues {
			cs.viol(o, is.Key, "OPEN sent by gobgp on the "+what+" connection does not reflect the configuration: "+is.What, map[string]any{"open_sent_hex": fmt.Sprintf("%x", raw)})
		}
		rec.Count("opens_checked", 1)
	}
	// gobgp dials (connect-retry jitter: some 1.5-2 s after the neighbour was added)
	gOut, mineOut := simPipe(simLocalAddr, c08Addr, 179)
	cs.offer <- gOut
	select {
	case <-cs.dialed:
	case <-time.After(600 * time.Second):
		mineOut.Close()
		return nil, nil, fmt.Errorf("gobgp did not dial within 600 s")
	}
	out := &c08Spk{c: mineOut}
	cs.extra = append(cs.extra, out)
	sentOut, err := readOpen(mineOut, "dialled")
	if err != nil {
		return nil, nil, err
	}
	checkOpen(sentOut, oOut, "dialled")
	rec.Count("conn_"+cs.mode, 1)
	if cs.mode == "active" {
		hs := &c08Hs{spk: out, sentOpen: sentOut, at: time.Now()}
		out.writeAsync(oOut.bytes())
		hd, body, err := simReadMsgRaw(mineOut)
		switch {
		case err != nil:
		case hd.Type == bgp.BGP_MSG_KEEPALIVE:
			hs.accepted = true
		case hd.Type == bgp.BGP_MSG_NOTIFICATION && len(body) >= 2:
			hs.notif = &c08Refusal{body[0], body[1]}
		default:
			return nil, nil, fmt.Errorf("unexpected message type %d after our OPEN on the dialled connection", hd.Type)
		}
		return hs, oOut, nil
	}
	// the speaker connects as well; gobgp answers with its OPEN and sits in OpenSent on that connection
	gIn, mineIn := simPipe(simLocalAddr, c08Addr, 40001)
	cs.n.acceptCh <- gIn
	in := &c08Spk{c: mineIn}
	cs.extra = append(cs.extra, in)
	sentIn, err := readOpen(mineIn, "accepted")
	if err != nil {
		return nil, nil, err
	}
	checkOpen(sentIn, oIn, "accepted")
	cs.logf("collision: OPEN on the accepted connection %s", oIn)
	var blocker *simBlockConn
	if cs.mode == "collision" {
		// park the FSM goroutine, deliver both OPENs, let it go: both events are pending and
		// opensent() takes either branch
		// (a surplus accepted connection whose Close() blocks: sim_collision_test.go)
		var mineB net.Conn
		blocker, mineB = simNewBlockConn(simLocalAddr, c08Addr, 40002)
		cs.n.acceptCh <- blocker
		defer mineB.Close()
		synctest.Wait()
		in.writeAsync(oIn.bytes())
	}
	out.writeAsync(oOut.bytes())
	synctest.Wait()
	at := time.Now()
	if blocker != nil {
		blocker.Release()
	}
	in.startReader()
	out.startReader()
	synctest.Wait()
	if cs.mode == "collision-out-first" {
		// the outgoing connection has completed its OPEN exchange while the accepted one never got
		// the peer's OPEN: the speaker gives the accepted one up
		rxIn, closedIn, _ := in.snapshot()
		if len(rxIn) == 0 && !closedIn {
			rec.Count("collision_accepted_connection_left_open", 1)
		}
		mineIn.Close()
		synctest.Wait()
	}
	alive := func(s *c08Spk) bool {
		rx, closed, _ := s.snapshot()
		if closed {
			return false
		}
		for _, m := range rx {
			if m.Type == bgp.BGP_MSG_KEEPALIVE {
				return true
			}
		}
		return false
	}
	aIn, aOut := alive(in), alive(out)
	if cs.mode == "collision-out-first" {
		aIn = false
	}
	lid, pid := netip.MustParseAddr(l.RouterID).As4(), oOut.ID
	dominant := binary.BigEndian.Uint32(lid[:]) > binary.BigEndian.Uint32(pid[:])
	cs.logf("collision resolved: accepted connection alive=%v, dialled connection alive=%v, gobgp has the higher BGP identifier: %v", aIn, aOut, dominant)
	switch {
	case aIn == aOut:
		// both or none: connection collision resolution itself is C07's business, not this
		// property's; counted, and reported under a c07 key only on request
		rec.Count(fmt.Sprintf("collision_unresolved_in=%v_out=%v", aIn, aOut), 1)
		if c08CollisionVerdict {
			key := "c07:collision:both-opens-pending:no-surviving-connection"
			if aIn {
				key = "c07:collision:both-opens-pending:both-connections-open"
			}
			cs.viol(oOut, key, fmt.Sprintf("collision with both of the peer's OPENs pending when opensent() selects: accepted connection alive=%v, dialled connection alive=%v (gobgp has the higher BGP identifier: %v); RFC 4271 s6.8 keeps exactly one", aIn, aOut, dominant), nil)
		}
		return nil, nil, nil
	case aOut:
		rec.Count("collision_survivor_dialled", 1)
		if !dominant && cs.mode == "collision" {
			rec.Count("collision_survivor_not_rfc4271_6.8", 1)
			if c08CollisionVerdict {
				cs.viol(oOut, "c07:collision:both-opens-pending:established-on-loser", "the dialled connection survived although the peer has the higher BGP identifier (RFC 4271 s6.8)", nil)
			}
		}
		return &c08Hs{spk: out, sentOpen: sentOut, accepted: true, at: at}, oOut, nil
	default:
		rec.Count("collision_survivor_accepted", 1)
		if dominant {
			rec.Count("collision_survivor_not_rfc4271_6.8", 1)
			if c08CollisionVerdict {
				cs.viol(oIn, "c07:collision:both-opens-pending:established-on-loser", "the accepted connection survived although gobgp has the higher BGP identifier (RFC 4271 s6.8)", nil)
			}
		}
		return &c08Hs{spk: in, sentOpen: sentIn, accepted: true, at: at}, oIn, nil
	}
}

// c08SimStart is simStart, plus gobgp's own log on stdout when VERIF_DEBUG is set.
func c08SimStart(t *testing.T, g *api.Global) *simNet {
	if !simDebug {
		return simStart(t, g)
	}
	lv := &slog.LevelVar{}
	lv.Set(slog.LevelDebug)
	s := NewBgpServer(LoggerOption(slog.New(slog.NewTextHandler(os.Stdout, &slog.HandlerOptions{Level: lv})), lv))
	go s.Serve()
	g.ListenPort = -1
	if err := s.StartBgp(context.Background(), &api.StartBgpRequest{Global: g}); err != nil {
		t.Fatalf("c08: StartBgp: %v", err)
	}
	n := &simNet{t: t, s: s, acceptCh: make(chan net.Conn, 64), speakers: map[string]*simSpeaker{}, dialQ: map[string]chan net.Conn{}}
	if err := s.mgmtOperation(func() error { s.acceptCh = n.acceptCh; return nil }, false); err != nil {
		t.Fatalf("c08: install acceptCh: %v", err)
	}
	return n
}

func TestVerifC08Sim(t *testing.T) {
	rec := vlib.Open("C08")
	defer rec.Close()
	total := vlib.Scale(2400, 60000)
	vlib.Cases(total, func(idx int) {
		rec.Mark(fmt.Sprintf("c08 sim case %d", idx), true)
		synctest.Test(t, func(t *testing.T) { c08SimCase(t, rec, idx) })
	})
}

func c08SimCase(t *testing.T, rec *vlib.Rec, idx int) {
	r := vlib.CaseRand("c08sim", idx)
	l := c08GenLocal(r)
	as, as4 := c08GenRemoteAS(r, l)
	c08PickPeerAS(r, l, as)
	cs := &c08Case{t: t, rec: rec, idx: idx, r: r, l: l, local: map[bgp.Family]*c08Route{}, probe: map[bgp.Family]*c08Route{}, bulk: r.IntN(6) == 0}
	for _, f := range c08Fams {
		cs.probe[f] = c08NewRoute(f, false)
	}
	// drawn from a stream of its own, so that the passive cases are what they were before
	r2 := vlib.CaseRand("c08sim-conn", idx)
	cs.mode = "passive"
	switch k := r2.IntN(16); {
	case k < 2:
		cs.mode = "collision"
	case k == 2:
		cs.mode = "collision-out-first"
	case k == 3:
		cs.mode = "active"
	}
	if c08OnlyCollisions {
		cs.mode = "collision"
	}
	if cs.mode != "passive" {
		if l.PeerAS != 0 {
			l.PeerAS = as // both OPENs of these scenarios are acceptable ones
		}
		cs.offer, cs.dialed = make(chan net.Conn, 1), make(chan struct{}, 1)
		verifHookPtr.Store(&verifHooks{dial: func(ctx context.Context, addr string, port int) (net.Conn, bool) {
			select {
			case c := <-cs.offer:
				cs.dialed <- struct{}{}
				return c, true
			default:
				return nil, true // connection refused; gobgp retries after connect-retry
			}
		}})
		defer verifHookPtr.Store(nil)
	}
	cs.n = c08SimStart(t, &api.Global{Asn: l.GlobalAS, RouterId: l.RouterID})
	defer func() {
		cs.n.stop()
		synctest.Wait()
	}()
	if err := cs.addLocalRoutes(); err != nil {
		rec.Inconclusive("c08: AddPath(local routes): " + err.Error())
		return
	}
	if err := cs.n.s.AddPeer(context.Background(), &api.AddPeerRequest{Peer: c08APIPeer(l, cs.mode == "passive")}); err != nil {
		rec.Inconclusive(fmt.Sprintf("c08: AddPeer(%s): %v", l, err))
		return
	}
	if l.HoldSet && l.Hold == 0 {
		cs.n.s.mgmtOperation(func() error {
			f := cs.peer().fsm
			f.lock.Lock()
			conf := f.pConf.ReadCopy()
			c08PatchHoldZero(l, &conf)
			f.pConf.Update(&conf)
			f.lock.Unlock()
			return nil
		}, true)
	}
	synctest.Wait()
	nSessions := 1
	if r.IntN(3) == 0 {
		nSessions = 2
	}
	for s := 0; s < nSessions && !cs.failed; s++ {
		if s > 0 {
			if l.PeerAS == 0 && r.IntN(2) == 0 {
				as, as4 = c08GenRemoteAS(r, l)
			} else if l.PeerAS != 0 {
				as = l.PeerAS // a refused first OPEN (AS mismatch) is followed by a matching one
				if as > 65535 {
					as4 = true
				}
			}
		}
		o := c08GenOpen(r, l, as, as4)
		cs.oAlt = nil
		if s == 0 && cs.mode != "passive" {
			// the same speaker (AS, BGP identifier) offers something else on its second connection
			as4b := as4
			if as <= 65535 && r2.IntN(2) == 0 {
				as4b = !as4
			}
			cs.oAlt = c08GenOpen(r2, l, as, as4b)
			cs.oAlt.ID = o.ID
			for _, x := range []*c08Open{o, cs.oAlt} {
				if x.Hold == 1 || x.Hold == 2 {
					x.Hold = 3
				}
			}
		}
		if s > 0 {
			// every timer gobgp armed so far started on a half-second grid and runs for whole
			// seconds (idle hold, graceful-restart timer of the previous session): approach it off
			// that grid, so that none of them fires at the very instant one of our messages arrives
			time.Sleep(250 * time.Millisecond)
		}
		rec.Eval()
		rec.Count("sessions", 1)
		if s > 0 {
			rec.Count("sessions_second_on_same_neighbour", 1)
		}
		if !cs.session(s, o, nSessions == 1) {
			break
		}
	}
}

// session runs one connection. Returns false when the case cannot continue (infrastructure).
func (cs *c08Case) session(sno int, o *c08Open, single bool) bool {
	r, rec, l := cs.r, cs.rec, cs.l
	for _, c := range o.caps() {
		rec.Count(fmt.Sprintf("cap_code_%d", c.Code), 1)
	}
	// handshake variants
	variant := "normal"
	switch k := r.IntN(40); {
	case k == 0:
		o.PadTo = 4097 + r.IntN(600)
		variant = "open-oversize"
	case k <= 2:
		variant = "openconfirm-silent"
	}
	var hs *c08Hs
	var err error
	if cs.oAlt != nil {
		variant = cs.mode
		o.PadTo = 0
		cs.logf("session %d variant=%s OPEN on the dialled connection %s", sno, variant, o)
		defer func() {
			for _, x := range cs.extra {
				x.shutdown()
			}
			cs.extra = nil
		}()
		if hs, o, err = cs.connectActive(o, cs.oAlt); err == nil && hs == nil {
			return true // no connection survived: nothing for this property to judge
		}
	} else {
		cs.logf("session %d variant=%s OPEN %s", sno, variant, o)
		hs, err = cs.connect(o)
	}
	if err != nil {
		rec.Inconclusive("c08: " + err.Error())
		return false
	}
	issues, weAS4, weExt := c08CheckOpen(l, hs.sentOpen)
	for _, is := range issues {
		cs.viol(o, is.Key, "OPEN sent by gobgp does not reflect the configuration: "+is.What, map[string]any{"open_sent_hex": fmt.Sprintf("%x", hs.sentOpen)})
	}
	rec.Count("opens_checked", 1)
	res := c08Negotiate(l, o, weAS4, weExt)

	// (b) refusal
	if !hs.accepted {
		rec.Count("refused", 1)
		switch {
		case !res.refused():
			what := "closed the connection"
			if hs.notif != nil {
				what = fmt.Sprintf("sent NOTIFICATION %d/%d", hs.notif.Code, hs.notif.Sub)
			}
			cs.viol(o, "c08:refuse:acceptable-open-refused", "gobgp "+what+" after an OPEN the reference accepts", nil)
		case hs.notif == nil:
			cs.viol(o, "c08:refuse:no-notification", fmt.Sprintf("OPEN refused without NOTIFICATION, reference expects %v", res.Refuse), nil)
		case !res.Refuse[*hs.notif]:
			cs.viol(o, "c08:refuse:wrong-notification", fmt.Sprintf("OPEN refused with NOTIFICATION %d/%d, reference expects one of %v", hs.notif.Code, hs.notif.Sub, res.Refuse), nil)
		default:
			rec.Count(fmt.Sprintf("outcome_refused_%d/%d", hs.notif.Code, hs.notif.Sub), 1)
			rec.Nontrivial("sim|" + res.outcome(0, nil))
		}
		synctest.Wait()
		return true
	}
	spk := hs.spk
	cs.spk = spk
	defer func() { spk.shutdown(); cs.spk = nil }()
	if res.refused() {
		key := "c08:refuse:not-refused"
		switch {
		case res.Refuse[c08Refusal{2, 6}]:
			key = "c08:hold:unacceptable-hold-time-accepted"
		case res.Refuse[c08Refusal{1, 2}]:
			key = "c08:extmsg:open-oversize-accepted"
		}
		cs.viol(o, key, fmt.Sprintf("gobgp answered the OPEN with a KEEPALIVE although the reference refuses it with %v", res.Refuse), nil)
		return true
	}

	if variant == "openconfirm-silent" {
		cs.openConfirmSilent(o, res, hs)
		return true
	}

	// complete the handshake
	if err := spk.write(c08Header(19, 4)); err != nil {
		rec.Inconclusive("c08: writing KEEPALIVE: " + err.Error())
		return false
	}
	t0 := time.Now()
	spk.startReader()
	synctest.Wait()
	rec.Count("established", 1)

	// (c) what gobgp says it negotiated
	lp := cs.listPeer()
	if lp == nil || lp.State.SessionState != api.PeerState_SESSION_STATE_ESTABLISHED {
		st := "no such peer"
		if lp != nil {
			st = lp.State.SessionState.String()
		}
		cs.viol(o, "c08:session:not-established-after-handshake", "handshake completed but the session is in state "+st, nil)
		return true
	}
	var ob *c08Observed
	cs.n.s.mgmtOperation(func() error { ob = c08ObserveFSM(cs.peer().fsm); return nil }, true)
	if !c08BlackBox {
		c08Compare(res, ob, func(key, what string) {
			cs.viol(o, key, what, map[string]any{"observed": fmt.Sprintf("%+v", *ob)})
		})
	}
	if c08BlackBox {
		// (sensitivity experiments only) judge by wire behaviour alone
	} else if lp.Timers.State.NegotiatedHoldTime != uint64(res.Hold) {
		cs.viol(o, "c08:hold:negotiated-not-min", fmt.Sprintf("ListPeer negotiated hold time %d, reference %d", lp.Timers.State.NegotiatedHoldTime, res.Hold), nil)
	}
	if c08BlackBox {
	} else if uint64(ob.KA) != lp.Timers.State.KeepaliveInterval {
		cs.viol(o, "c08:keepalive:listpeer-differs-from-fsm", fmt.Sprintf("ListPeer keepalive interval %d, fsm %v", lp.Timers.State.KeepaliveInterval, ob.KA), nil)
	}
	if c08BlackBox {
	} else if lp.State.PeerAsn != res.RemoteAS {
		cs.viol(o, "c08:peertype:remote-as-differs", fmt.Sprintf("ListPeer peer AS %d, the OPEN says %d", lp.State.PeerAsn, res.RemoteAS), nil)
	}
	if c08BlackBox {
	} else if (lp.State.Type == api.PeerType_PEER_TYPE_INTERNAL) != res.Internal {
		cs.viol(o, "c08:peertype:not-from-real-remote-as", fmt.Sprintf("ListPeer peer type %v, remote AS %d vs local AS %d", lp.State.Type, res.RemoteAS, l.effAS()), nil)
	}
	if !c08BlackBox {
		cs.checkRemoteCaps(o, lp)
	}
	if cs.failed {
		return true
	}
	// the ADD-PATH modes the wire is judged by come from the reference; where it admits several
	// (conflicting tuples) gobgp's own choice is taken if it is one of them
	modes := map[bgp.Family]uint8{}
	for f := range res.Fams {
		adm := res.AP[f]
		switch {
		case adm == nil || adm[ob.Fams[f]]:
			modes[f] = ob.Fams[f]
		default:
			for _, m := range c08ModeSet(adm) {
				modes[f] = uint8(m)
				break
			}
		}
	}
	outcome := res.outcome(ob.KA, modes)
	rec.Count("outcome_established", 1)
	rec.Nontrivial("sim|" + outcome)
	for f := range res.Fams {
		rec.Count("family_negotiated_"+c08FamName(f), 1)
		if modes[f]&c08APSend != 0 {
			rec.Count("addpath_send_negotiated", 1)
		}
		if modes[f]&c08APRecv != 0 {
			rec.Count("addpath_receive_negotiated", 1)
		}
	}
	if len(res.Fams) == 0 {
		rec.Count("no_common_family", 1)
	}
	if res.AS4 {
		rec.Count("as4_negotiated", 1)
	} else {
		rec.Count("as4_not_negotiated", 1)
	}
	if res.Ext {
		rec.Count("extmsg_negotiated", 1)
	} else {
		rec.Count("extmsg_not_negotiated", 1)
	}
	if res.Internal {
		rec.Count("peer_internal", 1)
	} else {
		rec.Count("peer_external", 1)
	}
	if l.PeerAS == 0 {
		rec.Count("peer_as_unconfigured", 1)
	}
	if cs.idx%211 == 0 && sno == 0 {
		rec.Sample(cs.witness(o, map[string]any{"outcome": outcome}))
	}

	// (e) one probe per negotiated family, encoded under the negotiated options
	path := c08PathTail
	if !res.Internal {
		path = append([]uint32{res.RemoteAS}, c08PathTail...)
	}
	for _, f := range res.famList() {
		withID := modes[f]&c08APRecv != 0
		b := c08BuildUpdate(f, cs.probe[f].X, withID, 7, path, res.AS4, res.Internal, 0)
		cs.logf("probe %s with-path-id=%v as4=%v: %x", c08FamName(f), withID, res.AS4, b)
		if spk.write(b) != nil {
			break
		}
	}
	if res.Fams[c08RTC] {
		// gobgp holds back every other family until the peer's End-of-RIB for the route-target
		// family has arrived (RFC 4684 s6); release it
		eor := c08AttrBytes(0x80, 15, []byte{0, 1, 132})
		body := append([]byte{0, 0, 0, byte(len(eor))}, eor...)
		spk.write(append(c08Header(19+len(body), 2), body...))
		cs.logf("End-of-RIB for rtc")
	}
	// (g) extended messages inbound: exactly 4096 is always fine; above only when negotiated
	var bigFam bgp.Family
	for _, f := range []bgp.Family{c08V4, c08V6} {
		if res.Fams[f] && bigFam == 0 {
			bigFam = f
		}
	}
	bigRoute := &c08Route{}
	bigLen := 0
	if bigFam != 0 {
		if bigFam == c08V4 {
			nl, _ := bgp.NewIPAddrPrefix(netip.MustParsePrefix("10.97.0.0/24"))
			x, _ := nl.Serialize()
			bigRoute = &c08Route{F: c08V4, NLRI: nl, X: x}
		} else {
			nl, _ := bgp.NewIPAddrPrefix(netip.MustParsePrefix("2001:db8:97::/48"))
			x, _ := nl.Serialize()
			bigRoute = &c08Route{F: c08V6, NLRI: nl, X: x}
		}
		bigLen = 4096
		if res.Ext {
			bigLen = c08Pick(r, 4097, 4097, 5000, 9000, 65535)
		}
		b := c08BuildUpdate(bigFam, bigRoute.X, modes[bigFam]&c08APRecv != 0, 9, path, res.AS4, res.Internal, bigLen)
		cs.logf("large UPDATE %s of %d octets (extended message negotiated: %v)", c08FamName(bigFam), len(b), res.Ext)
		spk.write(b)
	}
	synctest.Wait()
	if _, _, _, ok := spk.notification(); ok || !cs.stillEstablished() {
		code, sub, _, _ := spk.notification()
		cs.viol(o, "c08:session:lost-after-wellformed-updates", fmt.Sprintf("session lost (NOTIFICATION %d/%d) after UPDATEs for negotiated families encoded under the negotiated options", code, sub), map[string]any{"outcome": outcome})
		return true
	}
	ins := cs.adjIn()
	for _, f := range res.famList() {
		withID := modes[f]&c08APRecv != 0
		wantID := uint32(0)
		if withID {
			wantID = 7
		}
		in := c08FindIn(ins, cs.probe[f], wantID)
		switch {
		case in == nil:
			key := "c08:family:probe-for-negotiated-family-not-accepted"
			if withID {
				key = "c08:addpath:probe-with-path-id-not-accepted"
			}
			cs.viol(o, key, fmt.Sprintf("probe UPDATE for negotiated family %s (path id present: %v) is not in ADJ_IN; ADJ_IN holds %v", c08FamName(f), withID, ins), map[string]any{"outcome": outcome})
		case in.ID != wantID:
			cs.viol(o, "c08:addpath:probe-path-id-misparsed", fmt.Sprintf("probe for %s stored with path id %d, sent %d", c08FamName(f), in.ID, wantID), nil)
		case !c08EqU32(in.ASList, path):
			key := "c08:as4:inbound-as-path-misparsed-2octet-session"
			if res.AS4 {
				key = "c08:as4:inbound-as-path-misparsed-4octet-session"
			}
			cs.viol(o, key, fmt.Sprintf("probe for %s stored with AS_PATH %v, sent %v (4-octet encoding negotiated: %v)", c08FamName(f), in.ASList, path, res.AS4), nil)
		default:
			rec.Count("probe_accepted_"+c08FamName(f), 1)
			if withID {
				rec.Count("probe_accepted_with_path_id", 1)
			}
		}
	}
	if bigFam != 0 {
		bigID := uint32(0)
		if modes[bigFam]&c08APRecv != 0 {
			bigID = 9
		}
		in := c08FindIn(ins, bigRoute, bigID)
		switch {
		case in == nil && bigLen == 4096:
			cs.viol(o, "c08:extmsg:4096-octet-update-not-accepted", "an UPDATE of exactly 4096 octets is not in ADJ_IN", nil)
		case in == nil:
			cs.viol(o, "c08:extmsg:oversize-rejected-although-negotiated", fmt.Sprintf("an UPDATE of %d octets is not in ADJ_IN although Extended Message was announced by both sides", bigLen), nil)
		case in.PadLen <= 0:
			cs.viol(o, "c08:extmsg:large-update-truncated", fmt.Sprintf("the %d-octet UPDATE was stored without its padding attribute", bigLen), nil)
		default:
			rec.Count(fmt.Sprintf("large_update_accepted_%d", bigLen), 1)
		}
		// take the large route back: retained as stale by a graceful-restart helper it would be
		// re-advertised on a later 4096-octet session, and packing such attributes is C11's matter
		nl := bigRoute.X
		if modes[bigFam]&c08APRecv != 0 {
			nl = append([]byte{0, 0, 0, 9}, nl...)
		}
		var body []byte
		if bigFam == c08V4 {
			body = append([]byte{byte(len(nl) >> 8), byte(len(nl))}, nl...)
			body = append(body, 0, 0)
		} else {
			un := c08AttrBytes(0x80, 15, append([]byte{byte(bigFam.Afi() >> 8), byte(bigFam.Afi()), bigFam.Safi()}, nl...))
			body = append([]byte{0, 0, byte(len(un) >> 8), byte(len(un))}, un...)
		}
		spk.write(append(c08Header(19+len(body), 2), body...))
		synctest.Wait()
		if in := c08FindIn(cs.adjIn(), bigRoute, bigID); in != nil && cs.stillEstablished() {
			cs.viol(o, "c08:session:withdraw-of-large-route-ignored", fmt.Sprintf("the withdrawal of the %d-octet route left it in ADJ_IN", bigLen), nil)
		}
	}
	if cs.failed {
		return true
	}

	// (f) what gobgp emitted so far
	cs.checkEmitted(o, res, modes, spk, 0)
	if cs.failed {
		return true
	}
	// an oversize route towards a peer that negotiated extended messages (never injected otherwise:
	// packing attributes above 4096 for a 4096 session is C11's business)
	emittedSoFar := len(func() []c08Rx { rx, _, _ := spk.snapshot(); return rx }())
	if single && res.Ext && res.Fams[c08V4] && r.IntN(2) == 0 {
		cs.addBigLocalRoute()
		synctest.Wait()
		cs.checkEmitted(o, res, modes, spk, emittedSoFar)
		if cs.failed {
			return true
		}
	}

	// ending
	var nonNeg []bgp.Family
	for _, f := range c08Fams {
		if !res.Fams[f] {
			nonNeg = append(nonNeg, f)
		}
	}
	ending := "hold"
	switch k := r.IntN(20); {
	case k < 4 && len(nonNeg) > 0:
		ending = "non-negotiated-family"
	case k < 7 && !res.Ext:
		ending = "oversize-update"
	case k < 8:
		ending = "oversize-keepalive"
	}
	rec.Count("ending_"+ending, 1)
	switch ending {
	case "non-negotiated-family":
		f := nonNeg[r.IntN(len(nonNeg))]
		withID := r.IntN(4) == 0
		b := c08BuildUpdate(f, cs.probe[f].X, withID, 7, path, res.AS4, res.Internal, 0)
		cs.logf("probe for NON-negotiated family %s: %x", c08FamName(f), b)
		spk.writeAsync(b)
		synctest.Wait()
		time.Sleep(time.Second)
		synctest.Wait()
		if in := c08FindIn(cs.adjIn(), cs.probe[f], 0); in != nil {
			side := "neither side"
			for _, fc := range l.fams() {
				if fc.F == f {
					side = "only gobgp"
				}
			}
			for _, c := range o.caps() {
				if c.Code == c08CapMP && len(c.Val) == 4 && bgp.NewFamily(binary.BigEndian.Uint16(c.Val), c.Val[3]) == f {
					side = "only the peer"
				}
			}
			cs.viol(o, "c08:family:route-of-non-negotiated-family-accepted", fmt.Sprintf("an UPDATE for family %s (announced by %s) was accepted into ADJ_IN", c08FamName(f), side), map[string]any{"outcome": outcome})
		} else if code, sub, _, ok := spk.notification(); ok {
			rec.Count(fmt.Sprintf("non_negotiated_family_answered_%d/%d", code, sub), 1)
		} else {
			rec.Count("non_negotiated_family_ignored", 1)
		}
	case "oversize-update":
		f, rt := bigFam, bigRoute
		if f == 0 {
			f, rt = c08V4, cs.probe[c08V4]
		}
		nl := rt.X
		if f == bigFam { // another prefix than the 4096-octet one
			nl = append(append([]byte{}, rt.X[:len(rt.X)-1]...), rt.X[len(rt.X)-1]+1)
		}
		n := 4097 + r.IntN(900)
		b := c08BuildUpdate(f, nl, modes[f]&c08APRecv != 0, 11, path, res.AS4, res.Internal, n)
		cs.logf("oversize UPDATE of %d octets without extended message", n)
		spk.writeAsync(b)
		synctest.Wait()
		time.Sleep(2 * time.Second)
		synctest.Wait()
		code, sub, _, ok := spk.notification()
		accepted := c08FindIn(cs.adjIn(), &c08Route{F: f, X: nl}, 0) != nil
		switch {
		case accepted || (!ok && cs.stillEstablished()):
			cs.viol(o, "c08:extmsg:oversize-accepted-without-capability", fmt.Sprintf("an UPDATE of %d octets was accepted (in ADJ_IN: %v, session still up) although the peer did not announce Extended Message", n, accepted), map[string]any{"outcome": outcome})
		case !ok || code != 1 || sub != 2:
			cs.viol(o, "c08:extmsg:oversize-wrong-notification", fmt.Sprintf("an UPDATE of %d octets without Extended Message was answered with NOTIFICATION %d/%d (present: %v), want 1/2", n, code, sub, ok), nil)
		default:
			rec.Count("oversize_update_refused_1/2", 1)
		}
	case "oversize-keepalive":
		n := 4097 + r.IntN(900)
		cs.logf("KEEPALIVE with length %d", n)
		spk.writeAsync(append(c08Header(n, 4), make([]byte, n-19)...))
		synctest.Wait()
		time.Sleep(2 * time.Second)
		synctest.Wait()
		code, sub, _, ok := spk.notification()
		switch {
		case !ok && cs.stillEstablished():
			cs.viol(o, "c08:extmsg:keepalive-oversize-accepted", fmt.Sprintf("a KEEPALIVE of %d octets was accepted (extended message negotiated: %v)", n, res.Ext), nil)
		case !ok || code != 1 || sub != 2:
			cs.viol(o, "c08:extmsg:keepalive-oversize-wrong-notification", fmt.Sprintf("a KEEPALIVE of %d octets was answered with NOTIFICATION %d/%d (present: %v), want 1/2", n, code, sub, ok), nil)
		default:
			rec.Count("oversize_keepalive_refused_1/2", 1)
		}
	default:
		cs.timing(o, res, modes, spk, t0)
	}
	return true
}

func (cs *c08Case) stillEstablished() bool {
	lp := cs.listPeer()
	return lp != nil && lp.State.SessionState == api.PeerState_SESSION_STATE_ESTABLISHED
}

func (cs *c08Case) addBigLocalRoute() {
	nl, _ := bgp.NewIPAddrPrefix(netip.MustParsePrefix("10.7.0.0/24"))
	comms := make([]uint32, c08BigComms)
	for i := range comms {
		comms[i] = 65000<<16 | uint32(i)
	}
	nh, _ := bgp.NewPathAttributeNextHop(netip.MustParseAddr(simLocalAddr))
	attrs := []bgp.PathAttributeInterface{bgp.NewPathAttributeOrigin(0), nh, bgp.NewPathAttributeCommunities(comms)}
	cs.n.s.AddPath(apiutil.AddPathRequest{Paths: []*apiutil.Path{{Family: c08V4, Nlri: nl, Attrs: attrs}}})
	cs.rec.Count("big_local_route_injected", 1)
	cs.logf("injected a local route with %d communities", c08BigComms)
}

// checkRemoteCaps: the capabilities ListPeer reports as received are the ones the OPEN carried.
func (cs *c08Case) checkRemoteCaps(o *c08Open, lp *api.Peer) {
	caps, err := apiutil.UnmarshalCapabilities(lp.State.RemoteCap)
	if err != nil {
		cs.viol(o, "c08:listpeer:remote-capabilities-undecodable", err.Error(), nil)
		return
	}
	got := map[uint8]int{}
	gotMP := map[bgp.Family]bool{}
	for _, c := range caps {
		got[uint8(c.Code())]++
		if m, ok := c.(*bgp.CapMultiProtocol); ok {
			gotMP[m.CapValue] = true
		}
		if a, ok := c.(*bgp.CapFourOctetASNumber); ok {
			want := uint32(0)
			for _, oc := range o.caps() {
				if oc.Code == c08CapAS4 {
					want = binary.BigEndian.Uint32(oc.Val)
				}
			}
			if a.CapValue != want {
				cs.viol(o, "c08:listpeer:remote-as4-capability-value", fmt.Sprintf("ListPeer reports 4-octet AS capability %d, the OPEN carried %d", a.CapValue, want), nil)
			}
		}
	}
	sent := map[uint8]int{}
	sentMP := map[bgp.Family]bool{}
	for _, c := range o.caps() {
		sent[c.Code]++
		if c.Code == c08CapMP {
			sentMP[bgp.NewFamily(binary.BigEndian.Uint16(c.Val), c.Val[3])] = true
		}
	}
	for code := range sent {
		if got[code] == 0 {
			cs.viol(o, "c08:listpeer:received-capability-missing", fmt.Sprintf("capability code %d was in the OPEN but is not among ListPeer's remote capabilities", code), nil)
		}
	}
	for code := range got {
		// without any MP capability gobgp shows the implied IPv4 unicast one
		if sent[code] == 0 && !(code == c08CapMP && len(sentMP) == 0) {
			cs.viol(o, "c08:listpeer:capability-never-received", fmt.Sprintf("ListPeer reports remote capability code %d which the OPEN did not carry", code), nil)
		}
	}
	if len(sentMP) > 0 {
		for f := range sentMP {
			if !gotMP[f] {
				cs.viol(o, "c08:listpeer:received-mp-family-missing", fmt.Sprintf("MP capability for %s not reported by ListPeer", c08FamName(f)), nil)
			}
		}
		for f := range gotMP {
			if !sentMP[f] {
				cs.viol(o, "c08:listpeer:mp-family-never-received", fmt.Sprintf("ListPeer reports an MP capability for %s which the OPEN did not carry", c08FamName(f)), nil)
			}
		}
	}
}

// checkEmitted decodes every UPDATE gobgp wrote (from index from on) from its raw bytes.
func (cs *c08Case) checkEmitted(o *c08Open, res *c08Result, modes map[bgp.Family]uint8, spk *c08Spk, from int) {
	rec, l := cs.rec, cs.l
	rx, _, _ := spk.snapshot()
	wantPath := c08PathTail
	if !res.Internal {
		wantPath = append([]uint32{l.effAS()}, c08PathTail...)
	}
	seen := map[bgp.Family]int{}
	bulkSeen := map[string]bool{}
	maxLen := 0
	for i := from; i < len(rx); i++ {
		m := rx[i]
		if len(m.Raw) > maxLen {
			maxLen = len(m.Raw)
		}
		if len(m.Raw) > 4096 {
			rec.Count("emitted_above_4096", 1)
			if !res.Ext || m.Type == bgp.BGP_MSG_OPEN || m.Type == bgp.BGP_MSG_KEEPALIVE {
				cs.viol(o, "c08:extmsg:emitted-oversize-without-capability", fmt.Sprintf("gobgp emitted a message of type %d with %d octets (extended message negotiated: %v)", m.Type, len(m.Raw), res.Ext), nil)
				return
			}
		}
		if m.Type != bgp.BGP_MSG_UPDATE {
			continue
		}
		u, err := c08ReadUpdate(m.Raw)
		if err != nil {
			cs.viol(o, "c08:emit:undecodable-update", fmt.Sprintf("UPDATE emitted by gobgp cannot be framed: %v (%x)", err, m.Raw), nil)
			return
		}
		type part struct {
			f     bgp.Family
			nlri  []byte
			reach bool
		}
		var parts []part
		if len(u.NLRI) > 0 {
			parts = append(parts, part{c08V4, u.NLRI, true})
		}
		if len(u.Withdrawn) > 0 {
			parts = append(parts, part{c08V4, u.Withdrawn, false})
		}
		for _, a := range u.Attrs {
			switch a.Type {
			case 14:
				f, nl, err := c08MPReach(a.Val)
				if err != nil {
					cs.viol(o, "c08:emit:undecodable-update", err.Error(), map[string]any{"update_hex": fmt.Sprintf("%x", m.Raw)})
					return
				}
				parts = append(parts, part{f, nl, true})
			case 15:
				f, nl, err := c08MPUnreach(a.Val)
				if err != nil {
					cs.viol(o, "c08:emit:undecodable-update", err.Error(), map[string]any{"update_hex": fmt.Sprintf("%x", m.Raw)})
					return
				}
				if len(nl) > 0 {
					parts = append(parts, part{f, nl, false})
				} else if !res.Fams[f] {
					cs.viol(o, "c08:family:update-for-non-negotiated-family", fmt.Sprintf("End-of-RIB for family %s which was not negotiated", c08FamName(f)), nil)
					return
				}
			}
		}
		for _, p := range parts {
			if !res.Fams[p.f] {
				cs.viol(o, "c08:family:update-for-non-negotiated-family", fmt.Sprintf("gobgp emitted an UPDATE carrying %s NLRI although the family was not negotiated: %x", c08FamName(p.f), m.Raw), nil)
				return
			}
			withID := modes[p.f]&c08APSend != 0
			localPart := false // the part carries one of the local routes with the known AS_PATH
			if p.f == c08V4 || p.f == c08V6 {
				maxBits := 32
				if p.f == c08V6 {
					maxBits = 128
				}
				items, err := c08ParsePrefixes(p.nlri, withID, maxBits)
				bad := err != nil
				for _, it := range items {
					k := fmt.Sprintf("%d/%s", it.Bits, it.Addr)
					switch {
					case p.f == c08V4 && k == "24/0a0800", p.f == c08V6 && k == "48/20010db80008":
						seen[p.f]++
						localPart = true
					case p.f == c08V4 && k == "24/0a0700":
						seen[p.f]++
					case p.f == c08V4 && it.Bits == 32 && strings.HasPrefix(it.Addr, "0ac8") && cs.bulk:
						bulkSeen[it.Addr] = true
						localPart = true
					case p.f == c08V4 && (k == "24/0a6300" || k == "24/0a6100" || k == "24/0a6101"),
						p.f == c08V6 && (k == "48/20010db80099" || k == "48/20010db80097" || k == "48/20010db80098"):
						// a probe of an earlier session, retained as stale (graceful restart) and
						// advertised or withdrawn now: framing is judged, content is not ours
					default:
						bad = true
					}
				}
				if bad {
					key := "c08:addpath:path-id-emitted-without-negotiation"
					if withID {
						key = "c08:addpath:path-id-missing-although-send-negotiated"
					}
					cs.viol(o, key, fmt.Sprintf("%s NLRI field %x does not decode to the injected routes when read with path identifiers=%v (ADD-PATH send negotiated: %v): %v %v", c08FamName(p.f), c08Trunc(p.nlri), withID, withID, err, c08TruncItems(items)), map[string]any{"update_hex": fmt.Sprintf("%x", c08Trunc(m.Raw))})
					return
				}
			} else {
				x := cs.local[p.f].X
				match := func(x []byte) bool {
					if withID {
						return len(p.nlri) == 4+len(x) && string(p.nlri[4:]) == string(x)
					}
					return string(p.nlri) == string(x)
				}
				ok := match(x)
				if ok {
					localPart = true
				} else if match(cs.probe[p.f].X) {
					ok = true // stale probe of an earlier session, see above
					seen[p.f]--
				}
				if !ok {
					key := "c08:addpath:path-id-emitted-without-negotiation"
					if withID {
						key = "c08:addpath:path-id-missing-although-send-negotiated"
					}
					cs.viol(o, key, fmt.Sprintf("%s NLRI field %x is not the injected route %x read with path identifiers=%v", c08FamName(p.f), p.nlri, x, withID), map[string]any{"update_hex": fmt.Sprintf("%x", m.Raw)})
					return
				}
				seen[p.f]++
			}
			if withID {
				rec.Count("emitted_with_path_id", 1)
			} else {
				rec.Count("emitted_without_path_id", 1)
			}
			if !p.reach {
				continue
			}
			// AS_PATH encoding
			ap := u.attr(2)
			if ap == nil {
				cs.viol(o, "c08:emit:no-as-path", fmt.Sprintf("UPDATE without AS_PATH: %x", c08Trunc(m.Raw)), nil)
				return
			}
			if !localPart {
				continue // the oversize local route / a stale probe: another AS_PATH, only framing and size matter
			}
			p4, e4 := c08ParseASPath(ap.Val, 4)
			p2, e2 := c08ParseASPath(ap.Val, 2)
			a4 := u.attr(17)
			if res.AS4 {
				if e4 != nil || !c08EqU32(p4, wantPath) {
					key := "c08:as4:as-path-not-4octet-although-negotiated"
					if e4 == nil {
						key = "c08:emit:as-path-content"
					}
					cs.viol(o, key, fmt.Sprintf("AS_PATH value %x: read as 4-octet: %v %v, as 2-octet: %v %v; want %v in 4-octet encoding", ap.Val, p4, e4, p2, e2, wantPath), map[string]any{"update_hex": fmt.Sprintf("%x", c08Trunc(m.Raw))})
					return
				}
				if a4 != nil {
					cs.viol(o, "c08:as4:as4-path-sent-to-4octet-peer", fmt.Sprintf("AS4_PATH %x sent although 4-octet encoding was negotiated", a4.Val), nil)
					return
				}
				rec.Count("emitted_as_path_4octet", 1)
			} else {
				want2 := make([]uint32, len(wantPath))
				for i, a := range wantPath {
					want2[i] = a
					if a > 65535 {
						want2[i] = c08ASTrans
					}
				}
				if e2 != nil || !c08EqU32(p2, want2) {
					key := "c08:as4:as-path-4octet-without-capability"
					if e2 == nil {
						key = "c08:emit:as-path-content"
					}
					cs.viol(o, key, fmt.Sprintf("AS_PATH value %x: read as 2-octet: %v %v, as 4-octet: %v %v; want %v in 2-octet encoding", ap.Val, p2, e2, p4, e4, want2), map[string]any{"update_hex": fmt.Sprintf("%x", c08Trunc(m.Raw))})
					return
				}
				// the path always holds 70000: AS4_PATH must carry the real numbers (RFC 6793 s4.2.2)
				if a4 == nil {
					cs.viol(o, "c08:as4:as4-path-missing-on-2octet-session", fmt.Sprintf("AS_PATH %v holds AS_TRANS but no AS4_PATH attribute was sent", p2), map[string]any{"update_hex": fmt.Sprintf("%x", c08Trunc(m.Raw))})
					return
				}
				if q, err := c08ParseASPath(a4.Val, 4); err != nil || !c08EqU32(q, wantPath) {
					cs.viol(o, "c08:as4:as4-path-content", fmt.Sprintf("AS4_PATH %x decodes to %v (%v), want %v", a4.Val, q, err, wantPath), nil)
					return
				}
				rec.Count("emitted_as_path_2octet_with_as4_path", 1)
			}
			// peer type as seen in the attributes: LOCAL_PREF only towards internal peers
			if lp := u.attr(5); (lp != nil) != res.Internal {
				cs.viol(o, "c08:peertype:update-treatment", fmt.Sprintf("LOCAL_PREF present=%v in an UPDATE to a peer whose real AS %d makes it internal=%v", lp != nil, res.RemoteAS, res.Internal), nil)
				return
			}
		}
	}
	if from > 0 {
		if maxLen > 4096 {
			rec.Count("big_local_route_emitted_above_4096", 1)
		}
		return
	}
	// With the route-target family negotiated gobgp applies the route-target filter to EVERY other
	// family (filterpath), so routes without a matching route target - all plain unicast ones - are
	// withheld; that is an export-filter matter, not a negotiation one: nothing is required then.
	rtc := res.Fams[c08RTC]
	if cs.bulk && res.Fams[c08V4] && !rtc {
		if len(bulkSeen) != c08BulkN {
			key := "c08:emit:routes-never-sent:4octet-as-session"
			if !res.AS4 {
				key = "c08:emit:routes-never-sent:2octet-as-session"
			}
			cs.viol(o, key, fmt.Sprintf("only %d of the %d local IPv4 prefixes were sent at session start (4-octet AS negotiated: %v, extended message: %v, largest message %d octets)", len(bulkSeen), c08BulkN, res.AS4, res.Ext, maxLen), nil)
			return
		}
		rec.Count("bulk_tables_sent", 1)
		if maxLen <= 4096 {
			rec.Count("bulk_tables_sent_within_4096", 1)
		}
	}
	// each negotiated family got its route
	for _, f := range c08Fams {
		if res.Fams[f] && seen[f] == 0 && (!rtc || f == c08RTC) {
			cs.viol(o, "c08:family:no-update-for-negotiated-family", fmt.Sprintf("family %s was negotiated and a local route exists, but gobgp sent no UPDATE for it", c08FamName(f)), nil)
			return
		}
		if seen[f] > 0 {
			rec.Count("emitted_family_"+c08FamName(f), 1)
		}
	}
}

func c08Trunc(b []byte) []byte {
	if len(b) > 200 {
		return b[:200]
	}
	return b
}

func c08TruncItems(x []c08Pfx) []c08Pfx {
	if len(x) > 8 {
		return x[:8]
	}
	return x
}

// timing: keepalive instants and the hold-timer expiry instant, in virtual time.
func (cs *c08Case) timing(o *c08Open, res *c08Result, modes map[bgp.Family]uint8, spk *c08Spk, t0 time.Time) {
	r, rec := cs.r, cs.rec
	hold := time.Duration(res.Hold) * time.Second
	if hold == 0 {
		time.Sleep(400 * time.Second)
		synctest.Wait()
		rx, closed, _ := spk.snapshot()
		for _, m := range rx {
			if m.At.After(t0) && (m.Type == bgp.BGP_MSG_KEEPALIVE || m.Type == bgp.BGP_MSG_NOTIFICATION) {
				key := "c08:keepalive:sent-although-hold-time-zero"
				if m.Type == bgp.BGP_MSG_NOTIFICATION {
					key = "c08:hold:expiry-although-hold-time-zero"
				}
				cs.viol(o, key, fmt.Sprintf("message type %d at +%v although the negotiated hold time is 0 (%x)", m.Type, m.At.Sub(t0), m.Raw), nil)
				return
			}
		}
		if closed || !cs.stillEstablished() {
			cs.viol(o, "c08:hold:session-lost-although-hold-time-zero", "session went down within 400 s of silence although the negotiated hold time is 0", nil)
			return
		}
		rec.Count("timing_hold_zero_checked", 1)
		return
	}
	var d time.Duration
	switch r.IntN(6) {
	case 0:
	case 1:
		d = time.Second
	case 2:
		d = hold - time.Second
	case 3:
		d = hold / 2
	case 4:
		d = 500 * time.Millisecond
	default:
		d = hold - 1500*time.Millisecond
	}
	last := t0
	if d > 0 {
		time.Sleep(d)
		if r.IntN(3) == 0 && res.Fams[c08V4] {
			// an UPDATE restarts the hold timer as well (RFC 4271 s8.2.2, event 27)
			path := c08PathTail
			if !res.Internal {
				path = append([]uint32{res.RemoteAS}, c08PathTail...)
			}
			spk.write(c08BuildUpdate(c08V4, cs.probe[c08V4].X, modes[c08V4]&c08APRecv != 0, 7, path, res.AS4, res.Internal, 0))
			cs.logf("+%v UPDATE", d)
		} else {
			spk.write(c08Header(19, 4))
			cs.logf("+%v KEEPALIVE", d)
		}
		last = time.Now()
	}
	expiry := last.Add(hold)
	time.Sleep(expiry.Add(3 * time.Second).Sub(time.Now()))
	synctest.Wait()
	rx, _, _ := spk.snapshot()
	code, sub, at, ok := spk.notification()
	switch {
	case !ok:
		cs.viol(o, "c08:hold:no-expiry", fmt.Sprintf("no NOTIFICATION within %v (+3 s) of our last message although the negotiated hold time is %d s", hold, res.Hold), nil)
		return
	case code != 4 || sub != 0:
		cs.viol(o, "c08:hold:expiry-wrong-notification", fmt.Sprintf("NOTIFICATION %d/%d at +%v, want 4/0 at +%v", code, sub, at.Sub(t0), expiry.Sub(t0)), nil)
		return
	case !at.Equal(expiry):
		cs.viol(o, "c08:hold:expiry-instant", fmt.Sprintf("hold timer expired %v after our last message, negotiated hold time is %d s (local %d, remote %d)", at.Sub(last), res.Hold, cs.l.effHold(), o.Hold), nil)
		return
	}
	rec.Count("hold_expiry_instants_checked", 1)
	// keepalive cadence: all instants k*p after an anchor, for one admissible period p
	var got []time.Duration
	anchorL := t0
	for _, m := range rx {
		if !m.At.After(t0) {
			if m.Type == bgp.BGP_MSG_UPDATE {
				anchorL = m.At
			}
			continue
		}
		switch m.Type {
		case bgp.BGP_MSG_KEEPALIVE:
			got = append(got, m.At.Sub(t0))
		case bgp.BGP_MSG_UPDATE:
			anchorL = m.At
		}
	}
	end := expiry.Sub(t0)
	fits := func(p time.Duration, anchor time.Duration) bool {
		var want []time.Duration
		for k := time.Duration(1); anchor+k*p < end; k++ {
			want = append(want, anchor+k*p)
		}
		g := got
		if len(g) == len(want)+1 && g[len(g)-1] == end { // a tick at the very instant of expiry may or may not get out
			g = g[:len(g)-1]
		}
		if len(g) != len(want) {
			return false
		}
		for i := range g {
			if g[i] != want[i] {
				return false
			}
		}
		return true
	}
	var periods []time.Duration
	for ms := range res.kaWire() {
		periods = append(periods, time.Duration(ms)*time.Millisecond)
	}
	sort.Slice(periods, func(i, j int) bool { return periods[i] < periods[j] })
	for _, p := range periods {
		if p > 0 && (fits(p, 0) || fits(p, anchorL.Sub(t0))) {
			rec.Count("keepalive_cadences_checked", 1)
			rec.Count("keepalives_observed", len(got))
			return
		}
	}
	cs.viol(o, "c08:keepalive:cadence-on-wire", fmt.Sprintf("KEEPALIVEs at %v after establishment (session ended at +%v); negotiated hold %d s, admissible periods %v", got, end, res.Hold, periods), nil)
}

// openConfirmSilent: the speaker never confirms the OPEN. RFC 4271 s8.2.2 (OpenSent, event 19):
// the hold timer is set to the negotiated value on receipt of the OPEN, so the connection must be
// torn down with NOTIFICATION 4/0 exactly that long after it (never, for a negotiated zero).
func (cs *c08Case) openConfirmSilent(o *c08Open, res *c08Result, hs *c08Hs) {
	rec := cs.rec
	spk := hs.spk
	spk.startReader()
	rec.Count("openconfirm_silent", 1)
	hold := time.Duration(res.Hold) * time.Second
	wait := hold + 3*time.Second
	if hold == 0 {
		wait = 300 * time.Second
	}
	time.Sleep(wait)
	synctest.Wait()
	code, sub, at, ok := spk.notification()
	_, closed, closedAt := spk.snapshot()
	switch {
	case !ok && closed && (hold == 0 || closedAt.Before(hs.at.Add(hold))):
		// torn down without NOTIFICATION before the hold time was over: another FSM event (the
		// graceful-restart timer of the previous session) ended OpenConfirm; nothing to judge
		rec.Count("openconfirm_ended_by_other_event", 1)
	case hold == 0 && ok && code == 4:
		cs.viol(o, "c08:hold:openconfirm-hold-timer-not-negotiated-value", fmt.Sprintf("NOTIFICATION %d/%d %v after the OPEN although the negotiated hold time is 0", code, sub, at.Sub(hs.at)), nil)
	case hold == 0:
		rec.Count("openconfirm_hold_zero_checked", 1)
	case !ok:
		cs.viol(o, "c08:hold:openconfirm-hold-timer-not-negotiated-value", fmt.Sprintf("in OpenConfirm no NOTIFICATION within %v of the OPEN although min(local, remote) hold time is %d s", wait, res.Hold), nil)
	case code != 4 || sub != 0 || !at.Equal(hs.at.Add(hold)):
		cs.viol(o, "c08:hold:openconfirm-hold-timer-not-negotiated-value", fmt.Sprintf("in OpenConfirm NOTIFICATION %d/%d came %v after the OPEN; want 4/0 after %d s = min(local, remote)", code, sub, at.Sub(hs.at), res.Hold), nil)
	default:
		rec.Count("openconfirm_expiry_checked", 1)
	}
}

var _ = table.GLOBAL_RIB_NAME
