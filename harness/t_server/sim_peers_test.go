package server

import (
	"context"
	"fmt"
	"math/rand/v2"
	"net/netip"
	"testing/synctest"
	"time"

	"github.com/osrg/gobgp/v4/api"
	"github.com/osrg/gobgp/v4/pkg/packet/bgp"
)

type simPeerKind int

const (
	simEBGP simPeerKind = iota
	simIBGP
	simRRClient
	simRSClient
)

func (k simPeerKind) String() string {
	return [...]string{"ebgp", "ibgp", "rr-client", "rs-client"}[k]
}

const simLocalAS = 65000

// simPeerSpec describes one neighbour: how gobgp is configured for it and what the scripted
// speaker announces in its OPEN.
type simPeerSpec struct {
	Kind       simPeerKind
	Addr       string
	AS         uint32
	ID         string
	V6         bool   // ipv6-unicast as well
	SendMax    uint32 // gobgp add-path send-max towards the peer (0 = off)
	APRecv     bool   // gobgp accepts add-path from the peer
	Hold       uint16 // speaker's hold time (0 = no keepalives)
	Keepalive  bool   // the speaker sends KEEPALIVEs itself (every Hold/3) until told to go silent
	GobgpHold  uint64 // gobgp's configured hold time (0 = default 90)
	ExportPol  *api.ApplyPolicy
	ApplyPol   *api.ApplyPolicy
	Extra      func(p *api.Peer)
	SpeakerMod func(c *simSpeakerConf)
}

func (ps simPeerSpec) families() []bgp.Family {
	if ps.V6 {
		return []bgp.Family{bgp.RF_IPv4_UC, bgp.RF_IPv6_UC}
	}
	return []bgp.Family{bgp.RF_IPv4_UC}
}

func (ps simPeerSpec) apiPeer() *api.Peer {
	p := &api.Peer{
		Conf:      &api.PeerConf{NeighborAddress: ps.Addr, PeerAsn: ps.AS},
		Transport: &api.Transport{PassiveMode: true},
	}
	if ps.GobgpHold != 0 {
		p.Timers = &api.Timers{Config: &api.TimersConfig{HoldTime: ps.GobgpHold, KeepaliveInterval: ps.GobgpHold / 3}}
	}
	switch ps.Kind {
	case simRRClient:
		p.RouteReflector = &api.RouteReflector{RouteReflectorClient: true, RouteReflectorClusterId: "1.1.1.1"}
	case simRSClient:
		p.RouteServer = &api.RouteServer{RouteServerClient: true}
	}
	for _, f := range ps.families() {
		af := &api.AfiSafi{Config: &api.AfiSafiConfig{Family: &api.Family{Afi: api.Family_Afi(f.Afi()), Safi: api.Family_Safi(f.Safi())}, Enabled: true}}
		if ps.SendMax > 0 || ps.APRecv {
			af.AddPaths = &api.AddPaths{Config: &api.AddPathsConfig{Receive: ps.APRecv, SendMax: ps.SendMax}}
		}
		p.AfiSafis = append(p.AfiSafis, af)
	}
	if ps.ApplyPol != nil {
		p.ApplyPolicy = ps.ApplyPol
	}
	if ps.Extra != nil {
		ps.Extra(p)
	}
	return p
}

func (ps simPeerSpec) speakerConf() simSpeakerConf {
	c := simSpeakerConf{Addr: ps.Addr, AS: ps.AS, ID: ps.ID, Hold: ps.Hold, Keepalive: ps.Keepalive, Families: ps.families()}
	ap := map[bgp.Family]bgp.BGPAddPathMode{}
	for _, f := range ps.families() {
		var m bgp.BGPAddPathMode
		if ps.SendMax > 0 {
			m |= bgp.BGP_ADD_PATH_RECEIVE
		}
		if ps.APRecv {
			m |= bgp.BGP_ADD_PATH_SEND
		}
		if m != 0 {
			ap[f] = m
		}
	}
	c.AddPath = ap
	if ps.SpeakerMod != nil {
		ps.SpeakerMod(&c)
	}
	return c
}

// addPeer configures the neighbour in gobgp and creates (but does not connect) its speaker.
func (n *simNet) addPeer(ps simPeerSpec) (*simSpeaker, error) {
	if err := n.s.AddPeer(context.Background(), &api.AddPeerRequest{Peer: ps.apiPeer()}); err != nil {
		return nil, err
	}
	sp := n.newSpeaker(ps.speakerConf())
	sp.overMax = int(ps.SendMax) // receiver-side note of paths that arrive beyond send-max
	return sp, nil
}

// bringUp connects the speaker, retrying (virtual seconds) while gobgp sits in Idle.
func (sp *simSpeaker) bringUp(maxTries int) error {
	var err error
	for i := 0; i < maxTries; i++ {
		if err = sp.connectPassive(); err == nil {
			synctest.Wait()
			if sp.established() {
				return nil
			}
			err = fmt.Errorf("handshake done but session not established")
		}
		sp.close()
		time.Sleep(time.Second)
	}
	return fmt.Errorf("simnet: %s did not come up after %d tries: %w", sp.conf.Addr, maxTries, err)
}

// ---------------------------------------------------------------- route construction

type simRouteSpec struct {
	Prefix    string
	ASPath    []uint32 // AS_SEQUENCE after the speaker's own AS (eBGP) / whole path (iBGP)
	MED       *uint32
	LocalPref *uint32
	Origin    uint8
	Comms     []uint32
	ID        uint32 // add-path id when the speaker sends path ids
	Nexthop   string // default: speaker address (v4) / mapped v6
}

func simV6Of(addr string) string {
	a := netip.MustParseAddr(addr).As4()
	return fmt.Sprintf("2001:db8::%d:%d", a[2], a[3])
}

func (sp *simSpeaker) buildAnnounce(kind simPeerKind, r simRouteSpec) *bgp.BGPMessage {
	pfx := netip.MustParsePrefix(r.Prefix)
	var aspath []uint32
	if kind == simEBGP || kind == simRSClient {
		aspath = append(aspath, sp.conf.AS)
	}
	aspath = append(aspath, r.ASPath...)
	var params []bgp.AsPathParamInterface
	if len(aspath) > 0 {
		params = append(params, bgp.NewAs4PathParam(bgp.BGP_ASPATH_ATTR_TYPE_SEQ, aspath))
	}
	attrs := []bgp.PathAttributeInterface{bgp.NewPathAttributeOrigin(r.Origin), bgp.NewPathAttributeAsPath(params)}
	if r.MED != nil {
		attrs = append(attrs, bgp.NewPathAttributeMultiExitDisc(*r.MED))
	}
	if kind == simIBGP || kind == simRRClient {
		lp := uint32(100)
		if r.LocalPref != nil {
			lp = *r.LocalPref
		}
		attrs = append(attrs, bgp.NewPathAttributeLocalPref(lp))
	}
	if len(r.Comms) > 0 {
		attrs = append(attrs, bgp.NewPathAttributeCommunities(r.Comms))
	}
	if pfx.Addr().Is4() {
		nhs := r.Nexthop
		if nhs == "" {
			nhs = sp.conf.Addr
		}
		nh, _ := bgp.NewPathAttributeNextHop(netip.MustParseAddr(nhs))
		attrs = append(attrs, nh)
		nl, _ := bgp.NewIPAddrPrefix(pfx)
		return bgp.NewBGPUpdateMessage(nil, attrs, []bgp.PathNLRI{{NLRI: nl, ID: r.ID}})
	}
	nhs := r.Nexthop
	if nhs == "" {
		nhs = simV6Of(sp.conf.Addr)
	}
	nl, _ := bgp.NewIPAddrPrefix(pfx)
	mp, _ := bgp.NewPathAttributeMpReachNLRI(bgp.RF_IPv6_UC, []bgp.PathNLRI{{NLRI: nl, ID: r.ID}}, netip.MustParseAddr(nhs))
	attrs = append(attrs, mp)
	return bgp.NewBGPUpdateMessage(nil, attrs, nil)
}

func (sp *simSpeaker) buildWithdraw(prefix string, id uint32) *bgp.BGPMessage {
	pfx := netip.MustParsePrefix(prefix)
	nl, _ := bgp.NewIPAddrPrefix(pfx)
	if pfx.Addr().Is4() {
		return bgp.NewBGPUpdateMessage([]bgp.PathNLRI{{NLRI: nl, ID: id}}, nil, nil)
	}
	mp, _ := bgp.NewPathAttributeMpUnreachNLRI(bgp.RF_IPv6_UC, []bgp.PathNLRI{{NLRI: nl, ID: id}})
	return bgp.NewBGPUpdateMessage(nil, []bgp.PathAttributeInterface{mp}, nil)
}

func simPickU32(r *rand.Rand, xs ...uint32) *uint32 {
	v := xs[r.IntN(len(xs))]
	return &v
}
