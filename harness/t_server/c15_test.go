package server

// C15 — soft reset and route refresh equal a fresh evaluation under the current policy.
//
// Metamorphic two-run differential in virtual time (simnet):
//   run A: fresh server, policy program P1, 2-4 speakers announce 20-200 routes, quiescence; the
//          policy is changed to P2 through the management API (assignment replaced / policy added
//          to or deleted from it / default action flipped / defined set edited in place / statement
//          added to or removed from a policy); the corresponding soft reset (ResetPeer soft
//          in|out|both, one peer or all) or ROUTE-REFRESH messages from the speaker(s); quiescence;
//          the same reset once more; quiescence.
//   run B: fresh server with P2 installed before any route arrives, same speakers, same routes.
// Oracle: Loc-RIB (global and per route-server client), ADJ_IN with filtered flags, ADJ_OUT and
// every speaker's accumulated wire view are identical in A (after the reset) and B; the repeated
// reset changes no view and sends nothing that changes what a peer holds. In racing cases the
// speakers keep announcing / replacing / withdrawing from their own goroutines while the policy
// change and/or the reset run; B is then fed with the final route set. All routes of a run are
// received at one virtual instant (age never decides) and the decision process is a total order on
// the generated routes, so the result does not depend on arrival order.

import (
	"context"
	"fmt"
	"os"
	"runtime"
	"sort"
	"strings"
	"sync"
	"sync/atomic"
	"testing"
	"testing/synctest"

	"google.golang.org/protobuf/proto"

	"github.com/osrg/gobgp/v4/api"
	"github.com/osrg/gobgp/v4/internal/verif/vlib"
	"github.com/osrg/gobgp/v4/pkg/apiutil"
	"github.com/osrg/gobgp/v4/pkg/packet/bgp"
)

var c15Ctx = context.Background()

// ---------------------------------------------------------------- one server run

type c15Run struct {
	c   *c15Case
	n   *simNet
	sps []*simSpeaker
}

func c15Setup(t *testing.T, c *c15Case, p *c15Prog) (*c15Run, error) {
	n := simStart(t, proto.Clone(c.global).(*api.Global))
	ru := &c15Run{c: c, n: n}
	for _, v := range c.vrfs {
		if err := c15AddVrf(n.s, v); err != nil {
			return ru, fmt.Errorf("AddVrf %v: %w", v, err)
		}
	}
	for _, s := range p.Sets {
		if err := n.s.AddDefinedSet(c15Ctx, &api.AddDefinedSetRequest{DefinedSet: proto.Clone(s).(*api.DefinedSet)}); err != nil {
			return ru, fmt.Errorf("AddDefinedSet %s: %w", c15Text(s), err)
		}
	}
	for _, s := range p.Pols {
		if err := n.s.AddPolicy(c15Ctx, &api.AddPolicyRequest{Policy: proto.Clone(s).(*api.Policy)}); err != nil {
			return ru, fmt.Errorf("AddPolicy %s: %w", c15Text(s), err)
		}
	}
	for _, ps := range c.peers {
		sp, err := n.addPeer(ps)
		if err != nil {
			return ru, fmt.Errorf("AddPeer %s: %w", ps.Addr, err)
		}
		ru.sps = append(ru.sps, sp)
	}
	for _, a := range p.Asg {
		if err := n.s.SetPolicyAssignment(c15Ctx, &api.SetPolicyAssignmentRequest{Assignment: proto.Clone(a).(*api.PolicyAssignment)}); err != nil {
			return ru, fmt.Errorf("SetPolicyAssignment %s: %w", c15Text(a), err)
		}
	}
	synctest.Wait()
	for _, sp := range ru.sps {
		if err := sp.bringUp(40); err != nil {
			return ru, err
		}
	}
	synctest.Wait()
	return ru, nil
}

func (ru *c15Run) msg(a c15Ann) *bgp.BGPMessage {
	sp := ru.sps[a.Spk]
	if a.RD != 0 {
		return c15BuildVPN(sp, a)
	}
	if a.W {
		return sp.buildWithdraw(a.Spec.Prefix, 0)
	}
	return sp.buildAnnounce(ru.c.peers[a.Spk].Kind, a.Spec)
}

func (ru *c15Run) announce(list []c15Ann) error {
	for i, a := range list {
		if err := ru.sps[a.Spk].sendMsg(ru.msg(a)); err != nil {
			return fmt.Errorf("send %v: %w", a, err)
		}
		// one message at a time: the arrival order at the Loc-RIB is the sending order, in every run
		synctest.Wait()
		_ = i
	}
	return nil
}

func (ru *c15Run) doReset(racing bool) error {
	c := ru.c
	if c.reset.Kind == "route-refresh" {
		// while route changes race the refresh, ask six times (a refresh is idempotent): more
		// chances for a full re-advertisement to overlap the incremental fan-out
		rounds := 1
		if racing {
			rounds = 6
		}
		for k := 0; k < rounds; k++ {
			for i, ps := range c.peers {
				if c.reset.Target != "all" && c.reset.Target != ps.Addr {
					continue
				}
				for _, f := range c.peerFams(i) {
					if err := ru.sps[i].sendMsg(bgp.NewBGPRouteRefreshMessage(f.Afi(), 0, f.Safi())); err != nil {
						return err
					}
				}
			}
			if racing {
				runtime.Gosched()
			}
		}
		return nil
	}
	dir := api.ResetPeerRequest_DIRECTION_BOTH
	switch c.reset.Kind {
	case "soft-in":
		dir = api.ResetPeerRequest_DIRECTION_IN
	case "soft-out":
		dir = api.ResetPeerRequest_DIRECTION_OUT
	}
	return ru.n.s.ResetPeer(c15Ctx, &api.ResetPeerRequest{Address: c.reset.Target, Soft: true, Direction: dir})
}

func (ru *c15Run) applyChanges() error {
	for _, ch := range ru.c.changes {
		for _, call := range ch.Calls {
			if err := call.Do(ru.n.s); err != nil {
				return fmt.Errorf("%s: %w", call.Desc, err)
			}
		}
	}
	return nil
}

// readback asks the management API what it reports for the objects the change touched.
func (ru *c15Run) readback() []string { return ru.readbackFor(ru.c.changes, ru.c.p2) }

func (ru *c15Run) readbackFor(changes []*c15Change, prog *c15Prog) []string {
	var out []string
	for _, ch := range changes {
		switch {
		case strings.HasPrefix(ch.Target, "set:"):
			set := prog.set(strings.TrimPrefix(ch.Target, "set:"))
			ru.n.s.ListDefinedSet(c15Ctx, &api.ListDefinedSetRequest{DefinedType: set.DefinedType, Name: set.Name}, func(d *api.DefinedSet) {
				// members are a set: canonical order
				e := proto.Clone(d).(*api.DefinedSet)
				sort.Strings(e.List)
				sort.Slice(e.Prefixes, func(i, j int) bool { return c15Text(e.Prefixes[i]) < c15Text(e.Prefixes[j]) })
				out = append(out, "ListDefinedSet: "+c15Text(e))
			})
		default:
			ru.n.s.ListPolicyAssignment(c15Ctx, &api.ListPolicyAssignmentRequest{Name: ch.Target, Direction: ch.Dir}, func(a *api.PolicyAssignment) {
				b := &api.PolicyAssignment{Name: a.Name, Direction: a.Direction, DefaultAction: a.DefaultAction}
				for _, p := range a.Policies {
					b.Policies = append(b.Policies, &api.Policy{Name: p.Name})
					if ch.Kind == "policy-add-stmt" || ch.Kind == "policy-del-stmt" {
						var names []string
						for _, st := range p.Statements {
							names = append(names, st.Name)
						}
						out = append(out, "policy "+p.Name+" statements: "+strings.Join(names, ","))
					}
				}
				out = append(out, "ListPolicyAssignment: "+c15Text(b))
			})
		}
	}
	return out
}

// ---------------------------------------------------------------- views

type c15View map[string]string

type c15Snap struct {
	views map[string]c15View
	anom  []string // duplicate paths, dead sessions, receiver-model anomalies
}

func c15ViewClass(name string) string {
	if i := strings.IndexByte(name, '@'); i >= 0 {
		return name[:i]
	}
	return name
}

func (ru *c15Run) snapshot() (*c15Snap, error) {
	c := ru.c
	sn := &c15Snap{views: map[string]c15View{}}
	put := func(view, key, val string) {
		v := sn.views[view]
		if v == nil {
			v = c15View{}
			sn.views[view] = v
		}
		if _, dup := v[key]; dup {
			sn.anom = append(sn.anom, "duplicate:"+view+":"+key)
		}
		v[key] = val
	}
	list := func(view string, req apiutil.ListPathRequest, bySource bool, flag func(p *apiutil.Path) string) error {
		if sn.views[view] == nil {
			sn.views[view] = c15View{}
		}
		return ru.n.s.ListPath(req, func(prefix bgp.NLRI, paths []*apiutil.Path) {
			for _, p := range paths {
				if p.Withdrawal {
					continue
				}
				key := req.Family.String() + "/" + prefix.String()
				if bySource {
					key += "|from=" + p.PeerAddress.String()
				}
				a, nh := simCanonAttrs(p.Attrs)
				put(view, key, a+"|nh="+nh+"|"+flag(p))
			}
		})
	}
	best := func(p *apiutil.Path) string { return fmt.Sprintf("best=%v", p.Best) }
	filt := func(p *apiutil.Path) string { return fmt.Sprintf("filtered=%v", p.Filtered) }
	none := func(p *apiutil.Path) string { return "" }
	hasFam := func(i int, f bgp.Family) bool {
		for _, g := range c.peerFams(i) {
			if g == f {
				return true
			}
		}
		return false
	}
	var fams []bgp.Family // every family some session carries, in a fixed order
	for _, f := range []bgp.Family{bgp.RF_IPv4_UC, bgp.RF_IPv6_UC, bgp.RF_IPv4_VPN} {
		for i := range c.peers {
			if hasFam(i, f) {
				fams = append(fams, f)
				break
			}
		}
	}
	for _, v := range c.vrfs {
		if err := list("vrf-rib@"+v.Name, apiutil.ListPathRequest{TableType: api.TableType_TABLE_TYPE_VRF, Name: v.Name, Family: bgp.RF_IPv4_UC}, true, best); err != nil {
			return nil, fmt.Errorf("ListPath VRF %s: %w", v.Name, err)
		}
	}
	for _, f := range fams {
		if len(c.vrfs) > 0 && f != bgp.RF_IPv4_VPN {
			// the sessions of VRF neighbours carry plain families; the table behind them is the VPN one
		} else if c.hasNon {
			if err := list("loc-rib", apiutil.ListPathRequest{TableType: api.TableType_TABLE_TYPE_GLOBAL, Family: f}, true, best); err != nil {
				return nil, fmt.Errorf("ListPath GLOBAL %s: %w", f, err)
			}
		}
		for i, ps := range c.peers {
			if !hasFam(i, f) {
				continue
			}
			if ps.Kind == simRSClient {
				if err := list("rs-loc-rib@"+ps.Addr, apiutil.ListPathRequest{TableType: api.TableType_TABLE_TYPE_LOCAL, Name: ps.Addr, Family: f}, true, best); err != nil {
					return nil, fmt.Errorf("ListPath LOCAL %s %s: %w", ps.Addr, f, err)
				}
			}
			if err := list("adj-in-raw@"+ps.Addr, apiutil.ListPathRequest{TableType: api.TableType_TABLE_TYPE_ADJ_IN, Name: ps.Addr, Family: f}, false, none); err != nil {
				return nil, fmt.Errorf("ListPath ADJ_IN (raw) %s %s: %w", ps.Addr, f, err)
			}
			if err := list("adj-in@"+ps.Addr, apiutil.ListPathRequest{TableType: api.TableType_TABLE_TYPE_ADJ_IN, Name: ps.Addr, Family: f, EnableFiltered: true}, false, filt); err != nil {
				return nil, fmt.Errorf("ListPath ADJ_IN %s %s: %w", ps.Addr, f, err)
			}
			if i == c.apTarget {
				// ListPath(ADJ_OUT) keys an ADD-PATH neighbour's paths by remote path id and collapses
				// them: no usable fresh view; the wire view (by prefix and attributes) is compared instead
				continue
			}
			view := "adj-out@" + ps.Addr
			if sn.views[view] == nil {
				sn.views[view] = c15View{}
			}
			err := ru.n.s.ListPath(apiutil.ListPathRequest{TableType: api.TableType_TABLE_TYPE_ADJ_OUT, Name: ps.Addr, Family: f}, func(prefix bgp.NLRI, paths []*apiutil.Path) {
				for _, p := range paths {
					if p.Withdrawal || p.Filtered {
						continue
					}
					a, nh := simCanonAttrs(p.Attrs)
					put(view, f.String()+"/"+prefix.String(), a+"|nh="+nh+"|"+none(p))
				}
			})
			if err != nil {
				return nil, fmt.Errorf("ListPath ADJ_OUT %s %s: %w", ps.Addr, f, err)
			}
		}
	}
	for i, ps := range c.peers {
		sp := ru.sps[i]
		v := c15View{}
		for k, r := range sp.snapshot() {
			key := k.Family.String() + "/" + k.Prefix
			if i == c.apTarget {
				// several paths per prefix; path ids are gobgp's business, a path is what it says
				key += "|path=" + r.Attrs + " nh=" + r.Nexthop
			}
			if _, dup := v[key]; dup {
				sn.anom = append(sn.anom, "duplicate:wire@"+ps.Addr+":"+key)
			}
			v[key] = r.Attrs + "|nh=" + r.Nexthop + "|"
		}
		sn.views["wire@"+ps.Addr] = v
		if !sp.established() {
			sp.mu.Lock()
			sn.anom = append(sn.anom, fmt.Sprintf("session-lost:%s notification=%v closed=%v", ps.Addr, sp.notif, sp.closedErr))
			sp.mu.Unlock()
		}
		sp.mu.Lock()
		for _, d := range sp.dupID {
			sn.anom = append(sn.anom, "receiver:"+ps.Addr+":"+d)
		}
		sp.mu.Unlock()
	}
	return sn, nil
}

type c15Diff struct {
	View, Key, How, A, B string
}

func (d c15Diff) String() string {
	return fmt.Sprintf("%s %s [%s] A{%s} B{%s}", d.View, d.Key, d.How, d.A, d.B)
}

func c15SplitFlag(v string) (string, string) {
	i := strings.LastIndexByte(v, '|')
	if i < 0 {
		return v, ""
	}
	return v[:i], v[i+1:]
}

// c15Compare lists the differences of a against b (b is the reference). base, when given, is the
// state of run A before the policy change: it tells whether a difference is a leftover of P1.
func c15Compare(a, b, base *c15Snap, only func(view string) bool) []c15Diff {
	var out []c15Diff
	names := map[string]bool{}
	for n := range a.views {
		names[n] = true
	}
	for n := range b.views {
		names[n] = true
	}
	for n := range names {
		if only != nil && !only(n) {
			continue
		}
		av, bv := a.views[n], b.views[n]
		var bs c15View
		if base != nil {
			bs = base.views[n]
		}
		for k, x := range av {
			y, ok := bv[k]
			if !ok {
				how := "stale-route"
				if base != nil {
					how = "spurious-route"
					if _, was := bs[k]; was {
						how = "stale-route-not-withdrawn"
					}
				}
				out = append(out, c15Diff{n, k, how, x, "-"})
				continue
			}
			if x == y {
				continue
			}
			xa, _ := c15SplitFlag(x)
			ya, _ := c15SplitFlag(y)
			how := "attrs-differ"
			switch {
			case xa == ya && strings.Contains(n, "loc-rib"):
				how = "best-differs"
			case xa == ya:
				how = "filtered-flag-differs"
			case base != nil:
				how = "wrong-attrs"
				if was, ok := bs[k]; ok {
					if wa, _ := c15SplitFlag(was); wa == xa {
						how = "changed-attrs-not-updated"
					}
				}
			}
			out = append(out, c15Diff{n, k, how, x, y})
		}
		for k, y := range bv {
			if _, ok := av[k]; !ok {
				how := "missing-route"
				if base != nil {
					how = "route-lost"
					if _, was := bs[k]; !was {
						how = "newly-accepted-missing"
					}
				}
				out = append(out, c15Diff{n, k, how, "-", y})
			}
		}
	}
	sort.Slice(out, func(i, j int) bool {
		if out[i].View != out[j].View {
			return out[i].View < out[j].View
		}
		return out[i].Key < out[j].Key
	})
	return out
}

// Order of blame. adj-in-raw is a pure function of what the speakers sent; adj-in (ListPath with
// EnableFiltered) of that and the import policy gobgp evaluates now, reset or not; adj-out of the
// Loc-RIB and the export policy gobgp evaluates now. So a difference whose most upstream view is
// adj-in / adj-out says that the policy in force is not P2 (the change, not the reset, is at fault).
var c15ViewPrio = []string{"adj-in-raw", "adj-in", "loc-rib", "rs-loc-rib", "vrf-rib", "adj-out", "wire"}
var c15HowPrio = []string{"withdrawn-prefix-still-held", "stale-route-not-withdrawn", "newly-accepted-missing", "changed-attrs-not-updated", "route-lost", "spurious-route", "wrong-attrs",
	"stale-route", "missing-route", "attrs-differ", "best-differs", "filtered-flag-differs"}

// c15Pick names the most upstream view that differs and, within it, the most telling difference.
func c15Pick(ds []c15Diff) (string, string) {
	for _, v := range c15ViewPrio {
		hows := map[string]bool{}
		for _, d := range ds {
			if c15ViewClass(d.View) == v {
				hows[d.How] = true
			}
		}
		for _, h := range c15HowPrio {
			if hows[h] {
				return v, h
			}
		}
	}
	return "unknown", "unknown"
}

func c15DiffStrings(ds []c15Diff, max int) []string {
	var out []string
	for i, d := range ds {
		if i == max {
			out = append(out, fmt.Sprintf("... %d more", len(ds)-max))
			break
		}
		out = append(out, d.String())
	}
	return out
}

// c15Patterns: how P1 and P2 differ on the routes (from gobgp's own states under P1 and under P2 on
// the same inputs). Only used to classify the case, never for the verdict.
func c15Patterns(p1, p2 *c15Snap) []string {
	set := map[string]bool{}
	for n, v1 := range p1.views {
		cl := c15ViewClass(n)
		side := ""
		switch cl {
		case "loc-rib", "rs-loc-rib", "vrf-rib":
			side = "in"
		case "wire":
			side = "out"
		default:
			continue
		}
		v2 := p2.views[n]
		for k, x := range v1 {
			y, ok := v2[k]
			if !ok {
				set[side+":accept->reject"] = true
				continue
			}
			xa, _ := c15SplitFlag(x)
			ya, _ := c15SplitFlag(y)
			if xa != ya {
				set[side+":attrs-changed"] = true
			} else if x != y {
				set[side+":best-changed"] = true
			}
		}
		for k := range v2 {
			if _, ok := v1[k]; !ok {
				set[side+":reject->accept"] = true
			}
		}
	}
	var out []string
	for k := range set {
		out = append(out, k)
	}
	sort.Strings(out)
	return out
}

// ---------------------------------------------------------------- repeat monitor

// c15CheckRepeat replays, message by message, what a speaker received during the repeated reset on
// top of what it held before: a re-advertisement may only repeat what the peer already holds.
func c15CheckRepeat(held map[simRouteKey]simRoute, msgs []simRxMsg) []string {
	var bad []string
	for _, m := range msgs {
		u, ok := m.Msg.Body.(*bgp.BGPUpdate)
		if !ok {
			continue
		}
		if eor, _ := u.IsEndOfRib(); eor {
			continue
		}
		wd := func(k simRouteKey) {
			if _, ok := held[k]; ok {
				bad = append(bad, "withdraw-of-held-route:"+k.String())
				delete(held, k)
			}
		}
		for _, w := range u.WithdrawnRoutes {
			wd(simRouteKey{bgp.RF_IPv4_UC, w.NLRI.String(), w.ID})
		}
		attrs, nh := simCanonAttrs(u.PathAttributes)
		ann := func(k simRouteKey) {
			nr := simRoute{attrs, nh}
			if old, ok := held[k]; !ok {
				bad = append(bad, "new-route-advertised:"+k.String())
			} else if old != nr {
				bad = append(bad, "held-route-changed:"+k.String()+" {"+old.Attrs+" nh="+old.Nexthop+"} -> {"+nr.Attrs+" nh="+nr.Nexthop+"}")
			}
			held[k] = nr
		}
		for _, a := range u.PathAttributes {
			if un, ok := a.(*bgp.PathAttributeMpUnreachNLRI); ok {
				for _, w := range un.Value {
					wd(simRouteKey{bgp.NewFamily(un.AFI, un.SAFI), w.NLRI.String(), w.ID})
				}
			}
		}
		for _, nl := range u.NLRI {
			ann(simRouteKey{bgp.RF_IPv4_UC, nl.NLRI.String(), nl.ID})
		}
		for _, a := range u.PathAttributes {
			if re, ok := a.(*bgp.PathAttributeMpReachNLRI); ok {
				for _, nl := range re.Value {
					ann(simRouteKey{bgp.NewFamily(re.AFI, re.SAFI), nl.NLRI.String(), nl.ID})
				}
			}
		}
	}
	return bad
}

// ---------------------------------------------------------------- the runs

type c15AResult struct {
	err        error
	a1         *c15Snap // P1, initial routes, before the change
	a2         *c15Snap // after the reset
	a3         *c15Snap // after the repeated reset
	repeatBad  map[string][]string
	repeatMsgs int
	readback   []string // what the management API reports for the edited objects right after the change
}

func c15RunA(t *testing.T, c *c15Case) (res c15AResult) {
	ru, err := c15Setup(t, c, c.p1)
	defer func() {
		ru.n.stop()
		synctest.Wait()
	}()
	if err != nil {
		res.err = err
		return
	}
	if res.err = ru.announce(c.routes); res.err != nil {
		return
	}
	if res.a1, res.err = ru.snapshot(); res.err != nil {
		return
	}
	if c.racing == 0 {
		if res.err = ru.applyChanges(); res.err != nil {
			return
		}
		res.readback = ru.readback()
		if res.err = ru.doReset(false); res.err != nil {
			return
		}
	} else {
		var ctr atomic.Uint64
		seed := uint64(c.idx)*0x9E3779B97F4A7C15 + uint64(vlib.Seed())
		verifHookPtr.Store(&verifHooks{yield: func(point, peer string) {
			x := (ctr.Add(1) + seed) * 0xBF58476D1CE4E5B9
			if (x>>59)&3 == 0 {
				runtime.Gosched()
			}
		}})
		defer verifHookPtr.Store(nil)
		if c.racing == 1 {
			if res.err = ru.applyChanges(); res.err != nil {
				return
			}
		}
		var wg sync.WaitGroup
		for s, ops := range c.bursts {
			var msgs []*bgp.BGPMessage
			for _, a := range ops {
				msgs = append(msgs, ru.msg(a))
			}
			wg.Add(1)
			go func(sp *simSpeaker, msgs []*bgp.BGPMessage) {
				defer wg.Done()
				for _, m := range msgs {
					if sp.sendMsg(m) != nil {
						return
					}
				}
			}(ru.sps[s], msgs)
		}
		for i := c.r.IntN(4); i > 0; i-- {
			runtime.Gosched()
		}
		if c.racing == 2 {
			if res.err = ru.applyChanges(); res.err != nil {
				wg.Wait()
				return
			}
		}
		res.err = ru.doReset(true)
		wg.Wait()
		if res.err != nil {
			return
		}
	}
	synctest.Wait()
	if res.readback == nil {
		res.readback = ru.readback()
	}
	if res.a2, res.err = ru.snapshot(); res.err != nil {
		return
	}
	// ---- the same reset once more
	marks := make([]int, len(ru.sps))
	helds := make([]map[simRouteKey]simRoute, len(ru.sps))
	for i, sp := range ru.sps {
		sp.mu.Lock()
		marks[i] = len(sp.rx)
		sp.mu.Unlock()
		helds[i] = sp.snapshot()
	}
	if res.err = ru.doReset(false); res.err != nil {
		return
	}
	synctest.Wait()
	if res.a3, res.err = ru.snapshot(); res.err != nil {
		return
	}
	res.repeatBad = map[string][]string{}
	for i, sp := range ru.sps {
		sp.mu.Lock()
		msgs := append([]simRxMsg{}, sp.rx[marks[i]:]...)
		sp.mu.Unlock()
		res.repeatMsgs += len(msgs)
		if bad := c15CheckRepeat(helds[i], msgs); len(bad) > 0 {
			res.repeatBad[c.peers[i].Addr] = bad
		}
	}
	return
}

// c15RunFresh: a fresh server with program p in force before the first route arrives.
func c15RunFresh(t *testing.T, c *c15Case, p *c15Prog, routes []c15Ann, rb *[]string) (sn *c15Snap, err error) {
	ru, err := c15Setup(t, c, p)
	defer func() {
		ru.n.stop()
		synctest.Wait()
	}()
	if err != nil {
		return nil, err
	}
	if err = ru.announce(routes); err != nil {
		return nil, err
	}
	if rb != nil {
		*rb = ru.readback()
	}
	return ru.snapshot()
}

// ---------------------------------------------------------------- test

func TestVerifC15(t *testing.T) {
	rec := vlib.Open("C15")
	defer rec.Close()
	// of nine cases: six single-change pairs (with the repeat and the racing oracles), two multi-round
	// histories, one multi-round history on a VRF topology
	total := vlib.Scale(720, 21600)
	vlib.Cases(total, func(idx int) {
		switch idx % 9 {
		case 3, 7:
			rec.Mark(fmt.Sprintf("c15 history %d", idx), true)
			c15HistoryCase(t, rec, idx)
			return
		case 8:
			rec.Mark(fmt.Sprintf("c15 vrf history %d", idx), true)
			c15VrfHistoryCase(t, rec, idx)
			return
		}
		rec.Mark(fmt.Sprintf("c15 pair %d", idx), true)
		c15Pair(t, rec, idx)
	})
}

// wireDiffsOnRewritingPeers: every difference is in the wire view of a peer gobgp rewrites attributes for.
func (c *c15Case) wireDiffsOnRewritingPeers(ds []c15Diff) bool {
	for _, d := range ds {
		i := c.peerIdx(strings.TrimPrefix(d.View, "wire@"))
		if i < 0 || c.isRS(i) {
			return false
		}
	}
	return true
}

// exportTestsASPath: the global export assignment of P2 holds a condition on AS_PATH.
func (c *c15Case) exportTestsASPath() bool {
	a := c.p2.asg(c15Global, c15Export)
	if a == nil {
		return false
	}
	for _, ref := range a.Policies {
		for _, st := range c.p2.pol(ref.Name).Statements {
			if cd := st.Conditions; cd != nil && (cd.AsPathSet != nil || cd.AsPathLength != nil) {
				return true
			}
		}
	}
	return false
}

func (c *c15Case) witness() map[string]any {
	var peers, routes, chg []string
	for _, p := range c.peers {
		peers = append(peers, fmt.Sprintf("%s %s as%d v6=%v addpath-send-max=%d", p.Addr, p.Kind, p.AS, p.V6, p.SendMax))
	}
	for _, a := range c.routes {
		routes = append(routes, a.String())
	}
	for _, ch := range c.changes {
		for _, call := range ch.Calls {
			chg = append(chg, fmt.Sprintf("[%s %s affects=%s] %s", ch.Kind, c15DirName(ch.Dir), ch.Affected, call.Desc))
		}
	}
	w := map[string]any{"case": c.idx, "peers": peers, "always_compare_med": c.always, "routes_in_order": routes,
		"P1": c.p1.describe(), "change_calls": chg, "P2": c.p2.describe(),
		"reset": fmt.Sprintf("%s target=%s", c.reset.Kind, c.reset.Target), "racing": c.racing}
	if c.racing != 0 {
		b := map[string][]string{}
		for s, ops := range c.bursts {
			for _, a := range ops {
				b[c.peers[s].Addr] = append(b[c.peers[s].Addr], a.String())
			}
		}
		w["racing_bursts_per_speaker"] = b
		var fin []string
		for _, a := range c.final {
			fin = append(fin, a.String())
		}
		w["final_routes_fed_to_run_B"] = fin
	}
	return w
}

func c15Pair(t *testing.T, rec *vlib.Rec, idx int) {
	r := vlib.CaseRand("c15", idx)
	c := c15GenCase(idx, r)
	var a c15AResult
	synctest.Test(t, func(t *testing.T) { a = c15RunA(t, c) })
	if a.err != nil {
		t.Fatalf("c15 harness: case %d run A: %v", idx, a.err)
	}
	var b *c15Snap
	var berr error
	var brb []string
	synctest.Test(t, func(t *testing.T) { b, berr = c15RunFresh(t, c, c.p2, c.final, &brb) })
	if berr != nil {
		t.Fatalf("c15 harness: case %d run B: %v", idx, berr)
	}
	// The harness' model of what the change calls mean must agree with what the management API
	// reports: the objects touched by the change read back the same in run A (after the change) and
	// in run B (P2 installed from scratch). Otherwise B is not "the current policy from the start".
	if strings.Join(a.readback, "\n") != strings.Join(brb, "\n") {
		rec.Inconclusive(fmt.Sprintf("c15: case %d: read-back after the change (run A) differs from a fresh install of P2 (run B): A=%v B=%v", idx, a.readback, brb))
		return
	}
	rec.Eval()
	if pat := os.Getenv("VERIF_C15_DUMP"); pat != "" {
		for _, x := range []struct {
			n string
			s *c15Snap
		}{{"A1", a.a1}, {"A2", a.a2}, {"A3", a.a3}, {"B", b}} {
			var lines []string
			for vn, v := range x.s.views {
				for k, val := range v {
					if strings.Contains(k, pat) {
						lines = append(lines, fmt.Sprintf("C15DUMP %s %s %s = %s", x.n, vn, k, val))
					}
				}
			}
			sort.Strings(lines)
			fmt.Println(strings.Join(lines, "\n"))
		}
	}

	// ---- coverage and classification
	var kinds []string
	for _, ch := range c.changes {
		kinds = append(kinds, ch.Kind)
		rec.Count("change_"+ch.Kind+"_"+c15DirName(ch.Dir), 1)
	}
	tgt := "one"
	if c.reset.Target == "all" {
		tgt = "all"
	}
	rec.Count("reset_"+c.reset.Kind+"_"+tgt, 1)
	switch {
	case c.hasRS && c.hasNon:
		rec.Count("topology_mixed", 1)
	case c.hasRS:
		rec.Count("topology_route_server", 1)
	default:
		rec.Count("topology_plain", 1)
	}
	p1eval := a.a1
	if c.racing != 0 {
		rec.Count("racing_cases", 1)
		rec.Count(fmt.Sprintf("racing_mode_%d", c.racing), 1)
		// P1 on the final inputs, to tell whether P1 and P2 differ on them
		var cs *c15Snap
		var cerr error
		synctest.Test(t, func(t *testing.T) { cs, cerr = c15RunFresh(t, c, c.p1, c.final, nil) })
		if cerr != nil {
			t.Fatalf("c15 harness: case %d run C: %v", idx, cerr)
		}
		p1eval = cs
	}
	pats := c15Patterns(p1eval, b)
	for _, p := range pats {
		rec.Count("pattern_"+p, 1)
	}
	racingSfx := ""
	if c.racing != 0 {
		racingSfx = ":racing"
	}
	if len(pats) == 0 {
		rec.Count("trivial_pairs", 1)
	} else {
		rec.Count("nontrivial_pairs", 1)
		rec.Nontrivial(strings.Join(pats, ",") + "|" + c.reset.Kind + "|" + strings.Join(kinds, "+") + racingSfx)
	}
	nroutes := 0
	for _, v := range b.views {
		nroutes += len(v)
	}
	rec.Count("routes_compared", nroutes)
	rec.Count("views_compared", len(b.views))
	rec.Count("routes_announced", len(c.routes))

	// ---- infrastructure anomalies (sessions must survive; the receiver model must parse everything)
	for _, s := range []*c15Snap{a.a1, b} {
		if len(s.anom) > 0 {
			rec.Inconclusive(fmt.Sprintf("c15: case %d: anomaly outside the reset: %v", idx, s.anom))
			return
		}
	}
	for _, s := range []*c15Snap{a.a2, a.a3} {
		if len(s.anom) > 0 {
			w := c.witness()
			w["anomalies"] = s.anom
			kind := strings.SplitN(s.anom[0], ":", 2)[0]
			rec.Violation("c15:"+c.reset.Kind+":"+kind+racingSfx, fmt.Sprintf("after policy change + %s: %v", c.reset.Kind, s.anom), w)
			return
		}
	}

	// ---- precondition: before the change (run A) and in the reference run B every peer holds exactly
	// what a fresh ADJ_OUT evaluation yields (that is property C01). Where gobgp already breaks that
	// without any policy change or reset, the peer's wire view is no reference for C15: it is left out.
	tainted := map[string]bool{}
	for rn, s := range map[string]*c15Snap{"A-before-change": a.a1, "B": b} {
		for i, ps := range c.peers {
			if i == c.apTarget {
				continue
			}
			if ds := c15Compare(&c15Snap{views: map[string]c15View{"x": s.views["wire@"+ps.Addr]}}, &c15Snap{views: map[string]c15View{"x": s.views["adj-out@"+ps.Addr]}}, nil, nil); len(ds) > 0 {
				tainted["wire@"+ps.Addr] = true
				rec.Count("precondition_wire_ne_adjout_run_"+rn, 1)
				if os.Getenv("VERIF_C15_TAINT") != "" {
					fmt.Printf("C15TAINT case %d run %s peer %s: %v\n", idx, rn, ps.Addr, c15DiffStrings(ds, 5))
				}
			}
		}
	}
	untainted := func(v string) bool { return !tainted[v] }

	// ---- oracle 1: after change + reset, A equals the fresh evaluation B.
	// base = the state under P1 on the same inputs (run A before the change; in racing cases a fresh
	// run with P1 on the final inputs): it tells a leftover of P1 from any other difference.
	if ds := c15Compare(a.a2, b, p1eval, untainted); len(ds) > 0 {
		// whatever the policies: nobody may hold a prefix that no speaker announces any more
		announced := map[string]bool{}
		for _, an := range c.final {
			announced[an.Spec.Prefix] = true
		}
		for i := range ds {
			if ds[i].B != "-" {
				continue
			}
			pfx := ds[i].Key[strings.IndexByte(ds[i].Key, '/')+1:]
			if j := strings.IndexByte(pfx, '|'); j >= 0 {
				pfx = pfx[:j]
			}
			if !announced[pfx] {
				ds[i].How = "withdrawn-prefix-still-held"
			}
		}
		view, _ := c15Pick(ds)
		hows := map[string][]c15Diff{}
		for _, d := range ds {
			if c15ViewClass(d.View) == view {
				hows[d.How] = append(hows[d.How], d)
			}
		}
		for _, how := range c15HowPrio {
			hd := hows[how]
			if len(hd) == 0 {
				continue
			}
			key := "c15:" + c.reset.Kind + ":" + view + ":" + how + racingSfx
			what := fmt.Sprintf("after the policy change and %s (target %s) run A differs from a fresh server with the new policy: ", c.reset.Kind, c.reset.Target)
			if view == "adj-in" || view == "adj-out" {
				dname := map[string]string{"adj-in": "import", "adj-out": "export"}[view]
				var ks []string
				for _, ch := range c.changes {
					if c15DirName(ch.Dir) == dname {
						ks = append(ks, ch.Kind)
					}
				}
				if len(ks) == 0 {
					ks = []string{"none"}
				}
				key = "c15:change-not-effective:" + strings.Join(ks, "+") + ":" + dname
				what = fmt.Sprintf("the %s policy gobgp evaluates after the change is not the new policy: the freshly evaluated %s (ListPath, independent of any reset) differs from a server configured with the new policy from the start, everything upstream of it being equal: ", dname, view)
			}
			if view == "wire" && c.reset.Kind != "route-refresh" && c.wireDiffsOnRewritingPeers(hd) && c.exportTestsASPath() {
				// Narrowing for a known class: towards ordinary (non route-server) peers gobgp decides whether
				// an old best path needs an explicit withdraw by running the export policy on the path as
				// stored, not as advertised (own AS prepended); only AS_PATH conditions can tell the two apart.
				key += ":export-tests-as-path"
			}
			w := c.witness()
			w["readback_after_change_runA"] = a.readback
			w["diff_A_vs_B_this_class"] = c15DiffStrings(hd, 25)
			w["diff_A_vs_B_all_views"] = c15DiffStrings(ds, 40)
			w["diff_count"] = len(ds)
			rec.Violation(key, what+strings.Join(c15DiffStrings(hd, 6), " || "), w)
			if view == "adj-in" || view == "adj-out" {
				break
			}
		}
		return
	}
	rec.Count("pairs_equal", 1)

	// ---- oracle 2: the same reset once more changes nothing
	rec.Count("repeat_checks", 1)
	rec.Count("repeat_messages_seen", a.repeatMsgs)
	if ds := c15Compare(a.a3, a.a2, nil, nil); len(ds) > 0 {
		view, _ := c15Pick(ds)
		w := c.witness()
		w["diff_after_repeat"] = c15DiffStrings(ds, 40)
		rec.Violation("c15:repeat:"+c.reset.Kind+":"+view+":view-changed"+racingSfx,
			fmt.Sprintf("repeating %s changed a view: %s", c.reset.Kind, strings.Join(c15DiffStrings(ds, 6), " || ")), w)
		return
	}
	if len(a.repeatBad) > 0 {
		w := c.witness()
		w["repeat_messages_that_change_the_view"] = a.repeatBad
		var hows []string
		for _, l := range a.repeatBad {
			hows = append(hows, strings.SplitN(l[0], ":", 2)[0])
		}
		sort.Strings(hows)
		how := hows[0]
		rec.Violation("c15:repeat:"+c.reset.Kind+":wire:"+how+racingSfx,
			fmt.Sprintf("repeating %s sent UPDATEs that are not plain re-advertisements of what the peer holds: %v", c.reset.Kind, a.repeatBad), w)
		return
	}
	if idx%53 == 0 {
		w := c.witness()
		delete(w, "routes_in_order")
		delete(w, "final_routes_fed_to_run_B")
		delete(w, "racing_bursts_per_speaker")
		w["patterns"] = pats
		w["routes"] = len(c.routes)
		rec.Sample(w)
	}
}
