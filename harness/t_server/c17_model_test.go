package server

// C17 — reference model: a plain relation over three changing sets (VPN routes, VRFs, RT memberships).
//
// Nothing in here calls gobgp's VRF / RTC code. Route targets are compared by their own 8-octet
// encoding (RFC 4360 sec. 3: type high, sub-type, value), computed here, not by gobgp's helpers.

import (
	"encoding/binary"
	"encoding/hex"
	"fmt"
	"net/netip"
	"sort"
	"strings"

	"github.com/osrg/gobgp/v4/pkg/packet/bgp"
)

// ---------------------------------------------------------------- route targets

type c17RT struct {
	four     bool // 4-octet AS specific (type 0x02) instead of 2-octet AS specific (type 0x00)
	as       uint32
	admin    uint32
	nontrans bool // type | 0x40
}

func (rt c17RT) bytes() [8]byte {
	var b [8]byte
	if rt.four {
		b[0] = 0x02
		binary.BigEndian.PutUint32(b[2:6], rt.as)
		binary.BigEndian.PutUint16(b[6:8], uint16(rt.admin))
	} else {
		binary.BigEndian.PutUint16(b[2:4], uint16(rt.as))
		binary.BigEndian.PutUint32(b[4:8], rt.admin)
	}
	if rt.nontrans {
		b[0] |= 0x40
	}
	b[1] = 0x02 // route target
	return b
}

func (rt c17RT) hex() string { b := rt.bytes(); return hex.EncodeToString(b[:]) }

func (rt c17RT) String() string {
	s := fmt.Sprintf("%d:%d", rt.as, rt.admin)
	if rt.nontrans {
		s = "~" + s
	}
	return s
}

func (rt c17RT) ec() bgp.ExtendedCommunityInterface {
	if rt.four {
		return bgp.NewFourOctetAsSpecificExtended(bgp.EC_SUBTYPE_ROUTE_TARGET, rt.as, uint16(rt.admin), !rt.nontrans)
	}
	return bgp.NewTwoOctetAsSpecificExtended(bgp.EC_SUBTYPE_ROUTE_TARGET, uint16(rt.as), rt.admin, !rt.nontrans)
}

func c17RTsString(rts []c17RT) string {
	var s []string
	for _, rt := range rts {
		s = append(s, rt.String())
	}
	return "[" + strings.Join(s, " ") + "]"
}

func c17RTHexSet(rts []c17RT) map[string]bool {
	m := map[string]bool{}
	for _, rt := range rts {
		m[rt.hex()] = true
	}
	return m
}

func c17SetString(m map[string]bool) string {
	var s []string
	for k := range m {
		s = append(s, k)
	}
	sort.Strings(s)
	return strings.Join(s, ",")
}

// transitive route targets usable in VRF import / export sets
var c17TransRTs = []c17RT{
	{as: 65000, admin: 1}, {as: 65000, admin: 2}, {as: 65000, admin: 3}, {as: 65001, admin: 1}, {four: true, as: 70000, admin: 1},
}

// the same values with the non-transitive type bit: never match an import set (RFC 7153 / property text)
var c17NonTransRTs = []c17RT{
	{as: 65000, admin: 1, nontrans: true}, {as: 65000, admin: 2, nontrans: true},
}

// ---------------------------------------------------------------- routes

const c17Local = "local"

type c17PathKey struct {
	fam bgp.Family
	key string // NLRI text of the VPN route (RD:prefix, or the EVPN route key)
	src string // neighbour address, or "local"
	id  uint32 // path id received from the source
}

type c17Route struct {
	c17PathKey
	rts   []c17RT
	tag   uint32 // unique version number, carried as community 64000:tag
	plain string // vpnv4: the prefix without RD; evpn: same as key
	rd    string
	vrf   string // originated in this VRF (API with VRFID, or a CE announcement); "" otherwise
	label uint32 // expected label for a VRF-originated route
	stale bool   // retained by gobgp after its source went down gracefully (RFC 4724), not yet announced again
	refed bool   // its source had a soft-reset-in without a modifying import policy since: the SAME path object was fed to the table again
	rel   string // API route originated in a VRF: the NLRI text as handed to AddPath (before the RD was put in)
}

func (r *c17Route) hasTransRTIn(set map[string]bool) bool {
	for _, rt := range r.rts {
		if !rt.nontrans && set[rt.hex()] {
			return true
		}
	}
	return false
}

func (r *c17Route) String() string {
	return fmt.Sprintf("%s/%s from %s#%d rts=%s tag=%d", r.fam, r.key, r.src, r.id, c17RTsString(r.rts), r.tag)
}

// ---------------------------------------------------------------- VRFs, memberships

type c17Vrf struct {
	name    string
	rdAdmin uint32 // RD 65000:rdAdmin
	id      uint32
	imp     []c17RT
	exp     []c17RT
	hasCE   bool
	present bool
}

func (v *c17Vrf) rd() bgp.RouteDistinguisherInterface {
	return bgp.NewRouteDistinguisherTwoOctetAS(65000, v.rdAdmin)
}
func (v *c17Vrf) rdString() string { return fmt.Sprintf("65000:%d", v.rdAdmin) }

const c17DefaultRT = "default"

// one RT membership NLRI of one peer: (origin AS, route target, path id)
type c17Member struct {
	as uint32
	rt string // hex of the 8 octets, or "default"
	id uint32
}

// ---------------------------------------------------------------- the relation

type c17Model struct {
	routes map[c17PathKey]*c17Route
	vrfs   map[string]*c17Vrf
}

func c17NewModel() *c17Model {
	return &c17Model{routes: map[c17PathKey]*c17Route{}, vrfs: map[string]*c17Vrf{}}
}

func (m *c17Model) byKey(fam bgp.Family) map[string][]*c17Route {
	out := map[string][]*c17Route{}
	for _, r := range m.routes {
		if r.fam == fam {
			out[r.key] = append(out[r.key], r)
		}
	}
	return out
}

// vrfTable: every VPN route of family fam with >= 1 TRANSITIVE route target in the import set.
func (m *c17Model) vrfTable(v *c17Vrf, fam bgp.Family) []*c17Route {
	imp := c17RTHexSet(v.imp)
	var out []*c17Route
	for _, r := range m.routes {
		if r.fam == fam && r.hasTransRTIn(imp) {
			out = append(out, r)
		}
	}
	return out
}

// interested: does a peer with these accepted memberships want route r (RFC 4684: any target, or the default).
func c17Interested(members map[c17Member]bool, r *c17Route) bool {
	has := map[string]bool{}
	for mb, accepted := range members {
		if accepted {
			has[mb.rt] = true
		}
	}
	if has[c17DefaultRT] {
		return true
	}
	for _, rt := range r.rts {
		if has[rt.hex()] {
			return true
		}
	}
	return false
}

func c17HasRT(members map[c17Member]bool, rt string) bool {
	for mb, accepted := range members {
		if accepted && mb.rt == rt {
			return true
		}
	}
	return false
}

// ---------------------------------------------------------------- NLRI pools

type c17KeySpec struct {
	fam     bgp.Family
	rdAdmin uint32
	prefix  string // vpnv4
	evpn    int    // 0 = not evpn, 3 = inclusive multicast, 2 = mac/ip
	etag    uint32
	ip      string
	mac     string
}

func c17RD(admin uint32) bgp.RouteDistinguisherInterface {
	return bgp.NewRouteDistinguisherTwoOctetAS(65000, admin)
}

func (k c17KeySpec) nlri(label uint32) bgp.NLRI {
	rd := c17RD(k.rdAdmin)
	switch k.evpn {
	case 3:
		n, _ := bgp.NewEVPNMulticastEthernetTagRoute(rd, k.etag, netip.MustParseAddr(k.ip))
		return n
	case 2:
		n, _ := bgp.NewEVPNMacIPAdvertisementRoute(rd, bgp.EthernetSegmentIdentifier{Type: bgp.ESI_ARBITRARY, Value: make([]byte, 9)}, k.etag, k.mac, netip.MustParseAddr(k.ip), []uint32{label})
		return n
	}
	n, _ := bgp.NewLabeledVPNIPAddrPrefix(netip.MustParsePrefix(k.prefix), *bgp.NewMPLSLabelStack(label), rd)
	return n
}

func (k c17KeySpec) plain() string {
	if k.evpn != 0 {
		return k.nlri(0).String()
	}
	return k.prefix
}

func (k c17KeySpec) rdString() string { return fmt.Sprintf("65000:%d", k.rdAdmin) }
