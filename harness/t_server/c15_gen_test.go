package server

// C15 generator: topology, routes, policy programs (P1), policy changes (P1 -> P2 as API calls plus
// the resulting program), reset plan and racing bursts. Everything here is a pure function of the
// case's PRNG; nothing looks at gobgp.

import (
	"fmt"
	"math/rand/v2"
	"net/netip"
	"sort"
	"strings"

	"google.golang.org/protobuf/encoding/prototext"
	"google.golang.org/protobuf/proto"

	"github.com/osrg/gobgp/v4/api"
	"github.com/osrg/gobgp/v4/pkg/packet/bgp"
)

const (
	c15Import = api.PolicyDirection_POLICY_DIRECTION_IMPORT
	c15Export = api.PolicyDirection_POLICY_DIRECTION_EXPORT
	c15Global = "global"
)

// ---------------------------------------------------------------- program model

// c15Prog is a complete policy configuration: what a fresh server gets installed before any route
// arrives. Assignments carry policy names only.
type c15Prog struct {
	Sets []*api.DefinedSet
	Pols []*api.Policy
	Asg  []*api.PolicyAssignment
}

func (p *c15Prog) clone() *c15Prog {
	q := &c15Prog{}
	for _, s := range p.Sets {
		q.Sets = append(q.Sets, proto.Clone(s).(*api.DefinedSet))
	}
	for _, s := range p.Pols {
		q.Pols = append(q.Pols, proto.Clone(s).(*api.Policy))
	}
	for _, s := range p.Asg {
		q.Asg = append(q.Asg, proto.Clone(s).(*api.PolicyAssignment))
	}
	return q
}

func (p *c15Prog) set(name string) *api.DefinedSet {
	for _, s := range p.Sets {
		if s.Name == name {
			return s
		}
	}
	return nil
}

func (p *c15Prog) pol(name string) *api.Policy {
	for _, s := range p.Pols {
		if s.Name == name {
			return s
		}
	}
	return nil
}

func (p *c15Prog) asg(target string, dir api.PolicyDirection) *api.PolicyAssignment {
	for _, a := range p.Asg {
		if a.Name == target && a.Direction == dir {
			return a
		}
	}
	return nil
}

func c15Text(m proto.Message) string {
	return prototext.MarshalOptions{Multiline: false}.Format(m)
}

func (p *c15Prog) describe() map[string]any {
	var sets, pols, asg []string
	for _, s := range p.Sets {
		sets = append(sets, c15Text(s))
	}
	for _, s := range p.Pols {
		pols = append(pols, c15Text(s))
	}
	for _, s := range p.Asg {
		asg = append(asg, c15Text(s))
	}
	return map[string]any{"defined_sets": sets, "policies": pols, "assignments": asg}
}

// c15Call is one management API call of a policy change (executed on run A only).
type c15Call struct {
	Desc string
	Do   func(s *BgpServer) error
}

type c15Change struct {
	Kind     string // assign-set, assign-add, assign-del, default-flip, defset-add, defset-del, defset-replace, policy-add-stmt, policy-del-stmt
	Dir      api.PolicyDirection
	Target   string // assignment the change was aimed at
	Affected string // "all" or the one neighbour address whose routes can be evaluated differently
	Calls    []c15Call
	// inverse builds (and applies to program p, which must be the program this change produced) the
	// change that takes the touched object back: used by the multi-round histories to relax and
	// tighten the same object in turn. round makes new statement names unique.
	inverse func(p *c15Prog, round int) *c15Change
}

func c15DirName(d api.PolicyDirection) string {
	if d == c15Import {
		return "import"
	}
	return "export"
}

// ---------------------------------------------------------------- case

type c15Ann struct {
	Spk  int
	W    bool // withdraw
	Spec simRouteSpec
	RD   uint32   // != 0: VPNv4 route under RD 65000:<RD> (sent by a PE speaker)
	RTs  []uint32 // route targets 65000:<n> of a VPNv4 route
}

type c15Vrf struct {
	Name     string
	RD       uint32 // 65000:<RD>
	Imp, Exp []uint32
}

func (c *c15Case) peerFams(i int) []bgp.Family {
	if c.famOv != nil {
		return c.famOv[i]
	}
	return c.peers[i].families()
}

func (a c15Ann) String() string {
	if a.W {
		return fmt.Sprintf("spk%d W %s", a.Spk, a.Spec.Prefix)
	}
	cs := make([]string, 0, len(a.Spec.Comms))
	for _, c := range a.Spec.Comms {
		cs = append(cs, fmt.Sprintf("%d:%d", c>>16, c&0xffff))
	}
	med, lp := "-", "-"
	if a.Spec.MED != nil {
		med = fmt.Sprint(*a.Spec.MED)
	}
	if a.Spec.LocalPref != nil {
		lp = fmt.Sprint(*a.Spec.LocalPref)
	}
	vpn := ""
	if a.RD != 0 {
		vpn = fmt.Sprintf(" rd=65000:%d rt=%v", a.RD, a.RTs)
	}
	return fmt.Sprintf("spk%d A %s%s as%v med=%s lp=%s o=%d comm=%v nh=%s", a.Spk, a.Spec.Prefix, vpn, a.Spec.ASPath, med, lp, a.Spec.Origin, cs, a.Spec.Nexthop)
}

type c15Reset struct {
	Kind   string // soft-in, soft-out, soft-both, route-refresh
	Target string // "all" or one address
}

type c15Case struct {
	idx     int
	r       *rand.Rand
	global  *api.Global
	peers   []simPeerSpec
	pool4   []string
	pool6   []string
	routes  []c15Ann // initial announcements, global order
	p1, p2  *c15Prog
	changes []*c15Change
	reset   c15Reset
	racing  int              // 0 none, 1 route changes race the reset, 2 route changes race policy change + reset
	bursts  map[int][]c15Ann // per speaker, in sending order
	final   []c15Ann         // what run B is fed with
	hasRS   bool
	hasNon  bool
	always  bool // always-compare-med
	wantRR  bool // the reset is a ROUTE-REFRESH (export change only)
	guards  map[string]string // policy name -> neighbour address its statements are guarded by
	vrfs    []c15Vrf          // VRF topology (c15_vrf_test.go): created before the peers
	famOv   [][]bgp.Family    // per peer: address families of the session when not the plain IPv4(+IPv6) ones
	apTarget int              // index of the one ADD-PATH-send neighbour (send-max 4 >= number of sources), -1 = none
	stmtSeq int               // makes the names of statements added by changes unique
	hist    bool              // multi-round history: the base only (no change, no reset, no racing)
}

func (c *c15Case) isRS(i int) bool { return c.peers[i].Kind == simRSClient }

func (c *c15Case) peerIdx(addr string) int {
	for i, p := range c.peers {
		if p.Addr == addr {
			return i
		}
	}
	return -1
}

var c15TailAS = []uint32{64512, 64513, 64514, 64515, 4200000001}
var c15Comms = []uint32{65000<<16 | 1, 65000<<16 | 2, 65000<<16 | 3, 65001<<16 | 1, 65001<<16 | 2, 64512<<16 | 100, 666}

func c15CommStr(c uint32) string { return fmt.Sprintf("%d:%d", c>>16, c&0xffff) }

func c15GenCase(idx int, r *rand.Rand) *c15Case { return c15GenCaseMode(idx, r, false) }

// c15GenCaseMode: hist = only the base of a multi-round history (topology, routes, program P1).
func c15GenCaseMode(idx int, r *rand.Rand, hist bool) *c15Case {
	c := &c15Case{idx: idx, r: r, guards: map[string]string{}, bursts: map[int][]c15Ann{}, hist: hist, apTarget: -1}
	// ---- topology
	np := 2 + r.IntN(3)
	topo := r.IntN(10) // 0-5 plain, 6-8 route server, 9 mixed
	ibgpUsed := false
	for i := 0; i < np; i++ {
		ps := simPeerSpec{Addr: fmt.Sprintf("10.0.0.%d", 2+i), ID: fmt.Sprintf("%d.%d.%d.%d", 2+i, 2+i, 2+i, 2+i), V6: r.IntN(10) < 7}
		rs := topo >= 6 && topo <= 8 || topo == 9 && np == 4 && i >= 2
		switch {
		case rs:
			ps.Kind, ps.AS = simRSClient, uint32(65101+i)
			c.hasRS = true
		case !ibgpUsed && r.IntN(5) == 0:
			ps.Kind, ps.AS = simIBGP, simLocalAS
			ibgpUsed = true
			c.hasNon = true
		default:
			ps.Kind, ps.AS = simEBGP, uint32(65001+i)
			c.hasNon = true
		}
		fams := ps.families()
		as := ps.AS
		ps.SpeakerMod = func(sc *simSpeakerConf) {
			var caps []bgp.ParameterCapabilityInterface
			for _, f := range fams {
				caps = append(caps, bgp.NewCapMultiProtocol(f))
			}
			caps = append(caps, bgp.NewCapFourOctetASNumber(as), bgp.NewCapRouteRefresh())
			sc.Caps = caps
		}
		c.peers = append(c.peers, ps)
	}
	if hist && r.IntN(2) == 0 {
		// One ordinary eBGP neighbour gets every path, not only the best one: ADD-PATH send with
		// send-max 4 (never fewer than the sources, so no path is held back by the send-max
		// bookkeeping) and the speaker announcing ADD-PATH receive. A policy change can then reject
		// some paths of a prefix and keep others: the reset has to withdraw exactly those.
		var el []int
		for i, ps := range c.peers {
			if ps.Kind == simEBGP {
				el = append(el, i)
			}
		}
		if len(el) > 0 {
			i := el[r.IntN(len(el))]
			c.apTarget = i
			c.peers[i].SendMax = 4
			fams := c.peers[i].families()
			inner := c.peers[i].SpeakerMod
			c.peers[i].SpeakerMod = func(sc *simSpeakerConf) {
				inner(sc)
				var tuples []*bgp.CapAddPathTuple
				for _, f := range fams {
					tuples = append(tuples, bgp.NewCapAddPathTuple(f, bgp.BGP_ADD_PATH_RECEIVE))
				}
				sc.Caps = append(sc.Caps, bgp.NewCapAddPath(tuples))
			}
		}
	}
	c.always = r.IntN(5) == 0
	c.global = &api.Global{Asn: simLocalAS, RouterId: "1.1.1.1", RouteSelectionOptions: &api.RouteSelectionOptionsConfig{
		AlwaysCompareMed: c.always, ExternalCompareRouterId: r.IntN(4) == 0}}

	// ---- prefix pools and routes
	n4 := 12 + r.IntN(40)
	seen := map[string]bool{}
	for len(c.pool4) < n4 {
		var a [4]byte
		switch r.IntN(3) {
		case 0:
			a = [4]byte{10, byte(r.IntN(4)), byte(r.IntN(8)), byte(r.IntN(2) * 128)}
		case 1:
			a = [4]byte{172, byte(16 + r.IntN(2)), byte(r.IntN(8)), 0}
		default:
			a = [4]byte{192, 0, 2, byte(r.IntN(8) * 32)}
		}
		l := []int{8, 12, 16, 20, 22, 24, 24, 24, 25, 27, 28, 32}[r.IntN(12)]
		p := netip.PrefixFrom(netip.AddrFrom4(a), l).Masked().String()
		if !seen[p] {
			seen[p] = true
			c.pool4 = append(c.pool4, p)
		}
	}
	n6 := 4 + r.IntN(10)
	for len(c.pool6) < n6 {
		l := []int{32, 40, 48, 48, 56, 64, 64}[r.IntN(7)]
		a := netip.MustParseAddr(fmt.Sprintf("2001:db8:%x:%x::", r.IntN(6), r.IntN(3)*0x100))
		p := netip.PrefixFrom(a, l).Masked().String()
		if !seen[p] {
			seen[p] = true
			c.pool6 = append(c.pool6, p)
		}
	}
	total := 20 + r.IntN(90)
	if r.IntN(4) == 0 {
		total = 110 + r.IntN(91)
	}
	type sk struct {
		s int
		p string
	}
	used := map[sk]bool{}
	for tries := 0; len(c.routes) < total && tries < total*20; tries++ {
		s := r.IntN(np)
		pfx := c.pickPrefix(s)
		if used[sk{s, pfx}] {
			continue
		}
		used[sk{s, pfx}] = true
		c.routes = append(c.routes, c15Ann{Spk: s, Spec: c.routeSpec(s, pfx)})
	}

	if hist {
		c.genProgram()
		c.p2 = c.p1
		c.computeFinal()
		return c
	}

	// ---- reset by ROUTE-REFRESH? racing? (decided before the program: both shape it)
	c.wantRR = r.IntN(100) < 18
	racingPct := 25
	if c.wantRR {
		racingPct = 50 // the refresh is the one reset that runs truly concurrently with other peers' updates
	}
	if k := r.IntN(100); k < racingPct {
		c.racing = 1
		if k < racingPct*2/5 {
			c.racing = 2
		}
	}

	// ---- policy program P1, change(s), reset
	c.genProgram()
	c.genChangeAndReset()
	if c.racing != 0 {
		c.genBursts()
	}
	c.computeFinal()
	return c
}

func (c *c15Case) pickPrefix(s int) string {
	if c.peers[s].V6 && c.r.IntN(4) == 0 {
		return c.pool6[c.r.IntN(len(c.pool6))]
	}
	return c.pool4[c.r.IntN(len(c.pool4))]
}

// routeSpec draws attributes the policies discriminate on. The first AS of every path is unique
// per speaker (the eBGP speaker's own AS; 6460x for the iBGP speaker), so MED is never compared
// between different sources unless always-compare-med is on: the decision is a total order and the
// Loc-RIB does not depend on arrival order.
func (c *c15Case) routeSpec(s int, prefix string) simRouteSpec {
	r := c.r
	ps := c.peers[s]
	rs := simRouteSpec{Prefix: prefix, Origin: uint8(r.IntN(3))}
	if ps.Kind == simIBGP {
		rs.ASPath = []uint32{uint32(64600 + s)}
		if r.IntN(3) == 0 {
			rs.LocalPref = simPickU32(r, 50, 100, 200)
		}
	}
	for k := r.IntN(4); k > 0; k-- {
		rs.ASPath = append(rs.ASPath, c15TailAS[r.IntN(len(c15TailAS))])
	}
	if r.IntN(12) == 0 {
		// a path through another peer's AS: loop towards that peer
		q := c.peers[r.IntN(len(c.peers))]
		// (never a loop towards the ADD-PATH target: the bookkeeping of looped versions is C01's)
		if q.AS != ps.AS && q.AS != simLocalAS && !(c.apTarget >= 0 && q.AS == c.peers[c.apTarget].AS) {
			rs.ASPath = append(rs.ASPath, q.AS)
		}
	}
	if r.IntN(2) == 0 {
		rs.MED = simPickU32(r, 0, 10, 50, 100)
	}
	for k := r.IntN(4); k > 0; k-- {
		cm := c15Comms[r.IntN(len(c15Comms))]
		dup := false
		for _, x := range rs.Comms {
			dup = dup || x == cm
		}
		if !dup {
			rs.Comms = append(rs.Comms, cm)
		}
	}
	if strings.Contains(prefix, ".") && r.IntN(5) == 0 {
		rs.Nexthop = []string{"10.0.0.200", "192.0.2.1"}[r.IntN(2)]
	}
	return rs
}

// ---------------------------------------------------------------- defined sets

func (c *c15Case) genPrefixEntries(v6 bool, n int) []*api.Prefix {
	r := c.r
	var out []*api.Prefix
	for len(out) < n {
		var p *api.Prefix
		if !v6 {
			switch r.IntN(5) {
			case 0:
				lo := uint32(8 + r.IntN(17))
				p = &api.Prefix{IpPrefix: []string{"10.0.0.0/8", "172.16.0.0/12", "192.0.2.0/24", "10.0.0.0/14"}[r.IntN(4)], MaskLengthMin: lo, MaskLengthMax: lo + uint32(r.IntN(int(33-lo)))}
				if bits := uint32(netip.MustParsePrefix(p.IpPrefix).Bits()); p.MaskLengthMin < bits {
					p.MaskLengthMin = bits
					if p.MaskLengthMax < bits {
						p.MaskLengthMax = bits
					}
				}
			case 1:
				lo := uint32(r.IntN(26))
				p = &api.Prefix{IpPrefix: "0.0.0.0/0", MaskLengthMin: lo, MaskLengthMax: lo + uint32(r.IntN(int(33-lo)))}
			default:
				pp := netip.MustParsePrefix(c.pool4[r.IntN(len(c.pool4))])
				lo := uint32(pp.Bits())
				hi := lo
				if r.IntN(2) == 0 {
					hi = lo + uint32(r.IntN(int(33-lo)))
				}
				p = &api.Prefix{IpPrefix: pp.String(), MaskLengthMin: lo, MaskLengthMax: hi}
			}
		} else {
			switch r.IntN(3) {
			case 0:
				lo := uint32(32 + r.IntN(30))
				p = &api.Prefix{IpPrefix: "2001:db8::/32", MaskLengthMin: lo, MaskLengthMax: lo + uint32(r.IntN(int(65-lo)))}
			default:
				pp := netip.MustParsePrefix(c.pool6[r.IntN(len(c.pool6))])
				lo := uint32(pp.Bits())
				hi := lo
				if r.IntN(2) == 0 {
					hi = lo + uint32(r.IntN(int(65-lo)))
				}
				p = &api.Prefix{IpPrefix: pp.String(), MaskLengthMin: lo, MaskLengthMax: hi}
			}
		}
		dup := false
		for _, q := range out {
			dup = dup || proto.Equal(p, q)
		}
		if !dup {
			out = append(out, p)
		}
	}
	return out
}

func (c *c15Case) genListEntries(typ api.DefinedType, n int) []string {
	r := c.r
	var cand []string
	switch typ {
	case api.DefinedType_DEFINED_TYPE_AS_PATH:
		for _, p := range c.peers {
			first := p.AS
			if p.Kind == simIBGP {
				first = uint32(64600 + c.peerIdx(p.Addr))
			}
			cand = append(cand, fmt.Sprintf("^%d_", first), fmt.Sprintf("^%d$", first))
		}
		for _, a := range c15TailAS {
			cand = append(cand, fmt.Sprintf("_%d$", a), fmt.Sprintf("_%d_", a))
		}
		cand = append(cand, "6451[2-3]", "_(64512|64514)_", "^[0-9]+_64513", "_64514_64512_", "^6[0-9]+$", "4200000001$")
	case api.DefinedType_DEFINED_TYPE_COMMUNITY:
		for _, cm := range c15Comms {
			cand = append(cand, c15CommStr(cm))
		}
		// (no member that gobgp canonicalises to the same pattern as another one, e.g. "0:666" and
		// "^0:666$": removing one would remove both)
		cand = append(cand, "^65000:.*$", "^6500[01]:[12]$", "^0:66.$", "^64512:1..$", "65001:", ":1$")
	case api.DefinedType_DEFINED_TYPE_NEIGHBOR:
		for _, p := range c.peers {
			if p.Kind != simRSClient {
				cand = append(cand, p.Addr+"/32")
			}
		}
	}
	if n > len(cand) {
		n = len(cand)
	}
	perm := r.Perm(len(cand))
	var out []string
	for i := 0; i < n; i++ {
		out = append(out, cand[perm[i]])
	}
	return out
}

func (c *c15Case) genSet(typ api.DefinedType, name string, v6 bool) *api.DefinedSet {
	s := &api.DefinedSet{DefinedType: typ, Name: name}
	n := 1 + c.r.IntN(3)
	if typ == api.DefinedType_DEFINED_TYPE_PREFIX {
		s.Prefixes = c.genPrefixEntries(v6, n)
	} else {
		s.List = c.genListEntries(typ, n)
	}
	return s
}

// ---------------------------------------------------------------- statements and policies

type c15StmtCtx struct {
	dir   api.PolicyDirection
	guard string // neighbour-set name every statement must be guarded by ("" = none)
	rs    bool   // policy for route-server clients: no neighbour conditions
}

// noRewriteSensitive: in racing cases the export policies for ordinary (non route-server) peers do
// not test AS_PATH. Reason: when a new best path is rejected on export, gobgp decides whether the old
// one must be withdrawn by evaluating the export policy on the old path WITHOUT the per-peer
// attribute rewriting it was advertised with (filterpath: AS prepend, next hop); an AS_PATH condition
// then gives the wrong answer and the peer keeps a stale route. That defect of plain incremental
// updates (found by the non-racing cases, key c15:soft-in:wire:stale-route-not-withdrawn) would
// otherwise show up in every racing case as an unspecific wire difference.
func (c *c15Case) noRewriteSensitive(ctx c15StmtCtx) bool {
	return c.racing != 0 && ctx.dir == c15Export && !ctx.rs
}

func c15Sfx(d api.PolicyDirection) string {
	if d == c15Import {
		return "i"
	}
	return "e"
}

func (c *c15Case) genStmt(name string, ctx c15StmtCtx) *api.Statement {
	r := c.r
	d := c15Sfx(ctx.dir)
	cond := &api.Conditions{}
	act := &api.Actions{}
	v4only := false
	rt := func(any bool) api.MatchSet_Type {
		k := r.IntN(10)
		switch {
		case k < 6:
			return api.MatchSet_TYPE_ANY
		case k < 8 && any:
			return api.MatchSet_TYPE_ALL
		default:
			return api.MatchSet_TYPE_INVERT
		}
	}
	nc := []int{0, 1, 1, 1, 1, 2, 2}[r.IntN(7)]
	for _, k := range r.Perm(6)[:nc] {
		switch k {
		case 0:
			if r.IntN(4) == 0 {
				cond.PrefixSet = &api.MatchSet{Type: rt(false), Name: "ps6" + d}
			} else {
				cond.PrefixSet = &api.MatchSet{Type: rt(false), Name: "ps4" + d}
				v4only = cond.PrefixSet.Type == api.MatchSet_TYPE_ANY
			}
		case 1:
			if c.noRewriteSensitive(ctx) {
				cond.CommunitySet = &api.MatchSet{Type: rt(true), Name: fmt.Sprintf("cs%s%d", d, 1+r.IntN(2))}
				break
			}
			cond.AsPathSet = &api.MatchSet{Type: rt(true), Name: fmt.Sprintf("as%s%d", d, 1+r.IntN(2))}
		case 2:
			cond.CommunitySet = &api.MatchSet{Type: rt(true), Name: fmt.Sprintf("cs%s%d", d, 1+r.IntN(2))}
		case 3:
			if c.noRewriteSensitive(ctx) {
				cond.CommunityCount = &api.CommunityCount{Type: api.Comparison(1 + r.IntN(3)), Count: uint32(r.IntN(3))}
				break
			}
			cond.AsPathLength = &api.AsPathLength{Type: api.Comparison(1 + r.IntN(3)), Length: uint32(1 + r.IntN(4))}
		case 4:
			cond.CommunityCount = &api.CommunityCount{Type: api.Comparison(1 + r.IntN(3)), Count: uint32(r.IntN(3))}
		case 5:
			if !ctx.rs && ctx.guard == "" && c.hasNon {
				cond.NeighborSet = &api.MatchSet{Type: rt(false), Name: "ns" + d}
			}
		}
	}
	if ctx.guard != "" {
		cond.NeighborSet = &api.MatchSet{Type: api.MatchSet_TYPE_ANY, Name: ctx.guard}
	}
	switch k := r.IntN(10); {
	case k < 5:
		act.RouteAction = api.RouteAction_ROUTE_ACTION_ACCEPT
	case k < 8:
		act.RouteAction = api.RouteAction_ROUTE_ACTION_REJECT
	}
	if act.RouteAction != api.RouteAction_ROUTE_ACTION_REJECT {
		na := 1 + r.IntN(2)
		if act.RouteAction == api.RouteAction_ROUTE_ACTION_ACCEPT && r.IntN(4) == 0 {
			na = 0
		}
		for _, k := range r.Perm(5)[:na] {
			switch k {
			case 0:
				ca := &api.CommunityAction{Type: api.CommunityAction_Type(1 + r.IntN(3))}
				switch ca.Type {
				case api.CommunityAction_TYPE_REMOVE:
					ca.Communities = []string{[]string{"65000:1", "^65000:.*$", "65001:2", "^6500[01]:1$"}[r.IntN(4)]}
				default:
					ca.Communities = []string{fmt.Sprintf("65010:%d", 1+r.IntN(3))}
					if r.IntN(3) == 0 {
						ca.Communities = append(ca.Communities, "65000:2")
					}
				}
				act.Community = ca
			case 1:
				if r.IntN(2) == 0 {
					act.Med = &api.MedAction{Type: api.MedAction_TYPE_REPLACE, Value: int64([]int{0, 5, 70, 200}[r.IntN(4)])}
				} else {
					act.Med = &api.MedAction{Type: api.MedAction_TYPE_MOD, Value: int64([]int{10, 40, -5, -60}[r.IntN(4)])}
				}
			case 2:
				act.LocalPref = &api.LocalPrefAction{Value: []uint32{50, 150, 300}[r.IntN(3)]}
			case 3:
				// on import a fixed ASN would make the first AS of two sources equal (MED becomes
				// comparable between some pairs only -> arrival-order dependent best path)
				if ctx.dir == c15Export || c.always {
					if r.IntN(2) == 0 {
						act.AsPrepend = &api.AsPrependAction{Asn: []uint32{65055, 64512, 4200000009}[r.IntN(3)], Repeat: uint32(1 + r.IntN(3))}
						break
					}
				}
				act.AsPrepend = &api.AsPrependAction{UseLeftMost: true, Repeat: uint32(1 + r.IntN(3))}
			case 4:
				if v4only {
					act.Nexthop = &api.NexthopAction{Address: []string{"192.0.2.77", "10.0.0.99"}[r.IntN(2)]}
					if ctx.dir == c15Export && r.IntN(3) == 0 {
						act.Nexthop = &api.NexthopAction{Self: true}
					}
				}
			}
		}
	}
	return &api.Statement{Name: name, Conditions: cond, Actions: act}
}

func (c *c15Case) genPolicy(name string, ctx c15StmtCtx) *api.Policy {
	p := &api.Policy{Name: name}
	for j, n := 0, []int{1, 2, 2, 3}[c.r.IntN(4)]; j < n; j++ {
		p.Statements = append(p.Statements, c.genStmt(fmt.Sprintf("%s_s%d", name, j), ctx))
	}
	return p
}

// pool returns the names of the policies that may be assigned for (target, dir).
func (c *c15Case) pool(target string, dir api.PolicyDirection) []string {
	d := c15Sfx(dir)
	if target == c15Global {
		out := []string{"p" + d + "1", "p" + d + "2", "p" + d + "3", "p" + d + "4"}
		for n := range c.guards {
			if strings.HasPrefix(n, "g"+d) {
				out = append(out, n)
			}
		}
		sort.Strings(out)
		return out
	}
	return []string{"r" + d + "1", "r" + d + "2", "r" + d + "3", "r" + d + "4"}
}

func (c *c15Case) targets() []string {
	var out []string
	if c.hasNon {
		out = append(out, c15Global)
	}
	for _, p := range c.peers {
		if p.Kind == simRSClient {
			out = append(out, p.Addr)
		}
	}
	return out
}

func (c *c15Case) genProgram() {
	r := c.r
	p := &c15Prog{}
	var nonRS []simPeerSpec
	for _, ps := range c.peers {
		if ps.Kind != simRSClient {
			nonRS = append(nonRS, ps)
		}
	}
	for _, dir := range []api.PolicyDirection{c15Import, c15Export} {
		d := c15Sfx(dir)
		p.Sets = append(p.Sets,
			c.genSet(api.DefinedType_DEFINED_TYPE_PREFIX, "ps4"+d, false),
			c.genSet(api.DefinedType_DEFINED_TYPE_PREFIX, "ps6"+d, true),
			c.genSet(api.DefinedType_DEFINED_TYPE_AS_PATH, "as"+d+"1", false),
			c.genSet(api.DefinedType_DEFINED_TYPE_AS_PATH, "as"+d+"2", false),
			c.genSet(api.DefinedType_DEFINED_TYPE_COMMUNITY, "cs"+d+"1", false),
			c.genSet(api.DefinedType_DEFINED_TYPE_COMMUNITY, "cs"+d+"2", false))
		if c.hasNon {
			p.Sets = append(p.Sets, c.genSet(api.DefinedType_DEFINED_TYPE_NEIGHBOR, "ns"+d, false))
		}
	}
	for i, ps := range nonRS {
		p.Sets = append(p.Sets, &api.DefinedSet{DefinedType: api.DefinedType_DEFINED_TYPE_NEIGHBOR, Name: fmt.Sprintf("ng%d", i), List: []string{ps.Addr + "/32"}})
	}
	for _, dir := range []api.PolicyDirection{c15Import, c15Export} {
		d := c15Sfx(dir)
		if c.hasNon {
			for j := 1; j <= 4; j++ {
				p.Pols = append(p.Pols, c.genPolicy(fmt.Sprintf("p%s%d", d, j), c15StmtCtx{dir: dir}))
			}
			// policies whose statements are all guarded by one neighbour: changes confined to that peer
			gp := r.IntN(len(nonRS))
			for j := 1; j <= 3; j++ {
				if j == 3 {
					gp = r.IntN(len(nonRS))
				}
				name := fmt.Sprintf("g%s%d", d, j)
				c.guards[name] = nonRS[gp].Addr
				p.Pols = append(p.Pols, c.genPolicy(name, c15StmtCtx{dir: dir, guard: fmt.Sprintf("ng%d", gp)}))
			}
		}
		if c.hasRS {
			for j := 1; j <= 4; j++ {
				p.Pols = append(p.Pols, c.genPolicy(fmt.Sprintf("r%s%d", d, j), c15StmtCtx{dir: dir, rs: true}))
			}
		}
	}
	for _, t := range c.targets() {
		for _, dir := range []api.PolicyDirection{c15Import, c15Export} {
			a := &api.PolicyAssignment{Name: t, Direction: dir, DefaultAction: api.RouteAction_ROUTE_ACTION_ACCEPT}
			if r.IntN(4) == 0 {
				a.DefaultAction = api.RouteAction_ROUTE_ACTION_REJECT
			}
			pool := c.pool(t, dir)
			n := r.IntN(4)
			if t != c15Global {
				n = r.IntN(3)
			}
			for _, k := range r.Perm(len(pool))[:n] {
				a.Policies = append(a.Policies, &api.Policy{Name: pool[k]})
			}
			p.Asg = append(p.Asg, a)
		}
	}
	c.p1 = p
}

// ---------------------------------------------------------------- changes

func c15Names(ps []*api.Policy) []string {
	var out []string
	for _, p := range ps {
		out = append(out, p.Name)
	}
	return out
}

func c15PolRefs(names []string) []*api.Policy {
	var out []*api.Policy
	for _, n := range names {
		out = append(out, &api.Policy{Name: n})
	}
	return out
}

// guardOf: address the policy is confined to, "" when it can touch any peer's routes.
func (c *c15Case) guardOf(pol string) string { return c.guards[pol] }

func c15Union(a, b string) string {
	switch {
	case a == "none":
		return b
	case b == "none":
		return a
	case a == b:
		return a
	}
	return "all"
}

// affectedByPolicies: whose routes may be evaluated differently when these policies change
// position / presence / content in the GLOBAL assignment.
func (c *c15Case) affectedByPolicies(target string, pols []string) string {
	if target != c15Global {
		return target
	}
	aff := "none"
	for _, p := range pols {
		g := c.guardOf(p)
		if g == "" {
			return "all"
		}
		aff = c15Union(aff, g)
	}
	if aff == "none" {
		return "all"
	}
	return aff
}

func c15StmtUsesSet(st *api.Statement, set string) bool {
	cd := st.Conditions
	if cd == nil {
		return false
	}
	for _, m := range []*api.MatchSet{cd.PrefixSet, cd.NeighborSet, cd.AsPathSet, cd.CommunitySet} {
		if m != nil && m.Name == set {
			return true
		}
	}
	return false
}

// setsInUse lists defined sets referenced by a policy that is currently assigned in direction dir,
// together with the policies using them.
func (c *c15Case) setsInUse(p *c15Prog, dir api.PolicyDirection) map[string][]string {
	out := map[string][]string{}
	for _, a := range p.Asg {
		if a.Direction != dir {
			continue
		}
		for _, ref := range a.Policies {
			pol := p.pol(ref.Name)
			for _, s := range p.Sets {
				if strings.HasPrefix(s.Name, "ng") {
					continue
				}
				for _, st := range pol.Statements {
					if c15StmtUsesSet(st, s.Name) {
						dup := false
						for _, x := range out[s.Name] {
							dup = dup || x == pol.Name
						}
						if !dup {
							out[s.Name] = append(out[s.Name], pol.Name)
						}
						break
					}
				}
			}
		}
	}
	return out
}

// ---------------------------------------------------------------- change constructors
// Each constructor mutates program p into the next program, records the management API call(s)
// that do the same to a live server, and knows its own inverse.

func (c *c15Case) mkAssignSet(p *c15Prog, kind, target string, dir api.PolicyDirection, names []string, def api.RouteAction, aff string) *c15Change {
	a := p.asg(target, dir)
	oldNames, oldDef := c15Names(a.Policies), a.DefaultAction
	ch := &c15Change{Kind: kind, Dir: dir, Target: target, Affected: aff}
	req := &api.SetPolicyAssignmentRequest{Assignment: &api.PolicyAssignment{Name: target, Direction: dir, Policies: c15PolRefs(names), DefaultAction: def}}
	ch.Calls = []c15Call{{Desc: "SetPolicyAssignment " + c15Text(req), Do: func(s *BgpServer) error { return s.SetPolicyAssignment(c15Ctx, req) }}}
	a.Policies, a.DefaultAction = c15PolRefs(names), def
	ch.inverse = func(q *c15Prog, round int) *c15Change {
		return c.mkAssignSet(q, kind, target, dir, oldNames, oldDef, aff)
	}
	return ch
}

func (c *c15Case) mkAssignAdd(p *c15Prog, target string, dir api.PolicyDirection, add, aff string) *c15Change {
	a := p.asg(target, dir)
	ch := &c15Change{Kind: "assign-add", Dir: dir, Target: target, Affected: aff}
	req := &api.AddPolicyAssignmentRequest{Assignment: &api.PolicyAssignment{Name: target, Direction: dir, Policies: c15PolRefs([]string{add})}}
	ch.Calls = []c15Call{{Desc: "AddPolicyAssignment " + c15Text(req), Do: func(s *BgpServer) error { return s.AddPolicyAssignment(c15Ctx, req) }}}
	a.Policies = append(a.Policies, &api.Policy{Name: add})
	ch.inverse = func(q *c15Prog, round int) *c15Change { return c.mkAssignDel(q, target, dir, add, aff) }
	return ch
}

func (c *c15Case) mkAssignDel(p *c15Prog, target string, dir api.PolicyDirection, del, aff string) *c15Change {
	a := p.asg(target, dir)
	ch := &c15Change{Kind: "assign-del", Dir: dir, Target: target, Affected: aff}
	req := &api.DeletePolicyAssignmentRequest{Assignment: &api.PolicyAssignment{Name: target, Direction: dir, Policies: c15PolRefs([]string{del})}}
	ch.Calls = []c15Call{{Desc: "DeletePolicyAssignment " + c15Text(req), Do: func(s *BgpServer) error { return s.DeletePolicyAssignment(c15Ctx, req) }}}
	var nw []*api.Policy
	for _, x := range a.Policies {
		if x.Name != del {
			nw = append(nw, x)
		}
	}
	a.Policies = nw
	// (the inverse appends: the policy comes back at the end of the list)
	ch.inverse = func(q *c15Prog, round int) *c15Change { return c.mkAssignAdd(q, target, dir, del, aff) }
	return ch
}

func (c *c15Case) mkSetAdd(p *c15Prog, dir api.PolicyDirection, nw *api.DefinedSet, aff string) *c15Change {
	set := p.set(nw.Name)
	ch := &c15Change{Kind: "defset-add", Dir: dir, Target: "set:" + nw.Name, Affected: aff}
	req := &api.AddDefinedSetRequest{DefinedSet: proto.Clone(nw).(*api.DefinedSet)}
	ch.Calls = []c15Call{{Desc: "AddDefinedSet " + c15Text(req), Do: func(s *BgpServer) error { return s.AddDefinedSet(c15Ctx, req) }}}
	set.List = append(set.List, nw.List...)
	set.Prefixes = append(set.Prefixes, nw.Prefixes...)
	ch.inverse = func(q *c15Prog, round int) *c15Change { return c.mkSetDel(q, dir, nw, aff) }
	return ch
}

func (c *c15Case) mkSetDel(p *c15Prog, dir api.PolicyDirection, rm *api.DefinedSet, aff string) *c15Change {
	set := p.set(rm.Name)
	ch := &c15Change{Kind: "defset-del", Dir: dir, Target: "set:" + rm.Name, Affected: aff}
	req := &api.DeleteDefinedSetRequest{DefinedSet: proto.Clone(rm).(*api.DefinedSet)}
	ch.Calls = []c15Call{{Desc: "DeleteDefinedSet " + c15Text(req), Do: func(s *BgpServer) error { return s.DeleteDefinedSet(c15Ctx, req) }}}
	var list []string
	for _, x := range set.List {
		gone := false
		for _, y := range rm.List {
			gone = gone || x == y
		}
		if !gone {
			list = append(list, x)
		}
	}
	var pfx []*api.Prefix
	for _, x := range set.Prefixes {
		gone := false
		for _, y := range rm.Prefixes {
			gone = gone || proto.Equal(x, y)
		}
		if !gone {
			pfx = append(pfx, x)
		}
	}
	set.List, set.Prefixes = list, pfx
	ch.inverse = func(q *c15Prog, round int) *c15Change { return c.mkSetAdd(q, dir, rm, aff) }
	return ch
}

func (c *c15Case) mkSetReplace(p *c15Prog, dir api.PolicyDirection, nw *api.DefinedSet, aff string) *c15Change {
	set := p.set(nw.Name)
	old := proto.Clone(set).(*api.DefinedSet)
	ch := &c15Change{Kind: "defset-replace", Dir: dir, Target: "set:" + nw.Name, Affected: aff}
	req := &api.AddDefinedSetRequest{DefinedSet: proto.Clone(nw).(*api.DefinedSet), Replace: true}
	ch.Calls = []c15Call{{Desc: "AddDefinedSet " + c15Text(req), Do: func(s *BgpServer) error { return s.AddDefinedSet(c15Ctx, req) }}}
	set.List, set.Prefixes = nw.List, nw.Prefixes
	ch.inverse = func(q *c15Prog, round int) *c15Change { return c.mkSetReplace(q, dir, old, aff) }
	return ch
}

func (c *c15Case) mkPolAddStmt(p *c15Prog, dir api.PolicyDirection, target, name string, st *api.Statement, aff string) *c15Change {
	pol := p.pol(name)
	ch := &c15Change{Kind: "policy-add-stmt", Dir: dir, Target: target, Affected: aff}
	req := &api.AddPolicyRequest{Policy: &api.Policy{Name: name, Statements: []*api.Statement{proto.Clone(st).(*api.Statement)}}}
	ch.Calls = []c15Call{{Desc: "AddPolicy " + c15Text(req), Do: func(s *BgpServer) error { return s.AddPolicy(c15Ctx, req) }}}
	pol.Statements = append(pol.Statements, st)
	ch.inverse = func(q *c15Prog, round int) *c15Change { return c.mkPolDelStmt(q, dir, target, name, st.Name, aff) }
	return ch
}

func (c *c15Case) mkPolDelStmt(p *c15Prog, dir api.PolicyDirection, target, name, stmt, aff string) *c15Change {
	pol := p.pol(name)
	ch := &c15Change{Kind: "policy-del-stmt", Dir: dir, Target: target, Affected: aff}
	req := &api.DeletePolicyRequest{Policy: &api.Policy{Name: name, Statements: []*api.Statement{{Name: stmt}}}}
	ch.Calls = []c15Call{{Desc: "DeletePolicy " + c15Text(req), Do: func(s *BgpServer) error { return s.DeletePolicy(c15Ctx, req) }}}
	var removed *api.Statement
	var nw []*api.Statement
	for _, x := range pol.Statements {
		if x.Name == stmt {
			removed = x
		} else {
			nw = append(nw, x)
		}
	}
	pol.Statements = nw
	// the inverse appends the statement under a new name (gobgp keeps the removed statement object
	// registered under the old one); it comes back at the end of the policy
	ch.inverse = func(q *c15Prog, round int) *c15Change {
		st := proto.Clone(removed).(*api.Statement)
		st.Name = fmt.Sprintf("%s_r%d", strings.SplitN(removed.Name, "_r", 2)[0], round)
		return c.mkPolAddStmt(q, dir, target, name, st, aff)
	}
	return ch
}

// genChange draws one change of direction dir against program p (mutating p into the next program).
func (c *c15Case) genChange(p *c15Prog, dir api.PolicyDirection) *c15Change {
	r := c.r
	ts := c.targets()
	for tries := 0; tries < 200; tries++ {
		target := ts[r.IntN(len(ts))]
		a := p.asg(target, dir)
		cur := c15Names(a.Policies)
		pool := c.pool(target, dir)
		in := map[string]bool{}
		for _, n := range cur {
			in[n] = true
		}
		switch k := r.IntN(100); {
		case k < 16: // ---- replace the assignment
			n := 1 + r.IntN(3)
			var nw []string
			for _, i := range r.Perm(len(pool))[:n] {
				nw = append(nw, pool[i])
			}
			def := a.DefaultAction
			if r.IntN(4) == 0 {
				def = 3 - def
			}
			if strings.Join(nw, ",") == strings.Join(cur, ",") && def == a.DefaultAction {
				continue
			}
			// peers touched: with the same default and the same sequence of unguarded policies only
			// the guards of the guarded policies that moved, came or went
			aff := "all"
			if target != c15Global {
				aff = target
			} else if def == a.DefaultAction {
				ung := func(l []string) string {
					var o []string
					for _, x := range l {
						if c.guardOf(x) == "" {
							o = append(o, x)
						}
					}
					return strings.Join(o, ",")
				}
				if ung(nw) == ung(cur) {
					var moved []string
					for _, x := range append(append([]string{}, nw...), cur...) {
						if c.guardOf(x) != "" {
							moved = append(moved, x)
						}
					}
					aff = c.affectedByPolicies(target, moved)
				}
			}
			return c.mkAssignSet(p, "assign-set", target, dir, nw, def, aff)
		case k < 30: // ---- add a policy to the assignment (appended)
			var cand []string
			for _, n := range pool {
				if !in[n] {
					cand = append(cand, n)
				}
			}
			if len(cand) == 0 {
				continue
			}
			add := cand[r.IntN(len(cand))]
			return c.mkAssignAdd(p, target, dir, add, c.affectedByPolicies(target, []string{add}))
		case k < 42: // ---- delete a policy from the assignment
			if len(cur) == 0 {
				continue
			}
			del := cur[r.IntN(len(cur))]
			return c.mkAssignDel(p, target, dir, del, c.affectedByPolicies(target, []string{del}))
		case k < 50: // ---- flip the default action
			return c.mkAssignSet(p, "default-flip", target, dir, cur, 3-a.DefaultAction, c.affectedByPolicies(target, nil))
		case k < 78: // ---- edit a defined set that is in use
			use := c.setsInUse(p, dir)
			if len(use) == 0 {
				continue
			}
			var names []string
			for n := range use {
				names = append(names, n)
			}
			sort.Strings(names)
			name := names[r.IntN(len(names))]
			set := p.set(name)
			aff := "none"
			for _, pol := range use[name] {
				if strings.HasPrefix(pol, "r") {
					aff = "all" // shared by the route-server clients' assignments
				} else {
					aff = c15Union(aff, c.affectedByPolicies(c15Global, []string{pol}))
				}
			}
			v6 := strings.HasPrefix(name, "ps6")
			switch kk := r.IntN(3); kk {
			case 0:
				extra := c.genSet(set.DefinedType, name, v6)
				// only members not yet present
				nw := &api.DefinedSet{DefinedType: set.DefinedType, Name: name}
				for _, x := range extra.List {
					dup := false
					for _, y := range set.List {
						dup = dup || x == y
					}
					if !dup {
						nw.List = append(nw.List, x)
					}
				}
				for _, x := range extra.Prefixes {
					dup := false
					for _, y := range set.Prefixes {
						dup = dup || proto.Equal(x, y)
					}
					if !dup {
						nw.Prefixes = append(nw.Prefixes, x)
					}
				}
				if len(nw.List)+len(nw.Prefixes) == 0 {
					continue
				}
				return c.mkSetAdd(p, dir, nw, aff)
			case 1:
				n := len(set.List) + len(set.Prefixes)
				if n < 2 {
					continue
				}
				k := r.IntN(n)
				rm := &api.DefinedSet{DefinedType: set.DefinedType, Name: name}
				if len(set.List) > 0 {
					rm.List = []string{set.List[k]}
				} else {
					rm.Prefixes = []*api.Prefix{set.Prefixes[k]}
				}
				return c.mkSetDel(p, dir, rm, aff)
			default:
				nw := c.genSet(set.DefinedType, name, v6)
				if proto.Equal(nw, set) {
					continue
				}
				return c.mkSetReplace(p, dir, nw, aff)
			}
		case k < 87: // ---- append a statement to a policy that is assigned
			if len(cur) == 0 {
				continue
			}
			name := cur[r.IntN(len(cur))]
			pol := p.pol(name)
			ctx := c15StmtCtx{dir: dir, rs: strings.HasPrefix(name, "r")}
			if g := c.guardOf(name); g != "" {
				ctx.guard = pol.Statements[0].Conditions.NeighborSet.Name
			}
			c.stmtSeq++
			st := c.genStmt(fmt.Sprintf("%s_x%d", name, c.stmtSeq), ctx)
			aff := c.affectedByPolicies(c15Global, []string{name})
			if ctx.rs {
				aff = "all"
			}
			return c.mkPolAddStmt(p, dir, target, name, st, aff)
		default: // ---- remove a statement from a policy that is assigned
			if len(cur) == 0 {
				continue
			}
			name := cur[r.IntN(len(cur))]
			pol := p.pol(name)
			if len(pol.Statements) < 2 {
				continue
			}
			k := r.IntN(len(pol.Statements))
			aff := c.affectedByPolicies(c15Global, []string{name})
			if strings.HasPrefix(name, "r") {
				aff = "all"
			}
			return c.mkPolDelStmt(p, dir, target, name, pol.Statements[k].Name, aff)
		}
	}
	return nil
}

func (c *c15Case) genChangeAndReset() {
	r := c.r
	p2 := c.p1.clone()
	var dirs []api.PolicyDirection
	switch k := r.IntN(10); {
	case c.wantRR:
		dirs = []api.PolicyDirection{c15Export}
	case k < 4:
		dirs = []api.PolicyDirection{c15Import}
	case k < 8:
		dirs = []api.PolicyDirection{c15Export}
	default:
		dirs = []api.PolicyDirection{c15Import, c15Export}
	}
	aff := "none"
	for _, d := range dirs {
		ch := c.genChange(p2, d)
		if ch == nil {
			continue
		}
		c.changes = append(c.changes, ch)
		aff = c15Union(aff, ch.Affected)
	}
	if len(c.changes) == 0 {
		// cannot happen with the pools above; keep the case well-formed anyway
		ch := c.genChange(p2, c15Export)
		c.changes = append(c.changes, ch)
		aff = ch.Affected
	}
	c.p2 = p2
	hasIn, hasOut := false, false
	for _, ch := range c.changes {
		hasIn = hasIn || ch.Dir == c15Import
		hasOut = hasOut || ch.Dir == c15Export
	}
	switch {
	case hasIn && hasOut:
		c.reset.Kind = "soft-both"
	case hasIn:
		c.reset.Kind = "soft-in"
		if r.IntN(7) == 0 {
			c.reset.Kind = "soft-both" // resetting more than needed must be harmless
		}
	default:
		c.reset.Kind = "soft-out"
		switch k := r.IntN(10); {
		case c.wantRR:
			c.reset.Kind = "route-refresh"
		case k < 2:
			c.reset.Kind = "soft-both"
		}
	}
	c.reset.Target = "all"
	if aff != "all" && aff != "none" && r.IntN(10) < 7 {
		c.reset.Target = aff
	}
}

// ---------------------------------------------------------------- racing bursts

func (c *c15Case) genBursts() {
	r := c.r
	have := map[int][]string{}
	for _, a := range c.routes {
		have[a.Spk] = append(have[a.Spk], a.Spec.Prefix)
	}
	ns := 1 + r.IntN(len(c.peers))
	for _, s := range r.Perm(len(c.peers))[:ns] {
		cur := append([]string{}, have[s]...)
		nops := 4 + r.IntN(24)
		if c.wantRR {
			nops = 20 + r.IntN(50)
		}
		for k := nops; k > 0; k-- {
			switch x := r.IntN(10); {
			case x < 3 && len(cur) > 0: // withdraw
				i := r.IntN(len(cur))
				c.bursts[s] = append(c.bursts[s], c15Ann{Spk: s, W: true, Spec: simRouteSpec{Prefix: cur[i]}})
				cur = append(cur[:i], cur[i+1:]...)
			case x < 7 && len(cur) > 0: // replace with other attributes
				pfx := cur[r.IntN(len(cur))]
				c.bursts[s] = append(c.bursts[s], c15Ann{Spk: s, Spec: c.routeSpec(s, pfx)})
			default: // new prefix (or re-announce)
				pfx := c.pickPrefix(s)
				c.bursts[s] = append(c.bursts[s], c15Ann{Spk: s, Spec: c.routeSpec(s, pfx)})
				dup := false
				for _, y := range cur {
					dup = dup || y == pfx
				}
				if !dup {
					cur = append(cur, pfx)
				}
			}
		}
	}
}

// computeFinal: the route set every speaker ends up announcing (its own messages are ordered, so
// this is independent of how the speakers interleave), in an order derived from the sending order.
func (c *c15Case) computeFinal() {
	type sk struct {
		s int
		p string
	}
	cur := map[sk]simRouteSpec{}
	var order []sk
	apply := func(a c15Ann) {
		k := sk{a.Spk, a.Spec.Prefix}
		if a.W {
			delete(cur, k)
			return
		}
		if _, ok := cur[k]; !ok {
			order = append(order, k)
		}
		cur[k] = a.Spec
	}
	for _, a := range c.routes {
		apply(a)
	}
	var spks []int
	for s := range c.bursts {
		spks = append(spks, s)
	}
	sort.Ints(spks)
	for _, s := range spks {
		for _, a := range c.bursts[s] {
			apply(a)
		}
	}
	done := map[sk]bool{}
	for _, k := range order {
		if spec, ok := cur[k]; ok && !done[k] {
			done[k] = true
			c.final = append(c.final, c15Ann{Spk: k.s, Spec: spec})
		}
	}
}
