package server

// C20 — no data race, deadlock or goroutine leak in any interleaving; clean shutdown.
//
// Workload: the C01 traffic generator (several speakers of mixed kinds, flaps, slow readers,
// concurrent bursts) composed with management/API clients that run in their own goroutines:
// peers added/deleted/updated, policies and defined sets edited, VRFs, API paths, soft and hard
// resets, enable/disable/shutdown, watchers added and stopped, list/get readers. Schedules are
// diversified by GOMAXPROCS and by the verifYield hook (lock-free points in gobgp).
// Monitors:
//   * Go race detector (race unit; the driver turns reports with gobgp frames into violations);
//   * lost wake-up / deadlock, decided in virtual time: an API call that has not returned after
//     synctest.Wait() AND after virtual time was advanced past every armed timer can never return;
//     a mutex deadlock keeps the bubble from becoming idle -> driver watchdog (two-strike) + stall dump;
//   * shutdown: after Stop(), every connection gobgp held is closed (each speaker's reader saw EOF)
//     and no gobgp goroutine is left (stack scan before leaving the bubble);
//   * crash: process-fatal -> driver.

import (
	"context"
	"fmt"
	"math/rand/v2"
	"os"
	"runtime"
	"sort"
	"strings"
	"sync"
	"sync/atomic"
	"testing"
	"testing/synctest"
	"time"

	"github.com/google/uuid"

	"github.com/osrg/gobgp/v4/api"
	"github.com/osrg/gobgp/v4/internal/pkg/table"
	"github.com/osrg/gobgp/v4/internal/verif/vlib"
	"github.com/osrg/gobgp/v4/pkg/apiutil"
	"github.com/osrg/gobgp/v4/pkg/packet/bgp"
)

type c20Op struct {
	kind  string
	start int64
	done  atomic.Bool
}

type c20Run struct {
	h       *c01Hist
	rec     *vlib.Rec
	mu      sync.Mutex
	ops     []*c20Op
	wg      sync.WaitGroup
	clock   atomic.Int64
	overlap map[string]bool
	active  map[string]int
	yieldN  atomic.Int64
	sig     atomic.Uint64
	extraN  int
}

func (c *c20Run) spawn(kind string, f func()) {
	op := &c20Op{kind: kind, start: c.clock.Add(1)}
	c.mu.Lock()
	c.ops = append(c.ops, op)
	for k, n := range c.active {
		if n > 0 && k != kind {
			a, b := k, kind
			if a > b {
				a, b = b, a
			}
			c.overlap[a+"+"+b] = true
		}
	}
	c.active[kind]++
	c.mu.Unlock()
	c.wg.Add(1)
	go func() {
		defer c.wg.Done()
		f()
		op.done.Store(true)
		c.mu.Lock()
		c.active[kind]--
		c.mu.Unlock()
	}()
}

func (c *c20Run) outstanding() []string {
	c.mu.Lock()
	defer c.mu.Unlock()
	var out []string
	for _, o := range c.ops {
		if !o.done.Load() {
			out = append(out, o.kind)
		}
	}
	return out
}

var c20Bg = context.Background()

func (c *c20Run) mgmtOp(r *rand.Rand) {
	s := c.h.n.s
	h := c.h
	pick := func() string { return h.peers[r.IntN(len(h.peers))].spec.Addr }
	switch r.IntN(16) {
	case 0: // add and later delete an extra peer (never connected, or connected briefly)
		c.extraN++
		extra := c.extraN // (captured by value: the spawned goroutine must not read the harness's counter)
		addr := fmt.Sprintf("10.0.1.%d", extra)
		c.spawn("add-delete-peer", func() {
			p := &api.Peer{Conf: &api.PeerConf{NeighborAddress: addr, PeerAsn: uint32(65200 + extra%5)}, Transport: &api.Transport{PassiveMode: true}}
			if s.AddPeer(c20Bg, &api.AddPeerRequest{Peer: p}) == nil {
				s.ListPeer(c20Bg, &api.ListPeerRequest{Address: addr}, func(*api.Peer) {})
				s.DeletePeer(c20Bg, &api.DeletePeerRequest{Address: addr})
			}
		})
	case 1:
		addr := pick()
		desc := fmt.Sprintf("d%d", r.IntN(100))
		c.spawn("update-peer", func() {
			var cur *api.Peer
			s.ListPeer(c20Bg, &api.ListPeerRequest{Address: addr}, func(p *api.Peer) { cur = p })
			if cur != nil {
				cur.Conf.Description = desc
				s.UpdatePeer(c20Bg, &api.UpdatePeerRequest{Peer: cur, DoSoftResetIn: true})
			}
		})
	case 2:
		name := fmt.Sprintf("ps%d", r.IntN(3))
		polPfx, polMed, polExport, polDelete := c01V4Pool[r.IntN(len(c01V4Pool))], int64(r.IntN(50)), r.IntN(2) == 0, r.IntN(2) == 0
		c.spawn("policy-edit", func() {
			ds := &api.DefinedSet{DefinedType: api.DefinedType_DEFINED_TYPE_PREFIX, Name: name,
				Prefixes: []*api.Prefix{{IpPrefix: polPfx, MaskLengthMin: 16, MaskLengthMax: 32}}}
			s.AddDefinedSet(c20Bg, &api.AddDefinedSetRequest{DefinedSet: ds})
			st := &api.Statement{Name: "st-" + name, Conditions: &api.Conditions{PrefixSet: &api.MatchSet{Name: name, Type: api.MatchSet_TYPE_ANY}},
				Actions: &api.Actions{RouteAction: api.RouteAction_ROUTE_ACTION_ACCEPT, Med: &api.MedAction{Type: api.MedAction_TYPE_REPLACE, Value: polMed}}}
			pol := &api.Policy{Name: "pol-" + name, Statements: []*api.Statement{st}}
			s.AddPolicy(c20Bg, &api.AddPolicyRequest{Policy: pol, ReferExistingStatements: false})
			dir := api.PolicyDirection_POLICY_DIRECTION_IMPORT
			if polExport {
				dir = api.PolicyDirection_POLICY_DIRECTION_EXPORT
			}
			as := &api.PolicyAssignment{Name: table.GLOBAL_RIB_NAME, Direction: dir, Policies: []*api.Policy{{Name: "pol-" + name}}, DefaultAction: api.RouteAction_ROUTE_ACTION_ACCEPT}
			s.AddPolicyAssignment(c20Bg, &api.AddPolicyAssignmentRequest{Assignment: as})
			s.ListPolicy(c20Bg, &api.ListPolicyRequest{}, func(*api.Policy) {})
			s.ListPolicyAssignment(c20Bg, &api.ListPolicyAssignmentRequest{Name: table.GLOBAL_RIB_NAME}, func(*api.PolicyAssignment) {})
			if polDelete {
				s.DeletePolicyAssignment(c20Bg, &api.DeletePolicyAssignmentRequest{Assignment: as})
				s.DeletePolicy(c20Bg, &api.DeletePolicyRequest{Policy: pol, All: true})
				s.DeleteDefinedSet(c20Bg, &api.DeleteDefinedSetRequest{DefinedSet: ds, All: true})
			}
		})
	case 3:
		id := uint32(1 + r.IntN(3))
		c.spawn("vrf", func() {
			rd, _ := apiutil.MarshalRD(bgp.NewRouteDistinguisherTwoOctetAS(65000, id))
			rt, _ := apiutil.MarshalRTs([]bgp.ExtendedCommunityInterface{bgp.NewTwoOctetAsSpecificExtended(bgp.EC_SUBTYPE_ROUTE_TARGET, 65000, id, true)})
			name := fmt.Sprintf("vrf%d", id)
			if s.AddVrf(c20Bg, &api.AddVrfRequest{Vrf: &api.Vrf{Name: name, Rd: rd, ImportRt: rt, ExportRt: rt, Id: id}}) == nil {
				s.ListVrf(c20Bg, &api.ListVrfRequest{}, func(*api.Vrf) {})
				s.DeleteVrf(c20Bg, &api.DeleteVrfRequest{Name: name})
			}
		})
	case 4, 5:
		pfx := c01V4Pool[r.IntN(len(c01V4Pool))]
		c.spawn("api-path", func() {
			nl, _ := bgp.NewIPAddrPrefix(mustPrefix(pfx))
			nh, _ := bgp.NewPathAttributeNextHop(mustAddr("10.0.0.1"))
			res, err := s.AddPath(apiutil.AddPathRequest{Paths: []*apiutil.Path{{Family: bgp.RF_IPv4_UC, Nlri: nl, Attrs: []bgp.PathAttributeInterface{bgp.NewPathAttributeOrigin(0), nh}}}})
			if err == nil && len(res) == 1 && res[0].Error == nil {
				s.DeletePath(apiutil.DeletePathRequest{UUIDs: []uuid.UUID{res[0].UUID}})
			}
		})
	case 6:
		addr := pick()
		dirs := []api.ResetPeerRequest_Direction{api.ResetPeerRequest_DIRECTION_IN, api.ResetPeerRequest_DIRECTION_OUT, api.ResetPeerRequest_DIRECTION_BOTH}
		d := dirs[r.IntN(3)]
		c.spawn("soft-reset", func() { s.ResetPeer(c20Bg, &api.ResetPeerRequest{Address: addr, Soft: true, Direction: d}) })
	case 7:
		addr := pick()
		c.spawn("hard-reset", func() { s.ResetPeer(c20Bg, &api.ResetPeerRequest{Address: addr, Communication: "verif"}) })
	case 8:
		addr := pick()
		c.spawn("disable-enable", func() {
			s.DisablePeer(c20Bg, &api.DisablePeerRequest{Address: addr})
			s.ListPeer(c20Bg, &api.ListPeerRequest{Address: addr}, func(*api.Peer) {})
			s.EnablePeer(c20Bg, &api.EnablePeerRequest{Address: addr})
		})
	case 9:
		addr := pick()
		c.spawn("shutdown-enable", func() {
			s.ShutdownPeer(c20Bg, &api.ShutdownPeerRequest{Address: addr, Communication: "verif"})
			s.EnablePeer(c20Bg, &api.EnablePeerRequest{Address: addr})
		})
	case 10, 11:
		which := r.IntN(3)
		watchFor := time.Duration(1+r.IntN(50)) * time.Millisecond
		c.spawn("watcher", func() {
			ctx, cancel := context.WithCancel(c20Bg)
			var n atomic.Int64
			cb := WatchEventMessageCallbacks{
				OnPathUpdate: func([]*apiutil.Path, time.Time) { n.Add(1) },
				OnBestPath:   func([]*apiutil.Path, time.Time) { n.Add(1) },
				OnPathEor:    func(*apiutil.Path, time.Time) { n.Add(1) },
				OnPeerUpdate: func(*apiutil.WatchEventMessage_PeerEvent, time.Time) { n.Add(1) },
			}
			var err error
			switch which {
			case 0:
				err = s.WatchEvent(ctx, cb, WatchBestPath(true), WatchPeer())
			case 1:
				err = s.WatchEvent(ctx, cb, WatchUpdate(true, "", ""), WatchEor(true))
			default:
				err = s.WatchEvent(ctx, cb, WatchPostUpdate(true, "", ""), WatchPeer())
			}
			_ = err
			time.Sleep(watchFor) // virtual
			cancel()
		})
	default:
		addr := pick()
		c.spawn("readers", func() {
			s.ListPath(apiutil.ListPathRequest{TableType: api.TableType_TABLE_TYPE_GLOBAL, Family: bgp.RF_IPv4_UC}, func(bgp.NLRI, []*apiutil.Path) {})
			s.ListPath(apiutil.ListPathRequest{TableType: api.TableType_TABLE_TYPE_ADJ_IN, Name: addr, Family: bgp.RF_IPv4_UC, EnableFiltered: true}, func(bgp.NLRI, []*apiutil.Path) {})
			s.ListPath(apiutil.ListPathRequest{TableType: api.TableType_TABLE_TYPE_ADJ_OUT, Name: addr, Family: bgp.RF_IPv4_UC}, func(bgp.NLRI, []*apiutil.Path) {})
			s.ListPeer(c20Bg, &api.ListPeerRequest{EnableAdvertised: true}, func(*api.Peer) {})
			s.GetTable(c20Bg, &api.GetTableRequest{TableType: api.TableType_TABLE_TYPE_GLOBAL, Family: &api.Family{Afi: api.Family_AFI_IP, Safi: api.Family_SAFI_UNICAST}})
			s.GetBgp(c20Bg, &api.GetBgpRequest{})
		})
	}
}

// c20GobgpGoroutines returns the stacks of goroutines (other than the caller) that are still
// executing gobgp or InfiniteChannel code.
func c20GobgpGoroutines() []string {
	buf := make([]byte, 16<<20)
	buf = buf[:runtime.Stack(buf, true)]
	var out []string
	for i, g := range strings.Split(string(buf), "\n\n") {
		if i == 0 {
			continue // the calling goroutine
		}
		if !(strings.Contains(g, "osrg/gobgp/v4/pkg/server.") || strings.Contains(g, "eapache/channels") || strings.Contains(g, "osrg/gobgp/v4/internal/pkg/table.")) {
			continue
		}
		// harness goroutines (speakers' readers, this test) live in the same package: filter by function names
		lines := strings.Split(g, "\n")
		harness := false
		gobgp := false
		for _, l := range lines {
			if strings.HasPrefix(l, "\t") || strings.HasPrefix(l, "goroutine ") || strings.HasPrefix(l, "created by") {
				continue
			}
			if strings.Contains(l, "simSpeaker") || strings.Contains(l, "c20") || strings.Contains(l, "c01") || strings.Contains(l, "TestVerif") {
				harness = true
			} else if strings.Contains(l, "osrg/gobgp/v4/pkg/server.") || strings.Contains(l, "eapache/channels") || strings.Contains(l, "internal/pkg/table.") {
				gobgp = true
			}
		}
		if gobgp && !harness {
			out = append(out, g)
		}
	}
	return out
}

func c20TopFunc(stack string) string {
	for _, l := range strings.Split(stack, "\n") {
		if strings.HasPrefix(l, "\t") || strings.HasPrefix(l, "goroutine ") {
			continue
		}
		if strings.Contains(l, "osrg/gobgp") || strings.Contains(l, "eapache/channels") {
			if i := strings.LastIndex(l, "("); i > 0 {
				l = l[:i]
			}
			return l[strings.LastIndex(l, "/")+1:]
		}
	}
	return "unknown"
}

func TestVerifC20(t *testing.T) {
	rec := vlib.Open("C20")
	defer rec.Close()
	total := vlib.Scale(480, 6000)
	if s := envIntDefault("VERIF_C20_CASES", 0); s > 0 {
		total = s
	}
	vlib.Cases(total, func(idx int) {
		rec.Mark(fmt.Sprintf("c20 history %d", idx), true)
		synctest.Test(t, func(t *testing.T) { c20History(t, rec, idx) })
	})
	verifHookPtr.Store(nil)
}

func envIntDefault(name string, def int) int {
	var v int
	if _, err := fmt.Sscan(strings.TrimSpace(os.Getenv(name)), &v); err == nil {
		return v
	}
	return def
}

func c20History(t *testing.T, rec *vlib.Rec, idx int) {
	r := vlib.CaseRand("c20", idx)
	n := simStart(t, &api.Global{Asn: simLocalAS, RouterId: "1.1.1.1"})
	h := &c01Hist{t: t, rec: rec, idx: idx, r: r, n: n, apiUU: map[string][]byte{}, looped: map[string]map[string]bool{}, events: map[string]int{}, tolerateDown: true}
	c := &c20Run{h: h, rec: rec, overlap: map[string]bool{}, active: map[string]int{}}
	// schedule diversification through the lock-free yield points in gobgp
	ysig, ycount, yun := simInstallYield(r.Uint64(), true)
	defer yun()

	// graceful restart / long-lived graceful restart on some peers, with restart times of a few (virtual)
	// seconds so that the restart timer, the LLGR timers and their expiry fall inside the history (ticks,
	// re-establishment back-off) and management operations hit peers in every GR phase. Drawn from a
	// stream of its own: the rest of the history is what it was without GR.
	gr := vlib.CaseRand("c20gr", idx)
	for _, ps := range c01GenPeers(r) {
		if gr.IntN(2) == 0 {
			ps = c20WithGR(ps, gr)
			rec.Count("peers_with_graceful_restart", 1)
		}
		if gr.IntN(3) == 0 {
			// a real hold timer: the speaker sends KEEPALIVEs itself and can be told to go silent, so that
			// hold-timer expiry (alone, or crossing the speaker's own NOTIFICATION + close) happens too
			ps.Hold, ps.Keepalive = uint16(3*(1+gr.IntN(3))), true
			rec.Count("peers_with_hold_timer", 1)
		}
		sp, err := n.addPeer(ps)
		if err != nil {
			rec.Inconclusive("c20: AddPeer: " + err.Error())
			n.stop()
			synctest.Wait()
			return
		}
		h.peers = append(h.peers, &c01Peer{spec: ps, sp: sp, ann: map[string]map[uint32]bool{}})
	}
	synctest.Wait()
	for _, p := range h.peers {
		if p.sp.bringUp(40) == nil {
			p.up = true
		}
	}
	rec.Eval()
	nEvents := 30 + r.IntN(90)
	stopAt := nEvents
	if r.IntN(3) == 0 {
		stopAt = r.IntN(nEvents) // shut down mid-history, possibly mid-burst
	}
	for i := 0; i < stopAt; i++ {
		// sessions may have been torn down by a management client: resynchronise the harness's idea
		for _, p := range h.peers {
			if p.up {
				select {
				case <-p.sp.done:
					p.up = false
					p.ann = map[string]map[uint32]bool{}
				default:
				}
			}
		}
		if r.IntN(3) == 0 {
			c.mgmtOp(r)
			rec.Count("mgmt_ops", 1)
		}
		if gr.IntN(12) == 0 {
			for _, p := range h.peers {
				if p.up && p.spec.Keepalive {
					crossing := gr.IntN(2) == 0
					p.sp.goSilent(crossing)
					rec.Count("hold_timer_expiries_provoked", 1)
					rec.Count("hold_timer_expiries_crossing_peer_notification", b2i(crossing))
					if gr.IntN(2) == 0 {
						time.Sleep(time.Duration(p.spec.Hold)*time.Second + time.Second)
					}
					break
				}
			}
		}
		h.step()
		rec.Count("events", 1)
		if r.IntN(6) == 0 {
			synctest.Wait()
		}
	}
	rec.Count("histories_stopped_midway", b2i(stopAt < nEvents))

	// ---- lost wake-up / deadlock oracle: every API call returns
	for _, p := range h.peers {
		p.sp.setPaused(false)
	}
	synctest.Wait()
	if out := c.outstanding(); len(out) > 0 {
		time.Sleep(20 * time.Minute) // virtual: beyond every timer gobgp can have armed in this workload
		synctest.Wait()
		if out = c.outstanding(); len(out) > 0 {
			sort.Strings(out)
			w := h.witness("api calls outstanding at quiescence")
			w["outstanding"] = out
			st := make([]byte, 1<<20)
			w["stacks"] = string(st[:runtime.Stack(st, true)])
			rec.Violation("c20:api-call-never-returns:"+out[0], fmt.Sprintf("API call(s) %v have not returned although every goroutine is durably blocked and virtual time advanced 20 min", out), w)
		}
	}
	c.wg.Wait()
	rec.Count("api_calls_completed", len(c.ops))

	// ---- shutdown oracle (reached with peers in every graceful-restart phase: some histories let the
	// restart / LLGR timers run out first, some shut down while they are armed)
	c20CountRestarting(n, rec, "before_timers_ran")
	if w := gr.IntN(3); w > 0 {
		time.Sleep(time.Duration(w*w) * 3 * time.Second)
		synctest.Wait()
		c20CountRestarting(n, rec, "after_timers_ran")
	}
	if r.IntN(2) == 0 {
		for _, p := range h.peers {
			n.s.DeletePeer(c20Bg, &api.DeletePeerRequest{Address: p.spec.Addr})
		}
		rec.Count("shutdown_after_deleting_all_peers", 1)
	}
	n.s.Stop()
	synctest.Wait()
	for _, p := range h.peers {
		p.sp.mu.Lock()
		hadConn := p.sp.c != nil
		p.sp.mu.Unlock()
		if !hadConn {
			continue
		}
		select {
		case <-p.sp.done:
			rec.Count("connections_seen_closed", 1)
		default:
			if p.up {
				w := h.witness("after Stop()")
				w["peer"] = p.spec.Addr
				rec.Violation("c20:connection-left-open-after-stop:"+p.spec.Kind.String(), fmt.Sprintf("after Stop() the connection to %s is still open (the speaker's reader saw no EOF)", p.spec.Addr), w)
			}
		}
	}
	if left := c20GobgpGoroutines(); len(left) > 0 {
		w := h.witness("after Stop()")
		w["goroutines"] = left
		rec.Violation("c20:goroutine-left-after-stop:"+c20TopFunc(left[0]), fmt.Sprintf("%d gobgp goroutine(s) still alive after Stop() and quiescence, first in %s", len(left), c20TopFunc(left[0])), w)
	} else {
		rec.Count("clean_shutdowns", 1)
	}
	n.stop()
	synctest.Wait()

	var ov []string
	for k := range c.overlap {
		ov = append(ov, k)
	}
	sort.Strings(ov)
	if len(ov) > 0 {
		rec.Nontrivial(fmt.Sprintf("%s|%x", vlib.Hash(strings.Join(ov, ",")), ysig()))
		rec.Count("histories_with_overlapping_ops", 1)
	}
	rec.Count("yield_points_reached", int(ycount()))
	for k, v := range h.events {
		rec.Count("ev_"+k, v)
	}
	if idx%53 == 0 {
		kinds := map[string]int{}
		for _, o := range c.ops {
			kinds[o.kind]++
		}
		rec.Sample(map[string]any{"case": idx, "events": h.events, "mgmt_ops": kinds, "overlapping_op_kinds": ov, "interleaving_signature": fmt.Sprintf("%x", ysig()), "gomaxprocs": runtime.GOMAXPROCS(0)})
	}
}

// c20WithGR enables graceful restart (helper role) and, in half of the cases, long-lived graceful
// restart for the peer, on gobgp's side and in the scripted speaker's OPEN.
func c20WithGR(ps simPeerSpec, r *rand.Rand) simPeerSpec {
	restart := uint32(1 + r.IntN(4))
	llgr := r.IntN(2) == 0
	llTime := uint32(1 + r.IntN(5))
	notif := r.IntN(2) == 0
	fams := ps.families()
	prevExtra, prevMod := ps.Extra, ps.SpeakerMod
	ps.Extra = func(p *api.Peer) {
		if prevExtra != nil {
			prevExtra(p)
		}
		p.GracefulRestart = &api.GracefulRestart{Enabled: true, RestartTime: restart, NotificationEnabled: notif, LonglivedEnabled: llgr}
		for _, af := range p.AfiSafis {
			af.MpGracefulRestart = &api.MpGracefulRestart{Config: &api.MpGracefulRestartConfig{Enabled: true}}
			if llgr {
				af.LongLivedGracefulRestart = &api.LongLivedGracefulRestart{Config: &api.LongLivedGracefulRestartConfig{Enabled: true, RestartTime: llTime}}
			}
		}
	}
	ps.SpeakerMod = func(c *simSpeakerConf) {
		if prevMod != nil {
			prevMod(c)
		}
		var gt []*bgp.CapGracefulRestartTuple
		var lt []*bgp.CapLongLivedGracefulRestartTuple
		for _, f := range fams {
			gt = append(gt, bgp.NewCapGracefulRestartTuple(f, true))
			lt = append(lt, bgp.NewCapLongLivedGracefulRestartTuple(f, true, llTime))
		}
		c.ExtraCaps = append(c.ExtraCaps, bgp.NewCapGracefulRestart(false, notif, uint16(restart), gt))
		if llgr {
			c.ExtraCaps = append(c.ExtraCaps, bgp.NewCapLongLivedGracefulRestart(lt))
		}
	}
	return ps
}

// c20CountRestarting records (coverage only) how many peers gobgp holds in the graceful-restart helper state.
func c20CountRestarting(n *simNet, rec *vlib.Rec, when string) {
	n.s.ListPeer(c20Bg, &api.ListPeerRequest{}, func(p *api.Peer) {
		if g := p.GetGracefulRestart(); g != nil && g.PeerRestarting {
			rec.Count("peers_in_restarting_state_"+when, 1)
		}
	})
}

func b2i(b bool) int {
	if b {
		return 1
	}
	return 0
}
